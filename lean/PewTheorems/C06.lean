import PewProofs.Calib

/-! # C06 — property theorems (statements only depend on `PewModel.Calib`)

`l : List Pt` are the (x, y, w) triples handed to `weighted_linreg`, i.e. the rows left after
rows containing NaN are set aside (`fitPts wt rows`).  The property's hypothesis "at least two
distinct concentrations and positive weights" is `∀ p ∈ l, 0 < p.w` (the theorems need only `0 ≤`)
and `0 < D l`, which `D_pos_iff` shows to be the same thing. -/
namespace Pew.Calib

/-- the residuals of the fitted line are weight-orthogonal to 1 and to x -/
theorem normal_equations (l : List Pt) (hD : D l ≠ 0) (hS : Sw l ≠ 0) :
    S (fun p => p.w * (p.y - (gradient l * p.x + intercept l))) l = 0 ∧
    S (fun p => p.w * (p.y - (gradient l * p.x + intercept l)) * p.x) l = 0 := by
  have e1 := normal_eq1 l hS
  have e2 := normal_eq2 l hD hS
  rw [resid_sum, resid_x_sum]
  exact ⟨e1, e2⟩

/-- no other line has a smaller weighted residual sum -/
theorem optimal (l : List Pt) (hw : ∀ p ∈ l, 0 ≤ p.w) (hD : 0 < D l) (a b : Rat) :
    cost (gradient l) (intercept l) l ≤ cost a b l := by
  have hS : Sw l ≠ 0 := ne_of_gt (Sw_pos_of_D_pos l hw hD)
  have hD' : D l ≠ 0 := ne_of_gt hD
  have e1 := normal_eq1 l hS
  have e2 := normal_eq2 l hD' hS
  have q := quad_nonneg (a - gradient l) (b - intercept l) l hw
  rw [cost_expand, cost_expand]
  generalize gradient l = g at *
  generalize intercept l = c at *
  have key : (Swyy l - 2 * a * Swxy l - 2 * b * Swy l + a ^ 2 * Swxx l
        + 2 * a * b * Swx l + b ^ 2 * Sw l)
      - (Swyy l - 2 * g * Swxy l - 2 * c * Swy l + g ^ 2 * Swxx l
        + 2 * g * c * Swx l + c ^ 2 * Sw l)
      = ((a - g) ^ 2 * Swxx l + 2 * (a - g) * (b - c) * Swx l + (b - c) ^ 2 * Sw l)
        - 2 * (a - g) * (Swxy l - g * Swxx l - c * Swx l)
        - 2 * (b - c) * (Swy l - g * Swx l - c * Sw l) := by ring
  rw [e1, e2] at key
  linarith

/-- the fit is determined (`D > 0`) exactly when two positively weighted rows have distinct
concentrations — the hypothesis of the property -/
theorem D_pos_iff (l : List Pt) (hw : ∀ p ∈ l, 0 ≤ p.w) :
    0 < D l ↔ ∃ p ∈ l, ∃ q ∈ l, 0 < p.w ∧ 0 < q.w ∧ p.x ≠ q.x := by
  constructor
  · exact D_pos_exists l hw
  · rintro ⟨p, hp, q, hq, hpw, hqw, hx⟩
    exact D_pos_of l hw p q hp hq hpw hqw hx

/-- the mechanism (closed-form solution of the normal equations) is the textbook line:
slope = weighted covariance / weighted variance, through the weighted centroid -/
theorem fit_is_centred_form (l : List Pt) (hD : D l ≠ 0) (hS : Sw l ≠ 0) :
    gradient l = specGradient l ∧ intercept l = specIntercept l := by
  have hg : gradient l = specGradient l := by
    unfold specGradient gradient
    rw [sxy_eq l hS, sxx_eq l hS]
    field_simp
  refine ⟨hg, ?_⟩
  unfold specIntercept intercept meanX meanY
  rw [← hg]
  field_simp

/-- `weighted_rsq` (weighted covariance matrix, normalised, clipped, squared) is the squared
weighted correlation `N² / (D · Dy)`; in particular the clip never acts -/
theorem rsq_is_squared_correlation (l : List Pt) (hw : ∀ p ∈ l, 0 ≤ p.w) (hD : 0 < D l)
    (hDy : 0 < Dy l) : rsqMech l = some (specRsq l) :=
  rsqMech_eq l hw hD hDy

/-- 0 ≤ r² ≤ 1 (weighted Cauchy–Schwarz), for the value the mechanism returns -/
theorem rsq_bounds (l : List Pt) (hw : ∀ p ∈ l, 0 ≤ p.w) (hD : 0 < D l) (hDy : 0 < Dy l) :
    ∃ r, rsqMech l = some r ∧ 0 ≤ r ∧ r ≤ 1 :=
  ⟨specRsq l, rsqMech_eq l hw hD hDy, specRsq_bounds l hw hD hDy⟩

/-- reordering the calibration points (with their custom weights) changes nothing: every
attribute set by `update_linreg` is the same, for every weighting -/
theorem fit_perm (wt : Weighting) (r₁ r₂ : List Row) (h : r₁.Perm r₂) :
    updateLinreg wt r₁ = updateLinreg wt r₂ := by
  rw [updateLinreg_eq, updateLinreg_eq]
  have hu : (usableRows r₁).Perm (usableRows r₂) := h.filter _
  rw [hu.length_eq, weightedLinreg_perm (fitPts_perm wt h)]

/-- rows containing NaN have no influence at all: two point sets with the same usable rows (in
the same order) give the same fit -/
theorem fit_nan_rows_irrelevant (wt : Weighting) (r₁ r₂ : List Row)
    (h : usableRows r₁ = usableRows r₂) : updateLinreg wt r₁ = updateLinreg wt r₂ := by
  rw [updateLinreg_eq, updateLinreg_eq]
  unfold fitPts
  rw [h]

/-- inserting a row with NaN in either or both cells at any position leaves the fit unchanged -/
theorem fit_nan_interleave (wt : Weighting) (a b : List Row) (n : Row) (hn : n.x = none ∨ n.y = none) :
    updateLinreg wt (a ++ n :: b) = updateLinreg wt (a ++ b) := by
  apply fit_nan_rows_irrelevant
  have : n.usable = false := by
    unfold Row.usable
    rcases hn with h | h <;> simp [h]
  simp [usableRows, List.filter_append, this]

/-- the mechanism before e83c784 (weights derived before NaN rows are set aside) does not have
this property: `[[0,1],[1,2],[2,4]]` with `1/x`, and the same with `[0.5, NaN]` inserted -/
theorem old_nan_interleave_wrong :
    let wt := Weighting.builtin ⟨false, .inv⟩
    let a : List Row := [⟨some 0, some 1, none⟩]
    let b : List Row := [⟨some 1, some 2, none⟩, ⟨some 2, some 4, none⟩]
    let n : Row := ⟨some (1/2), none, none⟩
    (updateLinregOld wt (a ++ n :: b)).gradient ≠ (updateLinregOld wt (a ++ b)).gradient := by
  decide +kernel

/-- fewer than two usable points reset to the identity (gradient 1, intercept 0, no r², no error) -/
theorem few_points_identity (wt : Weighting) (rows : List Row) (h : (usableRows rows).length < 2) :
    updateLinreg wt rows = identityFit := by
  rw [updateLinreg_eq, if_pos h]

/-- applying the calibration to a response on the line returns the concentration -/
theorem calibrate_inverts (g c x : Rat) (hg : g ≠ 0) : calibrate g c (some (g * x + c)) = some x := by
  unfold calibrate
  split
  · next h => obtain ⟨hc, h1⟩ := h; subst hc; subst h1; simp
  · simp only [Option.bind_some]
    congr 1
    field_simp
    ring

/-- an identity calibration returns the data unchanged (NaN included) -/
theorem calibrate_identity (d : V) : calibrate identityFit.gradient identityFit.intercept d = d := by
  simp [calibrate, identityFit]

/-- NaN data stay NaN under every calibration -/
theorem calibrate_nan (g c : Rat) : calibrate g c none = none := by
  unfold calibrate; split <;> rfl

/-- the only data a calibration leaves where they are are the fixed points of its line -/
theorem calibrate_fixed_point_iff (g c q : Rat) (hg : g ≠ 0) :
    calibrate g c (some q) = some q ↔ g * q + c = q := by
  unfold calibrate
  split
  · next h => obtain ⟨hc, h1⟩ := h; subst hc; subst h1; simp
  · simp only [Option.bind_some, Option.some.injEq]
    rw [div_eq_iff hg]
    constructor <;> intro h <;> linarith

/-- "returns data unchanged" characterises the identity: a calibration (with a usable gradient) returns every
array unchanged exactly when gradient = 1 and intercept = 0 - however close to the identity another line is, it
moves data (it fixes at most the one value `c / (1 - g)`).  Together with `calibrate_inverts`: the shortcut in
`calibrate` may be taken for the exact identity only. -/
theorem calibrate_unchanged_iff_identity (g c : Rat) (hg : g ≠ 0) :
    (∀ d : V, calibrate g c d = d) ↔ (g = 1 ∧ c = 0) := by
  constructor
  · intro h
    have h0 := (calibrate_fixed_point_iff g c 0 hg).1 (h (some 0))
    have h1 := (calibrate_fixed_point_iff g c 1 hg).1 (h (some 1))
    constructor <;> linarith
  · rintro ⟨rfl, rfl⟩ d
    simp [calibrate]

/-! ### `calibrate` against the pure formula, and arrays -/

/-- mechanism = specification: the shortcut changes nothing — for every line with a usable gradient `calibrate`
(shortcut for the exact identity, arithmetic otherwise) is the formula `(r − c) / g`, NaN staying NaN.  In
particular the identity returns every value unchanged *because* `(r − 0) / 1 = r`, not because a branch says so. -/
theorem calibrate_is_formula (g c : Rat) (hg : g ≠ 0) (d : V) : calibrate g c d = specCalibrate g c d := by
  unfold calibrate specCalibrate
  split
  · next h => obtain ⟨hc, h1⟩ := h; subst hc; subst h1; cases d <;> simp
  · cases d with
    | none => rfl
    | some q => simp

/-- the returned value is THE concentration of the response: `calibrate` maps `r` to `x` exactly when `r` lies on
the line at `x` (so the result is determined by the property's clause alone, for every response — integer counts,
values below the blank, anything — not only for those built from a concentration) -/
theorem calibrate_eq_iff_on_line (g c r x : Rat) (hg : g ≠ 0) :
    calibrate g c (some r) = some x ↔ g * x + c = r := by
  rw [calibrate_is_formula g c hg]
  simp only [specCalibrate, Option.map_some, Option.some.injEq]
  rw [div_eq_iff hg]
  constructor <;> intro h <;> linarith

/-- …stated with the executable predicate the driver evaluates on every case -/
theorem onLine_calibrate (g c : Rat) (hg : g ≠ 0) (r : V) : onLine g c r (calibrate g c r) = true := by
  cases r with
  | none => simp [calibrate_nan, onLine]
  | some q =>
    rw [calibrate_is_formula g c hg]
    simp only [specCalibrate, Option.map_some, onLine, decide_eq_true_eq]
    field_simp
    ring

/-- arrays: calibrating the responses of any array of concentrations (NaN entries included) returns the array —
`calibrate ∘ response-of = id`, of any length (shape is carried by the flat order) -/
theorem calibrate_array_inverts (g c : Rat) (hg : g ≠ 0) (xs : List V) :
    (xs.map (fun x => x.map (fun q => g * q + c))).map (calibrate g c) = xs := by
  rw [List.map_map]
  conv_rhs => rw [← List.map_id xs]
  apply List.map_congr_left
  intro x _
  cases x with
  | none => exact calibrate_nan g c
  | some q => exact calibrate_inverts g c q hg

/-- …and the other way round: the responses of the calibrated array are the data (`response-of ∘ calibrate = id`),
so `calibrate` is a bijection of arrays: no two different arrays of responses share their concentrations, nothing
is truncated or merged -/
theorem calibrate_array_preimage (g c : Rat) (hg : g ≠ 0) (rs : List V) :
    (rs.map (calibrate g c)).map (fun x => x.map (fun q => g * q + c)) = rs := by
  rw [List.map_map]
  conv_rhs => rw [← List.map_id rs]
  apply List.map_congr_left
  intro r _
  cases r with
  | none => simp [calibrate_nan]
  | some q =>
    rw [Function.comp_apply, calibrate_is_formula g c hg]
    simp only [specCalibrate, Option.map_some, id, Option.some.injEq]
    field_simp
    ring

theorem calibrate_array_injective (g c : Rat) (hg : g ≠ 0) (r₁ r₂ : List V)
    (h : r₁.map (calibrate g c) = r₂.map (calibrate g c)) : r₁ = r₂ := by
  rw [← calibrate_array_preimage g c hg r₁, ← calibrate_array_preimage g c hg r₂, h]

/-! ### sessions: several operations on one object -/

/-- a `calibrate` call at the end of any session uses the line the object holds at that moment and nothing else
of its history -/
theorem session_calibrate_current_line (o : Fit) (pre : List Step) (d : List V) :
    run o (pre ++ [.calibrate d]) =
      run o pre ++ [d.map (calibrate (finalState o pre).gradient (finalState o pre).intercept)] := by
  rw [run_append]; rfl

/-- `update_linreg` overwrites whatever the object held: after a refit the object is the fit of the current
points and weighting -/
theorem session_refit_forgets (o : Fit) (pre : List Step) (wt : Weighting) (rows : List Row) :
    finalState o (pre ++ [.refit wt rows]) = updateLinreg wt rows := by
  rw [finalState_append]; rfl

/-- whatever line the object held before (fitted, assigned, constructed): once it is refitted on fewer than two
usable points, `calibrate` returns the data unchanged -/
theorem session_few_points_unchanged (o : Fit) (pre : List Step) (wt : Weighting) (rows : List Row) (d : List V)
    (h : (usableRows rows).length < 2) :
    run o (pre ++ [.refit wt rows, .calibrate d]) = run o pre ++ [d] := by
  rw [run_append]
  simp only [run, step, few_points_identity wt rows h, identityFit]
  congr 1
  have hid : calibrate 1 0 = id := funext (fun x => by simp [calibrate])
  rw [hid, List.map_id]

/-- whatever the object held before: once a line with a usable gradient is assigned, responses on that line are
mapped back to their concentrations (NaN stays NaN) -/
theorem session_inverts (o : Fit) (pre : List Step) (g c : Rat) (xs : List V) (hg : g ≠ 0) :
    run o (pre ++ [.assign g c, .calibrate (xs.map (fun x => x.map (fun q => g * q + c)))]) = run o pre ++ [xs] := by
  rw [run_append]
  simp only [run, step, List.map_map]
  congr 1
  have : ∀ x : V, (calibrate g c ∘ fun x : V => x.map (fun q => g * q + c)) x = x := by
    intro x
    cases x with
    | none => exact calibrate_nan g c
    | some q => exact calibrate_inverts g c q hg
  simp [List.map_congr_left (fun x _ => this x)]

/-- Safe mode never divides by zero: when some entry is finite and non-zero, every finite entry
(zero included) gets a finite weight, a zero gets the weight of the smallest non-zero level, and
on non-negative entries all these weights are positive. -/
theorem weights_finite (xs : List V) (k : Kind) (hnz : ∃ q : Rat, some q ∈ xs ∧ q ≠ 0) :
    (weightsFromWeighting xs k).length = xs.length ∧
    ∃ m : Rat, nanmin (xs.filter (fun v => !isZero v)) = some m ∧ m ≠ 0 ∧ some m ∈ xs ∧
      ∀ (i : Nat) (q : Rat), xs[i]? = some (some q) →
        ∃ w : Rat, (weightsFromWeighting xs k)[i]? = some (some w) ∧
          some w = applyKind k (some (if q = 0 then m else q)) ∧
          ((∀ a : Rat, some a ∈ xs → 0 ≤ a) → 0 < w) := by
  obtain ⟨q0, hq0, hq0ne⟩ := hnz
  have hlen : (weightsFromWeighting xs k).length = xs.length := by rw [wfw_eq_map]; simp
  refine ⟨hlen, ?_⟩
  -- the non-zero finite entries are not empty, so nanmin is one of them
  have hmemf : q0 ∈ (xs.filter (fun v => !isZero v)).filterMap id := by
    simp only [List.mem_filterMap, List.mem_filter, id]
    exact ⟨some q0, ⟨hq0, by simp [isZero, hq0ne]⟩, rfl⟩
  obtain ⟨m, hm⟩ := minRat_isSome _ (List.ne_nil_of_mem hmemf)
  obtain ⟨hmmem, hmle⟩ := minRat_mem _ m hm
  have hm' : some m ∈ xs ∧ m ≠ 0 := by
    simp only [List.mem_filterMap, List.mem_filter, id] at hmmem
    obtain ⟨v, ⟨hv, hvz⟩, rfl⟩ := hmmem
    refine ⟨hv, ?_⟩
    intro h0; subst h0; simp [isZero] at hvz
  refine ⟨m, hm, hm'.2, hm'.1, ?_⟩
  intro i q hi
  have hnotnan : xs.all (·.isNone) = false := by
    rw [List.all_eq_false]; exact ⟨some q0, hq0, by simp⟩
  have hnotzero : xs.all isZero = false := by
    rw [List.all_eq_false]; exact ⟨some q0, hq0, by simp [isZero, hq0ne]⟩
  have hw : wOf xs k (some q) = applyKind k (some (if q = 0 then m else q)) := by
    unfold wOf
    simp only [hnotnan, hnotzero, Bool.false_eq_true, if_false]
    have : nanmin (xs.filter (fun v => !isZero v)) = some m := hm
    rw [this]
    by_cases hq : q = 0
    · subst hq; simp [isZero]
    · simp [isZero, hq]
  have hne : (if q = 0 then m else q) ≠ 0 := by
    split
    · exact hm'.2
    · assumption
  have hget : (weightsFromWeighting xs k)[i]? = some (wOf xs k (some q)) := by
    rw [wfw_eq_map, List.getElem?_map, hi]; rfl
  rw [hget, hw]
  generalize hq' : (if q = 0 then m else q) = q' at *
  have hq'nn : (∀ a : Rat, some a ∈ xs → 0 ≤ a) → 0 < q' := by
    intro hall
    have : 0 ≤ q' := by
      rw [← hq']
      split
      · exact hall m hm'.1
      · exact hall q (List.mem_of_getElem? hi)
    exact lt_of_le_of_ne this (Ne.symm hne)
  cases k with
  | equal => exact ⟨1, rfl, rfl, fun _ => by norm_num⟩
  | lin => exact ⟨q', rfl, rfl, hq'nn⟩
  | inv =>
    refine ⟨1 / q', ?_, ?_, ?_⟩
    · simp [applyKind, recip, hne]
    · simp [applyKind, recip, hne]
    · intro hall; have := hq'nn hall; positivity
  | inv2 =>
    have h2 : q' * q' ≠ 0 := mul_ne_zero hne hne
    refine ⟨1 / (q' * q'), ?_, ?_, ?_⟩
    · simp [applyKind, recip, hne]
    · simp [applyKind, recip, hne]
    · intro hall; have := hq'nn hall; positivity

/-- for the built-in weightings the property's hypothesis "positive weights once NaN rows are set
aside" holds by itself: non-negative concentrations (responses for the y-based weightings) with at
least one non-zero value give strictly positive fit weights -/
theorem builtin_fit_weights_pos (b : Builtin) (rows : List Row)
    (hnn : ∀ r ∈ usableRows rows, ∀ q : Rat, (if b.onY then r.y else r.x) = some q → 0 ≤ q)
    (hnz : ∃ r ∈ usableRows rows, ∃ q : Rat, (if b.onY then r.y else r.x) = some q ∧ q ≠ 0) :
    ∀ p ∈ fitPts (.builtin b) rows, 0 < p.w := by
  intro p hp
  rw [fitPts_eq_map] at hp
  obtain ⟨r, hr, rfl⟩ := List.mem_map.mp hp
  generalize hus : usableRows rows = us at *
  let sel : Row → V := fun r => if b.onY then r.y else r.x
  have hxs : ∃ q : Rat, some q ∈ us.map sel ∧ q ≠ 0 := by
    obtain ⟨r0, hr0, q, hq, hq0⟩ := hnz
    exact ⟨q, List.mem_map.mpr ⟨r0, hr0, hq⟩, hq0⟩
  obtain ⟨-, m, -, -, -, hall⟩ := weights_finite (us.map sel) b.kind hxs
  -- the row is usable, so its selected cell is finite
  have husable : r.usable = true := by
    have : r ∈ usableRows rows := by rw [hus]; exact hr
    exact (List.mem_filter.mp this).2
  obtain ⟨q, hq⟩ : ∃ q : Rat, sel r = some q := by
    unfold Row.usable at husable
    simp only [Bool.and_eq_true] at husable
    by_cases hb : b.onY
    · obtain ⟨y, hy⟩ := Option.isSome_iff_exists.mp husable.2
      exact ⟨y, by simp [sel, hb, hy]⟩
    · obtain ⟨x, hx⟩ := Option.isSome_iff_exists.mp husable.1
      exact ⟨x, by simp [sel, hb, hx]⟩
  obtain ⟨i, hi, hget⟩ := List.mem_iff_getElem.mp hr
  have hxi : (us.map sel)[i]? = some (some q) := by
    rw [List.getElem?_map, List.getElem?_eq_getElem hi, hget]; simp [hq]
  obtain ⟨w, hw, -, hpos⟩ := hall i q hxi
  have hnn' : ∀ a : Rat, some a ∈ us.map sel → 0 ≤ a := by
    intro a ha
    obtain ⟨r1, hr1, h1⟩ := List.mem_map.mp ha
    exact hnn r1 hr1 a h1
  have hwpos := hpos hnn'
  have hrow : rowW (.builtin b) us r = some w := by
    have : (weightsFromWeighting (us.map sel) b.kind)[i]? = some (wOf (us.map sel) b.kind (sel r)) := by
      rw [wfw_eq_map, List.getElem?_map, List.getElem?_map, List.getElem?_eq_getElem hi, hget]; rfl
    rw [this] at hw
    exact Option.some.inj hw
  show 0 < (ptOf (.builtin b) us r).w
  simp only [ptOf, hrow, Option.getD_some]
  exact hwpos

/-! ## weights, entry by entry -/

/-- `weights_from_weighting` (masks, `nanmin`, replacement, then the formula on the whole array) is the
entry-by-entry specification: NaN everywhere for an all-NaN array, 1 everywhere for an all-zero array and
for `Equal`; otherwise NaN stays NaN, a non-zero value `q` gets `w(q)`, and a zero gets `w(m)` for the
smallest non-zero finite entry `m` — NaN if there is no such entry. -/
theorem weights_are_pointwise (xs : List V) (k : Kind) : weightsFromWeighting xs k = specWeights xs k :=
  weightsFromWeighting_eq_spec xs k

/-- `leastNonzero` is what its name says -/
theorem leastNonzero_is_least (xs : List V) :
    (∀ m, leastNonzero xs = some m → some m ∈ xs ∧ m ≠ 0 ∧ ∀ q : Rat, some q ∈ xs → q ≠ 0 → m ≤ q) ∧
    (leastNonzero xs = none ↔ ¬ ∃ q : Rat, some q ∈ xs ∧ q ≠ 0) :=
  ⟨leastNonzero_some xs, leastNonzero_none_iff xs⟩

/-- The exact extent of "a zero concentration never produces an infinite or NaN weight": for a weighting
other than `Equal`, the weight of a zero entry is NaN exactly when the array holds nothing but zeros and
NaNs, with at least one NaN (`Calibration.from_points([[0, 1], [nan, 2]], weights="1/x").weights` is
`[nan, nan]`).  It is never infinite: no branch divides by zero. -/
theorem zero_weight_nan_iff (xs : List V) (k : Kind) (i : Nat) (hi : xs[i]? = some (some 0)) (hk : k ≠ .equal) :
    (weightsFromWeighting xs k)[i]? = some none ↔
      (¬ ∃ q : Rat, some q ∈ xs ∧ q ≠ 0) ∧ ∃ j : Nat, xs[j]? = some none := by
  rw [weights_are_pointwise]
  unfold specWeights
  rw [List.getElem?_map, hi]
  simp only [Option.map_some, Option.some.injEq]
  have hmem : (some 0 : V) ∈ xs := List.mem_of_getElem? hi
  have hnotnan : xs.all (·.isNone) = false := by
    rw [List.all_eq_false]; exact ⟨some 0, hmem, by simp⟩
  unfold specWeight
  simp only [hnotnan, Bool.false_eq_true, if_false, if_neg hk, ne_eq, not_true_eq_false]
  by_cases hz : xs.all (fun u => u == some 0) = true
  · simp only [hz, if_true]
    constructor
    · intro h; simp at h
    · rintro ⟨_, j, hj⟩
      have := List.all_eq_true.1 hz none (List.mem_of_getElem? hj)
      simp at this
  · simp only [hz, Bool.false_eq_true, if_false, Option.map_eq_none_iff]
    rw [leastNonzero_none_iff]
    constructor
    · intro h
      refine ⟨h, ?_⟩
      have hz' : xs.all (fun u => u == some 0) = false := by simpa using hz
      rw [List.all_eq_false] at hz'
      obtain ⟨v, hv, hvz⟩ := hz'
      cases v with
      | none => exact List.getElem?_of_mem hv
      | some q =>
        exfalso
        apply h
        refine ⟨q, hv, fun hq => hvz ?_⟩
        subst hq; rfl
    · exact fun h => h.1

/-- …so: whenever some entry is finite and not zero (`hasNonzero`; implied by two distinct concentrations,
`two_levels_hasNonzero`), every finite entry — zeros included — has a finite weight -/
theorem weights_finite_of_nonzero (xs : List V) (k : Kind) (h : hasNonzero xs = true) :
    finiteAtFinite xs (weightsFromWeighting xs k) = true := by
  have hnz : ∃ q : Rat, some q ∈ xs ∧ q ≠ 0 := by
    unfold hasNonzero at h
    obtain ⟨v, hv, hp⟩ := List.any_eq_true.1 h
    cases v with
    | none => simp at hp
    | some q => exact ⟨q, hv, by simpa using hp⟩
  obtain ⟨hlen, m, _, _, _, hall⟩ := weights_finite xs k hnz
  unfold finiteAtFinite
  simp only [Bool.and_eq_true, beq_iff_eq, hlen, true_and]
  rw [List.all_eq_true]
  intro p hp
  obtain ⟨i, hi, hget⟩ := List.mem_iff_getElem.1 hp
  simp only [List.getElem_zip] at hget
  simp only [List.length_zip, hlen, Nat.min_self] at hi
  cases hx : xs[i]'hi with
  | none => rw [← hget]; simp [hx]
  | some q =>
    have hxi : xs[i]? = some (some q) := by rw [List.getElem?_eq_getElem hi, hx]
    obtain ⟨w, hw, _⟩ := hall i q hxi
    have hlt : i < (weightsFromWeighting xs k).length := by rw [hlen]; exact hi
    rw [List.getElem?_eq_getElem hlt] at hw
    simp only [Option.some.injEq] at hw
    rw [← hget]
    simp [hw]

/-- two finite entries with different values: one of them is not zero -/
theorem two_levels_hasNonzero (xs : List V) (p q : Rat) (hp : some p ∈ xs) (hq : some q ∈ xs) (hne : p ≠ q) :
    hasNonzero xs = true := by
  unfold hasNonzero
  rw [List.any_eq_true]
  by_cases h0 : p = 0
  · exact ⟨some q, hq, by simpa using fun hh => hne (h0.trans hh.symm)⟩
  · exact ⟨some p, hp, by simpa using h0⟩

/-! ## `error` -/

/-- the returned `error`² (computed from the fitted line's residuals) is the residual variance about the
textbook line written with raw sums, `(Σy² − 2gΣxy − 2cΣy + g²Σx² + 2gcΣx + n c²)/(n − 2)`; 0 for n ≤ 2 -/
theorem err2_is_residual_variance (l : List Pt) (hD : D l ≠ 0) (hS : Sw l ≠ 0) : err2 l = specErr2 l := by
  obtain ⟨hg, hc⟩ := fit_is_centred_form l hD hS
  unfold err2 specErr2
  simp only
  rw [← hg, ← hc]
  split
  · rw [resid_sq_expand]
  · rfl

/-- it is a variance: not negative (so `error` is a real number) -/
theorem err2_nonneg (l : List Pt) : 0 ≤ err2 l := by
  unfold err2
  split
  · next h =>
    apply div_nonneg
    · exact S_nonneg l (fun p _ => sq_nonneg _)
    · have : (2 : Rat) < (l.length : Rat) := by exact_mod_cast h
      linarith
  · exact le_refl _

/-! ## the whole fit clause against the NaN-free table

The three theorems below do not mention the mask `update_linreg` computes (`usableRows`): the table handed to pewlib is
related to the NaN-free table by `NanInsert` (NaN rows inserted anywhere, any number of them) and `List.Perm` (any
order), and the result is compared with the specification evaluated on the NaN-free table alone: entry-by-entry
weights (`specPts`), the textbook centred line, the squared weighted correlation, the residual variance. -/

/-- any number of rows with NaN in either or both cells, inserted at any positions, in any order of the whole table,
change nothing: the fit is the fit of the NaN-free table (generalises `fit_nan_interleave` from one inserted row to
all, and composes it with `fit_perm`) -/
theorem fit_nan_insert_perm (wt : Weighting) (clean rows rows' : List Row)
    (hins : NanInsert clean rows) (hperm : rows'.Perm rows) :
    updateLinreg wt rows' = updateLinreg wt clean := by
  rw [fit_perm wt rows' rows hperm]
  apply fit_nan_rows_irrelevant
  rw [hins.usable_eq, hins.clean_usable]

/-- "fewer than two usable points reset to the identity instead of failing", with "usable" stated on the table itself:
whatever NaN rows surround fewer than two NaN-free rows, in whatever order -/
theorem few_usable_identity (wt : Weighting) (clean rows rows' : List Row)
    (hins : NanInsert clean rows) (hperm : rows'.Perm rows) (h : clean.length < 2) :
    updateLinreg wt rows' = identityFit := by
  rw [fit_nan_insert_perm wt clean rows rows' hins hperm]
  apply few_points_identity
  rw [hins.clean_usable]; exact h

/-- The fit clause of the property in one statement.  For every NaN-free table `clean` whose specified weights are
positive and which holds two distinct concentrations, every table `rows'` obtained from it by inserting NaN rows
anywhere and reordering, and every supported weighting: the gradient and intercept `update_linreg` stores are the
textbook weighted least-squares line of `clean`, no line has a smaller weighted residual sum, r² is the squared
weighted correlation and lies in [0, 1] (where the responses are not constant), `error`² is the residual variance. -/
theorem fit_is_specification (wt : Weighting) (clean rows rows' : List Row)
    (hins : NanInsert clean rows) (hperm : rows'.Perm rows)
    (hw : ∀ p ∈ specPts wt clean, 0 < p.w)
    (hx : ∃ p ∈ specPts wt clean, ∃ q ∈ specPts wt clean, p.x ≠ q.x) :
    (updateLinreg wt rows').gradient = specGradient (specPts wt clean) ∧
    (updateLinreg wt rows').intercept = specIntercept (specPts wt clean) ∧
    (∀ a b : Rat, cost (updateLinreg wt rows').gradient (updateLinreg wt rows').intercept (specPts wt clean)
        ≤ cost a b (specPts wt clean)) ∧
    (0 < Dy (specPts wt clean) →
      (updateLinreg wt rows').rsq = some (some (specRsq (specPts wt clean))) ∧
      0 ≤ specRsq (specPts wt clean) ∧ specRsq (specPts wt clean) ≤ 1) ∧
    (updateLinreg wt rows').err2 = some (specErr2 (specPts wt clean)) := by
  obtain ⟨p, hp, q, hq, hpq⟩ := hx
  have hw0 : ∀ p ∈ specPts wt clean, 0 ≤ p.w := fun p hp => le_of_lt (hw p hp)
  have hD : 0 < D (specPts wt clean) := D_pos_of _ hw0 p q hp hq (hw p hp) (hw q hq) hpq
  have hS : Sw (specPts wt clean) ≠ 0 := ne_of_gt (Sw_pos_of_D_pos _ hw0 hD)
  have hlen : ¬ (usableRows clean).length < 2 := by
    rw [hins.clean_usable, ← specPts_length wt clean]
    have := length_ge_two_of_ne hp hq (fun h => hpq (by rw [h]))
    omega
  rw [fit_nan_insert_perm wt clean rows rows' hins hperm, updateLinreg_eq, if_neg hlen,
    fitPts_eq_specPts wt clean hins.clean_usable]
  obtain ⟨hg, hc⟩ := fit_is_centred_form _ (ne_of_gt hD) hS
  refine ⟨hg, hc, fun a b => optimal _ hw0 hD a b, fun hDy => ⟨?_, specRsq_bounds _ hw0 hD hDy⟩, ?_⟩
  · show some (rsqMech _) = _
    rw [rsq_is_squared_correlation _ hw0 hD hDy]
  · show some (err2 _) = _
    rw [err2_is_residual_variance _ (ne_of_gt hD) hS]

/-! ## non-vacuity -/

def exRows : List Row :=
  [⟨some 0, some 1, some 1⟩, ⟨some (1/2), none, some 2⟩, ⟨some 1, some 2, some 3⟩, ⟨some 2, some 4, some 1⟩]

def exPts : List Pt := fitPts (.builtin ⟨false, .inv⟩) exRows

-- the hypotheses of the fit theorems hold on a ladder containing 0 with `1/x` weights and a NaN row
example : (∀ p ∈ exPts, 0 ≤ p.w) ∧ 0 < D exPts ∧ 0 < Dy exPts ∧ Sw exPts ≠ 0 := by decide +kernel
example : exPts.length = 3 ∧ gradient exPts = 10/7 ∧ intercept exPts = 6/7 := by decide +kernel
example : fitHyp exPts = true := by decide +kernel
-- weights_finite: a zero and a non-zero level
example : ∃ q : Rat, some q ∈ [some 0, none, some (1/2), some 2] ∧ q ≠ 0 := ⟨2, by simp, by norm_num⟩
example : weightsFromWeighting [some 0, none, some (1/2), some 2] .inv = [some 2, none, some 2, some (1/2)] := by
  decide +kernel
-- the corner outside the hypothesis: only zeros and NaNs → the zero gets a NaN weight
example : weightsFromWeighting [some 0, none] .inv = [none, none] := by decide +kernel
example : ([some 0, none] : List V)[0]? = some (some 0) ∧ Kind.inv ≠ Kind.equal ∧
    (¬ ∃ q : Rat, some q ∈ ([some 0, none] : List V) ∧ q ≠ 0) ∧ ∃ j : Nat, ([some 0, none] : List V)[j]? = some none := by
  refine ⟨rfl, by decide, ?_, 1, rfl⟩
  rintro ⟨q, hq, hq0⟩
  simp only [List.mem_cons, Option.some.injEq, List.not_mem_nil, or_false] at hq
  rcases hq with hq | hq
  · exact hq0 hq
  · simp at hq
example : hasNonzero [some 0, none, some (1/2), some 2] = true ∧ hasNonzero [some 0, none] = false ∧
    finiteAtFinite [some 0, none] (weightsFromWeighting [some 0, none] .inv) = false ∧
    leastNonzero [some 0, none, some 2, some (1/2)] = some (1/2) := by decide +kernel
example : specWeights [some 0, none, some (1/2), some 2] .inv2 = [some 4, none, some 4, some (1/4)] := by decide +kernel
-- err2: four points, 1/x weights
example : D exPts ≠ 0 ∧ Sw exPts ≠ 0 ∧ err2 exPts = specErr2 exPts := by decide +kernel
def exPts4 : List Pt := fitPts (.builtin ⟨false, .equal⟩)
  [⟨some 0, some 1, none⟩, ⟨some 1, some 3, none⟩, ⟨some 2, some 4, none⟩, ⟨some 3, some 8, none⟩]
example : exPts4.length = 4 ∧ D exPts4 ≠ 0 ∧ Sw exPts4 ≠ 0 ∧ err2 exPts4 = specErr2 exPts4 ∧ err2 exPts4 ≠ 0 := by
  decide +kernel
-- few_points_identity / fit_nan_interleave
example : (usableRows [⟨some 1, none, none⟩, ⟨some 2, some 3, none⟩]).length < 2 := by decide
example : (⟨some (1/2), none, some 2⟩ : Row).x = none ∨ (⟨some (1/2), none, some 2⟩ : Row).y = none := Or.inr rfl
example : calibrate 2 3 (some (2 * 5 + 3)) = some 5 := by decide +kernel

-- fit_is_specification / fit_nan_insert_perm / few_usable_identity: the NaN-free table of `exRows`, `exRows` itself
-- (one NaN row inserted) and a reordering of it
def exClean : List Row := [⟨some 0, some 1, some 1⟩, ⟨some 1, some 2, some 3⟩, ⟨some 2, some 4, some 1⟩]
example : NanInsert exClean exRows :=
  .keep _ rfl rfl (.nan _ (Or.inr rfl) (.keep _ rfl rfl (.keep _ rfl rfl .nil)))
example : (exRows.reverse).Perm exRows := List.reverse_perm _
example : (∀ p ∈ specPts (.builtin ⟨false, .inv⟩) exClean, 0 < p.w) ∧
    (∃ p ∈ specPts (.builtin ⟨false, .inv⟩) exClean, ∃ q ∈ specPts (.builtin ⟨false, .inv⟩) exClean, p.x ≠ q.x) ∧
    0 < Dy (specPts (.builtin ⟨false, .inv⟩) exClean) ∧
    specGradient (specPts (.builtin ⟨false, .inv⟩) exClean) = 10/7 ∧
    (updateLinreg (.builtin ⟨false, .inv⟩) exRows.reverse).gradient = 10/7 := by decide +kernel
example : NanInsert [⟨some 2, some 3, none⟩] [⟨some 1, none, none⟩, ⟨some 2, some 3, none⟩, ⟨none, none, none⟩] :=
  .nan _ (Or.inr rfl) (.keep _ rfl rfl (.nan _ (Or.inl rfl) .nil))

-- calibrate_fixed_point_iff / calibrate_unchanged_iff_identity: a line next to the identity moves data
example : (1000001 / 1000000 : Rat) ≠ 0 ∧
    calibrate (1000001 / 1000000) (1 / 1000000000) (some (1 / 1000000000)) = some 0 := by decide +kernel
example : calibrate 2 3 (some (-3)) = some (-3) ∧ (2 : Rat) * (-3) + 3 = -3 := by decide +kernel
-- calibrate_is_formula / calibrate_eq_iff_on_line / arrays: raw counts [12, 17, 27, 40] under 40·x + 12
example : (40 : Rat) ≠ 0 ∧ [some 12, some 17, none, some 40].map (calibrate 40 12) = [some 0, some (1/8), none, some (7/10)] ∧
    [some 12, some 17, none, some 40].map (specCalibrate 40 12) = [some 0, some (1/8), none, some (7/10)] ∧
    (40 : Rat) * (1/8) + 12 = 17 ∧ onLine 40 12 (some 17) (some (1/8)) = true ∧ onLine 40 12 (some 17) (some 0) = false := by
  decide +kernel
-- the identity is the formula too: (r − 0) / 1
example : [some 12, none, some (-3)].map (specCalibrate 1 0) = [some 12, none, some (-3)] := by decide +kernel
-- sessions: fit, then too few usable points, then an assigned line
def exSession : List Step :=
  [.refit (.builtin ⟨false, .inv⟩) exRows, .calibrate [some 2, none],
   .refit (.builtin ⟨false, .inv⟩) [⟨some 1, none, none⟩, ⟨some 2, some 3, none⟩], .calibrate [some 2, none],
   .assign 2 3, .calibrate [some 13, none]]
example : run identityFit exSession = [[some (4/5), none], [some 2, none], [some 5, none]] := by decide +kernel
example : (finalState identityFit (exSession.take 1)).gradient = 10/7 ∧ (2 : Rat) ≠ 0 := by decide +kernel

end Pew.Calib
