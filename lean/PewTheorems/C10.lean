import PewProofs.Extent
import PewProofs.ExtentFloat
import PewProofs.ExtentHist
import PewTheorems.C09

/-! # C10 — property theorems (statements only depend on `PewModel.Extent` / `PewModel.Srr`) -/
namespace Pew.Extent
open Pew Pew.Srr

/-- The reported extent of an image is `(0, columns × pixel width, 0, rows × pixel height)` with
pixel width = speed × scan time and pixel height = spot size for a raster configuration, and the
x / y spot spacing for a spot configuration.  All parameters, all shapes.
(Model mechanism and specification are the same formula up to commutativity, so by itself this says little; its
content comes from the structural tie: on every run `harness/structural.py` translates `get_pixel_width`,
`get_pixel_height`, `data_extent` of `Config` / `SpotConfig` from the source and proves the translated terms equal to
`extentSpec`, and `harness/structural_c10.py` does the same for the SRR pixel sizes, `SRRLaser.extent`, `magnification`,
the warm-up setter, `subpixels_per_pixel` and the extent → index conversion of `Laser.get`.) -/
theorem extent_spec {α : Type} (data : Arr2 α) :
    (∀ spotsize speed scantime : Rat,
      laserExtent (.raster spotsize speed scantime) data
        = extentSpec (speed * scantime) spotsize data.rows data.cols) ∧
    (∀ sx sy : Rat, laserExtent (.spot sx sy) data = extentSpec sx sy data.rows data.cols) := by
  constructor
  · intro s v t
    simp only [laserExtent, Cfg.dataExtent, extentSpec, Cfg.pixelWidth, Cfg.pixelHeight]
    simp [mul_comm]
  · intro sx sy
    simp only [laserExtent, Cfg.dataExtent, extentSpec, Cfg.pixelWidth, Cfg.pixelHeight]
    simp [mul_comm]

example : laserExtent (.raster 35 (17 / 10) (1 / 10)) ({ rows := 59, cols := 53, get := fun _ _ => 0 } : Arr2 Int)
    = { x0 := 0, x1 := 53 * (17 / 100), y0 := 0, y1 := 59 * 35 } := by
  rw [(extent_spec _).1]; simp [extentSpec]; norm_num

/-- **A configuration survives its array form, as NumPy builds it**: the 0-d record `spotsize, speed, scantime` of a
`Config`, the two-element one-field array of a `SpotConfig` (`[("spotsize", f8)]`, x spacing in element 0, y spacing in
element 1), read back by `from_array` of the same class, give the configuration again - hence the same pixel width,
pixel height and every extent. -/
theorem config_array_roundtrip (c : Cfg) :
    Cfg.fromRec c.kind c.toRec = .ok c ∧
    (∀ c', Cfg.fromRec c.kind c.toRec = .ok c' →
      c'.pixelWidth = c.pixelWidth ∧ c'.pixelHeight = c.pixelHeight ∧ ∀ shape, c'.dataExtent shape = c.dataExtent shape) := by
  have h : Cfg.fromRec c.kind c.toRec = .ok c := by
    cases c <;>
      simp [Cfg.fromRec, Cfg.toRec, Cfg.kind, RecArr.floatField, RecArr.field, RecArr.fieldIdx, spotElem, List.findIdx_cons,
        bind, Except.bind, pure, Except.pure]
  refine ⟨h, ?_⟩
  intro c' hc'
  rw [h] at hc'
  cases hc'
  exact ⟨rfl, rfl, fun _ => rfl⟩

example : Cfg.fromRec .spot (Cfg.spot (3 / 10) (7 / 1000)).toRec = .ok (.spot (3 / 10) (7 / 1000)) ∧
    (Cfg.spot (3 / 10) (7 / 1000)).toRec = { names := ["spotsize"], dim := some 2, recs := [[.num (3 / 10)], [.num (7 / 1000)]] } :=
  ⟨(config_array_roundtrip (Cfg.spot (3 / 10) (7 / 1000))).1, rfl⟩

/-- `Config.from_array` reads by name: ANY 0-d array that has float fields `spotsize`, `speed`, `scantime` - in any
order, with any further fields (an older or newer layout, an `SRRConfig` array) - gives the raster configuration of those
three values. -/
theorem raster_from_any_layout (a : RecArr) (r : List FVal) (h0 : a.dim = none) (hr : a.recs = [r])
    (i j k : Nat) (s v t : Rat)
    (hi : a.fieldIdx "spotsize" = some i) (hj : a.fieldIdx "speed" = some j) (hk : a.fieldIdx "scantime" = some k)
    (vi : r.getD i (.num 0) = .num s) (vj : r.getD j (.num 0) = .num v) (vk : r.getD k (.num 0) = .num t) :
    Cfg.fromRec .raster a = .ok (.raster s v t) := by
  rw [List.getD_eq_getElem?_getD] at vi vj vk
  simp [Cfg.fromRec, RecArr.floatField, RecArr.field, hi, hj, hk, h0, hr, vi, vj, vk, bind, Except.bind, pure, Except.pure]

example :
    Cfg.fromRec .raster ({ names := ["scantime", "extra", "speed", "spotsize"], dim := none, recs := [[.num 1, .num 9, .num 2, .num 3]] } : RecArr)
      = .ok (.raster 3 2 1) :=
  raster_from_any_layout _ _ rfl rfl 3 2 0 3 2 1 (by decide) (by decide) (by decide) rfl rfl rfl

/-- **`from_array` on the arrays of the other configuration classes** (what the real calls do):
`SpotConfig.from_array` of a raster or SRR array is an IndexError (a 0-d array cannot be indexed),
`Config.from_array` of a spot array is a TypeError (`float()` of a two-element array),
`Config.from_array` of an SRR array SUCCEEDS and keeps spot size, speed and scan time (warm-up and offsets are dropped). -/
theorem config_array_cross_kind (spotsize speed scantime sx sy : Rat) (c : SrrConfig) :
    Cfg.fromRec .spot (Cfg.raster spotsize speed scantime).toRec = .error .indexError ∧
    Cfg.fromRec .raster (Cfg.spot sx sy).toRec = .error .typeError ∧
    Cfg.fromRec .raster c.toRec = .ok (.raster c.spotsize c.speed c.scantime) ∧
    Cfg.fromRec .spot c.toRec = .error .indexError := by
  refine ⟨?_, ?_, ?_, ?_⟩ <;>
    simp [Cfg.fromRec, Cfg.toRec, SrrConfig.toRec, SrrConfig.toArray, srrNames, RecArr.floatField, RecArr.field,
      RecArr.fieldIdx, List.findIdx_cons, bind, Except.bind, pure, Except.pure, throw, throwThe, MonadExceptOf.throw]

/-- Reading a pixel-aligned rectangle.  For all positive pixel sizes, all `r0 ≤ r1 ≤ rows`,
`c0 ≤ c1 ≤ cols`, and every perturbation smaller than 5·10⁻⁷ of each of the four quotients
`bound / pixel size` (the floating-point error of the division), the conversion
`int(round(q, 6))` yields exactly `c0, c1, r0, r1`, no rounding tie occurs, and the read is
`data[r0:r1, c0:c1]`. -/
theorem get_aligned_rect {α : Type} (data : Arr2 α) (pw ph : Rat) (hpw : 0 < pw) (hph : 0 < ph)
    (r0 r1 c0 c1 : Nat) (hr : r0 ≤ r1) (hr1 : r1 ≤ data.rows) (hc : c0 ≤ c1) (hc1 : c1 ≤ data.cols)
    (d1 d2 d3 d4 : Rat)
    (h1 : |d1| < 5 / 10000000) (h2 : |d2| < 5 / 10000000)
    (h3 : |d3| < 5 / 10000000) (h4 : |d4| < 5 / 10000000) :
    let qx0 := (c0 : Rat) * pw / pw + d1
    let qx1 := (c1 : Rat) * pw / pw + d2
    let qy0 := (r0 : Rat) * ph / ph + d3
    let qy1 := (r1 : Rat) * ph / ph + d4
    toIndex qx0 = c0 ∧ toIndex qx1 = c1 ∧ toIndex qy0 = r0 ∧ toIndex qy1 = r1 ∧
    (∀ q ∈ [qx0, qx1, qy0, qy1], q * 1000000 - ((q * 1000000).floor : Rat) ≠ 1 / 2) ∧
    round6 qx0 = round6Up qx0 ∧ round6 qx1 = round6Up qx1 ∧
    round6 qy0 = round6Up qy0 ∧ round6 qy1 = round6Up qy1 ∧
    getQ data qx0 qx1 qy0 qy1 = rectSpec data r0 r1 c0 c1 := by
  intro qx0 qx1 qy0 qy1
  have hpw' : pw ≠ 0 := ne_of_gt hpw
  have hph' : ph ≠ 0 := ne_of_gt hph
  have e1 : qx0 = ((c0 : Int) : Rat) + d1 := by simp only [qx0]; field_simp; push_cast; ring
  have e2 : qx1 = ((c1 : Int) : Rat) + d2 := by simp only [qx1]; field_simp; push_cast; ring
  have e3 : qy0 = ((r0 : Int) : Rat) + d3 := by simp only [qy0]; field_simp; push_cast; ring
  have e4 : qy1 = ((r1 : Int) : Rat) + d4 := by simp only [qy1]; field_simp; push_cast; ring
  obtain ⟨a1, b1⟩ := abs_lt.mp h1
  obtain ⟨a2, b2⟩ := abs_lt.mp h2
  obtain ⟨a3, b3⟩ := abs_lt.mp h3
  obtain ⟨a4, b4⟩ := abs_lt.mp h4
  have i1 : toIndex qx0 = c0 := toIndex_near _ _ (by rw [e1]; linarith) (by rw [e1]; linarith)
  have i2 : toIndex qx1 = c1 := toIndex_near _ _ (by rw [e2]; linarith) (by rw [e2]; linarith)
  have i3 : toIndex qy0 = r0 := toIndex_near _ _ (by rw [e3]; linarith) (by rw [e3]; linarith)
  have i4 : toIndex qy1 = r1 := toIndex_near _ _ (by rw [e4]; linarith) (by rw [e4]; linarith)
  have t1 := no_tie_near (qx0 * 1000000) ((c0 : Int) * 1000000) (by rw [e1]; push_cast; linarith) (by rw [e1]; push_cast; linarith)
  have t2 := no_tie_near (qx1 * 1000000) ((c1 : Int) * 1000000) (by rw [e2]; push_cast; linarith) (by rw [e2]; push_cast; linarith)
  have t3 := no_tie_near (qy0 * 1000000) ((r0 : Int) * 1000000) (by rw [e3]; push_cast; linarith) (by rw [e3]; push_cast; linarith)
  have t4 := no_tie_near (qy1 * 1000000) ((r1 : Int) * 1000000) (by rw [e4]; push_cast; linarith) (by rw [e4]; push_cast; linarith)
  refine ⟨i1, i2, i3, i4, ?_, ?_, ?_, ?_, ?_, ?_⟩
  · intro q hq
    simp only [List.mem_cons, List.not_mem_nil, or_false] at hq
    rcases hq with rfl | rfl | rfl | rfl <;> assumption
  · unfold round6 round6Up; rw [roundHalfEven_eq_halfUp _ t1]
  · unfold round6 round6Up; rw [roundHalfEven_eq_halfUp _ t2]
  · unfold round6 round6Up; rw [roundHalfEven_eq_halfUp _ t3]
  · unfold round6 round6Up; rw [roundHalfEven_eq_halfUp _ t4]
  · unfold getQ
    rw [i1, i2, i3, i4]
    exact slice_aligned data r0 r1 c0 c1 hr1 hr hc1 hc

/-- non-vacuity: the 59 × 53 image with pixel 0.17 × 35 (the witness of the repaired defect), its own
extent, every quotient 10⁻¹² too low: the read is still the whole image, whereas plain truncation
turns the column bound 53 into 52 (`get_trunc_fragile` below) -/
example (data : Arr2 Int) (hr : data.rows = 59) (hc : data.cols = 53) :
    getQ data ((0 : Nat) * (17 / 100 : Rat) / (17 / 100) + -(1 / 1000000000000))
        ((53 : Nat) * (17 / 100 : Rat) / (17 / 100) + -(1 / 1000000000000))
        ((0 : Nat) * (35 : Rat) / 35 + -(1 / 1000000000000))
        ((59 : Nat) * (35 : Rat) / 35 + -(1 / 1000000000000))
      = rectSpec data 0 59 0 53 :=
  (get_aligned_rect data (17 / 100) 35 (by norm_num) (by norm_num) 0 59 0 53 (by decide) (by omega) (by decide) (by omega)
    _ _ _ _ (by rw [abs_lt]; constructor <;> norm_num) (by rw [abs_lt]; constructor <;> norm_num)
    (by rw [abs_lt]; constructor <;> norm_num) (by rw [abs_lt]; constructor <;> norm_num)).2.2.2.2.2.2.2.2.2

/-- in particular, reading an image's own extent (exact quotients) returns the whole image -/
theorem get_own_extent {α : Type} (c : Cfg) (data : Arr2 α) (hpw : 0 < c.pixelWidth) (hph : 0 < c.pixelHeight) :
    get c data (laserExtent c data) = data := by
  have h := get_aligned_rect data c.pixelWidth c.pixelHeight hpw hph 0 data.rows 0 data.cols
    (Nat.zero_le _) (Nat.le_refl _) (Nat.zero_le _) (Nat.le_refl _) 0 0 0 0
    (by rw [abs_lt]; constructor <;> norm_num) (by rw [abs_lt]; constructor <;> norm_num)
    (by rw [abs_lt]; constructor <;> norm_num) (by rw [abs_lt]; constructor <;> norm_num)
  have h' := h.2.2.2.2.2.2.2.2.2
  simp only [add_zero] at h'
  have this : rectSpec data 0 data.rows 0 data.cols = data := by
    cases data; simp [rectSpec]
  have key : get c data (laserExtent c data) = rectSpec data 0 data.rows 0 data.cols := by
    unfold get laserExtent Cfg.dataExtent
    simp only [List.getD_cons_zero, List.getD_cons_succ]
    convert h' using 2 <;> simp [mul_comm]
  rw [key, this]

/-- Why the conversion had to be repaired: plain truncation of a quotient that is any amount
below the boundary `j ≥ 1` gives `j - 1`, so the read loses a row or column. -/
theorem get_trunc_fragile (j : Nat) (hj : 1 ≤ j) (d : Rat) (h1 : -1 < d) (h2 : d < 0) :
    toIndexOld ((j : Rat) + d) = (j : Int) - 1 := by
  unfold toIndexOld trunc
  have hj' : (1 : Rat) ≤ (j : Rat) := by exact_mod_cast hj
  rw [if_pos (by linarith)]
  apply floor_eq_of_bounds
  · push_cast; linarith
  · push_cast; linarith

example : toIndexOld ((53 : Nat) + (-(1 : Rat) / 1000000000000)) = 52 := by
  rw [get_trunc_fragile 53 (by decide) _ (by norm_num) (by norm_num)]; rfl

/-! ## the float64 pipeline: what CPython evaluates, for every index up to 2²⁸

`get_aligned_rect` takes the quotient error as a hypothesis.  Here it is discharged: with `fl` = the nearest binary64
(`PewModel/Srr.lean`; normal exponent range), for EVERY positive pixel size and every boundary index `k ≤ 2²⁸`, a bound
within `k·p / 2⁵⁰` of `k·p` - the caller's product `fl(p·k)`, the extent pewlib reports, one ulp up or down - divided in
float64 by the pixel size and converted by `int(round(·, 6))` gives `k`. -/

/-- Reading a pixel-aligned rectangle **in float64**: all positive pixel sizes, images up to 2²⁸ pixels per side,
every `r0 ≤ r1 ≤ rows`, `c0 ≤ c1 ≤ cols`, bounds near their boundaries: the four converted indices are `c0, c1, r0, r1`
and the read is `data[r0:r1, c0:c1]`. -/
theorem get_float_aligned {α : Type} (data : Arr2 α) (pw ph : Rat) (hpw : 0 < pw) (hph : 0 < ph)
    (r0 r1 c0 c1 : Nat) (hr : r0 ≤ r1) (hr1 : r1 ≤ data.rows) (hc : c0 ≤ c1) (hc1 : c1 ≤ data.cols)
    (hrows : data.rows ≤ 2 ^ 28) (hcols : data.cols ≤ 2 ^ 28) (x0 x1 y0 y1 : Rat)
    (h1 : NearBoundary x0 pw c0) (h2 : NearBoundary x1 pw c1) (h3 : NearBoundary y0 ph r0) (h4 : NearBoundary y1 ph r1) :
    toIndex (fl (x0 / pw)) = c0 ∧ toIndex (fl (x1 / pw)) = c1 ∧ toIndex (fl (y0 / ph)) = r0 ∧ toIndex (fl (y1 / ph)) = r1 ∧
    getQ data (fl (x0 / pw)) (fl (x1 / pw)) (fl (y0 / ph)) (fl (y1 / ph)) = rectSpec data r0 r1 c0 c1 := by
  have i1 := toIndex_float pw x0 c0 hpw (by omega) h1
  have i2 := toIndex_float pw x1 c1 hpw (by omega) h2
  have i3 := toIndex_float ph y0 r0 hph (by omega) h3
  have i4 := toIndex_float ph y1 r1 hph (by omega) h4
  refine ⟨i1, i2, i3, i4, ?_⟩
  unfold getQ
  rw [i1, i2, i3, i4]
  exact slice_aligned data r0 r1 c0 c1 hr1 hr hc1 hc

/-- `Laser.get(extent=…)` of a configuration, in float64, for bounds near pixel boundaries -/
theorem get_float_config {α : Type} (c : Cfg) (hpos : c.Positive) (data : Arr2 α)
    (r0 r1 c0 c1 : Nat) (hr : r0 ≤ r1) (hr1 : r1 ≤ data.rows) (hc : c0 ≤ c1) (hc1 : c1 ≤ data.cols)
    (hrows : data.rows ≤ 2 ^ 28) (hcols : data.cols ≤ 2 ^ 28) (e : Ext)
    (h1 : NearBoundary e.x0 c.pixelWidthF c0) (h2 : NearBoundary e.x1 c.pixelWidthF c1)
    (h3 : NearBoundary e.y0 c.pixelHeightF r0) (h4 : NearBoundary e.y1 c.pixelHeightF r1) :
    getF c data e = rectSpec data r0 r1 c0 c1 :=
  (get_float_aligned data _ _ (pixelF_pos c hpos).1 (pixelF_pos c hpos).2 r0 r1 c0 c1 hr hr1 hc hc1 hrows hcols
    e.x0 e.x1 e.y0 e.y1 h1 h2 h3 h4).2.2.2.2

/-- **Reading an image's own extent returns the whole image, in float64**: every configuration with positive
parameters, every image up to 2²⁸ pixels per side; the extent is the one `Laser.extent` computes in float64
(`fl(fl(speed·scantime)·columns)` …), the read divides it again in float64. -/
theorem get_float_own_extent {α : Type} (c : Cfg) (hpos : c.Positive) (data : Arr2 α)
    (hrows : data.rows ≤ 2 ^ 28) (hcols : data.cols ≤ 2 ^ 28) :
    getF c data (laserExtentF c data) = data := by
  obtain ⟨hw, hh⟩ := pixelF_pos c hpos
  have key := get_float_config c hpos data 0 data.rows 0 data.cols (Nat.zero_le _) (Nat.le_refl _) (Nat.zero_le _) (Nat.le_refl _)
    hrows hcols (laserExtentF c data) (zero_near _) (fl_mul_near _ _ hw) (zero_near _) (fl_mul_near _ _ hh)
  rw [key]
  cases data; simp [rectSpec]

example : getF (.raster 35 (17 / 10) (1 / 10)) ({ rows := 59, cols := 53, get := fun r c => r * 53 + c } : Arr2 Nat)
      (laserExtentF (.raster 35 (17 / 10) (1 / 10)) ({ rows := 59, cols := 53, get := fun r c => r * 53 + c } : Arr2 Nat))
    = { rows := 59, cols := 53, get := fun r c => r * 53 + c } :=
  get_float_own_extent _ (by simp [Cfg.Positive]) _ (by norm_num) (by norm_num)

/-- **The float64 extent against the property's formula**: for positive parameters each value `Laser.extent` computes
is within a relative `2⁻⁵¹` of `(0, columns × pixel width, 0, rows × pixel height)` (the zeros are exact). -/
theorem extent_float_close (c : Cfg) (hpos : c.Positive) (rows cols : Nat) :
    (c.dataExtentF [rows, cols]).x0 = (c.specExtent rows cols).x0 ∧
    (c.dataExtentF [rows, cols]).y0 = (c.specExtent rows cols).y0 ∧
    |(c.dataExtentF [rows, cols]).x1 - (c.specExtent rows cols).x1| ≤ (c.specExtent rows cols).x1 / 2 ^ 51 ∧
    |(c.dataExtentF [rows, cols]).y1 - (c.specExtent rows cols).y1| ≤ (c.specExtent rows cols).y1 / 2 ^ 51 := by
  have one : ∀ (p : Rat) (n : Nat), 0 < p → |fl (p * (n : Rat)) - (n : Rat) * p| ≤ (n : Rat) * p / 2 ^ 51 := by
    intro p n hp
    have h := fl_relerr (p * (n : Rat))
    rw [abs_of_nonneg (mul_nonneg hp.le (Nat.cast_nonneg n))] at h
    have e : (n : Rat) * p = p * (n : Rat) := by ring
    rw [e]
    have : p * (n : Rat) / 2 ^ 53 ≤ p * (n : Rat) / 2 ^ 51 :=
      div_le_div_of_nonneg_left (mul_nonneg hp.le (Nat.cast_nonneg n)) (by positivity) (by norm_num)
    linarith
  cases c with
  | raster s v t =>
    obtain ⟨hs, hv, ht⟩ := hpos
    refine ⟨rfl, rfl, ?_, ?_⟩
    · simpa [Cfg.dataExtentF, Cfg.specExtent, extentSpec, Cfg.pixelWidthF] using extent_value_close v t cols hv ht
    · simpa [Cfg.dataExtentF, Cfg.specExtent, extentSpec, Cfg.pixelHeightF] using one s rows hs
  | spot sx sy =>
    obtain ⟨hx, hy⟩ := hpos
    refine ⟨rfl, rfl, ?_, ?_⟩
    · simpa [Cfg.dataExtentF, Cfg.specExtent, extentSpec, Cfg.pixelWidthF] using one sx cols hx
    · simpa [Cfg.dataExtentF, Cfg.specExtent, extentSpec, Cfg.pixelHeightF] using one sy rows hy

/-- the bounds a caller computes are near their boundaries: the float product `fl(p · k)` (also what `data_extent`
reports), and anything within one ulp (relative `2⁻⁵²`) of a value that is within `2⁻⁵²` of the exact product -/
theorem caller_bounds_near (p : Rat) (k : Nat) (hp : 0 < p) :
    NearBoundary (fl (p * (k : Rat))) p k ∧
    (∀ b b' : Rat, |b - (k : Rat) * p| ≤ (k : Rat) * p / 2 ^ 52 → |b' - b| ≤ |b| / 2 ^ 52 → NearBoundary b' p k) :=
  ⟨fl_mul_near p k hp, fun b b' h1 h2 => near_of_close b b' p k hp h1 h2⟩

/-- Why six decimals and not twelve (the seeded change C10-c1): a quotient one float64 rounding below the boundary 6848
(`6848 - 2⁻⁴⁰`, well inside `NearBoundary`) is converted to 6848 by `int(round(q, 6))` and to 6847 by `int(round(q, 12))`. -/
theorem round12_fragile :
    toIndex ((6848 : Rat) - 1 / 2 ^ 40) = 6848 ∧ toIndex12 ((6848 : Rat) - 1 / 2 ^ 40) = 6847 ∧
    NearBoundary (((6848 : Rat) - 1 / 2 ^ 40) * (3 / 10)) (3 / 10) 6848 := by
  refine ⟨?_, ?_, ?_⟩
  · exact toIndex_near _ 6848 (by norm_num) (by norm_num)
  · unfold toIndex12 round12
    have : roundHalfEven (((6848 : Rat) - 1 / 2 ^ 40) * 1000000000000) = 6847999999999999 :=
      roundHalfEven_near _ _ (by norm_num) (by norm_num)
    rw [this]
    unfold trunc
    rw [if_pos (by norm_num)]
    exact floor_eq_of_bounds _ _ (by norm_num) (by norm_num)
  · rw [nearBoundary_iff]; rw [abs_le]; constructor <;> norm_num

/-! ## histories on configuration objects and lasers -/

/-- **What a laser shows depends on nothing but the last writes**: for EVERY history of the operations create / copy a
configuration object, create a laser, `laser.config = obj` (objects may be shared by several lasers), `obj.attr = v`,
`laser.data = array`, the configuration and shape laser `l` shows after the left fold `Heap.run` are the ones read off
the history backwards (`viewSpec`: newest assignment of each attribute of the object held now, else its constructor
value - for a copy, what the original held at that moment; newest data assignment).  No hypothesis: operations that
name an object or laser that does not exist change nothing on both sides. -/
theorem hist_view_spec (ops : List HOp) (l : Nat) : (Heap.run ops).view l = viewSpec ops.reverse l := by
  obtain ⟨_, _, attr, kind, held, shape⟩ := inv_run ops
  unfold Heap.view viewSpec
  rw [← held l, ← shape l]
  cases hl : (Heap.run ops).lasers[l]? with
  | none => rfl
  | some x =>
    simp only [Option.map_some]
    rw [← kind x.cfg, ← attr x.cfg .spotsize, ← attr x.cfg .speed, ← attr x.cfg .scantime, ← attr x.cfg .spotsizeY]
    cases (Heap.run ops).cfgs[x.cfg]? with
    | none => rfl
    | some o => rfl

/-- hence the extent it reports is `(0, columns × pixel width, 0, rows × pixel height)` of the configuration and shape
that are current then, whatever happened before -/
theorem hist_extent_spec (ops : List HOp) (l : Nat) : (Heap.run ops).extent l = extentHistSpec ops.reverse l := by
  unfold Heap.extent extentHistSpec
  rw [hist_view_spec]
  cases viewSpec ops.reverse l with
  | none => rfl
  | some v =>
    obtain ⟨c, rows, cols⟩ := v
    simp only [Option.map_some]
    congr 1
    have h := extent_spec ({ rows := rows, cols := cols, get := fun _ _ => () } : Arr2 Unit)
    cases c with
    | raster s v t => simpa [laserExtent, Cfg.specExtent] using h.1 s v t
    | spot sx sy => simpa [laserExtent, Cfg.specExtent] using h.2 sx sy

/-- non-vacuity: one configuration object shared by two lasers, edited through neither; a copy taken before the edit
keeps the old value; the second laser gets new data -/
example :
    let ops := [HOp.newCfg (.ofCfg (.raster 35 140 (1 / 4))), .newLaser 0 5 7, .copyCfg 0, .newLaser 1 5 7, .newLaser 0 2 3,
                .setAttr 0 .scantime (1 / 2), .setData 2 4 9]
    (Heap.run ops).extent 0 = some (extentSpec 70 35 5 7) ∧ (Heap.run ops).extent 1 = some (extentSpec 35 35 5 7) ∧
    (Heap.run ops).extent 2 = some (extentSpec 70 35 4 9) := by
  intro ops
  simp only [hist_extent_spec]
  refine ⟨?_, ?_, ?_⟩ <;> (simp [ops, extentHistSpec, viewSpec, heldSpec, shapeSpec, kindSpec, attrSpec, countCfgs, countLasers,
    CfgObj.ofCfg, CfgObj.getAttr, cfgOf, Cfg.specExtent]; try norm_num)

/-- For an SRR image the extent divided by the reconstructed pixel size is the shape of the
reconstruction (`Srr.reconCols` columns, `Srr.reconRows` rows; these are the shape of
`Srr.krisskross`, see `Pew.Srr.krisskross_voxel` of C09): integer magnification `M ≥ 1`, positive
speed and scan time, any warm-up, any offsets, any sub-pixel size ≥ 1, stacks whose first two
layers have `l0` and `l1` lines. -/
theorem srr_extent_matches_shape {α : Type} (c : SrrConfig) (M : Nat) (hM : 1 ≤ M)
    (hspeed : 0 < c.speed) (hscan : 0 < c.scantime) (hsize : 1 ≤ c.size)
    (layers : List (Arr2 α)) (d0 d1 : Arr2 α) (h0 : layers[0]? = some d0) (h1 : layers[1]? = some d1) :
    ∃ e, srrLaserExtent c (M : Rat) layers = some e ∧
      (e.x1 - e.x0) / srrPixelWidth c (M : Rat) none
        = (reconCols d1.rows M (subpixelsPerPixel c.size (M : Rat)) c.offs : Nat) ∧
      (e.y1 - e.y0) / srrPixelHeight c (M : Rat) none
        = (reconRows d0.rows M (subpixelsPerPixel c.size (M : Rat)) c.offs : Nat) := by
  have hp := spp_pos c.size M hsize hM
  have hp' : ((subpixelsPerPixel c.size (M : Rat) : Nat) : Rat) ≠ 0 := by
    have : (0 : Rat) < ((subpixelsPerPixel c.size (M : Rat) : Nat) : Rat) := by exact_mod_cast hp
    exact ne_of_gt this
  have hv : c.speed * c.scantime ≠ 0 := ne_of_gt (mul_pos hspeed hscan)
  have he : srrLaserExtent c (M : Rat) layers = some (srrDataExtent c (M : Rat)
      ((d0.rows : Rat) * M * (subpixelsPerPixel c.size (M : Rat) : Nat) + (maxList c.offs : Nat))
      ((d1.rows : Rat) * M * (subpixelsPerPixel c.size (M : Rat) : Nat) + (maxList c.offs : Nat)) none) := by
    simp only [srrLaserExtent, srrShape, h0, h1]
  refine ⟨_, he, ?_, ?_⟩
  · simp only [srrDataExtent, srrPixelWidth, reconCols]
    push_cast; field_simp; ring
  · simp only [srrDataExtent, srrPixelHeight, reconRows]
    push_cast; field_simp; ring

/-- The same, stated against the reconstruction itself: for every crossed stack and every accepted
configuration (the hypotheses of `Pew.Srr.krisskross_voxel`, plus positive speed and a sub-pixel
size ≥ 1), the reconstruction exists and the extent divided by the reconstructed pixel size is
(columns, rows) of the reconstructed array. -/
theorem srr_extent_matches_reconstruction {α : Type} (z : α) (c : SrrConfig) (M : Nat) (hM : 1 ≤ M)
    (hspeed : 0 < c.speed) (hscan : 0 < c.scantime) (hsize : 1 ≤ c.size) (hoffs : c.offs ≠ [])
    (layers : List (Arr2 α)) (l0 s0 l1 s1 : Nat) (hc : Crossed layers l0 s0 l1 s1)
    (hv : validForData c (M : Rat) layers = some true) :
    ∃ out e, krisskross z c (M : Rat) layers = some out ∧ srrLaserExtent c (M : Rat) layers = some e ∧
      (e.x1 - e.x0) / srrPixelWidth c (M : Rat) none = (out.cols : Nat) ∧
      (e.y1 - e.y0) / srrPixelHeight c (M : Rat) none = (out.rows : Nat) := by
  obtain ⟨out, ho, hr, hcc, _, _, _⟩ := krisskross_voxel z c M hM hscan hoffs layers l0 s0 l1 s1 hc hv
  obtain ⟨d0, d1, h0, h1, r0, _, r1, _⟩ := crossed_heads layers l0 s0 l1 s1 hc
  obtain ⟨e, he, hx, hy⟩ := srr_extent_matches_shape c M hM hspeed hscan hsize layers d0 d1 h0 h1
  refine ⟨out, e, ho, he, ?_, ?_⟩
  · rw [hx, hcc, r1]
  · rw [hy, hr, r0]

end Pew.Extent
