import PewProofs.Imzml

/-! # C05 — property theorems (statements only depend on `PewModel.Imzml`) -/
namespace Pew.Imzml

/-- On a strictly increasing m/z axis the slice between the two `searchsorted` indices of a
window `lo ≤ hi` sums exactly the intensities whose m/z lies in `[lo, hi)`; the slice is empty
(`ssLeft lo ≥ ssLeft hi`) exactly when that sum ranges over no peak. -/
theorem slice_eq_windowSum (mz it : List Rat) (lo hi : Rat) (hs : Incr mz)
    (hlen : it.length = mz.length) (hle : lo ≤ hi) :
    sliceSum it (ssLeft mz lo) (ssLeft mz hi) = windowSum mz it lo hi :=
  slice_eq_windowSum' mz it lo hi hs hlen hle

example : Incr [100, 200, 300, 400] ∧ ([1, 2, 4, 8] : List Rat).length = ([100, 200, 300, 400] : List Rat).length
    ∧ (150 : Rat) ≤ 300 := by
  refine ⟨?_, rfl, by norm_num⟩
  simp only [Incr]; norm_num

/-- `extract_masses`, one spectrum: searchsorted → zero sentinel → `reduceat` → `[::2]` → zeroing of
empty segments gives, for EVERY list of windows (empty, one or many peaks, touching the first or
last peak, wholly below or above the spectrum, overlapping, unsorted, even `hi < lo`), exactly the
sum of the intensities whose m/z lies in the half-open window — in particular 0 for a window that
contains no peak.  Hypotheses: strictly increasing m/z, as many intensities as m/z values. -/
theorem extract_correct (mz it : List Rat) (wins : List (Rat × Rat)) (hs : Incr mz)
    (hlen : it.length = mz.length) :
    extractSpectrum mz it wins = specSpectrum mz it wins := by
  induction wins with
  | nil => simp [extractSpectrum, specSpectrum, flatten, reduceat, evens, zeroEmpty]
  | cons w rest ih =>
    obtain ⟨lo, hi⟩ := w
    rw [extractSpectrum_cons, ih]
    simp only [specSpectrum, List.map_cons]
    congr 1
    rcases le_total lo hi with h | h
    · have hb : ssLeft mz hi ≤ it.length := hlen ▸ ssLeft_le_length mz hi
      rw [sliceSum_append_sentinel it 0 hb, slice_eq_windowSum' mz it lo hi hs hlen h]
      split
      · rfl
      · rw [← slice_eq_windowSum' mz it lo hi hs hlen h, sliceSum_empty]; omega
    · have := ssLeft_mono mz h
      rw [if_neg (by omega), windowSum_empty _ _ h]

example : Incr [100, 200, 300, 400] ∧ ([1, 2, 4, 8] : List Rat).length = ([100, 200, 300, 400] : List Rat).length := by
  refine ⟨?_, rfl⟩
  simp only [Incr]; norm_num

/-- ppm and absolute widths differ only in how the width is computed: a ppm extraction is the
absolute extraction with `w = m·ppm/10⁶`, mass by mass. -/
theorem ppm_is_abs (mz it : List Rat) (masses : List Rat) (p : Rat) :
    extractSpectrum mz it (windows masses (.ppm p))
      = extractSpectrum mz it (masses.map (fun m => (m - (m * p / 1000000) / 2, m + (m * p / 1000000) / 2)))
    ∧ ∀ m, windows [m] (.ppm p) = windows [m] (.mz (m * p / 1000000)) := by
  constructor
  · simp [windows, halfWidth]
  · intro m; simp [windows, halfWidth]

/-- Placement: the pixel `[r][c]` of an image built by the loop `data[y-1, x-1] = f(spectrum)`
holds the value of the (last) spectrum recorded at position `(x, y) = (c+1, r+1)` and is NaN when
no spectrum was recorded there.  Any number of spectra in any order, any positions `≥ 1`. -/
theorem placement {β} (f : Spectrum → β) (specs : List Spectrum) (r c : Nat) :
    place f specs r c = specImage f specs r c := by
  induction specs using List.reverseRecOn with
  | nil => simp [place, specImage, lastAt, blank]
  | append_singleton specs s ih =>
    rw [place_append_one]
    simp only [specImage, lastAt_append_one, Canvas.set]
    by_cases h : s.y - 1 = r ∧ s.x - 1 = c
    · simp [h]
    · have h' : ¬ (r = s.y - 1 ∧ c = s.x - 1) := by
        intro ⟨h1, h2⟩; exact h ⟨h1.symm, h2.symm⟩
      simp only [h, h', if_false]
      exact ih

/-- the extracted image: own spectrum's window sums at `[y-1][x-1]`, NaN elsewhere -/
theorem extract_image_correct (specs : List Spectrum) (masses : List Rat) (w : Width)
    (hs : ∀ s ∈ specs, Incr s.mz ∧ s.it.length = s.mz.length) (r c : Nat) :
    extractImage specs masses w r c
      = (lastAt specs r c).map (fun s => specSpectrum s.mz s.it (windows masses w)) := by
  unfold extractImage
  rw [placement]
  unfold specImage
  cases h : lastAt specs r c with
  | none => rfl
  | some s =>
    have hm : s ∈ specs := by
      have := List.mem_of_find?_eq_some h
      simpa using this
    simp only [Option.map_some]
    rw [extract_correct _ _ _ (hs s hm).1 (hs s hm).2]

/-- a position is found by `lastAt` exactly at its own pixel (positions are 1-based) -/
theorem lastAt_pos (specs : List Spectrum) (r c : Nat) (s : Spectrum) (h : lastAt specs r c = some s)
    (hx : 1 ≤ s.x) (hy : 1 ≤ s.y) : s ∈ specs ∧ s.y = r + 1 ∧ s.x = c + 1 := by
  have hm := List.mem_of_find?_eq_some h
  have hp := List.find?_some h
  simp only [decide_eq_true_eq] at hp
  exact ⟨by simpa using hm, by omega, by omega⟩

/-- TIC image: the stored total ion current, or the summed intensities when it is absent, at
`[y-1][x-1]`; NaN where no spectrum was recorded. -/
theorem tic_spec (specs : List Spectrum) (r c : Nat) :
    ticImage specs r c
      = (lastAt specs r c).map (fun s => match s.tic with | some t => t | none => s.it.sum) := by
  unfold ticImage
  rw [placement]
  unfold specImage
  cases lastAt specs r c with
  | none => rfl
  | some s => simp only [Option.map_some, ticOf]; cases s.tic <;> rfl

/-- image size fallback: without a size in the scan settings the image is `(max x, max y)`, which
bounds every recorded position (so every spectrum has a pixel) and is attained. -/
theorem image_size_fallback (specs : List Spectrum) (hne : specs ≠ []) :
    (∀ s ∈ specs, s.x ≤ (imageSize none specs).1 ∧ s.y ≤ (imageSize none specs).2) ∧
    (∃ s ∈ specs, s.x = (imageSize none specs).1) ∧ (∃ s ∈ specs, s.y = (imageSize none specs).2) := by
  simp only [imageSize]
  refine ⟨fun s hs => ⟨le_maxList _ _ (List.mem_map.mpr ⟨s, hs, rfl⟩), le_maxList _ _ (List.mem_map.mpr ⟨s, hs, rfl⟩)⟩, ?_, ?_⟩
  · obtain ⟨s, hs, h⟩ := List.mem_map.mp (maxList_mem (specs.map (·.x)) (by simp [hne]))
    exact ⟨s, hs, h⟩
  · obtain ⟨s, hs, h⟩ := List.mem_map.mp (maxList_mem (specs.map (·.y)) (by simp [hne]))
    exact ⟨s, hs, h⟩

/-- `mass_range`: for ≥ 1 spectra, each non-empty and strictly increasing, the running min/max of
first/last elements bounds every recorded m/z, and both bounds are recorded m/z values. -/
theorem mass_range_bounds (specs : List Spectrum) (h0 : specs ≠ [])
    (hne : ∀ s ∈ specs, s.mz ≠ []) (hs : ∀ s ∈ specs, Incr s.mz) :
    ∃ lo hi, massRange specs = (some lo, some hi) ∧
      (∀ s ∈ specs, ∀ m ∈ s.mz, lo ≤ m ∧ m ≤ hi) ∧
      (∃ s ∈ specs, lo ∈ s.mz) ∧ (∃ s ∈ specs, hi ∈ s.mz) := by
  rcases massRange_inv specs hne hs with ⟨h, _⟩ | h
  · exact absurd h h0
  · exact h

example : let specs : List Spectrum := [⟨1, 1, none, [100, 200], [1, 2]⟩, ⟨2, 1, some 7, [150], [4]⟩]
    specs ≠ [] ∧ (∀ s ∈ specs, s.mz ≠ []) ∧ (∀ s ∈ specs, Incr s.mz) ∧ massRange specs = (some 100, some 200) := by
  refine ⟨by simp, by simp, ?_, by decide +kernel⟩
  intro s hs
  simp only [List.mem_cons, List.not_mem_nil, or_false] at hs
  rcases hs with rfl | rfl <;> simp only [Incr] <;> norm_num

/-- Specification of binning: with strictly increasing bin edges `b₀ < b₁ < …`, width `w ≥ 0`, and
every m/z of the pixel inside `[b₀, b_last + w)`, the bins `[b_k, b_{k+1})` (last: `[b_last,
b_last + w)`) add up to the pixel's total intensity: every peak is counted in exactly one bin. -/
theorem bins_partition (mz it : List Rat) (b : Rat) (r : List Rat) (w : Rat) (hw : 0 ≤ w)
    (hb : Incr (b :: r)) (hlen : it.length = mz.length)
    (hin : ∀ l, (b :: r).getLast? = some l → ∀ x ∈ mz, b ≤ x ∧ x < l + w) :
    (binSpec mz it (b :: r) w).sum = it.sum := by
  obtain ⟨l, hl⟩ : ∃ l, (b :: r).getLast? = some l := ⟨_, List.getLast?_eq_some_getLast (by simp)⟩
  rw [binSpec_sum mz it b r w hw hb l hl]
  exact windowSum_all mz it hlen (hin l hl)

example : (0 : Rat) ≤ 1 ∧ Incr (100 :: [101, 102]) ∧
    (∀ l, (100 :: [101, 102] : List Rat).getLast? = some l → ∀ x ∈ ([100, 201/2, 102] : List Rat), 100 ≤ x ∧ x < l + 1) ∧
    binSpec [100, 201/2, 102] [1, 2, 4] [100, 101, 102] 1 = [3, 0, 4] := by
  refine ⟨by norm_num, by simp only [Incr]; norm_num, ?_, by decide +kernel⟩
  intro l hl x hx
  simp at hl; subst hl
  simp only [List.mem_cons, List.not_mem_nil, or_false] at hx
  rcases hx with rfl | rfl | rfl <;> norm_num

/-- a single peak is counted by exactly one bin (the bins' indicator sums to one) -/
theorem peak_in_one_bin (m : Rat) (b : Rat) (r : List Rat) (w : Rat) (hw : 0 ≤ w)
    (hb : Incr (b :: r)) (hin : ∀ l, (b :: r).getLast? = some l → b ≤ m ∧ m < l + w) :
    (binSpec [m] [1] (b :: r) w).sum = 1 := by
  have := bins_partition [m] [1] b r w hw hb rfl (by intro l hl x hx; simp at hx; subst hx; exact hin l hl)
  simpa using this

/-- the bins `arange(min, max + w, w)` of `binned_masses` satisfy the hypotheses of
`bins_partition` for every m/z in `[min, max]` -/
theorem bins_cover (lo hi w : Rat) (hw : 0 < w) (h : lo ≤ hi) :
    Incr (arange lo (hi + w) w) ∧ (arange lo (hi + w) w).head? = some lo ∧
    ∀ l, (arange lo (hi + w) w).getLast? = some l → ∀ x, lo ≤ x → x ≤ hi → lo ≤ x ∧ x < l + w := by
  refine ⟨arange_incr _ _ _ hw, (arange_cover lo hi w hw h).1, ?_⟩
  intro l hl x h1 h2
  exact ⟨h1, lt_of_le_of_lt h2 ((arange_cover lo hi w hw h).2 l hl)⟩

/- Full-strength statement, FALSE of the current `binned_masses` (known finding
   `C05-binned-masses-empty-bins`):
     theorem bins_correct (mz it bins w) (hs : Incr mz) (hlen : it.length = mz.length) (htop : …) :
         binSpectrum mz it bins = binSpec mz it bins w
   Counter-example below (`bins_current_wrong`).  Proved instead for the class in which every bin of
   the pixel holds a peak and the last bin holds the last peak: -/

/-- `binned_masses`, one spectrum, restricted class `dense` (searchsorted indices strictly
increasing and the last one inside the array, i.e. every bin of the pixel non-empty and the last
bin holding the last peak): clip + `reduceat` gives exactly the per-bin window sums. -/
theorem bins_partition_partial (mz it bins : List Rat) (w : Rat) (hs : Incr mz)
    (hlen : it.length = mz.length) (hd : dense mz bins = true)
    (htop : ∀ l, bins.getLast? = some l → ∀ x ∈ mz, x < l + w) :
    binSpectrum mz it bins = binSpec mz it bins w := by
  unfold binSpectrum
  unfold dense at hd
  rw [hlen, clip_of_lt _ _ (denseIdx_lt _ _ hd)]
  exact reduceat_dense mz it bins w hs hlen hd htop

example : Incr [100, 201/2, 405/4, 102] ∧ dense [100, 201/2, 405/4, 102] [100, 101, 102] = true ∧
    (∀ l, ([100, 101, 102] : List Rat).getLast? = some l → ∀ x ∈ ([100, 201/2, 405/4, 102] : List Rat), x < l + 1) ∧
    binSpectrum [100, 201/2, 405/4, 102] [1, 2, 4, 8] [100, 101, 102] = [3, 4, 8] := by
  refine ⟨by simp only [Incr]; norm_num, by decide +kernel, ?_, by decide +kernel⟩
  intro l hl x hx
  simp at hl; subst hl
  simp only [List.mem_cons, List.not_mem_nil, or_false] at hx
  rcases hx with rfl | rfl | rfl | rfl <;> norm_num

/-- the unrepaired mechanism on the documented input: `mz = [100,200,300,400]`, `it = [1,2,4,8]`,
bins `[100, 250, 260, 400, 550]` (width 150 irrelevant here): the empty bin `[250,260)` reports the
next peak (4) and the bins add up to 19 instead of 15. -/
theorem bins_current_wrong :
    binSpectrum [100, 200, 300, 400] [1, 2, 4, 8] [100, 250, 260, 400, 550] = [3, 4, 4, 8, 8] ∧
    binSpec [100, 200, 300, 400] [1, 2, 4, 8] [100, 250, 260, 400, 550] 150 = [3, 0, 4, 8, 0] := by
  constructor <;> decide +kernel

/-- the mechanism before the repair of `extract_masses` (clip, no sentinel, no zeroing) on the
documented input: window `[249, 251)` contains no peak but yields 4. -/
theorem extract_old_wrong :
    extractSpectrumOld [100, 200, 300, 400] [1, 2, 4, 8] [(249, 251)] = [4] ∧
    extractSpectrum [100, 200, 300, 400] [1, 2, 4, 8] [(249, 251)] = [0] := by
  constructor <;> decide +kernel

end Pew.Imzml
