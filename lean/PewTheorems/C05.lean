import PewProofs.Imzml
import PewProofs.ImzmlPlace
import PewProofs.ImzmlBins
import PewProofs.ImzmlRead
import PewProofs.ImzmlExt

/-! # C05 — property theorems (statements only depend on `PewModel.Imzml`) -/
namespace Pew.Imzml

/-! ## one spectrum: window sums -/

/-- On a strictly increasing m/z axis the slice between the two `searchsorted` indices of a
window `lo ≤ hi` sums exactly the intensities whose m/z lies in `[lo, hi)`. -/
theorem slice_eq_windowSum (mz it : List Rat) (lo hi : Rat) (hs : Incr mz)
    (hlen : it.length = mz.length) (hle : lo ≤ hi) :
    sliceSum it (ssLeft mz lo) (ssLeft mz hi) = windowSum mz it lo hi :=
  slice_eq_windowSum' mz it lo hi hs hlen hle

example : Incr [100, 200, 300, 400] ∧ ([1, 2, 4, 8] : List Rat).length = ([100, 200, 300, 400] : List Rat).length
    ∧ (150 : Rat) ≤ 300 := by
  refine ⟨?_, rfl, by norm_num⟩
  simp only [Incr]; norm_num

/-- The test `idx[::2] >= idx[1::2]` of `extract_masses`: on a strictly increasing axis the slice
between the two indices is empty exactly when NO PEAK lies in `[lo, hi)` (any `lo`, `hi`, also
`hi < lo`).  This is about the peaks, not about the value of the sum. -/
theorem slice_empty_iff (mz : List Rat) (lo hi : Rat) (hs : Incr mz) :
    ssLeft mz hi ≤ ssLeft mz lo ↔ ¬ ∃ m ∈ mz, lo ≤ m ∧ m < hi := by
  constructor
  · intro h hc
    have := peak_imp_ssLeft_lt hs hc
    omega
  · intro h
    by_contra hc
    exact h (ssLeft_lt_ssLeft (by omega))

example : Incr [100, 200, 300, 400] ∧ ssLeft [100, 200, 300, 400] 251 ≤ ssLeft [100, 200, 300, 400] 249 := by
  refine ⟨by simp only [Incr]; norm_num, by decide +kernel⟩

/-- A window without a peak sums to zero; with strictly positive intensities the converse holds
too (with a zero intensity inside the window it does not: `windowSum [1] [0] 0 2 = 0`). -/
theorem window_zero_iff_no_peak (mz it : List Rat) (lo hi : Rat) (hlen : it.length = mz.length)
    (hp : ∀ i ∈ it, 0 < i) :
    windowSum mz it lo hi = 0 ↔ ¬ ∃ m ∈ mz, lo ≤ m ∧ m < hi := by
  constructor
  · intro h hc
    have := windowSum_pos_of_peak hlen hp hc
    linarith
  · exact windowSum_zero_of_no_peak

example : (∀ i ∈ ([1, 2, 4, 8] : List Rat), 0 < i) ∧ windowSum [1] [0] 0 2 = 0 := by
  refine ⟨?_, by decide +kernel⟩
  intro i hi
  simp only [List.mem_cons, List.not_mem_nil, or_false] at hi
  rcases hi with rfl | rfl | rfl | rfl <;> norm_num

/-- `extract_masses`, one spectrum: searchsorted → zero sentinel → `reduceat` → `[::2]` → zeroing of
empty segments gives, for EVERY list of windows (empty, one or many peaks, touching the first or
last peak, wholly below or above the spectrum, overlapping, unsorted, even `hi < lo`), exactly the
sum of the intensities whose m/z lies in the half-open window — in particular 0 for a window that
contains no peak.  Hypotheses: strictly increasing m/z, as many intensities as m/z values. -/
theorem extract_correct (mz it : List Rat) (wins : List (Rat × Rat)) (hs : Incr mz)
    (hlen : it.length = mz.length) :
    extractSpectrum mz it wins = specSpectrum mz it wins := by
  induction wins with
  | nil => simp [extractSpectrum, specSpectrum, flatten, reduceat, evens, zeroEmpty]
  | cons w rest ih =>
    obtain ⟨lo, hi⟩ := w
    rw [extractSpectrum_cons, ih]
    simp only [specSpectrum, List.map_cons]
    congr 1
    rcases le_total lo hi with h | h
    · have hb : ssLeft mz hi ≤ it.length := hlen ▸ ssLeft_le_length mz hi
      rw [sliceSum_append_sentinel it 0 hb, slice_eq_windowSum' mz it lo hi hs hlen h]
      split
      · rfl
      · rw [← slice_eq_windowSum' mz it lo hi hs hlen h, sliceSum_empty]; omega
    · have := ssLeft_mono mz h
      rw [if_neg (by omega), windowSum_empty _ _ h]

example : Incr [100, 200, 300, 400] ∧ ([1, 2, 4, 8] : List Rat).length = ([100, 200, 300, 400] : List Rat).length := by
  refine ⟨?_, rfl⟩
  simp only [Incr]; norm_num

/-! ## one spectrum: every target on its own, peaks outside a window, windows outside the spectrum -/

/-- The loop body treats the windows one by one, whatever the list looks like (no hypothesis: this
is the mechanism): the extraction of a list of windows is the concatenation of the single-window
extractions.  So hundreds of targets, unsorted targets, duplicate targets and overlapping windows
each get exactly what they would get alone. -/
theorem extract_window_by_window (mz it : List Rat) (wins : List (Rat × Rat)) :
    extractSpectrum mz it wins = wins.flatMap (fun w => extractSpectrum mz it [w]) := by
  induction wins with
  | nil => simp [extractSpectrum_nil]
  | cons w r ih => rw [extractSpectrum_cons', ih, List.flatMap_cons]

/-- Pointwise form of `extract_correct`: as many sums as windows, and the `k`-th sum is the
half-open window sum of the `k`-th window — it depends on no other window (unsorted, duplicate,
overlapping targets). -/
theorem extract_pointwise (mz it : List Rat) (wins : List (Rat × Rat)) (hs : Incr mz)
    (hlen : it.length = mz.length) (k : Nat) :
    (extractSpectrum mz it wins).length = wins.length ∧
    (extractSpectrum mz it wins)[k]? = (wins[k]?).map (fun w => windowSum mz it w.1 w.2) := by
  refine ⟨extractSpectrum_length mz it wins, ?_⟩
  rw [extract_correct mz it wins hs hlen]
  simp [specSpectrum, List.getElem?_map]

/-- Reordering the targets reorders the sums in the same way. -/
theorem extract_perm (mz it : List Rat) (wins wins' : List (Rat × Rat)) (hs : Incr mz)
    (hlen : it.length = mz.length) (h : wins.Perm wins') :
    (extractSpectrum mz it wins).Perm (extractSpectrum mz it wins') := by
  rw [extract_correct mz it wins hs hlen, extract_correct mz it wins' hs hlen]
  exact h.map _

example : extractSpectrum [100, 200, 300, 400] [1, 2, 4, 8] [(350, 450), (50, 250), (350, 450), (150, 350)]
    = [8, 3, 8, 6] := by decide +kernel

/-- Peaks outside a window do not take part in its sum: their intensities may be replaced by any
values whatever (`g`) — a peak of 10¹⁷ below the window included — and the extracted value stays
the same.  ("the sum of EXACTLY those intensities whose m/z lies in the window") -/
theorem outside_peaks_irrelevant (mz it : List Rat) (lo hi : Rat) (g : Rat → Rat → Rat) (hs : Incr mz)
    (hlen : it.length = mz.length) :
    extractSpectrum mz (List.zipWith (fun m i => if lo ≤ m ∧ m < hi then i else g m i) mz it) [(lo, hi)]
      = extractSpectrum mz it [(lo, hi)] := by
  rw [extract_correct mz _ _ hs (by simp [hlen]), extract_correct mz it _ hs hlen]
  simp [specSpectrum, windowSum_outside]

example : extractSpectrum [50, 100, 101] [100000000000000000, 1, 2] [(99, 102)] = [3] ∧
    List.zipWith (fun m i => if (99 : Rat) ≤ m ∧ m < 102 then i else (0 : Rat)) [50, 100, 101] [100000000000000000, 1, 2]
      = [0, 1, 2] := by
  constructor <;> decide +kernel

/-- A window wholly below or wholly above the spectrum extracts 0 (no positivity of the
intensities is needed for this direction). -/
theorem window_outside_spectrum (mz it : List Rat) (lo hi : Rat) (hs : Incr mz)
    (hlen : it.length = mz.length) (h : (∀ m ∈ mz, hi ≤ m) ∨ (∀ m ∈ mz, m < lo)) :
    extractSpectrum mz it [(lo, hi)] = [0] := by
  rw [extract_correct mz it _ hs hlen]
  simp only [specSpectrum, List.map_cons, List.map_nil, List.cons.injEq, and_true]
  apply windowSum_zero_of_no_peak
  rintro ⟨m, hm, h1, h2⟩
  rcases h with h | h
  · exact absurd (h m hm) (not_le.mpr h2)
  · exact absurd (h m hm) (not_lt.mpr h1)

example : (∀ m ∈ ([100, 200] : List Rat), (90 : Rat) ≤ m) ∧ extractSpectrum [100, 200] [1, 2] [(50, 90), (250, 300)] = [0, 0] := by
  refine ⟨?_, by decide +kernel⟩
  intro m hm
  simp only [List.mem_cons, List.not_mem_nil, or_false] at hm
  rcases hm with rfl | rfl <;> norm_num

/-- A window that holds every peak extracts the summed intensities — the value the TIC image shows
for a spectrum without a stored total ion current (`ticOf`). -/
theorem window_with_every_peak (s : Spectrum) (lo hi : Rat) (hs : Incr s.mz)
    (hlen : s.it.length = s.mz.length) (h : ∀ m ∈ s.mz, lo ≤ m ∧ m < hi) (ht : s.tic = none) :
    extractSpectrum s.mz s.it [(lo, hi)] = [ticOf s] := by
  rw [extract_correct s.mz s.it _ hs hlen]
  simp [specSpectrum, windowSum_all s.mz s.it hlen h, ticOf, ht]

example : extractSpectrum [100, 200] [1, 2] [(100, 201)] = [ticOf ⟨1, 1, none, [100, 200], [1, 2]⟩] := by
  decide +kernel

/-! ## adjacent half-open windows -/

/-- Two windows sharing an edge `mid`: a peak lies in `[lo, hi)` iff it lies in one of `[lo, mid)`,
`[mid, hi)`, never in both; a peak exactly ON the shared edge is outside the lower window and (when
the upper window is not empty) inside the upper one. -/
theorem shared_edge_once (lo mid hi m i : Rat) (h1 : lo ≤ mid) (h2 : mid ≤ hi) :
    ((lo ≤ m ∧ m < hi) ↔ ((lo ≤ m ∧ m < mid) ∨ (mid ≤ m ∧ m < hi))) ∧
    ¬ ((lo ≤ m ∧ m < mid) ∧ (mid ≤ m ∧ m < hi)) ∧
    windowSum [mid] [i] lo mid = 0 ∧ (mid < hi → windowSum [mid] [i] mid hi = i) := by
  refine ⟨?_, ?_, ?_, ?_⟩
  · constructor
    · rintro ⟨a, b⟩
      rcases lt_or_ge m mid with h | h
      · exact Or.inl ⟨a, h⟩
      · exact Or.inr ⟨h, b⟩
    · rintro (⟨a, b⟩ | ⟨a, b⟩)
      · exact ⟨a, lt_of_lt_of_le b h2⟩
      · exact ⟨le_trans h1 a, b⟩
  · rintro ⟨⟨_, b⟩, ⟨c, _⟩⟩
    exact absurd c (not_le.mpr b)
  · simp [windowSum]
  · intro h; simp [windowSum, h]

/-- A chain of adjacent windows `[e₀, e₁), [e₁, e₂), …, [eₙ₋₁, eₙ)` (strictly increasing edges;
target masses `m, m + w, …` with an absolute width `w`): the extracted sums add up to the window sum
over `[e₀, eₙ)` — every peak of that range is counted in exactly one window, a peak on a shared edge
too. -/
theorem adjacent_windows_once (mz it : List Rat) (e : Rat) (r : List Rat) (hs : Incr mz)
    (hlen : it.length = mz.length) (he : Incr (e :: r)) :
    ∀ l, (e :: r).getLast? = some l →
      (extractSpectrum mz it (chain (e :: r))).sum = windowSum mz it e l := by
  intro l hl
  rw [extract_correct mz it _ hs hlen]
  exact chain_sum mz it e r he l hl

example : Incr (99 :: [100, 101, 102]) ∧ chain [99, 100, 101, 102] = [(99, 100), (100, 101), (101, 102)] ∧
    extractSpectrum [99, 100, 101, 203/2] [1, 2, 4, 8] (chain [99, 100, 101, 102]) = [1, 2, 12] ∧
    windowSum [99, 100, 101, 203/2] [1, 2, 4, 8] 99 102 = 15 := by
  refine ⟨by simp only [Incr]; norm_num, by decide +kernel, by decide +kernel, by decide +kernel⟩

/-! ## window edges -/

/-- The window of a target mass `m` is `[m - w/2, m + w/2)`: it is centred on `m` and its width is
`w`, where `w` is the absolute width or `m·ppm/10⁶` — the two kinds of width differ in nothing else. -/
theorem window_centre_width (wd : Width) (m : Rat) :
    ∃ lo hi, windows [m] wd = [(lo, hi)] ∧ (lo + hi) / 2 = m ∧
      hi - lo = (match wd with
                 | .ppm p => m * p / 1000000
                 | .mz a => a) := by
  refine ⟨m - halfWidth wd m, m + halfWidth wd m, rfl, by ring, ?_⟩
  cases wd with
  | ppm p => simp only [halfWidth]; ring
  | mz a => simp only [halfWidth]; ring

/-- the edges of a ppm window in closed form: `m·(1 ∓ ppm/(2·10⁶))` -/
theorem ppm_window (masses : List Rat) (p : Rat) :
    windows masses (.ppm p) = masses.map (fun m => (m * (1 - p / 2000000), m * (1 + p / 2000000))) := by
  unfold windows
  apply List.map_congr_left
  intro m _
  simp only [halfWidth, Prod.mk.injEq]
  constructor <;> ring

/-- ppm and absolute widths differ only in how the width is computed: a ppm extraction is, mass by
mass, the absolute extraction with the width `m·ppm/10⁶` of that mass. -/
theorem ppm_is_abs (mz it : List Rat) (masses : List Rat) (p : Rat) :
    extractSpectrum mz it (windows masses (.ppm p))
      = masses.flatMap (fun m => extractSpectrum mz it (windows [m] (.mz (m * p / 1000000)))) := by
  induction masses with
  | nil => simp [windows, extractSpectrum_nil]
  | cons m ms ih =>
    have hw : windows (m :: ms) (.ppm p) = (m - halfWidth (.ppm p) m, m + halfWidth (.ppm p) m) :: windows ms (.ppm p) := rfl
    rw [hw, extractSpectrum_cons', ih, List.flatMap_cons]
    rfl

example : windows [200] (.ppm 10000) = [(199, 201)] ∧ windows [200] (.mz 2) = [(199, 201)] := by
  constructor <;> decide +kernel

/-- The target masses are treated one by one with either kind of width (no hypothesis): the value
for a target does not depend on which other targets are asked for, in which order, or how often. -/
theorem extract_target_by_target (mz it : List Rat) (masses : List Rat) (w : Width) :
    extractSpectrum mz it (windows masses w) = masses.flatMap (fun m => extractSpectrum mz it (windows [m] w)) := by
  rw [extract_window_by_window]
  simp [windows, List.flatMap_map]

/-- ppm windows are scale-free: multiplying every m/z of the spectrum and every target mass by the
same positive factor leaves a ppm extraction unchanged (small and large masses behave alike). -/
theorem ppm_scale_free (mz it masses : List Rat) (p k : Rat) (hk : 0 < k) (hs : Incr mz)
    (hlen : it.length = mz.length) :
    extractSpectrum (mz.map (k * ·)) it (windows (masses.map (k * ·)) (.ppm p))
      = extractSpectrum mz it (windows masses (.ppm p)) := by
  rw [extract_correct _ it _ (incr_scale hk hs) (by simp [hlen]), extract_correct mz it _ hs hlen]
  simp only [specSpectrum, windows, List.map_map]
  apply List.map_congr_left
  intro m _
  simp only [Function.comp, halfWidth]
  have e1 : k * m - k * m * p / 1000000 / 2 = k * (m - m * p / 1000000 / 2) := by ring
  have e2 : k * m + k * m * p / 1000000 / 2 = k * (m + m * p / 1000000 / 2) := by ring
  rw [e1, e2, windowSum_scale _ _ _ _ _ hk]

example : extractSpectrum ([100, 200].map ((1 / 64 : Rat) * ·)) [1, 2] (windows ([100].map ((1 / 64 : Rat) * ·)) (.ppm 10000))
    = extractSpectrum [100, 200] [1, 2] (windows [100] (.ppm 10000)) := by decide +kernel

/-! ## the external binary -/

/-- `Spectrum.get_binary_data` raises (ValueError of `np.frombuffer`) exactly when the bytes that
`read` returns — `length` of them, fewer at the end of the file — are not a whole number of
elements. -/
theorem read_raises_iff (bo : ByteOrder) (ibd : List UInt8) (off len : Nat) (dt : DType) :
    getBinaryData bo ibd off len dt = none ↔ min len (ibd.length - off) % dt.width ≠ 0 := by
  unfold getBinaryData
  rw [frombuffer_eq_none_iff, readBytes_length]
  have : dt.width ≠ 0 := by cases dt <;> simp [DType.width]
  simp [this]

/-- Pointwise: the array that `get_binary_data` returns has `⌊available/width⌋` elements and element
`i` is the bit pattern of the bytes `[offset + i·width, offset + (i+1)·width)` of the `.ibd` file. -/
theorem read_pointwise (bo : ByteOrder) (ibd : List UInt8) (off len : Nat) (dt : DType) (arr : List Nat)
    (h : getBinaryData bo ibd off len dt = some arr) :
    arr.length = min len (ibd.length - off) / dt.width ∧
    ∀ i (hi : i < arr.length),
      arr[i] = bitsOf bo ((ibd.drop (off + i * dt.width)).take dt.width) := by
  unfold getBinaryData at h
  obtain ⟨hw, hmod, hlen, hpt⟩ := frombuffer_some bo dt.width _ arr h
  rw [readBytes_length] at hlen
  refine ⟨hlen, ?_⟩
  intro i hi
  rw [hpt i hi, readBytes_chunk]
  rw [readBytes_length]
  rw [readBytes_length] at hmod
  have h1 : i + 1 ≤ min len (ibd.length - off) / dt.width := by omega
  calc (i + 1) * dt.width ≤ (min len (ibd.length - off) / dt.width) * dt.width := Nat.mul_le_mul_right _ h1
    _ ≤ min len (ibd.length - off) := Nat.div_mul_le_self _ _

/-- An array that lies inside the file and whose encoded length is a multiple of the element width
is read without error, has `length / width` elements, and every element is decoded from exactly
`width` bytes at its own offset. -/
theorem read_in_file (bo : ByteOrder) (ibd : List UInt8) (off len : Nat) (dt : DType)
    (hfit : off + len ≤ ibd.length) (hmul : len % dt.width = 0) :
    ∃ arr, getBinaryData bo ibd off len dt = some arr ∧ arr.length = len / dt.width ∧
      ∀ i (hi : i < arr.length),
        arr[i] = bitsOf bo ((ibd.drop (off + i * dt.width)).take dt.width) ∧
        ((ibd.drop (off + i * dt.width)).take dt.width).length = dt.width := by
  have hmin : min len (ibd.length - off) = len := by omega
  cases h : getBinaryData bo ibd off len dt with
  | none =>
    have := (read_raises_iff bo ibd off len dt).mp h
    rw [hmin] at this
    exact absurd hmul this
  | some arr =>
    obtain ⟨hl, hp⟩ := read_pointwise bo ibd off len dt arr h
    rw [hmin] at hl
    refine ⟨arr, rfl, hl, fun i hi => ⟨hp i hi, ?_⟩⟩
    have hw : 0 < dt.width := by cases dt <;> simp [DType.width]
    have h1 : i + 1 ≤ len / dt.width := by omega
    have h2 : (i + 1) * dt.width ≤ len :=
      le_trans (Nat.mul_le_mul_right _ h1) (Nat.div_mul_le_self _ _)
    have h3 : (i + 1) * dt.width = i * dt.width + dt.width := Nat.succ_mul _ _
    simp only [List.length_take, List.length_drop]
    omega

/-- Spectra that share an external offset (a stored-once axis of which each pixel records a leading
part): two reads at the same offset agree element by element as far as both reach, and the number of
elements of each is decided by ITS OWN encoded length - the offset alone does not identify an array. -/
theorem read_shared_offset (bo : ByteOrder) (ibd : List UInt8) (off len₁ len₂ : Nat) (dt : DType)
    (a₁ a₂ : List Nat) (h₁ : getBinaryData bo ibd off len₁ dt = some a₁)
    (h₂ : getBinaryData bo ibd off len₂ dt = some a₂) :
    a₁.length = min len₁ (ibd.length - off) / dt.width ∧
    a₂.length = min len₂ (ibd.length - off) / dt.width ∧
    ∀ i (h1 : i < a₁.length) (h2 : i < a₂.length), a₁[i] = a₂[i] := by
  obtain ⟨l1, p1⟩ := read_pointwise bo ibd off len₁ dt a₁ h₁
  obtain ⟨l2, p2⟩ := read_pointwise bo ibd off len₂ dt a₂ h₂
  exact ⟨l1, l2, fun i h1 h2 => by rw [p1 i h1, p2 i h2]⟩

example : getBinaryData .little [0, 0, 0x80, 0x3f, 0, 0, 0, 0x40, 7, 7, 7, 7] 0 4 .f32 = some [0x3f800000] ∧
    getBinaryData .little [0, 0, 0x80, 0x3f, 0, 0, 0, 0x40, 7, 7, 7, 7] 0 8 .f32 = some [0x3f800000, 0x40000000] := by
  constructor <;> decide +kernel

example : (4 : Nat) + 8 ≤ ([0, 0, 0, 0, 0, 0, 0x80, 0x3f, 0, 0, 0, 0x40, 0xff] : List UInt8).length ∧ 8 % DType.f32.width = 0 := by
  decide

example : getBinaryData .little [0, 0, 0, 0, 0, 0, 0x80, 0x3f, 0, 0, 0, 0x40, 0xff] 4 8 .f32 = some [0x3f800000, 0x40000000]
    ∧ valueOf .f32 0x3f800000 = some 1 ∧ valueOf .f32 0x40000000 = some 2
    ∧ valueOf .f64 0x4059000000000000 = some 100 ∧ valueOf .f32 0xc2c80000 = some (-100)
    ∧ valueOf .f32 0x7fc00000 = none ∧ valueOf .f32 1 = some (1 / 2 ^ 149)
    ∧ getBinaryData .little [1, 2, 3, 4, 5] 0 5 .u16 = none
    ∧ getBinaryData .little [1, 2, 3, 4, 5] 3 8 .u16 = some [0x0504] := by
  refine ⟨by decide +kernel, by decide +kernel, by decide +kernel, by decide +kernel, by decide +kernel,
    by decide +kernel, by decide +kernel, by decide +kernel, by decide +kernel⟩

/-- The bit pattern of an element determines its bytes (same width): nothing is lost between the
file and the token the harness compares; and it fits the element's width. -/
theorem read_bits_faithful (a b : List UInt8) (hl : a.length = b.length) :
    (bitsOf .little a = bitsOf .little b → a = b) ∧ bitsOf .little a < 256 ^ a.length :=
  ⟨leNat_injective a b hl, leNat_lt a⟩

/-! ## the dict of spectra -/

/-- `ImzML.spectra` holds, for every position, the LAST spectrum the file records there. -/
theorem spectra_dict_lookup (file : List Spectrum) (r c : Nat) :
    specAt (spectraDict file) r c = specAt file r c :=
  specAt_spectraDict file r c

/-- every value of the dict is a spectrum of the file, and no two values share a position -/
theorem spectra_dict_distinct (file : List Spectrum) :
    (∀ s ∈ spectraDict file, s ∈ file) ∧
    (spectraDict file).Pairwise (fun a b => samePos a b = false) := by
  refine ⟨fun s hs => mem_spectraDict hs, ?_⟩
  induction file using List.reverseRecOn with
  | nil => simp [spectraDict]
  | append_singleton file s ih =>
    rw [spectraDict_append_one]
    exact dictSet_distinct _ _ ih

/-- a file that records every position at most once ("any subset of pixels present") is its own
dict: same spectra, same order -/
theorem spectra_dict_of_distinct (file : List Spectrum) (h : distinctB file = true) :
    spectraDict file = file := by
  have := foldl_dictSet_distinct file [] (by simpa using (distinctB_iff file).mp h)
  simpa [spectraDict] using this

example : distinctB [⟨1, 1, none, [100], [1]⟩, ⟨2, 1, none, [100], [2]⟩] = true ∧
    spectraDict [⟨0, 1, none, [], [1]⟩, ⟨2, 1, none, [], [2]⟩, ⟨0, 1, none, [], [3]⟩]
      = [⟨0, 1, none, [], [3]⟩, ⟨2, 1, none, [], [2]⟩] := by
  constructor <;> decide +kernel

/-! ## placement -/

/-- NumPy subscripts: `data[i]` on an axis of length `n` addresses element `i` for `0 ≤ i < n`,
element `i + n` for `-n ≤ i < 0`, and raises otherwise. -/
theorem py_subscript (n : Nat) (i : Int) :
    (pyIndex n i = none ↔ i < -(n : Int) ∨ (n : Int) ≤ i) ∧
    ∀ k, pyIndex n i = some k ↔
      ((0 ≤ i ∧ i < n ∧ (k : Int) = i) ∨ (i < 0 ∧ -(n : Int) ≤ i ∧ (k : Int) = i + n)) :=
  ⟨pyIndex_eq_none_iff n i, pyIndex_eq_some_iff n i⟩

/-- Placement as the code does it, for ANY integer positions (mechanism level): the loop
`data[y-1, x-1] = f(spectrum)` on a canvas of shape `(Y, X)` raises IndexError exactly when some
subscript is out of bounds; otherwise the pixel `[r][c]` holds the value of the last spectrum of
the loop whose subscripts normalise to `(r, c)` — a position 0 lands in the LAST row/column — and
is NaN when there is none. -/
theorem placement {β} (shape : Nat × Nat) (f : Spectrum → β) (d : List Spectrum) :
    (place shape f d = none ↔
      ∃ s ∈ d, pyIndex shape.1 (s.y - 1) = none ∨ pyIndex shape.2 (s.x - 1) = none) ∧
    ∀ img, place shape f d = some img → ∀ r c, img r c = (lastAt shape d r c).map f :=
  ⟨place_eq_none_iff shape f d, fun img h r c => place_some_pixel shape f d img h r c⟩

example : (place (2, 2) (fun s => s.it) [⟨0, 1, none, [], [7]⟩]).map (fun img => tabulate (2, 2) img)
      = some [[none, some [7]], [none, none]] ∧
    (place (2, 2) (fun s => s.it) [⟨3, 1, none, [], [7]⟩]).isNone = true := by
  constructor <;> decide +kernel

/-- Placement under the property's hypothesis (positions 1-based and inside the image): the loop
does not raise, the pixel `[r][c] = [y-1][x-1]` holds the value of the (last) spectrum recorded at
position `(x, y) = (c+1, r+1)` and is NaN when no spectrum was recorded there. -/
theorem placement_in_domain {β} (shape : Nat × Nat) (f : Spectrum → β) (d : List Spectrum)
    (hd : InDomain shape d) :
    ∃ img, place shape f d = some img ∧ ∀ r c, img r c = (specAt d r c).map f := by
  cases h : place shape f d with
  | none =>
    obtain ⟨s, hs, hnone⟩ := (place_eq_none_iff shape f d).mp h
    obtain ⟨hx1, hx2, hy1, hy2⟩ := hd s hs
    rw [pyIndex_in_domain hy1 hy2, pyIndex_in_domain hx1 hx2] at hnone
    simp at hnone
  | some img =>
    exact ⟨img, rfl, fun r c => by
      rw [place_some_pixel shape f d img h r c, lastAt_eq_specAt shape d hd]⟩

example : InDomain (3, 2) [⟨2, 3, none, [100], [1]⟩, ⟨1, 2, some 7, [150], [4]⟩] := by
  rw [← inDomainB_iff]; decide +kernel

/-- positions inside the image stay inside when the file is turned into the dict -/
theorem in_domain_dict (shape : Nat × Nat) (file : List Spectrum) (h : InDomain shape file) :
    InDomain shape (spectraDict file) :=
  fun s hs => h s (mem_spectraDict hs)

/-- An image method on a whole file (`<spectrum>` elements in file order → dict → size → canvas →
loop): with positions inside the image it returns the shape `(Y, X)` and at `[r][c]` the value of
the last spectrum the file records at `(c+1, r+1)`, NaN elsewhere. -/
theorem image_correct {β} (size : Option (Int × Int)) (file : List Spectrum) (shape : Nat × Nat)
    (f : Spectrum → β)
    (hsz : (imageSize size (spectraDict file)).bind shapeOf = some shape)
    (hdom : InDomain shape (spectraDict file)) :
    ∃ img, image size f (spectraDict file) = some (shape, img) ∧
      ∀ r c, img r c = (specAt file r c).map f := by
  obtain ⟨img, hp, hpix⟩ := placement_in_domain shape f (spectraDict file) hdom
  refine ⟨img, image_eq_some hsz hp, fun r c => ?_⟩
  rw [hpix r c, specAt_spectraDict]

/-- a spectrum found at a pixel is a spectrum of the file, recorded at that pixel's position -/
theorem specAt_pos (file : List Spectrum) (r c : Nat) (s : Spectrum) (h : specAt file r c = some s) :
    s ∈ file ∧ s.y = r + 1 ∧ s.x = c + 1 := by
  have hm := List.mem_of_find?_eq_some h
  have hp := List.find?_some h
  simp only [Bool.and_eq_true, beq_iff_eq] at hp
  exact ⟨by simpa using hm, hp.1, hp.2⟩

/-- `extract_masses` on a file: shape `(Y, X)`; at `[y-1][x-1]` the spectrum's own window sums
(the specification `windowSum`, window by window), NaN where no spectrum was recorded.
Hypotheses: positions inside the image, strictly increasing m/z, equal lengths. -/
theorem extract_image_correct (size : Option (Int × Int)) (file : List Spectrum) (shape : Nat × Nat)
    (masses : List Rat) (w : Width)
    (hsz : (imageSize size (spectraDict file)).bind shapeOf = some shape)
    (hdom : InDomain shape (spectraDict file))
    (hs : ∀ s ∈ file, Incr s.mz ∧ s.it.length = s.mz.length) :
    ∃ img, extractImage size (spectraDict file) masses w = some (shape, img) ∧
      ∀ r c, img r c = (specAt file r c).map (fun s => specSpectrum s.mz s.it (windows masses w)) := by
  obtain ⟨img, hi, hpix⟩ := image_correct size file shape
    (fun s => extractSpectrum s.mz s.it (windows masses w)) hsz hdom
  refine ⟨img, hi, fun r c => ?_⟩
  rw [hpix r c]
  cases h : specAt file r c with
  | none => rfl
  | some s =>
    have hm := (specAt_pos file r c s h).1
    simp only [Option.map_some]
    rw [extract_correct _ _ _ (hs s hm).1 (hs s hm).2]

example : let file : List Spectrum := [⟨2, 1, none, [100, 200], [1, 2]⟩, ⟨1, 2, some 7, [150], [4]⟩]
    (imageSize (some (2, 2)) (spectraDict file)).bind shapeOf = some (2, 2) ∧
    InDomain (2, 2) (spectraDict file) ∧ (∀ s ∈ file, Incr s.mz ∧ s.it.length = s.mz.length) ∧
    (extractImage (some (2, 2)) (spectraDict file) [150, 400] (.mz 100)).map (fun r => tabulate r.1 r.2)
      = some [[none, some [1, 0]], [some [4, 0], none]] := by
  refine ⟨by decide +kernel, by rw [← inDomainB_iff]; decide +kernel, ?_, by decide +kernel⟩
  intro s hs
  simp only [List.mem_cons, List.not_mem_nil, or_false] at hs
  rcases hs with rfl | rfl
  · exact ⟨by simp only [Incr]; norm_num, rfl⟩
  · exact ⟨by simp only [Incr], rfl⟩

/-- TIC image (corollary of `image_correct`): the stored total ion current, or the summed
intensities when it is absent, at `[y-1][x-1]`; NaN where no spectrum was recorded. -/
theorem tic_spec (size : Option (Int × Int)) (file : List Spectrum) (shape : Nat × Nat)
    (hsz : (imageSize size (spectraDict file)).bind shapeOf = some shape)
    (hdom : InDomain shape (spectraDict file)) :
    ∃ img, ticImage size (spectraDict file) = some (shape, img) ∧
      ∀ r c, img r c = (specAt file r c).map (fun s => match s.tic with
                                                       | some t => t
                                                       | none => s.it.sum) := by
  obtain ⟨img, hi, hpix⟩ := image_correct size file shape ticOf hsz hdom
  refine ⟨img, hi, fun r c => ?_⟩
  rw [hpix r c]
  cases specAt file r c with
  | none => rfl
  | some s => simp only [Option.map_some, ticOf]; cases s.tic <;> rfl

/-- a size stated in the scan settings (two naturals) is the shape of the image -/
theorem image_size_stated (X Y : Nat) (d : List Spectrum) :
    (imageSize (some ((X : Int), (Y : Int))) d).bind shapeOf = some (Y, X) := by
  simp [imageSize, shapeOf]

/-- image size fallback: without a size in the scan settings the image is `(max x, max y)` over
the dict, which bounds every recorded position and is attained; with positions `≥ 1` every spectrum
therefore has its pixel (`InDomain`). -/
theorem image_size_fallback (d : List Spectrum) (hne : d ≠ []) (hpos : ∀ s ∈ d, 1 ≤ s.x ∧ 1 ≤ s.y) :
    ∃ shape, (imageSize none d).bind shapeOf = some shape ∧ InDomain shape d ∧
      (∃ s ∈ d, s.x = shape.2) ∧ (∃ s ∈ d, s.y = shape.1) := by
  have hx : ∀ s ∈ d, s.x ≤ maxInt (d.map (·.x)) := fun s hs => le_maxInt _ _ (List.mem_map.mpr ⟨s, hs, rfl⟩)
  have hy : ∀ s ∈ d, s.y ≤ maxInt (d.map (·.y)) := fun s hs => le_maxInt _ _ (List.mem_map.mpr ⟨s, hs, rfl⟩)
  obtain ⟨sx, hsx, hxe⟩ := List.mem_map.mp (maxInt_mem (d.map (·.x)) (by simp [hne]))
  obtain ⟨sy, hsy, hye⟩ := List.mem_map.mp (maxInt_mem (d.map (·.y)) (by simp [hne]))
  have h1 : 1 ≤ maxInt (d.map (·.x)) := by rw [← hxe]; exact (hpos sx hsx).1
  have h2 : 1 ≤ maxInt (d.map (·.y)) := by rw [← hye]; exact (hpos sy hsy).2
  have hemp : d.isEmpty = false := by cases d <;> simp_all
  refine ⟨((maxInt (d.map (·.y))).toNat, (maxInt (d.map (·.x))).toNat), ?_, ?_, ⟨sx, hsx, ?_⟩, ⟨sy, hsy, ?_⟩⟩
  · have e : imageSize none d = some (maxInt (d.map (·.x)), maxInt (d.map (·.y))) := by
      simp [imageSize, hemp]
    rw [e, Option.bind_some]
    unfold shapeOf
    rw [if_pos ⟨by simp only []; omega, by simp only []; omega⟩]
  · intro s hs
    have := hx s hs; have := hy s hs; have := hpos s hs
    refine ⟨by omega, by simp only []; omega, by omega, by simp only []; omega⟩
  · simp only []; omega
  · simp only []; omega

example : let d : List Spectrum := [⟨2, 3, none, [100], [1]⟩, ⟨1, 2, some 7, [150], [4]⟩]
    d ≠ [] ∧ (∀ s ∈ d, 1 ≤ s.x ∧ 1 ≤ s.y) ∧ (imageSize none d).bind shapeOf = some (3, 2) := by
  refine ⟨by simp, ?_, by decide +kernel⟩
  intro s hs
  simp only [List.mem_cons, List.not_mem_nil, or_false] at hs
  rcases hs with rfl | rfl <;> simp

/-! ## mass range -/

/-- `mass_range`: for ≥ 1 spectra, each non-empty and strictly increasing, the running min/max of
first/last elements bounds every recorded m/z, and both bounds are recorded m/z values. -/
theorem mass_range_bounds (specs : List Spectrum) (h0 : specs ≠ [])
    (hne : ∀ s ∈ specs, s.mz ≠ []) (hs : ∀ s ∈ specs, Incr s.mz) :
    ∃ lo hi, massRange specs = some (some lo, some hi) ∧
      (∀ s ∈ specs, ∀ m ∈ s.mz, lo ≤ m ∧ m ≤ hi) ∧
      (∃ s ∈ specs, lo ∈ s.mz) ∧ (∃ s ∈ specs, hi ∈ s.mz) := by
  rcases massRange_inv specs hne hs with ⟨h, _⟩ | h
  · exact absurd h h0
  · exact h

example : let specs : List Spectrum := [⟨1, 1, none, [100, 200], [1, 2]⟩, ⟨2, 1, some 7, [150], [4]⟩]
    specs ≠ [] ∧ (∀ s ∈ specs, s.mz ≠ []) ∧ (∀ s ∈ specs, Incr s.mz) ∧ massRange specs = some (some 100, some 200) := by
  refine ⟨by simp, by simp, ?_, by decide +kernel⟩
  intro s hs
  simp only [List.mem_cons, List.not_mem_nil, or_false] at hs
  rcases hs with rfl | rfl <;> simp only [Incr] <;> norm_num

/-! ## binning -/

/-- Specification of binning: with strictly increasing bin edges `b₀ < b₁ < …`, width `w ≥ 0`, and
every m/z of the pixel inside `[b₀, b_last + w)`, the bins `[b_k, b_{k+1})` (last: `[b_last,
b_last + w)`) add up to the pixel's total intensity: every peak is counted in exactly one bin. -/
theorem bins_partition (mz it : List Rat) (b : Rat) (r : List Rat) (w : Rat) (hw : 0 ≤ w)
    (hb : Incr (b :: r)) (hlen : it.length = mz.length)
    (hin : ∀ l, (b :: r).getLast? = some l → ∀ x ∈ mz, b ≤ x ∧ x < l + w) :
    (binSpec mz it (b :: r) w).sum = it.sum := by
  obtain ⟨l, hl⟩ : ∃ l, (b :: r).getLast? = some l := ⟨_, List.getLast?_eq_some_getLast (by simp)⟩
  rw [binSpec_sum mz it b r w hw hb l hl]
  exact windowSum_all mz it hlen (hin l hl)

example : (0 : Rat) ≤ 1 ∧ Incr (100 :: [101, 102]) ∧
    (∀ l, (100 :: [101, 102] : List Rat).getLast? = some l → ∀ x ∈ ([100, 201/2, 102] : List Rat), 100 ≤ x ∧ x < l + 1) ∧
    binSpec [100, 201/2, 102] [1, 2, 4] [100, 101, 102] 1 = [3, 0, 4] := by
  refine ⟨by norm_num, by simp only [Incr]; norm_num, ?_, by decide +kernel⟩
  intro l hl x hx
  simp at hl; subst hl
  simp only [List.mem_cons, List.not_mem_nil, or_false] at hx
  rcases hx with rfl | rfl | rfl <;> norm_num

/-- a single peak is counted by exactly one bin (the bins' indicator sums to one) -/
theorem peak_in_one_bin (m : Rat) (b : Rat) (r : List Rat) (w : Rat) (hw : 0 ≤ w)
    (hb : Incr (b :: r)) (hin : ∀ l, (b :: r).getLast? = some l → b ≤ m ∧ m < l + w) :
    (binSpec [m] [1] (b :: r) w).sum = 1 := by
  have := bins_partition [m] [1] b r w hw hb rfl (by intro l hl x hx; simp at hx; subst hx; exact hin l hl)
  simpa using this

/-- the bins `arange(min, max + w, w)` of `binned_masses` satisfy the hypotheses of
`bins_partition` for every m/z in `[min, max]` -/
theorem bins_cover (lo hi w : Rat) (hw : 0 < w) (h : lo ≤ hi) :
    Incr (arange lo (hi + w) w) ∧ (arange lo (hi + w) w).head? = some lo ∧
    ∀ l, (arange lo (hi + w) w).getLast? = some l → ∀ x, lo ≤ x → x ≤ hi → lo ≤ x ∧ x < l + w := by
  refine ⟨arange_incr _ _ _ hw, (arange_cover lo hi w hw h).1, ?_⟩
  intro l hl x h1 h2
  exact ⟨h1, lt_of_le_of_lt h2 ((arange_cover lo hi w hw h).2 l hl)⟩

/- Full-strength statement, FALSE of the current `binned_masses` (known finding
   `C05-binned-masses-empty-bins`):
     theorem bins_correct (mz it bins w) (hs : Incr mz) (hlen : it.length = mz.length) (htop : …) :
         binSpectrum mz it bins = binSpec mz it bins w
   Counter-example below (`bins_current_wrong`).  Proved instead for the class in which every bin of
   the pixel holds a peak and the last bin holds the last peak: -/

/-- `binned_masses`, one spectrum, restricted class `dense` (searchsorted indices strictly
increasing and the last one inside the array, i.e. every bin of the pixel non-empty and the last
bin holding the last peak): clip + `reduceat` gives exactly the per-bin window sums. -/
theorem bins_partition_partial (mz it bins : List Rat) (w : Rat) (hs : Incr mz)
    (hlen : it.length = mz.length) (hd : dense mz bins = true)
    (htop : ∀ l, bins.getLast? = some l → ∀ x ∈ mz, x < l + w) :
    binSpectrum mz it bins = binSpec mz it bins w := by
  unfold binSpectrum
  unfold dense at hd
  rw [hlen, clip_of_lt _ _ (denseIdx_lt _ _ hd)]
  exact reduceat_dense mz it bins w hs hlen hd htop

example : Incr [100, 201/2, 405/4, 102] ∧ dense [100, 201/2, 405/4, 102] [100, 101, 102] = true ∧
    (∀ l, ([100, 101, 102] : List Rat).getLast? = some l → ∀ x ∈ ([100, 201/2, 405/4, 102] : List Rat), x < l + 1) ∧
    binSpectrum [100, 201/2, 405/4, 102] [1, 2, 4, 8] [100, 101, 102] = [3, 4, 8] := by
  refine ⟨by simp only [Incr]; norm_num, by decide +kernel, ?_, by decide +kernel⟩
  intro l hl x hx
  simp at hl; subst hl
  simp only [List.mem_cons, List.not_mem_nil, or_false] at hx
  rcases hx with rfl | rfl | rfl | rfl <;> norm_num

/-- How small the class `dense` is for the edges `arange(min, max + w, w)` that `binned_masses`
uses: a pixel is in it only if it contains the image's HIGHEST m/z itself, `(max − min)/w` is an
exact natural number (the last edge is then `max`), and every pair of neighbouring edges has one of
the pixel's peaks between them.  (With the default `w = 0.1` on measured float data the second
condition alone fails for essentially every file: the class is then empty and every pixel falls
under the known finding.) -/
theorem dense_requires (mz : List Rat) (lo hi w : Rat) (hw : 0 < w) (h : lo ≤ hi)
    (hb : ∀ m ∈ mz, m ≤ hi) (hd : dense mz (arange lo (hi + w) w) = true) :
    hi ∈ mz ∧
    (∃ n : Nat, hi = lo + (n : Rat) * w ∧ (arange lo (hi + w) w).length = n + 1) ∧
    ∀ a b, [a, b] <:+: arange lo (hi + w) w → ∃ m ∈ mz, a ≤ m ∧ m < b := by
  obtain ⟨n, hlast, hlen, hge, _⟩ := arange_getLast lo hi w hw h
  unfold dense at hd
  have hl : ((arange lo (hi + w) w).map (ssLeft mz)).getLast? = some (ssLeft mz (lo + (n : Rat) * w)) := by
    rw [List.getLast?_map, hlast]; rfl
  obtain ⟨m, hm, hle⟩ := ssLeft_lt_length (denseIdx_last_lt _ _ hd _ hl)
  have hmhi := hb m hm
  have heq : m = hi := le_antisymm hmhi (le_trans hge hle)
  refine ⟨heq ▸ hm, ⟨n, ?_, hlen⟩, ?_⟩
  · rw [← heq]; exact le_antisymm (by linarith) hle
  · intro a b hab
    exact ssLeft_lt_ssLeft (denseIdx_chain _ mz _ hd a b hab)

example : (0 : Rat) < 1 ∧ (100 : Rat) ≤ 102 ∧ (∀ m ∈ ([100, 201/2, 405/4, 102] : List Rat), m ≤ 102) ∧
    arange 100 (102 + 1) 1 = [100, 101, 102] ∧ dense [100, 201/2, 405/4, 102] (arange 100 (102 + 1) 1) = true := by
  refine ⟨by norm_num, by norm_num, ?_, by decide +kernel, by decide +kernel⟩
  intro x hx
  simp only [List.mem_cons, List.not_mem_nil, or_false] at hx
  rcases hx with rfl | rfl | rfl | rfl <;> norm_num

/-- `binned_masses` on a whole file (image level).  Hypotheses: width `> 0`, at least one spectrum,
positions inside the image, every spectrum non-empty with strictly increasing m/z and as many
intensities.  Then `mass_range` is `(lo, hi)`, the edges are `arange(lo, hi + w, w)`, the call
returns them with the shape, and for every pixel `[r][c]`:
* no spectrum recorded there: NaN;
* spectrum `s` recorded there: the SPECIFIED bins of `s` (`binSpec`) add up to its total intensity
  and count each of its peaks in exactly one bin; the pixel holds the mechanism's value
  `binSpectrum`; and when the pixel is in the class `dense` (see `dense_requires` for how little
  that is) the mechanism's value IS the specified one.
Outside `dense` the mechanism's value is wrong (`bins_current_wrong`; known finding). -/
theorem binned_image (size : Option (Int × Int)) (file : List Spectrum) (shape : Nat × Nat) (w : Rat)
    (hw : 0 < w) (hne : file ≠ [])
    (hsz : (imageSize size (spectraDict file)).bind shapeOf = some shape)
    (hdom : InDomain shape (spectraDict file))
    (hs : ∀ s ∈ file, s.mz ≠ [] ∧ Incr s.mz ∧ s.it.length = s.mz.length) :
    ∃ lo hi img, massRange (spectraDict file) = some (some lo, some hi) ∧ lo ≤ hi ∧
      binImage size (spectraDict file) w = some (arange lo (hi + w) w, shape, img) ∧
      ∀ r c, (specAt file r c = none → img r c = none) ∧
        ∀ s, specAt file r c = some s →
          (binSpec s.mz s.it (arange lo (hi + w) w) w).sum = s.it.sum ∧
          (∀ m ∈ s.mz, (binSpec [m] [1] (arange lo (hi + w) w) w).sum = 1) ∧
          img r c = some (binSpectrum s.mz s.it (arange lo (hi + w) w)) ∧
          (dense s.mz (arange lo (hi + w) w) = true →
            img r c = some (binSpec s.mz s.it (arange lo (hi + w) w) w)) := by
  have hmem : ∀ s ∈ spectraDict file, s ∈ file := fun s hs => mem_spectraDict hs
  obtain ⟨lo, hi, hmr, hbnd, ⟨_, _, _⟩, ⟨sh, hsh, hhi⟩⟩ := mass_range_bounds (spectraDict file)
    (spectraDict_ne_nil hne) (fun s h => (hs s (hmem s h)).1) (fun s h => (hs s (hmem s h)).2.1)
  have hle : lo ≤ hi := (hbnd sh hsh hi hhi).1
  obtain ⟨img, himg, hpix⟩ := image_correct size file shape
    (fun s => binSpectrum s.mz s.it (arange lo (hi + w) w)) hsz hdom
  refine ⟨lo, hi, img, hmr, hle, ?_, ?_⟩
  · simp [binImage, binEdges, hmr, himg]
  · intro r c
    refine ⟨fun hn => by rw [hpix r c, hn]; rfl, ?_⟩
    intro s hsat
    have hsd : s ∈ spectraDict file := by
      have := (specAt_pos (spectraDict file) r c s (by rw [specAt_spectraDict]; exact hsat)).1
      exact this
    have hsf := hs s (hmem s hsd)
    have hb := hbnd s hsd
    obtain ⟨hincr, hhead, hcov⟩ := bins_cover lo hi w hw hle
    have hval : img r c = some (binSpectrum s.mz s.it (arange lo (hi + w) w)) := by
      rw [hpix r c, hsat]; rfl
    have htop : ∀ l, (arange lo (hi + w) w).getLast? = some l → ∀ x ∈ s.mz, x < l + w :=
      fun l hl x hx => (hcov l hl x (hb x hx).1 (hb x hx).2).2
    refine ⟨?_, ?_, hval, fun hd => ?_⟩
    · generalize arange lo (hi + w) w = bins at hincr hhead hcov
      cases bins with
      | nil => simp at hhead
      | cons b rest =>
        simp only [List.head?_cons, Option.some.injEq] at hhead
        subst hhead
        exact bins_partition s.mz s.it b rest w (le_of_lt hw) hincr hsf.2.2
          (fun l hl x hx => hcov l hl x (hb x hx).1 (hb x hx).2)
    · intro m hm
      generalize arange lo (hi + w) w = bins at hincr hhead hcov
      cases bins with
      | nil => simp at hhead
      | cons b rest =>
        simp only [List.head?_cons, Option.some.injEq] at hhead
        subst hhead
        exact peak_in_one_bin m b rest w (le_of_lt hw) hincr
          (fun l hl => hcov l hl m (hb m hm).1 (hb m hm).2)
    · rw [hval, bins_partition_partial s.mz s.it _ w hsf.2.1 hsf.2.2 hd htop]

example : let file : List Spectrum := [⟨1, 1, none, [100, 201/2, 405/4, 102], [1, 2, 4, 8]⟩, ⟨2, 1, some 7, [101], [4]⟩]
    file ≠ [] ∧ (imageSize (some (2, 1)) (spectraDict file)).bind shapeOf = some (1, 2) ∧
    InDomain (1, 2) (spectraDict file) ∧
    (∀ s ∈ file, s.mz ≠ [] ∧ Incr s.mz ∧ s.it.length = s.mz.length) ∧
    (binImage (some (2, 1)) (spectraDict file) 1).map (fun r => (r.1, tabulate r.2.1 r.2.2))
      = some ([100, 101, 102], [[some [3, 4, 8], some [4, 4, 4]]]) := by
  refine ⟨by simp, by decide +kernel, by rw [← inDomainB_iff]; decide +kernel, ?_, by decide +kernel⟩
  intro s hs
  simp only [List.mem_cons, List.not_mem_nil, or_false] at hs
  rcases hs with rfl | rfl
  · refine ⟨by simp, by simp only [Incr]; norm_num, rfl⟩
  · refine ⟨by simp, by simp only [Incr], rfl⟩

/-- the unrepaired mechanism on the documented input: `mz = [100,200,300,400]`, `it = [1,2,4,8]`,
bins `[100, 250, 260, 400, 550]` (width 150 irrelevant here): the empty bin `[250,260)` reports the
next peak (4) and the bins add up to 19 instead of 15. -/
theorem bins_current_wrong :
    binSpectrum [100, 200, 300, 400] [1, 2, 4, 8] [100, 250, 260, 400, 550] = [3, 4, 4, 8, 8] ∧
    binSpec [100, 200, 300, 400] [1, 2, 4, 8] [100, 250, 260, 400, 550] 150 = [3, 0, 4, 8, 0] := by
  constructor <;> decide +kernel

/-- the mechanism before the repair of `extract_masses` (clip, no sentinel, no zeroing) on the
documented input: window `[249, 251)` contains no peak but yields 4. -/
theorem extract_old_wrong :
    extractSpectrumOld [100, 200, 300, 400] [1, 2, 4, 8] [(249, 251)] = [4] ∧
    extractSpectrum [100, 200, 300, 400] [1, 2, 4, 8] [(249, 251)] = [0] := by
  constructor <;> decide +kernel

end Pew.Imzml
