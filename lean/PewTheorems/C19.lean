import PewProofs.Effects
import PewProofs.EffectsHistory

/-! # C19 — property theorems: soundness of the may-write / may-alias analysis

The check's obligation for the current tree is a computation (`ana` run by the driver on the IR the
translator regenerates from pewlib's source on every run); these theorems say what a negative answer
of that computation means for every execution of the translated program. -/
namespace Pew.Effects

/-- start state of a function body: nothing written or returned yet, no local bound, nothing allocated, and an
empty heap — i.e. the `np` parameters are `np` DISTINCT regions `(0,0) … (np-1,0)` none of which holds a reference
into another (a caller passing the same array twice, overlapping views, or a container and one of its own elements
is outside this start state; the dynamic half of the check makes such calls). -/
def Start (σ : St) : Prop :=
  σ.written = [] ∧ σ.returned = [] ∧ σ.heap = [] ∧ σ.objs = [] ∧ ∀ x, σ.env x = none

theorem start_rel (np : Nat) (σ : St) (h : Start σ) : Rel np σ A.empty :=
  ⟨fun x o h1 => by simp [h.2.2.2.2 x] at h1, fun o ho => by simp [h.2.2.2.1] at ho,
   ⟨fun o hm _ => by simp [h.1] at hm, fun o hm => by simp [h.2.1] at hm, fun e he => by simp [h.2.2.1] at he⟩⟩

/-- A parameter the analysis does not report as possibly written is not written by ANY execution
of the program — of any length, through any branches and any number of loop iterations, whether it
completes (`d = true`) or raises at an arbitrary point (`d = false`): no written object is (in the region of)
parameter `p`. -/
theorem mayWrite_sound (np : Nat) (s : Stmt) (σ σ' : St) (d : Bool)
    (h : Exec np s σ d σ') (h0 : Start σ)
    (p : Nat) (hp : p < np) (hnot : p ∉ (ana np s A.empty).report np) :
    ∀ o ∈ σ'.written, o.1 ≠ p := by
  intro o hmem heq
  subst heq
  have := (sound np s _ σ d σ' h (start_rel np σ h0)).2.1 o hmem hp
  apply hnot
  unfold A.report
  rcases this with ht | hw
  · simp [ht, allParams, hp]
  · by_cases ht : (ana np s A.empty).top = true
    · simp [ht, allParams, hp]
    · simp [ht, hw]

/-- A parameter the analysis does not report as possibly aliased by the result: no object returned by any execution
(every `return` site, early or late; completed or raised) is (in the region of) the parameter, and when the execution
ends the parameter does not hold a reference — direct or through other objects — to any returned object (so a function
that stores part of its result INTO an argument is covered as well).  The translator returns, besides the result
object itself, every object reachable from it (`bind t (reach [v]); ret t`), so a result that merely holds a reference
to the parameter is covered too. -/
theorem mayAlias_sound (np : Nat) (s : Stmt) (σ σ' : St) (d : Bool)
    (h : Exec np s σ d σ') (h0 : Start σ)
    (p : Nat) (hp : p < np) (hnot : p ∉ (ana np s A.empty).reportRet np) :
    ∀ o ∈ σ'.returned, o.1 ≠ p ∧ ¬ Reach σ'.heap (p, 0) o := by
  intro o hmem
  have W := (sound np s _ σ d σ' h (start_rel np σ h0)).2
  have hnt : ¬ (ana np s A.empty).top = true := by
    intro ht
    apply hnot
    unfold A.reportRet
    simp [ht, allParams, hp]
  have hf : (ana np s A.empty).reachesRet p = false := by
    cases hq : (ana np s A.empty).reachesRet p with
    | false => rfl
    | true =>
      exfalso
      apply hnot
      unfold A.reportRet
      simp [hnt, allParams, hp, hq]
  unfold A.reachesRet at hf
  simp at hf
  obtain ⟨hc, hany⟩ := hf
  have hr : o.1 ∈ (ana np s A.empty).r := by
    rcases W.2.1 o hmem with ht | hm
    · exact absurd ht hnt
    · exact hm
  have hpc : p ∈ closeN (ana np s A.empty).heap ((ana np s A.empty).heap.length + 1) [p] :=
    closeN_mono _ _ _ _ (by simp)
  constructor
  · intro heq
    apply hany o.1 hr
    rw [heq]
    exact hpc
  · intro hreach
    apply hany o.1 hr
    exact reach_closed hnt W.2.2 hc hreach hpc

/-! ## call histories on one object (constructor-retained containers)

The per-class obligation of the check: for a class `C` with producer `c` (its constructor or a classmethod
constructor, inlined, binding the receiver variable) and the inlined bodies `ms` of its public methods (documented
mutators included), `ana` run on `history c ms` must report NO parameter of the history as possibly written — the
parameters being the arguments the caller passed to the constructor and to the later method calls.  The theorems say
what that computation means. -/

/-- **All histories.**  A parameter of the history (an argument of the constructor or of any later method call) that the
analysis of `history c ms` does not report is not written by ANY call history on the object: the constructor raising, or
returning and being followed by any number of calls of the methods `ms` in any order, all of which return or the last
of which raises at an arbitrary point.  In particular a container the constructor KEPT (the receiver holds a reference
to the parameter's region) is never written through the object later: a write to the aliased object would be a write to
the parameter's object, which is reported. -/
theorem history_write_sound (np : Nat) (c : Stmt) (ms : List Stmt) (σ σ' : St) (d : Bool)
    (h : Hist np c ms σ d σ') (h0 : Start σ)
    (p : Nat) (hp : p < np) (hnot : p ∉ (ana np (history c ms) A.empty).report np) :
    ∀ o ∈ σ'.written, o.1 ≠ p :=
  mayWrite_sound np (history c ms) σ σ' d (hist_exec h) h0 p hp hnot

/-- **Two-call histories** `construct; method` (what localises a broken history obligation to one method): the method
runs in the state the constructor left. -/
theorem twoCall_write_sound (np : Nat) (c m : Stmt) (σ σ₁ σ₂ : St) (d : Bool)
    (hc : Exec np c σ true σ₁) (hm : Exec np m σ₁ d σ₂) (h0 : Start σ)
    (p : Nat) (hp : p < np) (hnot : p ∉ (ana np (.seq c m) A.empty).report np) :
    ∀ o ∈ σ₂.written, o.1 ≠ p :=
  mayWrite_sound np (.seq c m) σ σ₂ d (.seq _ _ _ _ _ _ hc hm) h0 p hp hnot

/-- **Retention = may-alias at return.**  When the analysis of `retProg c x t` does not report parameter `p`, then after
ANY completed run of the constructor `c` nothing reachable from the object of the receiver variable `x` (the object
itself, what its fields hold, what those hold …) is (in the region of) `p`: the object retains nothing of that
argument.  The parameters the analysis does report are the "constructor-retained parameters" listed in the evidence. -/
theorem retention_sound (np : Nat) (c : Stmt) (x t : Var) (σ σ₁ : St) (o : Obj)
    (hc : Exec np c σ true σ₁) (hx : σ₁.env x = some o) (h0 : Start σ)
    (p : Nat) (hp : p < np) (hnot : p ∉ (ana np (retProg c x t) A.empty).reportRet np) :
    ∀ o', Reach σ₁.heap o o' → o'.1 ≠ p := by
  intro o' hr
  have hb : Exec np (.bind t (.reach [x])) σ₁ true { σ₁ with env := upd σ₁.env t o' } :=
    .bindReach t [x] x o o' σ₁ (by simp) hx hr
  have hret : Exec np (.ret t) { σ₁ with env := upd σ₁.env t o' } true
      { { σ₁ with env := upd σ₁.env t o' } with returned := o' :: σ₁.returned } :=
    .ret t o' _ (by simp [upd])
  have hall : Exec np (retProg c x t) σ true
      { { σ₁ with env := upd σ₁.env t o' } with returned := o' :: σ₁.returned } :=
    .seq _ _ _ _ _ _ hc (.seq _ _ _ _ _ _ hb hret)
  exact (mayAlias_sound np _ σ _ true hall h0 p hp hnot o' (by simp)).1

abbrev σ₀ : St := ⟨fun _ => none, 0, [], [], [], []⟩

example : Start σ₀ := ⟨rfl, rfl, rfl, rfl, fun _ => rfl⟩

/-! non-vacuity: `x = param0; x = fresh; write x; y = param1; return y` — executions exist, the
analysis reports no written parameter and parameter 1 as possibly returned -/
def demo : Stmt :=
  .seq (.bind 0 (.param 0)) (.seq (.bind 0 (.fresh 0)) (.seq (.write 0) (.seq (.bind 1 (.param 1)) (.ret 1))))

example : (ana 2 demo A.empty).report 2 = [] ∧ (ana 2 demo A.empty).reportRet 2 = [1] := by decide

example : ∃ σ', Exec 2 demo σ₀ true σ' ∧ σ'.written = [(2, 0)] ∧ σ'.returned = [(1, 0)] := by
  refine ⟨⟨upd (upd (upd (fun _ => none) 0 (0, 0)) 0 (2, 0)) 1 (1, 0), 1, [(2, 0)], [], [(2, 0)], [(1, 0)]⟩, ?_, rfl, rfl⟩
  refine .seq _ _ _ _ _ _ (.bindParam 0 0 _ (by decide)) ?_
  refine .seq _ _ _ _ _ _ (.bindFresh 0 0 _) ?_
  refine .seq _ _ _ _ _ _ (.write 0 (2, 0) _ (by simp [upd])) ?_
  refine .seq _ _ _ _ _ _ (.bindParam 1 1 _ (by decide)) ?_
  exact .ret 1 (1, 0) _ (by simp [upd])

/-- the analysis is not trivially silent: writing through an alias of a parameter is reported -/
example : (ana 1 (.seq (.bind 0 (.param 0)) (.seq (.bind 1 (.alias [0])) (.write 1))) A.empty).report 1 = [0] := by
  decide

/-! sharing through the heap: `x = param0; out = []; tmp = out; tmp.append(x); v = out[0]; v[...] = 0; return out`
— the container has two names, the store goes through one, the load and the return through the other -/
def demoShare : Stmt :=
  .seq (.bind 0 (.param 0)) (.seq (.bind 1 (.fresh 0)) (.seq (.bind 2 (.alias [1])) (.seq (.store 2 0 0)
    (.seq (.bind 3 (.load [1] 0 1)) (.seq (.write 3) (.seq (.bind 4 (.reach [1])) (.ret 4)))))))

example : (ana 1 demoShare A.empty).report 1 = [0] ∧ (ana 1 demoShare A.empty).reportRet 1 = [0] := by decide

example : ∃ σ', Exec 1 demoShare σ₀ true σ' ∧ σ'.written = [(0, 0)] ∧ σ'.returned = [(0, 0)] := by
  refine ⟨⟨upd (upd (upd (upd (upd (fun _ => none) 0 (0, 0)) 1 (1, 0)) 2 (1, 0)) 3 (0, 0)) 4 (0, 0), 1, [(1, 0)],
    [((1, 0), 0, (0, 0))], [(0, 0)], [(0, 0)]⟩, ?_, rfl, rfl⟩
  refine .seq _ _ _ _ _ _ (.bindParam 0 0 _ (by decide)) ?_
  refine .seq _ _ _ _ _ _ (.bindFresh 1 0 _) ?_
  refine .seq _ _ _ _ _ _ (.bindAlias 2 [1] 1 (1, 0) _ (by simp) (by simp [upd])) ?_
  refine .seq _ _ _ _ _ _ (.store 2 0 0 (1, 0) (0, 0) _ (by simp [upd]) (by simp [upd])) ?_
  refine .seq _ _ _ _ _ _ (.bindLoadEdge 3 [1] 0 1 1 (1, 0) 0 (0, 0) _ (by simp) (by simp [upd]) (by simp) (by decide)) ?_
  refine .seq _ _ _ _ _ _ (.write 3 (0, 0) _ (by simp [upd])) ?_
  refine .seq _ _ _ _ _ _ (.bindReach 4 [1] 1 (1, 0) (0, 0) _ (by simp) (by simp [upd])
    (.step _ 0 _ _ (by simp) (.refl _))) ?_
  exact .ret 4 (0, 0) _ (by simp [upd])

/-- `r = []; d.append(r); return r` (d a parameter): the result does not hold the parameter, the parameter holds the
result — reported as possibly aliased (and as written) -/
example : (ana 1 (.seq (.bind 0 (.param 0)) (.seq (.bind 1 (.fresh 0)) (.seq (.write 0) (.seq (.store 0 0 1) (.ret 1)))))
    A.empty).reportRet 1 = [0] := by decide

/-- storing a parameter in a local container and writing only the container's own slots is NOT a write to the
parameter, and a result that does not hold it does not alias it -/
example : (ana 1 (.seq (.bind 0 (.param 0)) (.seq (.bind 1 (.fresh 0)) (.seq (.store 1 0 0) (.seq (.write 1)
    (.seq (.bind 2 (.fresh 1)) (.seq (.bind 3 (.reach [2])) (.ret 3))))))) A.empty).report 1 = [] := by decide

/-! the seeded shape: `self.data = data` (the caller's list kept) followed by a mutator doing `self.data[i] = new`;
parameter 0 = the constructor's `data`, variable 1 = the receiver, label 2 = the field -/
def keepCtor : Stmt := .seq (.bind 0 (.param 0)) (.seq (.bind 1 (.fresh 0)) (.store 1 2 0))
def copyCtor : Stmt :=
  .seq (.bind 0 (.param 0)) (.seq (.bind 1 (.fresh 0)) (.seq (.bind 2 (.fresh 1)) (.seq (.store 2 0 0) (.store 1 2 2))))
def slotMutator : Stmt := .seq (.bind 3 (.load [1] 2 2)) (.seq (.bind 4 (.fresh 3)) (.seq (.write 3) (.store 3 0 4)))
def rebindMutator : Stmt := .seq (.bind 4 (.fresh 3)) (.seq (.write 1) (.store 1 2 4))

/-- keeping the list and writing its slots later is reported; copying it (`list(data)`) or replacing the field by a new
object (what `Laser.add` does although `Laser(arr).data is arr`) is not -/
example : (ana 1 (history keepCtor [slotMutator]) A.empty).report 1 = [0]
    ∧ (ana 1 (history copyCtor [slotMutator]) A.empty).report 1 = []
    ∧ (ana 1 (history keepCtor [rebindMutator]) A.empty).report 1 = []
    ∧ (ana 1 (retProg keepCtor 1 9) A.empty).reportRet 1 = [0] := by decide

/-- the hypotheses of `history_write_sound` are met by a real history that does write the caller's list -/
example : ∃ σ', Hist 1 keepCtor [slotMutator] σ₀ true σ' ∧ (0, 0) ∈ σ'.written := by
  refine ⟨⟨upd (upd (upd (upd (fun _ => none) 0 (0, 0)) 1 (1, 0)) 3 (0, 0)) 4 (4, 1), 2, [(4, 1), (1, 0)],
    [((0, 0), 0, (4, 1)), ((1, 0), 2, (0, 0))], [(0, 0)], []⟩, ?_, by simp⟩
  refine .calls _ ⟨upd (upd (fun _ => none) 0 (0, 0)) 1 (1, 0), 1, [(1, 0)], [((1, 0), 2, (0, 0))], [], []⟩ _ _ ?_ ?_
  · refine .seq _ _ _ _ _ _ (.bindParam 0 0 _ (by decide)) ?_
    refine .seq _ _ _ _ _ _ (.bindFresh 1 0 _) ?_
    exact .store 1 2 0 (1, 0) (0, 0) _ (by simp [upd]) (by simp [upd])
  · refine .call slotMutator _ _ _ _ (by simp) ?_ (.done _)
    refine .seq _ _ _ _ _ _ (.bindLoadEdge 3 [1] 2 2 1 (1, 0) 2 (0, 0) _ (by simp) (by simp [upd]) (by simp) (by decide)) ?_
    refine .seq _ _ _ _ _ _ (.bindFresh 4 3 _) ?_
    refine .seq _ _ _ _ _ _ (.write 3 (0, 0) _ (by simp [upd])) ?_
    exact .store 3 0 4 (0, 0) (4, 1) _ (by simp [upd]) (by simp [upd])

end Pew.Effects
