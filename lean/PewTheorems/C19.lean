import PewProofs.Effects

/-! # C19 — property theorems: soundness of the may-write / may-alias analysis

The check's obligation for the current tree is a computation (`ana` run by the driver on the IR the
translator regenerates from pewlib's source on every run); these theorems say what a negative answer
of that computation means for every execution of the translated program. -/
namespace Pew.Effects

/-- start state of a function body: nothing written or returned yet, no local bound, the `np`
parameters allocated -/
def Start (np : Nat) (σ : St) : Prop :=
  σ.written = [] ∧ σ.returned = [] ∧ np ≤ σ.next ∧ ∀ x o, σ.env x = some o → np ≤ o

theorem start_rel (np : Nat) (σ : St) (h : Start np σ) : Rel np σ A.empty :=
  ⟨fun x o h1 h2 => absurd h2 (Nat.not_lt.mpr (h.2.2.2 x o h1)),
   ⟨fun o hm _ => by simp [h.1] at hm, fun o hm _ => by simp [h.2.1] at hm⟩, h.2.2.1⟩

/-- A parameter the analysis does not report as possibly written is not written by ANY execution
of the program — of any length, through any branches and any number of loop iterations, whether it
completes (`d = true`) or raises at an arbitrary point (`d = false`). -/
theorem mayWrite_sound (np : Nat) (s : Stmt) (σ σ' : St) (d : Bool)
    (h : Exec np s σ d σ') (h0 : Start np σ)
    (p : Nat) (hp : p < np) (hnot : p ∉ (ana np s A.empty).report np) :
    p ∉ σ'.written := by
  intro hmem
  have := (sound np s _ σ d σ' h (start_rel np σ h0)).2.1 p hmem hp
  apply hnot
  unfold A.report
  rcases this with ht | hw
  · simp [ht, allParams, hp]
  · by_cases ht : (ana np s A.empty).top = true
    · simp [ht, allParams, hp]
    · simp [ht, hw]

/-- A parameter the analysis does not report as possibly aliased by the result is not among the
objects returned by any execution (every `return` site, early or late). -/
theorem mayAlias_sound (np : Nat) (s : Stmt) (σ σ' : St) (d : Bool)
    (h : Exec np s σ d σ') (h0 : Start np σ)
    (p : Nat) (hp : p < np) (hnot : p ∉ (ana np s A.empty).reportRet np) :
    p ∉ σ'.returned := by
  intro hmem
  have := (sound np s _ σ d σ' h (start_rel np σ h0)).2.2 p hmem hp
  apply hnot
  unfold A.reportRet
  rcases this with ht | hw
  · simp [ht, allParams, hp]
  · by_cases ht : (ana np s A.empty).top = true
    · simp [ht, allParams, hp]
    · simp [ht, hw]

/-! non-vacuity: `x = param0; x = fresh; write x; y = param1; return y` — executions exist, the
analysis reports no written parameter and parameter 1 as possibly returned -/
def demo : Stmt :=
  .seq (.bind 0 (.param 0)) (.seq (.bind 0 .fresh) (.seq (.write 0) (.seq (.bind 1 (.param 1)) (.ret 1))))

example : (ana 2 demo A.empty).report 2 = [] ∧ (ana 2 demo A.empty).reportRet 2 = [1] := by decide

example : ∃ σ', Exec 2 demo ⟨fun _ => none, 2, [], []⟩ true σ' ∧ σ'.written = [2] ∧ σ'.returned = [1] := by
  refine ⟨⟨upd (upd (upd (fun _ => none) 0 0) 0 2) 1 1, 3, [2], [1]⟩, ?_, rfl, rfl⟩
  refine .seq _ _ _ _ _ _ (.bindParam 0 0 _ (by decide)) ?_
  refine .seq _ _ _ _ _ _ (.bindFresh 0 _) ?_
  refine .seq _ _ _ _ _ _ (.write 0 2 _ (by simp [upd])) ?_
  refine .seq _ _ _ _ _ _ (.bindParam 1 1 _ (by decide)) ?_
  exact .ret 1 1 _ (by simp [upd])

/-- the analysis is not trivially silent: writing through an alias of a parameter is reported -/
example : (ana 1 (.seq (.bind 0 (.param 0)) (.seq (.bind 1 (.alias [0])) (.write 1))) A.empty).report 1 = [0] := by
  decide

end Pew.Effects
