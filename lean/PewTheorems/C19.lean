import PewProofs.Effects

/-! # C19 — property theorems: soundness of the may-write / may-alias analysis

The check's obligation for the current tree is a computation (`ana` run by the driver on the IR the
translator regenerates from pewlib's source on every run); these theorems say what a negative answer
of that computation means for every execution of the translated program. -/
namespace Pew.Effects

/-- start state of a function body: nothing written or returned yet, no local bound, nothing allocated, and an
empty heap — i.e. the `np` parameters are `np` DISTINCT regions `(0,0) … (np-1,0)` none of which holds a reference
into another (a caller passing the same array twice, overlapping views, or a container and one of its own elements
is outside this start state; the dynamic half of the check makes such calls). -/
def Start (σ : St) : Prop :=
  σ.written = [] ∧ σ.returned = [] ∧ σ.heap = [] ∧ σ.objs = [] ∧ ∀ x, σ.env x = none

theorem start_rel (np : Nat) (σ : St) (h : Start σ) : Rel np σ A.empty :=
  ⟨fun x o h1 => by simp [h.2.2.2.2 x] at h1, fun o ho => by simp [h.2.2.2.1] at ho,
   ⟨fun o hm _ => by simp [h.1] at hm, fun o hm => by simp [h.2.1] at hm, fun e he => by simp [h.2.2.1] at he⟩⟩

/-- A parameter the analysis does not report as possibly written is not written by ANY execution
of the program — of any length, through any branches and any number of loop iterations, whether it
completes (`d = true`) or raises at an arbitrary point (`d = false`): no written object is (in the region of)
parameter `p`. -/
theorem mayWrite_sound (np : Nat) (s : Stmt) (σ σ' : St) (d : Bool)
    (h : Exec np s σ d σ') (h0 : Start σ)
    (p : Nat) (hp : p < np) (hnot : p ∉ (ana np s A.empty).report np) :
    ∀ o ∈ σ'.written, o.1 ≠ p := by
  intro o hmem heq
  subst heq
  have := (sound np s _ σ d σ' h (start_rel np σ h0)).2.1 o hmem hp
  apply hnot
  unfold A.report
  rcases this with ht | hw
  · simp [ht, allParams, hp]
  · by_cases ht : (ana np s A.empty).top = true
    · simp [ht, allParams, hp]
    · simp [ht, hw]

/-- A parameter the analysis does not report as possibly aliased by the result: no object returned by any execution
(every `return` site, early or late; completed or raised) is (in the region of) the parameter, and when the execution
ends the parameter does not hold a reference — direct or through other objects — to any returned object (so a function
that stores part of its result INTO an argument is covered as well).  The translator returns, besides the result
object itself, every object reachable from it (`bind t (reach [v]); ret t`), so a result that merely holds a reference
to the parameter is covered too. -/
theorem mayAlias_sound (np : Nat) (s : Stmt) (σ σ' : St) (d : Bool)
    (h : Exec np s σ d σ') (h0 : Start σ)
    (p : Nat) (hp : p < np) (hnot : p ∉ (ana np s A.empty).reportRet np) :
    ∀ o ∈ σ'.returned, o.1 ≠ p ∧ ¬ Reach σ'.heap (p, 0) o := by
  intro o hmem
  have W := (sound np s _ σ d σ' h (start_rel np σ h0)).2
  have hnt : ¬ (ana np s A.empty).top = true := by
    intro ht
    apply hnot
    unfold A.reportRet
    simp [ht, allParams, hp]
  have hf : (ana np s A.empty).reachesRet p = false := by
    cases hq : (ana np s A.empty).reachesRet p with
    | false => rfl
    | true =>
      exfalso
      apply hnot
      unfold A.reportRet
      simp [hnt, allParams, hp, hq]
  unfold A.reachesRet at hf
  simp at hf
  obtain ⟨hc, hany⟩ := hf
  have hr : o.1 ∈ (ana np s A.empty).r := by
    rcases W.2.1 o hmem with ht | hm
    · exact absurd ht hnt
    · exact hm
  have hpc : p ∈ closeN (ana np s A.empty).heap ((ana np s A.empty).heap.length + 1) [p] :=
    closeN_mono _ _ _ _ (by simp)
  constructor
  · intro heq
    apply hany o.1 hr
    rw [heq]
    exact hpc
  · intro hreach
    apply hany o.1 hr
    exact reach_closed hnt W.2.2 hc hreach hpc

abbrev σ₀ : St := ⟨fun _ => none, 0, [], [], [], []⟩

example : Start σ₀ := ⟨rfl, rfl, rfl, rfl, fun _ => rfl⟩

/-! non-vacuity: `x = param0; x = fresh; write x; y = param1; return y` — executions exist, the
analysis reports no written parameter and parameter 1 as possibly returned -/
def demo : Stmt :=
  .seq (.bind 0 (.param 0)) (.seq (.bind 0 (.fresh 0)) (.seq (.write 0) (.seq (.bind 1 (.param 1)) (.ret 1))))

example : (ana 2 demo A.empty).report 2 = [] ∧ (ana 2 demo A.empty).reportRet 2 = [1] := by decide

example : ∃ σ', Exec 2 demo σ₀ true σ' ∧ σ'.written = [(2, 0)] ∧ σ'.returned = [(1, 0)] := by
  refine ⟨⟨upd (upd (upd (fun _ => none) 0 (0, 0)) 0 (2, 0)) 1 (1, 0), 1, [(2, 0)], [], [(2, 0)], [(1, 0)]⟩, ?_, rfl, rfl⟩
  refine .seq _ _ _ _ _ _ (.bindParam 0 0 _ (by decide)) ?_
  refine .seq _ _ _ _ _ _ (.bindFresh 0 0 _) ?_
  refine .seq _ _ _ _ _ _ (.write 0 (2, 0) _ (by simp [upd])) ?_
  refine .seq _ _ _ _ _ _ (.bindParam 1 1 _ (by decide)) ?_
  exact .ret 1 (1, 0) _ (by simp [upd])

/-- the analysis is not trivially silent: writing through an alias of a parameter is reported -/
example : (ana 1 (.seq (.bind 0 (.param 0)) (.seq (.bind 1 (.alias [0])) (.write 1))) A.empty).report 1 = [0] := by
  decide

/-! sharing through the heap: `x = param0; out = []; tmp = out; tmp.append(x); v = out[0]; v[...] = 0; return out`
— the container has two names, the store goes through one, the load and the return through the other -/
def demoShare : Stmt :=
  .seq (.bind 0 (.param 0)) (.seq (.bind 1 (.fresh 0)) (.seq (.bind 2 (.alias [1])) (.seq (.store 2 0 0)
    (.seq (.bind 3 (.load [1] 0 1)) (.seq (.write 3) (.seq (.bind 4 (.reach [1])) (.ret 4)))))))

example : (ana 1 demoShare A.empty).report 1 = [0] ∧ (ana 1 demoShare A.empty).reportRet 1 = [0] := by decide

example : ∃ σ', Exec 1 demoShare σ₀ true σ' ∧ σ'.written = [(0, 0)] ∧ σ'.returned = [(0, 0)] := by
  refine ⟨⟨upd (upd (upd (upd (upd (fun _ => none) 0 (0, 0)) 1 (1, 0)) 2 (1, 0)) 3 (0, 0)) 4 (0, 0), 1, [(1, 0)],
    [((1, 0), 0, (0, 0))], [(0, 0)], [(0, 0)]⟩, ?_, rfl, rfl⟩
  refine .seq _ _ _ _ _ _ (.bindParam 0 0 _ (by decide)) ?_
  refine .seq _ _ _ _ _ _ (.bindFresh 1 0 _) ?_
  refine .seq _ _ _ _ _ _ (.bindAlias 2 [1] 1 (1, 0) _ (by simp) (by simp [upd])) ?_
  refine .seq _ _ _ _ _ _ (.store 2 0 0 (1, 0) (0, 0) _ (by simp [upd]) (by simp [upd])) ?_
  refine .seq _ _ _ _ _ _ (.bindLoadEdge 3 [1] 0 1 1 (1, 0) 0 (0, 0) _ (by simp) (by simp [upd]) (by simp) (by decide)) ?_
  refine .seq _ _ _ _ _ _ (.write 3 (0, 0) _ (by simp [upd])) ?_
  refine .seq _ _ _ _ _ _ (.bindReach 4 [1] 1 (1, 0) (0, 0) _ (by simp) (by simp [upd])
    (.step _ 0 _ _ (by simp) (.refl _))) ?_
  exact .ret 4 (0, 0) _ (by simp [upd])

/-- `r = []; d.append(r); return r` (d a parameter): the result does not hold the parameter, the parameter holds the
result — reported as possibly aliased (and as written) -/
example : (ana 1 (.seq (.bind 0 (.param 0)) (.seq (.bind 1 (.fresh 0)) (.seq (.write 0) (.seq (.store 0 0 1) (.ret 1)))))
    A.empty).reportRet 1 = [0] := by decide

/-- storing a parameter in a local container and writing only the container's own slots is NOT a write to the
parameter, and a result that does not hold it does not alias it -/
example : (ana 1 (.seq (.bind 0 (.param 0)) (.seq (.bind 1 (.fresh 0)) (.seq (.store 1 0 0) (.seq (.write 1)
    (.seq (.bind 2 (.fresh 1)) (.seq (.bind 3 (.reach [2])) (.ret 3))))))) A.empty).report 1 = [] := by decide

end Pew.Effects
