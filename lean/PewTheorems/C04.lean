import PewProofs.CsvDir
import PewProofs.CsvTime
import PewProofs.CsvDigits

/-! # C04 — property theorems (statements only depend on `PewModel.CsvDir`) -/
namespace Pew.CsvDir

variable {α P : Type}

/-- every reader task completes -/
def Covers (n : Nat) (π : List Nat) : Prop := ∀ i, i < n → i ∈ π

/-- with every task completing, the lines arrive in the sorted (submission) order -/
theorem readLines_eq (v : Vendor) (tkey : List Nat → Int) (listing : List (Entry α)) (π : List Nat)
    (hπ : Covers (accepted v listing).length π) :
    readLines v tkey listing π
      = (sortBy (fun e => sortKey v tkey e.name) (accepted v listing)).map (·.line) := by
  unfold readLines
  simp only
  apply gather_complete
  intro i hi
  apply hπ
  simpa [(sortBy_perm _ _).length_eq] using hi

/-- **Schedule independence.** Whatever the order in which the parallel readers finish, the import
returns the same image and parameters. -/
theorem load_schedule_independent (isNan : α → Bool) (rp : Vendor → Image α → P) (v : Vendor)
    (tkey : List Nat → Int) (listing : List (Entry α)) (π₁ π₂ : List Nat)
    (h₁ : Covers (accepted v listing).length π₁) (h₂ : Covers (accepted v listing).length π₂) :
    load isNan rp v tkey listing π₁ = load isNan rp v tkey listing π₂ := by
  unfold load
  rw [readLines_eq v tkey listing π₁ h₁, readLines_eq v tkey listing π₂ h₂]

example : Covers 3 [2, 0, 1] := by intro i hi; have : i = 0 ∨ i = 1 ∨ i = 2 := by omega
                                   rcases this with h | h | h <;> subst h <;> simp

/-- **Listing independence.** Any two listings of the same directory whose accepted files have
pairwise distinct sort keys import identically (same completion order on both sides). -/
theorem load_listing_independent (isNan : α → Bool) (rp : Vendor → Image α → P) (v : Vendor)
    (tkey : List Nat → Int) (σ listing : List (Entry α)) (π : List Nat) (hp : σ.Perm listing)
    (hinj : ∀ a ∈ accepted v listing, ∀ b ∈ accepted v listing,
      sortKey v tkey a.name = sortKey v tkey b.name → a = b) :
    load isNan rp v tkey σ π = load isNan rp v tkey listing π := by
  have hvis : (visible σ).Perm (visible listing) := hp.filter _
  have hacc : (accepted v σ).Perm (accepted v listing) := hvis.filter _
  have hsort : sortBy (fun e => sortKey v tkey e.name) (accepted v σ)
      = sortBy (fun e => sortKey v tkey e.name) (accepted v listing) := by
    apply sortBy_perm_invariant _ _ _ hacc
    intro a ha b hb
    exact hinj a (hacc.mem_iff.mp ha) b (hacc.mem_iff.mp hb)
  have hemp : (visible σ).isEmpty = (visible listing).isEmpty := by
    have := hvis.length_eq
    cases h1 : visible σ <;> cases h2 : visible listing <;> simp_all
  unfold load readLines
  simp only [hsort, hemp]

/-- **Hidden files, non-files and files not matching the vendor pattern never contribute.** -/
theorem filter_spec (v : Vendor) (listing : List (Entry α)) (e : Entry α) :
    e ∈ accepted v listing ↔
      e ∈ listing ∧ e.isFile = true ∧ hidden e.name = false ∧ matchesV v e.name = true := by
  simp only [accepted, visible, List.mem_filter, Bool.and_eq_true, Bool.not_eq_eq_eq_not, Bool.not_true]
  constructor
  · rintro ⟨⟨h1, h2, h3⟩, h4⟩; exact ⟨h1, h2, h3, h4⟩
  · rintro ⟨h1, h2, h3, h4⟩; exact ⟨⟨h1, h2, h3⟩, h4⟩

/-- … the import of a directory is the import of its accepted files alone -/
theorem load_ignores_rejected (isNan : α → Bool) (rp : Vendor → Image α → P) (v : Vendor)
    (tkey : List Nat → Int) (listing : List (Entry α)) (π : List Nat) :
    load isNan rp v tkey listing π = load isNan rp v tkey (accepted v listing) π := by
  have hvv : visible (accepted v listing) = accepted v listing := by
    unfold accepted visible
    rw [List.filter_filter, List.filter_filter, List.filter_filter]
    apply List.filter_congr
    intro x _
    cases x.isFile <;> cases hidden x.name <;> cases matchesV v x.name <;> rfl
  have haa : accepted v (accepted v listing) = accepted v listing := by
    show (visible (accepted v listing)).filter (fun e => matchesV v e.name) = accepted v listing
    rw [hvv]
    show ((visible listing).filter (fun e => matchesV v e.name)).filter (fun e => matchesV v e.name) = _
    rw [List.filter_filter]
    apply List.filter_congr
    intro x _
    cases matchesV v x.name <;> rfl
  have hlines : readLines v tkey (accepted v listing) π = readLines v tkey listing π := by
    unfold readLines; rw [haa]
  unfold load
  rw [hvv, hlines]
  by_cases hvis : (visible listing).isEmpty = true
  · have hacc : accepted v listing = [] := by
      unfold accepted; rw [List.isEmpty_iff.mp hvis]; rfl
    simp [hvis, hacc]
  · by_cases hacc : (accepted v listing).isEmpty = true
    · have hl : readLines v tkey listing π = [] := by
        unfold readLines gather complete
        rw [List.isEmpty_iff.mp hacc]
        simp [sortBy]
      simp [hvis, hacc, hl]
    · simp [hvis, hacc]

/-- **The import is the specification**: with pairwise distinct acquisition keys, a sort key that
orders the accepted files like the acquisition key, and every reader completing, the mechanism
(listing → filter → stable sort → submit → complete in order π → gather → cut → stack → drop)
returns exactly the rank-ordered stack of the accepted files. -/
theorem load_eq_spec (isNan : α → Bool) (rp : Vendor → Image α → P) (v : Vendor)
    (tkey : List Nat → Int) (listing : List (Entry α)) (π : List Nat)
    (hπ : Covers (accepted v listing).length π)
    (hd : (accepted v listing).Pairwise (fun a b => acqKey v a.name ≠ acqKey v b.name))
    (hkey : ∀ a ∈ accepted v listing, ∀ b ∈ accepted v listing,
      keyLe (sortKey v tkey a.name) (sortKey v tkey b.name) = keyLe (acqKey v a.name) (acqKey v b.name)) :
    load isNan rp v tkey listing π = specLoad isNan rp v listing := by
  have hacc : listing.filter (fun e => e.isFile && !hidden e.name && matchesV v e.name) = accepted v listing := by
    unfold accepted visible
    rw [List.filter_filter]
    apply List.filter_congr
    intro x _
    cases x.isFile <;> cases hidden x.name <;> cases matchesV v x.name <;> rfl
  have hsort : sortBy (fun e => sortKey v tkey e.name) (accepted v listing)
      = byRank (fun e => acqKey v e.name) (accepted v listing) := by
    rw [sortBy_congr (fun e : Entry α => sortKey v tkey e.name) (fun e => acqKey v e.name) _ hkey]
    exact sortBy_eq_byRank (fun e : Entry α => acqKey v e.name) _ hd
  unfold load specLoad
  simp only [hacc]
  rw [readLines_eq v tkey listing π hπ, hsort]
  by_cases hvis : (visible listing).isEmpty = true
  · have hacc' : accepted v listing = [] := by
      unfold accepted; rw [List.isEmpty_iff.mp hvis]; rfl
    simp [hvis, hacc']
  · by_cases hacc' : (accepted v listing).isEmpty = true
    · have : accepted v listing = [] := List.isEmpty_iff.mp hacc'
      simp [hvis, this, byRank]
    · have hne : (byRank (fun e => acqKey v e.name) (accepted v listing)).isEmpty = false := by
        rw [← hsort]
        have := (sortBy_perm (fun e : Entry α => sortKey v tkey e.name) (accepted v listing)).length_eq
        cases hh : sortBy (fun e : Entry α => sortKey v tkey e.name) (accepted v listing) with
        | nil =>
          rw [hh] at this
          exact absurd (List.isEmpty_iff.mpr (List.eq_nil_of_length_eq_zero this.symm)) hacc'
        | cons _ _ => rfl
      simp [hvis, hacc', hne]

/-- **Row k is the k-th line in acquisition order.**  For an accepted file `e` with `k` accepted
files of smaller acquisition key, line `k` of the stack is `e`'s table cut to the shortest accepted
line, and the stack has exactly one line per accepted file. -/
theorem load_row_k (v : Vendor) (tkey : List Nat → Int) (listing : List (Entry α)) (π : List Nat)
    (hπ : Covers (accepted v listing).length π)
    (hd : (accepted v listing).Pairwise (fun a b => acqKey v a.name ≠ acqKey v b.name))
    (hkey : ∀ a ∈ accepted v listing, ∀ b ∈ accepted v listing,
      keyLe (sortKey v tkey a.name) (sortKey v tkey b.name) = keyLe (acqKey v a.name) (acqKey v b.name))
    (e : Entry α) (he : e ∈ accepted v listing) :
    ∃ L : Nat,
      (∀ a ∈ accepted v listing, L ≤ a.line.rows.length) ∧
      (∃ a ∈ accepted v listing, L = a.line.rows.length) ∧
      (stack (readLines v tkey listing π)).lines.length = (accepted v listing).length ∧
      (stack (readLines v tkey listing π)).lines[rank (fun x => acqKey v x.name) (accepted v listing) e]?
        = some (e.line.rows.take L) := by
  have hsorted := readLines_eq v tkey listing π hπ
  have hperm := sortBy_perm (fun e : Entry α => sortKey v tkey e.name) (accepted v listing)
  have hsort : sortBy (fun e => sortKey v tkey e.name) (accepted v listing)
      = sortBy (fun e => acqKey v e.name) (accepted v listing) :=
    sortBy_congr (fun e : Entry α => sortKey v tkey e.name) (fun e => acqKey v e.name) _ hkey
  refine ⟨minLen (readLines v tkey listing π), ?_, ?_, ?_, ?_⟩
  · intro a ha
    apply minLen_le
    rw [hsorted]
    exact List.mem_map.mpr ⟨a, hperm.mem_iff.mpr ha, rfl⟩
  · have hne : readLines v tkey listing π ≠ [] := by
      rw [hsorted]
      intro h
      have h0 := List.map_eq_nil_iff.mp h
      have hl := hperm.length_eq
      rw [h0] at hl
      have : accepted v listing = [] := List.eq_nil_of_length_eq_zero hl.symm
      rw [this] at he; simp at he
    obtain ⟨l, hl1, hl2⟩ := minLen_mem _ hne
    rw [hsorted] at hl1
    obtain ⟨a, ha1, ha2⟩ := List.mem_map.mp hl1
    exact ⟨a, hperm.mem_iff.mp ha1, by rw [hl2, ← ha2]⟩
  · simp [stack, hsorted, hperm.length_eq]
  · -- position of e in the sorted list is its rank
    have hperm2 := sortBy_perm (fun e : Entry α => acqKey v e.name) (accepted v listing)
    obtain ⟨i, hi, hie⟩ := List.getElem_of_mem (hperm2.mem_iff.mpr he)
    have hd' : (sortBy (fun e : Entry α => acqKey v e.name) (accepted v listing)).Pairwise
        (fun a b => acqKey v a.name ≠ acqKey v b.name) :=
      hperm2.symm.pairwise hd (fun {a b} h => fun e => h e.symm)
    have hs : (sortBy (fun e : Entry α => acqKey v e.name) (accepted v listing)).Pairwise
        (fun a b => keyLt (acqKey v a.name) (acqKey v b.name) = true) := by
      refine ((sortBy_pairwise _ _).and hd').imp ?_
      intro a b ⟨h1, h2⟩
      simp only [keyLt, Bool.not_eq_eq_eq_not, Bool.not_true]
      cases h3 : keyLe (acqKey v b.name) (acqKey v a.name) with
      | false => rfl
      | true => exact absurd (keyLe_antisymm _ _ h1 h3) h2
    have hrank : rank (fun x => acqKey v x.name) (accepted v listing) e = i := by
      unfold rank
      rw [← hperm2.countP_eq, ← hie]
      exact countP_lt_of_sorted (fun x : Entry α => acqKey v x.name) _ hs i hi
    rw [hrank]
    simp only [stack, List.getElem?_map]
    rw [hsorted, hsort, List.getElem?_map, List.getElem?_eq_getElem hi, hie]
    rfl

/-- **TOFWERK: any strictly monotone stamp → number conversion sorts by the stamp.**  The stamp is
read from the file name alone, so nothing else (the time zone in particular) can influence the
order as long as the conversion is strictly monotone in the lexicographic order of
(year, month, day, hour, minute, second). -/
theorem tofwerk_key_monotone_sufficient (tkey : List Nat → Int) (l : List (Entry α))
    (hmono : ∀ a ∈ l, ∀ b ∈ l,
      keyLt (acqKey .tofwerk a.name) (acqKey .tofwerk b.name) = true →
        tkey (stampFields a.name.toList) < tkey (stampFields b.name.toList)) :
    sortBy (fun e => sortKey .tofwerk tkey e.name) l = sortBy (fun e => acqKey .tofwerk e.name) l := by
  apply sortBy_congr
  intro a ha b hb
  have hinj : acqKey .tofwerk a.name = acqKey .tofwerk b.name →
      stampFields a.name.toList = stampFields b.name.toList := by
    intro h
    simp only [acqKey] at h
    exact (List.map_inj_right (f := fun (n : Nat) => (n : Int)) (fun x y hxy => Int.ofNat.inj hxy)).mp h
  simp only [sortKey]
  cases h1 : keyLt (acqKey .tofwerk a.name) (acqKey .tofwerk b.name) with
  | true =>
    have := hmono a ha b hb h1
    rw [keyLe_of_keyLt h1]
    simp [keyLe, this]
  | false =>
    cases h2 : keyLt (acqKey .tofwerk b.name) (acqKey .tofwerk a.name) with
    | true =>
      have := hmono b hb a ha h2
      have h3 : keyLe (acqKey .tofwerk a.name) (acqKey .tofwerk b.name) = false := by
        simpa [keyLt] using h2
      rw [h3]
      have h4 : ¬ tkey (stampFields a.name.toList) < tkey (stampFields b.name.toList) := by omega
      have h5 : ¬ tkey (stampFields a.name.toList) = tkey (stampFields b.name.toList) := by omega
      simp [keyLe, h4, h5]
    | false =>
      have e1 : keyLe (acqKey .tofwerk b.name) (acqKey .tofwerk a.name) = true := by simpa [keyLt] using h1
      have e2 : keyLe (acqKey .tofwerk a.name) (acqKey .tofwerk b.name) = true := by simpa [keyLt] using h2
      have := hinj (keyLe_antisymm _ _ e2 e1)
      rw [e2, this]
      simp [keyLe]

/-- **The stamp → seconds conversion of the model is strictly monotone** on valid stamps (a real
calendar date and time of day, as `time.strptime` accepts them, no leap seconds): pure arithmetic
on the six numbers read from the file name, no time zone enters. -/
theorem timegm_strictly_monotone (f g : List Nat) (hf : validStampB f = true) (hg : validStampB g = true)
    (h : keyLt (f.map (fun (n : Nat) => (n : Int))) (g.map (fun (n : Nat) => (n : Int))) = true) :
    timegm f < timegm g :=
  timegm_strictMono f g (validStamp_of_B f hf) (validStamp_of_B g hg) h

/-- hence TOFWERK files with valid stamps are sorted by their stamp -/
theorem tofwerk_sorted_by_stamp (l : List (Entry α))
    (hv : ∀ e ∈ l, validStampB (stampFields e.name.toList) = true) :
    sortBy (fun e => sortKey .tofwerk timegm e.name) l = sortBy (fun e => acqKey .tofwerk e.name) l := by
  apply tofwerk_key_monotone_sufficient
  intro a ha b hb h
  exact timegm_strictly_monotone _ _ (hv a ha) (hv b hb) h

/-- **Nu / LDR digit key, same index width**: the code's key is the number formed by *all* digits of
the stem, `int(p ++ d)` for the digits `p` contributed by a common prefix and the index digits `d`;
for indices of equal width it orders like the index. -/
theorem numkey_same_width (p d₁ d₂ : List Char) (h : d₁.length = d₂.length) :
    (digitsNat (p ++ d₁) ≤ digitsNat (p ++ d₂)) ↔ (digitsNat d₁ ≤ digitsNat d₂) :=
  numKey_same_width p d₁ d₂ h

/-- **… and 9 sorts before 10 before 100**: a longer index without a leading zero has the larger key
and is the larger index, whatever digits the common prefix contributes. -/
theorem numkey_longer_index (p d₁ : List Char) (c : Char) (t : List Char) (hd₁ : ∀ x ∈ d₁, isDigit x = true)
    (hc : 1 ≤ digitVal c) (hlen : d₁.length < (c :: t).length) :
    digitsNat (p ++ d₁) < digitsNat (p ++ c :: t) ∧ digitsNat d₁ < digitsNat (c :: t) :=
  numKey_longer p d₁ c t hd₁ hc hlen

/-- the generic layout is sorted by the plain file name -/
theorem generic_key_is_name (tkey : List Nat → Int) (name : String) :
    sortKey .generic tkey name = acqKey .generic name := rfl

/-- **Auto-detection picks the first of Nu, LDR, TOFWERK whose pattern matches some file**, and the
generic option when none does. -/
theorem autodetect_first_match (listing : List (Entry α)) :
    let has := fun v => listing.any (fun e => e.isFile && matchesV v e.name)
    (has .nu = true → autodetect listing = .nu) ∧
    (has .nu = false → has .ldr = true → autodetect listing = .ldr) ∧
    (has .nu = false → has .ldr = false → has .tofwerk = true → autodetect listing = .tofwerk) ∧
    (has .nu = false → has .ldr = false → has .tofwerk = false → autodetect listing = .generic) := by
  intro has
  refine ⟨?_, ?_, ?_, ?_⟩ <;> intros <;> simp_all [autodetect, has]

/-! ## post-processing, pointwise -/

/-- `drop_fields` keeps exactly the fields whose name is not listed, in header order, and every
sample keeps exactly the cells of those fields -/
theorem dropFields_spec (drop : List String) (img : Image α) :
    (dropFields drop img).names = img.names.filter (fun n => !drop.contains n) ∧
    (dropFields drop img).lines = img.lines.map (fun l => l.map (fun row =>
      ((row.zip img.names).filter (fun p => !drop.contains p.2)).map (·.1))) := by
  constructor
  · simp only [dropFields, dropCols]
    rw [dropMasked_map]
    induction img.names with
    | nil => rfl
    | cons n ns ih =>
      simp only [List.zip_cons_cons, List.filter_cons]
      cases drop.contains n
      · simp only [Bool.not_false, if_true, List.map_cons, ih]
      · simp only [Bool.not_true, Bool.false_eq_true, if_false, ih]
  · simp only [dropFields, dropCols]
    apply List.map_congr_left
    intro l _
    apply List.map_congr_left
    intro row _
    exact dropMasked_map _ row img.names

/-- LDR: exactly the sample positions that are NaN in every field of every line are removed, the
others keep their order -/
theorem dropNanRows_spec (isNan : α → Bool) (img : Image α)
    (hlen : ∀ l ∈ img.lines, l.length ≤ imgLength img) :
    (dropNanRows isNan img).names = img.names ∧
    (dropNanRows isNan img).lines = img.lines.map (fun l =>
      ((l.zipIdx).filter (fun x => !nanPos isNan img x.2)).map (·.1)) := by
  constructor
  · rfl
  · simp only [dropNanRows]
    apply List.map_congr_left
    intro l hl
    exact dropMasked_range _ l _ (hlen l hl)

/-- the laser parameters are read from the image that still has its helper columns, and the
helper columns are removed from the returned image only -/
theorem params_before_drop (isNan : α → Bool) (rp : Vendor → Image α → P) (v : Vendor) (img : Image α)
    (hv : dropsNan v = false) :
    post isNan rp v img = (dropFields (dropNames v) img, rp v img) := by
  simp [post, hv]

/-! ## non-vacuity -/

section examples

def exLine (xs : List Int) : Line Int := { names := ["Cycle_time_(ms)", "A"], rows := xs.map (fun x => [0, x]) }

def exDir : List (Entry Int) :=
  [ { name := "line_10.csv", isFile := true, line := exLine [10, 11, 12] },
    { name := ".line_3.csv", isFile := true, line := exLine [0] },
    { name := "line_9.csv", isFile := true, line := exLine [90, 91] },
    { name := "notes.txt", isFile := true, line := exLine [] },
    { name := "line_100.CSV", isFile := true, line := exLine [100, 101, 102, 103] },
    { name := "line_7.csv", isFile := false, line := exLine [] } ]

/-- the hypotheses of `load_eq_spec` / `load_row_k` hold on a 9/10/100 directory with distractors,
and the import puts line 9 first -/
example : (accepted .nu exDir).Pairwise (fun a b => acqKey .nu a.name ≠ acqKey .nu b.name) := by decide
example : ∀ a ∈ accepted .nu exDir, ∀ b ∈ accepted .nu exDir,
    keyLe (sortKey .nu timegm a.name) (sortKey .nu timegm b.name) = keyLe (acqKey .nu a.name) (acqKey .nu b.name) := by
  decide
example : (specLoad (fun _ => false) (fun _ _ => ()) .nu exDir).map (·.1.lines)
    = some [[[90], [91]], [[10], [11]], [[100], [101]]] := by decide +kernel

/-- a strictly monotone conversion exists: the stamp-to-seconds conversion on two stamps around the
Berlin spring transition -/
example : keyLt (acqKey .tofwerk "IMG_2021.03.28-02h30m00s_AS.csv") (acqKey .tofwerk "IMG_2021.03.28-03h10m00s_AS.csv") = true
    ∧ timegm (stampFields "IMG_2021.03.28-02h30m00s_AS.csv".toList) < timegm (stampFields "IMG_2021.03.28-03h10m00s_AS.csv".toList) := by
  decide

example : autodetect exDir = .nu := by decide

/-- "s1_ldr_9" / "s1_ldr_10": prefix digit 1, indices 9 and 10 -/
example : digitsNat ("1".toList ++ "9".toList) = 19 ∧ digitsNat ("1".toList ++ "10".toList) = 110
    ∧ (∀ x ∈ "9".toList, isDigit x = true) ∧ 1 ≤ digitVal '1' := by decide

example : validStampB (stampFields "IMG_2021.03.28-02h30m00s_AS.csv".toList) = true := by decide
example : validStampB [2020, 2, 29, 23, 59, 59] = true ∧ validStampB [2021, 2, 29, 0, 0, 0] = false := by decide

end examples

end Pew.CsvDir
