import PewProofs.CsvDir
import PewProofs.CsvTime
import PewProofs.CsvDigits
import PewProofs.CsvDirNames
import PewProofs.CsvDirPost
import PewProofs.CsvDirHist

/-! # C04 — property theorems (statements only depend on `PewModel.CsvDir`, plus `Covers`, `nameForm` and `strLe` of the proofs) -/
namespace Pew.CsvDir

variable {α P : Type}

/-- every reader task completes -/
def Covers (n : Nat) (π : List Nat) : Prop := ∀ i, i < n → i ∈ π

/-- with every task completing, the lines arrive in the sorted (submission) order -/
theorem readLines_eq (v : Vendor) (tkey : List Nat → Int) (listing : List (Entry α)) (π : List Nat)
    (hπ : Covers (accepted v listing).length π) :
    readLines v tkey listing π
      = (sortBy (fun e => sortKey v tkey e.name) (accepted v listing)).map (·.line) := by
  unfold readLines
  simp only
  apply gather_complete
  intro i hi
  apply hπ
  simpa [(sortBy_perm _ _).length_eq] using hi

/-- **Schedule independence.** Whatever the order in which the parallel readers finish, the import
returns the same image and parameters. -/
theorem load_schedule_independent (isNan : α → Bool) (rp : Vendor → Image α → P) (v : Vendor)
    (tkey : List Nat → Int) (listing : List (Entry α)) (π₁ π₂ : List Nat)
    (h₁ : Covers (accepted v listing).length π₁) (h₂ : Covers (accepted v listing).length π₂) :
    load isNan rp v tkey listing π₁ = load isNan rp v tkey listing π₂ := by
  unfold load
  rw [readLines_eq v tkey listing π₁ h₁, readLines_eq v tkey listing π₂ h₂]

example : Covers 3 [2, 0, 1] := by intro i hi; have : i = 0 ∨ i = 1 ∨ i = 2 := by omega
                                   rcases this with h | h | h <;> subst h <;> simp

/-- **Listing independence.** Any two listings of the same directory whose accepted files have
pairwise distinct sort keys import identically (same completion order on both sides). -/
theorem load_listing_independent (isNan : α → Bool) (rp : Vendor → Image α → P) (v : Vendor)
    (tkey : List Nat → Int) (σ listing : List (Entry α)) (π : List Nat) (hp : σ.Perm listing)
    (hinj : ∀ a ∈ accepted v listing, ∀ b ∈ accepted v listing,
      sortKey v tkey a.name = sortKey v tkey b.name → a = b) :
    load isNan rp v tkey σ π = load isNan rp v tkey listing π := by
  have hvis : (visible σ).Perm (visible listing) := hp.filter _
  have hacc : (accepted v σ).Perm (accepted v listing) := hvis.filter _
  have hsort : sortBy (fun e => sortKey v tkey e.name) (accepted v σ)
      = sortBy (fun e => sortKey v tkey e.name) (accepted v listing) := by
    apply sortBy_perm_invariant _ _ _ hacc
    intro a ha b hb
    exact hinj a (hacc.mem_iff.mp ha) b (hacc.mem_iff.mp hb)
  have hemp : (visible σ).isEmpty = (visible listing).isEmpty := by
    have := hvis.length_eq
    cases h1 : visible σ <;> cases h2 : visible listing <;> simp_all
  have hdef : keysDefined v ((accepted v σ).map (·.name)) = keysDefined v ((accepted v listing).map (·.name)) := by
    cases v <;> simp only [keysDefined]
    exact (hacc.map _).all_eq
  unfold load readLines
  simp only [hsort, hemp, hdef]

/-- **Hidden files, non-files and files not matching the vendor pattern never contribute.** -/
theorem filter_spec (v : Vendor) (listing : List (Entry α)) (e : Entry α) :
    e ∈ accepted v listing ↔
      e ∈ listing ∧ e.isFile = true ∧ hidden e.name = false ∧ matchesV v e.name = true := by
  simp only [accepted, visible, List.mem_filter, Bool.and_eq_true, Bool.not_eq_eq_eq_not, Bool.not_true]
  constructor
  · rintro ⟨⟨h1, h2, h3⟩, h4⟩; exact ⟨h1, h2, h3, h4⟩
  · rintro ⟨h1, h2, h3, h4⟩; exact ⟨⟨h1, h2, h3⟩, h4⟩

/-- … the import of a directory is the import of its accepted files alone -/
theorem load_ignores_rejected (isNan : α → Bool) (rp : Vendor → Image α → P) (v : Vendor)
    (tkey : List Nat → Int) (listing : List (Entry α)) (π : List Nat) :
    load isNan rp v tkey listing π = load isNan rp v tkey (accepted v listing) π := by
  have hvv : visible (accepted v listing) = accepted v listing := by
    unfold accepted visible
    rw [List.filter_filter, List.filter_filter, List.filter_filter]
    apply List.filter_congr
    intro x _
    cases x.isFile <;> cases hidden x.name <;> cases matchesV v x.name <;> rfl
  have haa : accepted v (accepted v listing) = accepted v listing := by
    show (visible (accepted v listing)).filter (fun e => matchesV v e.name) = accepted v listing
    rw [hvv]
    show ((visible listing).filter (fun e => matchesV v e.name)).filter (fun e => matchesV v e.name) = _
    rw [List.filter_filter]
    apply List.filter_congr
    intro x _
    cases matchesV v x.name <;> rfl
  have hlines : readLines v tkey (accepted v listing) π = readLines v tkey listing π := by
    unfold readLines; rw [haa]
  unfold load
  rw [hvv, hlines, haa]
  by_cases hvis : (visible listing).isEmpty = true
  · have hacc : accepted v listing = [] := by
      unfold accepted; rw [List.isEmpty_iff.mp hvis]; rfl
    simp [hvis, hacc]
  · by_cases hacc : (accepted v listing).isEmpty = true
    · have hl : readLines v tkey listing π = [] := by
        unfold readLines gather complete
        rw [List.isEmpty_iff.mp hacc]
        simp [sortBy]
      simp [hvis, hacc, hl]
    · simp [hvis, hacc]

/-- one cell per field in every sample row (`np.genfromtxt(names=True)`) and one header for all
accepted files (`np.stack`): the tables form a rectangular stack -/
theorem rect_of_tables (lines : List (Line α))
    (hwf : ∀ l ∈ lines, ∀ row ∈ l.rows, row.length = l.names.length)
    (hhdr : ∀ a ∈ lines, ∀ b ∈ lines, a.names = b.names) : Rect lines := by
  cases lines with
  | nil => intro l hl; simp at hl
  | cons a t =>
    intro l hl row hrow
    show row.length = a.names.length
    rw [hwf l hl row hrow, hhdr l hl a List.mem_cons_self]

/-- **The import is the specification**: with pairwise distinct acquisition keys, a sort key that
is defined on (TOFWERK: `time.strptime` accepts the stamp of) every accepted file and orders the
accepted files like the acquisition key, every reader completing, and tables as `np.genfromtxt`
returns them (one cell per field in every row, one header), the mechanism (listing → filter →
stable sort → submit → complete in order π → gather → cut → stack → mask-and-delete) returns
exactly the pointwise specification: cell `(k, j, i)` is the cell at the `j`-th surviving sample
position and the `i`-th surviving field of the accepted file with `k` files of smaller acquisition
key, and the parameters are read from the image that still has its helper columns. -/
theorem load_eq_spec (isNan : α → Bool) (rp : Vendor → Image α → P) (v : Vendor)
    (tkey : List Nat → Int) (listing : List (Entry α)) (π : List Nat)
    (hπ : Covers (accepted v listing).length π)
    (hd : (accepted v listing).Pairwise (fun a b => acqKey v a.name ≠ acqKey v b.name))
    (hdef : keysDefined v ((accepted v listing).map (·.name)) = true)
    (hkey : ∀ a ∈ accepted v listing, ∀ b ∈ accepted v listing,
      keyLe (sortKey v tkey a.name) (sortKey v tkey b.name) = keyLe (acqKey v a.name) (acqKey v b.name))
    (hwf : ∀ e ∈ accepted v listing, ∀ row ∈ e.line.rows, row.length = e.line.names.length)
    (hhdr : ∀ a ∈ accepted v listing, ∀ b ∈ accepted v listing, a.line.names = b.line.names) :
    load isNan rp v tkey listing π = specLoad isNan rp v listing := by
  have hacc : listing.filter (fun e => e.isFile && !hidden e.name && matchesV v e.name) = accepted v listing := by
    unfold accepted visible
    rw [List.filter_filter]
    apply List.filter_congr
    intro x _
    cases x.isFile <;> cases hidden x.name <;> cases matchesV v x.name <;> rfl
  have hsort : sortBy (fun e => sortKey v tkey e.name) (accepted v listing)
      = byRank (fun e => acqKey v e.name) (accepted v listing) := by
    rw [sortBy_congr (fun e : Entry α => sortKey v tkey e.name) (fun e => acqKey v e.name) _ hkey]
    exact sortBy_eq_byRank (fun e : Entry α => acqKey v e.name) _ hd
  have hperm := sortBy_perm (fun e : Entry α => sortKey v tkey e.name) (accepted v listing)
  have hrect : Rect ((byRank (fun e => acqKey v e.name) (accepted v listing)).map (·.line)) := by
    apply rect_of_tables
    · intro l hl
      obtain ⟨e, he, rfl⟩ := List.mem_map.mp hl
      rw [← hsort] at he
      exact hwf e (hperm.mem_iff.mp he)
    · intro a ha b hb
      obtain ⟨ea, hea, rfl⟩ := List.mem_map.mp ha
      obtain ⟨eb, heb, rfl⟩ := List.mem_map.mp hb
      rw [← hsort] at hea heb
      exact hhdr ea (hperm.mem_iff.mp hea) eb (hperm.mem_iff.mp heb)
  unfold load specLoad
  simp only [hacc, hdef]
  rw [readLines_eq v tkey listing π hπ, hsort, post_stack_eq_spec isNan rp v _ hrect]
  by_cases hvis : (visible listing).isEmpty = true
  · have hacc' : accepted v listing = [] := by
      unfold accepted; rw [List.isEmpty_iff.mp hvis]; rfl
    simp [hvis, hacc']
  · by_cases hacc' : (accepted v listing).isEmpty = true
    · have : accepted v listing = [] := List.isEmpty_iff.mp hacc'
      simp [hvis, this, byRank]
    · have hne : (byRank (fun e => acqKey v e.name) (accepted v listing)).isEmpty = false := by
        rw [← hsort]
        have := hperm.length_eq
        cases hh : sortBy (fun e : Entry α => sortKey v tkey e.name) (accepted v listing) with
        | nil =>
          rw [hh] at this
          exact absurd (List.isEmpty_iff.mpr (List.eq_nil_of_length_eq_zero this.symm)) hacc'
        | cons _ _ => rfl
      simp [hvis, hacc', hne]

/-- **Row k is the k-th line in acquisition order.**  For an accepted file `e` with `k` accepted
files of smaller acquisition key, line `k` of the stack is `e`'s table cut to the shortest accepted
line, and the stack has exactly one line per accepted file. -/
theorem load_row_k (v : Vendor) (tkey : List Nat → Int) (listing : List (Entry α)) (π : List Nat)
    (hπ : Covers (accepted v listing).length π)
    (hd : (accepted v listing).Pairwise (fun a b => acqKey v a.name ≠ acqKey v b.name))
    (hkey : ∀ a ∈ accepted v listing, ∀ b ∈ accepted v listing,
      keyLe (sortKey v tkey a.name) (sortKey v tkey b.name) = keyLe (acqKey v a.name) (acqKey v b.name))
    (e : Entry α) (he : e ∈ accepted v listing) :
    ∃ L : Nat,
      (∀ a ∈ accepted v listing, L ≤ a.line.rows.length) ∧
      (∃ a ∈ accepted v listing, L = a.line.rows.length) ∧
      (stack (readLines v tkey listing π)).lines.length = (accepted v listing).length ∧
      (stack (readLines v tkey listing π)).lines[rank (fun x => acqKey v x.name) (accepted v listing) e]?
        = some (e.line.rows.take L) := by
  have hsorted := readLines_eq v tkey listing π hπ
  have hperm := sortBy_perm (fun e : Entry α => sortKey v tkey e.name) (accepted v listing)
  have hsort : sortBy (fun e => sortKey v tkey e.name) (accepted v listing)
      = sortBy (fun e => acqKey v e.name) (accepted v listing) :=
    sortBy_congr (fun e : Entry α => sortKey v tkey e.name) (fun e => acqKey v e.name) _ hkey
  refine ⟨minLen (readLines v tkey listing π), ?_, ?_, ?_, ?_⟩
  · intro a ha
    apply minLen_le
    rw [hsorted]
    exact List.mem_map.mpr ⟨a, hperm.mem_iff.mpr ha, rfl⟩
  · have hne : readLines v tkey listing π ≠ [] := by
      rw [hsorted]
      intro h
      have h0 := List.map_eq_nil_iff.mp h
      have hl := hperm.length_eq
      rw [h0] at hl
      have : accepted v listing = [] := List.eq_nil_of_length_eq_zero hl.symm
      rw [this] at he; simp at he
    obtain ⟨l, hl1, hl2⟩ := minLen_mem _ hne
    rw [hsorted] at hl1
    obtain ⟨a, ha1, ha2⟩ := List.mem_map.mp hl1
    exact ⟨a, hperm.mem_iff.mp ha1, by rw [hl2, ← ha2]⟩
  · simp [stack, hsorted, hperm.length_eq]
  · -- position of e in the sorted list is its rank
    have hperm2 := sortBy_perm (fun e : Entry α => acqKey v e.name) (accepted v listing)
    obtain ⟨i, hi, hie⟩ := List.getElem_of_mem (hperm2.mem_iff.mpr he)
    have hd' : (sortBy (fun e : Entry α => acqKey v e.name) (accepted v listing)).Pairwise
        (fun a b => acqKey v a.name ≠ acqKey v b.name) :=
      hperm2.symm.pairwise hd (fun {a b} h => fun e => h e.symm)
    have hs : (sortBy (fun e : Entry α => acqKey v e.name) (accepted v listing)).Pairwise
        (fun a b => keyLt (acqKey v a.name) (acqKey v b.name) = true) := by
      refine ((sortBy_pairwise _ _).and hd').imp ?_
      intro a b ⟨h1, h2⟩
      simp only [keyLt, Bool.not_eq_eq_eq_not, Bool.not_true]
      cases h3 : keyLe (acqKey v b.name) (acqKey v a.name) with
      | false => rfl
      | true => exact absurd (keyLe_antisymm _ _ h1 h3) h2
    have hrank : rank (fun x => acqKey v x.name) (accepted v listing) e = i := by
      unfold rank
      rw [← hperm2.countP_eq, ← hie]
      exact countP_lt_of_sorted (fun x : Entry α => acqKey v x.name) _ hs i hi
    rw [hrank]
    simp only [stack, List.getElem?_map]
    rw [hsorted, hsort, List.getElem?_map, List.getElem?_eq_getElem hi, hie]
    rfl

/-- **TOFWERK: any strictly monotone stamp → number conversion sorts by the stamp.**  The stamp is
read from the file name alone, so nothing else (the time zone in particular) can influence the
order as long as the conversion is strictly monotone in the lexicographic order of
(year, month, day, hour, minute, second). -/
theorem tofwerk_key_monotone_sufficient (tkey : List Nat → Int) (l : List (Entry α))
    (hmono : ∀ a ∈ l, ∀ b ∈ l,
      keyLt (acqKey .tofwerk a.name) (acqKey .tofwerk b.name) = true →
        tkey (stampFields a.name.toList) < tkey (stampFields b.name.toList)) :
    sortBy (fun e => sortKey .tofwerk tkey e.name) l = sortBy (fun e => acqKey .tofwerk e.name) l := by
  apply sortBy_congr
  intro a ha b hb
  have hinj : acqKey .tofwerk a.name = acqKey .tofwerk b.name →
      stampFields a.name.toList = stampFields b.name.toList := by
    intro h
    simp only [acqKey] at h
    exact (List.map_inj_right (f := fun (n : Nat) => (n : Int)) (fun x y hxy => Int.ofNat.inj hxy)).mp h
  simp only [sortKey]
  cases h1 : keyLt (acqKey .tofwerk a.name) (acqKey .tofwerk b.name) with
  | true =>
    have := hmono a ha b hb h1
    rw [keyLe_of_keyLt h1]
    simp [keyLe, this]
  | false =>
    cases h2 : keyLt (acqKey .tofwerk b.name) (acqKey .tofwerk a.name) with
    | true =>
      have := hmono b hb a ha h2
      have h3 : keyLe (acqKey .tofwerk a.name) (acqKey .tofwerk b.name) = false := by
        simpa [keyLt] using h2
      rw [h3]
      have h4 : ¬ tkey (stampFields a.name.toList) < tkey (stampFields b.name.toList) := by omega
      have h5 : ¬ tkey (stampFields a.name.toList) = tkey (stampFields b.name.toList) := by omega
      simp [keyLe, h4, h5]
    | false =>
      have e1 : keyLe (acqKey .tofwerk b.name) (acqKey .tofwerk a.name) = true := by simpa [keyLt] using h1
      have e2 : keyLe (acqKey .tofwerk a.name) (acqKey .tofwerk b.name) = true := by simpa [keyLt] using h2
      have := hinj (keyLe_antisymm _ _ e2 e1)
      rw [e2, this]
      simp [keyLe]

/-- **The stamp → seconds conversion of the model is strictly monotone** on valid stamps (a real
calendar date and time of day, as `time.strptime` accepts them, no leap seconds): pure arithmetic
on the six numbers read from the file name, no time zone enters. -/
theorem timegm_strictly_monotone (f g : List Nat) (hf : validStampB f = true) (hg : validStampB g = true)
    (h : keyLt (f.map (fun (n : Nat) => (n : Int))) (g.map (fun (n : Nat) => (n : Int))) = true) :
    timegm f < timegm g :=
  timegm_strictMono f g (validStamp_of_B f hf) (validStamp_of_B g hg) h

/-- hence TOFWERK files with valid stamps are sorted by their stamp -/
theorem tofwerk_sorted_by_stamp (l : List (Entry α))
    (hv : ∀ e ∈ l, validStampB (stampFields e.name.toList) = true) :
    sortBy (fun e => sortKey .tofwerk timegm e.name) l = sortBy (fun e => acqKey .tofwerk e.name) l := by
  apply tofwerk_key_monotone_sufficient
  intro a ha b hb h
  exact timegm_strictly_monotone _ _ (hv a ha) (hv b hb) h

/-- **Nu / LDR digit key, same index width**: the code's key is the number formed by *all* digits of
the stem, `int(p ++ d)` for the digits `p` contributed by a common prefix and the index digits `d`;
for indices of equal width it orders like the index. -/
theorem numkey_same_width (p d₁ d₂ : List Char) (h : d₁.length = d₂.length) :
    (digitsNat (p ++ d₁) ≤ digitsNat (p ++ d₂)) ↔ (digitsNat d₁ ≤ digitsNat d₂) :=
  numKey_same_width p d₁ d₂ h

/-- **… and 9 sorts before 10 before 100**: a longer index without a leading zero has the larger key
and is the larger index, whatever digits the common prefix contributes. -/
theorem numkey_longer_index (p d₁ : List Char) (c : Char) (t : List Char) (hd₁ : ∀ x ∈ d₁, isDigit x = true)
    (hc : 1 ≤ digitVal c) (hlen : d₁.length < (c :: t).length) :
    digitsNat (p ++ d₁) < digitsNat (p ++ c :: t) ∧ digitsNat d₁ < digitsNat (c :: t) :=
  numKey_longer p d₁ c t hd₁ hc hlen

/-- the generic layout is sorted by the plain file name -/
theorem generic_key_is_name (tkey : List Nat → Int) (name : String) :
    sortKey .generic tkey name = acqKey .generic name := rfl

/-! ## the code's key order IS the acquisition order, layout by layout (no `hkey` hypothesis) -/

/-- **Nu.** For a name that is `line_<digits>.csv` in full (any letter case, any zero padding, mixed or
not) the digits of the stem are exactly the digits of the line index: the code's key is the numeric
line index. -/
theorem nu_key_is_index (tkey : List Nat → Int) (name : String) (h : nuFull name.toList = true) :
    sortKey .nu tkey name = acqKey .nu name := by
  simp only [sortKey, acqKey]
  rw [nu_key_eq_index name.toList h]

/-- **LDR (after 0a523e4).** For every name the LDR pattern accepts the code's key is the pair
(lower-cased sample name, integer after `_ldr_`): the fall-back branch is never taken, digits in the
sample name and zero padding do not enter the index. -/
theorem ldr_key_is_sample_index (tkey : List Nat → Int) (name : String) (h : matchesV .ldr name = true) :
    sortKey .ldr tkey name = acqKey .ldr name := by
  simp only [matchesV, ldrGroup, Option.isSome_map] at h
  simp only [sortKey, ldrKey, acqKey]
  cases hp : ldrParts name.toList with
  | none => rw [hp] at h; cases h
  | some pd => rfl

/-- **LDR: the order.**  Two accepted files of one sample (names equal up to letter case) are ordered
by their integer line index, whatever the padding; files of different samples are grouped by the
lower-cased sample name in Python's string order. -/
theorem ldr_order (tkey : List Nat → Int) (a b : String) (p d q e : List Char)
    (ha : ldrParts a.toList = some (p, d)) (hb : ldrParts b.toList = some (q, e)) :
    keyLe (sortKey .ldr tkey a) (sortKey .ldr tkey b)
      = if lower p = lower q then decide (digitsNat d ≤ digitsNat e) else strLe (lower p) (lower q) := by
  simp only [sortKey, ldrKey, ha, hb]
  rw [tupleKey_order]
  by_cases h : lower p = lower q
  · simp only [h, if_true]
    by_cases h2 : digitsNat d ≤ digitsNat e
    · have : ((digitsNat d : Nat) : Int) ≤ ((digitsNat e : Nat) : Int) := by omega
      simp [h2, this]
    · have : ¬ ((digitsNat d : Nat) : Int) ≤ ((digitsNat e : Nat) : Int) := by omega
      simp [h2, this]
  · simp [h]

/-- **TOFWERK.** On stamps that are a valid date and time of day the seconds-since-epoch key of the
code compares exactly like the six stamp fields (year, month, day, hour, minute, second) -/
theorem timegm_order (f g : List Nat) (hf : validStampB f = true) (hg : validStampB g = true) :
    keyLe [timegm f] [timegm g]
      = keyLe (f.map (fun (n : Nat) => (n : Int))) (g.map (fun (n : Nat) => (n : Int))) := by
  cases h1 : keyLt (f.map (fun (n : Nat) => (n : Int))) (g.map (fun (n : Nat) => (n : Int))) with
  | true =>
    have := timegm_strictMono f g (validStamp_of_B f hf) (validStamp_of_B g hg) h1
    rw [keyLe_of_keyLt h1]
    simp [keyLe, this]
  | false =>
    cases h2 : keyLt (g.map (fun (n : Nat) => (n : Int))) (f.map (fun (n : Nat) => (n : Int))) with
    | true =>
      have := timegm_strictMono g f (validStamp_of_B g hg) (validStamp_of_B f hf) h2
      have h3 : keyLe (f.map (fun (n : Nat) => (n : Int))) (g.map (fun (n : Nat) => (n : Int))) = false := by
        simpa [keyLt] using h2
      rw [h3]
      have h4 : ¬ timegm f < timegm g := by omega
      have h5 : ¬ timegm f = timegm g := by omega
      simp [keyLe, h4, h5]
    | false =>
      have e1 : keyLe (g.map (fun (n : Nat) => (n : Int))) (f.map (fun (n : Nat) => (n : Int))) = true := by
        simpa [keyLt] using h1
      have e2 : keyLe (f.map (fun (n : Nat) => (n : Int))) (g.map (fun (n : Nat) => (n : Int))) = true := by
        simpa [keyLt] using h2
      have hfg : f = g :=
        (List.map_inj_right (f := fun (n : Nat) => (n : Int)) (fun x y hxy => Int.ofNat.inj hxy)).mp
          (keyLe_antisymm _ _ e2 e1)
      rw [e2, hfg]
      simp [keyLe]

theorem tofwerk_key_order (a b : String) (ha : validStampB (stampFields a.toList) = true)
    (hb : validStampB (stampFields b.toList) = true) :
    keyLe (sortKey .tofwerk timegm a) (sortKey .tofwerk timegm b)
      = keyLe (acqKey .tofwerk a) (acqKey .tofwerk b) :=
  timegm_order _ _ ha hb

/-- a valid stamp is one `time.strptime` accepts: the import does not raise on it -/
theorem strptimeOk_of_valid (f : List Nat) (h : validStampB f = true) : strptimeOk f = true := by
  match f, h with
  | [y, m, d, hh, mm, ss], h =>
    simp only [validStampB, Bool.and_eq_true, decide_eq_true_eq] at h
    simp only [strptimeOk, Bool.and_eq_true, decide_eq_true_eq]
    omega

/-- the name form under which the code's key order is the acquisition order: Nu names are
`line_<digits>.csv` in full, TOFWERK stamps are valid dates and times of day; every name the LDR or
generic pattern accepts qualifies -/
def nameForm (v : Vendor) (name : String) : Bool :=
  match v with
  | .nu => nuFull name.toList
  | .ldr => true
  | .tofwerk => validStampB (stampFields name.toList)
  | .generic => true

/-- **For every layout: the code's key orders the accepted files of a directory in the vendor's name
form exactly as the acquisition key does** - the hypothesis `hkey` of `load_eq_spec` / `load_row_k`,
discharged. -/
theorem key_order_is_acquisition_order (v : Vendor) (a b : String)
    (ma : matchesV v a = true) (mb : matchesV v b = true) (fa : nameForm v a = true) (fb : nameForm v b = true) :
    keyLe (sortKey v timegm a) (sortKey v timegm b) = keyLe (acqKey v a) (acqKey v b) := by
  cases v with
  | nu => rw [nu_key_is_index timegm a fa, nu_key_is_index timegm b fb]
  | ldr => rw [ldr_key_is_sample_index timegm a ma, ldr_key_is_sample_index timegm b mb]
  | tofwerk => exact tofwerk_key_order a b fa fb
  | generic => rfl

/-- **End to end, every layout.**  A directory whose accepted names have the vendor's name form and
pairwise distinct acquisition keys, tables as `np.genfromtxt` returns them, every reader completing:
the import is the pointwise specification, whatever the listing order and the completion order. -/
theorem load_eq_spec_vendor (isNan : α → Bool) (rp : Vendor → Image α → P) (v : Vendor)
    (listing : List (Entry α)) (π : List Nat)
    (hπ : Covers (accepted v listing).length π)
    (hd : (accepted v listing).Pairwise (fun a b => acqKey v a.name ≠ acqKey v b.name))
    (hform : ∀ e ∈ accepted v listing, nameForm v e.name = true)
    (hwf : ∀ e ∈ accepted v listing, ∀ row ∈ e.line.rows, row.length = e.line.names.length)
    (hhdr : ∀ a ∈ accepted v listing, ∀ b ∈ accepted v listing, a.line.names = b.line.names) :
    load isNan rp v timegm listing π = specLoad isNan rp v listing := by
  have hm : ∀ e ∈ accepted v listing, matchesV v e.name = true := fun e he => ((filter_spec v listing e).mp he).2.2.2
  apply load_eq_spec isNan rp v timegm listing π hπ hd _ _ hwf hhdr
  · cases v <;> simp only [keysDefined]
    simp only [List.all_map, List.all_eq_true, Function.comp]
    intro e he
    exact strptimeOk_of_valid _ (hform e he)
  · intro a ha b hb
    exact key_order_is_acquisition_order v a.name b.name (hm a ha) (hm b hb) (hform a ha) (hform b hb)

/-- Nu: names `line_<digits>.csv` with distinct line indices -/
theorem load_eq_spec_nu (isNan : α → Bool) (rp : Vendor → Image α → P) (listing : List (Entry α)) (π : List Nat)
    (hπ : Covers (accepted .nu listing).length π)
    (hd : (accepted .nu listing).Pairwise (fun a b => acqKey .nu a.name ≠ acqKey .nu b.name))
    (hform : ∀ e ∈ accepted .nu listing, nuFull e.name.toList = true)
    (hwf : ∀ e ∈ accepted .nu listing, ∀ row ∈ e.line.rows, row.length = e.line.names.length)
    (hhdr : ∀ a ∈ accepted .nu listing, ∀ b ∈ accepted .nu listing, a.line.names = b.line.names) :
    load isNan rp .nu timegm listing π = specLoad isNan rp .nu listing :=
  load_eq_spec_vendor isNan rp .nu listing π hπ hd hform hwf hhdr

/-- LDR: every accepted directory with distinct (sample, index) pairs - no condition on the names -/
theorem load_eq_spec_ldr (isNan : α → Bool) (rp : Vendor → Image α → P) (listing : List (Entry α)) (π : List Nat)
    (hπ : Covers (accepted .ldr listing).length π)
    (hd : (accepted .ldr listing).Pairwise (fun a b => acqKey .ldr a.name ≠ acqKey .ldr b.name))
    (hwf : ∀ e ∈ accepted .ldr listing, ∀ row ∈ e.line.rows, row.length = e.line.names.length)
    (hhdr : ∀ a ∈ accepted .ldr listing, ∀ b ∈ accepted .ldr listing, a.line.names = b.line.names) :
    load isNan rp .ldr timegm listing π = specLoad isNan rp .ldr listing :=
  load_eq_spec_vendor isNan rp .ldr listing π hπ hd (fun _ _ => rfl) hwf hhdr

/-- TOFWERK: valid, pairwise distinct stamps; no time zone anywhere in the statement -/
theorem load_eq_spec_tofwerk (isNan : α → Bool) (rp : Vendor → Image α → P) (listing : List (Entry α)) (π : List Nat)
    (hπ : Covers (accepted .tofwerk listing).length π)
    (hd : (accepted .tofwerk listing).Pairwise (fun a b => acqKey .tofwerk a.name ≠ acqKey .tofwerk b.name))
    (hstamp : ∀ e ∈ accepted .tofwerk listing, validStampB (stampFields e.name.toList) = true)
    (hwf : ∀ e ∈ accepted .tofwerk listing, ∀ row ∈ e.line.rows, row.length = e.line.names.length)
    (hhdr : ∀ a ∈ accepted .tofwerk listing, ∀ b ∈ accepted .tofwerk listing, a.line.names = b.line.names) :
    load isNan rp .tofwerk timegm listing π = specLoad isNan rp .tofwerk listing :=
  load_eq_spec_vendor isNan rp .tofwerk listing π hπ hd hstamp hwf hhdr

/-- generic: plain file-name order; names are distinct anyway -/
theorem load_eq_spec_generic (isNan : α → Bool) (rp : Vendor → Image α → P) (listing : List (Entry α)) (π : List Nat)
    (hπ : Covers (accepted .generic listing).length π)
    (hd : (accepted .generic listing).Pairwise (fun a b => acqKey .generic a.name ≠ acqKey .generic b.name))
    (hwf : ∀ e ∈ accepted .generic listing, ∀ row ∈ e.line.rows, row.length = e.line.names.length)
    (hhdr : ∀ a ∈ accepted .generic listing, ∀ b ∈ accepted .generic listing, a.line.names = b.line.names) :
    load isNan rp .generic timegm listing π = specLoad isNan rp .generic listing :=
  load_eq_spec_vendor isNan rp .generic listing π hπ hd (fun _ _ => rfl) hwf hhdr

/-- **TOFWERK, any conversion of the stamp.**  The key the code computes is `tkey` of the six numbers read
from the FILE NAME - a function of the stamp text and of nothing else, whatever the conversion.  If `tkey`
is strictly increasing in the stamp on valid stamps, it compares exactly like the stamp fields … -/
theorem monotone_key_order (tkey : List Nat → Int)
    (hmono : ∀ f g, validStampB f = true → validStampB g = true →
      keyLt (f.map (fun (n : Nat) => (n : Int))) (g.map (fun (n : Nat) => (n : Int))) = true → tkey f < tkey g)
    (f g : List Nat) (hf : validStampB f = true) (hg : validStampB g = true) :
    keyLe [tkey f] [tkey g]
      = keyLe (f.map (fun (n : Nat) => (n : Int))) (g.map (fun (n : Nat) => (n : Int))) := by
  cases h1 : keyLt (f.map (fun (n : Nat) => (n : Int))) (g.map (fun (n : Nat) => (n : Int))) with
  | true =>
    have := hmono f g hf hg h1
    rw [keyLe_of_keyLt h1]
    simp [keyLe, this]
  | false =>
    cases h2 : keyLt (g.map (fun (n : Nat) => (n : Int))) (f.map (fun (n : Nat) => (n : Int))) with
    | true =>
      have := hmono g f hg hf h2
      have h3 : keyLe (f.map (fun (n : Nat) => (n : Int))) (g.map (fun (n : Nat) => (n : Int))) = false := by
        simpa [keyLt] using h2
      rw [h3]
      have h4 : ¬ tkey f < tkey g := by omega
      have h5 : ¬ tkey f = tkey g := by omega
      simp [keyLe, h4, h5]
    | false =>
      have e1 : keyLe (g.map (fun (n : Nat) => (n : Int))) (f.map (fun (n : Nat) => (n : Int))) = true := by
        simpa [keyLt] using h1
      have e2 : keyLe (f.map (fun (n : Nat) => (n : Int))) (g.map (fun (n : Nat) => (n : Int))) = true := by
        simpa [keyLt] using h2
      have hfg : f = g :=
        (List.map_inj_right (f := fun (n : Nat) => (n : Int)) (fun x y hxy => Int.ofNat.inj hxy)).mp
          (keyLe_antisymm _ _ e2 e1)
      rw [e2, hfg]
      simp [keyLe]

/-- **… and the TOFWERK import is the specification for EVERY such conversion** (`calendar.timegm`, a naive
`datetime`, seconds since any epoch, the zero-padded stamp read as a number): the result cannot depend on
anything the conversion does not - the time zone of the importing machine enters only through a
conversion that consults it, and then only if that conversion is not increasing in the stamp (as
`time.mktime` is not, across a DST transition: the defect repaired by 61edfa9). -/
theorem load_eq_spec_tofwerk_monotone_key (isNan : α → Bool) (rp : Vendor → Image α → P) (tkey : List Nat → Int)
    (hmono : ∀ f g, validStampB f = true → validStampB g = true →
      keyLt (f.map (fun (n : Nat) => (n : Int))) (g.map (fun (n : Nat) => (n : Int))) = true → tkey f < tkey g)
    (listing : List (Entry α)) (π : List Nat)
    (hπ : Covers (accepted .tofwerk listing).length π)
    (hd : (accepted .tofwerk listing).Pairwise (fun a b => acqKey .tofwerk a.name ≠ acqKey .tofwerk b.name))
    (hstamp : ∀ e ∈ accepted .tofwerk listing, validStampB (stampFields e.name.toList) = true)
    (hwf : ∀ e ∈ accepted .tofwerk listing, ∀ row ∈ e.line.rows, row.length = e.line.names.length)
    (hhdr : ∀ a ∈ accepted .tofwerk listing, ∀ b ∈ accepted .tofwerk listing, a.line.names = b.line.names) :
    load isNan rp .tofwerk tkey listing π = specLoad isNan rp .tofwerk listing := by
  apply load_eq_spec isNan rp .tofwerk tkey listing π hπ hd _ _ hwf hhdr
  · simp only [keysDefined, List.all_map, List.all_eq_true, Function.comp]
    intro e he
    exact strptimeOk_of_valid _ (hstamp e he)
  · intro a ha b hb
    exact monotone_key_order tkey hmono _ _ (hstamp a ha) (hstamp b hb)

/-- two conversions that are both increasing in the stamp import every such directory identically: the
import of the TOFWERK layout is independent of HOW the stamp is turned into a number -/
theorem tofwerk_import_independent_of_conversion (isNan : α → Bool) (rp : Vendor → Image α → P)
    (tkey₁ tkey₂ : List Nat → Int)
    (h₁ : ∀ f g, validStampB f = true → validStampB g = true →
      keyLt (f.map (fun (n : Nat) => (n : Int))) (g.map (fun (n : Nat) => (n : Int))) = true → tkey₁ f < tkey₁ g)
    (h₂ : ∀ f g, validStampB f = true → validStampB g = true →
      keyLt (f.map (fun (n : Nat) => (n : Int))) (g.map (fun (n : Nat) => (n : Int))) = true → tkey₂ f < tkey₂ g)
    (listing : List (Entry α)) (π₁ π₂ : List Nat)
    (hπ₁ : Covers (accepted .tofwerk listing).length π₁) (hπ₂ : Covers (accepted .tofwerk listing).length π₂)
    (hd : (accepted .tofwerk listing).Pairwise (fun a b => acqKey .tofwerk a.name ≠ acqKey .tofwerk b.name))
    (hstamp : ∀ e ∈ accepted .tofwerk listing, validStampB (stampFields e.name.toList) = true)
    (hwf : ∀ e ∈ accepted .tofwerk listing, ∀ row ∈ e.line.rows, row.length = e.line.names.length)
    (hhdr : ∀ a ∈ accepted .tofwerk listing, ∀ b ∈ accepted .tofwerk listing, a.line.names = b.line.names) :
    load isNan rp .tofwerk tkey₁ listing π₁ = load isNan rp .tofwerk tkey₂ listing π₂ := by
  rw [load_eq_spec_tofwerk_monotone_key isNan rp tkey₁ h₁ listing π₁ hπ₁ hd hstamp hwf hhdr,
    load_eq_spec_tofwerk_monotone_key isNan rp tkey₂ h₂ listing π₂ hπ₂ hd hstamp hwf hhdr]

/-- `timegm` is such a conversion, and so is the stamp read as the decimal number `YYYYMMDDhhmmss` -/
example : ∀ f g, validStampB f = true → validStampB g = true →
    keyLt (f.map (fun (n : Nat) => (n : Int))) (g.map (fun (n : Nat) => (n : Int))) = true → timegm f < timegm g :=
  fun f g hf hg h => timegm_strictly_monotone f g hf hg h

/-- a TOFWERK directory with a stamp `time.strptime` rejects is not imported at all: `ValueError` -/
theorem load_raises_on_bad_stamp (isNan : α → Bool) (rp : Vendor → Image α → P) (tkey : List Nat → Int)
    (listing : List (Entry α)) (π : List Nat) (e : Entry α) (he : e ∈ accepted .tofwerk listing)
    (hbad : strptimeOk (stampFields e.name.toList) = false) :
    load isNan rp .tofwerk tkey listing π = none := by
  unfold load
  have : keysDefined .tofwerk ((accepted .tofwerk listing).map (·.name)) = false := by
    simp only [keysDefined, List.all_map]
    apply Bool.eq_false_iff.mpr
    intro h
    have := (List.all_eq_true.mp h) e he
    simp only [Function.comp] at this
    rw [hbad] at this
    cases this
  simp [this]

/-- **Auto-detection picks the first of Nu, LDR, TOFWERK whose pattern matches some file**, and the
generic option when none does. -/
theorem autodetect_first_match (listing : List (Entry α)) :
    let has := fun v => listing.any (fun e => e.isFile && matchesV v e.name)
    (has .nu = true → autodetect listing = .nu) ∧
    (has .nu = false → has .ldr = true → autodetect listing = .ldr) ∧
    (has .nu = false → has .ldr = false → has .tofwerk = true → autodetect listing = .tofwerk) ∧
    (has .nu = false → has .ldr = false → has .tofwerk = false → autodetect listing = .generic) := by
  intro has
  refine ⟨?_, ?_, ?_, ?_⟩ <;> intros <;> simp_all [autodetect, has]

/-! ## post-processing, pointwise -/

/-- `drop_fields` keeps exactly the fields whose name is not listed, in header order, and every
sample keeps exactly the cells of those fields -/
theorem dropFields_spec (drop : List String) (img : Image α) :
    (dropFields drop img).names = img.names.filter (fun n => !drop.contains n) ∧
    (dropFields drop img).lines = img.lines.map (fun l => l.map (fun row =>
      ((row.zip img.names).filter (fun p => !drop.contains p.2)).map (·.1))) := by
  constructor
  · simp only [dropFields, dropCols]
    rw [dropMasked_map]
    induction img.names with
    | nil => rfl
    | cons n ns ih =>
      simp only [List.zip_cons_cons, List.filter_cons]
      cases drop.contains n
      · simp only [Bool.not_false, if_true, List.map_cons, ih]
      · simp only [Bool.not_true, Bool.false_eq_true, if_false, ih]
  · simp only [dropFields, dropCols]
    apply List.map_congr_left
    intro l _
    apply List.map_congr_left
    intro row _
    exact dropMasked_map _ row img.names

/-- LDR: exactly the sample positions that are NaN in every field of every line are removed, the
others keep their order -/
theorem dropNanRows_spec (isNan : α → Bool) (img : Image α)
    (hlen : ∀ l ∈ img.lines, l.length ≤ imgLength img) :
    (dropNanRows isNan img).names = img.names ∧
    (dropNanRows isNan img).lines = img.lines.map (fun l =>
      ((l.zipIdx).filter (fun x => !nanPos isNan img x.2)).map (·.1)) := by
  constructor
  · rfl
  · simp only [dropNanRows]
    apply List.map_congr_left
    intro l hl
    exact dropMasked_range _ l _ (hlen l hl)

/-- the laser parameters are read from the image that still has its helper columns, and the
helper columns are removed from the returned image only -/
theorem params_before_drop (isNan : α → Bool) (rp : Vendor → Image α → P) (v : Vendor) (img : Image α)
    (hv : dropsNan v = false) :
    post isNan rp v img = (dropFields (dropNames v) img, rp v img) := by
  simp [post, hv]

/-- LDR: exactly the fields that are NaN at every sample position of every line are removed, the
others keep their order; every sample keeps exactly the cells of those fields -/
theorem dropNanCols_spec (isNan : α → Bool) (img : Image α)
    (hw : ∀ l ∈ img.lines, ∀ row ∈ l, row.length ≤ img.names.length) :
    (dropNanCols isNan img).names
        = ((img.names.zipIdx).filter (fun x => !nanCol isNan img x.2)).map (·.1) ∧
    (dropNanCols isNan img).lines = img.lines.map (fun l => l.map (fun row =>
      ((row.zipIdx).filter (fun x => !nanCol isNan img x.2)).map (·.1))) := by
  constructor
  · simp only [dropNanCols, dropCols]
    exact dropMasked_range _ _ _ (Nat.le_refl _)
  · simp only [dropNanCols, dropCols]
    apply List.map_congr_left
    intro l hl
    apply List.map_congr_left
    intro row hrow
    exact dropMasked_range _ row _ (hw l hl row hrow)

/-- … where "NaN everywhere" is meant cell by cell -/
theorem nanCol_iff (isNan : α → Bool) (img : Image α) (c : Nat) :
    nanCol isNan img c = true ↔ ∀ l ∈ img.lines, ∀ row ∈ l, ∀ x, row[c]? = some x → isNan x = true := by
  simp only [nanCol, List.all_eq_true]
  constructor
  · intro h l hl row hrow x hx
    have := h l hl row hrow
    simpa [hx] using this
  · intro h l hl row hrow
    cases hx : row[c]? with
    | none => rfl
    | some x => simpa using h l hl row hrow x hx

/-! ## the pointwise specification: what `specImage` says, and that the mechanism computes it -/

/-- **Every line is cut to the shortest one**: the common length is a lower bound of the line
lengths and is attained -/
theorem cutLen_spec (lines : List (Line α)) (hne : lines ≠ []) :
    (∀ l ∈ lines, cutLen lines ≤ l.rows.length) ∧ ∃ l ∈ lines, cutLen lines = l.rows.length := by
  rw [cutLen_eq_minLen]
  exact ⟨fun l hl => minLen_le lines l hl, minLen_mem lines hne⟩

/-- sample position `j` is dropped (LDR) iff every cell of every line at `j` is NaN -/
theorem specNanPos_iff (isNan : α → Bool) (lines : List (Line α)) (j : Nat) :
    specNanPos isNan lines j = true ↔
      ∀ l ∈ lines, ∀ row, l.rows[j]? = some row → ∀ x ∈ row, isNan x = true := by
  simp only [specNanPos, List.all_eq_true]
  constructor
  · intro h l hl row hrow x hx
    have := h l hl
    rw [hrow] at this
    exact (List.all_eq_true.mp this) x hx
  · intro h l hl
    cases hrow : l.rows[j]? with
    | none => rfl
    | some row => exact List.all_eq_true.mpr (h l hl row hrow)

/-- field `c` is dropped (LDR) iff its cell is NaN at every sample position below the common length
of every line -/
theorem specNanCol_iff (isNan : α → Bool) (lines : List (Line α)) (L c : Nat) :
    specNanCol isNan lines L c = true ↔
      ∀ l ∈ lines, ∀ j, j < L → ∀ row, l.rows[j]? = some row → ∀ x, row[c]? = some x → isNan x = true := by
  simp only [specNanCol, List.all_eq_true]
  constructor
  · intro h l hl j hj row hrow x hx
    have := h l hl j (List.mem_range.mpr hj)
    simpa [hrow, hx] using this
  · intro h l hl j hj
    cases hrow : l.rows[j]? with
    | none => rfl
    | some row =>
      cases hx : row[c]? with
      | none => simp [hx]
      | some x => simpa [hx] using h l hl j (List.mem_range.mp hj) row hrow x hx

/-- **the surviving sample positions**, increasing: `j` survives iff it lies below the common length and is
not (LDR) NaN everywhere -/
theorem specPos_spec (isNan : α → Bool) (dropNan : Bool) (lines : List (Line α)) :
    (specPos isNan dropNan lines).Pairwise (· < ·) ∧
    ∀ j, j ∈ specPos isNan dropNan lines ↔
      j < cutLen lines ∧ ¬ (dropNan = true ∧ specNanPos isNan lines j = true) := by
  constructor
  · exact List.Pairwise.filter _ List.pairwise_lt_range
  · intro j
    simp only [specPos, List.mem_filter, List.mem_range, Bool.not_eq_true', Bool.and_eq_false_iff]
    constructor
    · rintro ⟨h1, h2⟩
      refine ⟨h1, ?_⟩
      rintro ⟨h3, h4⟩
      rcases h2 with h | h
      · rw [h3] at h; cases h
      · rw [h4] at h; cases h
    · rintro ⟨h1, h2⟩
      refine ⟨h1, ?_⟩
      cases hd : dropNan
      · left; rfl
      · right
        cases hn : specNanPos isNan lines j
        · rfl
        · exact absurd ⟨hd, hn⟩ h2

/-- **the surviving fields**, in header order: field `c` survives iff its name is wanted (not a helper
column) and it is not (LDR) NaN everywhere -/
theorem specCols_spec (isNan : α → Bool) (dropNan : Bool) (keep : String → Bool) (hdr : List String)
    (lines : List (Line α)) :
    (specCols isNan dropNan keep hdr lines).Pairwise (· < ·) ∧
    ∀ c, c ∈ specCols isNan dropNan keep hdr lines ↔
      (∃ n, hdr[c]? = some n ∧ keep n = true) ∧
        ¬ (dropNan = true ∧ specNanCol isNan lines (cutLen lines) c = true) := by
  constructor
  · exact List.Pairwise.filter _ List.pairwise_lt_range
  · intro c
    simp only [specCols, List.mem_filter, List.mem_range, Bool.and_eq_true, Bool.not_eq_true',
      Bool.and_eq_false_iff, Option.any_eq_true]
    constructor
    · rintro ⟨_, h2, h3⟩
      refine ⟨h2, ?_⟩
      rintro ⟨h4, h5⟩
      rcases h3 with h | h
      · rw [h4] at h; cases h
      · rw [h5] at h; cases h
    · rintro ⟨⟨n, hn1, hn2⟩, h3⟩
      refine ⟨?_, ⟨n, hn1, hn2⟩, ?_⟩
      · by_cases hc : c < hdr.length
        · exact hc
        · rw [List.getElem?_eq_none (by omega)] at hn1; cases hn1
      · cases hd : dropNan
        · left; rfl
        · right
          cases hn : specNanCol isNan lines (cutLen lines) c
          · rfl
          · exact absurd ⟨hd, hn⟩ h3

/-- **cell (k, j, i) of the specified image** is the cell of line `k` at the `j`-th surviving sample
position and the `i`-th surviving field; there is nothing else in the image -/
theorem specImage_cell (isNan : α → Bool) (dropNan : Bool) (keep : String → Bool) (lines : List (Line α))
    (hr : Rect lines) (k j i : Nat) :
    (((specImage isNan dropNan keep lines).lines[k]?).bind (fun l => l[j]?)).bind (fun row => row[i]?)
      = (lines[k]?).bind (fun l =>
          ((specPos isNan dropNan lines)[j]?).bind (fun j' =>
            (l.rows[j']?).bind (fun row =>
              ((specCols isNan dropNan keep (hdrOf lines) lines)[i]?).bind (fun c => row[c]?)))) := by
  simp only [specImage, List.getElem?_map]
  cases hk : lines[k]? with
  | none => rfl
  | some l =>
    have hl : l ∈ lines := List.mem_of_getElem? hk
    simp only [Option.map_some, Option.bind_some]
    rw [getElem?_filterMap_of_isSome]
    · cases hj : (specPos isNan dropNan lines)[j]? with
      | none => rfl
      | some j' =>
        simp only [Option.bind_some]
        cases hrow : l.rows[j']? with
        | none => rfl
        | some row =>
          simp only [Option.map_some, Option.bind_some]
          apply getElem?_filterMap_of_isSome
          intro c hc
          have hc' : c < (hdrOf lines).length := by
            have := (List.mem_filter.mp hc).1
            simpa using this
          have : c < row.length := by rw [hr l hl row (List.mem_of_getElem? hrow)]; exact hc'
          simp [this]
    · intro j' hj'
      have h1 : j' < cutLen lines := ((specPos_spec isNan dropNan lines).2 j').mp hj' |>.1
      have hne : lines ≠ [] := by intro e; rw [e] at hl; cases hl
      have h2 := (cutLen_spec lines hne).1 l hl
      have : j' < l.rows.length := by omega
      simp [this]

/-- the field names of the specified image: the names of the surviving fields, in header order -/
theorem specImage_names (isNan : α → Bool) (dropNan : Bool) (keep : String → Bool) (lines : List (Line α))
    (i : Nat) :
    (specImage isNan dropNan keep lines).names[i]?
      = ((specCols isNan dropNan keep (hdrOf lines) lines)[i]?).bind (fun c => (hdrOf lines)[c]?) := by
  simp only [specImage]
  apply getElem?_filterMap_of_isSome
  intro c hc
  have : c < (hdrOf lines).length := by
    have := (List.mem_filter.mp hc).1
    simpa using this
  simp [this]

/-- **the mechanism's cut / stack / NaN masks / `drop_fields` compute that specification**, for every
layout including LDR: the returned image is the specified image without the helper columns, and the
parameters are read from the specified image WITH the helper columns (all-NaN positions and fields
already removed for LDR) -/
theorem post_eq_spec (isNan : α → Bool) (rp : Vendor → Image α → P) (v : Vendor) (lines : List (Line α))
    (hr : Rect lines) :
    post isNan rp v (stack lines)
      = (specImage isNan (dropsNan v) (fun n => !(dropNames v).contains n) lines,
         rp v (specImage isNan (dropsNan v) (fun _ => true) lines)) :=
  post_stack_eq_spec isNan rp v lines hr

/-! ## the property sentence, end to end -/

/-- **Row k, cell by cell, in the returned image.**  For an accepted file `e` with `k` accepted files of
smaller acquisition key: the import succeeds, the image has one line per accepted file, and cell
`(k, j, i)` of the image is the cell of `e`'s own table at the `j`-th surviving sample position and
the `i`-th surviving field - surviving positions: below the length of the shortest accepted line and
(LDR) not NaN in every field of every line; surviving fields, in header order: not a helper column and
(LDR) not NaN everywhere.  Nothing is computed from a value: every value is the one `genfromtxt` read. -/
theorem load_cell_vendor (isNan : α → Bool) (rp : Vendor → Image α → P) (v : Vendor)
    (listing : List (Entry α)) (π : List Nat)
    (hπ : Covers (accepted v listing).length π)
    (hd : (accepted v listing).Pairwise (fun a b => acqKey v a.name ≠ acqKey v b.name))
    (hform : ∀ e ∈ accepted v listing, nameForm v e.name = true)
    (hwf : ∀ e ∈ accepted v listing, ∀ row ∈ e.line.rows, row.length = e.line.names.length)
    (hhdr : ∀ a ∈ accepted v listing, ∀ b ∈ accepted v listing, a.line.names = b.line.names)
    (e : Entry α) (he : e ∈ accepted v listing) (j i : Nat) :
    ∃ img p, load isNan rp v timegm listing π = some (img, p) ∧
      img.lines.length = (accepted v listing).length ∧
      ((img.lines[rank (fun x => acqKey v x.name) (accepted v listing) e]?).bind (fun l => l[j]?)).bind
          (fun row => row[i]?)
        = ((specPos isNan (dropsNan v)
              ((byRank (fun x => acqKey v x.name) (accepted v listing)).map (·.line)))[j]?).bind (fun j' =>
            (e.line.rows[j']?).bind (fun row =>
              ((specCols isNan (dropsNan v) (fun n => !(dropNames v).contains n)
                  (hdrOf ((byRank (fun x => acqKey v x.name) (accepted v listing)).map (·.line)))
                  ((byRank (fun x => acqKey v x.name) (accepted v listing)).map (·.line)))[i]?).bind
                (fun c => row[c]?))) := by
  have hacc : listing.filter (fun e => e.isFile && !hidden e.name && matchesV v e.name) = accepted v listing := by
    unfold accepted visible
    rw [List.filter_filter]
    apply List.filter_congr
    intro x _
    cases x.isFile <;> cases hidden x.name <;> cases matchesV v x.name <;> rfl
  have hperm := byRank_perm (fun x : Entry α => acqKey v x.name) (accepted v listing) hd
  have hrect : Rect ((byRank (fun e => acqKey v e.name) (accepted v listing)).map (·.line)) := by
    apply rect_of_tables
    · intro l hl
      obtain ⟨a, ha, rfl⟩ := List.mem_map.mp hl
      exact hwf a (hperm.mem_iff.mp ha)
    · intro a ha b hb
      obtain ⟨ea, hea, rfl⟩ := List.mem_map.mp ha
      obtain ⟨eb, heb, rfl⟩ := List.mem_map.mp hb
      exact hhdr ea (hperm.mem_iff.mp hea) eb (hperm.mem_iff.mp heb)
  have hne : (accepted v listing).isEmpty = false := by
    cases h : accepted v listing with
    | nil => rw [h] at he; cases he
    | cons _ _ => rfl
  refine ⟨specImage isNan (dropsNan v) (fun n => !(dropNames v).contains n)
      ((byRank (fun x => acqKey v x.name) (accepted v listing)).map (·.line)),
    rp v (specImage isNan (dropsNan v) (fun _ => true)
      ((byRank (fun x => acqKey v x.name) (accepted v listing)).map (·.line))), ?_, ?_, ?_⟩
  · rw [load_eq_spec_vendor isNan rp v listing π hπ hd hform hwf hhdr]
    unfold specLoad
    simp only [hacc, hne, Bool.false_eq_true, if_false]
    rfl
  · simp [specImage, hperm.length_eq]
  · have hk := byRank_getElem?_rank (fun x : Entry α => acqKey v x.name) (accepted v listing) hd e he
    rw [specImage_cell _ _ _ _ hrect, List.getElem?_map, hk]
    rfl

/-! ## histories of calls: every import is the import of the directory as it is on disk at that call

`World` = the directories by path and the option objects the caller holds; a history is any list of
`Call`s (directories written and rewritten, option objects built, obtained from `option_for_path`,
edited by the caller, imports with and without an explicit option).  Nothing an earlier call did - to
the same path, to another one, with the same option object - is visible in what an import returns. -/

/-- **The directory an import sees is what the last write to its path left there** (or what was
there before the history began). -/
theorem history_dir_is_last_write (isNan : α → Bool) (rp : Vendor → Image α → P) (tkey : List Nat → Int)
    (w : World α) (pre : List (Call α)) (p : Nat) :
    (exec isNan rp tkey w pre).fs p = (lastWrite p pre).getD (w.fs p) :=
  exec_fs isNan rp tkey w pre p

/-- **`load(path, full=True)` at any point of any history** returns exactly what the import of the
directory now at `path`, alone, returns: the vendor is detected from that directory, nothing else of the
world enters. -/
theorem history_auto_import (isNan : α → Bool) (rp : Vendor → Image α → P) (tkey : List Nat → Int)
    (w : World α) (pre post : List (Call α)) (p : Nat) (π : List Nat) :
    (trace isNan rp tkey w (pre ++ .importAuto p π :: post))[pre.length]?
      = some (some (load isNan rp (autodetect ((exec isNan rp tkey w pre).fs p)) tkey
          ((exec isNan rp tkey w pre).fs p) π)) := by
  rw [trace_at]
  simp only [step, optionForPath, loadO_mkOpt]

/-- **An option object survives every call that is not the caller's own edit of it**: imports through
it (`load` assigns to none of its attributes), imports through other objects, directory writes, new
objects. -/
theorem history_held_option_unchanged (isNan : α → Bool) (rp : Vendor → Image α → P) (tkey : List Nat → Int)
    (w : World α) (cs : List (Call α)) (i : Nat) (o : Opt) (hi : w.opts[i]? = some o)
    (hc : ∀ c ∈ cs, ∀ f, c ≠ .editOpt i f) : (exec isNan rp tkey w cs).opts[i]? = some o :=
  exec_opts isNan rp tkey w cs i o hi hc

/-- **`load(path, option=o, full=True)` with an object `o = <Vendor>Option()` built earlier in the
history**, after any calls `mid` that are not edits of `o` (imports of other directories through `o`
included): the import of the directory now at `path`, alone, with a new option of that class. -/
theorem history_explicit_import (isNan : α → Bool) (rp : Vendor → Image α → P) (tkey : List Nat → Int)
    (w : World α) (pre mid post : List (Call α)) (v : Vendor) (p : Nat) (π : List Nat)
    (hmid : ∀ c ∈ mid, ∀ f, c ≠ .editOpt (exec isNan rp tkey w pre).opts.length f) :
    (trace isNan rp tkey w
        (pre ++ .newOpt v :: (mid ++ .importWith (exec isNan rp tkey w pre).opts.length p π :: post)))[pre.length + 1 + mid.length]?
      = some (some (load isNan rp v tkey ((exec isNan rp tkey w (pre ++ .newOpt v :: mid)).fs p) π)) := by
  have hl : (pre ++ .newOpt v :: mid).length = pre.length + 1 + mid.length := by simp; omega
  have happ : pre ++ .newOpt v :: (mid ++ .importWith (exec isNan rp tkey w pre).opts.length p π :: post)
      = (pre ++ .newOpt v :: mid) ++ .importWith (exec isNan rp tkey w pre).opts.length p π :: post := by simp
  rw [happ, ← hl, trace_at]
  have hopt : (exec isNan rp tkey w (pre ++ .newOpt v :: mid)).opts[(exec isNan rp tkey w pre).opts.length]? = some (mkOpt v) := by
    rw [exec_append]
    simp only [exec]
    apply exec_opts _ _ _ _ _ _ _ _ hmid
    simp [step]
  simp only [step, hopt, loadO_mkOpt]

/-- the same with `o = option_for_path(q)` obtained earlier: `o` has the class detected from the
directory that was at `q` THEN; the import is the import of the directory now at `path` alone with a
new option of that class -/
theorem history_detected_import (isNan : α → Bool) (rp : Vendor → Image α → P) (tkey : List Nat → Int)
    (w : World α) (pre mid post : List (Call α)) (q p : Nat) (π : List Nat)
    (hmid : ∀ c ∈ mid, ∀ f, c ≠ .editOpt (exec isNan rp tkey w pre).opts.length f) :
    (trace isNan rp tkey w
        (pre ++ .detect q :: (mid ++ .importWith (exec isNan rp tkey w pre).opts.length p π :: post)))[pre.length + 1 + mid.length]?
      = some (some (load isNan rp (autodetect ((exec isNan rp tkey w pre).fs q)) tkey
          ((exec isNan rp tkey w (pre ++ .detect q :: mid)).fs p) π)) := by
  have hl : (pre ++ .detect q :: mid).length = pre.length + 1 + mid.length := by simp; omega
  have happ : pre ++ .detect q :: (mid ++ .importWith (exec isNan rp tkey w pre).opts.length p π :: post)
      = (pre ++ .detect q :: mid) ++ .importWith (exec isNan rp tkey w pre).opts.length p π :: post := by simp
  rw [happ, ← hl, trace_at]
  have hopt : (exec isNan rp tkey w (pre ++ .detect q :: mid)).opts[(exec isNan rp tkey w pre).opts.length]?
      = some (mkOpt (autodetect ((exec isNan rp tkey w pre).fs q))) := by
    rw [exec_append]
    simp only [exec]
    apply exec_opts _ _ _ _ _ _ _ _ hmid
    simp [step, optionForPath]
  simp only [step, hopt, loadO_mkOpt]

/-- **The property for call `k` of a history, auto-detected option.**  If the directory `d` now at the
path (the last write to it, `history_dir_is_last_write`) has - for the layout `v` detected from it -
accepted names in the vendor's form with pairwise distinct acquisition keys and tables as
`np.genfromtxt` returns them, and every reader task completes, the call returns the pointwise
specification of `d`: whatever was imported, written, built or edited before. -/
theorem history_auto_import_eq_spec (isNan : α → Bool) (rp : Vendor → Image α → P)
    (w : World α) (pre post : List (Call α)) (p : Nat) (π : List Nat) (d : List (Entry α)) (v : Vendor)
    (hdir : (exec isNan rp timegm w pre).fs p = d) (hv : autodetect d = v)
    (hπ : Covers (accepted v d).length π)
    (hd : (accepted v d).Pairwise (fun a b => acqKey v a.name ≠ acqKey v b.name))
    (hform : ∀ e ∈ accepted v d, nameForm v e.name = true)
    (hwf : ∀ e ∈ accepted v d, ∀ row ∈ e.line.rows, row.length = e.line.names.length)
    (hhdr : ∀ a ∈ accepted v d, ∀ b ∈ accepted v d, a.line.names = b.line.names) :
    (trace isNan rp timegm w (pre ++ .importAuto p π :: post))[pre.length]?
      = some (some (specLoad isNan rp v d)) := by
  rw [history_auto_import, hdir, hv, load_eq_spec_vendor isNan rp v d π hπ hd hform hwf hhdr]

/-- **The property for call `k` of a history, explicit option object** built earlier (`<Vendor>Option()`)
and not edited by the caller since, whatever else was done with it. -/
theorem history_explicit_import_eq_spec (isNan : α → Bool) (rp : Vendor → Image α → P)
    (w : World α) (pre mid post : List (Call α)) (v : Vendor) (p : Nat) (π : List Nat) (d : List (Entry α))
    (hmid : ∀ c ∈ mid, ∀ f, c ≠ .editOpt (exec isNan rp timegm w pre).opts.length f)
    (hdir : (exec isNan rp timegm w (pre ++ .newOpt v :: mid)).fs p = d)
    (hπ : Covers (accepted v d).length π)
    (hd : (accepted v d).Pairwise (fun a b => acqKey v a.name ≠ acqKey v b.name))
    (hform : ∀ e ∈ accepted v d, nameForm v e.name = true)
    (hwf : ∀ e ∈ accepted v d, ∀ row ∈ e.line.rows, row.length = e.line.names.length)
    (hhdr : ∀ a ∈ accepted v d, ∀ b ∈ accepted v d, a.line.names = b.line.names) :
    (trace isNan rp timegm w
        (pre ++ .newOpt v :: (mid ++ .importWith (exec isNan rp timegm w pre).opts.length p π :: post)))[pre.length + 1 + mid.length]?
      = some (some (specLoad isNan rp v d)) := by
  rw [history_explicit_import isNan rp timegm w pre mid post v p π hmid, hdir,
    load_eq_spec_vendor isNan rp v d π hπ hd hform hwf hhdr]

/-! ## non-vacuity -/

section examples

def exLine (xs : List Int) : Line Int := { names := ["Cycle_time_(ms)", "A"], rows := xs.map (fun x => [0, x]) }

def exDir : List (Entry Int) :=
  [ { name := "line_10.csv", isFile := true, line := exLine [10, 11, 12] },
    { name := ".line_3.csv", isFile := true, line := exLine [0] },
    { name := "line_9.csv", isFile := true, line := exLine [90, 91] },
    { name := "notes.txt", isFile := true, line := exLine [] },
    { name := "line_100.CSV", isFile := true, line := exLine [100, 101, 102, 103] },
    { name := "line_7.csv", isFile := false, line := exLine [] } ]

/-- the hypotheses of `load_eq_spec` / `load_row_k` hold on a 9/10/100 directory with distractors,
and the import puts line 9 first -/
example : (accepted .nu exDir).Pairwise (fun a b => acqKey .nu a.name ≠ acqKey .nu b.name) := by decide
example : ∀ a ∈ accepted .nu exDir, ∀ b ∈ accepted .nu exDir,
    keyLe (sortKey .nu timegm a.name) (sortKey .nu timegm b.name) = keyLe (acqKey .nu a.name) (acqKey .nu b.name) := by
  decide
example : (specLoad (fun _ => false) (fun _ _ => ()) .nu exDir).map (·.1.lines)
    = some [[[90], [91]], [[10], [11]], [[100], [101]]] := by decide +kernel

/-- a strictly monotone conversion exists: the stamp-to-seconds conversion on two stamps around the
Berlin spring transition -/
example : keyLt (acqKey .tofwerk "IMG_2021.03.28-02h30m00s_AS.csv") (acqKey .tofwerk "IMG_2021.03.28-03h10m00s_AS.csv") = true
    ∧ timegm (stampFields "IMG_2021.03.28-02h30m00s_AS.csv".toList) < timegm (stampFields "IMG_2021.03.28-03h10m00s_AS.csv".toList) := by
  decide

example : autodetect exDir = .nu := by decide

/-- the digit arithmetic of the Nu key: a digit prefix `1`, indices 9 and 10 -/
example : digitsNat ("1".toList ++ "9".toList) = 19 ∧ digitsNat ("1".toList ++ "10".toList) = 110
    ∧ (∀ x ∈ "9".toList, isDigit x = true) ∧ 1 ≤ digitVal '1' := by decide

/-- names as the generator writes them have the Nu name form: any padding, any letter case -/
example : nuFull "line_007.csv".toList = true ∧ nuFull "LINE_10.CSV".toList = true
    ∧ nuFull "LiNe_0100.cSv".toList = true ∧ nuFull "line_9.csv".toList = true
    ∧ nuFull "line_10.csv.bak".toList = false ∧ nuFull "line_10.csv_2.csv".toList = false := by decide
example : ∀ e ∈ accepted .nu exDir, nuFull e.name.toList = true := by decide
example : ∀ e ∈ accepted .nu exDir, ∀ row ∈ e.line.rows, row.length = e.line.names.length := by decide
example : ∀ a ∈ accepted .nu exDir, ∀ b ∈ accepted .nu exDir, a.line.names = b.line.names := by decide
/-- mixed padding: index 7 written `007` sorts before index 10 -/
example : keyLe (sortKey .nu timegm "line_007.csv") (sortKey .nu timegm "line_10.csv") = true
    ∧ keyLe (sortKey .nu timegm "line_10.csv") (sortKey .nu timegm "line_007.csv") = false := by decide

/-- an LDR directory with the lines of two samples, mixed padding, digits in the sample name and one
sample written in two letter cases (the directory that 0a523e4 repaired: `s1_ldr_10` came before
`s1_ldr_009`) -/
def exLdr : List (Entry Int) :=
  [ { name := "s1_ldr_10.csv", isFile := true, line := exLine [10, 11] },
    { name := "b_ldr_2.csv", isFile := true, line := exLine [2, 3] },
    { name := "S1_LDR_011.CSV", isFile := true, line := exLine [110, 111] },
    { name := "s1_ldr_009.csv", isFile := true, line := exLine [90, 91, 92] },
    { name := "s_ldr_x.csv", isFile := true, line := exLine [] } ]

example : (accepted .ldr exLdr).Pairwise (fun a b => acqKey .ldr a.name ≠ acqKey .ldr b.name) := by decide
example : ∀ e ∈ accepted .ldr exLdr, ∀ row ∈ e.line.rows, row.length = e.line.names.length := by decide
example : ∀ a ∈ accepted .ldr exLdr, ∀ b ∈ accepted .ldr exLdr, a.line.names = b.line.names := by decide
example : ldrParts "s1_ldr_009.csv".toList = some ("s1".toList, "009".toList)
    ∧ ldrParts "S1_LDR_011.CSV".toList = some ("S1".toList, "011".toList)
    ∧ ldrParts "a_ldr_1_ldr_10.csv".toList = some ("a_ldr_1".toList, "10".toList) := by decide
/-- grouped by sample (`b` < `s1`), then index 9, 10, 11 -/
example : (byRank (fun e => acqKey .ldr e.name) (accepted .ldr exLdr)).map (·.name)
    = ["b_ldr_2.csv", "s1_ldr_009.csv", "s1_ldr_10.csv", "S1_LDR_011.CSV"] := by decide +kernel
/-- the code's key: index 9 written `009` before index 10, `S1` is the sample `s1`, sample `b` first -/
example : keyLe (sortKey .ldr timegm "s1_ldr_009.csv") (sortKey .ldr timegm "s1_ldr_10.csv") = true
    ∧ keyLe (sortKey .ldr timegm "s1_ldr_10.csv") (sortKey .ldr timegm "s1_ldr_009.csv") = false
    ∧ keyLe (sortKey .ldr timegm "s1_ldr_10.csv") (sortKey .ldr timegm "S1_LDR_011.CSV") = true
    ∧ keyLe (sortKey .ldr timegm "S1_LDR_011.CSV") (sortKey .ldr timegm "b_ldr_2.csv") = false := by decide

/-- TOFWERK directory around the Berlin spring transition, one-digit month in one stamp -/
def exTof : List (Entry Int) :=
  [ { name := "IMG_2021.03.28-03h10m00s_AS.csv", isFile := true, line := exLine [1, 2] },
    { name := "IMG_2021.03.28-02h30m00s_AS.csv", isFile := true, line := exLine [3, 4] },
    { name := "IMG_2021.3.27-23h59m59s_AS.csv", isFile := true, line := exLine [5, 6] } ]
example : ∀ e ∈ accepted .tofwerk exTof, validStampB (stampFields e.name.toList) = true := by decide
example : (accepted .tofwerk exTof).Pairwise (fun a b => acqKey .tofwerk a.name ≠ acqKey .tofwerk b.name) := by decide
example : stampFields "IMG_2021.3.27-23h59m59s_AS.csv".toList = [2021, 3, 27, 23, 59, 59] := by decide
/-- the three example directories meet the name-form hypothesis of `load_eq_spec_vendor` / `load_cell_vendor` -/
example : (∀ e ∈ accepted .nu exDir, nameForm .nu e.name = true) ∧ (∀ e ∈ accepted .ldr exLdr, nameForm .ldr e.name = true)
    ∧ (∀ e ∈ accepted .tofwerk exTof, nameForm .tofwerk e.name = true) := by decide
/-- `S1_LDR_011.CSV` has three accepted files of smaller acquisition key in `exLdr` (b 2, s1 9, s1 10) -/
example : rank (fun x => acqKey .ldr x.name) (accepted .ldr exLdr)
    { name := "S1_LDR_011.CSV", isFile := true, line := exLine [110, 111] } = 3 := by decide
/-- stamps `time.strptime` rejects / a leap second it accepts -/
example : strptimeOk (stampFields "IMG_2021.02.30-10h10m10s.csv".toList) = false
    ∧ strptimeOk (stampFields "IMG_2021.01.01-24h00m00s.csv".toList) = false
    ∧ strptimeOk (stampFields "IMG_2021.06.30-23h59m60s.csv".toList) = true
    ∧ validStampB (stampFields "IMG_2021.06.30-23h59m60s.csv".toList) = false := by decide

/-- the pointwise specification on an LDR-like stack (`none` = NaN): lines of 4 and 3 samples, the
first sample position NaN everywhere (dwell-time row), field `B` NaN everywhere, helper column `Time` -/
def exNan : List (Line (Option Int)) :=
  [ { names := ["Time", "A", "B"], rows := [[none, none, none], [some 1, some 10, none], [some 2, none, none], [some 3, some 30, none]] },
    { names := ["Time", "A", "B"], rows := [[none, none, none], [some 1, some 11, none], [some 2, some 21, none]] } ]
example : Rect exNan := by
  intro l hl row hrow
  revert row; revert l; decide
example : cutLen exNan = 3 ∧ specPos (fun (x : Option Int) => x.isNone) true exNan = [1, 2]
    ∧ specCols (fun (x : Option Int) => x.isNone) true (fun n => !(dropNames .ldr).contains n) (hdrOf exNan) exNan = [1]
    ∧ specCols (fun (x : Option Int) => x.isNone) true (fun _ => true) (hdrOf exNan) exNan = [0, 1] := by decide
example : specImage (fun (x : Option Int) => x.isNone) true (fun n => !(dropNames .ldr).contains n) exNan
    = { names := ["A"], lines := [[[some 10], [none]], [[some 11], [some 21]]] } := by decide
example : (post (fun (x : Option Int) => x.isNone) (fun _ img => img.names) .ldr (stack exNan))
    = ({ names := ["A"], lines := [[[some 10], [none]], [[some 11], [some 21]]] }, ["Time", "A"]) := by decide

example : validStampB (stampFields "IMG_2021.03.28-02h30m00s_AS.csv".toList) = true := by decide
example : validStampB [2020, 2, 29, 23, 59, 59] = true ∧ validStampB [2021, 2, 29, 0, 0, 0] = false := by decide

/-- a history: an LDR directory imported through a held option object, the SAME path rewritten as a Nu
directory and imported without an option, the caller edits the held object, the path is imported again,
and once more through a new object: every import returns the specification of the directory then on disk -/
def exWorld : World Int := { fs := fun _ => [], opts := [] }

def exHist : List (Call Int) :=
  [ .write 0 exLdr, .newOpt .ldr, .importWith 0 0 [3, 2, 1, 0], .write 0 exDir, .importAuto 0 [0, 1, 2],
    .editOpt 0 (fun o => { o with dropNames := ["A"], dropNanCols := false }), .importAuto 0 [2, 1, 0],
    .newOpt .nu, .importWith 1 0 [1, 0, 2] ]

/-- call 2 (explicit object built by call 1, directory written by call 0) and call 4 (no option, the path
rewritten by call 3): all hypotheses of the two history theorems hold -/
example : (trace (fun _ => false) (fun (_ : Vendor) (_ : Image Int) => ()) timegm exWorld exHist)[2]?
    = some (some (specLoad (fun _ => false) (fun _ _ => ()) .ldr exLdr)) :=
  history_explicit_import_eq_spec (fun _ => false) (fun _ _ => ()) exWorld [.write 0 exLdr] [] (exHist.drop 3) .ldr 0
    [3, 2, 1, 0] exLdr (by intro c hc; cases hc) rfl
    (by intro i hi; have h4 : (accepted .ldr exLdr).length = 4 := by decide
        rw [h4] at hi
        have : i = 0 ∨ i = 1 ∨ i = 2 ∨ i = 3 := by omega
        rcases this with h | h | h | h <;> subst h <;> simp)
    (by decide) (by intro e _; rfl) (by decide) (by decide)

example : (trace (fun _ => false) (fun (_ : Vendor) (_ : Image Int) => ()) timegm exWorld exHist)[4]?
    = some (some (specLoad (fun _ => false) (fun _ _ => ()) .nu exDir)) :=
  history_auto_import_eq_spec (fun _ => false) (fun _ _ => ()) exWorld (exHist.take 4) (exHist.drop 5) 0
    [0, 1, 2] exDir .nu rfl (by decide)
    (by intro i hi; have h3 : (accepted .nu exDir).length = 3 := by decide
        rw [h3] at hi
        have : i = 0 ∨ i = 1 ∨ i = 2 := by omega
        rcases this with h | h | h <;> subst h <;> simp)
    (by decide) (by decide) (by decide) (by decide)

example : (exec (fun _ => false) (fun (_ : Vendor) (_ : Image Int) => ()) timegm exWorld (exHist.take 4)).fs 0 = exDir
    ∧ lastWrite 0 (exHist.take 4) = some exDir ∧ lastWrite 0 (exHist.take 3) = some exLdr
    ∧ lastWrite 1 exHist = none := by decide

/-- the hypothesis `hmid` of `history_explicit_import`: between `.newOpt .ldr` and its use no call edits object 0 -/
example : ∀ c ∈ ([] : List (Call Int)), ∀ f, c ≠ .editOpt 0 f := by intro c hc; cases hc

end examples

end Pew.CsvDir
