import PewProofs.ThermoCols

/-! # C03 — property theorems (statements only depend on `PewModel.Thermo` and the hypothesis
structures `RowsOK` / `ColsOK` of `PewProofs`) -/
namespace Pew.Thermo

variable {α : Type}

/-- **Samples in rows.** For every acquisition (n ≥ 1 samples, m ≥ 1 scans, k ≥ 1 distinct labels,
any exported channels including the requested one) the rows reader returns, for every element in
order of first appearance, pixel [sample, scan] = the exported value of the requested channel. -/
theorem readRows_render (x : Ext α) (sh : Nat → String) (comma : Bool) (a : Acq) (ci : Nat)
    (h : RowsOK x sh a ci) :
    readRows x comma (a.chan ci) (renderRows sh a) = some (specImg x comma a ci) :=
  readRows_render_aux x sh comma a ci h

/-- **Samples in columns.** The same for the columns reader (m ≥ 2 scans). -/
theorem readCols_render (x : Ext α) (sh : Nat → String) (comma : Bool) (a : Acq) (ci : Nat)
    (h : ColsOK x sh comma a ci) :
    readCols x comma (a.chan ci) (renderCols sh a) = some (specImg x comma a ci) :=
  readCols_render_aux x sh comma a ci h

/-- **The two layouts of one acquisition import to identical arrays.** -/
theorem rows_eq_cols (x : Ext α) (sh : Nat → String) (comma : Bool) (a : Acq) (ci : Nat)
    (hr : RowsOK x sh a ci) (hc : ColsOK x sh comma a ci) :
    readRows x comma (a.chan ci) (renderRows sh a) = readCols x comma (a.chan ci) (renderCols sh a) := by
  rw [readRows_render x sh comma a ci hr, readCols_render x sh comma a ci hc]

/-- **Channel selection never crosses wires**: with both channels exported, asking for one returns
that channel's values in both layouts (`specImg … ia` and `specImg … ic` are built from different
tokens of the acquisition). -/
theorem analog_vs_counter (x : Ext α) (sh : Nat → String) (comma : Bool) (a : Acq) (ia ic : Nat)
    (hra : RowsOK x sh a ia) (hca : ColsOK x sh comma a ia) (hrc : RowsOK x sh a ic) (hcc : ColsOK x sh comma a ic) :
    readRows x comma (a.chan ia) (renderRows sh a) = some (specImg x comma a ia) ∧
    readCols x comma (a.chan ia) (renderCols sh a) = some (specImg x comma a ia) ∧
    readRows x comma (a.chan ic) (renderRows sh a) = some (specImg x comma a ic) ∧
    readCols x comma (a.chan ic) (renderCols sh a) = some (specImg x comma a ic) :=
  ⟨readRows_render x sh comma a ia hra, readCols_render x sh comma a ia hca,
   readRows_render x sh comma a ic hrc, readCols_render x sh comma a ic hcc⟩

/-! ## sniffing -/

theorem hasSub_mainruns_self : hasSub "MainRuns" "MainRuns" = true := by decide
theorem hasSub_mainruns_empty : hasSub "MainRuns" "" = false := by decide
theorem hasSub_mainruns_ident : hasSub "MainRuns" "<Identifier>" = false := by decide

/-- the rows layout is recognised (at least one exported cell) -/
theorem sniff_renderRows (sh : Nat → String) (a : Acq)
    (hm : 0 < a.nscans) (hk : 0 < a.elements.length) (hc : 0 < a.channels.length) :
    sniff (renderRows sh a) = .rows := by
  unfold sniff renderRows
  have : lineHas "MainRuns" ("" :: "" :: (enumRows a.nscans a.elements.length a.channels.length).map (fun _ => "MainRuns") ++ [""]) = true := by
    simp only [lineHas, List.cons_append, List.any_cons, List.any_append, List.any_map, Bool.or_eq_true]
    right; right; left
    rw [List.any_eq_true]
    exact ⟨(0, 0, 0), mem_enumRows.mpr ⟨hm, hk, hc⟩, hasSub_mainruns_self⟩
  simp only [List.cons_append, List.nil_append, List.getD_cons_zero] at this ⊢
  rw [if_pos this]

/-- the columns layout is recognised when no sample name contains "MainRuns" -/
theorem sniff_renderCols (sh : Nat → String) (a : Acq)
    (hm : 0 < a.nscans) (hk : 0 < a.elements.length) (hc : 0 < a.channels.length)
    (hs : ∀ s ∈ a.samples, hasSub "MainRuns" s = false) :
    sniff (renderCols sh a) = .columns := by
  unfold sniff renderCols
  have h0 : lineHas "MainRuns" (["", "", "", ""] ++ a.samples ++ [""]) = false := by
    simp only [lineHas, List.cons_append, List.nil_append, List.any_cons, List.any_append, List.any_nil,
      hasSub_mainruns_empty, Bool.false_or, Bool.or_false]
    rw [List.any_eq_false]
    intro s hs'
    simp [hs s hs']
  obtain ⟨y, t, hy⟩ : ∃ y t, enumCols a.nscans a.elements.length a.channels.length = y :: t := by
    have : (0, 0, 0) ∈ enumCols a.nscans a.elements.length a.channels.length := mem_enumCols.mpr ⟨hm, hk, hc⟩
    cases he : enumCols a.nscans a.elements.length a.channels.length with
    | nil => rw [he] at this; simp at this
    | cons y t => exact ⟨y, t, rfl⟩
  rw [hy]
  simp only [List.getD_cons_zero, h0, Bool.false_eq_true, if_false, List.map_cons, List.getD_cons_succ]
  have h2 : lineHas "MainRuns" (colLine sh a y) = true := by
    simp only [colLine, lineHas, List.cons_append, List.any_cons, hasSub_mainruns_self, Bool.true_or]
  rw [if_pos h2]

/-- anything whose first and third line do not contain "MainRuns" is `unknown` … -/
theorem sniff_unknown (t : Table)
    (h0 : lineHas "MainRuns" (t.getD 0 []) = false) (h2 : lineHas "MainRuns" (t.getD 2 []) = false) :
    sniff t = .unknown := by
  unfold sniff
  rw [if_neg (by rw [h0]; simp), if_neg (by rw [h2]; simp)]

/-- … in particular every file shorter than three lines whose first line does not -/
theorem sniff_short (t : Table) (hlen : t.length < 3) (h0 : lineHas "MainRuns" (t.getD 0 []) = false) :
    sniff t = .unknown := by
  apply sniff_unknown t h0
  have : t.getD 2 [] = [] := by
    simp [List.getD, List.getElem?_eq_none (show t.length ≤ 2 by omega)]
  rw [this]; rfl

/-! ## non-vacuity: a 2-sample, 2-scan, 2-element acquisition with all five channels -/

section examples

def dig (n : Nat) : Char := Char.ofNat (48 + n)

def exAcq : Acq :=
  { samples := ["Sample 1", "2"], nscans := 2, elements := ["31P", "56Fe | 56Fe.16O"],
    channels := ["X [u]", "Y", "Time", "Analog", "Counter"],
    value := fun i s e c => String.ofList [dig i, '.', dig s, dig e, dig c] }

def exShow (s : Nat) : String := String.ofList [dig s]

def exExt : Ext String :=
  { parse := fun s => s, readNat := fun t => if t = "0" then some 0 else if t = "1" then some 1 else none }

/-- the hypotheses of `readRows_render` and `readCols_render` hold for the Counter (4) and the
Analog (3) channel of the example, so all theorems above apply to it -/
example : RowsOK exExt exShow exAcq 4 :=
  { nsamples := by decide, nscans := by decide, nelements := by decide, distinct := by decide,
    labels := by decide, chanIdx := by decide, chans := by decide, scans := by decide }

example : RowsOK exExt exShow exAcq 3 :=
  { nsamples := by decide, nscans := by decide, nelements := by decide, distinct := by decide,
    labels := by decide, chanIdx := by decide, chans := by decide, scans := by decide }

example : ColsOK exExt exShow false exAcq 4 :=
  { nsamples := by decide, sampleNames := by decide, nscans := by decide, nelements := by decide, distinct := by decide,
    labels := by decide, chanIdx := by decide, chanSelf := by decide, chanMain := by decide, chanEmpty := by decide,
    chanScan := by decide, chanLabel := by decide, chanValue := by decide, scans := by decide }

example : ColsOK exExt exShow true exAcq 3 :=
  { nsamples := by decide, sampleNames := by decide, nscans := by decide, nelements := by decide, distinct := by decide,
    labels := by decide, chanIdx := by decide, chanSelf := by decide, chanMain := by decide, chanEmpty := by decide,
    chanScan := by decide, chanLabel := by decide, chanValue := by decide, scans := by decide }

/-- and the two channels really are different data -/
example : specImg exExt false exAcq 4 ≠ specImg exExt false exAcq 3 := by decide

end examples

end Pew.Thermo
