import PewProofs.ThermoDecode

/-! # C03 — property theorems (statements only depend on `PewModel.Thermo` and the hypothesis
structures `RowsOK` / `ColsOK` of `PewProofs`) -/
namespace Pew.Thermo

variable {α : Type}

/-- **Samples in rows.** For every acquisition with n ≥ 0 samples (no sample row at all gives the
image without samples), m ≥ 1 scans, k ≥ 1 distinct labels of at most 32 characters and any exported
channels, the requested one (`ci`) among them and recognisable in the 7-character channel row, the rows
reader returns for every element, in order of first appearance, pixel [sample, scan] = the exported
value of the requested channel.
Sample names, labels and values are arbitrary strings: a `#` in any of them is data (`comments=None`).
(`hscans`: `int(str(s)[:16]) = s`, the external conversion of scan numbers.) -/
theorem readRows_render (x : Ext α) (sh : Nat → String) (comma : Bool) (a : Acq) (ci : Nat)
    (hm : 0 < a.nscans) (hk : 0 < a.elements.length)
    (hdistinct : a.elements.Nodup) (hlabels : ∀ e ∈ a.elements, trunc 32 e = e)
    (hci : ci < a.channels.length)
    (hchans : ∀ c, c < a.channels.length → (trunc 7 (a.chan c) == a.chan ci) = (c == ci))
    (hscans : ∀ s, s < a.nscans → x.readInt (trunc 16 (sh s)) = some (s : Int)) :
    readRows x comma (a.chan ci) (renderRows sh a) = some (specImg x comma a ci) :=
  readRows_render_aux x sh comma a ci ⟨hm, hk, hdistinct, hlabels, hci, hchans, hscans⟩

/-- **Samples in columns.** The same for the columns reader, for n ≥ 1 samples with non-empty names,
at least two lines of the requested channel (`2 ≤ k · m`: two scans as in the property's quantifier, or
two elements), labels that the decimal-comma replacement leaves alone, and a requested channel whose
name occurs as a substring of a `MainRuns` line only in that line's channel field.  A `#` in a sample
name, a label or a value is data. -/
theorem readCols_render (x : Ext α) (sh : Nat → String) (comma : Bool) (a : Acq) (ci : Nat)
    (hn : 0 < a.samples.length) (hsamples : ∀ s ∈ a.samples, s ≠ "") (hm : 0 < a.nscans)
    (hk : 0 < a.elements.length) (hlines : 2 ≤ a.elements.length * a.nscans) (hdistinct : a.elements.Nodup)
    (hlabels : ∀ e ∈ a.elements, trunc 32 (fixDec comma e) = e)
    (hci : ci < a.channels.length)
    (hself : ∀ c, c < a.channels.length → hasSub (a.chan ci) (a.chan c) = (c == ci))
    (hmain : hasSub (a.chan ci) "MainRuns" = false) (heol : hasSub (a.chan ci) "\n" = false)
    (hscan : ∀ s, s < a.nscans → hasSub (a.chan ci) (sh s) = false)
    (hlabel : ∀ e ∈ a.elements, hasSub (a.chan ci) e = false)
    (hvalue : ∀ i, i < a.samples.length → ∀ s, s < a.nscans → ∀ e, e < a.elements.length → ∀ c, c < a.channels.length →
      hasSub (a.chan ci) (a.value i s e c) = false)
    (hscans : ∀ s, s < a.nscans → x.readInt (fixDec comma (sh s)) = some (s : Int)) :
    readCols x comma (a.chan ci) (renderCols sh a) = some (specImg x comma a ci) :=
  readCols_render_aux x sh comma a ci
    ⟨hn, hsamples, hm, hk, hlines, hdistinct, hlabels, hci, hself, hmain, heol, hscan, hlabel, hvalue, hscans⟩

/-- **The boundary of the columns reader**: an export with a single line of the requested channel
(one scan of one element — below the 2 scans of the property's quantifier) is not imported, whatever
its values: `np.genfromtxt` returns a 0-d record and the reader raises `IndexError`. -/
theorem readCols_single_line (x : Ext α) (comma : Bool) (chan : String) (first hdr line : Row)
    (hsel : (lineStarts line && lineHas chan line) = true) (hhdr : lineStarts hdr = false)
    (hline : (gfSplit (line.map (fixDec comma))).isEmpty = false) :
    readCols x comma chan [first, hdr, line] = none := by
  unfold readCols readColsWith
  simp only [List.filter_cons, hhdr, Bool.false_and, Bool.false_eq_true, if_false, hsel, if_true, List.filter_nil]
  simp only [gfLinesWith, List.map_cons, List.map_nil, List.filter_cons, hline, Bool.not_false, if_true, List.filter_nil,
    List.length_cons, List.length_nil, Nat.zero_add, BEq.rfl]
  split <;> rfl

/-- **The two layouts of one acquisition import to identical arrays** (`RowsOK` / `ColsOK` bundle
exactly the hypotheses of the two theorems above). -/
theorem rows_eq_cols (x : Ext α) (sh : Nat → String) (comma : Bool) (a : Acq) (ci : Nat)
    (hr : RowsOK x sh a ci) (hc : ColsOK x sh comma a ci) :
    readRows x comma (a.chan ci) (renderRows sh a) = readCols x comma (a.chan ci) (renderCols sh a) := by
  rw [readRows_render_aux x sh comma a ci hr, readCols_render_aux x sh comma a ci hc]

/-- pixel [sample `i`, scan `s`] of element `e` of the specification image is the exported token of
channel `c`, converted -/
theorem specImg_pixel (x : Ext α) (comma : Bool) (a : Acq) (c e i s : Nat)
    (he : e < a.elements.length) (hi : i < a.samples.length) (hs : s < a.nscans) :
    (specImg x comma a c).pixel e i s = some (specPixel x comma a c e i s) := by
  simp [specImg, Img.pixel, specPixel, he, hi, hs]

/-- **Channel selection never crosses wires.** With both channels exported, asking for `Analog`
(`use_analog`) returns, in both layouts, one image whose every pixel is the value exported in the
**Analog** channel, and asking for `Counter` one image whose every pixel is the value exported in the
**Counter** channel; wherever the two exported values convert to different numbers the two images
differ at that pixel. -/
theorem analog_vs_counter (x : Ext α) (sh : Nat → String) (comma : Bool) (a : Acq) (ia ic : Nat)
    (hA : a.chan ia = "Analog") (hC : a.chan ic = "Counter")
    (hra : RowsOK x sh a ia) (hca : ColsOK x sh comma a ia) (hrc : RowsOK x sh a ic) (hcc : ColsOK x sh comma a ic) :
    ∃ imgA imgC : Img α,
      readRows x comma "Analog" (renderRows sh a) = some imgA ∧ readCols x comma "Analog" (renderCols sh a) = some imgA ∧
      readRows x comma "Counter" (renderRows sh a) = some imgC ∧ readCols x comma "Counter" (renderCols sh a) = some imgC ∧
      (∀ e i s, e < a.elements.length → i < a.samples.length → s < a.nscans →
        imgA.pixel e i s = some (x.parse (fixDec comma (a.value i s e ia))) ∧
        imgC.pixel e i s = some (x.parse (fixDec comma (a.value i s e ic)))) ∧
      (∀ e i s, e < a.elements.length → i < a.samples.length → s < a.nscans →
        x.parse (fixDec comma (a.value i s e ia)) ≠ x.parse (fixDec comma (a.value i s e ic)) →
        imgA.pixel e i s ≠ imgC.pixel e i s) := by
  refine ⟨specImg x comma a ia, specImg x comma a ic, ?_, ?_, ?_, ?_, ?_, ?_⟩
  · rw [← hA]; exact readRows_render_aux x sh comma a ia hra
  · rw [← hA]; exact readCols_render_aux x sh comma a ia hca
  · rw [← hC]; exact readRows_render_aux x sh comma a ic hrc
  · rw [← hC]; exact readCols_render_aux x sh comma a ic hcc
  · intro e i s he hi hs
    exact ⟨specImg_pixel x comma a ia e i s he hi hs, specImg_pixel x comma a ic e i s he hi hs⟩
  · intro e i s he hi hs hne hEq
    rw [specImg_pixel x comma a ia e i s he hi hs, specImg_pixel x comma a ic e i s he hi hs] at hEq
    exact hne (Option.some.inj hEq)

/-- **The image of a channel is built from that channel's exported values alone**: two acquisitions
with the same samples, scans, elements and channel names whose values agree in channel `ci` import to
the same image in both layouts, whatever the other channels hold. -/
theorem channel_values_only (x : Ext α) (sh : Nat → String) (comma : Bool) (a a' : Acq) (ci : Nat)
    (hs : a'.samples = a.samples) (hm : a'.nscans = a.nscans) (he : a'.elements = a.elements) (hc : a'.channels = a.channels)
    (hval : ∀ i s e, a'.value i s e ci = a.value i s e ci)
    (hr : RowsOK x sh a ci) (hr' : RowsOK x sh a' ci) (hco : ColsOK x sh comma a ci) (hco' : ColsOK x sh comma a' ci) :
    readRows x comma (a.chan ci) (renderRows sh a') = readRows x comma (a.chan ci) (renderRows sh a) ∧
    readCols x comma (a.chan ci) (renderCols sh a') = readCols x comma (a.chan ci) (renderCols sh a) := by
  have hchan : a'.chan ci = a.chan ci := by unfold Acq.chan; rw [hc]
  have hspec : specImg x comma a' ci = specImg x comma a ci := by
    unfold specImg
    rw [he, hs, hm]
    simp only [hval]
  rw [← hchan, readRows_render_aux x sh comma a' ci hr', readCols_render_aux x sh comma a' ci hco', hchan,
    readRows_render_aux x sh comma a ci hr, readCols_render_aux x sh comma a ci hco, hspec]
  exact ⟨rfl, rfl⟩

/-- **Scan time**: both `*_read_params` return the times of the first element and the mean
interval of the exported Time channel over all samples and scans, rounded to 4 decimals. -/
theorem scantime_render (x : Ext V) (sh : Nat → String) (comma : Bool) (a : Acq) (ct : Nat)
    (htime : a.chan ct = "Time") (hr : RowsOK x sh a ct) (hc : ColsOK x sh comma a ct) :
    readParams x true comma (renderRows sh a) = some (specParams x comma a ct) ∧
    readParams x false comma (renderCols sh a) = some (specParams x comma a ct) :=
  ⟨params_renderRows_aux x sh comma a ct htime hr, params_renderCols_aux x sh comma a ct htime hc⟩

/-! ## lines that `np.genfromtxt` skips -/

theorem gfSplit_blank (comma : Bool) : gfSplit [fixDec comma "\n"] = [] := by
  cases comma <;> decide

/-- **A trailing blank line changes nothing** in the rows layout: for every table with its four
header rows, appending an empty line gives the same result (image or exception). -/
theorem readRows_trailing_blank (x : Ext α) (comma : Bool) (chan : String) (t : Table) (h4 : 4 ≤ t.length) :
    readRows x comma chan (t ++ [["\n"]]) = readRows x comma chan t := by
  have hget : ∀ i, i < 4 → (t ++ [["\n"]]).getD i [""] = t.getD i [""] := by
    intro i hi
    simp only [List.getD, List.getElem?_append_left (show i < t.length by omega)]
  have hbody : gfLinesWith gfSplit comma ((t ++ [["\n"]]).drop 4) = gfLinesWith gfSplit comma (t.drop 4) := by
    rw [List.drop_append_of_le_length h4]
    simp only [gfLinesWith, List.map_append, List.map_cons, List.map_nil, List.filter_append, gfSplit_blank, List.filter_cons,
      List.isEmpty_nil, Bool.not_true, Bool.false_eq_true, if_false, List.filter_nil, List.append_nil]
  unfold readRows readRowsWith
  simp only [hget 0 (by omega), hget 1 (by omega), hget 2 (by omega), hget 3 (by omega)]
  split
  · rfl
  · unfold readRowsHWith
    simp only [hbody]

/-! ## the comment handling that e68affa removed

Before e68affa the three `np.genfromtxt` calls ran with NumPy's default `comments="#"`
(`readColsOld` / `readRowsOld`: the same readers with the line splitter `gfSplitOld`, which cuts a line
at the first `#`).  The theorems above hold for the readers as they are now, with arbitrary sample names
and labels; the three concrete statements below record what the old mechanism did with a `#`
(evaluated by `decide +kernel`: the kernel computes the readers, no axiom is added — they are facts about one input each, not general claims), and
`readColsOld_eq` / `readRowsOld_eq` say that on files without a `#` the fix changed nothing. -/

def dig (n : Nat) : Char := Char.ofNat (48 + n)

/-- external conversions of the concrete inputs: values stay text, `int` knows the scans 0 and 1 -/
def regExt : Ext String :=
  { parse := fun s => s, readInt := fun t => if t = "0" then some 0 else if t = "1" then some 1 else none }

/-- two samples `S#1`, `S2`, two scans, one element; sample `i`, scan `s` holds `1 + i + 2 s` -/
def hashAcq : Acq :=
  { samples := ["S#1", "S2"], nscans := 2, elements := ["31P"], channels := ["Counter"],
    value := fun i s _ _ => String.ofList [dig (1 + i + 2 * s)] }

/-- the same acquisition with a `#` in the label instead -/
def hashLabelAcq : Acq := { hashAcq with samples := ["S1", "S2"], elements := ["44Ca#"] }

def regShow (s : Nat) : String := String.ofList [dig s]

/-- **Regression (old mechanism, columns layout).** The two-sample export whose first sample is named
`S#1`: with the comment cut the sample count is taken from the text before the `#`, sample `S2` is
dropped **without an error** (an image of one sample: `[[1, 3]]`); the reader as it is now returns both
samples, which is the specification. -/
theorem readCols_old_drops_samples :
    renderCols regShow hashAcq =
      [["", "", "", "", "S#1", "S2", "\n"], ["", "", "", "", "<Identifier>", "<Identifier>", "\n"],
       ["MainRuns", "0", "31P", "Counter", "1", "2", "\n"], ["MainRuns", "1", "31P", "Counter", "3", "4", "\n"]] ∧
    readColsOld regExt false "Counter" (renderCols regShow hashAcq) = some { names := ["31P"], planes := [[["1", "3"]]] } ∧
    readCols regExt false "Counter" (renderCols regShow hashAcq) = some { names := ["31P"], planes := [[["1", "3"], ["2", "4"]]] } ∧
    specImg regExt false hashAcq 0 = { names := ["31P"], planes := [[["1", "3"], ["2", "4"]]] } := by
  decide +kernel

/-- **Regression (old mechanism, rows layout).** The same acquisition in the rows layout: the comment
cut leaves one field of the row `S#1,<Identifier>,1,3,` and the old reader raises; the reader as it is
now imports the specification image. -/
theorem readRows_old_raises :
    (renderRows regShow hashAcq).drop 4 = [["S#1", "<Identifier>", "1", "3", "\n"], ["S2", "<Identifier>", "2", "4", "\n"]] ∧
    readRowsOld regExt false "Counter" (renderRows regShow hashAcq) = none ∧
    readRows regExt false "Counter" (renderRows regShow hashAcq) = some (specImg regExt false hashAcq 0) := by
  decide +kernel

/-- **Regression (old mechanism, `#` in an element label).** The columns reader raised (the `MainRuns`
lines are cut to three fields, shorter than the record); the rows reader, whose header rows never went
through `genfromtxt`, imported.  Now both import the specification image. -/
theorem readCols_old_label_raises :
    readColsOld regExt false "Counter" (renderCols regShow hashLabelAcq) = none ∧
    readRowsOld regExt false "Counter" (renderRows regShow hashLabelAcq) = some (specImg regExt false hashLabelAcq 0) ∧
    readCols regExt false "Counter" (renderCols regShow hashLabelAcq) = some (specImg regExt false hashLabelAcq 0) ∧
    readRows regExt false "Counter" (renderRows regShow hashLabelAcq) = some (specImg regExt false hashLabelAcq 0) := by
  decide +kernel

/-- **On a file without a `#` the fix changed nothing** (columns layout): for every table none of whose
fields contains a `#`, the reader with the comment cut and the reader without return the same image or
both raise. -/
theorem readColsOld_eq (x : Ext α) (comma : Bool) (chan : String) (t : Table)
    (h : ∀ r ∈ t, ∀ g ∈ r, hasHash g = false) :
    readColsOld x comma chan t = readCols x comma chan t := by
  unfold readColsOld readCols readColsWith
  cases t with
  | nil => rfl
  | cons first rest =>
    have h1 : gfSplitOld first = gfSplit first := gfSplitOld_eq first (h first List.mem_cons_self)
    have h2 : gfLinesWith gfSplitOld comma (rest.filter (fun r => lineStarts r && lineHas chan r))
        = gfLinesWith gfSplit comma (rest.filter (fun r => lineStarts r && lineHas chan r)) :=
      gfLinesOld_eq comma _ (fun r hr => h r (List.mem_cons_of_mem _ (List.mem_filter.mp hr).1))
    simp only [h1, h2]

/-- … and in the rows layout, where only the sample rows (everything after the four header rows) ever
went through `genfromtxt`: a `#` in a header row (an element label) never mattered. -/
theorem readRowsOld_eq (x : Ext α) (comma : Bool) (chan : String) (t : Table)
    (h : ∀ r ∈ t.drop 4, ∀ g ∈ r, hasHash g = false) :
    readRowsOld x comma chan t = readRows x comma chan t := by
  unfold readRowsOld readRows readRowsWith readRowsHWith
  simp only [gfLinesOld_eq comma (t.drop 4) h]

/-! ## sniffing -/

theorem hasSub_mainruns_self : hasSub "MainRuns" "MainRuns" = true := by decide
theorem hasSub_mainruns_empty : hasSub "MainRuns" "" = false := by decide
theorem hasSub_mainruns_eol : hasSub "MainRuns" "\n" = false := by decide
theorem hasSub_mainruns_ident : hasSub "MainRuns" "<Identifier>" = false := by decide

/-- the rows layout is recognised (at least one exported cell) -/
theorem sniff_renderRows (sh : Nat → String) (a : Acq)
    (hm : 0 < a.nscans) (hk : 0 < a.elements.length) (hc : 0 < a.channels.length) :
    sniff (renderRows sh a) = .rows := by
  unfold sniff renderRows
  have : lineHas "MainRuns" ("" :: "" :: (enumRows a.nscans a.elements.length a.channels.length).map (fun _ => "MainRuns") ++ ["\n"]) = true := by
    simp only [lineHas, List.cons_append, List.any_cons, List.any_append, List.any_map, Bool.or_eq_true]
    right; right; left
    rw [List.any_eq_true]
    exact ⟨(0, 0, 0), mem_enumRows.mpr ⟨hm, hk, hc⟩, hasSub_mainruns_self⟩
  simp only [List.cons_append, List.nil_append, List.getD_cons_zero] at this ⊢
  rw [if_pos this]

/-- the columns layout is recognised when no sample name contains "MainRuns" -/
theorem sniff_renderCols (sh : Nat → String) (a : Acq)
    (hm : 0 < a.nscans) (hk : 0 < a.elements.length) (hc : 0 < a.channels.length)
    (hs : ∀ s ∈ a.samples, hasSub "MainRuns" s = false) :
    sniff (renderCols sh a) = .columns := by
  unfold sniff renderCols
  have h0 : lineHas "MainRuns" (["", "", "", ""] ++ a.samples ++ ["\n"]) = false := by
    simp only [lineHas, List.cons_append, List.nil_append, List.any_cons, List.any_append, List.any_nil,
      hasSub_mainruns_empty, hasSub_mainruns_eol, Bool.false_or, Bool.or_false]
    rw [List.any_eq_false]
    intro s hs'
    simp [hs s hs']
  obtain ⟨y, t, hy⟩ : ∃ y t, enumCols a.nscans a.elements.length a.channels.length = y :: t := by
    have : (0, 0, 0) ∈ enumCols a.nscans a.elements.length a.channels.length := mem_enumCols.mpr ⟨hm, hk, hc⟩
    cases he : enumCols a.nscans a.elements.length a.channels.length with
    | nil => rw [he] at this; simp at this
    | cons y t => exact ⟨y, t, rfl⟩
  rw [hy]
  simp only [List.getD_cons_zero, h0, Bool.false_eq_true, if_false, List.map_cons, List.getD_cons_succ]
  have h2 : lineHas "MainRuns" (colLine sh a y) = true := by
    simp only [colLine, lineHas, List.cons_append, List.any_cons, hasSub_mainruns_self, Bool.true_or]
  rw [if_pos h2]

/-- anything whose first and third line do not contain "MainRuns" is `unknown` … -/
theorem sniff_unknown (t : Table)
    (h0 : lineHas "MainRuns" (t.getD 0 []) = false) (h2 : lineHas "MainRuns" (t.getD 2 []) = false) :
    sniff t = .unknown := by
  unfold sniff
  rw [if_neg (by rw [h0]; simp), if_neg (by rw [h2]; simp)]

/-- … in particular every file shorter than three lines whose first line does not -/
theorem sniff_short (t : Table) (hlen : t.length < 3) (h0 : lineHas "MainRuns" (t.getD 0 []) = false) :
    sniff t = .unknown := by
  apply sniff_unknown t h0
  have : t.getD 2 [] = [] := by
    simp [List.getD, List.getElem?_eq_none (show t.length ≤ 2 by omega)]
  rw [this]; rfl

/-- **"'unknown' for anything else"**: on every text whose first and third line do not mention
`MainRuns` (`otherFile`, the domain on which the check demands the constant) the sniffer answers the
specification's constant -/
theorem sniff_other (t : Table) (h : otherFile t = true) : sniff t = specSniffOther := by
  unfold otherFile at h
  simp only [Bool.and_eq_true, Bool.not_eq_true'] at h
  exact sniff_unknown t h.1 h.2

/-- … and no export of either layout is such a text: the two cases of the sniffing clause do not overlap -/
theorem render_not_other (sh : Nat → String) (a : Acq)
    (hm : 0 < a.nscans) (hk : 0 < a.elements.length) (hc : 0 < a.channels.length) :
    otherFile (renderRows sh a) = false ∧ otherFile (renderCols sh a) = false := by
  constructor
  · have := sniff_renderRows sh a hm hk hc
    unfold sniff at this
    unfold otherFile
    cases h0 : lineHas "MainRuns" ((renderRows sh a).getD 0 []) with
    | true => rfl
    | false =>
      rw [h0] at this
      simp only [Bool.false_eq_true, if_false] at this
      split at this <;> cases this
  · unfold otherFile
    cases h0 : lineHas "MainRuns" ((renderCols sh a).getD 0 []) with
    | true => rfl
    | false =>
      cases h2 : lineHas "MainRuns" ((renderCols sh a).getD 2 []) with
      | true => rfl
      | false =>
        exfalso
        obtain ⟨y, t, hy⟩ : ∃ y t, enumCols a.nscans a.elements.length a.channels.length = y :: t := by
          have : (0, 0, 0) ∈ enumCols a.nscans a.elements.length a.channels.length := mem_enumCols.mpr ⟨hm, hk, hc⟩
          cases he : enumCols a.nscans a.elements.length a.channels.length with
          | nil => rw [he] at this; simp at this
          | cons y t => exact ⟨y, t, rfl⟩
        unfold renderCols at h2
        rw [hy] at h2
        simp only [List.map_cons, List.getD_cons_succ, List.getD_cons_zero, colLine, lineHas, List.cons_append, List.any_cons,
          hasSub_mainruns_self, Bool.true_or] at h2
        cases h2

/-! ## `load` -/

/-- a comma-free table is read without the decimal replacement -/
theorem detectComma_false (delim : Char) (t : Table) (h : ∀ r ∈ t, ∀ f ∈ r, hasSub "," f = false) :
    detectComma delim t = false := by
  unfold detectComma
  have : t.any (fun r => r.any (hasSub ",")) = false := by
    rw [List.any_eq_false]; intro r hr
    simp only [Bool.not_eq_true]
    rw [List.any_eq_false]; intro f hf
    simp [h r hr f hf]
  rw [this, Bool.and_false]

/-- **`load` on a samples-in-rows export** returns the requested channel (Counter, or Analog when
asked) exactly as exported and the scan time, for every delimiter / decimal-mark combination:
`dec = true` (decimal commas) only with the `;` delimiter; without decimal commas the file
contains no comma outside the delimiters. -/
theorem load_renderRows (x : Ext V) (sh : Nat → String) (delim : Char) (a : Acq) (ci ct : Nat) (ua dec : Bool)
    (hchan : a.chan ci = (if ua then "Analog" else "Counter")) (htime : a.chan ct = "Time")
    (hr : RowsOK x sh a ci) (hrt : RowsOK x sh a ct)
    (hdec : dec = true → delim = ';')
    (hnodec : dec = false → ∀ r ∈ renderRows sh a, ∀ f ∈ r, hasSub "," f = false) :
    load x delim (renderRows sh a) ua = .ok (specImg x dec a ci) (some (specParams x dec a ct)) := by
  have hsniff := sniff_renderRows sh a hr.nscans hr.nelements (Nat.lt_of_le_of_lt (Nat.zero_le _) hr.chanIdx)
  have hrd := readRows_render_aux x sh (detectComma delim (renderRows sh a)) a ci hr
  have hpar := params_renderRows_aux x sh (detectComma delim (renderRows sh a)) a ct htime hrt
  have hkey : specImg x (detectComma delim (renderRows sh a)) a ci = specImg x dec a ci ∧
      specParams x (detectComma delim (renderRows sh a)) a ct = specParams x dec a ct := by
    cases hd : dec with
    | false =>
      rw [detectComma_false delim _ (hnodec hd)]
      exact ⟨rfl, rfl⟩
    | true =>
      cases hdc : detectComma delim (renderRows sh a) with
      | true => exact ⟨rfl, rfl⟩
      | false =>
        -- the file starts with ';' and still no comma was detected: no token contains one
        have hdelim := hdec hd
        have hany : (renderRows sh a).any (fun r => r.any (hasSub ",")) = false := by
          unfold detectComma at hdc
          simp only [renderRows, List.cons_append, List.nil_append, hdelim, BEq.rfl, Bool.true_and] at hdc
          simpa [renderRows] using hdc
        have htok : ∀ c, c < a.channels.length → ∀ i, i < a.samples.length → ∀ s, s < a.nscans → ∀ e, e < a.elements.length →
            hasSub "," (a.value i s e c) = false := by
          intro c hc i hi s hs e he
          rw [List.any_eq_false] at hany
          have hrow := hany (a.samples.getD i "" :: "<Identifier>" ::
            (enumRows a.nscans a.elements.length a.channels.length).map (fun x => a.value i x.1 x.2.1 x.2.2) ++ ["\n"]) (by
              unfold renderRows
              simp only [List.cons_append, List.nil_append, List.mem_cons, List.mem_map, List.mem_range]
              right; right; right; right
              exact ⟨i, hi, rfl⟩)
          simp only [Bool.not_eq_true] at hrow
          rw [List.any_eq_false] at hrow
          have := hrow (a.value i s e c) (by
            simp only [List.cons_append, List.mem_cons, List.mem_append, List.mem_map]
            right; right; left
            exact ⟨(s, e, c), mem_enumRows.mpr ⟨hs, he, hc⟩, rfl⟩)
          simpa using this
        exact ⟨specImg_noComma x a ci false true (htok ci hr.chanIdx),
               specParams_noComma x a ct false true (htok ct hrt.chanIdx) hr.nelements⟩
  unfold load
  simp only [hsniff]
  rw [← hchan, hrd, hpar, hkey.1, hkey.2]

/-- **`load` on a samples-in-columns export**, likewise. -/
theorem load_renderCols (x : Ext V) (sh : Nat → String) (delim : Char) (a : Acq) (ci ct : Nat) (ua dec : Bool)
    (hchan : a.chan ci = (if ua then "Analog" else "Counter")) (htime : a.chan ct = "Time")
    (hc : ∀ b, ColsOK x sh b a ci) (hct : ∀ b, ColsOK x sh b a ct)
    (hs : ∀ s ∈ a.samples, hasSub "MainRuns" s = false)
    (hdec : dec = true → delim = ';')
    (hnodec : dec = false → ∀ r ∈ renderCols sh a, ∀ f ∈ r, hasSub "," f = false) :
    load x delim (renderCols sh a) ua = .ok (specImg x dec a ci) (some (specParams x dec a ct)) := by
  have h0 := hc false
  have hsniff := sniff_renderCols sh a h0.nscans h0.nelements
    (Nat.lt_of_le_of_lt (Nat.zero_le _) h0.chanIdx) hs
  have hrd := readCols_render_aux x sh (detectComma delim (renderCols sh a)) a ci (hc _)
  have hpar := params_renderCols_aux x sh (detectComma delim (renderCols sh a)) a ct htime (hct _)
  have hkey : specImg x (detectComma delim (renderCols sh a)) a ci = specImg x dec a ci ∧
      specParams x (detectComma delim (renderCols sh a)) a ct = specParams x dec a ct := by
    cases hd : dec with
    | false =>
      rw [detectComma_false delim _ (hnodec hd)]
      exact ⟨rfl, rfl⟩
    | true =>
      cases hdc : detectComma delim (renderCols sh a) with
      | true => exact ⟨rfl, rfl⟩
      | false =>
        have hdelim := hdec hd
        have hany : (renderCols sh a).any (fun r => r.any (hasSub ",")) = false := by
          unfold detectComma at hdc
          simp only [renderCols, List.cons_append, List.nil_append, hdelim, BEq.rfl, Bool.true_and] at hdc
          simpa [renderCols] using hdc
        have htok : ∀ c, c < a.channels.length → ∀ i, i < a.samples.length → ∀ s, s < a.nscans → ∀ e, e < a.elements.length →
            hasSub "," (a.value i s e c) = false := by
          intro c hcc i hi s hs' e he
          rw [List.any_eq_false] at hany
          have hrow := hany (colLine sh a (s, e, c)) (by
            unfold renderCols
            simp only [List.mem_cons, List.mem_map]
            right; right
            exact ⟨(s, e, c), mem_enumCols.mpr ⟨hs', he, hcc⟩, rfl⟩)
          simp only [Bool.not_eq_true] at hrow
          rw [List.any_eq_false] at hrow
          have := hrow (a.value i s e c) (by
            simp only [colLine, List.cons_append, List.nil_append, List.mem_cons, List.mem_append, List.mem_map, List.mem_range]
            right; right; right; right; left
            exact ⟨i, hi, rfl⟩)
          simpa using this
        exact ⟨specImg_noComma x a ci false true (htok ci h0.chanIdx),
               specParams_noComma x a ct false true (htok ct (hct false).chanIdx) h0.nelements⟩
  unfold load
  simp only [hsniff]
  rw [← hchan, hrd, hpar, hkey.1, hkey.2]

/-! ## from the table to the text of the file -/

/-- **The text layer**: for a table whose first line starts with an empty field (both layouts do) and
whose fields do not contain the delimiter, splitting the lines of its text — at the delimiter passed to
a reader, or at the first character of the file when none is passed — gives the table back. -/
theorem tableOf_renderText (d : Char) (g : String) (r : Row) (rest : Table)
    (hne : ∀ q ∈ ("" :: g :: r) :: rest, q ≠ []) (h : ∀ q ∈ ("" :: g :: r) :: rest, ∀ f ∈ q, d ∉ f.toList) :
    tableOf (some d) (renderText d (("" :: g :: r) :: rest)) = some (("" :: g :: r) :: rest) ∧
    tableOf none (renderText d (("" :: g :: r) :: rest)) = some (("" :: g :: r) :: rest) := by
  obtain ⟨tl, htl⟩ := head_renderText d g r rest
  constructor
  · simp only [tableOf]
    rw [splitLines_renderText d _ hne h]
  · simp only [tableOf, htl]
    rw [splitLines_renderText d _ hne h]

/-- `load` on the text of a table is `load` on the table -/
theorem loadText_renderText (x : Ext V) (d : Char) (g : String) (r : Row) (rest : Table) (ua : Bool)
    (hne : ∀ q ∈ ("" :: g :: r) :: rest, q ≠ []) (h : ∀ q ∈ ("" :: g :: r) :: rest, ∀ f ∈ q, d ∉ f.toList) :
    loadText x (renderText d (("" :: g :: r) :: rest)) ua = load x d (("" :: g :: r) :: rest) ua := by
  obtain ⟨tl, htl⟩ := head_renderText d g r rest
  simp only [loadText, htl]
  rw [splitLines_renderText d _ hne h]

theorem renderRows_rows_ne (sh : Nat → String) (a : Acq) : ∀ q ∈ renderRows sh a, q ≠ [] := by
  intro q hq
  unfold renderRows at hq
  simp only [List.cons_append, List.nil_append, List.mem_cons, List.mem_map] at hq
  rcases hq with hq | hq | hq | hq | ⟨i, _, hq⟩
  · rw [hq]; simp
  · rw [hq]; simp
  · rw [hq]; simp
  · rw [hq]; simp
  · rw [← hq]; simp

theorem renderCols_rows_ne (sh : Nat → String) (a : Acq) : ∀ q ∈ renderCols sh a, q ≠ [] := by
  intro q hq
  unfold renderCols at hq
  simp only [List.cons_append, List.nil_append, List.mem_cons, List.mem_map] at hq
  rcases hq with hq | hq | ⟨y, _, hq⟩
  · rw [hq]; simp
  · rw [hq]; simp
  · rw [← hq]; simp [colLine]

/-- **`load` on the text of a samples-in-rows export** (the file as Qtegra writes it, decoded): the
requested channel exactly as exported and the scan time; hypotheses of `load_renderRows`, and no field
contains the delimiter. -/
theorem load_text_rows (x : Ext V) (sh : Nat → String) (delim : Char) (a : Acq) (ci ct : Nat) (ua dec : Bool)
    (hchan : a.chan ci = (if ua then "Analog" else "Counter")) (htime : a.chan ct = "Time")
    (hr : RowsOK x sh a ci) (hrt : RowsOK x sh a ct)
    (hdec : dec = true → delim = ';')
    (hnodec : dec = false → ∀ r ∈ renderRows sh a, ∀ f ∈ r, hasSub "," f = false)
    (hfree : ∀ r ∈ renderRows sh a, ∀ f ∈ r, delim ∉ f.toList) :
    loadText x (renderText delim (renderRows sh a)) ua = .ok (specImg x dec a ci) (some (specParams x dec a ct)) := by
  have hform : ∃ g r rest, renderRows sh a = ("" :: g :: r) :: rest := ⟨_, _, _, rfl⟩
  obtain ⟨g, r, rest, hf⟩ := hform
  have hne := renderRows_rows_ne sh a
  rw [hf] at hne hfree ⊢
  rw [loadText_renderText x delim g r rest ua hne hfree, ← hf]
  exact load_renderRows x sh delim a ci ct ua dec hchan htime hr hrt hdec hnodec

/-- **`load` on the text of a samples-in-columns export**, likewise. -/
theorem load_text_cols (x : Ext V) (sh : Nat → String) (delim : Char) (a : Acq) (ci ct : Nat) (ua dec : Bool)
    (hchan : a.chan ci = (if ua then "Analog" else "Counter")) (htime : a.chan ct = "Time")
    (hc : ∀ b, ColsOK x sh b a ci) (hct : ∀ b, ColsOK x sh b a ct)
    (hs : ∀ s ∈ a.samples, hasSub "MainRuns" s = false)
    (hdec : dec = true → delim = ';')
    (hnodec : dec = false → ∀ r ∈ renderCols sh a, ∀ f ∈ r, hasSub "," f = false)
    (hfree : ∀ r ∈ renderCols sh a, ∀ f ∈ r, delim ∉ f.toList) :
    loadText x (renderText delim (renderCols sh a)) ua = .ok (specImg x dec a ci) (some (specParams x dec a ct)) := by
  have hform : ∃ g r rest, renderCols sh a = ("" :: g :: r) :: rest := ⟨_, _, _, rfl⟩
  obtain ⟨g, r, rest, hf⟩ := hform
  have hne := renderCols_rows_ne sh a
  rw [hf] at hne hfree ⊢
  rw [loadText_renderText x delim g r rest ua hne hfree, ← hf]
  exact load_renderCols x sh delim a ci ct ua dec hchan htime hc hct hs hdec hnodec


/-! ## the explicit readers on the text of the file -/

theorem tableOf_rows_text (sh : Nat → String) (d : Char) (explicit : Option Char) (a : Acq)
    (hexp : explicit = none ∨ explicit = some d)
    (hfree : ∀ r ∈ renderRows sh a, ∀ f ∈ r, d ∉ f.toList) :
    tableOf explicit (renderText d (renderRows sh a)) = some (renderRows sh a) := by
  have hform : ∃ g r rest, renderRows sh a = ("" :: g :: r) :: rest := ⟨_, _, _, rfl⟩
  obtain ⟨g, r, rest, hf⟩ := hform
  have hne := renderRows_rows_ne sh a
  rw [hf] at hne hfree ⊢
  rcases hexp with h | h <;> rw [h]
  · exact (tableOf_renderText d g r rest hne hfree).2
  · exact (tableOf_renderText d g r rest hne hfree).1

theorem tableOf_cols_text (sh : Nat → String) (d : Char) (explicit : Option Char) (a : Acq)
    (hexp : explicit = none ∨ explicit = some d)
    (hfree : ∀ r ∈ renderCols sh a, ∀ f ∈ r, d ∉ f.toList) :
    tableOf explicit (renderText d (renderCols sh a)) = some (renderCols sh a) := by
  have hform : ∃ g r rest, renderCols sh a = ("" :: g :: r) :: rest := ⟨_, _, _, rfl⟩
  obtain ⟨g, r, rest, hf⟩ := hform
  have hne := renderCols_rows_ne sh a
  rw [hf] at hne hfree ⊢
  rcases hexp with h | h <;> rw [h]
  · exact (tableOf_renderText d g r rest hne hfree).2
  · exact (tableOf_renderText d g r rest hne hfree).1

/-- **`icap_csv_rows_read_data(path, delimiter, comma_decimal, use_analog)` on the text of a samples-in-rows
export**, with the delimiter passed or left to be taken from the first character of the file: the image of
the requested channel (Counter, or Analog when asked), pixel by pixel the exported value. -/
theorem readData_text_rows (x : Ext α) (sh : Nat → String) (d : Char) (explicit : Option Char) (comma ua : Bool) (a : Acq) (ci : Nat)
    (hexp : explicit = none ∨ explicit = some d)
    (hchan : a.chan ci = chanOf ua) (hr : RowsOK x sh a ci)
    (hfree : ∀ r ∈ renderRows sh a, ∀ f ∈ r, d ∉ f.toList) :
    readDataText x true explicit comma ua (renderText d (renderRows sh a)) = some (specImg x comma a ci) := by
  unfold readDataText
  rw [tableOf_rows_text sh d explicit a hexp hfree]
  simp only [Option.bind_some, if_true]
  rw [← hchan]
  exact readRows_render_aux x sh comma a ci hr

/-- **`icap_csv_columns_read_data` on the text of a samples-in-columns export**, likewise. -/
theorem readData_text_cols (x : Ext α) (sh : Nat → String) (d : Char) (explicit : Option Char) (comma ua : Bool) (a : Acq) (ci : Nat)
    (hexp : explicit = none ∨ explicit = some d)
    (hchan : a.chan ci = chanOf ua) (hc : ColsOK x sh comma a ci)
    (hfree : ∀ r ∈ renderCols sh a, ∀ f ∈ r, d ∉ f.toList) :
    readDataText x false explicit comma ua (renderText d (renderCols sh a)) = some (specImg x comma a ci) := by
  unfold readDataText
  rw [tableOf_cols_text sh d explicit a hexp hfree]
  simp only [Option.bind_some, Bool.false_eq_true, if_false]
  rw [← hchan]
  exact readCols_render_aux x sh comma a ci hc

/-- **Both `*_read_params` on the text of the file**: the times of the first element and the rounded mean
interval of the exported Time channel. -/
theorem readParams_text (x : Ext V) (sh : Nat → String) (d : Char) (explicit : Option Char) (comma : Bool) (a : Acq) (ct : Nat)
    (hexp : explicit = none ∨ explicit = some d) (htime : a.chan ct = "Time")
    (hr : RowsOK x sh a ct) (hc : ColsOK x sh comma a ct)
    (hfreeR : ∀ r ∈ renderRows sh a, ∀ f ∈ r, d ∉ f.toList) (hfreeC : ∀ r ∈ renderCols sh a, ∀ f ∈ r, d ∉ f.toList) :
    readParamsText x true explicit comma (renderText d (renderRows sh a)) = some (specParams x comma a ct) ∧
    readParamsText x false explicit comma (renderText d (renderCols sh a)) = some (specParams x comma a ct) := by
  unfold readParamsText
  rw [tableOf_rows_text sh d explicit a hexp hfreeR, tableOf_cols_text sh d explicit a hexp hfreeC]
  exact ⟨params_renderRows_aux x sh comma a ct htime hr, params_renderCols_aux x sh comma a ct htime hc⟩

/-! ## `load` without a Time channel, `load(full=False)` -/

/-- **`load` on a samples-in-rows export without a Time channel**: the requested channel exactly as
exported and no parameters (`{}`). -/
theorem load_text_rows_noTime (x : Ext V) (sh : Nat → String) (delim : Char) (a : Acq) (ci : Nat) (ua dec : Bool)
    (hchan : a.chan ci = chanOf ua) (hnt : a.chanIdx "Time" = none)
    (hr : RowsOK x sh a ci)
    (hdec : dec = true → delim = ';')
    (hnodec : dec = false → ∀ r ∈ renderRows sh a, ∀ f ∈ r, hasSub "," f = false)
    (hfree : ∀ r ∈ renderRows sh a, ∀ f ∈ r, delim ∉ f.toList) :
    loadText x (renderText delim (renderRows sh a)) ua = .ok (specImg x dec a ci) none := by
  have hform : ∃ g r rest, renderRows sh a = ("" :: g :: r) :: rest := ⟨_, _, _, rfl⟩
  obtain ⟨g, r, rest, hf⟩ := hform
  have hne := renderRows_rows_ne sh a
  have hfree' := hfree
  rw [hf] at hne hfree' ⊢
  rw [loadText_renderText x delim g r rest ua hne hfree', ← hf]
  have hsniff := sniff_renderRows sh a hr.nscans hr.nelements (Nat.lt_of_le_of_lt (Nat.zero_le _) hr.chanIdx)
  have hrd := readRows_render_aux x sh (detectComma delim (renderRows sh a)) a ci hr
  unfold load
  simp only [hsniff]
  rw [show (if ua = true then "Analog" else "Counter") = a.chan ci from hchan.symm, hrd,
    readParams_rows_noTime x sh _ a hnt, specImg_detect_rows x sh delim a ci dec hr.chanIdx hdec hnodec]

/-- **`load` on a samples-in-columns export without a Time channel**, likewise. -/
theorem load_text_cols_noTime (x : Ext V) (sh : Nat → String) (delim : Char) (a : Acq) (ci : Nat) (ua dec : Bool)
    (hchan : a.chan ci = chanOf ua) (hnt : ColsAbsent sh a "Time")
    (hc : ∀ b, ColsOK x sh b a ci)
    (hs : ∀ s ∈ a.samples, hasSub "MainRuns" s = false)
    (hdec : dec = true → delim = ';')
    (hnodec : dec = false → ∀ r ∈ renderCols sh a, ∀ f ∈ r, hasSub "," f = false)
    (hfree : ∀ r ∈ renderCols sh a, ∀ f ∈ r, delim ∉ f.toList) :
    loadText x (renderText delim (renderCols sh a)) ua = .ok (specImg x dec a ci) none := by
  have hform : ∃ g r rest, renderCols sh a = ("" :: g :: r) :: rest := ⟨_, _, _, rfl⟩
  obtain ⟨g, r, rest, hf⟩ := hform
  have hne := renderCols_rows_ne sh a
  have hfree' := hfree
  rw [hf] at hne hfree' ⊢
  rw [loadText_renderText x delim g r rest ua hne hfree', ← hf]
  have h0 := hc false
  have hsniff := sniff_renderCols sh a h0.nscans h0.nelements (Nat.lt_of_le_of_lt (Nat.zero_le _) h0.chanIdx) hs
  have hrd := readCols_render_aux x sh (detectComma delim (renderCols sh a)) a ci (hc _)
  unfold load
  simp only [hsniff]
  rw [show (if ua = true then "Analog" else "Counter") = a.chan ci from hchan.symm, hrd,
    readParams_cols_noTime x sh _ a hnt, specImg_detect_cols x sh delim a ci dec h0.chanIdx hdec hnodec]

/-- **`load(full=False)` hands back the array of `load(full=True)`**, for every text (export or not):
the same image, or both raise. -/
theorem load_full_false (x : Ext V) (lines : List String) (ua : Bool) :
    loadCall x lines ua false = (match loadCall x lines ua true with
      | .full img _ => .data img
      | r => r) := by
  unfold loadCall
  simp only [Bool.false_eq_true, if_false, if_true, loadDataText_eq]
  cases loadText x lines ua <;> rfl

/-- **The two layouts of one acquisition import to identical arrays through `load`** — sniffing, the
detection of the decimal mark and the dispatch included — whatever delimiter each file uses. -/
theorem load_layouts_agree (x : Ext V) (sh : Nat → String) (dr dc : Char) (a : Acq) (ci ct : Nat) (ua dec : Bool)
    (hchan : a.chan ci = (if ua then "Analog" else "Counter")) (htime : a.chan ct = "Time")
    (hr : RowsOK x sh a ci) (hrt : RowsOK x sh a ct)
    (hc : ∀ b, ColsOK x sh b a ci) (hct : ∀ b, ColsOK x sh b a ct)
    (hs : ∀ s ∈ a.samples, hasSub "MainRuns" s = false)
    (hdecR : dec = true → dr = ';') (hdecC : dec = true → dc = ';')
    (hnodecR : dec = false → ∀ r ∈ renderRows sh a, ∀ f ∈ r, hasSub "," f = false)
    (hnodecC : dec = false → ∀ r ∈ renderCols sh a, ∀ f ∈ r, hasSub "," f = false)
    (hfreeR : ∀ r ∈ renderRows sh a, ∀ f ∈ r, dr ∉ f.toList)
    (hfreeC : ∀ r ∈ renderCols sh a, ∀ f ∈ r, dc ∉ f.toList) :
    loadText x (renderText dr (renderRows sh a)) ua = loadText x (renderText dc (renderCols sh a)) ua := by
  rw [load_text_rows x sh dr a ci ct ua dec hchan htime hr hrt hdecR hnodecR hfreeR,
    load_text_cols x sh dc a ci ct ua dec hchan htime hc hct hs hdecC hnodecC hfreeC]



/-- **Sniffing the text of the file names each layout correctly**: the substring test of
`icap_csv_sample_format` on the whole first and third line answers `rows` for every samples-in-rows
export and `columns` for every samples-in-columns export, for every delimiter that is not a letter of
`MainRuns`. -/
theorem sniff_text (sh : Nat → String) (d : Char) (a : Acq) (hd : d ∉ "MainRuns".toList)
    (hm : 0 < a.nscans) (hk : 0 < a.elements.length) (hc : 0 < a.channels.length)
    (hs : ∀ s ∈ a.samples, hasSub "MainRuns" s = false) :
    sniffText (renderText d (renderRows sh a)) = .rows ∧ sniffText (renderText d (renderCols sh a)) = .columns := by
  rw [sniffText_renderText d hd, sniffText_renderText d hd]
  exact ⟨sniff_renderRows sh a hm hk hc, sniff_renderCols sh a hm hk hc hs⟩

/-! ## histories: every call is judged by what the path holds when it is made -/

/-- one call on the text of a samples-in-rows export returns what the specification names -/
theorem call_spec_rows (x : Ext V) (sh : Nat → String) (d : Char) (dec : Bool) (a : Acq) (c : Call)
    (h : RowsFileOK x sh d dec a) :
    Judged (specCall x (.rows d dec a) c) (callText x (renderText d (renderRows sh a)) c) := by
  cases c with
  | sniff =>
    show Out.fmt (sniffText _) = Out.fmt Fmt.rows
    rw [sniffText_renderText d h.delimMain, sniff_renderRows sh a h.nscans h.nelements h.nchannels]
  | load ua full =>
    show Judged ((specData x dec a ua).map fun img => Out.load (if full then .full img (specPar x dec a) else .data img)) _
    unfold specData
    cases hci : a.chanIdx (chanOf ua) with
    | none => trivial
    | some ci =>
      obtain ⟨hlt, hch⟩ := chanIdx_some a _ ci hci
      have hr := h.chans ci hlt (hch ▸ asked_chanOf ua)
      have hfull : loadText x (renderText d (renderRows sh a)) ua = .ok (specImg x dec a ci) (specPar x dec a) := by
        unfold specPar
        cases hct : a.chanIdx "Time" with
        | none => exact load_text_rows_noTime x sh d a ci ua dec hch hct hr h.decDelim h.noComma h.free
        | some ct =>
          obtain ⟨hlt', hch'⟩ := chanIdx_some a _ ct hct
          exact load_text_rows x sh d a ci ct ua dec hch hch' hr
            (h.chans ct hlt' (hch' ▸ Or.inr (Or.inr rfl))) h.decDelim h.noComma h.free
      show Out.load (loadCall x _ ua full) = _
      unfold loadCall
      cases full with
      | true => simp only [if_true, hfull]
      | false => simp only [Bool.false_eq_true, if_false, loadDataText_eq, hfull, LoadResult.toData]
  | data rows explicit comma ua =>
    cases rows with
    | false => trivial
    | true =>
      show Judged (if (comma == dec && (explicit.isNone || explicit == some d)) = true
        then (specData x dec a ua).map fun img => Out.img (some img) else none) _
      split
      · rename_i hcond
        simp only [Bool.and_eq_true, beq_iff_eq, Bool.or_eq_true, Option.isNone_iff_eq_none] at hcond
        obtain ⟨hcm, hexp⟩ := hcond
        unfold specData
        cases hci : a.chanIdx (chanOf ua) with
        | none => trivial
        | some ci =>
          obtain ⟨hlt, hch⟩ := chanIdx_some a _ ci hci
          have hr := h.chans ci hlt (hch ▸ asked_chanOf ua)
          show Out.img (readDataText x true explicit comma ua _) = Out.img (some (specImg x dec a ci))
          rw [readData_text_rows x sh d explicit comma ua a ci hexp hch hr h.free, hcm]
      · trivial
  | params rows explicit comma =>
    cases rows with
    | false => trivial
    | true =>
      show Judged (if (comma == dec && (explicit.isNone || explicit == some d)) = true
        then (specPar x dec a).map fun p => Out.params (some p) else none) _
      split
      · rename_i hcond
        simp only [Bool.and_eq_true, beq_iff_eq, Bool.or_eq_true, Option.isNone_iff_eq_none] at hcond
        obtain ⟨hcm, hexp⟩ := hcond
        unfold specPar
        cases hct : a.chanIdx "Time" with
        | none => trivial
        | some ct =>
          obtain ⟨hlt, hch⟩ := chanIdx_some a _ ct hct
          have hr := h.chans ct hlt (hch ▸ Or.inr (Or.inr rfl))
          show Out.params (readParamsText x true explicit comma _) = Out.params (some (specParams x dec a ct))
          unfold readParamsText
          rw [tableOf_rows_text sh d explicit a hexp h.free, hcm]
          exact congrArg Out.params (params_renderRows_aux x sh dec a ct hch hr)
      · trivial

/-- … of a samples-in-columns export -/
theorem call_spec_cols (x : Ext V) (sh : Nat → String) (d : Char) (dec : Bool) (a : Acq) (c : Call)
    (h : ColsFileOK x sh d dec a) :
    Judged (specCall x (.cols d dec a) c) (callText x (renderText d (renderCols sh a)) c) := by
  cases c with
  | sniff =>
    show Out.fmt (sniffText _) = Out.fmt Fmt.columns
    rw [sniffText_renderText d h.delimMain, sniff_renderCols sh a h.nscans h.nelements h.nchannels h.sampleMain]
  | load ua full =>
    show Judged ((specData x dec a ua).map fun img => Out.load (if full then .full img (specPar x dec a) else .data img)) _
    unfold specData
    cases hci : a.chanIdx (chanOf ua) with
    | none => trivial
    | some ci =>
      obtain ⟨hlt, hch⟩ := chanIdx_some a _ ci hci
      have hc := h.chans ci hlt (hch ▸ asked_chanOf ua)
      have hfull : loadText x (renderText d (renderCols sh a)) ua = .ok (specImg x dec a ci) (specPar x dec a) := by
        unfold specPar
        cases hct : a.chanIdx "Time" with
        | none => exact load_text_cols_noTime x sh d a ci ua dec hch (h.noTime hct) hc h.sampleMain h.decDelim h.noComma h.free
        | some ct =>
          obtain ⟨hlt', hch'⟩ := chanIdx_some a _ ct hct
          exact load_text_cols x sh d a ci ct ua dec hch hch' hc
            (h.chans ct hlt' (hch' ▸ Or.inr (Or.inr rfl))) h.sampleMain h.decDelim h.noComma h.free
      show Out.load (loadCall x _ ua full) = _
      unfold loadCall
      cases full with
      | true => simp only [if_true, hfull]
      | false => simp only [Bool.false_eq_true, if_false, loadDataText_eq, hfull, LoadResult.toData]
  | data rows explicit comma ua =>
    cases rows with
    | true => trivial
    | false =>
      show Judged (if (comma == dec && (explicit.isNone || explicit == some d)) = true
        then (specData x dec a ua).map fun img => Out.img (some img) else none) _
      split
      · rename_i hcond
        simp only [Bool.and_eq_true, beq_iff_eq, Bool.or_eq_true, Option.isNone_iff_eq_none] at hcond
        obtain ⟨hcm, hexp⟩ := hcond
        unfold specData
        cases hci : a.chanIdx (chanOf ua) with
        | none => trivial
        | some ci =>
          obtain ⟨hlt, hch⟩ := chanIdx_some a _ ci hci
          have hc := h.chans ci hlt (hch ▸ asked_chanOf ua) comma
          show Out.img (readDataText x false explicit comma ua _) = Out.img (some (specImg x dec a ci))
          rw [readData_text_cols x sh d explicit comma ua a ci hexp hch hc h.free, hcm]
      · trivial
  | params rows explicit comma =>
    cases rows with
    | true => trivial
    | false =>
      show Judged (if (comma == dec && (explicit.isNone || explicit == some d)) = true
        then (specPar x dec a).map fun p => Out.params (some p) else none) _
      split
      · rename_i hcond
        simp only [Bool.and_eq_true, beq_iff_eq, Bool.or_eq_true, Option.isNone_iff_eq_none] at hcond
        obtain ⟨hcm, hexp⟩ := hcond
        unfold specPar
        cases hct : a.chanIdx "Time" with
        | none => trivial
        | some ct =>
          obtain ⟨hlt, hch⟩ := chanIdx_some a _ ct hct
          have hc := h.chans ct hlt (hch ▸ Or.inr (Or.inr rfl)) dec
          show Out.params (readParamsText x false explicit comma _) = Out.params (some (specParams x dec a ct))
          unfold readParamsText
          rw [tableOf_cols_text sh d explicit a hexp h.free, hcm]
          exact congrArg Out.params (params_renderCols_aux x sh dec a ct hch hc)
      · trivial

/-- **One call, judged by the file alone**: on the text of any export a history may write (either layout,
any of the three delimiter / decimal-mark pairs) and on any text that is no export, every public function
returns what the specification names from what was exported — layout name, image of the requested
channel, times and scan time — wherever the specification speaks. -/
theorem call_spec (x : Ext V) (sh : Nat → String) (k : Content) (c : Call) (h : ContentOK x sh k) :
    Judged (specCall x k c) (callText x (k.text sh) c) := by
  cases k with
  | rows d dec a => exact call_spec_rows x sh d dec a c h
  | cols d dec a => exact call_spec_cols x sh d dec a c h
  | other ls =>
    cases c with
    | sniff =>
      show Out.fmt (sniffText ls) = Out.fmt specSniffOther
      exact congrArg Out.fmt (sniff_other _ h)
    | load ua full => trivial
    | data rows explicit comma ua => trivial
    | params rows explicit comma => trivial

/-- **Histories.** For every sequence of exports written to any paths (with any modification times: kept,
moved on, or the same as before) and of calls of the public functions in between — the same path
rewritten with the other layout, another delimiter or decimal mark, a text that is no export; the same
file imported twice; several files in turn; sniffing, then `load`, then the readers — every call returns
what the specification names for the file **its path holds at the time of the call**, whatever the path
held before and however often it was read. (`fs` / `cs`: the files and the exports they came from when
the history starts.) -/
theorem history_spec (x : Ext V) (sh : Nat → String) : ∀ (evs : List SEvent) (fs : FS) (cs : Nat → Option Content),
    (∀ p mt c, SEvent.write p mt c ∈ evs → ContentOK x sh c) →
    (∀ p, (fs p).map (·.lines) = (cs p).map (Content.text sh)) →
    (∀ p c, cs p = some c → ContentOK x sh c) →
    JudgedAll (specHistory x cs evs) (runHistory x fs (evs.map (SEvent.event sh)))
  | [], _, _, _, _, _ => trivial
  | .write p mt c :: rest, fs, cs, hok, hfs, hcs => by
    simp only [specHistory, List.map_cons, SEvent.event, runHistory]
    apply history_spec x sh rest
    · intro p' mt' c' hm
      exact hok p' mt' c' (List.mem_cons_of_mem _ hm)
    · intro q
      unfold FS.write
      by_cases hq : q = p
      · simp [hq]
      · simp [hq, hfs q]
    · intro q c' hq
      by_cases hqp : q = p
      · simp only [hqp, if_true, Option.some.injEq] at hq
        rw [← hq]
        exact hok p mt c List.mem_cons_self
      · simp only [hqp, if_false] at hq
        exact hcs q c' hq
  | .call p c :: rest, fs, cs, hok, hfs, hcs => by
    simp only [specHistory, List.map_cons, SEvent.event, runHistory]
    refine ⟨?_, history_spec x sh rest fs cs
      (fun p' mt' c' hm => hok p' mt' c' (List.mem_cons_of_mem _ hm)) hfs hcs⟩
    cases hk : cs p with
    | none => trivial
    | some k =>
      have := hfs p
      rw [hk] at this
      cases hf : fs p with
      | none => rw [hf] at this; cases this
      | some f =>
        rw [hf] at this
        simp only [Option.map_some, Option.some.injEq] at this
        simp only [Option.bind_some, this]
        exact call_spec x sh k c (hcs p k hk)

/-- … in particular from a process that has not touched any file yet -/
theorem history_spec_fresh (x : Ext V) (sh : Nat → String) (evs : List SEvent)
    (hok : ∀ p mt c, SEvent.write p mt c ∈ evs → ContentOK x sh c) :
    JudgedAll (specHistory x (fun _ => none) evs) (runHistory x (fun _ => none) (evs.map (SEvent.event sh))) :=
  history_spec x sh evs _ _ hok (fun _ => rfl) (fun _ _ h => by cases h)

/-- **The modification time plays no part**: two histories that differ only in the modification times of
the files they write give the same results, call by call (for every text written, export or not). -/
theorem history_mtime_irrelevant (x : Ext V) (f : Nat → Nat) : ∀ (evs : List Event) (fs fs' : FS),
    (∀ p, (fs p).map (·.lines) = (fs' p).map (·.lines)) →
    runHistory x fs (evs.map fun e => match e with | .write p mt ls => .write p (f mt) ls | e => e) = runHistory x fs' evs
  | [], _, _, _ => rfl
  | .write p mt ls :: rest, fs, fs', h => by
    simp only [List.map_cons, runHistory]
    apply history_mtime_irrelevant x f rest
    intro q
    unfold FS.write
    by_cases hq : q = p
    · simp [hq]
    · simp [hq, h q]
  | .call p c :: rest, fs, fs', h => by
    simp only [List.map_cons, runHistory]
    rw [history_mtime_irrelevant x f rest fs fs' h]
    congr 1
    have := h p
    cases hf : fs p with
    | none =>
      rw [hf] at this
      cases hf' : fs' p with
      | none => rfl
      | some g => rw [hf'] at this; cases this
    | some g =>
      rw [hf] at this
      cases hf' : fs' p with
      | none => rw [hf'] at this; cases this
      | some g' =>
        rw [hf'] at this
        simp only [Option.map_some, Option.some.injEq] at this
        simp only [this]


/-! ## from the characters of the file to its lines (byte order mark, `\r\n` / `\n`) -/

/-- **The text layer gives the lines back.** For every list of lines (each some characters that are no
line end, then `\n`), written with `\n` or `\r\n` at the end of each line, with or without a UTF-8 byte
order mark in front: dropping the byte order mark, translating the line ends and cutting after every `\n`
returns exactly those lines. (Without a byte order mark the text itself must not begin with U+FEFF.) -/
theorem decodeLines_rawText (bom : Bool) (eol : List Char) (heol : eol = ['\n'] ∨ eol = ['\r', '\n']) (lines : List String)
    (h : ∀ l ∈ lines, IsLine l)
    (hfirst : bom = false → ∀ l ∈ lines.head?, l.toList.head? ≠ some bomChar) :
    decodeLines (rawText bom eol lines) = lines := by
  have hstrip : stripBom (rawText bom eol lines) = lines.flatMap (rawLine eol) := by
    unfold rawText
    cases bom with
    | true => simp [stripBom]
    | false =>
      simp only [Bool.false_eq_true, if_false, List.nil_append]
      cases lines with
      | nil => rfl
      | cons l tl =>
        rw [List.flatMap_cons]
        exact head_rawLine_ne_bom eol heol l (h l List.mem_cons_self) (hfirst rfl l (by simp)) _
  unfold decodeLines
  rw [hstrip, univNl_lines eol heol lines h, splitKeep_lines lines h, List.map_map]
  conv => rhs; rw [← List.map_id lines]
  apply List.map_congr_left
  intro l _
  simp [String.ofList_toList]

/-- **… for the text of a table**: every line ends with the field `"\n"`, no other field holds a line
end, the first line starts with an empty field (both layouts do), and the delimiter is neither a line end
nor U+FEFF. With this the theorems about the text of an export (`load_text_rows`, `readData_text_cols`,
`sniff_text`, `history_spec`, …) are theorems about the characters of the file. -/
theorem decode_table (bom : Bool) (eol : List Char) (heol : eol = ['\n'] ∨ eol = ['\r', '\n']) (d : Char) (t : Table)
    (hdn : d ≠ '\n') (hdr : d ≠ '\r') (hdb : d ≠ bomChar)
    (hend : ∀ r ∈ t, r.getLast? = some "\n")
    (hclean : ∀ r ∈ t, ∀ f ∈ r.dropLast, NoEol f)
    (hfirst : ∀ r ∈ t.head?, ∃ g fs, r = "" :: g :: fs) :
    decodeLines (rawText bom eol (renderText d t)) = renderText d t := by
  apply decodeLines_rawText bom eol heol
  · intro l hl
    unfold renderText at hl
    obtain ⟨r, hr, rfl⟩ := List.mem_map.mp hl
    rw [row_split r (hend r hr)]
    exact isLine_joinLine d hdn hdr _ (hclean r hr)
  · intro _ l hl
    cases t with
    | nil => simp [renderText] at hl
    | cons r rest =>
      obtain ⟨g, fs, rfl⟩ := hfirst r (by simp)
      simp only [renderText, List.map_cons, List.head?_cons, Option.mem_def, Option.some.injEq] at hl
      subst hl
      simp only [joinLine, List.map_cons, joinC, String.toList_ofList]
      intro hb
      have : ("".toList ++ d :: joinC d (g.toList :: fs.map String.toList)).head? = some d := by simp
      rw [this] at hb
      exact hdb (Option.some.inj hb)

/-- **The two export layouts as files**: with either line end and with or without a byte order mark, the
text layer hands the readers exactly the lines of the rendered export (no field holds a line end). -/
theorem decode_export (sh : Nat → String) (bom : Bool) (eol : List Char) (heol : eol = ['\n'] ∨ eol = ['\r', '\n']) (d : Char) (a : Acq)
    (hdn : d ≠ '\n') (hdr : d ≠ '\r') (hdb : d ≠ bomChar)
    (hcleanR : ∀ r ∈ renderRows sh a, ∀ f ∈ r.dropLast, NoEol f)
    (hcleanC : ∀ r ∈ renderCols sh a, ∀ f ∈ r.dropLast, NoEol f) :
    decodeLines (rawText bom eol (renderText d (renderRows sh a))) = renderText d (renderRows sh a) ∧
    decodeLines (rawText bom eol (renderText d (renderCols sh a))) = renderText d (renderCols sh a) := by
  constructor
  · exact decode_table bom eol heol d _ hdn hdr hdb (renderRows_getLast sh a) hcleanR
      (by intro r hr; simp only [renderRows, List.cons_append, List.head?_cons, Option.mem_def, Option.some.injEq] at hr; exact ⟨_, _, hr.symm⟩)
  · exact decode_table bom eol heol d _ hdn hdr hdb (renderCols_getLast sh a) hcleanC
      (by intro r hr; simp only [renderCols, List.cons_append, List.nil_append, List.head?_cons, Option.mem_def, Option.some.injEq] at hr; exact ⟨_, _, hr.symm⟩)

/-! ## non-vacuity: a 2-sample, 2-scan, 2-element acquisition with all five channels -/

section examples

def exAcq : Acq :=
  { samples := ["Sample 1", "2"], nscans := 2, elements := ["31P", "56Fe | 56Fe.16O"],
    channels := ["X [u]", "Y", "Time", "Analog", "Counter"],
    value := fun i s e c => String.ofList [dig i, '.', dig s, dig e, dig c] }

def exShow (s : Nat) : String := String.ofList [dig s]

def exExt : Ext String :=
  { parse := fun s => s, readInt := fun t => if t = "0" then some 0 else if t = "1" then some 1 else none }

/-- the hypotheses of `readRows_render` and `readCols_render` hold for the Counter (4) and the
Analog (3) channel of the example, so all theorems above apply to it -/
example : RowsOK exExt exShow exAcq 4 :=
  { nscans := by decide, nelements := by decide, distinct := by decide,
    labels := by decide, chanIdx := by decide, chans := by decide, scans := by decide }

example : RowsOK exExt exShow exAcq 3 :=
  { nscans := by decide, nelements := by decide, distinct := by decide,
    labels := by decide, chanIdx := by decide, chans := by decide, scans := by decide }

example : ColsOK exExt exShow false exAcq 4 :=
  { nsamples := by decide, sampleNames := by decide, nscans := by decide, nelements := by decide, lines := by decide, distinct := by decide,
    labels := by decide, chanIdx := by decide, chanSelf := by decide, chanMain := by decide, chanEol := by decide,
    chanScan := by decide, chanLabel := by decide, chanValue := by decide, scans := by decide }

example : ColsOK exExt exShow true exAcq 3 :=
  { nsamples := by decide, sampleNames := by decide, nscans := by decide, nelements := by decide, lines := by decide, distinct := by decide,
    labels := by decide, chanIdx := by decide, chanSelf := by decide, chanMain := by decide, chanEol := by decide,
    chanScan := by decide, chanLabel := by decide, chanValue := by decide, scans := by decide }

/-- and the two channels really are different data: `analog_vs_counter` applies with `ia = 3`, `ic = 4`,
and at every pixel the Analog value differs from the Counter value (so the two images differ there) -/
example : specImg exExt false exAcq 4 ≠ specImg exExt false exAcq 3 := by decide
example : ∀ e, e < 2 → ∀ i, i < 2 → ∀ s, s < 2 →
    exExt.parse (fixDec false (exAcq.value i s e 3)) ≠ exExt.parse (fixDec false (exAcq.value i s e 4)) := by decide
example : (specImg exExt false exAcq 3).pixel 1 0 1 = some "0.113" ∧ (specImg exExt false exAcq 4).pixel 1 0 1 = some "0.114" := by decide

/-- `channel_values_only`: an acquisition that differs from the example in the Counter channel only -/
def exAcq' : Acq := { exAcq with value := fun i s e c => if c = 4 then "9" else exAcq.value i s e c }
example : ∀ i s e, exAcq'.value i s e 3 = exAcq.value i s e 3 := by intro i s e; rfl
example : RowsOK exExt exShow exAcq' 3 :=
  { nscans := by decide, nelements := by decide, distinct := by decide,
    labels := by decide, chanIdx := by decide, chans := by decide, scans := by decide }
example : ColsOK exExt exShow false exAcq' 3 :=
  { nsamples := by decide, sampleNames := by decide, nscans := by decide, nelements := by decide, lines := by decide, distinct := by decide,
    labels := by decide, chanIdx := by decide, chanSelf := by decide, chanMain := by decide, chanEol := by decide,
    chanScan := by decide, chanLabel := by decide, chanValue := by decide, scans := by decide }

/-- `readRows_render` with no sample at all: the image without samples -/
def exAcq0 : Acq := { exAcq with samples := [] }
example : RowsOK exExt exShow exAcq0 4 :=
  { nscans := by decide, nelements := by decide, distinct := by decide,
    labels := by decide, chanIdx := by decide, chans := by decide, scans := by decide }
example : readRows exExt false "Counter" (renderRows exShow exAcq0) = some { names := ["31P", "56Fe | 56Fe.16O"], planes := [[], []] } := by
  decide

/-- arbitrary sample names and isotope labels: an acquisition with a `#` in every sample name, in every
label and in every value of a channel that is not read meets the hypotheses of `readRows_render`,
`readCols_render` and of every theorem stated with `RowsOK` / `ColsOK` -/
def exAcqH : Acq :=
  { samples := ["Sample #1", "#2"], nscans := 2, elements := ["44Ca#", "#31P"], channels := ["X [u]", "Counter"],
    value := fun i s e c => if c = 0 then "#" else String.ofList [dig i, '.', dig s, dig e] }
example : RowsOK exExt exShow exAcqH 1 :=
  { nscans := by decide, nelements := by decide, distinct := by decide,
    labels := by decide, chanIdx := by decide, chans := by decide, scans := by decide }
example : ∀ b, ColsOK exExt exShow b exAcqH 1 := by
  intro b
  cases b <;> exact
    { nsamples := by decide, sampleNames := by decide, nscans := by decide, nelements := by decide, lines := by decide, distinct := by decide,
      labels := by decide, chanIdx := by decide, chanSelf := by decide, chanMain := by decide, chanEol := by decide,
      chanScan := by decide, chanLabel := by decide, chanValue := by decide, scans := by decide }
example : (renderText ',' (renderCols exShow exAcqH)).take 4 =
    [",,,,Sample #1,#2,\n", ",,,,<Identifier>,<Identifier>,\n", "MainRuns,0,44Ca#,X [u],#,#,\n", "MainRuns,1,44Ca#,X [u],#,#,\n"] := by decide
example : (specImg exExt false exAcqH 1).names = ["44Ca#", "#31P"] ∧ (specImg exExt false exAcqH 1).pixel 1 0 1 = some "0.11" := by decide

/-- `readColsOld_eq` / `readRowsOld_eq`: the example export carries no `#` -/
example : ∀ r ∈ renderCols exShow exAcq, ∀ g ∈ r, hasHash g = false := by decide
example : ∀ r ∈ (renderRows exShow exAcq).drop 4, ∀ g ∈ r, hasHash g = false := by decide

/-- `readCols_single_line`: one scan of one element -/
example : (lineStarts ["MainRuns", "0", "31P", "Counter", "1.0", "\n"] && lineHas "Counter" ["MainRuns", "0", "31P", "Counter", "1.0", "\n"]) = true ∧
    lineStarts ["", "", "", "", "<Identifier>", "\n"] = false ∧
    (gfSplit (["MainRuns", "0", "31P", "Counter", "1.0", "\n"].map (fixDec false))).isEmpty = false := by decide

/-- `readRows_trailing_blank`: the example export is a table of six lines -/
example : 4 ≤ (renderRows exShow exAcq).length := by decide

def exExtV : Ext V :=
  { parse := fun _ => none, readInt := fun t => if t = "0" then some 0 else if t = "1" then some 1 else none }

/-- the hypotheses of `scantime_render`, `load_renderRows` and `load_renderCols` hold for the example
(Time is channel 2, Counter 4, Analog 3; the example file has no comma outside the delimiters) -/
example : RowsOK exExtV exShow exAcq 2 :=
  { nscans := by decide, nelements := by decide, distinct := by decide,
    labels := by decide, chanIdx := by decide, chans := by decide, scans := by decide }

example : ∀ b, ColsOK exExtV exShow b exAcq 2 := by
  intro b
  cases b <;> exact
    { nsamples := by decide, sampleNames := by decide, nscans := by decide, nelements := by decide, lines := by decide, distinct := by decide,
      labels := by decide, chanIdx := by decide, chanSelf := by decide, chanMain := by decide, chanEol := by decide,
      chanScan := by decide, chanLabel := by decide, chanValue := by decide, scans := by decide }

example : ∀ b, ColsOK exExtV exShow b exAcq 4 := by
  intro b
  cases b <;> exact
    { nsamples := by decide, sampleNames := by decide, nscans := by decide, nelements := by decide, lines := by decide, distinct := by decide,
      labels := by decide, chanIdx := by decide, chanSelf := by decide, chanMain := by decide, chanEol := by decide,
      chanScan := by decide, chanLabel := by decide, chanValue := by decide, scans := by decide }

example : exAcq.chan 2 = "Time" ∧ exAcq.chan 4 = "Counter" ∧ exAcq.chan 3 = "Analog" := by decide
example : ∀ r ∈ renderCols exShow exAcq, ∀ f ∈ r, hasSub "," f = false := by decide
example : ∀ r ∈ renderRows exShow exAcq, ∀ f ∈ r, hasSub "," f = false := by decide
example : ∀ s ∈ exAcq.samples, hasSub "MainRuns" s = false := by decide

/-- `load_text_rows` / `load_text_cols` / `tableOf_renderText`: no field of the example contains `;` -/
example : ∀ r ∈ renderRows exShow exAcq, ∀ f ∈ r, ';' ∉ f.toList := by decide
example : ∀ r ∈ renderCols exShow exAcq, ∀ f ∈ r, ';' ∉ f.toList := by decide
example : (renderText ';' (renderCols exShow exAcq)).take 3 =
    [";;;;Sample 1;2;\n", ";;;;<Identifier>;<Identifier>;\n", "MainRuns;0;31P;X [u];0.000;1.000;\n"] := by decide

/-- `render_not_other` applies to the example -/
example : 0 < exAcq.nscans ∧ 0 < exAcq.elements.length ∧ 0 < exAcq.channels.length := by decide

/-- `sniff_other`: a text that is no export -/
example : otherFile [["A", "B\n"], ["MainRuns", "0", "31P", "Counter", "1.0", "\n"]] = true := by decide


/-! ### histories -/

theorem asked_cases {ci : Nat} (h : ci < 5) : ci = 0 ∨ ci = 1 ∨ ci = 2 ∨ ci = 3 ∨ ci = 4 := by omega

/-- the example export meets `RowsFileOK` / `ColsFileOK` (delimiter `;`, decimal points): every theorem
about calls and histories applies to files written from it -/
example : RowsFileOK exExtV exShow ';' false exAcq :=
  { nscans := by decide, nelements := by decide, nchannels := by decide,
    chans := by
      intro ci hci hask
      rcases asked_cases hci with rfl | rfl | rfl | rfl | rfl
      · rcases hask with h | h | h <;> exact absurd h (by decide)
      · rcases hask with h | h | h <;> exact absurd h (by decide)
      all_goals exact { nscans := by decide, nelements := by decide, distinct := by decide,
                        labels := by decide, chanIdx := by decide, chans := by decide, scans := by decide }
    decDelim := by decide, noComma := fun _ => by decide, free := by decide, delimMain := by decide }

example : ColsFileOK exExtV exShow ';' false exAcq :=
  { nscans := by decide, nelements := by decide, nchannels := by decide,
    chans := by
      intro ci hci hask b
      rcases asked_cases hci with rfl | rfl | rfl | rfl | rfl
      · rcases hask with h | h | h <;> exact absurd h (by decide)
      · rcases hask with h | h | h <;> exact absurd h (by decide)
      all_goals cases b <;> exact
        { nsamples := by decide, sampleNames := by decide, nscans := by decide, nelements := by decide, lines := by decide, distinct := by decide,
          labels := by decide, chanIdx := by decide, chanSelf := by decide, chanMain := by decide, chanEol := by decide,
          chanScan := by decide, chanLabel := by decide, chanValue := by decide, scans := by decide }
    sampleMain := by decide, decDelim := by decide, noComma := fun _ => by decide, free := by decide, delimMain := by decide,
    noTime := fun h => absurd h (by decide) }

/-- an export with decimal commas and without a Time channel (`;`-delimited), for the `dec = true` and the
no-Time branches of the same theorems -/
def exAcqC : Acq :=
  { samples := ["Sample 1", "2"], nscans := 2, elements := ["31P", "63Cu"], channels := ["Analog", "Counter"],
    value := fun i s e c => String.ofList [dig i, ',', dig s, dig e, dig c] }

theorem asked_cases2 {ci : Nat} (h : ci < 2) : ci = 0 ∨ ci = 1 := by omega

example : RowsFileOK exExtV exShow ';' true exAcqC :=
  { nscans := by decide, nelements := by decide, nchannels := by decide,
    chans := by
      intro ci hci _
      rcases asked_cases2 hci with rfl | rfl
      all_goals exact { nscans := by decide, nelements := by decide, distinct := by decide,
                        labels := by decide, chanIdx := by decide, chans := by decide, scans := by decide }
    decDelim := fun _ => rfl, noComma := fun h => absurd h (by decide), free := by decide, delimMain := by decide }

example : ColsFileOK exExtV exShow ';' true exAcqC :=
  { nscans := by decide, nelements := by decide, nchannels := by decide,
    chans := by
      intro ci hci _ b
      rcases asked_cases2 hci with rfl | rfl
      all_goals cases b <;> exact
        { nsamples := by decide, sampleNames := by decide, nscans := by decide, nelements := by decide, lines := by decide, distinct := by decide,
          labels := by decide, chanIdx := by decide, chanSelf := by decide, chanMain := by decide, chanEol := by decide,
          chanScan := by decide, chanLabel := by decide, chanValue := by decide, scans := by decide }
    sampleMain := by decide, decDelim := fun _ => rfl, noComma := fun h => absurd h (by decide), free := by decide, delimMain := by decide,
    noTime := fun _ =>
      { nsamples := by decide, sampleNames := by decide, chanMain := by decide, chanEol := by decide, chanScan := by decide,
        chanLabel := by decide, chanChan := by decide, chanValue := by decide } }

example : exAcqC.chanIdx "Time" = none ∧ exAcqC.chanIdx "Counter" = some 1 ∧ exAcq.chanIdx "Time" = some 2 := by decide

/-- a text that is no export -/
example : ContentOK exExtV exShow (.other ["1.0,2.0,3.0\n", "4.0,5.0,6.0\n"]) := by
  show otherFile _ = true
  decide

/-- the layout name a call handed back, if it was a sniff -/
def Out.fmt? : Out → Option Fmt
  | .fmt f => some f
  | _ => none

/-- one path, three files one after the other with the **same** modification time: a rows export, the
columns export of the same acquisition, a text image; each is sniffed after it was written -/
def exHistory : List SEvent :=
  [.write 0 7 (.rows ';' false exAcq), .call 0 .sniff, .write 0 7 (.cols ';' false exAcq), .call 0 .sniff,
   .write 0 7 (.other ["1.0,2.0,3.0\n", "4.0,5.0,6.0\n"]), .call 0 .sniff, .call 0 .sniff]

/-- the same sniffer with its answers cached per (path, modification time) — the optimisation of seeded
change C03-c1; every other call is answered as the code does -/
def runSniffCached (x : Ext V) : List ((Nat × Nat) × Fmt) → FS → List Event → List Out
  | _, _, [] => []
  | cache, fs, .write p mt ls :: rest => runSniffCached x cache (fs.write p { mtime := mt, lines := ls }) rest
  | cache, fs, .call p c :: rest =>
    match fs p with
    | none => Out.noFile :: runSniffCached x cache fs rest
    | some f =>
      match c with
      | .sniff =>
        match cache.lookup (p, f.mtime) with
        | some r => Out.fmt r :: runSniffCached x cache fs rest
        | none => Out.fmt (sniffText f.lines) :: runSniffCached x (((p, f.mtime), sniffText f.lines) :: cache) fs rest
      | c => callText x f.lines c :: runSniffCached x cache fs rest

/-- **Why histories are checked (witness).** On `exHistory` the code as it is names each file correctly
— as `history_spec` says it must — while the sniffer with a (path, modification time) cache answers
`rows` for the columns export and for the text image: a mechanism with state between calls breaks the
conclusion of `history_spec`, which therefore is no consequence of the single-call theorems alone.
(Evaluated by the kernel on this one history.) -/
theorem history_cache_witness :
    (specHistory exExtV (fun _ => none) exHistory).map (fun o => o.bind Out.fmt?)
      = [some .rows, some .columns, some .unknown, some .unknown] ∧
    (runHistory exExtV (fun _ => none) (exHistory.map (SEvent.event exShow))).map Out.fmt?
      = [some .rows, some .columns, some .unknown, some .unknown] ∧
    (runSniffCached exExtV [] (fun _ => none) (exHistory.map (SEvent.event exShow))).map Out.fmt?
      = [some .rows, some .rows, some .rows, some .rows] := by
  decide +kernel

/-- `history_spec_fresh` applies to `exHistory` -/
example : ∀ p mt c, SEvent.write p mt c ∈ exHistory → c = .rows ';' false exAcq ∨ c = .cols ';' false exAcq ∨
    c = .other ["1.0,2.0,3.0\n", "4.0,5.0,6.0\n"] := by
  intro p mt c h
  simp only [exHistory, List.mem_cons, SEvent.write.injEq, List.mem_nil_iff, or_false, reduceCtorEq, false_or] at h
  rcases h with ⟨_, _, rfl⟩ | ⟨_, _, rfl⟩ | ⟨_, _, rfl⟩
  · exact Or.inl rfl
  · exact Or.inr (Or.inl rfl)
  · exact Or.inr (Or.inr rfl)

/-- `load_full_false`, `readData_text_rows` … on the example: `;` is no letter of `MainRuns` and occurs in no field -/
example : ';' ∉ "MainRuns".toList ∧ ',' ∉ "MainRuns".toList := by decide
example : exAcq.chan 4 = chanOf false ∧ exAcq.chan 3 = chanOf true := by decide


/-- `decode_export` on the example: no field of either layout holds a line end; the raw characters of the
columns file with a byte order mark and `\r\n` line ends, and what the text layer makes of them -/
example : (∀ r ∈ renderRows exShow exAcq, ∀ f ∈ r.dropLast, '\n' ∉ f.toList ∧ '\r' ∉ f.toList) ∧
    (∀ r ∈ renderCols exShow exAcq, ∀ f ∈ r.dropLast, '\n' ∉ f.toList ∧ '\r' ∉ f.toList) := by decide
example : ';' ≠ '\n' ∧ ';' ≠ '\r' ∧ ';' ≠ bomChar := by decide
example : (rawText true ['\r', '\n'] (renderText ';' (renderCols exShow exAcqC))).take 22 =
    [bomChar, ';', ';', ';', ';', 'S', 'a', 'm', 'p', 'l', 'e', ' ', '1', ';', '2', ';', '\r', '\n', ';', ';', ';', ';'] := by decide
example : (decodeLines (rawText true ['\r', '\n'] (renderText ';' (renderCols exShow exAcqC)))).take 3 =
    [";;;;Sample 1;2;\n", ";;;;<Identifier>;<Identifier>;\n", "MainRuns;0;31P;Analog;0,000;1,000;\n"] := by decide +kernel
/-- a lone `\r` is a line end too, a second U+FEFF is text -/
example : decodeLines [bomChar, bomChar, 'a', '\r', 'b', '\r', '\n', '\n', 'c'] = [String.ofList [bomChar, 'a', '\n'], "b\n", "\n", "c"] := by decide

end examples

end Pew.Thermo
