import PewProofs.Sync

/-! # C08 — property theorems (statements only depend on `PewModel.Sync`) -/
namespace Pew.Sync

/-! ## stage coordinate → pixel index -/

/-- The repaired conversion `np.round(q, 6).astype(int)` returns the pixel `j` for every value
within 5e-7 of `j` — in particular for the float quotient of four-decimal coordinates, which is
within 1e-9 of the exact integer quotient. -/
theorem pixel_index_robust (j : Nat) (δ : Rat) (h1 : -(5 / 10000000) < δ) (h2 : δ < 5 / 10000000) :
    pixIdx ((j : Rat) + δ) = (j : Int) :=
  pixIdx_near j δ h1 h2

example : pixIdx ((32 : Nat) + (-(1 : Rat) / 1000000000)) = 32 :=
  pixel_index_robust 32 _ (by norm_num) (by norm_num)

/-- The conversion before the repair, `q.astype(int)`, returns the previous pixel as soon as the
quotient is the least bit below the integer: this is why truncation is wrong for coordinates
printed with four decimals. -/
theorem pixel_index_trunc_fragile (j : Nat) (hj : 1 ≤ j) (δ : Rat) (h1 : -1 < δ) (h2 : δ < 0) :
    pixIdxTrunc ((j : Rat) + δ) = (j : Int) - 1 := by
  unfold pixIdxTrunc truncR
  have hj' : (1 : Rat) ≤ (j : Rat) := by exact_mod_cast hj
  rw [if_pos (by linarith)]
  exact floor_eq_of _ _ (by push_cast; linarith) (by push_cast; linarith)

example : pixIdxTrunc ((32 : Nat) + (-(1 : Rat) / 1000000000)) = 31 := by
  have := pixel_index_trunc_fragile 32 (by norm_num) (-(1 : Rat) / 1000000000) (by norm_num) (by norm_num)
  simpa using this

/-- A coordinate that lies `j` spot sizes above the origin (both with four decimals, spot size
`u`·1e-4 µm > 0) is pixel `j`, also when the quotient is perturbed by less than 5e-7. -/
theorem pixel_of_aligned (o : Int) (u j : Nat) (hu : 0 < u) (δ : Rat)
    (h1 : -(5 / 10000000) < δ) (h2 : δ < 5 / 10000000) :
    pixIdx (quot o ((u : Rat) / 10000) (o + (j * u : Nat)) + δ) = (j : Int) :=
  pixIdx_aligned o u j hu δ h1 h2

example : toPix 803946132 ((11000 : Nat) / 10000) (803946132 + (32 * 11000 : Nat)) = 32 := by
  have := pixel_of_aligned 803946132 11000 32 (by norm_num) 0 (by norm_num) (by norm_num)
  simpa [toPix] using this

/-! ## placement of one line -/

/-- For each of the four directions of travel (left-to-right, right-to-left, top-to-bottom,
bottom-to-top; a zero-length segment writes nothing): with `L = g.len` pixels and `n` samples the
last `min n L` samples land on the last `min n L` pixels of travel, in travel order, and nothing
else is written. -/
theorem line_placement {α} (xs : List α) (g : Seg) (hax : g.y0 = g.y1 ∨ g.x0 = g.x1) :
    ∃ w, segWrites xs g = some w ∧
      ∀ (p : Int × Int) (v : α), (p, v) ∈ w ↔
        ∃ k : Nat, k < min xs.length g.len ∧ p = g.cellAt (g.len - 1 - k) ∧ xs[xs.length - 1 - k]? = some v :=
  segWrites_spec xs g hax

/-- one sample per pixel (`n = L`): travel step `j` of the line holds sample `j` — the line is
reproduced, in the orientation of travel, for all four directions -/
theorem line_exact {α} (xs : List α) (g : Seg) (hax : g.y0 = g.y1 ∨ g.x0 = g.x1) (hn : xs.length = g.len) :
    ∃ w, segWrites xs g = some w ∧
      ∀ (p : Int × Int) (v : α), (p, v) ∈ w ↔ ∃ j : Nat, j < g.len ∧ p = g.cellAt j ∧ xs[j]? = some v := by
  obtain ⟨w, hw, hmem⟩ := line_placement xs g hax
  refine ⟨w, hw, ?_⟩
  intro p v
  rw [hmem, hn, Nat.min_self]
  constructor
  · rintro ⟨k, hk, hp, hv⟩; exact ⟨g.len - 1 - k, by omega, hp, hv⟩
  · rintro ⟨j, hj, hp, hv⟩
    refine ⟨g.len - 1 - j, by omega, ?_, ?_⟩
    · rw [hp]; congr 1; omega
    · rw [← hv]; congr 1; omega

/-- right-to-left line of 3 pixels with the `On` coordinate at pixel 5: samples a, b, c land on
pixels 4, 3, 2 -/
example : segWrites ["a", "b", "c"] { t0 := 0, t1 := 3, x0 := 5, x1 := 2, y0 := 1, y1 := 1 }
    = some [((1, 2), "c"), ((1, 3), "b"), ((1, 4), "a")] := by decide

/-- two samples on a top-to-bottom line of 3 pixels: they land on the last two pixels of travel -/
example : segWrites ["a", "b"] { t0 := 0, t1 := 2, x0 := 7, x1 := 7, y0 := 0, y1 := 3 }
    = some [((1, 7), "a"), ((2, 7), "b")] := by decide

/-- no pixel is assigned twice within one line -/
theorem line_injective {α} (lo hi : Int) (flip : Bool) (xs : List α) :
    ((place1 lo hi flip xs).map Prod.fst).Nodup := place1_keys_nodup lo hi flip xs

/-! ## the image is the union of its lines -/

/-- One sample per pixel on every imported line (`t1 − t0 = len`), lines that do not share a pixel:
every pixel visited at travel step `j` of a line holds that line's `j`-th sample, and every pixel
that no line visits keeps the NaN fill.  (All eight scan patterns are lists of such lines.) -/
theorem image_of_lines (n : Nat) (segs : List Seg)
    (hex : ∀ g ∈ segs, (g.y0 = g.y1 ∨ g.x0 = g.x1) ∧ g.t0 ≤ g.t1 ∧ g.t1 ≤ n ∧ g.t1 - g.t0 = g.len)
    (hdisj : segs.Pairwise (fun g h => ∀ a b, a < g.len → b < h.len → g.cellAt a ≠ h.cellAt b)) :
    ∃ w, allWrites n segs = some w ∧
      (∀ g ∈ segs, ∀ j, j < g.len → lookupLast w (g.cellAt j) = some (g.t0 + j)) ∧
      (∀ p, (∀ g ∈ segs, ∀ j, j < g.len → p ≠ g.cellAt j) → lookupLast w p = none) := by
  induction segs with
  | nil => exact ⟨[], rfl, by simp, by intro p _; rfl⟩
  | cons g gs ih =>
    rw [List.pairwise_cons] at hdisj
    obtain ⟨ws, hws, ih1, ih2⟩ := ih (fun g' hg' => hex g' (by simp [hg'])) hdisj.2
    obtain ⟨hax, h01, h1n, hlen⟩ := hex g (by simp)
    have hxl : (pySlice (List.range n) g.t0 g.t1).length = g.len := by
      rw [pySlice_range_length n _ _ h1n h01, hlen]
    obtain ⟨wg, hwg, hmem⟩ := line_exact (pySlice (List.range n) g.t0 g.t1) g hax hxl
    have hnd := segWrites_keys_nodup _ g wg hwg
    refine ⟨wg ++ ws, ?_, ?_, ?_⟩
    · simp [allWrites, hwg, hws]
    · intro g' hg' j hj
      rw [lookupLast_append]
      rcases List.mem_cons.mp hg' with h | h
      · subst h
        have hnone : lookupLast ws (g'.cellAt j) = none :=
          ih2 _ (fun h hh b hb => hdisj.1 h hh j b hj hb)
        rw [hnone, Option.none_or]
        exact lookupLast_of_mem wg hnd _ _ ((hmem _ _).mpr ⟨j, hj, rfl,
          pySlice_range_getElem? n _ _ j h1n (by omega)⟩)
      · rw [ih1 g' h j hj]; rfl
    · intro p hp
      rw [lookupLast_append, ih2 p (fun g' hg' j hj => hp g' (by simp [hg']) j hj)]
      simp only [Option.none_or]
      rw [lookupLast_none_iff]
      intro e he
      obtain ⟨j, hj, hc, _⟩ := (hmem e.1 e.2).mp he
      rw [hc]
      exact (hp g (by simp) j hj).symm

/-- a serpentine raster of two lines of three pixels (left-to-right, then right-to-left one row
down), samples 0–2 and 4–6 (sample 3 was taken in the gap): the image is the ground truth -/
example : (allWrites 7 [{ t0 := 0, t1 := 3, x0 := 0, x1 := 3, y0 := 0, y1 := 0 },
                        { t0 := 4, t1 := 7, x0 := 3, x1 := 0, y0 := 1, y1 := 1 }]).map
      (fun w => [[lookupLast w (0, 0), lookupLast w (0, 1), lookupLast w (0, 2), lookupLast w (0, 3)],
                 [lookupLast w (1, 0), lookupLast w (1, 1), lookupLast w (1, 2), lookupLast w (1, 3)]])
    = some [[some 0, some 1, some 2, none], [some 6, some 5, some 4, none]] := by decide

/-! ## event times → samples -/

/-- With sorted sample times, the index range `[searchsorted t0, searchsorted t1)` computed on the
shifted times is exactly the set of samples whose time, counted from the first sample, lies in
`[t0 − d, t1 − d)`: a delay `d` makes an event at `t` pick up the signal recorded at `t − d`. -/
theorem sample_range (ts : List Rat) (hs : ts.Pairwise (· ≤ ·)) (d a b : Rat) (k : Nat) :
    k ∈ pySlice (List.range ts.length) (searchsorted (shiftTimes ts d) a) (searchsorted (shiftTimes ts d) b) ↔
      ∃ t, ts[k]? = some t ∧ a - d ≤ t - minRat ts ∧ t - minRat ts < b - d := by
  rw [mem_pySlice_range]
  have hs' := shiftTimes_sorted ts d hs
  constructor
  · rintro ⟨h1, h2, h3⟩
    have ht : ts[k]? = some ts[k] := List.getElem?_eq_getElem h3
    have ht' : (shiftTimes ts d)[k]? = some (ts[k] - minRat ts + d) := by rw [shiftTimes_getElem?, ht]; rfl
    refine ⟨ts[k], ht, ?_, ?_⟩
    · have := (lt_searchsorted_iff _ hs' a k _ ht').not
      have h := this.mp (by omega)
      linarith [not_lt.mp h]
    · have := (lt_searchsorted_iff _ hs' b k _ ht').mp h2
      linarith
  · rintro ⟨t, ht, h1, h2⟩
    have hk : k < ts.length := by
      by_contra hcon
      rw [List.getElem?_eq_none (by omega)] at ht; simp at ht
    have ht' : (shiftTimes ts d)[k]? = some (t - minRat ts + d) := by rw [shiftTimes_getElem?, ht]; rfl
    refine ⟨?_, ?_, hk⟩
    · have := (lt_searchsorted_iff _ hs' a k _ ht').not
      have h : ¬ k < searchsorted (shiftTimes ts d) a := this.mpr (by linarith)
      omega
    · exact (lt_searchsorted_iff _ hs' b k _ ht').mpr (by linarith)

/-- four samples at 10, 11, 12, 13 s, delay 1/2 s, laser on from 1 s to 3 s: the samples recorded
at 1 s and 2 s after the first one (indices 1 and 2) are in the range, index 3 is not -/
example : (2 : Nat) ∈ pySlice (List.range 4) (searchsorted (shiftTimes [10, 11, 12, 13] (1 / 2)) 1)
    (searchsorted (shiftTimes [10, 11, 12, 13] (1 / 2)) 3) :=
  (sample_range [10, 11, 12, 13] (by norm_num) (1 / 2) 1 3 2).mpr ⟨12, rfl, by norm_num [minRat], by norm_num [minRat]⟩

/-- Every sample that ends up in the image was recorded while the laser was on during one of the
imported lines (laser time counted from the first firing, signal time from its first sample,
shifted by the delay): samples taken while the laser was off are discarded. -/
theorem off_samples_discarded (ts : List Rat) (hs : ts.Pairwise (· ≤ ·)) (d : Rat) (first : Row)
    (ox oy : Int) (sx sy : Rat) (prs : List (Row × Row)) (w : List ((Int × Int) × Nat))
    (h : allWrites ts.length (prs.map (mkSeg (shiftTimes ts d) first ox oy sx sy)) = some w)
    (p : Int × Int) (k : Nat) (hk : lookupLast w p = some k) :
    ∃ pr ∈ prs, ∃ t, ts[k]? = some t ∧
      laserTime first pr.1 - d ≤ t - minRat ts ∧ t - minRat ts < laserTime first pr.2 - d := by
  obtain ⟨g, hg, hv⟩ := allWrites_values _ _ _ h _ (lookupLast_mem w p k hk)
  obtain ⟨pr, hpr, rfl⟩ := List.mem_map.mp hg
  exact ⟨pr, hpr, (sample_range ts hs d _ _ k).mp hv⟩

def exOn : Row := { time := 1000, seq := 1, x := 0, y := 0, on := true, spot := "1" }
def exOff : Row := { time := 3000, seq := 1, x := 20000, y := 0, on := false, spot := "1" }

/-- laser on from 1 s to 3 s over two pixels of 1 µm, samples at 10, 11, 12, 13 s, delay 1/2 s:
samples 1 and 2 are placed, samples 0 and 3 (laser off) are not -/
example : (allWrites 4 ([(exOn, exOff)].map
      (mkSeg (shiftTimes [10, 11, 12, 13] (1 / 2)) { exOn with time := 0 } 0 0 1 1))).map
    (fun w => [lookupLast w (0, 0), lookupLast w (0, 1), lookupLast w (0, 2)])
    = some [some 1, some 2, none] := by
  decide +kernel

/-! ## selection of a pattern -/

/-- Forward fill and selection: in a log made of patterns whose header rows carry non-decreasing
sequence numbers (≥ −1) and whose other rows leave the column blank, selecting `sel` keeps exactly
the rows of the patterns whose number is in `sel`, each labelled with its pattern's number —
whatever the position of the wanted pattern. -/
theorem select_pattern (bs : List Block) (sel : List Int)
    (hbody : ∀ b ∈ bs, ∀ r ∈ b.body, r.seq = -1)
    (hlow : ∀ b ∈ bs, -1 ≤ b.hdr.seq)
    (hinc : bs.Pairwise (fun a b => a.hdr.seq ≤ b.hdr.seq)) :
    selectRows (some sel) (bs.flatMap Block.rows)
      = (bs.filter (fun b => sel.contains b.hdr.seq)).flatMap (fun b => b.rows.map (setSeq · b.hdr.seq)) :=
  select_blocks bs sel hbody hlow hinc

def exRow (s : Int) : Row := { time := 0, seq := s, x := 0, y := 0, on := false, spot := "1" }

/-- the hypotheses hold for a log of two patterns numbered 1 and 3 -/
example : (∀ b ∈ [Block.mk (exRow 1) [exRow (-1)], Block.mk (exRow 3) [exRow (-1), exRow (-1)]],
      ∀ r ∈ b.body, r.seq = -1) ∧
    (∀ b ∈ [Block.mk (exRow 1) [exRow (-1)], Block.mk (exRow 3) [exRow (-1), exRow (-1)]], -1 ≤ b.hdr.seq) ∧
    [Block.mk (exRow 1) [exRow (-1)], Block.mk (exRow 3) [exRow (-1), exRow (-1)]].Pairwise
      (fun a b => a.hdr.seq ≤ b.hdr.seq) := by
  simp [exRow]

/-! ## reported parameters -/

/-- The reported origin is the per-axis minimum of the imported `On`/`Off` coordinates: it is one
of them and no imported coordinate lies below it (so every pixel index is ≥ 0 and the image starts
at pixel 0). -/
theorem origin_spec (xs : List Int) (hne : xs ≠ []) :
    minList xs ∈ xs ∧ ∀ x ∈ xs, minList xs ≤ x :=
  ⟨minList_mem xs hne, fun x hx => minList_le xs x hx⟩

example : minList [85677972, 96097972, 85677972, 96097972] = 85677972 := by decide

/-! ## the top-level function -/

/-- The top-level function reports the parameters of the log: the spot size parsed from the first
imported `On` row and, as origin, the per-axis minimum of the imported `On`/`Off` coordinates. -/
theorem params_spec (rows : List Row) (sel : Option (List Int)) (ts : List Rat) (delay : Rat)
    (isnan : Nat → Bool) (squeeze : Bool) (r : Result)
    (h : sync rows sel ts delay isnan squeeze = .ok r) :
    ∃ prs first, pairs (selectRows sel rows) = some prs ∧ prs.head? = some first ∧
      spotSize first.1.spot = some r.spot ∧
      r.origin = (minList (prs.flatMap (fun p => [p.1.x, p.2.x])), minList (prs.flatMap (fun p => [p.1.y, p.2.y]))) := by
  unfold sync at h
  simp only [pure, Except.pure] at h
  split at h
  · rename_i prs hprs
    split at h
    · rename_i first hfirst
      split at h
      · rename_i spot hspot
        split at h
        · rename_i writes hw
          refine ⟨prs, first, hprs, hfirst, ?_⟩
          split at h
          · simp at h
            subst h
            exact ⟨hspot, rfl⟩
          · simp at h
            subst h
            exact ⟨hspot, rfl⟩
        · simp [throw, throwThe, MonadExceptOf.throw] at h
      · simp [throw, throwThe, MonadExceptOf.throw] at h
    · simp [throw, throwThe, MonadExceptOf.throw] at h
  · simp [throw, throwThe, MonadExceptOf.throw] at h

/-- the top-level function: every sample index found in the returned image was recorded while the
laser was on during one of the imported lines -/
theorem sync_samples_were_on (rows : List Row) (sel : Option (List Int)) (ts : List Rat) (delay : Rat)
    (isnan : Nat → Bool) (squeeze : Bool) (r : Result) (hs : ts.Pairwise (· ≤ ·))
    (h : sync rows sel ts delay isnan squeeze = .ok r) :
    ∃ prs first, pairs (selectRows sel rows) = some prs ∧ prs.head? = some first ∧
      ∀ row ∈ r.pixels, ∀ k : Nat, some k ∈ row →
        ∃ pr ∈ prs, ∃ t, ts[k]? = some t ∧
          laserTime first.1 pr.1 - delay ≤ t - minRat ts ∧ t - minRat ts < laserTime first.1 pr.2 - delay := by
  unfold sync at h
  simp only [pure, Except.pure] at h
  split at h
  · rename_i prs hprs
    split at h
    · rename_i first hfirst
      split at h
      · rename_i spot hspot
        split at h
        · rename_i writes hw
          refine ⟨prs, first, hprs, hfirst, ?_⟩
          have key : ∀ (h' w' : Nat) (row : List (Option Nat)),
              row ∈ (List.range h').map (fun (r : Nat) => (List.range w').map (fun (c : Nat) =>
                lookupLast writes ((r : Int), (c : Int)))) → ∀ k : Nat, some k ∈ row →
              ∃ pr ∈ prs, ∃ t, ts[k]? = some t ∧
                laserTime first.1 pr.1 - delay ≤ t - minRat ts ∧ t - minRat ts < laserTime first.1 pr.2 - delay := by
            intro h' w' row hrow k hk
            obtain ⟨rr, _, rfl⟩ := List.mem_map.mp hrow
            obtain ⟨cc, _, hcc⟩ := List.mem_map.mp hk
            exact off_samples_discarded ts hs delay first.1 _ _ _ _ prs writes hw _ k hcc
          split at h
          · simp at h
            subst h
            intro row hrow k hk
            obtain ⟨row', hrow', hk'⟩ := squeezeImg_mem _ _ _ row hrow k hk
            exact key _ _ row' hrow' k hk'
          · simp at h
            subst h
            intro row hrow k hk
            exact key _ _ row hrow k hk
        · simp [throw, throwThe, MonadExceptOf.throw] at h
      · simp [throw, throwThe, MonadExceptOf.throw] at h
    · simp [throw, throwThe, MonadExceptOf.throw] at h
  · simp [throw, throwThe, MonadExceptOf.throw] at h

/-! ## stretch (NOT proved): end to end

The full statement

    theorem sync_render (a : Acq) (sel) (h : truthHyp a sel = true) (hdisjoint : selected patterns do not overlap) :
      ∀ rd, render a sel = some rd →
        ∃ r, sync rd.rows sel rd.times rd.delay isnan false = .ok r ∧
          r.origin = truthOrigin a sel ∧ ∀ row col, pixel r row col = truthImage a sel … row col

composes the theorems above: `select_pattern` (the rendered log is a list of blocks), `origin_spec`
and `pixel_of_aligned` (every rendered coordinate is the origin plus a multiple of the spot size),
`sample_range` (mid-dwell samples of a line are exactly the samples in its On/Off interval, gap
samples are in none), `image_of_lines` (the image is the union of the lines, each in travel order).
The composition itself — threading the clock and the sample counter through `emitAll` — is not
machine-checked; it is exercised by the correspondence check (`spec` = `truthImage`, `model` =
`sync ∘ render`, both evaluated by the driver on every generated acquisition). -/

end Pew.Sync
