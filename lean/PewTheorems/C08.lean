import PewProofs.SyncText

/-! # C08 — property theorems (statements only depend on `PewModel.Sync`) -/
namespace Pew.Sync

/-! ## stage coordinate → pixel index -/

/-- The repaired conversion `np.round(q, 6).astype(int)` returns the pixel `j` for every value
within 5e-7 of `j` — in particular for the float quotient of four-decimal coordinates, which is
within 1e-9 of the exact integer quotient. -/
theorem pixel_index_robust (j : Nat) (δ : Rat) (h1 : -(5 / 10000000) < δ) (h2 : δ < 5 / 10000000) :
    pixIdx ((j : Rat) + δ) = (j : Int) :=
  pixIdx_near j δ h1 h2

example : pixIdx ((32 : Nat) + (-(1 : Rat) / 1000000000)) = 32 :=
  pixel_index_robust 32 _ (by norm_num) (by norm_num)

/-- The conversion before the repair, `q.astype(int)`, returns the previous pixel as soon as the
quotient is the least bit below the integer: this is why truncation is wrong for coordinates
printed with four decimals. -/
theorem pixel_index_trunc_fragile (j : Nat) (hj : 1 ≤ j) (δ : Rat) (h1 : -1 < δ) (h2 : δ < 0) :
    pixIdxTrunc ((j : Rat) + δ) = (j : Int) - 1 := by
  unfold pixIdxTrunc truncR
  have hj' : (1 : Rat) ≤ (j : Rat) := by exact_mod_cast hj
  rw [if_pos (by linarith)]
  exact floor_eq_of _ _ (by push_cast; linarith) (by push_cast; linarith)

example : pixIdxTrunc ((32 : Nat) + (-(1 : Rat) / 1000000000)) = 31 := by
  have := pixel_index_trunc_fragile 32 (by norm_num) (-(1 : Rat) / 1000000000) (by norm_num) (by norm_num)
  simpa using this

/-- A coordinate that lies `j` spot sizes above the origin (both with four decimals, spot size
`u`·1e-4 µm > 0) is pixel `j`, also when the quotient is perturbed by less than 5e-7. -/
theorem pixel_of_aligned (o : Int) (u j : Nat) (hu : 0 < u) (δ : Rat)
    (h1 : -(5 / 10000000) < δ) (h2 : δ < 5 / 10000000) :
    pixIdx (quot o ((u : Rat) / 10000) (o + (j * u : Nat)) + δ) = (j : Int) :=
  pixIdx_aligned o u j hu δ h1 h2

example : toPix 803946132 ((11000 : Nat) / 10000) (803946132 + (32 * 11000 : Nat)) = 32 := by
  have := pixel_of_aligned 803946132 11000 32 (by norm_num) 0 (by norm_num) (by norm_num)
  simpa [toPix] using this

/-! ## placement of one line -/

/-- For each of the four directions of travel (left-to-right, right-to-left, top-to-bottom,
bottom-to-top; a zero-length segment writes nothing): with `L = g.len` pixels and `n` samples the
last `min n L` samples land on the last `min n L` pixels of travel, in travel order, and nothing
else is written. -/
theorem line_placement {α} (xs : List α) (g : Seg) (hax : g.y0 = g.y1 ∨ g.x0 = g.x1) :
    ∃ w, segWrites xs g = some w ∧
      ∀ (p : Int × Int) (v : α), (p, v) ∈ w ↔
        ∃ k : Nat, k < min xs.length g.len ∧ p = g.cellAt (g.len - 1 - k) ∧ xs[xs.length - 1 - k]? = some v :=
  segWrites_spec xs g hax

/-- one sample per pixel (`n = L`): travel step `j` of the line holds sample `j` — the line is
reproduced, in the orientation of travel, for all four directions -/
theorem line_exact {α} (xs : List α) (g : Seg) (hax : g.y0 = g.y1 ∨ g.x0 = g.x1) (hn : xs.length = g.len) :
    ∃ w, segWrites xs g = some w ∧
      ∀ (p : Int × Int) (v : α), (p, v) ∈ w ↔ ∃ j : Nat, j < g.len ∧ p = g.cellAt j ∧ xs[j]? = some v := by
  obtain ⟨w, hw, hmem⟩ := line_placement xs g hax
  refine ⟨w, hw, ?_⟩
  intro p v
  rw [hmem, hn, Nat.min_self]
  constructor
  · rintro ⟨k, hk, hp, hv⟩; exact ⟨g.len - 1 - k, by omega, hp, hv⟩
  · rintro ⟨j, hj, hp, hv⟩
    refine ⟨g.len - 1 - j, by omega, ?_, ?_⟩
    · rw [hp]; congr 1; omega
    · rw [← hv]; congr 1; omega

/-- right-to-left line of 3 pixels with the `On` coordinate at pixel 5: samples a, b, c land on
pixels 4, 3, 2 -/
example : segWrites ["a", "b", "c"] { t0 := 0, t1 := 3, x0 := 5, x1 := 2, y0 := 1, y1 := 1 }
    = some [((1, 2), "c"), ((1, 3), "b"), ((1, 4), "a")] := by decide

/-- two samples on a top-to-bottom line of 3 pixels: they land on the last two pixels of travel -/
example : segWrites ["a", "b"] { t0 := 0, t1 := 2, x0 := 7, x1 := 7, y0 := 0, y1 := 3 }
    = some [((1, 7), "a"), ((2, 7), "b")] := by decide

/-- no pixel is assigned twice within one line -/
theorem line_injective {α} (lo hi : Int) (flip : Bool) (xs : List α) :
    ((place1 lo hi flip xs).map Prod.fst).Nodup := place1_keys_nodup lo hi flip xs

/-! ## the image is the union of its lines -/

/-- One sample per pixel on every imported line (`t1 − t0 = len`), lines that do not share a pixel:
every pixel visited at travel step `j` of a line holds that line's `j`-th sample, and every pixel
that no line visits keeps the NaN fill.  (All eight scan patterns are lists of such lines.) -/
theorem image_of_lines (n : Nat) (segs : List Seg)
    (hex : ∀ g ∈ segs, (g.y0 = g.y1 ∨ g.x0 = g.x1) ∧ g.t0 ≤ g.t1 ∧ g.t1 ≤ n ∧ g.t1 - g.t0 = g.len)
    (hdisj : segs.Pairwise (fun g h => ∀ a b, a < g.len → b < h.len → g.cellAt a ≠ h.cellAt b)) :
    ∃ w, allWrites n segs = some w ∧
      (∀ g ∈ segs, ∀ j, j < g.len → lookupLast w (g.cellAt j) = some (g.t0 + j)) ∧
      (∀ p, (∀ g ∈ segs, ∀ j, j < g.len → p ≠ g.cellAt j) → lookupLast w p = none) := by
  induction segs with
  | nil => exact ⟨[], rfl, by simp, by intro p _; rfl⟩
  | cons g gs ih =>
    rw [List.pairwise_cons] at hdisj
    obtain ⟨ws, hws, ih1, ih2⟩ := ih (fun g' hg' => hex g' (by simp [hg'])) hdisj.2
    obtain ⟨hax, h01, h1n, hlen⟩ := hex g (by simp)
    have hxl : (pySlice (List.range n) g.t0 g.t1).length = g.len := by
      rw [pySlice_range_length n _ _ h1n h01, hlen]
    obtain ⟨wg, hwg, hmem⟩ := line_exact (pySlice (List.range n) g.t0 g.t1) g hax hxl
    have hnd := segWrites_keys_nodup _ g wg hwg
    refine ⟨wg ++ ws, ?_, ?_, ?_⟩
    · simp [allWrites, hwg, hws]
    · intro g' hg' j hj
      rw [lookupLast_append]
      rcases List.mem_cons.mp hg' with h | h
      · subst h
        have hnone : lookupLast ws (g'.cellAt j) = none :=
          ih2 _ (fun h hh b hb => hdisj.1 h hh j b hj hb)
        rw [hnone, Option.none_or]
        exact lookupLast_of_mem wg hnd _ _ ((hmem _ _).mpr ⟨j, hj, rfl,
          pySlice_range_getElem? n _ _ j h1n (by omega)⟩)
      · rw [ih1 g' h j hj]; rfl
    · intro p hp
      rw [lookupLast_append, ih2 p (fun g' hg' j hj => hp g' (by simp [hg']) j hj)]
      simp only [Option.none_or]
      rw [lookupLast_none_iff]
      intro e he
      obtain ⟨j, hj, hc, _⟩ := (hmem e.1 e.2).mp he
      rw [hc]
      exact (hp g (by simp) j hj).symm

/-- a serpentine raster of two lines of three pixels (left-to-right, then right-to-left one row
down), samples 0–2 and 4–6 (sample 3 was taken in the gap): the image is the ground truth -/
example : (allWrites 7 [{ t0 := 0, t1 := 3, x0 := 0, x1 := 3, y0 := 0, y1 := 0 },
                        { t0 := 4, t1 := 7, x0 := 3, x1 := 0, y0 := 1, y1 := 1 }]).map
      (fun w => [[lookupLast w (0, 0), lookupLast w (0, 1), lookupLast w (0, 2), lookupLast w (0, 3)],
                 [lookupLast w (1, 0), lookupLast w (1, 1), lookupLast w (1, 2), lookupLast w (1, 3)]])
    = some [[some 0, some 1, some 2, none], [some 6, some 5, some 4, none]] := by decide

/-! ## event times → samples -/

/-- With sorted sample times, the index range `[searchsorted t0, searchsorted t1)` computed on the
shifted times is exactly the set of samples whose time, counted from the first sample, lies in
`[t0 − d, t1 − d)`: a delay `d` makes an event at `t` pick up the signal recorded at `t − d`. -/
theorem sample_range (ts : List Rat) (hs : ts.Pairwise (· ≤ ·)) (d a b : Rat) (k : Nat) :
    k ∈ pySlice (List.range ts.length) (searchsorted (shiftTimes ts d) a) (searchsorted (shiftTimes ts d) b) ↔
      ∃ t, ts[k]? = some t ∧ a - d ≤ t - minRat ts ∧ t - minRat ts < b - d := by
  rw [mem_pySlice_range]
  have hs' := shiftTimes_sorted ts d hs
  constructor
  · rintro ⟨h1, h2, h3⟩
    have ht : ts[k]? = some ts[k] := List.getElem?_eq_getElem h3
    have ht' : (shiftTimes ts d)[k]? = some (ts[k] - minRat ts + d) := by rw [shiftTimes_getElem?, ht]; rfl
    refine ⟨ts[k], ht, ?_, ?_⟩
    · have := (lt_searchsorted_iff _ hs' a k _ ht').not
      have h := this.mp (by omega)
      linarith [not_lt.mp h]
    · have := (lt_searchsorted_iff _ hs' b k _ ht').mp h2
      linarith
  · rintro ⟨t, ht, h1, h2⟩
    have hk : k < ts.length := by
      by_contra hcon
      rw [List.getElem?_eq_none (by omega)] at ht; simp at ht
    have ht' : (shiftTimes ts d)[k]? = some (t - minRat ts + d) := by rw [shiftTimes_getElem?, ht]; rfl
    refine ⟨?_, ?_, hk⟩
    · have := (lt_searchsorted_iff _ hs' a k _ ht').not
      have h : ¬ k < searchsorted (shiftTimes ts d) a := this.mpr (by linarith)
      omega
    · exact (lt_searchsorted_iff _ hs' b k _ ht').mpr (by linarith)

/-- four samples at 10, 11, 12, 13 s, delay 1/2 s, laser on from 1 s to 3 s: the samples recorded
at 1 s and 2 s after the first one (indices 1 and 2) are in the range, index 3 is not -/
example : (2 : Nat) ∈ pySlice (List.range 4) (searchsorted (shiftTimes [10, 11, 12, 13] (1 / 2)) 1)
    (searchsorted (shiftTimes [10, 11, 12, 13] (1 / 2)) 3) :=
  (sample_range [10, 11, 12, 13] (by norm_num) (1 / 2) 1 3 2).mpr ⟨12, rfl, by norm_num [minRat], by norm_num [minRat]⟩

/-- Every sample that ends up in the image was recorded while the laser was on during one of the
imported lines (laser time counted from the first firing, signal time from its first sample,
shifted by the delay): samples taken while the laser was off are discarded. -/
theorem off_samples_discarded (ts : List Rat) (hs : ts.Pairwise (· ≤ ·)) (d : Rat) (first : Row)
    (ox oy : Int) (sx sy : Rat) (prs : List (Row × Row)) (w : List ((Int × Int) × Nat))
    (h : allWrites ts.length (prs.map (mkSeg (shiftTimes ts d) first ox oy sx sy)) = some w)
    (p : Int × Int) (k : Nat) (hk : lookupLast w p = some k) :
    ∃ pr ∈ prs, ∃ t, ts[k]? = some t ∧
      laserTime first pr.1 - d ≤ t - minRat ts ∧ t - minRat ts < laserTime first pr.2 - d := by
  obtain ⟨g, hg, hv⟩ := allWrites_values _ _ _ h _ (lookupLast_mem w p k hk)
  obtain ⟨pr, hpr, rfl⟩ := List.mem_map.mp hg
  exact ⟨pr, hpr, (sample_range ts hs d _ _ k).mp hv⟩

def exOn : Row := { time := 1000, seq := 1, x := 0, y := 0, on := true, spot := "1" }
def exOff : Row := { time := 3000, seq := 1, x := 20000, y := 0, on := false, spot := "1" }

/-- laser on from 1 s to 3 s over two pixels of 1 µm, samples at 10, 11, 12, 13 s, delay 1/2 s:
samples 1 and 2 are placed, samples 0 and 3 (laser off) are not -/
example : (allWrites 4 ([(exOn, exOff)].map
      (mkSeg (shiftTimes [10, 11, 12, 13] (1 / 2)) { exOn with time := 0 } 0 0 1 1))).map
    (fun w => [lookupLast w (0, 0), lookupLast w (0, 1), lookupLast w (0, 2)])
    = some [some 1, some 2, none] := by
  decide +kernel

/-! ## selection of a pattern -/

/-- Forward fill and selection: in a log made of patterns whose header rows carry non-decreasing
sequence numbers (≥ −1) and whose other rows leave the column blank, selecting `sel` keeps exactly
the rows of the patterns whose number is in `sel`, each labelled with its pattern's number —
whatever the position of the wanted pattern. -/
theorem select_pattern (bs : List Block) (sel : List Int)
    (hbody : ∀ b ∈ bs, ∀ r ∈ b.body, r.seq = -1)
    (hlow : ∀ b ∈ bs, -1 ≤ b.hdr.seq)
    (hinc : bs.Pairwise (fun a b => a.hdr.seq ≤ b.hdr.seq)) :
    selectRows (some sel) (bs.flatMap Block.rows)
      = (bs.filter (fun b => sel.contains b.hdr.seq)).flatMap (fun b => b.rows.map (setSeq · b.hdr.seq)) :=
  select_blocks bs sel hbody hlow hinc

def exRow (s : Int) : Row := { time := 0, seq := s, x := 0, y := 0, on := false, spot := "1" }

/-- the hypotheses hold for a log of two patterns numbered 1 and 3 -/
example : (∀ b ∈ [Block.mk (exRow 1) [exRow (-1)], Block.mk (exRow 3) [exRow (-1), exRow (-1)]],
      ∀ r ∈ b.body, r.seq = -1) ∧
    (∀ b ∈ [Block.mk (exRow 1) [exRow (-1)], Block.mk (exRow 3) [exRow (-1), exRow (-1)]], -1 ≤ b.hdr.seq) ∧
    [Block.mk (exRow 1) [exRow (-1)], Block.mk (exRow 3) [exRow (-1), exRow (-1)]].Pairwise
      (fun a b => a.hdr.seq ≤ b.hdr.seq) := by
  simp [exRow]

/-! ## reported parameters -/

/-- The reported origin is the per-axis minimum of the imported `On`/`Off` coordinates: it is one
of them and no imported coordinate lies below it (so every pixel index is ≥ 0 and the image starts
at pixel 0). -/
theorem origin_spec (xs : List Int) (hne : xs ≠ []) :
    minList xs ∈ xs ∧ ∀ x ∈ xs, minList xs ≤ x :=
  ⟨minList_mem xs hne, fun x hx => minList_le xs x hx⟩

example : minList [85677972, 96097972, 85677972, 96097972] = 85677972 := by decide

/-! ## the top-level function -/

/-- The top-level function reports the parameters of the log: the spot size parsed from the first
imported `On` row and, as origin, the per-axis minimum of the imported `On`/`Off` coordinates. -/
theorem params_spec (rows : List Row) (sel : Option (List Int)) (ts : List Rat) (delay : Rat)
    (isnan : Nat → Bool) (squeeze : Bool) (r : Result)
    (h : sync rows sel ts delay isnan squeeze = .ok r) :
    ∃ prs first, pairs (selectRows sel rows) = some prs ∧ prs.head? = some first ∧
      spotSize first.1.spot = some r.spot ∧
      r.origin = (minList (prs.flatMap (fun p => [p.1.x, p.2.x])), minList (prs.flatMap (fun p => [p.1.y, p.2.y]))) := by
  unfold sync at h
  simp only [pure, Except.pure] at h
  split at h
  · rename_i prs hprs
    split at h
    · rename_i first hfirst
      split at h
      · rename_i spot hspot
        split at h
        · rename_i writes hw
          refine ⟨prs, first, hprs, hfirst, ?_⟩
          split at h
          · simp at h
            subst h
            exact ⟨hspot, rfl⟩
          · simp at h
            subst h
            exact ⟨hspot, rfl⟩
        · simp [throw, throwThe, MonadExceptOf.throw] at h
      · simp [throw, throwThe, MonadExceptOf.throw] at h
    · simp [throw, throwThe, MonadExceptOf.throw] at h
  · simp [throw, throwThe, MonadExceptOf.throw] at h

/-- the top-level function: every sample index found in the returned image was recorded while the
laser was on during one of the imported lines -/
theorem sync_samples_were_on (rows : List Row) (sel : Option (List Int)) (ts : List Rat) (delay : Rat)
    (isnan : Nat → Bool) (squeeze : Bool) (r : Result) (hs : ts.Pairwise (· ≤ ·))
    (h : sync rows sel ts delay isnan squeeze = .ok r) :
    ∃ prs first, pairs (selectRows sel rows) = some prs ∧ prs.head? = some first ∧
      ∀ row ∈ r.pixels, ∀ k : Nat, some k ∈ row →
        ∃ pr ∈ prs, ∃ t, ts[k]? = some t ∧
          laserTime first.1 pr.1 - delay ≤ t - minRat ts ∧ t - minRat ts < laserTime first.1 pr.2 - delay := by
  unfold sync at h
  simp only [pure, Except.pure] at h
  split at h
  · rename_i prs hprs
    split at h
    · rename_i first hfirst
      split at h
      · rename_i spot hspot
        split at h
        · rename_i writes hw
          refine ⟨prs, first, hprs, hfirst, ?_⟩
          have key : ∀ (h' w' : Nat) (row : List (Option Nat)),
              row ∈ (List.range h').map (fun (r : Nat) => (List.range w').map (fun (c : Nat) =>
                lookupLast writes ((r : Int), (c : Int)))) → ∀ k : Nat, some k ∈ row →
              ∃ pr ∈ prs, ∃ t, ts[k]? = some t ∧
                laserTime first.1 pr.1 - delay ≤ t - minRat ts ∧ t - minRat ts < laserTime first.1 pr.2 - delay := by
            intro h' w' row hrow k hk
            obtain ⟨rr, _, rfl⟩ := List.mem_map.mp hrow
            obtain ⟨cc, _, hcc⟩ := List.mem_map.mp hk
            exact off_samples_discarded ts hs delay first.1 _ _ _ _ prs writes hw _ k hcc
          split at h
          · simp at h
            subst h
            intro row hrow k hk
            obtain ⟨row', hrow', hk'⟩ := squeezeImg_mem _ _ _ row hrow k hk
            exact key _ _ row' hrow' k hk'
          · simp at h
            subst h
            intro row hrow k hk
            exact key _ _ row hrow k hk
        · simp [throw, throwThe, MonadExceptOf.throw] at h
      · simp [throw, throwThe, MonadExceptOf.throw] at h
    · simp [throw, throwThe, MonadExceptOf.throw] at h
  · simp [throw, throwThe, MonadExceptOf.throw] at h

/-! ## end to end: `sync (render a)` is the ground-truth image

`render` (the specification) writes the log, the sample times and the delay of a rastered acquisition:
any number of logged patterns, each one of the eight scan patterns (`dir` × `serp`), any number and
length of lines, laser-off gaps with or without samples before every line, stage-move rows, a lead-in
and a tail, one sample per pixel somewhere strictly inside its dwell slot, and a signal that may start
late or end early (`skip`, `take`).  `truthHyp` is the decidable domain on which the property's text
defines the ground truth (see `PewModel.Sync`).  The theorems below compose the pieces above. -/

/-- The spot size written in the log (`"a x b"`, or `"a"` for a circular spot, shortest decimal
notation of a four-decimal value) parses back to the pattern's spot size in µm — all values. -/
theorem render_spot_roundtrip (p : Pattern) :
    spotSize p.spotStr =
      some [(p.sxu : Rat) / 10000, ((if p.circular then p.sxu else p.syu : Nat) : Rat) / 10000] :=
  spotSize_spotStr p

def exSpotPat : Pattern :=
  { seq := 1, dir := .lr, serp := false, X := 0, Y := 0, sxu := 11000, syu := 125000, circular := false,
    npix := 1, dwell := 1, lines := [] }

example : exSpotPat.spotStr = "1.1 x 12.5" := by decide +kernel

/-- Selecting `sel` (`none` = everything) in the rendered log imports exactly the `On`/`Off` pairs of
the lines of the selected patterns, in the order of recording — wherever the wanted patterns sit in the
log, whatever stage-move rows surround the lines.  (Sequence numbers non-negative, non-decreasing.) -/
theorem render_selects_lines (a : Acq) (sel : Option (List Int))
    (hseq : ∀ p ∈ a.patterns, 0 ≤ p.seq)
    (hinc : (a.patterns.map (·.seq)).Pairwise (· ≤ ·)) :
    pairs (selectRows sel (emitAll a).rows) = some ((selLines a sel).map LineRec.pair) :=
  rendered_pairs a sel hseq hinc

/-- Laser events against samples, whatever the gaps: for every line of the acquisition (with `P` the
number of samples recorded before its first pixel — gap samples, other lines, other patterns), the
samples recorded before its `On` event are exactly the first `P` and those before its `Off` event
exactly the first `P + npix`.  Laser-off samples therefore fall in no line's range. -/
theorem render_event_index (a : Acq) (h0 : 0 < a.phase) (h1 : a.phase < 1) (hd : ∀ p ∈ a.patterns, 0 < p.dwell)
    (lP : LineRec × Nat) (hlP : lP ∈ lineStarts 0 a.lines) (n : Nat) (s : Sample)
    (hs : (emitAll a).samples[n]? = some s) :
    (s.t < (lP.1.on : Rat) ↔ n < lP.2) ∧ (s.t < (lP.1.off : Rat) ↔ n < lP.2 + lP.1.p.npix) :=
  all_times a h0 h1 hd lP hlP n s hs

/-- The delay: `render` passes as delay the time between the first firing `f` (laser clock, ms) and the
first sample of the signal — negative when the signal starts first.  With it, `sync`'s shifted sample
times are the samples' laser-clock times counted from the first firing: a laser event at `t` picks up
the signal recorded at `t − d` in the signal's own time. -/
theorem render_delay (a : Acq) (sel : Option (List Int)) (rd : Rendered)
    (h0 : 0 < a.phase) (h1 : a.phase < 1) (hd : ∀ p ∈ a.patterns, 0 < p.dwell) (hr : render a sel = some rd) :
    ∃ (f : Int) (s0 : Sample), firstFiring a sel = some f ∧ (signal a).head? = some s0 ∧
      rd.delay = (s0.t - (f : Rat)) / 1000 ∧
      shiftTimes rd.times rd.delay = (signal a).map (fun x => (x.t - (f : Rat)) / 1000) := by
  obtain ⟨f, s0, hf, hs0, rfl⟩ := render_some a sel rd hr
  exact ⟨f, s0, hf, hs0, rfl, shifted_times a h0 h1 hd s0 hs0 f⟩

/-- The four directions, unidirectional or serpentine (`lineEnds`/`stepCell` follow `lineDir`): for
line `i` of a pattern that sits `cx`, `cy` whole spot sizes above the origin, the pixel indices of the
logged `On`/`Off` coordinates give an axis-parallel segment of `npix` pixels whose travel step `j` is
the ground-truth pixel of the stage cell under the laser at step `j`; all indices are ≥ 0. -/
theorem render_line_cells (p : Pattern) (i : Nat) (ox oy : Int) (cx cy : Nat)
    (hX : p.X = ox + ((cx * p.sxu : Nat) : Int)) (hY : p.Y = oy + ((cy * p.syu : Nat) : Int))
    (hu : 0 < p.sxu) (hv : 0 < p.syu) (hn : 0 < p.npix) (g : Seg)
    (hx0 : g.x0 = toPix ox ((p.sxu : Rat) / 10000) (p.lineEnds i).1.1)
    (hx1 : g.x1 = toPix ox ((p.sxu : Rat) / 10000) (p.lineEnds i).2.1)
    (hy0 : g.y0 = toPix oy ((p.syu : Rat) / 10000) (p.lineEnds i).1.2)
    (hy1 : g.y1 = toPix oy ((p.syu : Rat) / 10000) (p.lineEnds i).2.2) :
    (g.y0 = g.y1 ∨ g.x0 = g.x1) ∧ g.len = p.npix ∧
    (∀ j, j < p.npix → g.cellAt j =
      (((p.stepCell i j).2 - oy) / (p.syu : Int), ((p.stepCell i j).1 - ox) / (p.sxu : Int))) ∧
    0 ≤ g.x0 ∧ 0 ≤ g.x1 ∧ 0 ≤ g.y0 ∧ 0 ≤ g.y1 :=
  seg_geom p i ox oy cx cy hX hY hu hv hn g hx0 hx1 hy0 hy1

/-- The ground truth line by line: pixel (r, c) holds sample `v` of the signal iff `v` is the sample of
travel step `j` of an imported line and lies in the recorded window. -/
theorem truth_by_lines (a : Acq) (sel : Option (List Int)) (hyp : truthHyp a sel = true) (r c : Int) (v : Nat) :
    ∃ p0, (selectedPatterns a sel).head? = some p0 ∧
      ((r, c, v) ∈ truthCells a sel ↔
        ∃ lP ∈ lineStarts 0 a.lines, lP.1 ∈ selLines a sel ∧ ∃ j, j < lP.1.p.npix ∧ a.skip + v = lP.2 + j ∧
          v < a.take ∧ (r, c) = truthPixel a sel p0 lP.1 j) := by
  obtain ⟨p0, H⟩ := truthHyp_spec a sel hyp
  exact ⟨p0, H.head, truthCells_iff a sel p0 H r c v⟩

/-- **C08, main statement.**  For every rendered acquisition in the domain of the ground truth —
one or several logged patterns, each any of the eight scan patterns, any number and length of lines,
any stage origin and spot size (square, rectangular, circular notation), arbitrary laser-off gaps with
or without samples, any selection `sel`, a signal that starts before or after the first firing (delay
of either sign) and may end early — `sync` on the rendered log, times and delay succeeds, reports the
log's origin and spot size, and its image is the ground-truth image: every pixel holds the sample
recorded while the laser was over it, unvisited pixels are NaN (`none`), laser-off samples appear
nowhere; and every visited pixel lies inside the returned canvas. -/
theorem sync_render (a : Acq) (sel : Option (List Int)) (isnan : Nat → Bool) (rd : Rendered)
    (hyp : truthHyp a sel = true) (hr : render a sel = some rd) :
    ∃ r, sync rd.rows sel rd.times rd.delay isnan false = .ok r ∧
      r.origin = truthOrigin a sel ∧
      (∃ p0, (selectedPatterns a sel).head? = some p0 ∧ r.spot = [(p0.sxu : Rat) / 10000, (p0.syu : Rat) / 10000]) ∧
      r.pixels = truthImage a sel r.height r.width ∧
      ∀ e ∈ truthCells a sel, 0 ≤ e.1 ∧ e.1 < (r.height : Int) ∧ 0 ≤ e.2.1 ∧ e.2.1 < (r.width : Int) :=
  sync_render_core a sel isnan rd hyp hr

/-- The same with `squeeze=True`: the result is the ground-truth image on a canvas holding every
visited pixel, with its all-NaN rows and columns removed (`isnan k`: sample `k` is NaN in every
element). -/
theorem sync_render_squeeze (a : Acq) (sel : Option (List Int)) (isnan : Nat → Bool) (rd : Rendered)
    (hyp : truthHyp a sel = true) (hr : render a sel = some rd) :
    ∃ (r : Result) (h w : Nat), sync rd.rows sel rd.times rd.delay isnan true = .ok r ∧
      r.origin = truthOrigin a sel ∧
      (∃ p0, (selectedPatterns a sel).head? = some p0 ∧ r.spot = [(p0.sxu : Rat) / 10000, (p0.syu : Rat) / 10000]) ∧
      (∀ e ∈ truthCells a sel, 0 ≤ e.1 ∧ e.1 < (h : Int) ∧ 0 ≤ e.2.1 ∧ e.2.1 < (w : Int)) ∧
      r.pixels = (squeezeImg isnan w (truthImage a sel h w)).1 ∧
      r.width = (squeezeImg isnan w (truthImage a sel h w)).2 ∧ r.height = r.pixels.length :=
  sync_render_squeeze_core a sel isnan rd hyp hr

/-- On the domain of the ground truth `render` is defined (there is a first firing in the selection and
the signal is not empty), so `sync_render` is never vacuous in its second hypothesis. -/
theorem render_defined (a : Acq) (sel : Option (List Int)) (hyp : truthHyp a sel = true) :
    ∃ rd, render a sel = some rd :=
  render_defined_core a sel hyp

/-- The domain is not a list of examples: every complete recording (`skip = 0`, all samples taken) of a
single logged pattern — any of the eight scan patterns, any number ≥ 1 and length ≥ 1 of lines, any
gaps with or without laser-off samples, any stage-move rows, lead-in and tail, any stage origin, any
positive spot size, samples anywhere strictly inside their slots — satisfies `truthHyp`. -/
theorem domain_single_pattern (a : Acq) (sel : Option (List Int)) (p : Pattern) (hp : a.patterns = [p])
    (hsel : isSelected sel p.seq = true)
    (h0 : 0 < a.phase) (h1 : a.phase < 1) (hseq : 0 ≤ p.seq) (hd : 0 < p.dwell)
    (hu : 0 < p.sxu) (hv : 0 < p.syu) (hc : p.circular = true → p.sxu = p.syu)
    (hn : 0 < p.npix) (hl : p.lines ≠ [])
    (hskip : a.skip = 0) (htake : a.take = (emitAll a).samples.length) :
    truthHyp a sel = true :=
  truthHyp_single a sel p hp hsel h0 h1 hseq hd hu hv hc hn hl hskip htake

/-- **C08 for one pattern, hypotheses spelled out** (stages: one line or many, each direction,
unidirectional or serpentine, gaps with laser-off samples): the complete recording of any single
logged raster is synchronised to its ground-truth image. -/
theorem sync_render_single (a : Acq) (isnan : Nat → Bool) (p : Pattern) (hp : a.patterns = [p])
    (h0 : 0 < a.phase) (h1 : a.phase < 1) (hseq : 0 ≤ p.seq) (hd : 0 < p.dwell)
    (hu : 0 < p.sxu) (hv : 0 < p.syu) (hc : p.circular = true → p.sxu = p.syu)
    (hn : 0 < p.npix) (hl : p.lines ≠ [])
    (hskip : a.skip = 0) (htake : a.take = (emitAll a).samples.length) :
    ∃ rd r, render a none = some rd ∧ sync rd.rows none rd.times rd.delay isnan false = .ok r ∧
      r.origin = (p.X, p.Y) ∧ r.spot = [(p.sxu : Rat) / 10000, (p.syu : Rat) / 10000] ∧
      r.pixels = truthImage a none r.height r.width ∧
      ∀ e ∈ truthCells a none, 0 ≤ e.1 ∧ e.1 < (r.height : Int) ∧ 0 ≤ e.2.1 ∧ e.2.1 < (r.width : Int) := by
  have hyp := domain_single_pattern a none p hp rfl h0 h1 hseq hd hu hv hc hn hl hskip htake
  obtain ⟨rd, hr⟩ := render_defined a none hyp
  obtain ⟨r, hok, horig, ⟨p0, hhead, hspot⟩, hpix, hb⟩ := sync_render a none isnan rd hyp hr
  have hps : selectedPatterns a none = [p] := by simp [selectedPatterns, hp, isSelected]
  rw [hps] at hhead
  simp only [List.head?_cons, Option.some.injEq] at hhead
  subst hhead
  refine ⟨rd, r, hr, hok, ?_, hspot, hpix, hb⟩
  rw [horig]; simp [truthOrigin, hps, minList]

/-! ## the signal as the caller holds it: array shape, clock as stamps or as the time per sample -/

/-- **Clock given as the acquisition time per sample.**  For a signal sampled every `dt ≥ 0` seconds
(stamp `k` = first stamp + `k·dt`) held in an array of any shape with `data.size` = number of stamps,
passing the float `dt` instead of the stamps gives the same result: `np.arange(data.size) * dt` and the
stamps are shifted to the same times.  The shape enters only through its product. -/
theorem clock_interval (rows : List Row) (sel : Option (List Int)) (shape : List Nat) (ts : List Rat) (dt delay : Rat)
    (isnan : Nat → Bool) (squeeze : Bool) (hn : dataSize shape = ts.length) (hu : isUniform ts dt = true) :
    syncClock rows sel shape (.interval dt) delay isnan squeeze = sync rows sel ts delay isnan squeeze := by
  have hlen : ((Clock.interval dt).times ts.length).length = ts.length := by simp [Clock.times]
  unfold syncClock sync
  rw [hn, shiftTimes_interval ts dt delay hu, hlen]

example : isUniform [69 / 4, 69 / 4 + 1 / 100, 69 / 4 + 2 / 100, 69 / 4 + 3 / 100] (1 / 100) = true := by decide +kernel
example : dataSize [2, 2] = 4 ∧ dataSize [1, 4] = 4 ∧ dataSize [4] = 4 := by decide

/-- **C08 with the clock as a float.**  A rendered acquisition in the domain of the ground truth whose
signal was sampled at a constant interval (`a.interval rd.times = some dt`: equal dwell times, gaps of
whole sample intervals), held in an array of any shape of that size and synchronised with
`times = dt`, gives the ground-truth image, origin and spot size exactly as with the stamps. -/
theorem sync_render_interval (a : Acq) (sel : Option (List Int)) (isnan : Nat → Bool) (rd : Rendered) (shape : List Nat)
    (dt : Rat) (hyp : truthHyp a sel = true) (hr : render a sel = some rd)
    (hn : dataSize shape = rd.times.length) (hdt : a.interval rd.times = some dt) :
    ∃ r, syncClock rd.rows sel shape (.interval dt) rd.delay isnan false = .ok r ∧
      r.origin = truthOrigin a sel ∧
      (∃ p0, (selectedPatterns a sel).head? = some p0 ∧ r.spot = [(p0.sxu : Rat) / 10000, (p0.syu : Rat) / 10000]) ∧
      r.pixels = truthImage a sel r.height r.width ∧
      ∀ e ∈ truthCells a sel, 0 ≤ e.1 ∧ e.1 < (r.height : Int) ∧ 0 ≤ e.2.1 ∧ e.2.1 < (r.width : Int) := by
  have hu : isUniform rd.times dt = true := by
    match hts : rd.times with
    | [] => rw [hts] at hdt; simp [Acq.interval] at hdt
    | [t] =>
      rw [hts] at hdt
      simp only [Acq.interval, Option.map_eq_some_iff] at hdt
      obtain ⟨p, _, rfl⟩ := hdt
      have : (0 : Rat) ≤ (p.dwell : Rat) / 1000 := div_nonneg (by exact_mod_cast Nat.zero_le _) (by norm_num)
      simp [isUniform, this]
    | t0 :: t1 :: rest =>
      rw [hts] at hdt
      simp only [Acq.interval] at hdt
      split at hdt
      · rename_i h; simp only [Option.some.injEq] at hdt; rw [← hdt]; exact h
      · simp at hdt
  rw [clock_interval rd.rows sel shape rd.times dt rd.delay isnan false hn hu]
  exact sync_render a sel isnan rd hyp hr

/-! ### non-vacuity: concrete acquisitions satisfy the hypotheses -/

/-- a serpentine raster of two lines of three pixels (left-to-right, then right-to-left one row down),
stage origin (80394.6132, 34824.0754) µm, spot 1.1 × 2.5 µm, 10 ms dwell; a 25 ms lead-in with two
laser-off samples, a 7 ms gap with one laser-off sample between the lines, samples at 1/3 of their
slots, a 5 ms tail with one sample -/
def exSerp : Acq :=
  { patterns := [{ seq := 2, dir := .lr, serp := true, X := 803946132, Y := 348240754, sxu := 11000, syu := 25000,
                   circular := false, npix := 3, dwell := 10,
                   lines := [{ gap := 25, gapSamples := 2, moves := 2 }, { gap := 7, gapSamples := 1, moves := 1 }] }]
    phase := 1 / 3, tailGap := 5, tailSamples := 1, skip := 0, take := 10, t0 := 69 / 4 }

example : truthHyp exSerp none = true := by decide +kernel
example : (render exSerp none).isSome = true := by decide +kernel
/-- its ground truth: samples 2,3,4 on row 0 left to right, samples 6,7,8 on row 1 right to left -/
example : truthImage exSerp none 2 3 = [[some 2, some 3, some 4], [some 8, some 7, some 6]] := by decide +kernel

/-- the same acquisition with the signal starting in the middle of the first line (a positive delay)
and ending before the tail -/
def exLate : Acq := { exSerp with skip := 3, take := 6 }

example : truthHyp exLate (some [2]) = true := by decide +kernel
example : (render exLate (some [2])).isSome = true := by decide +kernel
example : truthImage exLate (some [2]) 2 3 = [[none, some 0, some 1], [some 5, some 4, some 3]] := by decide +kernel

/-- two logged patterns (a bottom-to-top unidirectional one, numbered 1, and the serpentine one above,
numbered 2); the second is selected -/
def exTwo : Acq :=
  { exSerp with
    patterns := { seq := 1, dir := .bt, serp := false, X := 0, Y := -50000, sxu := 400000, syu := 400000,
                  circular := true, npix := 2, dwell := 4,
                  lines := [{ gap := 0, gapSamples := 0, moves := 0 }, { gap := 3, gapSamples := 0, moves := 2 }] }
                :: exSerp.patterns
    take := 14 }

example : truthHyp exTwo (some [2]) = true := by decide +kernel
example : truthHyp exTwo none = false := by decide +kernel   -- different spot sizes: no common pixel grid
example : (render exTwo (some [2])).isSome = true := by decide +kernel
example : truthImage exTwo (some [2]) 2 3 = [[some 6, some 7, some 8], [some 12, some 11, some 10]] := by
  decide +kernel

/-- the whole chain evaluated on `exSerp`: `sync` of the rendered log is the ground truth (the canvas
has a fourth, unvisited column because the `Off` coordinate of a left-to-right line is pixel 3) -/
def exRes (a : Acq) (sel : Option (List Int)) : Result :=
  match (render a sel).map (fun rd => sync rd.rows sel rd.times rd.delay (fun _ => false) false) with
  | some (.ok r) => r
  | _ => { height := 0, width := 0, pixels := [], origin := (0, 0), spot := [] }

example : (exRes exSerp none).pixels = [[some 2, some 3, some 4, none], [some 8, some 7, some 6, none]] := by
  decide +kernel
example : (exRes exSerp none).pixels = truthImage exSerp none 2 4 := by decide +kernel
example : (exRes exSerp none).origin = (803946132, 348240754) ∧ (exRes exSerp none).spot = [11 / 10, 5 / 2] := by
  decide +kernel
example : (exRes exLate (some [2])).pixels = [[none, some 0, some 1, none], [some 5, some 4, some 3, none]] := by
  decide +kernel
example : (exRes exTwo (some [2])).pixels = [[some 6, some 7, some 8, none], [some 12, some 11, some 10, none]] := by
  decide +kernel

/-- a uniformly sampled acquisition: `exSerp` with gaps of whole dwell times (20 ms lead-in with two
samples, 10 ms gap with one, 10 ms tail with one); its clock can be given as 0.01 s per sample, the
signal as 2 rows of 5 consecutive samples -/
def exUniform : Acq :=
  { exSerp with
    patterns := exSerp.patterns.map (fun p =>
      { p with lines := [{ gap := 20, gapSamples := 2, moves := 2 }, { gap := 10, gapSamples := 1, moves := 1 }] })
    tailGap := 10 }

example : truthHyp exUniform none = true := by decide +kernel
example : (render exUniform none).map (fun rd => exUniform.interval rd.times) = some (some (1 / 100)) := by decide +kernel
example : (render exUniform none).map (fun rd => rd.times.length) = some (dataSize [2, 5]) := by decide +kernel
example : ((render exUniform none).map (fun rd =>
      match syncClock rd.rows none [2, 5] (.interval (1 / 100)) rd.delay (fun _ => false) false with
      | .ok r => r.pixels
      | .error _ => [])) = some [[some 2, some 3, some 4, none], [some 8, some 7, some 6, none]] := by
  decide +kernel
/-- the acquisition `exSerp` itself (7 ms gap, 25 ms lead-in) is not sampled at a constant interval -/
example : (render exSerp none).map (fun rd => exSerp.interval rd.times) = some none := by decide +kernel

/-! ## squeeze: removal of empty rows and columns -/

/-- **`squeeze`, mechanism = specification.**  The code removes the rows without data, recomputes the mask on what is
left and removes the columns without data; the result is the sub-image on the rows and columns that hold data in the
*whole* image (`keptRows`, `keptCols`, both strictly increasing: nothing is reordered), where a pixel holds data iff
its sample is a number in at least one element. -/
theorem squeeze_spec (isnan : Nat → Bool) (w : Nat) (img : List (List (Option Nat))) :
    squeezeImg isnan w img = (squeezeSpec isnan w img, (keptCols isnan w img).length) ∧
      (keptRows isnan img).Pairwise (· < ·) ∧ (keptCols isnan w img).Pairwise (· < ·) :=
  ⟨squeezeImg_eq_spec isnan w img, range_filter_sorted _ _, range_filter_sorted _ _⟩

/-- **`squeeze` loses no data.**  A pixel `(r, c)` of the image whose sample `k` is a number in some element is found
in the squeezed image, at the rank of `r` among the rows that hold data and the rank of `c` among such columns. -/
theorem squeeze_keeps_data (isnan : Nat → Bool) (w : Nat) (img : List (List (Option Nat))) (r c k : Nat)
    (row : List (Option Nat)) (hr : img[r]? = some row) (hc : c < w) (hk : row[c]? = some (some k))
    (hn : isnan k = false) :
    ∃ (i j : Nat), (keptRows isnan img)[i]? = some r ∧ (keptCols isnan w img)[j]? = some c ∧
      ((squeezeImg isnan w img).1[i]?.bind (fun (row : List (Option Nat)) => row[j]?)) = some (some k) := by
  rw [squeezeImg_eq_spec]
  exact squeezeSpec_keeps isnan w img r c k row hr hc hk hn

/-- an image of 3 × 3 whose middle row was visited (samples 0, 1, 2) and whose samples are NaN in every element
but the last: nothing but the never-visited rows and column is removed -/
example : squeezeImg (allNan [fun _ => true, fun _ => true, fun _ => false]) 3
    [[none, none, none], [some 0, some 1, none], [none, none, none]] = ([[some 0, some 1]], 2) := by decide
/-- NaN in every element: the visited row cannot be told from an unvisited one and goes -/
example : squeezeImg (allNan [fun _ => true, fun k => k == 0]) 2 [[some 0, none], [some 1, some 2]]
    = ([[some 1, some 2]], 2) := by decide

/-- **C08 with `squeeze=True`, element by element.**  `masks` holds one NaN mask per element of the signal
(`allNan masks k`: sample `k` is NaN in every element, the only thing the code's mask reads).  For every rendered
acquisition in the domain of the ground truth the squeezed result is `squeezeSpec` of the ground-truth image, and every
ground-truth pixel whose sample is a number in at least one element — first, middle or last — is in the result, at
the rank of its row and column among those that hold data: a line that dropped out in some elements is still there. -/
theorem sync_render_squeeze_keeps (a : Acq) (sel : Option (List Int)) (masks : List (Nat → Bool)) (rd : Rendered)
    (hyp : truthHyp a sel = true) (hr : render a sel = some rd) :
    ∃ (r : Result) (h w : Nat), sync rd.rows sel rd.times rd.delay (allNan masks) true = .ok r ∧
      r.pixels = squeezeSpec (allNan masks) w (truthImage a sel h w) ∧
      ∀ e ∈ truthCells a sel, (∃ m ∈ masks, m e.2.2 = false) →
        ∃ (i j : Nat), (keptRows (allNan masks) (truthImage a sel h w))[i]? = some e.1.toNat ∧
          (keptCols (allNan masks) w (truthImage a sel h w))[j]? = some e.2.1.toNat ∧
          (r.pixels[i]?.bind (fun (row : List (Option Nat)) => row[j]?)) = some (some e.2.2) := by
  obtain ⟨r, h, w, hok, _, _, hb, hpix, _, _⟩ := sync_render_squeeze a sel (allNan masks) rd hyp hr
  obtain ⟨p0, H⟩ := truthHyp_spec a sel hyp
  rw [squeezeImg_eq_spec] at hpix
  refine ⟨r, h, w, hok, hpix, ?_⟩
  intro e he ⟨m, hm, hmk⟩
  obtain ⟨b1, b2, b3, b4⟩ := hb e he
  obtain ⟨row, hrow, hcell⟩ := truthImage_at a sel h w H.nodup e he b1 b2 b3 b4
  have hn : allNan masks e.2.2 = false := by
    unfold allNan
    cases hall : masks.all (fun m => m e.2.2) with
    | false => rfl
    | true => rw [List.all_eq_true.mp hall m hm] at hmk; cases hmk
  rw [hpix]
  exact squeezeSpec_keeps (allNan masks) w _ e.1.toNat e.2.1.toNat e.2.2 row hrow (by omega) hcell hn

/-! ## the log as text -/

/-- **Calendar.**  Walking the years and months from 1970-01-01 (`civilOfDay`, the specification of what the
instrument prints) and numpy's closed-form day count (`daysOfCivil`) are inverse for every day number; the date has a
month 1..12 and a day 1..31. -/
theorem calendar_roundtrip (n : Nat) :
    daysOfCivil (civilOfDay n) = n ∧ 1970 ≤ (civilOfDay n).y ∧ 1 ≤ (civilOfDay n).m ∧ (civilOfDay n).m ≤ 12 ∧
      1 ≤ (civilOfDay n).d ∧ (civilOfDay n).d ≤ 31 :=
  ⟨daysOfCivil_civilOfDay n, civilOfDay_ranges n⟩

example : civilOfDay 19782 = ⟨2024, 2, 29⟩ ∧ civilOfDay 19783 = ⟨2024, 3, 1⟩ := by decide +kernel
example : civilOfDay 20088 = ⟨2024, 12, 31⟩ ∧ civilOfDay 20089 = ⟨2025, 1, 1⟩ := by decide +kernel

/-- **Time stamps.**  Every instant from 1970-01-01 to the end of the year 9999 is written as
`YYYY-MM-DD HH:MM:SS.mmm` and read back exactly — date included: the stamps one millisecond before and at midnight,
at a month's or a year's end, on the leap day differ by exactly the time that passed. -/
theorem stamp_roundtrip (T : Nat) (h : T < 253402300800000) : parseStamp (fmtStamp T) = some T :=
  stamp_roundtrip_core T h

example : String.ofList (fmtStamp 1721260799999) = "2024-07-17 23:59:59.999" ∧
    String.ofList (fmtStamp 1721260800000) = "2024-07-18 00:00:00.000" := by decide +kernel

/-- four-decimal stage coordinates of either sign are written and read back exactly -/
theorem coordinate_roundtrip (u : Int) : parseFixed4 (fmtFixed4 u) = some u := parseFixed4_fmtFixed4 u

example : String.ofList (fmtFixed4 (-85677972)) = "-8567.7972" ∧ String.ofList (fmtFixed4 5) = "0.0005" := by
  decide +kernel

/-- **One line of the log.**  The line written for a row (time stamp from `base`, the sequence number or a blank,
coordinates, laser state, spot size string, and any comma-free content in the columns that are not read) is read
back by the reader's column selection as that row at its absolute time.  Hypotheses: the instant lies between 1970
and the year 10000, the sequence number is blank (-1) or ≥ 0, and the spot size string has no comma and at most the
32 characters the reader's field keeps. -/
theorem line_roundtrip (base : Int) (r : Row) (e : Extras) (h0 : 0 ≤ base + r.time)
    (h1 : base + r.time < 253402300800000) (hs : r.seq = -1 ∨ 0 ≤ r.seq) (hl : r.spot.toList.length ≤ 32)
    (hc : ∀ c ∈ r.spot.toList, c ≠ ',') (he : e.clean) :
    parseLine (fmtLine base r e) = some { r with time := base + r.time } :=
  parseLine_fmtLine base r e h0 h1 hs hl hc he

def exTextRow : Row := { time := 3877, seq := -1, x := 85677972, y := -348240754, on := true, spot := "40 x 40" }
example : String.ofList (fmtLine 1721221978112 exTextRow (extrasOf false exTextRow))
    = "2024-07-17 13:13:01.989,,,,,8567.7972,-34824.0754,,,,On,200,,40 x 40" := by decide +kernel
example : (parseLine (fmtLine 1721221978112 exTextRow (extrasOf false exTextRow))
    == some { exTextRow with time := 1721221981989 }) = true := by decide +kernel

/-- **The whole log**: `render → parse = id` up to the absolute time -/
theorem log_roundtrip (base : Int) (l : List (Row × Extras))
    (h : ∀ re ∈ l, 0 ≤ base + re.1.time ∧ base + re.1.time < 253402300800000 ∧ (re.1.seq = -1 ∨ 0 ≤ re.1.seq) ∧
      re.1.spot.toList.length ≤ 32 ∧ (∀ c ∈ re.1.spot.toList, c ≠ ',') ∧ re.2.clean) :
    parseLog (renderLog base l) = some ((l.map (·.1)).map (shiftRow base)) :=
  parseLog_renderLog base l h

/-- **The date does not matter.**  Moving every row of the log by the same amount of time changes nothing: only
differences to the first firing enter (`laser time from the first firing`). -/
theorem sync_date_invariant (b : Int) (rows : List Row) (sel : Option (List Int)) (ts : List Rat) (delay : Rat)
    (isnan : Nat → Bool) (squeeze : Bool) :
    sync (rows.map (shiftRow b)) sel ts delay isnan squeeze = sync rows sel ts delay isnan squeeze :=
  sync_shift b rows sel ts delay isnan squeeze

/-- the unread columns as the correspondence check fills them (`withExtras`, like the instrument) are comma-free
and leave the rows alone, so `sync_text_model` and `sync_render_text` apply to the text the check writes -/
theorem instrument_text (b : Bool) (rows : List Row) :
    (withExtras b rows).map (·.1) = rows ∧ ∀ re ∈ withExtras b rows, re.2.clean :=
  ⟨withExtras_fst b rows, withExtras_clean b rows⟩

/-- **The model run on the text is the model run on the rows**: for rows within `textHyp`, reading the written
lines and synchronising (`syncText`, what the driver evaluates) is `syncClock` on the rows. -/
theorem sync_text_model (base : Int) (rows : List Row) (b : Bool) (h : textHyp base rows = true)
    (sel : Option (List Int)) (shape : List Nat) (clk : Clock) (delay : Rat) (isnan : Nat → Bool) (squeeze : Bool) :
    syncText (renderLog base (withExtras b rows)) sel shape clk delay isnan squeeze
      = syncClock rows sel shape clk delay isnan squeeze :=
  syncText_withExtras base rows b h sel shape clk delay isnan squeeze

/-- **C08 from the text of the log.**  A rendered acquisition in the domain of the ground truth, written as text
with laser clock 0 at any instant `base` ≥ 1 ms after 1970-01-01 that keeps the log before the year 10000 — so the
run may cross midnight, a month's or year's end, the leap day, or last longer than a day —, any comma-free content in
the unread columns, spot size strings of at most 32 characters: the lines are read back, and their synchronisation
is the ground truth, exactly as in `sync_render`. -/
theorem sync_render_text (a : Acq) (sel : Option (List Int)) (isnan : Nat → Bool) (rd : Rendered)
    (hyp : truthHyp a sel = true) (hr : render a sel = some rd) (base : Int) (l : List (Row × Extras))
    (hl : l.map (·.1) = rd.rows) (hex : ∀ re ∈ l, re.2.clean) (hb0 : 1 ≤ base)
    (hb1 : ∀ r ∈ rd.rows, base + r.time < 253402300800000) (hspot : ∀ p ∈ a.patterns, p.spotL.length ≤ 32) :
    ∃ rows', parseLog (renderLog base l) = some rows' ∧
      ∃ r, sync rows' sel rd.times rd.delay isnan false = .ok r ∧
        r.origin = truthOrigin a sel ∧
        (∃ p0, (selectedPatterns a sel).head? = some p0 ∧ r.spot = [(p0.sxu : Rat) / 10000, (p0.syu : Rat) / 10000]) ∧
        r.pixels = truthImage a sel r.height r.width ∧
        ∀ e ∈ truthCells a sel, 0 ≤ e.1 ∧ e.1 < (r.height : Int) ∧ 0 ≤ e.2.1 ∧ e.2.1 < (r.width : Int) := by
  obtain ⟨p0, H⟩ := truthHyp_spec a sel hyp
  obtain ⟨_, _, _, _, hrd⟩ := render_some a sel rd hr
  have hrows : rd.rows = (emitAll a).rows := by rw [hrd]
  have ht := rendered_textHyp a base H.seq0 hspot hb0 (by rw [← hrows]; exact hb1)
  rw [← hrows] at ht
  have hs := textHyp_spec base rd.rows ht
  refine ⟨rd.rows.map (shiftRow base), ?_, ?_⟩
  · rw [parseLog_renderLog, hl]
    intro re hre
    have hmem : re.1 ∈ rd.rows := by rw [← hl]; exact List.mem_map.mpr ⟨re, hre, rfl⟩
    obtain ⟨a1, a2, a3, a4, a5⟩ := hs re.1 hmem
    exact ⟨a1, a2, a3, a4, a5, hex re hre⟩
  · rw [sync_shift]
    exact sync_render a sel isnan rd hyp hr

/-- the serpentine example written with its first row one second before midnight of 31 December 2024: it is in the
domain, its lines are read back, and the chain from the text gives the ground truth -/
example : textHyp 1735689599000 ((render exSerp none).map (·.rows)).get! = true := by decide +kernel

end Pew.Sync
