import PewProofs.Register
import PewProofs.RegisterFast
import PewProofs.RegisterPeak
import PewProofs.RegisterMerge
import PewProofs.RegisterShift
import PewTheorems.C11

/-! # C12 — property theorems (statements only depend on `PewModel.Register` / `PewModel.RegisterFast` /
`PewModel.Overlap`)

All correlation theorems are stated and proved for **every number of dimensions**: `circ` and `lin`
are nested sums over the axis list, the one-axis facts (no wrap-around with `s = a + b − 1`,
`dec (enc l) = l`, re-indexing `m = n + l`) are lemmas of `PewProofs.Register`, and each theorem
lifts them by induction over the axes — padding, encode/decode and the sums are separable.
The link "`irfftn(rfftn a · conj (rfftn b), s)` = `circ`" (correlation theorem of the DFT) is
trusted, not proved. -/
namespace Pew.Register

/-- **no wrap-around in n dimensions**: with `s = a.shape + b.shape − 1` the circular correlation
read at the encoded lag is the linear cross-correlation at that lag -/
theorem circ_eq_lin (sa sb : List Nat) (A B : List Nat → Rat) (l : List Int)
    (hpa : ∀ a ∈ sa, 0 < a) (hpb : ∀ b ∈ sb, 0 < b) (hl : inLagBox sa sb l = true) :
    circ (padShape sa sb) (padN sa A) (padN sb B) (encode (padShape sa sb) l) = lin sb (zext sa A) B l := by
  induction sa generalizing sb A B l with
  | nil =>
    cases sb with
    | nil =>
      cases l with
      | nil => simp [circ, lin, padN, zext, inBox, inBoxI, padShape]
      | cons _ _ => simp [inLagBox] at hl
    | cons _ _ => simp [inLagBox] at hl
  | cons a as ih =>
    cases sb with
    | nil => simp [inLagBox] at hl
    | cons b bs =>
      cases l with
      | nil => simp [inLagBox] at hl
      | cons l0 ls =>
        simp only [inLagBox, Bool.and_eq_true, decide_eq_true_eq] at hl
        obtain ⟨⟨h1, h2⟩, hls⟩ := hl
        have ha : 0 < a := hpa a (by simp)
        have hb : 0 < b := hpb b (by simp)
        have hpa' : ∀ x ∈ as, 0 < x := fun x hx => hpa x (by simp [hx])
        have hpb' : ∀ x ∈ bs, 0 < x := fun x hx => hpb x (by simp [hx])
        simp only [padShape, encode, circ, lin]
        rw [wrap_free a b ha hb
          (fun i n => circ (padShape as bs) (fun r => padN (a :: as) A (i :: r)) (fun r => padN (b :: bs) B (n :: r))
            (encode (padShape as bs) ls))
          (fun i n hi => circ_zero_left _ _ _ _ (fun r => padN_cons_ge a as A i hi r))
          (fun i n hn => circ_zero_right _ _ _ _ (fun r => padN_cons_ge b bs B n hn r))
          l0 h1 h2]
        apply sumRange_congr
        intro n hn
        split
        · rename_i hin
          rw [padN_cons_lt a as A _ (by omega), padN_cons_lt b bs B n hn, ih bs _ _ ls hpa' hpb' hls,
            zext_cons_in a as A _ hin.1 hin.2]
        · rename_i hout
          rw [lin_zero_left]
          intro r
          exact zext_cons_out a as A _ hout r

/-- **decode ∘ encode = id** on the whole lag box, every axis, every dimension (the decode of the
current code: `k < a ↦ k, else k − s`) -/
theorem decode_encode (sa sb : List Nat) (l : List Int)
    (hpa : ∀ a ∈ sa, 0 < a) (hpb : ∀ b ∈ sb, 0 < b) (hl : inLagBox sa sb l = true) :
    decode sa (padShape sa sb) (encode (padShape sa sb) l) = l := by
  induction sa generalizing sb l with
  | nil =>
    cases sb with
    | nil => cases l <;> simp_all [inLagBox, decode]
    | cons _ _ => simp [inLagBox] at hl
  | cons a as ih =>
    cases sb with
    | nil => simp [inLagBox] at hl
    | cons b bs =>
      cases l with
      | nil => simp [inLagBox] at hl
      | cons l0 ls =>
        simp only [inLagBox, Bool.and_eq_true, decide_eq_true_eq] at hl
        obtain ⟨⟨h1, h2⟩, hls⟩ := hl
        simp only [padShape, encode, decode]
        rw [dec_enc a b (hpa a (by simp)) (hpb b (by simp)) l0 h1 h2,
          ih bs ls (fun x hx => hpa x (by simp [hx])) (fun x hx => hpb x (by simp [hx])) hls]


/-- the estimate is the lag of the unique maximum of the linear cross-correlation -/
theorem register_argmax (a b : Img) (l : List Int)
    (hpa : ∀ x ∈ a.shape, 0 < x) (hpb : ∀ x ∈ b.shape, 0 < x)
    (hl : inLagBox a.shape b.shape l = true)
    (huniq : ∀ l', inLagBox a.shape b.shape l' = true → l' ≠ l → xcorr a b l' < xcorr a b l) :
    register a b = l := by
  have hlen := inLagBox_length _ _ _ hl
  have hmem : encode (padShape a.shape b.shape) l ∈ allIdx (padShape a.shape b.shape) :=
    (mem_allIdx _ _).mpr (encode_inBox _ _ _ hpa hpb hl)
  have hne : allIdx (padShape a.shape b.shape) ≠ [] := List.ne_nil_of_mem hmem
  obtain ⟨k, hk, hkm, hmax, -⟩ := argmaxFirst_spec (xcorrCirc a b) _ hne
  simp only [register, hk]
  have hkb := (mem_allIdx _ _).mp hkm
  obtain ⟨e1, e2⟩ := encode_decode_nd a.shape b.shape k hlen hpa hpb hkb
  have hle := hmax _ hmem
  have c1 : xcorrCirc a b (encode (padShape a.shape b.shape) l) = xcorr a b l :=
    circ_eq_lin a.shape b.shape a.get b.get l hpa hpb hl
  have c2 : xcorrCirc a b k = xcorr a b (decode a.shape (padShape a.shape b.shape) k) := by
    have := circ_eq_lin a.shape b.shape a.get b.get _ hpa hpb e2
    rw [e1] at this
    exact this
  rw [c1, c2] at hle
  by_contra hne'
  have := huniq _ e2 hne'
  linarith

example : inLagBox [4, 3] [2, 5] [-1, 2] = true ∧ inLagBox [4, 3] [2, 5] [3, -4] = true := by decide

/-- non-vacuity: an impulse at 2 registered against a single pixel satisfies the hypotheses of
`register_argmax` and `swap_negates` -/
theorem impulse_unique (l' : List Int)
    (h : inLagBox [4] [1] l' = true) (hne : l' ≠ [2]) :
    xcorr ⟨[4], fun i => if i = [2] then 1 else 0⟩ ⟨[1], fun _ => 1⟩ l'
      < xcorr ⟨[4], fun i => if i = [2] then 1 else 0⟩ ⟨[1], fun _ => 1⟩ [2] := by
  match l', h, hne with
  | [], h, _ => simp [inLagBox] at h
  | _ :: _ :: _, h, _ => simp [inLagBox] at h
  | [x], h, hne =>
    simp only [inLagBox, Bool.and_eq_true, decide_eq_true_eq] at h
    have hx : x ≠ 2 := fun e => hne (by rw [e])
    simp only [xcorr, lin, sumRange, zext, inBoxI]
    have : x = 0 ∨ x = 1 ∨ x = 3 := by omega
    rcases this with e | e | e <;> subst e <;> simp

example : register ⟨[4], fun i => if i = [2] then 1 else 0⟩ ⟨[1], fun _ => 1⟩ = [2] :=
  register_argmax _ _ [2] (by simp) (by simp) (by decide) impulse_unique

/-- the code's expressions place `b` as the anchor names it: flush with the near side (offset 0),
flush with the far side (`offset + b = a`), or centred with offset `⌊(a − b)/2⌋` -/
theorem anchor_spec (a0 a1 b0 b1 : Int) (an : Anchor) :
    anchorMech a0 a1 b0 b1 an = anchorSpec a0 a1 b0 b1 an := by
  cases an <;> simp only [anchorMech, anchorSpec, Anchor.sides, sideOffset]
  rw [Int.fdiv_eq_ediv_of_nonneg _ (by decide), Int.fdiv_eq_ediv_of_nonneg _ (by decide),
    Int.fdiv_eq_ediv_of_nonneg _ (by decide), Int.fdiv_eq_ediv_of_nonneg _ (by decide)]
  congr 1 <;> omega

/-- what the three kinds of per-axis offset mean geometrically: near side flush, far side flush,
or the two margins differ by at most one with the smaller one first (floor) -/
theorem sideOffset_geometry (a b : Int) (sd : Side) :
    match sd with
    | .near => sideOffset a b sd = 0
    | .far => sideOffset a b sd + b = a
    | .mid => 2 * sideOffset a b sd ≤ a - b ∧ a - b ≤ 2 * sideOffset a b sd + 1 := by
  cases sd <;> simp only [sideOffset]
  · omega
  · rw [Int.fdiv_eq_ediv_of_nonneg _ (by decide)]; omega

example : anchorMech 5 8 8 3 .center = (-2, 2) := by decide

/-- the decode used before commit dfabb17 (`fftshift`, then subtract `s / 2`) is right exactly for
lags in `[−⌊s/2⌋, ⌈s/2⌉)` -/
theorem shift_decode_range (a b : Nat) (ha : 0 < a) (hb : 0 < b) (l : Int)
    (h1 : -((b : Int) - 1) ≤ l) (h2 : l ≤ (a : Int) - 1) :
    oldDec (a + b - 1) (enc (a + b - 1) l) = l ↔
      -(((a + b - 1) / 2 : Nat) : Int) ≤ l ∧ l < ((a + b - 1 : Nat) : Int) - (((a + b - 1) / 2 : Nat) : Int) := by
  unfold oldDec enc
  generalize hs : a + b - 1 = s at *
  have hs0 : 0 < s := by omega
  by_cases hl : 0 ≤ l
  · rw [if_pos hl]
    by_cases hc : l.toNat + s / 2 < s
    · rw [Nat.mod_eq_of_lt hc]; omega
    · have e : (l.toNat + s / 2) % s = l.toNat + s / 2 - s := by
        rw [Nat.mod_eq_sub_mod (by omega), Nat.mod_eq_of_lt (by omega)]
      rw [e]; omega
  · rw [if_neg hl]
    by_cases hc : (l + (s : Int)).toNat + s / 2 < s
    · rw [Nat.mod_eq_of_lt hc]; omega
    · have e : ((l + (s : Int)).toNat + s / 2) % s = (l + (s : Int)).toNat + s / 2 - s := by
        rw [Nat.mod_eq_sub_mod (by omega), Nat.mod_eq_of_lt (by omega)]
      rw [e]; omega

/-- the regression input of the fix: `a = scene[0:100]`, `b = scene[80:100]` was reported at −39 -/
theorem shift_decode_wrong : oldDec (100 + 20 - 1) (enc (100 + 20 - 1) 80) = -39
    ∧ dec 100 (100 + 20 - 1) (enc (100 + 20 - 1) 80) = 80 := by decide

/-- **swapping the arguments negates the lag** (every dimension, every lag) -/
theorem lin_swap (sa sb : List Nat) (A B : List Nat → Rat) (l : List Int)
    (h1 : sa.length = sb.length) (h2 : l.length = sb.length) :
    lin sb (zext sa A) B l = lin sa (zext sb B) A (l.map (- ·)) := by
  induction sa generalizing sb A B l with
  | nil =>
    cases sb with
    | nil =>
      cases l with
      | nil => simp [lin, zext, inBoxI, mul_comm]
      | cons _ _ => simp at h2
    | cons _ _ => simp at h1
  | cons a as ih =>
    cases sb with
    | nil => simp at h1
    | cons b bs =>
      cases l with
      | nil => simp at h2
      | cons l0 ls =>
        rw [List.map_cons, lin_cons, lin_cons]
        rw [reindex a b l0 (fun m n => lin bs (zext as (fun r => A (m :: r))) (fun r => B (n :: r)) ls)]
        apply sumRange_congr
        intro m _
        split
        · rw [ih bs _ _ ls (by simpa using h1) (by simpa using h2)]
        · rfl


/-- cross-correlation with the arguments swapped is the cross-correlation at the negated lag -/
theorem xcorr_swap (a b : Img) (l : List Int) (h1 : a.shape.length = b.shape.length)
    (h2 : l.length = b.shape.length) : xcorr a b l = xcorr b a (l.map (- ·)) :=
  lin_swap a.shape b.shape a.get b.get l h1 h2

/-- **swapping the arguments negates the estimate** (under the hypotheses of `register_argmax`) -/
theorem swap_negates (a b : Img) (l : List Int)
    (hpa : ∀ x ∈ a.shape, 0 < x) (hpb : ∀ x ∈ b.shape, 0 < x)
    (hl : inLagBox a.shape b.shape l = true)
    (huniq : ∀ l', inLagBox a.shape b.shape l' = true → l' ≠ l → xcorr a b l' < xcorr a b l) :
    register a b = l ∧ register b a = l.map (- ·) := by
  refine ⟨register_argmax a b l hpa hpb hl huniq, ?_⟩
  have hlen := inLagBox_length _ _ _ hl
  apply register_argmax b a _ hpb hpa (inLagBox_neg _ _ _ hl)
  intro l' hl' hne
  have e1 : xcorr b a l' = xcorr a b (l'.map (- ·)) := by
    have := xcorr_swap a b (l'.map (- ·)) hlen (by
      rw [List.length_map, inLagBox_len _ _ _ hl']
      exact hlen)
    rw [map_neg_neg] at this
    exact this.symm
  have e2 : xcorr b a (l.map (- ·)) = xcorr a b l :=
    (xcorr_swap a b l hlen (inLagBox_len _ _ _ hl)).symm
  rw [e1, e2]
  apply huniq _ (by have := inLagBox_neg _ _ _ hl'; exact this)
  intro e
  apply hne
  rw [← e, map_neg_neg]


example : register ⟨[1], fun _ => 1⟩ ⟨[4], fun i => if i = [2] then 1 else 0⟩ = [-2] :=
  (swap_negates _ _ [2] (by simp) (by simp) (by decide) impulse_unique).2

/-- **zero lag is a maximum of the self-correlation**, every dimension: `x[l] ≤ x[0] = Σ a²` -/
theorem xcorr_self_le (a : Img) (l : List Int) (hl : l.length = a.shape.length) :
    xcorr a a l ≤ xcorr a a (List.replicate a.shape.length 0) := by
  have h := lin_le_energy a.shape a.shape a.get a.get l rfl hl
  have e := xcorr_self_zero a.shape a.get
  unfold xcorr
  rw [e]
  linarith

/-- **every image registers to itself at offset zero**: zero lag is stored first, it is a maximum
(`xcorr_self_le`) and `argmax` takes the first maximum -/
theorem register_self (a : Img) (hpa : ∀ x ∈ a.shape, 0 < x) :
    register a a = List.replicate a.shape.length 0 := by
  have hpos := padShape_pos a.shape a.shape hpa hpa
  have hlen := padShape_length a.shape a.shape rfl
  obtain ⟨tl, htl⟩ := allIdx_head _ hpos
  have hne : allIdx (padShape a.shape a.shape) ≠ [] := by rw [htl]; simp
  obtain ⟨k, hk, -, -, hfirst⟩ := argmaxFirst_spec (xcorrCirc a a) _ hne
  have hhead : (allIdx (padShape a.shape a.shape)).head hne = List.replicate a.shape.length 0 := by
    simp only [htl, List.head_cons, hlen]
  have hz := inLagBox_zeros a.shape a.shape rfl hpa hpa
  have c0 : xcorrCirc a a (List.replicate a.shape.length 0) = xcorr a a (List.replicate a.shape.length 0) := by
    have := circ_eq_lin a.shape a.shape a.get a.get _ hpa hpa hz
    rw [← hlen, encode_zeros, hlen] at this
    exact this
  have hk0 : k = List.replicate a.shape.length 0 := by
    rw [← hhead]
    apply hfirst
    intro k' hk'
    rw [hhead, c0]
    have hkb := (mem_allIdx _ _).mp hk'
    obtain ⟨e1, e2⟩ := encode_decode_nd a.shape a.shape k' rfl hpa hpa hkb
    have c2 := circ_eq_lin a.shape a.shape a.get a.get _ hpa hpa e2
    rw [e1] at c2
    have : xcorrCirc a a k' = xcorr a a (decode a.shape (padShape a.shape a.shape) k') := c2
    rw [this]
    exact xcorr_self_le a _ (inLagBox_len _ _ _ e2)
  simp only [register, hk, hk0]
  have := decode_zeros a.shape (padShape a.shape a.shape) hlen hpa
  rw [hlen] at this
  exact this


/-- **zero lag is the unique maximum of the self-correlation** of an image that is not identically
zero, in every dimension: `x[l] < x[0]` for every lag `l ≠ 0` (finite support: a non-zero image
cannot coincide with a translate of itself) -/
theorem xcorr_self_lt (a : Img) (i : List Nat) (hi : inBox i a.shape = true) (hA : a.get i ≠ 0)
    (l : List Int) (hl : l.length = a.shape.length) (hne : l ≠ List.replicate a.shape.length 0) :
    xcorr a a l < xcorr a a (List.replicate a.shape.length 0) := by
  have hpos := energy_pos a.shape a.get i hi hA
  have e := xcorr_self_zero a.shape a.get
  unfold xcorr
  rw [e]
  by_contra hcon
  have hz := energy_zero_of_tight_self a.shape a.get l hl hne (by linarith)
  linarith

/-- non-vacuity: the 1-D image `[0, 3]` at lag 1 -/
example : xcorr ⟨[2], fun i => if i = [1] then 3 else 0⟩ ⟨[2], fun i => if i = [1] then 3 else 0⟩ [1]
    < xcorr ⟨[2], fun i => if i = [1] then 3 else 0⟩ ⟨[2], fun i => if i = [1] then 3 else 0⟩ [0] :=
  xcorr_self_lt ⟨[2], fun i => if i = [1] then 3 else 0⟩ [1] (by decide) (by simp) [1] rfl (by decide)


section merge
open Pew.Overlap

/-- **register, then merge**: any number of windows of one scene, merged at their true offsets in
`replace` (the default) or `mean` mode, reproduce the scene on the union of the windows and hold the
fill elsewhere -/
theorem merge_reproduces_scene (m : Mode) (hm : m ≠ .sum) (fill : V) (scene : Idx → Rat)
    (ws : List (List Int × List Nat)) (p : Idx) :
    mech m fill (ws.map fun w => window scene w.1 w.2) p
      = sceneOnUnion scene fill (ws.map fun w => window scene w.1 w.2) p := by
  rw [pixel_spec]
  unfold spec sceneOnUnion
  rw [contribs_windows]
  generalize hL : (ws.map fun w => window scene w.1 w.2) = L
  by_cases hany : L.any (fun a => a.inside p) = true
  · have hpos : 0 < L.countP (fun a => a.inside p) := by
      rw [List.countP_pos_iff]
      simpa using hany
    obtain ⟨n, hn⟩ : ∃ n, L.countP (fun a => a.inside p) = n + 1 := ⟨_, (Nat.succ_pred_eq_of_pos hpos).symm⟩
    rw [hn, if_pos hany, List.replicate_succ]
    cases m with
    | replace =>
      simp only
      congr 1
      have : (scene p :: List.replicate n (scene p)) = List.replicate (n + 1) (scene p) := rfl
      simp only [this]
      rw [List.getLast_replicate]
    | sum => exact absurd rfl hm
    | mean =>
      simp only [List.sum_cons, List.sum_replicate, List.length_cons, List.length_replicate, nsmul_eq_mul]
      congr 1
      have : ((n + 1 : Nat) : Rat) ≠ 0 := by positivity
      field_simp
      push_cast
      ring
  · have hz : L.countP (fun a => a.inside p) = 0 := by
      rw [List.countP_eq_zero]
      simpa using hany
    rw [hz, if_neg hany]
    simp

/-- the offset normalisation of `overlap_arrays` turns windows of a scene into windows of the same
scene in canvas coordinates (origin moved to the per-axis minimum offset) -/
theorem normalise_windows (ndim : Nat) (scene : Idx → Rat) (ws : List (List Int × List Nat))
    (hoff : ∀ w ∈ ws, w.1.length = ndim) :
    normalise ndim (ws.map fun w => window scene w.1 w.2)
      = ws.map (fun w =>
          window (fun q => scene (List.zipWith (· + ·) q (minOffset ndim (ws.map fun w => window scene w.1 w.2))))
            (Pew.Overlap.sub w.1 (minOffset ndim (ws.map fun w => window scene w.1 w.2))) w.2) := by
  simp only [normalise, List.map_map]
  apply List.map_congr_left
  intro w hw
  simp only [Function.comp, window]
  congr 1
  funext i
  rw [zip_add_assoc i w.1 _ (by rw [minOffset_length]; exact hoff w hw)]

/-- **register, then merge, end to end**: the canvas that `overlap_arrays` fills for windows of one
scene placed at their true offsets (normalised as the code does) is that scene in canvas
coordinates on the union of the windows and the fill elsewhere (`replace` and `mean` modes) -/
theorem merge_normalised_reproduces_scene (m : Mode) (hm : m ≠ .sum) (fill : V) (ndim : Nat)
    (scene : Idx → Rat) (ws : List (List Int × List Nat)) (hoff : ∀ w ∈ ws, w.1.length = ndim) (p : Idx) :
    mech m fill (normalise ndim (ws.map fun w => window scene w.1 w.2)) p
      = sceneOnUnion (fun q => scene (List.zipWith (· + ·) q (minOffset ndim (ws.map fun w => window scene w.1 w.2))))
          fill (normalise ndim (ws.map fun w => window scene w.1 w.2)) p := by
  rw [normalise_windows ndim scene ws hoff]
  have := merge_reproduces_scene m hm fill
    (fun q => scene (List.zipWith (· + ·) q (minOffset ndim (ws.map fun w => window scene w.1 w.2))))
    (ws.map fun w => (Pew.Overlap.sub w.1 (minOffset ndim (ws.map fun w => window scene w.1 w.2)), w.2)) p
  rw [List.map_map] at this
  exact this

/-- **register, then merge, the whole result**: shape and every pixel of what `overlap_arrays`
returns for windows of one scene at their true offsets equal `mergeSpec` — the function the driver
sends as `spec` of `c12.merge`: the scene (read at canvas pixel + minimum offset) where a window
covers the pixel, the fill elsewhere; `replace` and `mean` modes, every fill, any number of windows -/
theorem merge_whole (m : Mode) (hm : m ≠ .sum) (fill : V) (ndim : Nat)
    (scene : Idx → Rat) (ws : List (List Int × List Nat)) (hoff : ∀ w ∈ ws, w.1.length = ndim) :
    overlap false m fill ndim (ws.map fun w => window scene w.1 w.2)
      = mergeSpec scene fill ndim (ws.map fun w => window scene w.1 w.2) := by
  simp only [overlap, mergeSpec, Bool.false_eq_true, if_false]
  congr 1
  apply List.map_congr_left
  intro p hp
  have hplen : p.length = ndim := by
    rw [allIdxO_length _ p hp]
    simp [newShape]
  rw [merge_normalised_reproduces_scene m hm fill ndim scene ws hoff p]
  have hany : (normalise ndim (ws.map fun w => window scene w.1 w.2)).any (fun a => a.inside p)
      = (ws.map fun w => window scene w.1 w.2).any
          (fun a => a.inside (List.zipWith (· + ·) p (minOffset ndim (ws.map fun w => window scene w.1 w.2)))) := by
    simp only [normalise]
    rw [List.any_map]
    apply any_congr_mem
    intro a ha
    obtain ⟨w, hw, rfl⟩ := List.mem_map.mp ha
    simp only [Function.comp]
    exact inside_normalised _ _ p (by rw [minOffset_length]; exact hplen)
      (by rw [minOffset_length]; exact hoff w hw)
  simp only [sceneOnUnion, hany]

end merge

/-! ## the array twin of the driver (`PewModel.RegisterFast`) equals the model

`PewDriver.C12` parses an image into the pair `(mkImg shape data, toFImg shape data)` and, for long
axes, evaluates `fastLin` / `fastCirc` / `peakOfTable` / `registerOf` on the integer arrays instead of
`xcorr` / `xcorrCirc` / `peak` / `register` on the model image.  The theorems below hold for **every
number of dimensions, every shape (zero extents included), every data list (whatever its length:
both sides read a missing entry as 0) and every lag / index vector (in or out of the box, of any
length)**; the only hypothesis is that the two shapes have the same number of axes (which the driver
checks before it evaluates anything). -/

/-- **`fastLin` is `xcorr`**: the integer-array evaluation of the linear cross-correlation (common
denominator, common factor taken out, flat strided reads, loop over the overlap only) is the
model's cross-correlation at every lag -/
theorem fastLin_eq_xcorr (sa sb : List Nat) (da db : List Rat) (h : sa.length = sb.length) (l : List Int) :
    fastLin (toFImg sa da) (toFImg sb db) l = xcorr (mkImg sa da) (mkImg sb db) l := by
  simp only [fastLin, xcorr, mkImg, axesOf_toFImg, linGo_eq sa sb h, mkGet_eq, zext_smul, lin_smul]

/-- **`fastCirc` is `xcorrCirc`**: the integer-array evaluation of the circular correlation of the
zero padded images (the zero terms `n ∉ box b`, `(n + k) mod s ∉ box a` skipped) is the model's
padded correlation array at every index vector -/
theorem fastCirc_eq_xcorrCirc (sa sb : List Nat) (da db : List Rat) (h : sa.length = sb.length) (k : List Nat) :
    fastCirc (toFImg sa da) (toFImg sb db) k = xcorrCirc (mkImg sa da) (mkImg sb db) k := by
  simp only [fastCirc, xcorrCirc, mkImg, axesOf_toFImg, circGo_eq sa sb h, mkGet_eq, padN_smul, circ_smul]

/-- the whole table of correlation values over the lag box, in the row-major order in which the
driver builds it (`c12.registerLong`: `table`), is the model's table -/
theorem fastLin_table_eq (sa sb : List Nat) (da db : List Rat) (h : sa.length = sb.length) :
    (lags sa sb).map (fun l => (l, fastLin (toFImg sa da) (toFImg sb db) l))
      = (lags (mkImg sa da).shape (mkImg sb db).shape).map (fun l => (l, xcorr (mkImg sa da) (mkImg sb db) l)) := by
  simp only [fastLin_eq_xcorr sa sb da db h, mkImg]

/-- the whole circular correlation array in row-major order is the model's -/
theorem fastCirc_table_eq (sa sb : List Nat) (da db : List Rat) (h : sa.length = sb.length) :
    (allIdx (padShape sa sb)).map (fastCirc (toFImg sa da) (toFImg sb db))
      = (allIdx (padShape sa sb)).map (xcorrCirc (mkImg sa da) (mkImg sb db)) := by
  rw [funext (fastCirc_eq_xcorrCirc sa sb da db h)]

/-- `peak` is `peakOfTable` of the model's table (definitional) -/
theorem peak_eq_peakOfTable (a b : Img) :
    peak a b = peakOfTable ((lags a.shape b.shape).map (fun l => (l, xcorr a b l))) := rfl

/-- **maximum, its lag (first in row-major order) and runner-up** computed from the twin's table
(what `c12.registerLong` reports as `lag`, `max`, `runner`) are those of the model's `peak` -/
theorem peakOfTable_fast_eq_peak (sa sb : List Nat) (da db : List Rat) (h : sa.length = sb.length) :
    peakOfTable ((lags sa sb).map (fun l => (l, fastLin (toFImg sa da) (toFImg sb db) l)))
      = peak (mkImg sa da) (mkImg sb db) := by
  rw [fastLin_table_eq sa sb da db h, peak_eq_peakOfTable]

/-- the same through `peakOf` (what `c12.register` compares with the model at run time) -/
theorem peakOf_fast_eq_peak (sa sb : List Nat) (da db : List Rat) (h : sa.length = sb.length) :
    peakOf (fastLin (toFImg sa da) (toFImg sb db)) (lags sa sb) = peak (mkImg sa da) (mkImg sb db) :=
  peakOfTable_fast_eq_peak sa sb da db h

/-- **the mechanism's answer computed from the twin** (first maximum of the circular array in
row-major order, decoded; what `c12.registerLong` reports as `model`) is the model's `register` -/
theorem registerOf_fast_eq_register (sa sb : List Nat) (da db : List Rat) (h : sa.length = sb.length) :
    registerOf (fastCirc (toFImg sa da) (toFImg sb db)) sa sb = register (mkImg sa da) (mkImg sb db) := by
  have e : fastCirc (toFImg sa da) (toFImg sb db) = xcorrCirc (mkImg sa da) (mkImg sb db) :=
    funext (fastCirc_eq_xcorrCirc sa sb da db h)
  rw [e]
  rfl

/-- end to end on the twin: a unique maximum of the twin's linear correlation over the lag box is
what the twin's mechanism returns (`register_argmax` carried over; shapes positive as there) -/
theorem registerOf_fast_argmax (sa sb : List Nat) (da db : List Rat) (l : List Int)
    (hpa : ∀ x ∈ sa, 0 < x) (hpb : ∀ x ∈ sb, 0 < x) (hl : inLagBox sa sb l = true)
    (huniq : ∀ l', inLagBox sa sb l' = true → l' ≠ l →
      fastLin (toFImg sa da) (toFImg sb db) l' < fastLin (toFImg sa da) (toFImg sb db) l) :
    registerOf (fastCirc (toFImg sa da) (toFImg sb db)) sa sb = l := by
  have h := inLagBox_length _ _ _ hl
  rw [registerOf_fast_eq_register sa sb da db h]
  apply register_argmax (mkImg sa da) (mkImg sb db) l hpa hpb hl
  intro l' hl' hne
  rw [← fastLin_eq_xcorr sa sb da db h, ← fastLin_eq_xcorr sa sb da db h]
  exact huniq l' hl' hne

/-- non-vacuity / the twin really computes: a 2-D pair with non-integer entries (common denominator 6,
common factor 1 resp. 2) at a lag with partial overlap, both routes -/
example : fastLin (toFImg [2, 2] [1, 1/2, 3, -2/3]) (toFImg [1, 2] [4, 2]) [1, -1] = 6
    ∧ xcorr (mkImg [2, 2] [1, 1/2, 3, -2/3]) (mkImg [1, 2] [4, 2]) [1, -1] = 6 := by decide +kernel

example : fastCirc (toFImg [2, 2] [1, 1/2, 3, -2/3]) (toFImg [1, 2] [4, 2]) [1, 2] = 6
    ∧ xcorrCirc (mkImg [2, 2] [1, 1/2, 3, -2/3]) (mkImg [1, 2] [4, 2]) [1, 2] = 6 := by decide +kernel

/-! ## from the driver's `peak` to the hypothesis of `register_argmax` -/

/-- **a positive margin makes the reported lag the unique maximiser over the lag box.**  `peak` is
what the driver evaluates as the specification (lag of the maximum, maximum, largest value at any
other lag).  If the runner-up is strictly below the maximum (or there is no other lag) then the
reported lag is in the lag box, the reported value is the correlation there, and the correlation at
every other lag of the lag box is strictly smaller — the `huniq` hypothesis of `register_argmax`. -/
theorem peak_margin_unique (a b : Img) (pk : Peak) (h : peak a b = some pk)
    (hm : ∀ r, pk.runnerUp = some r → r < pk.value) :
    inLagBox a.shape b.shape pk.lag = true ∧ pk.value = xcorr a b pk.lag ∧
      ∀ l', inLagBox a.shape b.shape l' = true → l' ≠ pk.lag → xcorr a b l' < xcorr a b pk.lag := by
  rw [peak_eq_peakOfTable] at h
  obtain ⟨hmem, hlt⟩ := peakOfTable_margin _ pk h hm
  obtain ⟨l, hl, e⟩ := List.mem_map.mp hmem
  simp only [Prod.mk.injEq] at e
  obtain ⟨e1, e2⟩ := e
  subst e1
  refine ⟨(mem_lags _ _ _).mp hl, e2.symm, ?_⟩
  intro l' hl' hne
  have := hlt (l', xcorr a b l') (List.mem_map.mpr ⟨l', (mem_lags _ _ _).mpr hl', rfl⟩) hne
  rw [e2]
  exact this

/-- **the mechanism returns the lag that `peak` reports whenever the margin is positive** (whether
or not that lag is the true translation): this is the comparison `c12.py` makes in every determined
case -/
theorem peak_margin_register (a b : Img) (pk : Peak)
    (hpa : ∀ x ∈ a.shape, 0 < x) (hpb : ∀ x ∈ b.shape, 0 < x) (h : peak a b = some pk)
    (hm : ∀ r, pk.runnerUp = some r → r < pk.value) :
    register a b = pk.lag ∧ register b a = pk.lag.map (- ·) := by
  obtain ⟨h1, -, h3⟩ := peak_margin_unique a b pk h hm
  exact swap_negates a b pk.lag hpa hpb h1 h3

/-- the same on the driver's array twin (long axes): peak of the twin's table with a positive margin
⇒ the twin's mechanism returns that lag -/
theorem peak_margin_registerOf_fast (sa sb : List Nat) (da db : List Rat) (pk : Peak)
    (hpa : ∀ x ∈ sa, 0 < x) (hpb : ∀ x ∈ sb, 0 < x) (hlen : sa.length = sb.length)
    (h : peakOfTable ((lags sa sb).map (fun l => (l, fastLin (toFImg sa da) (toFImg sb db) l))) = some pk)
    (hm : ∀ r, pk.runnerUp = some r → r < pk.value) :
    registerOf (fastCirc (toFImg sa da) (toFImg sb db)) sa sb = pk.lag := by
  rw [peakOfTable_fast_eq_peak sa sb da db hlen] at h
  rw [registerOf_fast_eq_register sa sb da db hlen]
  exact (peak_margin_register (mkImg sa da) (mkImg sb db) pk hpa hpb h hm).1

/-- non-vacuity: the impulse pair of `impulse_unique`: peak `(lag 2, value 1, runner-up 0)` -/
example : (peak ⟨[4], fun i => if i = [2] then 1 else 0⟩ ⟨[1], fun _ => 1⟩).map
    (fun pk => (pk.lag, pk.value, pk.runnerUp)) = some ([2], 1, some 0) := by decide +kernel

/-! ## when the maximum sits at the true translation -/

/-- **the estimate is the true translation** under the decidable scene hypothesis `truthHyp`:
`t` is a lag of the lag box, `b` is the window of zero-extended `a` at `t` (a sub-window of `a`; or a
window that sticks out of `a` and vanishes there, e.g. two overlapping windows of a scene that is
zero outside their overlap), and the window of `a` at `t` has the largest energy among the windows
of `b`'s shape at all lags of the lag box, without an identical twin of the same energy.  Then the
cross-correlation has its unique maximum at `t` (Cauchy–Schwarz, `window_peak`), `register a b = t`
and `register b a = −t`.  The driver evaluates `truthHyp` per case. -/
theorem register_truth (a b : Img) (t : List Int)
    (hpa : ∀ x ∈ a.shape, 0 < x) (hpb : ∀ x ∈ b.shape, 0 < x) (h : truthHyp a b t = true) :
    (∀ l, inLagBox a.shape b.shape l = true → l ≠ t → xcorr a b l < xcorr a b t) ∧
      register a b = t ∧ register b a = t.map (- ·) := by
  simp only [truthHyp, Bool.and_eq_true, List.all_eq_true, Bool.or_eq_true, beq_iff_eq, decide_eq_true_eq] at h
  obtain ⟨⟨hbox, hwin⟩, hall⟩ := h
  have hwin' : ∀ n, inBox n b.shape = true → b.get n = shiftRead a t n := by
    intro n hn
    have := (List.all_eq_true.mp hwin) n ((mem_allIdx _ _).mpr hn)
    simpa using this
  have huniq : ∀ l, inLagBox a.shape b.shape l = true → l ≠ t → xcorr a b l < xcorr a b t := by
    intro l hl hne
    rcases hall l ((mem_lags _ _ _).mpr hl) with e | ⟨hE, hd⟩
    · exact absurd e hne
    · simp only [winDiffers, List.any_eq_true, bne_iff_ne] at hd
      obtain ⟨n, hn, hd⟩ := hd
      exact window_peak a b t l (inLagBox_len _ _ _ hbox) (inLagBox_len _ _ _ hl) hwin' hE n
        ((mem_allIdx _ _).mp hn) hd
  exact ⟨huniq, swap_negates a b t hpa hpb hbox huniq⟩

/-- non-vacuity: `a = [0, 1, 2, 0]`, `b = a[1:3] = [1, 2]`, `t = 1`: the window energies over the lag
box `−1 … 3` are 0, 1, 5, 4, 0 -/
example : truthHyp ⟨[4], fun i => if i = [1] then 1 else if i = [2] then 2 else 0⟩
    ⟨[2], fun i => if i = [0] then 1 else 2⟩ [1] = true := by decide +kernel

/-- … and a pair for which it fails although `b` is a sub-window: `a = [3, 1, 2, 0]`, `b = a[1:3]`
(the window at lag 0 has more energy) -/
example : truthHyp ⟨[4], fun i => if i = [0] then 3 else if i = [1] then 1 else if i = [2] then 2 else 0⟩
    ⟨[2], fun i => if i = [0] then 1 else 2⟩ [1] = false := by decide +kernel

/-! ## an empty background: the estimate is the true translation without a per-case energy condition -/

/-- **the estimate is the true translation on an empty background**, every dimension, no per-case evaluation of window
energies: `b` is the window of zero-extended `a` at `t` and `a` vanishes outside that window (two windows of a scene
that is zero outside their overlap; a tile that holds the only feature of a frame), `a` not identically zero.  Then the
cross-correlation has its unique maximum at `t`, `register a b = t`, `register b a = −t`. -/
theorem register_zero_background (a b : Img) (t : List Int)
    (hpa : ∀ x ∈ a.shape, 0 < x) (hpb : ∀ x ∈ b.shape, 0 < x) (h : zeroBgHyp a b t = true) :
    (∀ l, inLagBox a.shape b.shape l = true → l ≠ t → xcorr a b l < xcorr a b t) ∧
      register a b = t ∧ register b a = t.map (- ·) := by
  have h' := h
  simp only [zeroBgHyp, Bool.and_eq_true, List.any_eq_true, bne_iff_ne] at h'
  obtain ⟨⟨⟨hbox, -⟩, -⟩, i, hi, hA⟩ := h'
  have hlen := inLagBox_length _ _ _ hbox
  have htl := inLagBox_len _ _ _ hbox
  have huniq : ∀ l, inLagBox a.shape b.shape l = true → l ≠ t → xcorr a b l < xcorr a b t := by
    intro l hl hne
    have hll := inLagBox_len _ _ _ hl
    rw [xcorr_zero_background a b t l h hll, xcorr_zero_background a b t t h htl, zipWith_sub_self, htl, ← hlen]
    apply xcorr_self_lt a i ((mem_allIdx _ _).mp hi) hA
    · simp [List.length_zipWith, hll, htl, hlen]
    · intro e
      apply hne
      apply zipWith_sub_eq_zeros l t (by rw [hll, htl])
      rw [e, htl, hlen]
  exact ⟨huniq, swap_negates a b t hpa hpb hbox huniq⟩

/-- non-vacuity: `a = [0, 1, 2, 0]`, `b = [1, 2, 0]` placed at `1` (sticks out of `a` by one pixel, where it is zero) -/
example : zeroBgHyp ⟨[4], fun i => if i = [1] then 1 else if i = [2] then 2 else 0⟩
    ⟨[3], fun i => if i = [0] then 1 else if i = [1] then 2 else 0⟩ [1] = true := by decide +kernel


/-! ## register, then merge **at the estimate**

`merge_whole` is about windows placed at their true offsets.  The clause of the property ("merging the two images at
the estimated offset reproduces the common scene on their union") composes it with the estimate: the arrays handed to
`overlap_arrays` are the images themselves (`placed`), the second one at `register a b`. -/

section mergeAtEstimate
open Pew.Overlap

/-- **register, then merge at the estimate**: `a` and `b` show one scene (`a` from the origin, `b` from `t`), the
estimate is `t`; then `overlap_arrays([a, b], [0, fft_register_offset(a, b)])` is the scene on the union of the two
images and the fill elsewhere (`replace` and `mean` modes, every fill) -/
theorem merge_at_estimate (m : Mode) (hm : m ≠ .sum) (fill : V) (a b : Img) (t : List Int) (scene : Idx → Rat)
    (ht : t.length = a.shape.length)
    (ha : ∀ n, inBox n a.shape = true → a.get n = scene (n.map Int.ofNat))
    (hb : ∀ n, inBox n b.shape = true → b.get n = scene (List.zipWith (· + ·) (n.map Int.ofNat) t))
    (hreg : register a b = t) :
    overlap false m fill a.shape.length [placed a (List.replicate a.shape.length 0), placed b (register a b)]
      = mergeSpec scene fill a.shape.length
          [window scene (List.replicate a.shape.length 0) a.shape, window scene t b.shape] := by
  rw [hreg]
  have h0 : sameArr (placed a (List.replicate a.shape.length 0)) (window scene (List.replicate a.shape.length 0) a.shape) := by
    apply placed_sameArr a _ scene
    intro n hn
    rw [ha n hn, zipWith_add_zeros _ _ (by rw [List.length_map]; exact inBox_length _ _ hn)]
  have h1 : sameArr (placed b t) (window scene t b.shape) :=
    placed_sameArr b t scene hb
  rw [overlap_congr m fill _ _ _ (List.Forall₂.cons h0 (List.Forall₂.cons h1 List.Forall₂.nil))]
  have := merge_whole m hm fill a.shape.length scene
    [(List.replicate a.shape.length 0, a.shape), (t, b.shape)] (by
      intro w hw
      simp only [List.mem_cons, List.not_mem_nil, or_false] at hw
      rcases hw with rfl | rfl
      · simp
      · exact ht)
  simpa using this


/-- … under the scene hypothesis of `register_truth` -/
theorem register_then_merge (m : Mode) (hm : m ≠ .sum) (fill : V) (a b : Img) (t : List Int) (scene : Idx → Rat)
    (hpa : ∀ x ∈ a.shape, 0 < x) (hpb : ∀ x ∈ b.shape, 0 < x)
    (ha : ∀ n, inBox n a.shape = true → a.get n = scene (n.map Int.ofNat))
    (hb : ∀ n, inBox n b.shape = true → b.get n = scene (List.zipWith (· + ·) (n.map Int.ofNat) t))
    (h : truthHyp a b t = true) :
    overlap false m fill a.shape.length [placed a (List.replicate a.shape.length 0), placed b (register a b)]
      = mergeSpec scene fill a.shape.length
          [window scene (List.replicate a.shape.length 0) a.shape, window scene t b.shape] := by
  have hbox : inLagBox a.shape b.shape t = true := by
    simp only [truthHyp, Bool.and_eq_true] at h
    exact h.1.1
  exact merge_at_estimate m hm fill a b t scene
    (by rw [inLagBox_len _ _ _ hbox, inLagBox_length _ _ _ hbox]) ha hb (register_truth a b t hpa hpb h).2.1

/-- … on an empty background (`register_zero_background`) -/
theorem register_then_merge_zero_background (m : Mode) (hm : m ≠ .sum) (fill : V) (a b : Img) (t : List Int)
    (scene : Idx → Rat) (hpa : ∀ x ∈ a.shape, 0 < x) (hpb : ∀ x ∈ b.shape, 0 < x)
    (ha : ∀ n, inBox n a.shape = true → a.get n = scene (n.map Int.ofNat))
    (hb : ∀ n, inBox n b.shape = true → b.get n = scene (List.zipWith (· + ·) (n.map Int.ofNat) t))
    (h : zeroBgHyp a b t = true) :
    overlap false m fill a.shape.length [placed a (List.replicate a.shape.length 0), placed b (register a b)]
      = mergeSpec scene fill a.shape.length
          [window scene (List.replicate a.shape.length 0) a.shape, window scene t b.shape] := by
  have hbox : inLagBox a.shape b.shape t = true := by
    simp only [zeroBgHyp, Bool.and_eq_true] at h
    exact h.1.1.1
  exact merge_at_estimate m hm fill a b t scene
    (by rw [inLagBox_len _ _ _ hbox, inLagBox_length _ _ _ hbox]) ha hb (register_zero_background a b t hpa hpb h).2.1

/-- … **whenever the driver's `peak` has a positive margin and sits at the true translation** — the condition under
which `c12.py` compares the merge clause (it demands a 5 % margin) -/
theorem register_then_merge_peak (m : Mode) (hm : m ≠ .sum) (fill : V) (a b : Img) (pk : Peak) (scene : Idx → Rat)
    (hpa : ∀ x ∈ a.shape, 0 < x) (hpb : ∀ x ∈ b.shape, 0 < x)
    (ha : ∀ n, inBox n a.shape = true → a.get n = scene (n.map Int.ofNat))
    (hb : ∀ n, inBox n b.shape = true → b.get n = scene (List.zipWith (· + ·) (n.map Int.ofNat) pk.lag))
    (h : peak a b = some pk) (hmar : ∀ r, pk.runnerUp = some r → r < pk.value) :
    overlap false m fill a.shape.length [placed a (List.replicate a.shape.length 0), placed b (register a b)]
      = mergeSpec scene fill a.shape.length
          [window scene (List.replicate a.shape.length 0) a.shape, window scene pk.lag b.shape] := by
  have hbox := (peak_margin_unique a b pk h hmar).1
  exact merge_at_estimate m hm fill a b pk.lag scene
    (by rw [inLagBox_len _ _ _ hbox, inLagBox_length _ _ _ hbox]) ha hb (peak_margin_register a b pk hpa hpb h hmar).1

/-- non-vacuity: `a = [0, 1, 2, 0]`, `b = [1, 2]` cut at `1` from the scene `p ↦ a[p]`: merged at the estimate in
replace mode with a NaN fill the result is `a` -/
example : overlap false .replace none 1
    [placed ⟨[4], fun i => if i = [1] then 1 else if i = [2] then 2 else 0⟩ [0],
     placed ⟨[2], fun i => if i = [0] then 1 else 2⟩
       (register ⟨[4], fun i => if i = [1] then 1 else if i = [2] then 2 else 0⟩ ⟨[2], fun i => if i = [0] then 1 else 2⟩)]
    = ([4], [some 0, some 1, some 2, some 0]) := by decide +kernel

end mergeAtEstimate

end Pew.Register
