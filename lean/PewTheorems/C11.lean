import PewProofs.Overlap
import PewProofs.OverlapD

/-! # C11 — property theorems (statements only depend on `PewModel.Overlap`) -/
namespace Pew.Overlap

/-- Every canvas pixel computed by the mechanism (fill/zero-initialised canvas, sequential
accumulation, visit counting, final fill and mean division) is the last / mean / sum of the
non-NaN values the inputs place there, and the fill where nothing contributes.  All modes, every
fill (NaN or finite), any number of inputs, any dimension. -/
theorem pixel_spec (m : Mode) (fill : V) (arrs : List Arr) (p : Idx) :
    mech m fill arrs p = spec m fill arrs p := by
  unfold mech spec
  rw [foldl_point]
  cases m with
  | replace =>
    have h := fold_replace arrs p (init .replace fill p)
    simp only [finish]
    rw [h]
    cases hc : contribs arrs p with
    | nil => simp [init]
    | cons c cs => simp [List.getLast?_eq_getLast_of_ne_nil]
  | mean =>
    have h := fold_accum .mean (by decide) arrs p 0 0
    simp only [init, if_neg (show Mode.mean ≠ Mode.replace by decide)]
    rw [h]
    cases hc : contribs arrs p with
    | nil => simp [finish]
    | cons c cs =>
      simp only [finish, List.length_cons, Nat.zero_add, Nat.add_eq_zero_iff, Nat.succ_ne_zero, and_false, if_false]
      split
      · simp
      · have : cs = [] := by
          cases cs with
          | nil => rfl
          | cons _ _ => simp at *
        subst this; simp
  | sum =>
    have h := fold_accum .sum (by decide) arrs p 0 0
    simp only [init, if_neg (show Mode.sum ≠ Mode.replace by decide)]
    rw [h]
    cases hc : contribs arrs p with
    | nil => simp [finish]
    | cons c cs => simp [finish]

/-- mean and sum do not depend on the order of the inputs -/
theorem perm_invariant (m : Mode) (hm : m ≠ .replace) (fill : V) (a₁ a₂ : List Arr)
    (hp : a₁.Perm a₂) (p : Idx) : mech m fill a₁ p = mech m fill a₂ p := by
  rw [pixel_spec, pixel_spec]
  have hc : (contribs a₁ p).Perm (contribs a₂ p) := hp.filterMap _
  have hs : (contribs a₁ p).sum = (contribs a₂ p).sum := hc.sum_eq
  have hl : (contribs a₁ p).length = (contribs a₂ p).length := hc.length_eq
  unfold spec
  cases h1 : contribs a₁ p with
  | nil =>
    have : contribs a₂ p = [] := by rw [h1] at hc; exact hc.nil_eq.symm
    rw [this]
  | cons c cs =>
    cases h2 : contribs a₂ p with
    | nil => rw [h1, h2] at hl; simp at hl
    | cons d ds =>
      rw [h1, h2] at hs hl
      cases m with
      | replace => exact absurd rfl hm
      | mean => simp only; rw [hs, hl]
      | sum => simp only; rw [hs]


/-- The result covers exactly the bounding box: along every axis all normalised inputs lie inside
`[0, extent)`, one of them starts at 0, one of them ends at the extent, and the extent is
`max (offset + size) - min offset` of the offsets as given. -/
theorem bbox_exact (ndim : Nat) (arrs : List Arr) (hne : arrs ≠ [])
    (hoff : ∀ a ∈ arrs, a.off.length = ndim) (k : Nat) (hk : k < ndim) :
    (∀ a ∈ normalise ndim arrs,
        0 ≤ axis k a.off ∧ axis k a.off + ((a.shape.getD k 0 : Nat) : Int) ≤ axis k (newShape ndim (normalise ndim arrs))) ∧
    (∃ a ∈ normalise ndim arrs, axis k a.off = 0) ∧
    (∃ a ∈ normalise ndim arrs,
        axis k a.off + ((a.shape.getD k 0 : Nat) : Int) = axis k (newShape ndim (normalise ndim arrs))) ∧
    axis k (newShape ndim (normalise ndim arrs))
      = maxList (arrs.map fun a => axis k a.off + ((a.shape.getD k 0 : Nat) : Int))
        - minList (arrs.map fun a => axis k a.off) := by
  have hmapne : (normalise ndim arrs).map (fun a => axis k a.off + ((a.shape.getD k 0 : Nat) : Int)) ≠ [] := by
    simp [normalise, hne]
  refine ⟨?_, ?_, ?_, ?_⟩
  · intro a ha
    rw [axis_newShape _ _ _ hk]
    constructor
    · simp only [normalise, List.mem_map] at ha
      obtain ⟨b, hb, rfl⟩ := ha
      simp only
      rw [axis_normalised ndim arrs b k hk (hoff b hb)]
      have := minList_le (arrs.map fun a => axis k a.off) (axis k b.off) (List.mem_map.mpr ⟨b, hb, rfl⟩)
      omega
    · exact le_maxList _ _ (List.mem_map.mpr ⟨a, ha, rfl⟩)
  · have hm := minList_mem (arrs.map fun a => axis k a.off) (by simp [hne])
    obtain ⟨b, hb, hbe⟩ := List.mem_map.mp hm
    refine ⟨{ b with off := sub b.off (minOffset ndim arrs) }, ?_, ?_⟩
    · simp only [normalise, List.mem_map]; exact ⟨b, hb, rfl⟩
    · simp only; rw [axis_normalised ndim arrs b k hk (hoff b hb)]; omega
  · have hm := maxList_mem _ hmapne
    obtain ⟨b, hb, hbe⟩ := List.mem_map.mp hm
    exact ⟨b, hb, by rw [axis_newShape _ _ _ hk]; exact hbe⟩
  · rw [axis_newShape _ _ _ hk]
    have : (normalise ndim arrs).map (fun a => axis k a.off + ((a.shape.getD k 0 : Nat) : Int))
        = (arrs.map fun a => axis k a.off + ((a.shape.getD k 0 : Nat) : Int)).map
            (· + (- minList (arrs.map fun a => axis k a.off))) := by
      simp only [normalise, List.map_map]
      apply List.map_congr_left
      intro b hb
      simp only [Function.comp]
      rw [axis_normalised ndim arrs b k hk (hoff b hb)]
      omega
    rw [this, maxList_add _ _ (by simp [hne])]
    omega

def shift (t : List Int) (a : Arr) : Arr := { a with off := List.zipWith (· + ·) a.off t }

/-- adding the same translation to every offset changes nothing: the normalised inputs, hence
the shape and every pixel of the result, are identical -/
theorem translation_invariant (ndim : Nat) (arrs : List Arr) (t : List Int) (hne : arrs ≠ [])
    (hoff : ∀ a ∈ arrs, a.off.length = ndim) (ht : t.length = ndim) :
    normalise ndim (arrs.map (shift t)) = normalise ndim arrs := by
  have hax : ∀ b ∈ arrs, ∀ k, k < ndim → axis k (shift t b).off = axis k b.off + axis k t := by
    intro b hb k hk
    have := hoff b hb
    simp [shift, axis, List.getD, List.getElem?_zipWith,
      List.getElem?_eq_getElem (show k < b.off.length by omega),
      List.getElem?_eq_getElem (show k < t.length by omega)]
  have hmin : ∀ k, k < ndim → axis k (minOffset ndim (arrs.map (shift t))) = axis k (minOffset ndim arrs) + axis k t := by
    intro k hk
    rw [axis_minOffset _ _ _ hk, axis_minOffset _ _ _ hk]
    have : (arrs.map (shift t)).map (fun a => axis k a.off)
        = (arrs.map fun a => axis k a.off).map (· + axis k t) := by
      simp only [List.map_map]
      apply List.map_congr_left
      intro b hb
      simp only [Function.comp]
      exact hax b hb k hk
    rw [this, minList_add _ _ (by simp [hne])]
  simp only [normalise, List.map_map]
  apply List.map_congr_left
  intro b hb
  simp only [Function.comp]
  have hlen1 : (shift t b).off.length = ndim := by simp [shift, hoff b hb, ht]
  have : sub (shift t b).off (minOffset ndim (arrs.map (shift t))) = sub b.off (minOffset ndim arrs) := by
    apply List.ext_getElem
    · simp [sub, hlen1, hoff b hb, minOffset_length]
    · intro i h1 h2
      have hi : i < ndim := by
        simp [sub, hoff b hb, minOffset_length] at h2; exact h2
      have e1 := axis_sub (shift t b).off (minOffset ndim (arrs.map (shift t))) i (by omega) (by rw [minOffset_length]; exact hi)
      have e2 := axis_sub b.off (minOffset ndim arrs) i (by have := hoff b hb; omega) (by rw [minOffset_length]; exact hi)
      have a1 : axis i (sub (shift t b).off (minOffset ndim (arrs.map (shift t)))) = (sub (shift t b).off (minOffset ndim (arrs.map (shift t))))[i] := by
        simp [axis, List.getD, List.getElem?_eq_getElem h1]
      have a2 : axis i (sub b.off (minOffset ndim arrs)) = (sub b.off (minOffset ndim arrs))[i] := by
        simp [axis, List.getD, List.getElem?_eq_getElem h2]
      rw [← a1, ← a2, e1, e2, hax b hb i hi, hmin i hi]
      omega
  simp only [shift] at this ⊢
  rw [this]

/-- structured variant, per field: arrays that lack the field contribute nothing, so the field's
image is the plain merge of exactly the arrays that have it -/
theorem structured_spec (m : Mode) (fill : V) (arrs : List SArr) (name : String) (p : Idx) :
    mech m fill (arrs.map (·.field name)) p = specField m fill arrs name p := by
  rw [pixel_spec]
  unfold specField spec
  have : contribs (arrs.map (·.field name)) p
      = contribs ((arrs.filter (fun a => (a.fields.lookup name).isSome)).map (·.field name)) p := by
    induction arrs with
    | nil => rfl
    | cons a l ih =>
      simp only [List.map_cons, List.filter_cons]
      cases h : a.fields.lookup name with
      | none =>
        have hn : ((a.field name).at p).join = none := by
          simp only [SArr.field, h, Arr.at]
          split <;> simp
        rw [contribs_cons, hn]; simpa using ih
      | some g =>
        simp only [Option.isSome_some, if_true, List.map_cons]
        rw [contribs_cons, contribs_cons, ih]
  rw [this]

/-- the merged field list contains exactly the names of all inputs -/
theorem mergedNames_mem (arrs : List SArr) (n : String) :
    n ∈ mergedNames arrs ↔ ∃ a ∈ arrs, n ∈ a.fields.map (·.1) := by
  have h : ∀ (acc : List String),
      n ∈ arrs.foldl (fun acc a => acc ++ (a.fields.map (·.1)).filter (fun n => !acc.contains n)) acc
        ↔ n ∈ acc ∨ ∃ a ∈ arrs, n ∈ a.fields.map (·.1) := by
    induction arrs with
    | nil => intro acc; simp
    | cons a l ih =>
      intro acc
      simp only [List.foldl_cons]
      rw [ih]
      simp only [List.mem_append, List.mem_filter, List.mem_cons, exists_eq_or_imp]
      constructor
      · rintro ((h | ⟨h, -⟩) | h)
        · exact Or.inl h
        · exact Or.inr (Or.inl h)
        · exact Or.inr (Or.inr h)
      · rintro (h | h | h)
        · exact Or.inl (Or.inl h)
        · by_cases hc : n ∈ acc
          · exact Or.inl (Or.inl hc)
          · exact Or.inl (Or.inr ⟨h, by simpa using hc⟩)
        · exact Or.inr h
  have := h []
  simpa [mergedNames] using this

/-! ## the whole function (what the driver evaluates and the harness compares) -/

/-- **the whole result**: shape and every pixel in row-major order computed by the mechanism are
those of the specification (the driver sends `overlap false …` as `model` and `overlap true …` as
`spec`) -/
theorem overlap_spec (m : Mode) (fill : V) (ndim : Nat) (arrs : List Arr) :
    overlap false m fill ndim arrs = overlap true m fill ndim arrs := by
  simp only [overlap, Bool.false_eq_true, if_false, if_true]
  congr 1
  apply List.map_congr_left
  intro p _
  exact pixel_spec m fill _ p

/-- **a common translation of all offsets leaves the whole result unchanged** (shape and pixels) -/
theorem overlap_translation_invariant (spc : Bool) (m : Mode) (fill : V) (ndim : Nat) (arrs : List Arr)
    (t : List Int) (hne : arrs ≠ []) (hoff : ∀ a ∈ arrs, a.off.length = ndim) (ht : t.length = ndim) :
    overlap spc m fill ndim (arrs.map (shift t)) = overlap spc m fill ndim arrs := by
  simp only [overlap, translation_invariant ndim arrs t hne hoff ht]

/-- **reordering the inputs leaves the whole result of `mean` and `sum` unchanged** (shape and
pixels; the offsets are normalised by the same minimum, the bounding box is the same) -/
theorem overlap_perm_invariant (m : Mode) (hm : m ≠ .replace) (fill : V) (ndim : Nat) (a₁ a₂ : List Arr)
    (hp : a₁.Perm a₂) : overlap false m fill ndim a₁ = overlap false m fill ndim a₂ := by
  simp only [overlap, Bool.false_eq_true, if_false, newShape_perm ndim _ _ (normalise_perm ndim a₁ a₂ hp)]
  congr 1
  apply List.map_congr_left
  intro p _
  exact perm_invariant m hm fill _ _ (normalise_perm ndim a₁ a₂ hp) p

/-- the same array holding NaN everywhere -/
def nanLike (a : Arr) : Arr := { a with get := fun _ => none }

/-- **`replace` mode: the last writer wins.**  Where the last input places a non-NaN value the
result is that value; everywhere else the result is what the other inputs give (the last input
replaced by an all-NaN image of the same shape and offset, so that the bounding box is kept).
Reordering does change `replace` results in general; this is what holds instead. -/
theorem replace_last_writer (fill : V) (l : List Arr) (a : Arr) (p : Idx) :
    mech .replace fill (l ++ [a]) p
      = match (a.at p).join with
        | some x => some x
        | none => mech .replace fill (l ++ [nanLike a]) p := by
  rw [pixel_spec, pixel_spec]
  have hc : ∀ b : Arr, contribs (l ++ [b]) p = contribs l p ++ (match (b.at p).join with | some x => [x] | none => []) := by
    intro b
    unfold contribs
    rw [List.filterMap_append]
    congr 1
    simp only [List.filterMap_cons, List.filterMap_nil]
    cases (b.at p).join <;> rfl
  have hn : ((nanLike a).at p).join = none := by
    unfold Arr.at
    by_cases h : (nanLike a).inside p = true
    · rw [if_pos h]; rfl
    · rw [if_neg h]; rfl
  unfold spec
  rw [hc a, hc (nanLike a), hn]
  cases h : (a.at p).join with
  | none => rfl
  | some x =>
    simp only
    cases h2 : contribs l p with
    | nil => simp
    | cons c cs => simp

theorem zip_map_self {α β : Type} (l : List α) (f : α → β) : List.zip l (l.map f) = l.map (fun x => (x, f x)) := by
  induction l with
  | nil => rfl
  | cons x xs ih => simp [ih]

/-- the same over the whole result of the code (offsets normalised as the code does): replacing
the last input by an all-NaN image keeps the bounding box, and the result of `l ++ [a]` is that of
`l ++ [nanLike a]` overwritten with the non-NaN values of `a` -/
theorem overlap_replace_last_writer (fill : V) (ndim : Nat) (l : List Arr) (a : Arr) :
    (overlap false .replace fill ndim (l ++ [a])).1 = (overlap false .replace fill ndim (l ++ [nanLike a])).1 ∧
    (overlap false .replace fill ndim (l ++ [a])).2
      = (List.zip (allIdx ((overlap false .replace fill ndim (l ++ [a])).1.map Int.toNat))
            (overlap false .replace fill ndim (l ++ [nanLike a])).2).map
          (fun pv => match (({ a with off := sub a.off (minOffset ndim (l ++ [a])) } : Arr).at pv.1).join with
            | some x => some x
            | none => pv.2) := by
  have hm : minOffset ndim (l ++ [nanLike a]) = minOffset ndim (l ++ [a]) := by
    simp [minOffset, nanLike]
  have hn : normalise ndim (l ++ [nanLike a])
      = l.map (fun b => { b with off := sub b.off (minOffset ndim (l ++ [a])) })
        ++ [nanLike { a with off := sub a.off (minOffset ndim (l ++ [a])) }] := by
    simp only [normalise, hm, List.map_append, List.map_cons, List.map_nil]
    rfl
  have hn' : normalise ndim (l ++ [a])
      = l.map (fun b => { b with off := sub b.off (minOffset ndim (l ++ [a])) })
        ++ [{ a with off := sub a.off (minOffset ndim (l ++ [a])) }] := by
    simp only [normalise, List.map_append, List.map_cons, List.map_nil]
  have hs : newShape ndim (normalise ndim (l ++ [nanLike a])) = newShape ndim (normalise ndim (l ++ [a])) := by
    rw [hn, hn']
    simp [newShape, nanLike]
  refine ⟨by simp only [overlap, hs], ?_⟩
  simp only [overlap, Bool.false_eq_true, if_false, hs, zip_map_self, List.map_map]
  apply List.map_congr_left
  intro p _
  simp only [Function.comp]
  rw [hn, hn']
  exact replace_last_writer fill _ _ p

/-! ## structured variant, whole function -/

/-- **the structured merge as a whole**: for every list of structured inputs the mechanism
(`overlap` applied per merged field name to the inputs' fields, NaN stand-ins where an input lacks
the field) returns exactly `overlapStructuredSpec` — the function the driver sends as `spec`: the
common bounding box of all inputs and, per field, the last / mean / sum of the values of the
inputs that have the field.  (The offset normalisation and the box do not look at the values, so
they commute with taking a field.) -/
theorem structured_whole (m : Mode) (fill : V) (ndim : Nat) (arrs : List SArr) :
    overlapStructured false m fill ndim arrs = overlapStructuredSpec m fill ndim arrs := by
  unfold overlapStructured overlapStructuredSpec
  apply List.map_congr_left
  intro nm _
  have hview : (arrs.map (fun a => ({ off := a.off, shape := a.shape, get := fun _ => none } : Arr)))
      = (arrs.map (·.field nm)).map bare := by
    rw [List.map_map]
    apply List.map_congr_left
    intro a _
    exact (bare_field a nm).symm
  simp only [hview, minOffset_bare, normalise_bare, newShape_bare]
  have hN : normalise ndim (arrs.map (·.field nm))
      = (arrs.map (fun a => ({ a with off := sub a.off (minOffset ndim (arrs.map (·.field nm))) } : SArr))).map (·.field nm) := by
    simp only [normalise, List.map_map]
    apply List.map_congr_left
    intro a _
    exact field_normalised a nm _
  simp only [overlap, Bool.false_eq_true, if_false]
  congr 2
  apply List.map_congr_left
  intro p _
  rw [hN]
  exact structured_spec m fill _ nm p

/-! ## structured variant with field dtypes (`overlapStructuredD`) -/

/-- mechanism = specification for the dtype-aware structured merge too (errors, casts and all) -/
theorem structuredD_spec (m : Mode) (fill : V) (ndim : Nat) (arrs : List DArr) :
    overlapStructuredD false m fill ndim arrs = overlapStructuredD true m fill ndim arrs := by
  simp only [overlapStructuredD, fieldOutcome, overlap_spec]

/-- **all fields `float64`**: the dtype-aware model never raises and is the plain structured merge
(`overlapStructured`, about which `structured_whole` speaks), every pixel defined.  Hypotheses: every
dtype is `f8`; no input has the same field name twice (NumPy does not allow that). -/
theorem structuredD_allF8 (spc : Bool) (m : Mode) (fill : V) (ndim : Nat) (arrs : List DArr)
    (hf : ∀ a ∈ arrs, ∀ f ∈ a.fields, f.2.1 = DT.f8)
    (hn : ∀ a ∈ arrs, (a.fields.map (·.1)).Nodup) :
    overlapStructuredD spc m fill ndim arrs
      = .ok ((overlapStructured spc m fill ndim (arrs.map DArr.toS)).map
          (fun r => (r.1, DT.f8, (r.2.1, r.2.2.map some)))) := by
  have hnames : ((mergedDescr arrs).map (·.1)) = mergedNames (arrs.map DArr.toS) := by
    rw [mergedDescr_allF8 arrs hf, List.map_map]
    simp [Function.comp_def]
  have hnd : hasDup ((mergedDescr arrs).map (·.1)) = false := by
    rw [hnames, hasDup_eq_false_iff]
    apply mergedNames_nodup
    intro a ha
    obtain ⟨b, hb, rfl⟩ := List.mem_map.mp ha
    have : (b.toS.fields.map (·.1)) = b.fields.map (·.1) := by simp [DArr.toS, List.map_map, Function.comp_def]
    rw [this]
    exact hn b hb
  unfold overlapStructuredD
  simp only [hnd, Bool.false_eq_true, if_false]
  have hfo : ∀ d ∈ mergedDescr arrs,
      (fieldOutcome spc m fill ndim arrs d.1 d.2).map (fun r => (d.1, d.2, r))
        = pure (d.1, DT.f8, ((overlap spc m fill ndim ((arrs.map DArr.toS).map (·.field d.1))).1,
            (overlap spc m fill ndim ((arrs.map DArr.toS).map (·.field d.1))).2.map some)) := by
    intro d hd
    have hd2 : d.2 = DT.f8 := by
      rw [mergedDescr_allF8 arrs hf] at hd
      obtain ⟨n, -, rfl⟩ := List.mem_map.mp hd
      rfl
    simp only [fieldOutcome, canvasDT_allF8 arrs hf, hd2, reduceCtorEq, if_false, List.map_map]
    have : castTo DT.f8 = some := by funext v; cases v <;> rfl
    rw [this]
    rfl
  rw [mapM_ok_of_forall _ _ _ hfo]  -- every field is `.ok`
  congr 1
  rw [mergedDescr_allF8 arrs hf]
  simp only [overlapStructured, List.map_map]
  rfl

/-- **when does the structured merge raise on the merged dtype**: exactly when two inputs carry the
same field name with different dtypes (the code merges (name, dtype) pairs, not names), and then
the model returns `ValueError` — as `np.empty` does for a dtype with a repeated field name.
Hypothesis: no input has the same field name twice. -/
theorem structuredD_raises_iff (arrs : List DArr) (hn : ∀ a ∈ arrs, (a.fields.map (·.1)).Nodup) :
    hasDup ((mergedDescr arrs).map (·.1)) = true
      ↔ ∃ a ∈ arrs, ∃ b ∈ arrs, ∃ (n : String) (d₁ d₂ : DT), (n, d₁) ∈ a.descr ∧ (n, d₂) ∈ b.descr ∧ d₁ ≠ d₂ := by
  have hnd := mergedDescr_nodup arrs hn
  rw [← Bool.not_eq_false, hasDup_eq_false_iff, List.nodup_map_iff_inj_on hnd]
  constructor
  · intro h
    by_contra hcon
    apply h
    intro x hx y hy hxy
    obtain ⟨a, ha, hxa⟩ := (mergedDescr_mem arrs x).mp hx
    obtain ⟨b, hb, hyb⟩ := (mergedDescr_mem arrs y).mp hy
    obtain ⟨n, d₁⟩ := x
    obtain ⟨n', d₂⟩ := y
    simp only at hxy
    subst hxy
    by_cases e : d₁ = d₂
    · rw [e]
    · exact absurd ⟨a, ha, b, hb, n, d₁, d₂, hxa, hyb, e⟩ hcon
  · rintro ⟨a, ha, b, hb, n, d₁, d₂, h1, h2, hne⟩ h
    have := h (n, d₁) ((mergedDescr_mem arrs _).mpr ⟨a, ha, h1⟩) (n, d₂) ((mergedDescr_mem arrs _).mpr ⟨b, hb, h2⟩) rfl
    exact hne (by simpa using this)

theorem structuredD_clash_raises (spc : Bool) (m : Mode) (fill : V) (ndim : Nat) (arrs : List DArr)
    (a b : DArr) (ha : a ∈ arrs) (hb : b ∈ arrs) (n : String) (d₁ d₂ : DT)
    (h1 : (n, d₁) ∈ a.descr) (h2 : (n, d₂) ∈ b.descr) (hne : d₁ ≠ d₂)
    (hn : ∀ a ∈ arrs, (a.fields.map (·.1)).Nodup) :
    overlapStructuredD spc m fill ndim arrs = .error "ValueError" := by
  unfold overlapStructuredD
  simp only [(structuredD_raises_iff arrs hn).mpr ⟨a, ha, b, hb, n, d₁, d₂, h1, h2, hne⟩, if_true]

/-- non-vacuity: a `float64` field `A` in one input and a `float32` field `A` in another -/
example : overlapStructuredD false .replace none 1
    [⟨[0], [1], [("A", .f8, fun _ => some 1)]⟩, ⟨[1], [1], [("A", .f4, fun _ => some 2)]⟩] = .error "ValueError" := by
  rfl

/-! ## non-vacuity and regression witnesses -/

/-- a 2×2 image of ones at (0,0) and a 2×2 image at (1,1) holding a NaN -/
def exA : Arr := { off := [0, 0], shape := [2, 2], get := fun _ => some 1 }
def exB : Arr := { off := [1, 1], shape := [2, 2], get := fun i => if i = [1, 0] then none else some 2 }

/-- the hypotheses of `bbox_exact` / `translation_invariant` are satisfiable by a non-trivial input -/
example : [exA, exB] ≠ [] ∧ (∀ a ∈ [exA, exB], a.off.length = 2) ∧ ([5, -7] : List Int).length = 2 := by
  simp [exA, exB]

/-- on that input the three kinds of pixel all occur: two contributions, a NaN-only pixel, an uncovered pixel -/
example : contribs [exA, exB] [1, 1] = [1, 2] ∧ contribs [exA, exB] [2, 1] = [] ∧ exB.at [2, 1] = some none
    ∧ exA.at [0, 2] = none ∧ exB.at [0, 2] = none := by decide +kernel

/-- hypotheses of `overlap_perm_invariant` on that input, and the reason `replace` is excluded: the
two orders of the same inputs differ at the doubly covered pixel -/
example : [exA, exB].Perm [exB, exA] ∧ Mode.sum ≠ Mode.replace
    ∧ mech .replace none [exA, exB] [1, 1] = some 2 ∧ mech .replace none [exB, exA] [1, 1] = some 1 := by
  refine ⟨List.Perm.swap _ _ _, by decide, by decide +kernel, by decide +kernel⟩

/-- `replace_last_writer` on that input: at (1,1) the last input wins, at (2,1) (its NaN) and at
(0,0) (outside it) the first input's result shows through -/
example : (exB.at [1, 1]).join = some 2 ∧ (exB.at [2, 1]).join = none ∧ (exB.at [0, 0]).join = none
    ∧ mech .replace none ([exA] ++ [nanLike exB]) [0, 0] = some 1 := by decide +kernel

/-- two structured inputs with overlapping and disjoint `float64` fields: the hypotheses of
`structuredD_allF8` / `structuredD_raises_iff` hold -/
def exD1 : DArr := ⟨[0], [2], [("A", .f8, fun _ => some 1), ("B", .f8, fun _ => none)]⟩
def exD2 : DArr := ⟨[1], [2], [("C", .f8, fun _ => some 3), ("A", .f8, fun _ => some 2)]⟩

example : (∀ a ∈ [exD1, exD2], ∀ f ∈ a.fields, f.2.1 = DT.f8) ∧ (∀ a ∈ [exD1, exD2], (a.fields.map (·.1)).Nodup)
    ∧ mergedDescr [exD1, exD2] = [("A", .f8), ("B", .f8), ("C", .f8)] := by
  refine ⟨?_, ?_, ?_⟩
  · simp only [exD1, exD2, List.mem_cons, List.not_mem_nil, or_false]
    rintro a (rfl | rfl) f hf <;> simp only [List.mem_cons, List.not_mem_nil, or_false] at hf <;>
      rcases hf with rfl | rfl <;> rfl
  · simp [exD1, exD2]
  · simp [exD1, exD2, mergedDescr, DArr.descr]

/-- "A value was contributed" and "nothing was contributed" are told apart by the contributions, never by the
value that has accumulated: wherever some input places a non-NaN value — also an image of zeros, values that cancel
one another, values that equal the fill — the pixel is a number and does not depend on the fill; wherever no input
places one it is the fill.  All modes. -/
theorem contributed_pixel_ignores_fill (m : Mode) (fill fill' : V) (arrs : List Arr) (p : Idx) :
    (contribs arrs p ≠ [] → (mech m fill arrs p).isSome ∧ mech m fill arrs p = mech m fill' arrs p) ∧
    (contribs arrs p = [] → mech m fill arrs p = fill) := by
  rw [pixel_spec, pixel_spec]
  unfold spec
  cases h : contribs arrs p with
  | nil => simp
  | cons c cs => cases m <;> simp

/-- an image of zeros alone on its pixels: sum 0, not the fill (hypothesis of `contributed_pixel_ignores_fill` met) -/
def exZ : Arr := { off := [3, 0], shape := [1, 2], get := fun _ => some 0 }

example : contribs [exA, exZ] [3, 1] ≠ [] ∧ mech .sum none [exA, exZ] [3, 1] = some 0 ∧
    mech .sum (some 10) [exA, exZ] [3, 1] = some 0 ∧ contribs [exA, exZ] [3, 2] = [] ∧
    mech .sum (some 10) [exA, exZ] [3, 2] = some 10 := by
  decide +kernel

/-- the mechanism before the repair is wrong: with a finite fill it adds the fill into the sum
(11 instead of 1 where only the first image contributes), and a pixel covered only by a NaN becomes
0 instead of the fill -/
theorem old_mechanism_wrong :
    mechOld .sum (some 10) [exA, exB] [0, 0] = some 11 ∧ spec .sum (some 10) [exA, exB] [0, 0] = some 1 ∧
    mechOld .sum none [exA, exB] [2, 1] = some 0 ∧ spec .sum none [exA, exB] [2, 1] = none := by
  decide +kernel


/-! ## images of several dtypes in one list, infinite pixel values (`overlapD`)

`overlap_arrays` is the same code for every list of images: `float64`, `float32`, integer and boolean images in any
order, pixel values NaN, ±∞ or finite.  The canvas has the dtype of the first image and casts what is written into it. -/

/-- **one pixel, any dtypes, any values.**  On a canvas of dtype `cdt` the mechanism returns the demanded value
(last / IEEE mean / IEEE sum of the non-NaN values the inputs place at the pixel, the fill where there is none) as a
canvas of that dtype holds it, provided `hypD` holds at the pixel: nothing in replace mode; in mean / sum mode on a
floating-point canvas that the IEEE sum of the contributions is not NaN, i.e. +∞ and −∞ do not meet there
(`sumE_nan_iff`; `inf_cancel_order_dependent` shows the mechanism leaves the specification otherwise); in sum mode on an
integer canvas that every contribution is a finite integer (the canvas truncates after every image), on a boolean canvas
that none is negative; mean mode on such a canvas raises (`raisesD`). -/
theorem pixel_specD (cdt : DT) (m : Mode) (fill : EV) (arrs : List ArrE) (p : Idx)
    (hyp : hypD cdt m arrs p = true) :
    mechD cdt m fill arrs p = specD cdt m fill arrs p := by
  unfold mechD specD specE
  rw [foldlD_point]
  cases m with
  | replace =>
    simp only [finishD, initD, if_true]
    rw [fold_replaceD]
    cases hc : contribsE arrs p with
    | nil => simp
    | cons c cs => simp [List.getLast?_eq_getLast_of_ne_nil]
  | sum =>
    simp only [initD, if_neg (show Mode.sum ≠ Mode.replace by decide)]
    cases cdt with
    | i8 =>
      simp only [hypD, List.all_eq_true] at hyp
      have h0 : castC .i8 (EV.fin 0) = EV.fin 0 := castC_i8_int _ (by simp [EV.intVal])
      rw [h0, fold_accumI .sum (by decide) arrs p _ 0 (by simp [EV.intVal]) hyp, EV.zero_add]
      cases hc : contribsE arrs p with
      | nil => simp [finishD]
      | cons c cs =>
        simp only [finishD, List.length_cons, Nat.zero_add, Nat.succ_ne_zero, if_false]
        rw [castC_i8_int]
        exact sumE_int _ (by rw [← hc]; exact hyp)
    | b1 =>
      simp only [hypD, List.all_eq_true] at hyp
      have h0 : castC .b1 (EV.fin 0) = EV.fin (bool01 0) := by simp [castC, bool01]
      rw [h0, fold_accumB .sum (by decide) arrs p 0 0 (le_refl _) hyp, EV.zero_add]
      cases hc : contribsE arrs p with
      | nil => simp [finishD]
      | cons c cs => simp [finishD]
    | f8 =>
      simp only [hypD, Bool.not_eq_true', ← Bool.not_eq_true, EV.isNan_iff] at hyp
      have hcc := castC_float .f8 (Or.inl rfl)
      rw [hcc, fold_accumE .f8 hcc .sum (by decide) arrs p _ 0 (by simp) (by rw [EV.zero_add]; exact hyp), EV.zero_add]
      cases hc : contribsE arrs p with
      | nil => simp [finishD]
      | cons c cs => simp [finishD, hcc]
    | f4 =>
      simp only [hypD, Bool.not_eq_true', ← Bool.not_eq_true, EV.isNan_iff] at hyp
      have hcc := castC_float .f4 (Or.inr rfl)
      rw [hcc, fold_accumE .f4 hcc .sum (by decide) arrs p _ 0 (by simp) (by rw [EV.zero_add]; exact hyp), EV.zero_add]
      cases hc : contribsE arrs p with
      | nil => simp [finishD]
      | cons c cs => simp [finishD, hcc]
  | mean =>
    simp only [initD, if_neg (show Mode.mean ≠ Mode.replace by decide)]
    have hfl : cdt = .f8 ∨ cdt = .f4 := by cases cdt <;> simp_all [hypD]
    have hyp' : sumE (contribsE arrs p) ≠ EV.nan := by
      rcases hfl with rfl | rfl <;>
        simpa only [hypD, Bool.not_eq_true', ← Bool.not_eq_true, EV.isNan_iff] using hyp
    have hcc := castC_float cdt hfl
    rw [hcc, fold_accumE cdt hcc .mean (by decide) arrs p _ 0 (by simp) (by rw [EV.zero_add]; exact hyp'), EV.zero_add]
    cases hc : contribsE arrs p with
    | nil => simp [finishD]
    | cons c cs =>
      simp only [finishD, List.length_cons, Nat.zero_add, Nat.succ_ne_zero, if_false, hcc]
      split
      · rfl
      · have : cs = [] := by
          cases cs with
          | nil => rfl
          | cons _ _ => simp at *
        subst this; simp [EV.divNat_one]

/-- where is the IEEE sum of the contributions NaN: exactly where +∞ and −∞ are both contributed -/
theorem sumE_nan_iff (l : List EV) (h : ∀ v ∈ l, v ≠ EV.nan) : sumE l = EV.nan ↔ EV.pinf ∈ l ∧ EV.ninf ∈ l := by
  rw [sumE_eq l h]
  by_cases h1 : EV.pinf ∈ l <;> by_cases h2 : EV.ninf ∈ l <;> simp [h1, h2]

/-- **the whole result with dtypes**: if the hypothesis of `pixel_specD` holds at every pixel of the bounding box, the
mechanism's result (exception class, or dtype, shape and pixels) is the specification's -/
theorem overlapD_spec (m : Mode) (fill : EV) (ndim : Nat) (arrs : List ArrE)
    (h : ∀ p ∈ allIdx ((newShape ndim ((normaliseE ndim arrs).map ArrE.bare)).map Int.toNat),
          hypD (canvasOf arrs) m (normaliseE ndim arrs) p = true) :
    overlapD false m fill ndim arrs = overlapD true m fill ndim arrs := by
  simp only [overlapD]
  cases hr : raisesD (canvasOf arrs) m fill with
  | some e => rfl
  | none =>
    simp only [Bool.false_eq_true, if_false, if_true]
    have : ∀ p ∈ allIdx ((newShape ndim ((normaliseE ndim arrs).map ArrE.bare)).map Int.toNat),
        mechD (canvasOf arrs) m fill (normaliseE ndim arrs) p = specD (canvasOf arrs) m fill (normaliseE ndim arrs) p :=
      fun p hp => pixel_specD _ _ _ _ _ (h p hp)
    rw [List.map_congr_left this]

/-- **a list whose first image is floating point and whose values are NaN or finite** (images of any dtypes after the
first, in any order): no exception, the result has the first image's dtype and is, pixel for pixel, the result of the
plain model `overlap` on the values — about which `overlap_spec`, `bbox_exact`, `overlap_translation_invariant`,
`overlap_perm_invariant`, `overlap_replace_last_writer` and `tiling` speak.  No hypothesis on the values. -/
theorem overlapD_embed (spc : Bool) (m : Mode) (fill : V) (ndim : Nat) (l : List (DT × Arr))
    (hc : canvasOf (l.map (fun x => x.2.toE x.1)) = .f8 ∨ canvasOf (l.map (fun x => x.2.toE x.1)) = .f4) :
    overlapD spc m (embed fill) ndim (l.map (fun x => x.2.toE x.1))
      = .ok (canvasOf (l.map (fun x => x.2.toE x.1)), (overlap spc m fill ndim (l.map (·.2))).1,
              (overlap spc m fill ndim (l.map (·.2))).2.map embed) := by
  simp only [overlapD]
  have hr : raisesD (canvasOf (l.map (fun x => x.2.toE x.1))) m (embed fill) = none := by
    rcases hc with h | h <;> rw [h] <;> rfl
  simp only [hr]
  have hsh : newShape ndim ((normaliseE ndim (l.map (fun x => x.2.toE x.1))).map ArrE.bare)
      = newShape ndim (normalise ndim (l.map (·.2))) := by
    rw [normaliseE_bare, toE_map_bare, normalise_bare, newShape_bare]
  simp only [hsh, overlap, List.map_map]
  congr 3
  apply List.map_congr_left
  intro p _
  simp only [Function.comp]
  rw [normaliseE_toE]
  have hp := pixel_specD (canvasOf (l.map (fun x => x.2.toE x.1))) m (embed fill)
    ((normPairs ndim l).map (fun x => x.2.toE x.1)) p (hypD_toE _ hc m _ p)
  have hs : specD (canvasOf (l.map (fun x => x.2.toE x.1))) m (embed fill)
      ((normPairs ndim l).map (fun x => x.2.toE x.1)) p = embed (spec m fill (normalise ndim (l.map (·.2))) p) := by
    unfold specD
    rw [castC_float _ hc, specE_embed, normPairs_snd]
  cases spc with
  | true => simp only [if_true]; exact hs
  | false =>
    simp only [Bool.false_eq_true, if_false]
    rw [hp, hs, pixel_spec]

def shiftE (t : List Int) (a : ArrE) : ArrE := { a with off := List.zipWith (· + ·) a.off t }

theorem normaliseE_shift (ndim : Nat) (arrs : List ArrE) (t : List Int) (hne : arrs ≠ [])
    (hoff : ∀ a ∈ arrs, a.off.length = ndim) (ht : t.length = ndim) :
    normaliseE ndim (arrs.map (shiftE t)) = normaliseE ndim arrs := by
  have hb : (arrs.map (shiftE t)).map ArrE.bare = (arrs.map ArrE.bare).map (shift t) := by
    simp [List.map_map, Function.comp_def, shiftE, shift, ArrE.bare]
  have key := translation_invariant ndim (arrs.map ArrE.bare) t (by simpa using hne)
    (by intro a ha; obtain ⟨b, hb', rfl⟩ := List.mem_map.mp ha; exact hoff b hb') ht
  rw [← hb] at key
  simp only [normalise, List.map_map] at key
  rw [List.map_inj_left] at key
  simp only [normaliseE, List.map_map]
  apply List.map_congr_left
  intro a ha
  have := congrArg Arr.off (key a ha)
  simp only [Function.comp, ArrE.bare, shiftE] at this ⊢
  rw [this]

theorem overlapD_translation_invariant (spc : Bool) (m : Mode) (fill : EV) (ndim : Nat) (arrs : List ArrE)
    (t : List Int) (hne : arrs ≠ []) (hoff : ∀ a ∈ arrs, a.off.length = ndim) (ht : t.length = ndim) :
    overlapD spc m fill ndim (arrs.map (shiftE t)) = overlapD spc m fill ndim arrs := by
  have hc : canvasOf (arrs.map (shiftE t)) = canvasOf arrs := by
    cases arrs with
    | nil => rfl
    | cons a l => rfl
  simp only [overlapD, normaliseE_shift ndim arrs t hne hoff ht, hc]

/-- **reordering** the inputs does not change what the property demands of a pixel (mean / sum; ±∞ included) -/
theorem specE_perm (m : Mode) (hm : m ≠ .replace) (fill : EV) (a₁ a₂ : List ArrE) (hp : a₁.Perm a₂) (p : Idx) :
    specE m fill a₁ p = specE m fill a₂ p := by
  have hc := contribsE_perm a₁ a₂ hp p
  have hs := sumE_perm _ _ hc
  have hl := hc.length_eq
  unfold specE
  cases h1 : contribsE a₁ p with
  | nil =>
    have : contribsE a₂ p = [] := by rw [h1] at hc; exact hc.nil_eq.symm
    rw [this]
  | cons c cs =>
    cases h2 : contribsE a₂ p with
    | nil => rw [h1, h2] at hl; simp at hl
    | cons d ds =>
      rw [h1, h2] at hs hl
      cases m with
      | replace => exact absurd rfl hm
      | mean => simp only; rw [hs, hl]
      | sum => simp only; rw [hs]

/-- reordering, whole result, specification and (where the hypothesis of `pixel_specD` holds) mechanism -/
theorem overlapD_perm_invariant (m : Mode) (hm : m ≠ .replace) (fill : EV) (ndim : Nat) (a₁ a₂ : List ArrE)
    (hp : a₁.Perm a₂) (hc : canvasOf a₁ = canvasOf a₂) :
    overlapD true m fill ndim a₁ = overlapD true m fill ndim a₂ := by
  have hn := normaliseE_perm ndim a₁ a₂ hp
  have hsh : newShape ndim ((normaliseE ndim a₁).map ArrE.bare) = newShape ndim ((normaliseE ndim a₂).map ArrE.bare) :=
    newShape_perm ndim _ _ (hn.map _)
  simp only [overlapD, hc, hsh, if_true]
  cases raisesD (canvasOf a₂) m fill with
  | some e => rfl
  | none =>
    simp only
    congr 3
    apply List.map_congr_left
    intro p _
    unfold specD
    rw [specE_perm m hm fill _ _ hn p]

/-- the same for the mechanism, where the hypothesis of `pixel_specD` holds on the box -/
theorem overlapD_mech_perm_invariant (m : Mode) (hm : m ≠ .replace) (fill : EV) (ndim : Nat) (a₁ a₂ : List ArrE)
    (hp : a₁.Perm a₂) (hc : canvasOf a₁ = canvasOf a₂)
    (h : ∀ p ∈ allIdx ((newShape ndim ((normaliseE ndim a₁).map ArrE.bare)).map Int.toNat),
          hypD (canvasOf a₁) m (normaliseE ndim a₁) p = true) :
    overlapD false m fill ndim a₁ = overlapD false m fill ndim a₂ := by
  have hn := normaliseE_perm ndim a₁ a₂ hp
  have hsh : newShape ndim ((normaliseE ndim a₁).map ArrE.bare) = newShape ndim ((normaliseE ndim a₂).map ArrE.bare) :=
    newShape_perm ndim _ _ (hn.map _)
  rw [overlapD_spec m fill ndim a₁ h, overlapD_spec m fill ndim a₂, overlapD_perm_invariant m hm fill ndim a₁ a₂ hp hc]
  intro p hp'
  rw [← hsh] at hp'
  rw [← hc, ← hypD_perm _ m _ _ hn p]
  exact h p hp'

/-- one-pixel images holding `v` at the origin -/
def exInf (v : EV) : ArrE := { off := [0], shape := [1], dt := .f8, get := fun _ => v }

/-- **+∞ and −∞ on one pixel: the mechanism is not the IEEE sum and depends on the order.**  `np.nansum` turns the NaN
that ∞ − ∞ left on the canvas back into 0 when the next image is added: `[∞, −∞, 5]` gives 5 (mean 5/3), `[∞, 5, −∞]`
gives NaN; the IEEE sum of the three values is NaN in every order. -/
theorem inf_cancel_order_dependent :
    mechD .f8 .sum (.fin 0) [exInf .pinf, exInf .ninf, exInf (.fin 5)] [0] = .fin 5 ∧
    mechD .f8 .sum (.fin 0) [exInf .pinf, exInf (.fin 5), exInf .ninf] [0] = .nan ∧
    specE .sum (.fin 0) [exInf .pinf, exInf .ninf, exInf (.fin 5)] [0] = .nan ∧
    mechD .f8 .mean (.fin 0) [exInf .pinf, exInf .ninf, exInf (.fin 5)] [0] = .fin (5 / 3) := by
  decide +kernel

/-- a boolean mask, a float image with a NaN and +∞, an integer image on one footprint -/
def exM1 : ArrE := { off := [0], shape := [2], dt := .b1, get := fun i => if i = [0] then .fin 1 else .fin 0 }
def exM2 : ArrE := { off := [0], shape := [2], dt := .f8, get := fun i => if i = [0] then .nan else .pinf }
def exM3 : ArrE := { off := [1], shape := [2], dt := .i8, get := fun _ => .fin 3 }

/-- non-vacuity of `pixel_specD` / `overlapD_spec`: the hypothesis holds at every pixel for the float-first order in sum
mode (+∞ + 3 = +∞) and for the integer-first order without the float image; it fails for the integer canvas once the
non-integer +∞ is added -/
example : hypD .f8 .sum [exM2, exM1, exM3] [1] = true ∧ mechD .f8 .sum .nan [exM2, exM1, exM3] [1] = .pinf
    ∧ mechD .f8 .sum .nan [exM2, exM1, exM3] [0] = .fin 1 ∧ mechD .f8 .sum .nan [exM2, exM1, exM3] [2] = .fin 3
    ∧ hypD .i8 .sum [exM3, exM1] [1] = true ∧ mechD .i8 .sum (.fin 0) [exM3, exM1] [1] = .fin 3
    ∧ hypD .i8 .sum [exM3, exM2] [1] = false
    ∧ hypD .b1 .sum [exM1, exM3] [1] = true ∧ mechD .b1 .sum (.fin 0) [exM1, exM3] [1] = .fin 1 := by
  decide +kernel

/-- hypotheses of `overlapD_embed` / `overlapD_translation_invariant` / `overlapD_perm_invariant` on a mixed list -/
example : canvasOf ([(DT.f4, exA), (DT.i8, exB)].map (fun x => x.2.toE x.1)) = .f4
    ∧ [exM2, exM1, exM3] ≠ [] ∧ (∀ a ∈ [exM2, exM1, exM3], a.off.length = 1)
    ∧ [exM2, exM1, exM3].Perm [exM2, exM3, exM1] ∧ canvasOf [exM2, exM1, exM3] = canvasOf [exM2, exM3, exM1] := by
  refine ⟨rfl, by simp, by simp [exM1, exM2, exM3], List.Perm.cons _ (List.Perm.swap _ _ _), rfl⟩


/-! ## histories: the result of one merge fed into the next (tiling) -/
/-- **tiling, one pixel.**  Let `R` be an image that holds at `p` what the merge of `l₁` with fill NaN holds there
(`spec m none l₁ p`; NaN or nothing where `l₁` contributes nothing).  Merging `R` followed by further images `l₂` gives at
`p` what the one merge of `l₁ ++ l₂` gives — in replace and sum mode, for every fill.  (Not in mean mode: a mean of
means is not the mean, see the example below.) -/
theorem tiling_pixel (m : Mode) (hm : m ≠ .mean) (fill : V) (l₁ l₂ : List Arr) (R : Arr) (p : Idx)
    (hR : (R.at p).join = spec m none l₁ p) :
    mech m fill (R :: l₂) p = mech m fill (l₁ ++ l₂) p := by
  rw [pixel_spec, pixel_spec]
  have h2 : contribs (l₁ ++ l₂) p = contribs l₁ p ++ contribs l₂ p := by
    unfold contribs; rw [List.filterMap_append]
  unfold spec at hR ⊢
  rw [contribs_cons, h2, hR]
  cases h1 : contribs l₁ p with
  | nil => simp
  | cons c cs =>
    cases m with
    | mean => exact absurd rfl hm
    | replace =>
      simp only
      cases hc2 : contribs l₂ p with
      | nil => simp
      | cons d ds => simp [List.getLast_append]
    | sum =>
      simp only
      cases hc2 : contribs l₂ p with
      | nil => simp
      | cons d ds => simp [List.sum_append, add_assoc]

/-- hypothesis of `tiling_pixel` met by a non-trivial input (the one-pixel image holding the sum 3 of `exA`, `exB` at
(1,1)), and the reason mean mode is excluded: the mean of the mean 3/2 and 6 is not the mean of 1, 2, 6 -/
example : (({ off := [1, 1], shape := [1, 1], get := fun _ => some 3 } : Arr).at [1, 1]).join = spec .sum none [exA, exB] [1, 1]
    ∧ mech .mean none [({ off := [1, 1], shape := [1, 1], get := fun _ => some (3 / 2) } : Arr),
                        { off := [1, 1], shape := [1, 1], get := fun _ => some 6 }] [1, 1] = some (15 / 4)
    ∧ mech .mean none [exA, exB, { off := [1, 1], shape := [1, 1], get := fun _ => some 6 }] [1, 1] = some 3 := by
  decide +kernel

/-- the result of merging `l₁` with fill NaN, as an image: it sits at the per-axis minimum of the offsets of `l₁` -/
def mergedImage (m : Mode) (ndim : Nat) (l₁ : List Arr) : Arr :=
  { off := minOffset ndim l₁, shape := (newShape ndim (normalise ndim l₁)).map Int.toNat,
    get := fun i => mech m none (normalise ndim l₁) i }

theorem mergedImage_off_axis (m : Mode) (ndim : Nat) (l₁ : List Arr) (k : Nat) (hk : k < ndim) :
    axis k (mergedImage m ndim l₁).off = minList (l₁.map (fun a => axis k a.off)) := axis_minOffset ndim l₁ k hk

theorem mergedImage_shape_axis (m : Mode) (ndim : Nat) (l₁ : List Arr) (hne : l₁ ≠ [])
    (hoff : ∀ a ∈ l₁, a.off.length = ndim) (k : Nat) (hk : k < ndim) :
    (((mergedImage m ndim l₁).shape.getD k 0 : Nat) : Int)
      = maxList (l₁.map fun a => axis k a.off + ((a.shape.getD k 0 : Nat) : Int)) - minList (l₁.map fun a => axis k a.off) := by
  obtain ⟨h1, ⟨a, ha, ha0⟩, _, h4⟩ := bbox_exact ndim l₁ hne hoff k hk
  have hnn : 0 ≤ axis k (newShape ndim (normalise ndim l₁)) := by
    have := (h1 a ha).2
    have : (0 : Int) ≤ ((a.shape.getD k 0 : Nat) : Int) := Int.natCast_nonneg _
    omega
  have hg : (mergedImage m ndim l₁).shape.getD k 0 = (axis k (newShape ndim (normalise ndim l₁))).toNat := by
    simp only [mergedImage, axis, List.getD_eq_getElem?_getD, List.getElem?_map]
    cases (newShape ndim (normalise ndim l₁))[k]? <;> rfl
  rw [hg, Int.toNat_of_nonneg hnn, h4]

theorem minOffset_tiling (m : Mode) (ndim : Nat) (l₁ l₂ : List Arr) (hne : l₁ ≠ []) :
    minOffset ndim (mergedImage m ndim l₁ :: l₂) = minOffset ndim (l₁ ++ l₂) := by
  unfold minOffset
  apply List.map_congr_left
  intro k hk
  have hk' : k < ndim := List.mem_range.mp hk
  simp only [List.map_cons, List.map_append]
  rw [mergedImage_off_axis m ndim l₁ k hk']
  exact minList_cons_min _ _ (by simpa using hne)

theorem newShape_tiling (m : Mode) (ndim : Nat) (l₁ l₂ : List Arr) (hne : l₁ ≠ [])
    (hoff : ∀ a ∈ l₁, a.off.length = ndim) :
    newShape ndim (normalise ndim (mergedImage m ndim l₁ :: l₂)) = newShape ndim (normalise ndim (l₁ ++ l₂)) := by
  have hM := minOffset_tiling m ndim l₁ l₂ hne
  simp only [normalise, hM, List.map_cons, List.map_append, newShape]
  apply List.map_congr_left
  intro k hk
  have hk' : k < ndim := List.mem_range.mp hk
  simp only [List.map_cons, List.map_append, List.map_map]
  have hMlen : (minOffset ndim (l₁ ++ l₂)).length = ndim := minOffset_length _ _
  have hR : axis k (sub (mergedImage m ndim l₁).off (minOffset ndim (l₁ ++ l₂))) + (((mergedImage m ndim l₁).shape.getD k 0 : Nat) : Int)
      = maxList (l₁.map ((fun (a : Arr) => axis k a.off + ((a.shape.getD k 0 : Nat) : Int)) ∘ fun a => { a with off := sub a.off (minOffset ndim (l₁ ++ l₂)) })) := by
    rw [axis_sub _ _ _ (by simp [mergedImage, minOffset_length]; exact hk') (by omega),
      mergedImage_off_axis m ndim l₁ k hk', mergedImage_shape_axis m ndim l₁ hne hoff k hk']
    have : l₁.map ((fun (a : Arr) => axis k a.off + ((a.shape.getD k 0 : Nat) : Int)) ∘ fun a => { a with off := sub a.off (minOffset ndim (l₁ ++ l₂)) })
        = (l₁.map fun a => axis k a.off + ((a.shape.getD k 0 : Nat) : Int)).map (· + (- axis k (minOffset ndim (l₁ ++ l₂)))) := by
      rw [List.map_map]
      apply List.map_congr_left
      intro a ha
      simp only [Function.comp]
      rw [axis_sub _ _ _ (by have := hoff a ha; omega) (by omega)]
      omega
    rw [this, maxList_add _ _ (by simpa using hne)]
    omega
  rw [hR]
  exact maxList_cons_max _ _ (by simpa using hne)

/-- every image of `l₁` lies inside the merged image: where the merged image does not cover `p`, none of them does -/
theorem outside_merged (m : Mode) (ndim : Nat) (l₁ : List Arr) (hne : l₁ ≠ []) (M p : List Int)
    (hoff : ∀ a ∈ l₁, a.off.length = ndim) (hsh : ∀ a ∈ l₁, a.shape.length = ndim)
    (hM : M.length = ndim) (hp : p.length = ndim)
    (hout : ({ mergedImage m ndim l₁ with off := sub (mergedImage m ndim l₁).off M } : Arr).inside p = false) :
    contribs (l₁.map fun a => { a with off := sub a.off M }) p = [] := by
  have hRoff : (mergedImage m ndim l₁).off.length = ndim := minOffset_length _ _
  have hRsh : (mergedImage m ndim l₁).shape.length = ndim := by simp [mergedImage, newShape_length]
  unfold contribs
  rw [List.filterMap_eq_nil_iff]
  intro a' ha'
  obtain ⟨a, ha, rfl⟩ := List.mem_map.mp ha'
  have hain : ({ a with off := sub a.off M } : Arr).inside p = false := by
    by_contra hcon
    rw [Bool.not_eq_false] at hcon
    apply Bool.false_ne_true
    rw [← hout]
    simp only [Arr.inside, Bool.and_eq_true, beq_iff_eq] at hcon ⊢
    obtain ⟨_, hr⟩ := hcon
    rw [inRange_iff] at hr ⊢
    obtain ⟨_, hr⟩ := hr
    have halen := hoff a ha
    refine ⟨by simp [sub_length, hp, hRoff, hM], by simp [sub_length, hp, hRoff, hM, hRsh], ?_⟩
    intro k hk
    rw [hRsh] at hk
    have hk1 := hr k (by rw [hsh a ha]; exact hk)
    rw [axis_sub _ _ _ (by omega) (by simp [sub_length, halen, hM]; exact hk),
      axis_sub _ _ _ (by omega) (by omega)] at hk1
    rw [axis_sub _ _ _ (by omega) (by simp [sub_length, hRoff, hM]; exact hk),
      axis_sub _ _ _ (by omega) (by omega), mergedImage_off_axis m ndim l₁ k hk,
      mergedImage_shape_axis m ndim l₁ hne hoff k hk]
    have h1 := minList_le (l₁.map fun a => axis k a.off) (axis k a.off) (List.mem_map.mpr ⟨a, ha, rfl⟩)
    have h2 := le_maxList (l₁.map fun a => axis k a.off + ((a.shape.getD k 0 : Nat) : Int)) _ (List.mem_map.mpr ⟨a, ha, rfl⟩)
    omega
  simp [Arr.at, hain]

/-- **tiling, the whole function.**  Merging `l₁` with fill NaN, handing the result in as the first image (at the
per-axis minimum of the offsets of `l₁`) of a second merge with further images `l₂`, gives — shape and every pixel —
the one merge of `l₁ ++ l₂`: replace and sum mode, any fill of the second merge.  Hypotheses: `l₁` is not empty, every
offset has `ndim` entries and every image of `l₁` has `ndim` axes. -/
theorem tiling (m : Mode) (hm : m ≠ .mean) (fill : V) (ndim : Nat) (l₁ l₂ : List Arr) (hne : l₁ ≠ [])
    (hoff : ∀ a ∈ l₁ ++ l₂, a.off.length = ndim) (hsh : ∀ a ∈ l₁, a.shape.length = ndim) :
    overlap false m fill ndim (mergedImage m ndim l₁ :: l₂) = overlap false m fill ndim (l₁ ++ l₂) := by
  have hoff1 : ∀ a ∈ l₁, a.off.length = ndim := fun a ha => hoff a (List.mem_append_left _ ha)
  have hsh' := newShape_tiling m ndim l₁ l₂ hne hoff1
  have hM := minOffset_tiling m ndim l₁ l₂ hne
  simp only [overlap, hsh', Bool.false_eq_true, if_false]
  congr 1
  apply List.map_congr_left
  intro p hp
  have hpl : p.length = ndim := by
    have := allIdx_length _ p hp
    simpa [newShape_length] using this
  have hMl : (minOffset ndim (l₁ ++ l₂)).length = ndim := minOffset_length _ _
  have hM1 : (minOffset ndim l₁).length = ndim := minOffset_length _ _
  have hn1 : normalise ndim (mergedImage m ndim l₁ :: l₂)
      = ({ mergedImage m ndim l₁ with off := sub (mergedImage m ndim l₁).off (minOffset ndim (l₁ ++ l₂)) } : Arr)
        :: l₂.map (fun a => { a with off := sub a.off (minOffset ndim (l₁ ++ l₂)) }) := by
    simp only [normalise, hM, List.map_cons]
  have hn2 : normalise ndim (l₁ ++ l₂)
      = l₁.map (fun a => { a with off := sub a.off (minOffset ndim (l₁ ++ l₂)) })
        ++ l₂.map (fun a => { a with off := sub a.off (minOffset ndim (l₁ ++ l₂)) }) := by
    simp only [normalise, List.map_append]
  rw [hn1, hn2]
  apply tiling_pixel m hm
  by_cases hin : ({ mergedImage m ndim l₁ with off := sub (mergedImage m ndim l₁).off (minOffset ndim (l₁ ++ l₂)) } : Arr).inside p = true
  · have hat : ({ mergedImage m ndim l₁ with off := sub (mergedImage m ndim l₁).off (minOffset ndim (l₁ ++ l₂)) } : Arr).at p
        = some (mech m none (normalise ndim l₁) (sub p (sub (minOffset ndim l₁) (minOffset ndim (l₁ ++ l₂))))) := by
      simp only [Arr.at, hin, if_true]
      rfl
    rw [hat, Option.join_some, pixel_spec]
    unfold spec
    have := contribs_reframe l₁ (minOffset ndim l₁) (minOffset ndim (l₁ ++ l₂)) p ndim hpl hoff1 hM1 hMl
    simp only [normalise]
    rw [this]
  · rw [Bool.not_eq_true] at hin
    have hat : ({ mergedImage m ndim l₁ with off := sub (mergedImage m ndim l₁).off (minOffset ndim (l₁ ++ l₂)) } : Arr).at p = none := by
      simp [Arr.at, hin]
    rw [hat]
    unfold spec
    rw [outside_merged m ndim l₁ hne _ p hoff1 hsh hMl hpl hin]
    rfl

/-- hypotheses of `tiling` on a non-trivial input: the merge of `exA`, `exB` fed into a merge with `exZ` -/
example : [exA, exB] ≠ [] ∧ (∀ a ∈ [exA, exB] ++ [exZ], a.off.length = 2) ∧ (∀ a ∈ [exA, exB], a.shape.length = 2)
    ∧ (mergedImage .sum 2 [exA, exB]).off = [0, 0] ∧ (mergedImage .sum 2 [exA, exB]).shape = [3, 3]
    ∧ (mergedImage .sum 2 [exA, exB]).get [1, 1] = some 3 ∧ (mergedImage .sum 2 [exA, exB]).get [2, 1] = none := by
  refine ⟨by simp, by simp [exA, exB, exZ], by simp [exA, exB], by decide +kernel, by decide +kernel, by decide +kernel, by decide +kernel⟩

/-! ## structured variant: translation and reordering -/

def shiftS (t : List Int) (a : SArr) : SArr := { a with off := List.zipWith (· + ·) a.off t }

theorem field_shiftS (t : List Int) (a : SArr) (n : String) : (shiftS t a).field n = shift t (a.field n) := by
  unfold SArr.field shiftS shift
  cases a.fields.lookup n <;> rfl

theorem mergedNames_shiftS (t : List Int) (arrs : List SArr) : mergedNames (arrs.map (shiftS t)) = mergedNames arrs := by
  unfold mergedNames
  rw [List.foldl_map]
  rfl

/-- **structured variant: a common translation of all offsets leaves every field of the result unchanged** -/
theorem structured_translation_invariant (spc : Bool) (m : Mode) (fill : V) (ndim : Nat) (arrs : List SArr)
    (t : List Int) (hne : arrs ≠ []) (hoff : ∀ a ∈ arrs, a.off.length = ndim) (ht : t.length = ndim) :
    overlapStructured spc m fill ndim (arrs.map (shiftS t)) = overlapStructured spc m fill ndim arrs := by
  unfold overlapStructured
  rw [mergedNames_shiftS]
  apply List.map_congr_left
  intro n _
  have : (arrs.map (shiftS t)).map (·.field n) = (arrs.map (·.field n)).map (shift t) := by
    simp [List.map_map, Function.comp_def, field_shiftS]
  rw [this, overlap_translation_invariant spc m fill ndim _ t (by simpa using hne) _ ht]
  intro a ha
  obtain ⟨b, hb, rfl⟩ := List.mem_map.mp ha
  rw [field_off]; exact hoff b hb

/-- **structured variant: reordering the inputs (mean / sum).**  The result has the same field names (in another
order: the merged dtype lists them in order of first appearance) and every field holds the same image.
Hypothesis: no input carries a field name twice. -/
theorem structured_perm_invariant (m : Mode) (hm : m ≠ .replace) (fill : V) (ndim : Nat) (a₁ a₂ : List SArr)
    (hp : a₁.Perm a₂) (hn : ∀ a ∈ a₁, (a.fields.map (·.1)).Nodup) :
    (mergedNames a₁).Perm (mergedNames a₂) ∧
    ∀ n, (overlapStructured false m fill ndim a₁).lookup n = (overlapStructured false m fill ndim a₂).lookup n := by
  have hn2 : ∀ a ∈ a₂, (a.fields.map (·.1)).Nodup := fun a ha => hn a (hp.mem_iff.mpr ha)
  have hmem : ∀ n, n ∈ mergedNames a₁ ↔ n ∈ mergedNames a₂ := by
    intro n
    rw [mergedNames_mem, mergedNames_mem]
    exact ⟨fun ⟨a, ha, h⟩ => ⟨a, hp.mem_iff.mp ha, h⟩, fun ⟨a, ha, h⟩ => ⟨a, hp.mem_iff.mpr ha, h⟩⟩
  refine ⟨(List.perm_ext_iff_of_nodup (mergedNames_nodup a₁ hn) (mergedNames_nodup a₂ hn2)).mpr hmem, ?_⟩
  intro n
  unfold overlapStructured
  rw [lookup_map_self, lookup_map_self]
  by_cases h : n ∈ mergedNames a₁
  · rw [if_pos h, if_pos ((hmem n).mp h), overlap_perm_invariant m hm fill ndim _ _ (hp.map _)]
  · rw [if_neg h, if_neg (fun h' => h ((hmem n).mpr h'))]

def shiftDS (t : List Int) (a : DArr) : DArr := { a with off := List.zipWith (· + ·) a.off t }

/-- the same with field dtypes (exception classes, casts and all) -/
theorem structuredD_translation_invariant (spc : Bool) (m : Mode) (fill : V) (ndim : Nat) (arrs : List DArr)
    (t : List Int) (hne : arrs ≠ []) (hoff : ∀ a ∈ arrs, a.off.length = ndim) (ht : t.length = ndim) :
    overlapStructuredD spc m fill ndim (arrs.map (shiftDS t)) = overlapStructuredD spc m fill ndim arrs := by
  have hd : mergedDescr (arrs.map (shiftDS t)) = mergedDescr arrs := by
    unfold mergedDescr
    rw [List.foldl_map]
    rfl
  have hc : ∀ n, canvasDT (arrs.map (shiftDS t)) n = canvasDT arrs n := by
    intro n
    cases arrs with
    | nil => rfl
    | cons a l => rfl
  have hf : ∀ n, (arrs.map (shiftDS t)).map (fun a => a.toS.field n) = (arrs.map (fun a => a.toS.field n)).map (shift t) := by
    intro n
    simp only [List.map_map]
    apply List.map_congr_left
    intro a _
    exact field_shiftS t a.toS n
  have ho : ∀ n, overlap spc m fill ndim ((arrs.map (shiftDS t)).map (fun a => a.toS.field n))
      = overlap spc m fill ndim (arrs.map (fun a => a.toS.field n)) := by
    intro n
    rw [hf, overlap_translation_invariant spc m fill ndim _ t (by simpa using hne) _ ht]
    intro a ha
    obtain ⟨b, hb, rfl⟩ := List.mem_map.mp ha
    rw [field_off]; exact hoff b hb
  unfold overlapStructuredD
  simp only [hd, fieldOutcome, hc, ho]

/-- three structured inputs whose field sets overlap pairwise, each lacking one name: hypotheses of
`structured_translation_invariant` / `structured_perm_invariant`; the merged names come in order of first appearance,
so two orders of the inputs list them differently -/
def exS1 : SArr := ⟨[0], [2], [("A", fun _ => some 1), ("B", fun _ => none)]⟩
def exS2 : SArr := ⟨[1], [2], [("C", fun _ => some 3), ("B", fun _ => some 2)]⟩
def exS3 : SArr := ⟨[-1], [1], [("C", fun _ => some 5), ("A", fun _ => some 7)]⟩

example : [exS1, exS2, exS3] ≠ [] ∧ (∀ a ∈ [exS1, exS2, exS3], a.off.length = 1)
    ∧ (∀ a ∈ [exS1, exS2, exS3], (a.fields.map (·.1)).Nodup) ∧ [exS1, exS2, exS3].Perm [exS3, exS1, exS2]
    ∧ mergedNames [exS1, exS2, exS3] = ["A", "B", "C"] ∧ mergedNames [exS3, exS1, exS2] = ["C", "A", "B"] := by
  refine ⟨by simp, by simp [exS1, exS2, exS3], by simp [exS1, exS2, exS3], ?_, by decide, by decide⟩
  exact (List.perm_append_comm (l₁ := [exS1, exS2]) (l₂ := [exS3]))

end Pew.Overlap
