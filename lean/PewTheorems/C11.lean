import PewProofs.Overlap

/-! # C11 — property theorems (statements only depend on `PewModel.Overlap`) -/
namespace Pew.Overlap

/-- Every canvas pixel computed by the mechanism (fill/zero-initialised canvas, sequential
accumulation, visit counting, final fill and mean division) is the last / mean / sum of the
non-NaN values the inputs place there, and the fill where nothing contributes.  All modes, every
fill (NaN or finite), any number of inputs, any dimension. -/
theorem pixel_spec (m : Mode) (fill : V) (arrs : List Arr) (p : Idx) :
    mech m fill arrs p = spec m fill arrs p := by
  unfold mech spec
  rw [foldl_point]
  cases m with
  | replace =>
    have h := fold_replace arrs p (init .replace fill p)
    simp only [finish]
    rw [h]
    cases hc : contribs arrs p with
    | nil => simp [init]
    | cons c cs => simp [List.getLast?_eq_getLast_of_ne_nil]
  | mean =>
    have h := fold_accum .mean (by decide) arrs p 0 0
    simp only [init, if_neg (show Mode.mean ≠ Mode.replace by decide)]
    rw [h]
    cases hc : contribs arrs p with
    | nil => simp [finish]
    | cons c cs =>
      simp only [finish, List.length_cons, Nat.zero_add, Nat.add_eq_zero_iff, Nat.succ_ne_zero, and_false, if_false]
      split
      · simp
      · have : cs = [] := by
          cases cs with
          | nil => rfl
          | cons _ _ => simp at *
        subst this; simp
  | sum =>
    have h := fold_accum .sum (by decide) arrs p 0 0
    simp only [init, if_neg (show Mode.sum ≠ Mode.replace by decide)]
    rw [h]
    cases hc : contribs arrs p with
    | nil => simp [finish]
    | cons c cs => simp [finish]

/-- mean and sum do not depend on the order of the inputs -/
theorem perm_invariant (m : Mode) (hm : m ≠ .replace) (fill : V) (a₁ a₂ : List Arr)
    (hp : a₁.Perm a₂) (p : Idx) : mech m fill a₁ p = mech m fill a₂ p := by
  rw [pixel_spec, pixel_spec]
  have hc : (contribs a₁ p).Perm (contribs a₂ p) := hp.filterMap _
  have hs : (contribs a₁ p).sum = (contribs a₂ p).sum := hc.sum_eq
  have hl : (contribs a₁ p).length = (contribs a₂ p).length := hc.length_eq
  unfold spec
  cases h1 : contribs a₁ p with
  | nil =>
    have : contribs a₂ p = [] := by rw [h1] at hc; exact hc.nil_eq.symm
    rw [this]
  | cons c cs =>
    cases h2 : contribs a₂ p with
    | nil => rw [h1, h2] at hl; simp at hl
    | cons d ds =>
      rw [h1, h2] at hs hl
      cases m with
      | replace => exact absurd rfl hm
      | mean => simp only; rw [hs, hl]
      | sum => simp only; rw [hs]


/-- The result covers exactly the bounding box: along every axis all normalised inputs lie inside
`[0, extent)`, one of them starts at 0, one of them ends at the extent, and the extent is
`max (offset + size) - min offset` of the offsets as given. -/
theorem bbox_exact (ndim : Nat) (arrs : List Arr) (hne : arrs ≠ [])
    (hoff : ∀ a ∈ arrs, a.off.length = ndim) (k : Nat) (hk : k < ndim) :
    (∀ a ∈ normalise ndim arrs,
        0 ≤ axis k a.off ∧ axis k a.off + ((a.shape.getD k 0 : Nat) : Int) ≤ axis k (newShape ndim (normalise ndim arrs))) ∧
    (∃ a ∈ normalise ndim arrs, axis k a.off = 0) ∧
    (∃ a ∈ normalise ndim arrs,
        axis k a.off + ((a.shape.getD k 0 : Nat) : Int) = axis k (newShape ndim (normalise ndim arrs))) ∧
    axis k (newShape ndim (normalise ndim arrs))
      = maxList (arrs.map fun a => axis k a.off + ((a.shape.getD k 0 : Nat) : Int))
        - minList (arrs.map fun a => axis k a.off) := by
  have hmapne : (normalise ndim arrs).map (fun a => axis k a.off + ((a.shape.getD k 0 : Nat) : Int)) ≠ [] := by
    simp [normalise, hne]
  refine ⟨?_, ?_, ?_, ?_⟩
  · intro a ha
    rw [axis_newShape _ _ _ hk]
    constructor
    · simp only [normalise, List.mem_map] at ha
      obtain ⟨b, hb, rfl⟩ := ha
      simp only
      rw [axis_normalised ndim arrs b k hk (hoff b hb)]
      have := minList_le (arrs.map fun a => axis k a.off) (axis k b.off) (List.mem_map.mpr ⟨b, hb, rfl⟩)
      omega
    · exact le_maxList _ _ (List.mem_map.mpr ⟨a, ha, rfl⟩)
  · have hm := minList_mem (arrs.map fun a => axis k a.off) (by simp [hne])
    obtain ⟨b, hb, hbe⟩ := List.mem_map.mp hm
    refine ⟨{ b with off := sub b.off (minOffset ndim arrs) }, ?_, ?_⟩
    · simp only [normalise, List.mem_map]; exact ⟨b, hb, rfl⟩
    · simp only; rw [axis_normalised ndim arrs b k hk (hoff b hb)]; omega
  · have hm := maxList_mem _ hmapne
    obtain ⟨b, hb, hbe⟩ := List.mem_map.mp hm
    exact ⟨b, hb, by rw [axis_newShape _ _ _ hk]; exact hbe⟩
  · rw [axis_newShape _ _ _ hk]
    have : (normalise ndim arrs).map (fun a => axis k a.off + ((a.shape.getD k 0 : Nat) : Int))
        = (arrs.map fun a => axis k a.off + ((a.shape.getD k 0 : Nat) : Int)).map
            (· + (- minList (arrs.map fun a => axis k a.off))) := by
      simp only [normalise, List.map_map]
      apply List.map_congr_left
      intro b hb
      simp only [Function.comp]
      rw [axis_normalised ndim arrs b k hk (hoff b hb)]
      omega
    rw [this, maxList_add _ _ (by simp [hne])]
    omega

def shift (t : List Int) (a : Arr) : Arr := { a with off := List.zipWith (· + ·) a.off t }

/-- adding the same translation to every offset changes nothing: the normalised inputs, hence
the shape and every pixel of the result, are identical -/
theorem translation_invariant (ndim : Nat) (arrs : List Arr) (t : List Int) (hne : arrs ≠ [])
    (hoff : ∀ a ∈ arrs, a.off.length = ndim) (ht : t.length = ndim) :
    normalise ndim (arrs.map (shift t)) = normalise ndim arrs := by
  have hax : ∀ b ∈ arrs, ∀ k, k < ndim → axis k (shift t b).off = axis k b.off + axis k t := by
    intro b hb k hk
    have := hoff b hb
    simp [shift, axis, List.getD, List.getElem?_zipWith,
      List.getElem?_eq_getElem (show k < b.off.length by omega),
      List.getElem?_eq_getElem (show k < t.length by omega)]
  have hmin : ∀ k, k < ndim → axis k (minOffset ndim (arrs.map (shift t))) = axis k (minOffset ndim arrs) + axis k t := by
    intro k hk
    rw [axis_minOffset _ _ _ hk, axis_minOffset _ _ _ hk]
    have : (arrs.map (shift t)).map (fun a => axis k a.off)
        = (arrs.map fun a => axis k a.off).map (· + axis k t) := by
      simp only [List.map_map]
      apply List.map_congr_left
      intro b hb
      simp only [Function.comp]
      exact hax b hb k hk
    rw [this, minList_add _ _ (by simp [hne])]
  simp only [normalise, List.map_map]
  apply List.map_congr_left
  intro b hb
  simp only [Function.comp]
  have hlen1 : (shift t b).off.length = ndim := by simp [shift, hoff b hb, ht]
  have : sub (shift t b).off (minOffset ndim (arrs.map (shift t))) = sub b.off (minOffset ndim arrs) := by
    apply List.ext_getElem
    · simp [sub, hlen1, hoff b hb, minOffset_length]
    · intro i h1 h2
      have hi : i < ndim := by
        simp [sub, hoff b hb, minOffset_length] at h2; exact h2
      have e1 := axis_sub (shift t b).off (minOffset ndim (arrs.map (shift t))) i (by omega) (by rw [minOffset_length]; exact hi)
      have e2 := axis_sub b.off (minOffset ndim arrs) i (by have := hoff b hb; omega) (by rw [minOffset_length]; exact hi)
      have a1 : axis i (sub (shift t b).off (minOffset ndim (arrs.map (shift t)))) = (sub (shift t b).off (minOffset ndim (arrs.map (shift t))))[i] := by
        simp [axis, List.getD, List.getElem?_eq_getElem h1]
      have a2 : axis i (sub b.off (minOffset ndim arrs)) = (sub b.off (minOffset ndim arrs))[i] := by
        simp [axis, List.getD, List.getElem?_eq_getElem h2]
      rw [← a1, ← a2, e1, e2, hax b hb i hi, hmin i hi]
      omega
  simp only [shift] at this ⊢
  rw [this]

/-- structured variant, per field: arrays that lack the field contribute nothing, so the field's
image is the plain merge of exactly the arrays that have it -/
theorem structured_spec (m : Mode) (fill : V) (arrs : List SArr) (name : String) (p : Idx) :
    mech m fill (arrs.map (·.field name)) p = specField m fill arrs name p := by
  rw [pixel_spec]
  unfold specField spec
  have : contribs (arrs.map (·.field name)) p
      = contribs ((arrs.filter (fun a => (a.fields.lookup name).isSome)).map (·.field name)) p := by
    induction arrs with
    | nil => rfl
    | cons a l ih =>
      simp only [List.map_cons, List.filter_cons]
      cases h : a.fields.lookup name with
      | none =>
        have hn : ((a.field name).at p).join = none := by
          simp only [SArr.field, h, Arr.at]
          split <;> simp
        rw [contribs_cons, hn]; simpa using ih
      | some g =>
        simp only [Option.isSome_some, if_true, List.map_cons]
        rw [contribs_cons, contribs_cons, ih]
  rw [this]

/-- the merged field list contains exactly the names of all inputs -/
theorem mergedNames_mem (arrs : List SArr) (n : String) :
    n ∈ mergedNames arrs ↔ ∃ a ∈ arrs, n ∈ a.fields.map (·.1) := by
  have h : ∀ (acc : List String),
      n ∈ arrs.foldl (fun acc a => acc ++ (a.fields.map (·.1)).filter (fun n => !acc.contains n)) acc
        ↔ n ∈ acc ∨ ∃ a ∈ arrs, n ∈ a.fields.map (·.1) := by
    induction arrs with
    | nil => intro acc; simp
    | cons a l ih =>
      intro acc
      simp only [List.foldl_cons]
      rw [ih]
      simp only [List.mem_append, List.mem_filter, List.mem_cons, exists_eq_or_imp]
      constructor
      · rintro ((h | ⟨h, -⟩) | h)
        · exact Or.inl h
        · exact Or.inr (Or.inl h)
        · exact Or.inr (Or.inr h)
      · rintro (h | h | h)
        · exact Or.inl (Or.inl h)
        · by_cases hc : n ∈ acc
          · exact Or.inl (Or.inl hc)
          · exact Or.inl (Or.inr ⟨h, by simpa using hc⟩)
        · exact Or.inr h
  have := h []
  simpa [mergedNames] using this

/-! ## non-vacuity and regression witnesses -/

/-- a 2×2 image of ones at (0,0) and a 2×2 image at (1,1) holding a NaN -/
def exA : Arr := { off := [0, 0], shape := [2, 2], get := fun _ => some 1 }
def exB : Arr := { off := [1, 1], shape := [2, 2], get := fun i => if i = [1, 0] then none else some 2 }

/-- the hypotheses of `bbox_exact` / `translation_invariant` are satisfiable by a non-trivial input -/
example : [exA, exB] ≠ [] ∧ (∀ a ∈ [exA, exB], a.off.length = 2) ∧ ([5, -7] : List Int).length = 2 := by
  simp [exA, exB]

/-- on that input the three kinds of pixel all occur: two contributions, a NaN-only pixel, an uncovered pixel -/
example : contribs [exA, exB] [1, 1] = [1, 2] ∧ contribs [exA, exB] [2, 1] = [] ∧ exB.at [2, 1] = some none
    ∧ exA.at [0, 2] = none ∧ exB.at [0, 2] = none := by decide +kernel

/-- the mechanism before the repair is wrong: with a finite fill it adds the fill into the sum
(11 instead of 1 where only the first image contributes), and a pixel covered only by a NaN becomes
0 instead of the fill -/
theorem old_mechanism_wrong :
    mechOld .sum (some 10) [exA, exB] [0, 0] = some 11 ∧ spec .sum (some 10) [exA, exB] [0, 0] = some 1 ∧
    mechOld .sum none [exA, exB] [2, 1] = some 0 ∧ spec .sum none [exA, exB] [2, 1] = none := by
  decide +kernel

end Pew.Overlap
