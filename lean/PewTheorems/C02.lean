import PewProofs.Agilent

/-! # C02 — property theorems (statements only depend on `PewModel.Agilent`) -/
namespace Pew.Agilent

/-! ## line order from the batch log -/

/-- The XML reader's remove-then-append loop returns the names of the acquisitions logged as
passed, each once, ordered by its LAST passed entry; failed entries and entries without a file
name contribute nothing.  Any log: any mixture of results, repeats, path styles. -/
theorem batchXml_spec (log : List LogEntry) :
    batchXml log = logSpec log ∧ (batchXml log).Nodup := by
  rw [batchXml_eq, xmlNames_eq_passNames]
  exact ⟨rfl, keepLast_nodup _⟩

/-- what "ordered by last occurrence" means, without recursion: same members as the input, and
in a concatenation the earlier part keeps only what does not come again in the later part, in
front of the later part's own result. -/
theorem keepLast_spec {α : Type} [DecidableEq α] (l₁ l₂ : List α) :
    (∀ x, x ∈ keepLast l₁ ↔ x ∈ l₁) ∧
    keepLast (l₁ ++ l₂) = (keepLast l₁).filter (fun a => decide (a ∉ l₂)) ++ keepLast l₂ := by
  refine ⟨mem_keepLast l₁, ?_⟩
  induction l₁ with
  | nil => simp [keepLast]
  | cons x xs ih =>
    rw [List.cons_append, keepLast_cons, keepLast_cons, ih]
    by_cases h1 : x ∈ xs
    · simp [h1]
    · by_cases h2 : x ∈ l₂
      · simp [h1, h2]
      · simp [h1, h2]

example : batchXml [⟨pass, some "D:\\b\\1.d".toList⟩, ⟨"Fail".toList, some "2.d".toList⟩,
    ⟨pass, some "/x/3.d".toList⟩, ⟨pass, some "1.d".toList⟩] = ["3.d".toList, "1.d".toList] := by decide

/-- `datafile[max(map(datafile.rfind, "\\/")) + 1:]` is the part after the last `\` or `/`: it
contains no separator, and the input is either that part itself or `prefix ++ separator ++ part`. -/
theorem basename_spec (s : Name) :
    basename s = basenameSpec s ∧
    (∀ c ∈ basename s, c ≠ '\\' ∧ c ≠ '/') ∧
    (basename s = s ∨ ∃ pre c, (c = '\\' ∨ c = '/') ∧ s = pre ++ c :: basename s) := by
  refine ⟨basename_eq_spec s, ?_, ?_⟩
  · rw [basename_eq_spec]
    intro c hc
    unfold basenameSpec at hc
    have := List.mem_takeWhile_imp (List.mem_reverse.mp hc)
    simp only [isSep, Bool.not_eq_true', Bool.or_eq_false_iff, decide_eq_false_iff_not] at this
    exact this
  · rw [basename_eq_spec]
    unfold basenameSpec
    have hsplit := List.takeWhile_append_dropWhile (p := fun c => !isSep c) (l := s.reverse)
    cases hd : List.dropWhile (fun c => !isSep c) s.reverse with
    | nil =>
      left
      rw [hd, List.append_nil] at hsplit
      rw [hsplit, List.reverse_reverse]
    | cons c rest =>
      right
      refine ⟨rest.reverse, c, ?_, ?_⟩
      · have := List.head_dropWhile_not (fun c => !isSep c) (l := s.reverse) (by rw [hd]; simp)
        simp only [hd, List.head_cons] at this
        exact (isSep_iff c).mp (by simpa using this)
      · rw [hd] at hsplit
        have := congrArg List.reverse hsplit
        rw [List.reverse_reverse, List.reverse_append, List.reverse_cons, List.append_assoc] at this
        simpa using this.symm

example : basename "D:\\Agilent\\DATA/x.b\\010.d".toList = "010.d".toList := by decide
example : basename "010.d".toList = "010.d".toList := by decide

/-- The CSV batch-log reader (as repaired) agrees with the XML reader on the same log, for every
log whose file names fit the `U264` column and whose result texts do not merely *start* with
`Pass` (the `U4` column truncates): any failures, repeats and path styles. -/
theorem batchCsv_eq_batchXml (log : List LogEntry) (rows : List CsvRow)
    (hsame : List.Forall₂ (fun e r => e.file = some r.file ∧ r.result = e.result) log rows)
    (hres : ∀ e ∈ log, e.result.take 4 = pass → e.result = pass)
    (hlen : ∀ r ∈ rows, r.file.length ≤ 264) :
    batchCsv rows = batchXml log := by
  rw [batchCsv_eq, batchXml_eq, csvNames_eq_xmlNames log rows hsame hres hlen]

example : List.Forall₂ (fun e r => e.file = some r.file ∧ r.result = e.result)
    ([⟨pass, some "a\\1.d".toList⟩, ⟨"Fail".toList, some "2.d".toList⟩, ⟨pass, some "1.d".toList⟩] : List LogEntry)
    ([⟨1, "a\\1.d".toList, pass⟩, ⟨2, "2.d".toList, "Fail".toList⟩, ⟨3, "1.d".toList, pass⟩] : List CsvRow) := by
  repeat constructor

/-- The unrepaired CSV loop (append without removal) disagrees with the XML reader on the log
`1.d, 2.d (Fail), 3.d, 1.d` — kept as documentation of the defect fixed by 92e0f8d. -/
theorem batchCsv_unrepaired_wrong :
    let log : List LogEntry := [⟨pass, some "1.d".toList⟩, ⟨"Fail".toList, some "2.d".toList⟩,
      ⟨pass, some "3.d".toList⟩, ⟨pass, some "1.d".toList⟩]
    (log.filterMap (fun e => if e.result = pass then e.file.map basename else none)) ≠ batchXml log := by
  decide

/-- Method-file reader vs log readers: when nothing failed or was repeated and the SampleIDs
increase in acquisition order (`planned` is the sample list in that order), the method-file reader
returns the log's list from ANY document order of the `SampleParameter` elements. -/
theorem acq_eq_log (log : List LogEntry) (samples planned : List Sample)
    (hperm : samples.Perm planned) (h : acqLogHyp log planned = true) :
    acqMethod samples = batchXml log := by
  simp only [acqLogHyp, Bool.and_eq_true, List.all_eq_true, decide_eq_true_eq] at h
  obtain ⟨⟨⟨hpass, hnodup⟩, hinc⟩, hnames⟩ := h
  have hp : ∀ e ∈ log, e.result = pass := fun e he => (hpass e he).1
  unfold acqMethod
  rw [sortByInt_of_perm_strict samples planned hperm hinc, batchXml_eq, xmlNames_of_allPass log hp,
    keepLast_of_nodup _ (nodup_filterMap_id _ hnodup), ← hnames]
  simp [List.filterMap_map]

example : acqLogHyp [⟨pass, some "b\\10.d".toList⟩, ⟨pass, some "b\\9.d".toList⟩]
    [⟨some 3, some "10.d".toList⟩, ⟨some 7, some "9.d".toList⟩] = true := by decide

/-- The directory-scan fallback returns exactly the data directories of the listing, ascending in
the number formed by the digits of their names. -/
theorem byNumber_sorted_perm (listing : List Entry) :
    (byNumber listing).Perm (dataDirs listing) ∧
    (byNumber listing).Pairwise (fun a b => digitsVal a ≤ digitsVal b) :=
  ⟨Pew.SortAgilent.sortKey_perm digitsVal _, Pew.SortAgilent.sortKey_sorted digitsVal _⟩

/-- ... and, when the numbers are pairwise distinct, it does not depend on the order in which the
directory is listed. -/
theorem byNumber_listing_independent (l₁ l₂ : List Entry) (hp : l₁.Perm l₂)
    (hinj : ∀ a ∈ dataDirs l₁, ∀ b ∈ dataDirs l₁, digitsVal a = digitsVal b → a = b) :
    byNumber l₁ = byNumber l₂ :=
  Pew.SortAgilent.sortKey_perm_invariant digitsVal _ _ (dataDirs_perm l₁ l₂ hp) hinj

/-- ... and equals the insertion-sort specification. -/
theorem byNumber_eq_spec (listing : List Entry)
    (hinj : ∀ a ∈ dataDirs listing, ∀ b ∈ dataDirs listing, digitsVal a = digitsVal b → a = b) :
    byNumber listing = byNumberSpec listing := by
  have hs := foldl_insert_perm_sorted (dataDirs listing) [] List.Pairwise.nil
  have hp : (byNumberSpec listing).Perm (dataDirs listing) := by simpa [byNumberSpec] using hs.1
  unfold byNumber sortByNat
  apply Pew.SortAgilent.mergeSort_eq_sorted_of_perm _ (Pew.SortAgilent.keyLe_trans digitsVal)
    (Pew.SortAgilent.keyLe_total digitsVal) _ _ hp.symm
  · exact hs.2.imp (fun h => by simpa using h)
  · intro a ha b hb h1 h2
    simp only [decide_eq_true_eq] at h1 h2
    exact hinj a (hp.mem_iff.mp ha) b (hp.mem_iff.mp hb) (Nat.le_antisymm h1 h2)

example : byNumber [⟨"10.d".toList, true⟩, ⟨"Method".toList, true⟩, ⟨"9.D".toList, true⟩,
    ⟨"100.d".toList, true⟩, ⟨"7.d".toList, false⟩] = ["9.D".toList, "10.d".toList, "100.d".toList] := by
  rw [byNumber_eq_spec _ (by decide)]; decide

/-- `collect_datafiles` as a whole (any list of methods, any subset of metadata files present, any
directory content): the mechanism returns what the specification of each reader returns, given
only that BatchLog.csv's texts fit its columns (`U4`, `U264`) and that the data directories carry
pairwise distinct numbers.  This discharges the `hlines` hypothesis of `stack_pixel`/`csv_pixel`. -/
theorem collect_eq_spec (m : Meta) (methods : List Method)
    (hcsv : ∀ rows, m.csv = some rows →
      ∀ r ∈ rows, (r.result.take 4 = pass → r.result = pass) ∧ r.file.length ≤ 264)
    (hnum : ∀ a ∈ dataDirs m.listing, ∀ b ∈ dataDirs m.listing, digitsVal a = digitsVal b → a = b) :
    collect m false methods = collect m true methods ∧ linesOf m false methods = linesOf m true methods := by
  have hsrc : ∀ meth, m.source false meth = m.source true meth := by
    intro meth
    cases meth with
    | batchXml =>
      simp only [Meta.source]
      cases m.xml with
      | none => rfl
      | some l => simp [(batchXml_spec l).1]
    | batchCsv =>
      simp only [Meta.source]
      cases hc : m.csv with
      | none => rfl
      | some rows =>
        simp only [Option.map_some, Bool.false_eq_true, if_false, if_true]
        rw [batchCsv_eq, csvNames_eq_spec rows (hcsv rows hc)]
    | acqMethod => rfl
    | alphabetical => rfl
  have hc : collect m false methods = collect m true methods := by
    induction methods with
    | nil => rfl
    | cons meth rest ih =>
      cases meth with
      | alphabetical => simp [collect, byNumber_eq_spec m.listing hnum]
      | batchXml => simp only [collect, hsrc, ih]
      | batchCsv => simp only [collect, hsrc, ih]
      | acqMethod => simp only [collect, hsrc, ih]
  refine ⟨hc, ?_⟩
  unfold linesOf
  rw [hc]
  simp [byNumber_eq_spec m.listing hnum]

/-- non-vacuity of `collect_eq_spec`: a CSV log with a failed and a repeated entry, three data
directories whose listing, alphabetical and numeric orders differ -/
example :
    let m : Meta := { listing := [⟨"10.d".toList, true⟩, ⟨"9.d".toList, true⟩, ⟨"100.d".toList, true⟩, ⟨"BatchLog.csv".toList, false⟩],
                      xml := none, acq := none,
                      csv := some [⟨1, "D:\\b\\100.d".toList, pass⟩, ⟨2, "D:\\b\\9.d".toList, "Fail".toList⟩,
                                   ⟨3, "D:\\b\\9.d".toList, pass⟩, ⟨4, "D:\\b\\100.d".toList, pass⟩] }
    (∀ rows, m.csv = some rows → ∀ r ∈ rows, (r.result.take 4 = pass → r.result = pass) ∧ r.file.length ≤ 264) ∧
    (∀ a ∈ dataDirs m.listing, ∀ b ∈ dataDirs m.listing, digitsVal a = digitsVal b → a = b) ∧
    collect m true [.batchCsv, .alphabetical] = some ["9.d".toList, "100.d".toList] := by
  refine ⟨?_, by decide, by decide⟩
  intro rows h
  simp only [Option.some.injEq] at h
  subst h
  decide

/-! ## binary decoding -/

/-- Every scan `r < R` of every mass `j < k` — for every `R ≥ 1`, `k ≥ 1`, so `k = 1` and `k = 2`
are included — decodes to the Analog value of profile record `r`, column `j`, and the clip is not
active, for scan records laid out like the instrument's: `SpectrumOffset = 68 + r·ByteCount`,
`ByteCount > 0` (any value, in particular `28·k`). -/
theorem binary_pixel {α : Type} (R k bc : Nat) (scans : List ScanRec) (profile : List (List α))
    (L : Layout R k bc scans profile) (r j : Nat) (hr : r < R) (hj : j < k) :
    (∃ v, (profile[r]?).bind (fun row => row[j]?) = some v ∧
      ((decode (List.range' 1 k) scans profile)[j]?).bind (fun col => col[r]?) = some (some v)) ∧
    r * k + j ≤ R * k - 1 := by
  refine ⟨?_, clip_inactive R k r j hr hj⟩
  obtain ⟨v, hv⟩ := profile_getElem_some L r j hr hj
  refine ⟨v, hv, ?_⟩
  unfold decode
  rw [List.getElem?_map, List.getElem?_range' (by omega)]
  simp only [List.length_range', Option.map_some, Option.bind_some]
  rw [Nat.add_comm 1 (1 * j), Nat.one_mul, decodeMass_getElem L r j hr hj, hv]

/-- non-vacuity: one mass, three scans, the fixture layout (`ByteCount = 28`) -/
example : Layout 3 1 28 [⟨68, 28, 0⟩, ⟨96, 28, 0⟩, ⟨124, 28, 0⟩] [[10], [20], [30]] :=
  ⟨rfl, rfl, by decide, by decide, by decide⟩

example : decode [1] [⟨68, 28, 0⟩, ⟨96, 28, 0⟩, ⟨124, 28, 0⟩] [[(10 : Nat)], [20], [30]]
    = [[some 10, some 20, some 30]] := by decide

/-- Regression documentation of the defect repaired by 0904cc9: the old formula
`SpectrumOffset // ByteCount` on the instrument's layout (`SpectrumOffset = 68 + r·ByteCount`,
`ByteCount = 28·k`) is wrong for `k = 1`: Analog values 10, 20, 30 decode to 30, 30, 30 ... -/
theorem binary_unrepaired_k1_wrong :
    decodeMassUnrepaired 1 [⟨68, 28, 0⟩, ⟨96, 28, 0⟩, ⟨124, 28, 0⟩] [[(10 : Nat)], [20], [30]] 1
      = [some 30, some 30, some 30] := by decide

/-- ... and for `k = 2` (`ByteCount = 56`): every scan shows the next scan's values ... -/
theorem binary_unrepaired_k2_wrong :
    [1, 2].map (decodeMassUnrepaired 2 [⟨68, 56, 0⟩, ⟨124, 56, 0⟩, ⟨180, 56, 0⟩] [[(10 : Nat), 11], [20, 21], [30, 31]])
      = [[some 20, some 30, some 31], [some 21, some 31, some 31]] := by decide

/-- ... while it was right exactly when the header is smaller than one record, i.e. `k ≥ 3`. -/
theorem binary_unrepaired_ok_iff (k r : Nat) (hk : 1 ≤ k) : (68 + r * (28 * k)) / (28 * k) = r ↔ 3 ≤ k := by
  have hpos : 0 < 28 * k := by omega
  rw [Nat.add_mul_div_right _ _ hpos]
  constructor
  · intro h
    by_contra hlt
    have hk2 : k = 1 ∨ k = 2 := by omega
    rcases hk2 with rfl | rfl <;> simp at h
  · intro h
    rw [Nat.div_eq_of_lt (by omega)]; simp

/-- The whole binary import equals its specification — pixel `[line][element][scan]` is the Analog
value of that element in that scan's record of that line's data file, the lines being the collected
ones in collected order, the names those of the mass table — for every batch whose data files are
laid out as in `binary_pixel` (the same `R` and `k` for every file; any number of lines), whenever the collection mechanism returns what its specification returns (which the
collection theorems above establish reader by reader). -/
theorem stack_pixel {α : Type} (m : Meta) (files : List (DataFile α)) (ms : List MassInfo)
    (methods : List Method) (R k : Nat)
    (hids : ms.map (·.id) = List.range' 1 k)
    (hfiles : ∀ f ∈ files, f.hasBinary = true ∧ ∃ bc, Layout R k bc f.scans f.profile)
    (hlines : linesOf m false methods = linesOf m true methods) :
    loadBinary m files (some ms) methods = loadBinarySpec m files ms methods := by
  unfold loadBinary loadBinarySpec
  rw [hlines]
  cases linesOf m true methods with
  | error e => rfl
  | ok lines =>
    simp only [bind, Except.bind]
    cases hd : allSome (lines.map (findFile files)) with
    | none => rfl
    | some dfs =>
      have hmem := mem_files_of_lines files lines dfs hd
      have hbin : (dfs.all (·.hasBinary)) = true := by
        rw [List.all_eq_true]; exact fun f hf => (hfiles f (hmem f hf)).1
      have hk : ms.length = k := by
        have := congrArg List.length hids
        simpa using this
      have himg : allSome ((dfs.map (fun f => decode (ms.map (·.id)) f.scans f.profile)).map
            (fun line => allSome (line.map allSome)))
          = some (dfs.map (fun f => (List.range ms.length).map (column f.profile))) := by
        rw [List.map_map, hids, hk]
        apply allSome_map_of_forall
        intro f hf
        obtain ⟨bc, L⟩ := (hfiles f (hmem f hf)).2
        exact decode_allSome L
      have hn : (dfs.all (fun f => decide (f.scans.length = (dfs.head?.map (·.scans.length)).getD 0))) = true := by
        rw [List.all_eq_true]
        intro f hf
        obtain ⟨bc, L⟩ := (hfiles f (hmem f hf)).2
        cases dfs with
        | nil => simp at hf
        | cons f0 rest =>
          obtain ⟨bc0, L0⟩ := (hfiles f0 (hmem f0 (by simp))).2
          simp [L.nscans, L0.nscans]
      simp only [orErr, hbin, himg, hn, Bool.not_true, Bool.false_eq_true, if_false, pure, Except.pure, throw,
        throwThe, MonadExceptOf.throw]

def exMeta : Meta :=
  { listing := [⟨"10.d".toList, true⟩, ⟨"9.d".toList, true⟩, ⟨"Method".toList, true⟩],
    xml := some [⟨pass, some "b\\10.d".toList⟩, ⟨"Fail".toList, some "b\\9.d".toList⟩, ⟨pass, some "b\\9.d".toList⟩],
    csv := none, acq := none }

def exFiles : List (DataFile Nat) :=
  [{ name := "9.d".toList, hasBinary := true, scans := [⟨68, 56, 0⟩, ⟨124, 56, 1⟩], profile := [[1, 2], [3, 4]], csv := none },
   { name := "10.d".toList, hasBinary := true, scans := [⟨68, 56, 0⟩, ⟨124, 56, 1⟩], profile := [[5, 6], [7, 8]], csv := none }]

/-- non-vacuity of `stack_pixel`: two lines, two masses, a log with a failed and a repeated entry -/
example : linesOf exMeta false [.batchXml] = linesOf exMeta true [.batchXml] := by rfl
example : ∀ f ∈ exFiles, f.hasBinary = true ∧ ∃ bc, Layout 2 2 bc f.scans f.profile := by
  intro f hf
  simp only [exFiles, List.mem_cons, List.not_mem_nil, or_false] at hf
  rcases hf with rfl | rfl <;> exact ⟨rfl, 56, ⟨rfl, rfl, by decide, by decide, by decide⟩⟩

/-! ## mass table -/

/-- Element `i` of the mass table is the `i`-th `Masses` element of MSTS_XSpecific.xml, its m/z
replaced by the last MSTS_XAddition row carrying index `i` (precursor; plus `->product` for MS/MS),
whatever the document order of the XAddition rows; the table is in id order 1..k. -/
theorem massInfo_spec (xs : List XMass) (xadd : Option (Bool × List XAdd))
    (hidx : ∀ msms rows, xadd = some (msms, rows) → ∀ a ∈ rows, 1 ≤ a.index ∧ a.index ≤ xs.length) :
    massInfo xs xadd = some (massInfoSpec xs xadd) ∧
    (massInfoSpec xs xadd).map (·.id) = List.range' 1 xs.length := by
  have hid : (xspecific xs).map (·.id) = List.range' 1 xs.length := by
    unfold xspecific
    rw [List.map_map]
    apply List.ext_getElem
    · simp
    · intro i h1 h2
      simp [Nat.add_comm]
  constructor
  · cases xadd with
    | none => simp [massInfo, massInfoSpec]
    | some p =>
      obtain ⟨msms, rows⟩ := p
      have hall : rows.all (fun a => (xspecific xs).any (fun m => m.id = a.index)) = true := by
        rw [List.all_eq_true]
        intro a ha
        have := hidx msms rows rfl a ha
        rw [List.any_eq_true]
        have hmem : a.index ∈ (xspecific xs).map (·.id) := by
          rw [hid, List.mem_range']
          exact ⟨a.index - 1, by omega, by omega⟩
        obtain ⟨m, hm, e⟩ := List.mem_map.mp hmem
        exact ⟨m, hm, by simpa using e⟩
      simp only [massInfo, hall, if_true, massInfoSpec]
      rw [foldl_applyAdd]
      congr 1
      apply List.map_congr_left
      intro m hm
      have hm2 : m.mz2 = none := by
        unfold xspecific at hm
        obtain ⟨x, _, e⟩ := List.mem_map.mp hm
        rw [← e]
      cases List.find? (fun a => decide (a.index = m.id)) rows.reverse with
      | none => rfl
      | some a => simp [updMass, hm2]
  · rw [← hid]
    unfold massInfoSpec
    rw [List.map_map]
    apply List.map_congr_left
    intro m _
    simp only [Function.comp]
    cases xadd with
    | none => rfl
    | some p =>
      obtain ⟨msms, rows⟩ := p
      simp only
      cases List.find? (fun a => decide (a.index = m.id)) rows.reverse <;> rfl

example : (massInfo [⟨"P".toList, 1, 1⟩, ⟨"Eu".toList, 2, 1⟩]
      (some (true, [⟨2, 153, 153⟩, ⟨1, 31, 47⟩]))).map (fun t => t.map (·.str))
    = some ["P31->47".toList, "Eu153->153".toList] := by decide

/-- The element names `load_csv` takes from AcqMethod.xml are the names of the batch's own mass
table: whatever the document order of the `IcpmsElement` entries, if they are the mass table's
elements (`sorted` lists them in mass-table order, strictly ascending in (MZ, SelectedMZ) — the
method order) the renamed CSV columns carry the names the binary import reports.  MS/MS:
`name ++ precursor ++ "->" ++ product`; single quad: `name ++ mz`. -/
theorem acqNames_eq_massNames (msms : Bool) (tbl : List MassInfo) (es sorted : List AcqElement)
    (hperm : es.Perm sorted)
    (hsorted : sorted.Pairwise (fun a b => a.mz < b.mz ∨ (a.mz = b.mz ∧ a.selected < b.selected)))
    (hmatch : List.Forall₂ (fun (m : MassInfo) (e : AcqElement) => e.name = m.name ∧
      (if msms then m.mz2 = some e.mz ∧ m.mz = e.selected else m.mz2 = none ∧ m.mz = e.mz)) tbl sorted) :
    acqElements msms es = tbl.map (·.str) := by
  unfold acqElements
  rw [sortElements_of_perm_strict es sorted hperm hsorted]
  clear hperm hsorted
  induction hmatch with
  | nil => rfl
  | @cons m e ms es' h _ ih =>
    rw [List.map_cons, List.map_cons, ih]
    congr 1
    obtain ⟨hn, hm⟩ := h
    cases msms with
    | true =>
      simp only [if_true] at hm ⊢
      simp [MassInfo.str, hm.1, hm.2, hn]
    | false =>
      simp only [Bool.false_eq_true, if_false] at hm ⊢
      simp [MassInfo.str, hm.1, hm.2, hn]

example : acqElements true [⟨"Eu".toList, 153, 153⟩, ⟨"P".toList, 47, 31⟩]
    = ["P31->47".toList, "Eu153->153".toList] := by
  rw [acqNames_eq_massNames true
    [⟨1, "P".toList, 1, 31, some 47⟩, ⟨2, "Eu".toList, 1, 153, some 153⟩]
    _ [⟨"P".toList, 47, 31⟩, ⟨"Eu".toList, 153, 153⟩] (List.Perm.swap _ _ _) (by decide)
    (by repeat constructor)]
  decide

/-! ## CSV import -/

/-- `csv_valid_lines` yields exactly the header line and the data lines: preamble lines that do not
start with `Time`, a header that does, data lines with the header's comma count, footer lines with
a different comma count that do not start with `Time`. -/
theorem validLines_spec (pre data foot : List Name) (header : Name)
    (hpre : ∀ l ∈ pre, startsWithTime l = false) (hh : startsWithTime header = true)
    (hdata : ∀ l ∈ data, countCommas l = countCommas header)
    (hfoot : ∀ l ∈ foot, countCommas l ≠ countCommas header ∧ startsWithTime l = false) :
    validLines false 0 (pre ++ header :: (data ++ foot)) = header :: data := by
  rw [validLines_pre pre _ hpre, validLines]
  simp only [Bool.false_and, Bool.false_eq_true, if_false, hh, if_true]
  rw [validLines_past _ data foot hdata hfoot]

example : validLines false 0 ["D:\\x\\1.d".toList, "Intensity Vs Time,CPS".toList, "Time [Sec],P31".toList,
    "0.5,1.25".toList, "1.0,2.50".toList, "".toList, "   Printed: now".toList]
    = ["Time [Sec],P31".toList, "0.5,1.25".toList, "1.0,2.50".toList] := by decide

/-- Reading one per-line CSV export: for every well-formed file (any preamble and footer that the
line filter rejects, header and data fields free of commas, every data row as wide as the header,
plain decimal fields, CR or no CR before the newline) the table delivered to `load_csv` has the
header's names and, at row `scan`, column `col`, exactly the decimal value printed in field `col`
of data row `scan` — no row or column is shifted, dropped or duplicated. -/
theorem readCsv_spec (c : CsvFile) (W : CsvWF c) :
    readCsv c.lines = some { names := c.header.map validName, rows := c.rows.map (fun r => r.filterMap parseDec) } := by
  have hlines : c.lines = c.pre.map (· ++ c.eol) ++ (joinFields c.header ++ c.eol) ::
      ((c.rows.map (fun r => joinFields r ++ c.eol)) ++ c.foot.map (· ++ c.eol)) := by
    simp [CsvFile.lines, List.map_append, List.map_map, Function.comp_def]
  have hv := validLines_spec (c.pre.map (· ++ c.eol)) (c.rows.map (fun r => joinFields r ++ c.eol))
    (c.foot.map (· ++ c.eol)) (joinFields c.header ++ c.eol)
    (by intro l hl; obtain ⟨x, hx, rfl⟩ := List.mem_map.mp hl; exact W.pre x hx)
    W.head
    (by
      intro l hl
      obtain ⟨r, hr, rfl⟩ := List.mem_map.mp hl
      rw [count_line W r (by simp [hr]), count_line W c.header (by simp)])
    (by
      intro l hl
      obtain ⟨x, hx, rfl⟩ := List.mem_map.mp hl
      rw [count_line W c.header (by simp)]
      exact W.foot x hx)
  unfold readCsv
  rw [hlines, hv]
  simp only
  rw [fields_line W c.header (by simp)]
  have hfilter : (c.rows.map (fun r => joinFields r ++ c.eol)).filter
      (fun l => !(stripChars (fun ch => ch = ' ' || ch = '\r' || ch = '\n') l).isEmpty)
      = c.rows.map (fun r => joinFields r ++ c.eol) := by
    apply List.filter_eq_self.mpr
    intro l hl
    obtain ⟨r, hr, rfl⟩ := List.mem_map.mp hl
    rw [strip_line W r (by simp [hr])]
    obtain ⟨hne, _, _⟩ := W.ends r (by simp [hr])
    cases hj : joinFields r with
    | nil => exact absurd hj hne
    | cons a as => rfl
  rw [hfilter, List.map_map]
  have hrows : allSome (c.rows.map ((fun l => allSome ((fields l).map parseDec)) ∘ (fun r => joinFields r ++ c.eol)))
      = some (c.rows.map (fun r => r.filterMap parseDec)) := by
    apply allSome_map_of_forall
    intro r hr
    simp only [Function.comp]
    rw [fields_line W r (by simp [hr])]
    exact (allSome_parse r (W.parse r hr)).1
  rw [hrows]
  simp only
  have hall : ((c.rows.map (fun r => r.filterMap parseDec)).all
      (fun r => decide (r.length = (c.header.map validName).length))) = true := by
    rw [List.all_eq_true]
    intro x hx
    obtain ⟨r, hr, rfl⟩ := List.mem_map.mp hx
    simp [(allSome_parse r (W.parse r hr)).2, W.width r hr]
  rw [hall]
  rfl

def exCsv : CsvFile :=
  { pre := ["D:\\b\\1.d".toList, "Intensity Vs Time,CPS".toList], header := ["Time [Sec]".toList, "P31".toList],
    rows := [["0.5253".toList, "38993.68".toList], ["1.0253".toList, "0.00".toList]],
    foot := ["".toList, "   Printed:now".toList], eol := ['\r'] }

/-- non-vacuity of `readCsv_spec`: one mass (the preamble line `Intensity Vs Time,CPS` has the
header's comma count), CRLF line ends, blank and text footer -/
theorem exCsv_wf : CsvWF exCsv :=
  ⟨by decide, by decide, by decide, by decide, by decide, by decide, by decide, by decide, by
    intro r hr f hf
    simp only [exCsv, List.mem_cons, List.not_mem_nil, or_false] at hr
    rcases hr with rfl | rfl <;> simp only [List.mem_cons, List.not_mem_nil, or_false] at hf <;>
      rcases hf with rfl | rfl <;> exact ⟨_, rfl⟩⟩

/-- The whole CSV import equals its specification: pixel `[line][element][scan]` is the decimal
value printed in field `element + 1` of data row `scan` of that line's export, a line without
export is all zeros, lines are the collected ones in collected order, and the columns are named by
the header (or, when the method file supplies names for every element, by those) — for every batch
whose exports are well-formed and of one shape (`ncol` columns, `nscan ≥ 2` rows, first column
`Time [Sec]`), any number of lines and any subset of them missing. -/
theorem csv_pixel {α : Type} (m : Meta) (files : List (DataFile α)) (names : Option (List Name))
    (methods : List Method) (ncol nscan : Nat) (hscan : 2 ≤ nscan)
    (hfiles : ∀ f ∈ files, ∀ c, f.csv = some c →
      CsvWF c ∧ c.header.length = ncol ∧ c.rows.length = nscan ∧ (c.header.head?).map validName = some timeName)
    (hnames : ∀ ns, names = some ns → ns.length = ncol - 1)
    (hlines : linesOf m false methods = linesOf m true methods) :
    loadCsv m files names methods = loadCsvSpec m files names methods := by
  unfold loadCsv loadCsvSpec
  rw [hlines]
  cases linesOf m true methods with
  | error e => rfl
  | ok lines =>
    simp only
    cases hd : allSome (lines.map (findFile files)) with
    | none => rfl
    | some dfs =>
      have hmem := mem_files_of_lines files lines dfs hd
      simp only
      have htabs : allSome (dfs.map (fun f => readLine f.csv)) = some (dfs.map (fun f => f.csv.map tableOf)) := by
        apply allSome_map_of_forall
        intro f hf
        cases hc : f.csv with
        | none => rfl
        | some c =>
          simp only [readLine, Option.map_some]
          rw [readCsv_spec c (hfiles f (hmem f hf) c hc).1]
          rfl
      rw [htabs]
      simp only
      have hfm := filterMap_id_map_option dfs (·.csv) tableOf
      rw [hfm]
      cases hcs : dfs.filterMap (·.csv) with
      | nil => rfl
      | cons c0 rest =>
        have hc0 : ∃ f ∈ dfs, f.csv = some c0 := by
          have : c0 ∈ dfs.filterMap (·.csv) := by rw [hcs]; simp
          obtain ⟨f, hf, e⟩ := List.mem_filterMap.mp this
          exact ⟨f, hf, e⟩
        obtain ⟨f0, hf0, e0⟩ := hc0
        obtain ⟨W0, hcol0, hrow0, htime0⟩ := hfiles f0 (hmem f0 hf0) c0 e0
        simp only [List.map_cons, tableOf, List.length_map, hrow0, hcol0]
        rw [if_neg (by omega)]
        have hshape : ((dfs.map (fun f => f.csv.map tableOf)).all (shapeOk nscan ncol)) = true := by
          rw [List.all_eq_true]
          intro t ht
          obtain ⟨f, hf, rfl⟩ := List.mem_map.mp ht
          cases hc : f.csv with
          | none => rfl
          | some c =>
            obtain ⟨_, h1, h2, _⟩ := hfiles f (hmem f hf) c hc
            simp [shapeOk, tableOf, h1, h2]
        rw [hshape]
        simp only [Bool.not_true, Bool.false_eq_true, if_false]
        have hcols : allSome (dfs.map (fun f => csvLineSpec ncol nscan f.csv))
            = some (dfs.map (fun f => csvCols ncol nscan (f.csv.map tableOf))) := by
          apply allSome_map_of_forall
          intro f hf
          cases hc : f.csv with
          | none => rfl
          | some c =>
            obtain ⟨W, h1, _, _⟩ := hfiles f (hmem f hf) c hc
            exact csvCols_eq_spec ncol nscan c W.parse (fun r hr => by rw [W.width r hr, h1])
        rw [hcols, List.map_map]
        -- names
        cases hh : c0.header with
        | nil => rw [hh] at htime0; simp at htime0
        | cons t0 rest0 =>
          rw [hh] at htime0 hcol0
          simp only [List.head?_cons, Option.map_some, Option.some.injEq] at htime0
          cases names with
          | none =>
            simp [csvNames?, htime0]
          | some ns =>
            have hl := hnames ns rfl
            have : ns.length = (rest0.map validName).length := by
              rw [List.length_map]; simp only [List.length_cons] at hcol0; omega
            simp [csvNames?, renameFields_full _ _ _ this, htime0]

def exCsvFiles : List (DataFile Nat) :=
  [{ name := "9.d".toList, hasBinary := false, scans := [], profile := [], csv := some exCsv },
   { name := "10.d".toList, hasBinary := false, scans := [], profile := [], csv := none }]

/-- non-vacuity of `csv_pixel`: two lines, the second without export -/
example : ∀ f ∈ exCsvFiles, ∀ c, f.csv = some c →
    CsvWF c ∧ c.header.length = 2 ∧ c.rows.length = 2 ∧ (c.header.head?).map validName = some timeName := by
  intro f hf c hc
  simp only [exCsvFiles, List.mem_cons, List.not_mem_nil, or_false] at hf
  rcases hf with rfl | rfl
  · simp only [Option.some.injEq] at hc
    subst hc
    exact ⟨exCsv_wf, rfl, rfl, by decide⟩
  · simp at hc

/-- A line whose CSV is missing is zero-filled: every column (the time column included) of every
scan is 0; a line whose CSV is present holds, at `[column][scan]`, field `column` of data row `scan`. -/
theorem zero_fill (ncol nscan j r : Nat) (hj : j < ncol) :
    (r < nscan → ((csvCols ncol nscan none)[j]?).bind (fun col => col[r]?) = some 0) ∧
    (∀ t : Table, (∀ row ∈ t.rows, row.length = ncol) → r < t.rows.length →
      ((csvCols ncol nscan (some t))[j]?).bind (fun col => col[r]?) = (t.rows[r]?).bind (fun row => row[j]?)) := by
  constructor
  · intro hr
    simp [csvCols, hj, hr]
  · intro t hrows hr
    have hlen : j < (t.rows[r]).length := by rw [hrows _ (List.getElem_mem hr)]; exact hj
    simp [csvCols, transpose, hj, hr, List.getD, hlen]

/-- The reported scan time: the mean of all consecutive differences of a `rows × m` table of times
is the sum over the rows of (last − first), divided by `rows·(m − 1)`. -/
theorem meandiff_telescope (times : List (List Rat)) (m : Nat) (hm : 2 ≤ m)
    (hrows : ∀ row ∈ times, row.length = m) :
    meanDiff times = meanDiffSpec times m := by
  unfold meanDiff meanDiffSpec
  have hlen : ((times.map diffs).flatten).length = times.length * (m - 1) := by
    have := length_flatten_const (times.map diffs) (m - 1) (by
      intro l hl
      obtain ⟨row, hr, e⟩ := List.mem_map.mp hl
      rw [← e, length_diffs, hrows row hr])
    simpa using this
  have hsum : ((times.map diffs).flatten).sum = (times.map (fun row => row.getLastD 0 - row.headD 0)).sum := by
    rw [sum_flatten_rat, List.map_map]
    congr 1
    apply List.map_congr_left
    intro row hr
    have := hrows row hr
    cases row with
    | nil => simp at this; omega
    | cons a l => simp only [Function.comp, sum_diffs, List.headD_cons]
  simp only [hlen, hsum]

example : meanDiff [[1, 3, 4], [0, 1, 5]] = 2 := by
  simp [meanDiff, diffs]; norm_num

end Pew.Agilent
