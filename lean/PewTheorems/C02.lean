import PewProofs.AgilentAgree

/-! # C02 — property theorems

Every definition that occurs in a statement below lives in `PewModel/Agilent.lean` (core Lean only:
mechanisms, specifications and the hypothesis predicates `Layout`, `CsvWF`, `StableSortedBy`,
`Selected`, `SameShape`, `Near`), except `List.Forall₂`/`List.Perm`/`List.Pairwise`/`|·|` from the
standard library.  `PewProofs/Agilent*.lean` hold helper lemmas only. -/
namespace Pew.Agilent

/-! ## line order from the batch log -/

/-- The XML reader's remove-then-append loop returns the names of the acquisitions logged as
passed, each once, ordered by its LAST passed entry; failed entries and entries without a file
name contribute nothing.  Any log: any mixture of results, repeats, path styles. -/
theorem batchXml_spec (log : List LogEntry) :
    batchXml log = logSpec log ∧ (batchXml log).Nodup := by
  rw [batchXml_eq, xmlNames_eq_passNames]
  exact ⟨rfl, keepLast_nodup _⟩

/-- what "ordered by last occurrence" means, without recursion: same members as the input, and
in a concatenation the earlier part keeps only what does not come again in the later part, in
front of the later part's own result. -/
theorem keepLast_spec {α : Type} [DecidableEq α] (l₁ l₂ : List α) :
    (∀ x, x ∈ keepLast l₁ ↔ x ∈ l₁) ∧
    keepLast (l₁ ++ l₂) = (keepLast l₁).filter (fun a => decide (a ∉ l₂)) ++ keepLast l₂ := by
  refine ⟨mem_keepLast l₁, ?_⟩
  induction l₁ with
  | nil => simp [keepLast]
  | cons x xs ih =>
    rw [List.cons_append, keepLast_cons, keepLast_cons, ih]
    by_cases h1 : x ∈ xs
    · simp [h1]
    · by_cases h2 : x ∈ l₂
      · simp [h1, h2]
      · simp [h1, h2]

example : batchXml [⟨pass, some "D:\\b\\1.d".toList⟩, ⟨"Fail".toList, some "2.d".toList⟩,
    ⟨pass, some "/x/3.d".toList⟩, ⟨pass, some "1.d".toList⟩] = ["3.d".toList, "1.d".toList] := by decide

/-- `datafile[max(map(datafile.rfind, "\\/")) + 1:]` is the part after the last `\` or `/`: it
contains no separator, and the input is either that part itself or `prefix ++ separator ++ part`. -/
theorem basename_spec (s : Name) :
    basename s = basenameSpec s ∧
    (∀ c ∈ basename s, c ≠ '\\' ∧ c ≠ '/') ∧
    (basename s = s ∨ ∃ pre c, (c = '\\' ∨ c = '/') ∧ s = pre ++ c :: basename s) := by
  refine ⟨basename_eq_spec s, ?_, ?_⟩
  · rw [basename_eq_spec]
    intro c hc
    unfold basenameSpec at hc
    have := List.mem_takeWhile_imp (List.mem_reverse.mp hc)
    simp only [isSep, Bool.not_eq_true', Bool.or_eq_false_iff, decide_eq_false_iff_not] at this
    exact this
  · rw [basename_eq_spec]
    unfold basenameSpec
    have hsplit := List.takeWhile_append_dropWhile (p := fun c => !isSep c) (l := s.reverse)
    cases hd : List.dropWhile (fun c => !isSep c) s.reverse with
    | nil =>
      left
      rw [hd, List.append_nil] at hsplit
      rw [hsplit, List.reverse_reverse]
    | cons c rest =>
      right
      refine ⟨rest.reverse, c, ?_, ?_⟩
      · have := List.head_dropWhile_not (fun c => !isSep c) (l := s.reverse) (by rw [hd]; simp)
        simp only [hd, List.head_cons] at this
        exact (isSep_iff c).mp (by simpa using this)
      · rw [hd] at hsplit
        have := congrArg List.reverse hsplit
        rw [List.reverse_reverse, List.reverse_append, List.reverse_cons, List.append_assoc] at this
        simpa using this.symm

example : basename "D:\\Agilent\\DATA/x.b\\010.d".toList = "010.d".toList := by decide
example : basename "010.d".toList = "010.d".toList := by decide

/-- The CSV batch-log reader (as repaired) agrees with the XML reader on the same log, for every
log whose file names fit the `U264` column and whose result texts do not merely *start* with
`Pass` (the `U4` column truncates): any failures, repeats and path styles. -/
theorem batchCsv_eq_batchXml (log : List LogEntry) (rows : List CsvRow)
    (hsame : List.Forall₂ (fun e r => e.file = some r.file ∧ r.result = e.result) log rows)
    (hres : ∀ e ∈ log, e.result.take 4 = pass → e.result = pass)
    (hlen : ∀ r ∈ rows, r.file.length ≤ 264) :
    batchCsv rows = batchXml log := by
  rw [batchCsv_eq, batchXml_eq, csvNames_eq_xmlNames log rows hsame hres hlen]

example : List.Forall₂ (fun e r => e.file = some r.file ∧ r.result = e.result)
    ([⟨pass, some "a\\1.d".toList⟩, ⟨"Fail".toList, some "2.d".toList⟩, ⟨pass, some "1.d".toList⟩] : List LogEntry)
    ([⟨1, "a\\1.d".toList, pass⟩, ⟨2, "2.d".toList, "Fail".toList⟩, ⟨3, "1.d".toList, pass⟩] : List CsvRow) := by
  repeat constructor

/-- The unrepaired CSV loop (append without removal) disagrees with the XML reader on the log
`1.d, 2.d (Fail), 3.d, 1.d` — kept as documentation of the defect fixed by 92e0f8d. -/
theorem batchCsv_unrepaired_wrong :
    let log : List LogEntry := [⟨pass, some "1.d".toList⟩, ⟨"Fail".toList, some "2.d".toList⟩,
      ⟨pass, some "3.d".toList⟩, ⟨pass, some "1.d".toList⟩]
    (log.filterMap (fun e => if e.result = pass then e.file.map basename else none)) ≠ batchXml log := by
  decide

/-- The method-file reader (`sorted(samples, key=SampleID)` then the `DataFileName` texts): its
result is the `filterMap` of THE stable sort of the `SampleParameter` elements by SampleID — the
unique list with the same elements, ascending SampleIDs (absent/empty = -1) and document order kept
among equal SampleIDs — whatever the document order; it equals the executable specification `acqSpec`.
No hypothesis. -/
theorem acqMethod_spec (samples : List Sample) :
    acqMethod samples = acqSpec samples ∧
    ∃ sorted, StableSortedBy sampleKey samples sorted ∧ acqMethod samples = sorted.filterMap (·.file) ∧
      ∀ s', StableSortedBy sampleKey samples s' → s' = sorted := by
  refine ⟨?_, sortByInt sampleKey samples, sortByInt_stable sampleKey samples, rfl, ?_⟩
  · unfold acqMethod acqSpec
    rw [sortByInt_eq_acqSorted]
  · intro s' hs'
    exact stableSortedBy_unique sampleKey samples s' _ hs' (sortByInt_stable sampleKey samples)

example : acqMethod [⟨some 5, some "b.d".toList⟩, ⟨none, some "x.d".toList⟩, ⟨some 2, none⟩, ⟨some 5, some "a.d".toList⟩,
    ⟨some 0, some "c.d".toList⟩] = ["x.d".toList, "c.d".toList, "b.d".toList, "a.d".toList] := by
  rw [(acqMethod_spec _).1]; decide

/-- Method-file reader vs log readers.  The property's clause "when nothing failed or was repeated"
is `hpass`/`hnodup`.  What relates the method file to the LOG ORDER is not in the property text and
is a restriction of this theorem, stated as `hplan` + `hinc`: arranging the `SampleParameter`
elements in acquisition order (`planned`: the i-th one names the i-th log entry's file), their
SampleIDs strictly increase — i.e. the instrument ran the sample list in SampleID order.  Then the
method-file reader returns the log's list from ANY document order of the elements (`hperm`). -/
theorem acq_eq_log (log : List LogEntry) (samples planned : List Sample)
    (hpass : ∀ e ∈ log, e.result = pass)
    (hnodup : (log.map logName).Nodup)
    (hperm : samples.Perm planned)
    (hplan : planned.map (·.file) = log.map logName)
    (hinc : planned.Pairwise (fun a b => sampleKey a < sampleKey b)) :
    acqMethod samples = batchXml log ∧ acqSpec samples = logSpec log := by
  have h1 : acqMethod samples = batchXml log := by
    unfold acqMethod
    rw [sortByInt_of_perm_strict samples planned hperm hinc, batchXml_eq, xmlNames_of_allPass log hpass,
      keepLast_of_nodup _ (nodup_filterMap_id _ hnodup), ← hplan]
    simp [List.filterMap_map]
  refine ⟨h1, ?_⟩
  rw [← (acqMethod_spec samples).1, h1, (batchXml_spec log).1]

/-- non-vacuity of `acq_eq_log`: document order 9.d, 10.d; acquired 10.d (SampleID 3) then 9.d (SampleID 7) -/
example : acqMethod [⟨some 7, some "9.d".toList⟩, ⟨some 3, some "10.d".toList⟩]
    = batchXml [⟨pass, some "b\\10.d".toList⟩, ⟨pass, some "b\\9.d".toList⟩] :=
  (acq_eq_log _ _ [⟨some 3, some "10.d".toList⟩, ⟨some 7, some "9.d".toList⟩] (by decide) (by decide)
    (List.Perm.swap _ _ _) (by decide) (by decide)).1

/-- the Boolean the driver reports is exactly the conjunction of the hypotheses of `acq_eq_log` -/
theorem acqLogHyp_iff (log : List LogEntry) (planned : List Sample) :
    acqLogHyp log planned = true ↔
      (∀ e ∈ log, e.result = pass ∧ e.file.isSome = true) ∧ (log.map logName).Nodup ∧
      planned.Pairwise (fun a b => sampleKey a < sampleKey b) ∧ planned.map (·.file) = log.map logName := by
  simp only [acqLogHyp, Bool.and_eq_true, List.all_eq_true, decide_eq_true_eq]
  tauto

example : acqLogHyp [⟨pass, some "b\\10.d".toList⟩, ⟨pass, some "b\\9.d".toList⟩]
    [⟨some 3, some "10.d".toList⟩, ⟨some 7, some "9.d".toList⟩] = true := by decide

/-- The restriction `hinc` cannot be dropped: a clean log (nothing failed, nothing repeated) whose
two files were acquired against the SampleID order — the method-file reader lists them the other
way round. -/
theorem acq_ne_log_without_hinc :
    let log : List LogEntry := [⟨pass, some "10.d".toList⟩, ⟨pass, some "9.d".toList⟩]
    let samples : List Sample := [⟨some 2, some "10.d".toList⟩, ⟨some 1, some "9.d".toList⟩]
    samples.map (·.file) = log.map logName ∧ acqMethod samples ≠ batchXml log := by
  intro log samples
  rw [(acqMethod_spec samples).1]; decide

/-- The directory-scan fallback raises (ValueError from `int("")`) exactly when some data
directory's name has no digit; otherwise it returns exactly the data directories of the listing,
ascending in the number formed by the digits of their names. -/
theorem byNumber_sorted_perm (listing : List Entry) :
    (byNumber listing = none ↔ ∃ n ∈ dataDirs listing, hasDigit n = false) ∧
    ∀ l, byNumber listing = some l →
      l.Perm (dataDirs listing) ∧ l.Pairwise (fun a b => digitsVal a ≤ digitsVal b) := by
  unfold byNumber
  constructor
  · by_cases h : (dataDirs listing).all hasDigit = true
    · simp only [h, if_true, reduceCtorEq, false_iff, not_exists, not_and]
      intro n hn
      simpa using List.all_eq_true.mp h n hn
    · simp only [h, Bool.false_eq_true, if_false, true_iff]
      simpa using h
  · intro l hl
    split at hl
    · simp only [Option.some.injEq] at hl
      subst hl
      exact ⟨Pew.SortAgilent.sortKey_perm digitsVal _, Pew.SortAgilent.sortKey_sorted digitsVal _⟩
    · simp at hl

/-- ... and, when the numbers are pairwise distinct, it does not depend on the order in which the
directory is listed. -/
theorem byNumber_listing_independent (l₁ l₂ : List Entry) (hp : l₁.Perm l₂)
    (hinj : ∀ a ∈ dataDirs l₁, ∀ b ∈ dataDirs l₁, digitsVal a = digitsVal b → a = b) :
    byNumber l₁ = byNumber l₂ := by
  unfold byNumber
  have hd := dataDirs_perm l₁ l₂ hp
  have hall : (dataDirs l₁).all hasDigit = (dataDirs l₂).all hasDigit := by
    rw [Bool.eq_iff_iff, List.all_eq_true, List.all_eq_true]
    exact ⟨fun h x hx => h x (hd.mem_iff.mpr hx), fun h x hx => h x (hd.mem_iff.mp hx)⟩
  rw [hall]
  split
  · congr 1
    exact Pew.SortAgilent.sortKey_perm_invariant digitsVal _ _ hd hinj
  · rfl

/-- ... and equals the insertion-sort specification. -/
theorem byNumber_eq_spec (listing : List Entry)
    (hinj : ∀ a ∈ dataDirs listing, ∀ b ∈ dataDirs listing, digitsVal a = digitsVal b → a = b) :
    byNumber listing = byNumberSpec listing := by
  unfold byNumber byNumberSpec
  by_cases hall : (dataDirs listing).all hasDigit = true
  · have hany : (dataDirs listing).any (fun n => !hasDigit n) = false := by
      rw [List.any_eq_false]
      intro x hx
      simpa using List.all_eq_true.mp hall x hx
    rw [if_pos hall, hany]
    simp only [Bool.false_eq_true, if_false, Option.some.injEq]
    have hs := foldl_insert_perm_sorted (dataDirs listing) [] List.Pairwise.nil
    have hp : ((dataDirs listing).foldl (fun acc x => insertByNum x acc) []).Perm (dataDirs listing) := by
      simpa using hs.1
    unfold sortByNat
    apply Pew.SortAgilent.mergeSort_eq_sorted_of_perm _ (Pew.SortAgilent.keyLe_trans digitsVal)
      (Pew.SortAgilent.keyLe_total digitsVal) _ _ hp.symm
    · exact hs.2.imp (fun h => by simpa using h)
    · intro a ha b hb h1 h2
      simp only [decide_eq_true_eq] at h1 h2
      exact hinj a (hp.mem_iff.mp ha) b (hp.mem_iff.mp hb) (Nat.le_antisymm h1 h2)
  · have hany : (dataDirs listing).any (fun n => !hasDigit n) = true := by
      rw [List.any_eq_true]
      simp only [Bool.not_eq_true, List.all_eq_true, not_forall] at hall
      obtain ⟨x, hx, hd⟩ := hall
      exact ⟨x, hx, by simpa using hd⟩
    rw [if_neg hall, hany]
    rfl

example : byNumber [⟨"10.d".toList, true⟩, ⟨"Method".toList, true⟩, ⟨"9.D".toList, true⟩,
    ⟨"100.d".toList, true⟩, ⟨"7.d".toList, false⟩] = some ["9.D".toList, "10.d".toList, "100.d".toList] := by
  rw [byNumber_eq_spec _ (by decide)]; decide

/-- a data directory without a digit in its name: the scan raises -/
example : byNumber [⟨"10.d".toList, true⟩, ⟨"abc.d".toList, true⟩] = none := by decide

/-- `collect_datafiles` as a whole (any list of methods, any subset of metadata files present, any
directory content): the mechanism returns what the specification of each reader returns, given
only that BatchLog.csv's texts fit its columns (`U4`, `U264`) and that the data directories carry
pairwise distinct numbers.  This discharges the `hlines` hypothesis of `stack_pixel`/`csv_pixel`. -/
theorem collect_eq_spec (m : Meta) (methods : List Method)
    (hcsv : ∀ rows, m.csv = some rows →
      ∀ r ∈ rows, (r.result.take 4 = pass → r.result = pass) ∧ r.file.length ≤ 264)
    (hnum : ∀ a ∈ dataDirs m.listing, ∀ b ∈ dataDirs m.listing, digitsVal a = digitsVal b → a = b) :
    collect m false methods = collect m true methods ∧ linesOf m false methods = linesOf m true methods := by
  have hsrc : ∀ meth, m.source false meth = m.source true meth := by
    intro meth
    cases meth with
    | batchXml =>
      simp only [Meta.source]
      cases m.xml with
      | none => rfl
      | some l => simp [(batchXml_spec l).1]
    | batchCsv =>
      simp only [Meta.source]
      cases hc : m.csv with
      | none => rfl
      | some rows =>
        simp only [Option.map_some, Bool.false_eq_true, if_false, if_true]
        rw [batchCsv_eq, csvNames_eq_spec rows (hcsv rows hc)]
    | acqMethod =>
      simp only [Meta.source]
      cases m.acq with
      | none => rfl
      | some l => simp [(acqMethod_spec l).1]
    | alphabetical => rfl
  have hscan : m.scan false = m.scan true := by
    simp [Meta.scan, byNumber_eq_spec m.listing hnum]
  have hc : collect m false methods = collect m true methods := by
    induction methods with
    | nil => rfl
    | cons meth rest ih =>
      cases meth with
      | alphabetical => simp [collect, hscan]
      | batchXml => simp only [collect, hsrc, ih]
      | batchCsv => simp only [collect, hsrc, ih]
      | acqMethod => simp only [collect, hsrc, ih]
  refine ⟨hc, ?_⟩
  unfold linesOf
  rw [hc, hscan]

/-- non-vacuity of `collect_eq_spec`: a CSV log with a failed and a repeated entry, three data
directories whose listing, alphabetical and numeric orders differ -/
example :
    let m : Meta := { listing := [⟨"10.d".toList, true⟩, ⟨"9.d".toList, true⟩, ⟨"100.d".toList, true⟩, ⟨"BatchLog.csv".toList, false⟩],
                      xml := none, acq := none,
                      csv := some [⟨1, "D:\\b\\100.d".toList, pass⟩, ⟨2, "D:\\b\\9.d".toList, "Fail".toList⟩,
                                   ⟨3, "D:\\b\\9.d".toList, pass⟩, ⟨4, "D:\\b\\100.d".toList, pass⟩] }
    (∀ rows, m.csv = some rows → ∀ r ∈ rows, (r.result.take 4 = pass → r.result = pass) ∧ r.file.length ≤ 264) ∧
    (∀ a ∈ dataDirs m.listing, ∀ b ∈ dataDirs m.listing, digitsVal a = digitsVal b → a = b) ∧
    collect m true [.batchCsv, .alphabetical] = some ["9.d".toList, "100.d".toList] := by
  refine ⟨?_, by decide, by decide⟩
  intro rows h
  simp only [Option.some.injEq] at h
  subst h
  decide

/-- The selection loop of `collect_datafiles` against its declarative specification `Selected`
(which does not mention the loop): `r` is the result iff it is what the FIRST method of the list
that does not fail gives, every earlier method having failed — a listing method fails when its
metadata file is absent or names a data file that does not exist; `alphabetical` never fails (its
scan may raise); `none` = ValueError when all fail.  Any list of methods (repeats included), any
metadata, mechanism or specification readers; in particular the specification determines the result
uniquely. -/
theorem collect_spec (m : Meta) (spc : Bool) (methods : List Method) (r : Option (List Name)) :
    Selected m (m.source spc) (m.scan spc) methods r ↔ collect m spc methods = r := by
  induction methods with
  | nil =>
    rw [selected_nil]
    exact ⟨fun h => h ▸ rfl, fun h => h ▸ rfl⟩
  | cons x rest ih =>
    rw [selected_cons, ih]
    by_cases hx : x = .alphabetical
    · subst hx
      simp only [collect, Meta.Fails, ne_eq, not_true_eq_false, false_and, or_false, true_and]
      exact eq_comm
    · rw [collect_cons_of_ne m spc x rest hx]
      simp only [hx, false_and, false_or, ne_eq, not_false_eq_true, true_and, Meta.Fails]
      cases hs : m.source spc x with
      | none => simp
      | some files =>
        by_cases hall : files.all m.exists = true
        · have hall' : ∀ f ∈ files, m.exists f = true := List.all_eq_true.mp hall
          simp only [Option.some.injEq, exists_eq_left', hall, if_true]
          constructor
          · rintro (⟨_, h⟩ | ⟨h, _⟩)
            · exact h.symm
            · obtain ⟨f, hf, hfe⟩ := h files rfl
              rw [hall' f hf] at hfe
              exact absurd hfe (by simp)
          · intro h
            exact Or.inl ⟨hall', h.symm⟩
        · have hne : ∃ f ∈ files, m.exists f = false := by
            simp only [List.all_eq_true, not_forall, Bool.not_eq_true] at hall
            obtain ⟨f, hf, hfe⟩ := hall
            exact ⟨f, hf, hfe⟩
          simp only [Option.some.injEq, exists_eq_left', hall, Bool.false_eq_true, if_false]
          constructor
          · rintro (⟨h, _⟩ | ⟨_, h⟩)
            · obtain ⟨f, hf, hfe⟩ := hne
              rw [h f hf] at hfe
              exact absurd hfe (by simp)
            · exact h
          · intro h
            exact Or.inr ⟨fun fs hfs => hfs ▸ hne, h⟩

/-- non-vacuity of `collect_spec`: BatchLog.xml names a missing file (fails), BatchLog.csv is absent
(fails), the method file lists two existing files: selected, whatever comes after it -/
example :
    let m : Meta := { listing := [⟨"10.d".toList, true⟩, ⟨"9.d".toList, true⟩, ⟨"Method".toList, true⟩],
                      xml := some [⟨pass, some "b\\10.d".toList⟩, ⟨pass, some "b\\8.d".toList⟩], csv := none,
                      acq := some [⟨some 2, some "9.d".toList⟩, ⟨some 1, some "10.d".toList⟩] }
    Selected m (m.source true) (m.scan true) [.batchXml, .batchCsv, .acqMethod, .alphabetical]
      (some ["10.d".toList, "9.d".toList]) := by
  intro m
  rw [collect_spec]
  decide

/-! ## binary decoding -/

/-- Every scan `r < R` of every mass `j < k` — for every `R ≥ 1`, `k ≥ 1`, so `k = 1` and `k = 2`
are included — decodes to the Analog value of profile record `r`, column `j`, and the clip is not
active, for scan records laid out like the instrument's: `SpectrumOffset = 68 + r·ByteCount`,
`ByteCount > 0` (any value, in particular `28·k`). -/
theorem binary_pixel {α : Type} (R k bc : Nat) (scans : List ScanRec) (profile : List (List α))
    (L : Layout R k bc scans profile) (r j : Nat) (hr : r < R) (hj : j < k) :
    (∃ v, (profile[r]?).bind (fun row => row[j]?) = some v ∧
      ((decode (List.range' 1 k) scans profile)[j]?).bind (fun col => col[r]?) = some (some v)) ∧
    r * k + j ≤ R * k - 1 := by
  refine ⟨?_, clip_inactive R k r j hr hj⟩
  obtain ⟨v, hv⟩ := profile_getElem_some L r j hr hj
  refine ⟨v, hv, ?_⟩
  unfold decode
  rw [List.getElem?_map, List.getElem?_range' (by omega)]
  simp only [List.length_range', Option.map_some, Option.bind_some]
  rw [Nat.add_comm 1 (1 * j), Nat.one_mul, decodeMass_getElem L r j hr hj, hv]

/-- non-vacuity: one mass, three scans, the fixture layout (`ByteCount = 28`) -/
example : Layout 3 1 28 [⟨68, 28, 0⟩, ⟨96, 28, 0⟩, ⟨124, 28, 0⟩] [[10], [20], [30]] :=
  ⟨rfl, rfl, by decide, by decide, by decide⟩

example : decode [1] [⟨68, 28, 0⟩, ⟨96, 28, 0⟩, ⟨124, 28, 0⟩] [[(10 : Nat)], [20], [30]]
    = [[some 10, some 20, some 30]] := by decide

/-- Regression documentation of the defect repaired by 0904cc9: the old formula
`SpectrumOffset // ByteCount` on the instrument's layout (`SpectrumOffset = 68 + r·ByteCount`,
`ByteCount = 28·k`) is wrong for `k = 1`: Analog values 10, 20, 30 decode to 30, 30, 30 ... -/
theorem binary_unrepaired_k1_wrong :
    decodeMassUnrepaired 1 [⟨68, 28, 0⟩, ⟨96, 28, 0⟩, ⟨124, 28, 0⟩] [[(10 : Nat)], [20], [30]] 1
      = [some 30, some 30, some 30] := by decide

/-- ... and for `k = 2` (`ByteCount = 56`): every scan shows the next scan's values ... -/
theorem binary_unrepaired_k2_wrong :
    [1, 2].map (decodeMassUnrepaired 2 [⟨68, 56, 0⟩, ⟨124, 56, 0⟩, ⟨180, 56, 0⟩] [[(10 : Nat), 11], [20, 21], [30, 31]])
      = [[some 20, some 30, some 31], [some 21, some 31, some 31]] := by decide

/-- ... while it was right exactly when the header is smaller than one record, i.e. `k ≥ 3`. -/
theorem binary_unrepaired_ok_iff (k r : Nat) (hk : 1 ≤ k) : (68 + r * (28 * k)) / (28 * k) = r ↔ 3 ≤ k := by
  have hpos : 0 < 28 * k := by omega
  rw [Nat.add_mul_div_right _ _ hpos]
  constructor
  · intro h
    by_contra hlt
    have hk2 : k = 1 ∨ k = 2 := by omega
    rcases hk2 with rfl | rfl <;> simp at h
  · intro h
    rw [Nat.div_eq_of_lt (by omega)]; simp

/-- The whole binary import equals its specification — pixel `[line][element][scan]` is the Analog
value of that element in that scan's record of that line's data file, the lines being the collected
ones in collected order, the names those of the mass table — for every batch whose data files are
laid out as in `binary_pixel` (the same `R` and `k` for every file; any number of lines), whenever the collection mechanism returns what its specification returns (which the
collection theorems above establish reader by reader). -/
theorem stack_pixel {α : Type} (m : Meta) (files : List (DataFile α)) (ms : List MassInfo)
    (methods : List Method) (R k : Nat)
    (hids : ms.map (·.id) = List.range' 1 k)
    (hfiles : ∀ f ∈ files, f.hasBinary = true ∧ ∃ bc, Layout R k bc f.scans f.profile)
    (hlines : linesOf m false methods = linesOf m true methods) :
    loadBinary m files (some ms) methods = loadBinarySpec m files ms methods := by
  unfold loadBinary loadBinarySpec
  rw [hlines]
  cases linesOf m true methods with
  | error e => rfl
  | ok lines =>
    simp only [bind, Except.bind]
    cases hd : allSome (lines.map (findFile files)) with
    | none => rfl
    | some dfs =>
      have hmem := mem_files_of_lines files lines dfs hd
      have hbin : (dfs.all (·.hasBinary)) = true := by
        rw [List.all_eq_true]; exact fun f hf => (hfiles f (hmem f hf)).1
      have hk : ms.length = k := by
        have := congrArg List.length hids
        simpa using this
      have himg : allSome ((dfs.map (fun f => decode (ms.map (·.id)) f.scans f.profile)).map
            (fun line => allSome (line.map allSome)))
          = some (dfs.map (fun f => (List.range ms.length).map (column f.profile))) := by
        rw [List.map_map, hids, hk]
        apply allSome_map_of_forall
        intro f hf
        obtain ⟨bc, L⟩ := (hfiles f (hmem f hf)).2
        exact decode_allSome L
      have hn : (dfs.all (fun f => decide (f.scans.length = (dfs.head?.map (·.scans.length)).getD 0))) = true := by
        rw [List.all_eq_true]
        intro f hf
        obtain ⟨bc, L⟩ := (hfiles f (hmem f hf)).2
        cases dfs with
        | nil => simp at hf
        | cons f0 rest =>
          obtain ⟨bc0, L0⟩ := (hfiles f0 (hmem f0 (by simp))).2
          simp [L.nscans, L0.nscans]
      simp only [orErr, hbin, himg, hn, Bool.not_true, Bool.false_eq_true, if_false, pure, Except.pure, throw,
        throwThe, MonadExceptOf.throw]

def exMeta : Meta :=
  { listing := [⟨"10.d".toList, true⟩, ⟨"9.d".toList, true⟩, ⟨"Method".toList, true⟩],
    xml := some [⟨pass, some "b\\10.d".toList⟩, ⟨"Fail".toList, some "b\\9.d".toList⟩, ⟨pass, some "b\\9.d".toList⟩],
    csv := none, acq := none }

def exFiles : List (DataFile Nat) :=
  [{ name := "9.d".toList, hasBinary := true, scans := [⟨68, 56, 0⟩, ⟨124, 56, 1⟩], profile := [[1, 2], [3, 4]], csv := none },
   { name := "10.d".toList, hasBinary := true, scans := [⟨68, 56, 0⟩, ⟨124, 56, 1⟩], profile := [[5, 6], [7, 8]], csv := none }]

/-- non-vacuity of `stack_pixel`: two lines, two masses, a log with a failed and a repeated entry -/
example : linesOf exMeta false [.batchXml] = linesOf exMeta true [.batchXml] := by rfl
example : ∀ f ∈ exFiles, f.hasBinary = true ∧ ∃ bc, Layout 2 2 bc f.scans f.profile := by
  intro f hf
  simp only [exFiles, List.mem_cons, List.not_mem_nil, or_false] at hf
  rcases hf with rfl | rfl <;> exact ⟨rfl, 56, ⟨rfl, rfl, by decide, by decide, by decide⟩⟩

/-! ## mass table -/

/-- Element `i` of the mass table is the `i`-th `Masses` element of MSTS_XSpecific.xml, its m/z
replaced by the last MSTS_XAddition row carrying index `i` (precursor; plus `->product` for MS/MS),
whatever the document order of the XAddition rows; the table is in id order 1..k. -/
theorem massInfo_spec (xs : List XMass) (xadd : Option (Bool × List XAdd))
    (hidx : ∀ msms rows, xadd = some (msms, rows) → ∀ a ∈ rows, 1 ≤ a.index ∧ a.index ≤ xs.length) :
    massInfo xs xadd = some (massInfoSpec xs xadd) ∧
    (massInfoSpec xs xadd).map (·.id) = List.range' 1 xs.length := by
  have hid : (xspecific xs).map (·.id) = List.range' 1 xs.length := by
    unfold xspecific
    rw [List.map_map]
    apply List.ext_getElem
    · simp
    · intro i h1 h2
      simp [Nat.add_comm]
  constructor
  · cases xadd with
    | none => simp [massInfo, massInfoSpec]
    | some p =>
      obtain ⟨msms, rows⟩ := p
      have hall : rows.all (fun a => (xspecific xs).any (fun m => m.id = a.index)) = true := by
        rw [List.all_eq_true]
        intro a ha
        have := hidx msms rows rfl a ha
        rw [List.any_eq_true]
        have hmem : a.index ∈ (xspecific xs).map (·.id) := by
          rw [hid, List.mem_range']
          exact ⟨a.index - 1, by omega, by omega⟩
        obtain ⟨m, hm, e⟩ := List.mem_map.mp hmem
        exact ⟨m, hm, by simpa using e⟩
      simp only [massInfo, hall, if_true, massInfoSpec]
      rw [foldl_applyAdd]
      congr 1
      apply List.map_congr_left
      intro m hm
      have hm2 : m.mz2 = none := by
        unfold xspecific at hm
        obtain ⟨x, _, e⟩ := List.mem_map.mp hm
        rw [← e]
      cases List.find? (fun a => decide (a.index = m.id)) rows.reverse with
      | none => rfl
      | some a => simp [updMass, hm2]
  · rw [← hid]
    unfold massInfoSpec
    rw [List.map_map]
    apply List.map_congr_left
    intro m _
    simp only [Function.comp]
    cases xadd with
    | none => rfl
    | some p =>
      obtain ⟨msms, rows⟩ := p
      simp only
      cases List.find? (fun a => decide (a.index = m.id)) rows.reverse <;> rfl

example : (massInfo [⟨"P".toList, 1, 1⟩, ⟨"Eu".toList, 2, 1⟩]
      (some (true, [⟨2, 153, 153⟩, ⟨1, 31, 47⟩]))).map (fun t => t.map (·.str))
    = some ["P31->47".toList, "Eu153->153".toList] := by decide

/-- The element names `load_csv` takes from AcqMethod.xml are the names of the batch's own mass
table: whatever the document order of the `IcpmsElement` entries, if they are the mass table's
elements (`sorted` lists them in mass-table order, strictly ascending in (MZ, SelectedMZ) — the
method order) the renamed CSV columns carry the names the binary import reports.  MS/MS:
`name ++ precursor ++ "->" ++ product`; single quad: `name ++ mz`. -/
theorem acqNames_eq_massNames (msms : Bool) (tbl : List MassInfo) (es sorted : List AcqElement)
    (hperm : es.Perm sorted)
    (hsorted : sorted.Pairwise (fun a b => a.mz < b.mz ∨ (a.mz = b.mz ∧ a.selected < b.selected)))
    (hmatch : List.Forall₂ (fun (m : MassInfo) (e : AcqElement) => e.name = m.name ∧
      (if msms then m.mz2 = some e.mz ∧ m.mz = e.selected else m.mz2 = none ∧ m.mz = e.mz)) tbl sorted) :
    acqElements msms es = tbl.map (·.str) := by
  unfold acqElements
  rw [sortElements_of_perm_strict es sorted hperm hsorted]
  clear hperm hsorted
  induction hmatch with
  | nil => rfl
  | @cons m e ms es' h _ ih =>
    rw [List.map_cons, List.map_cons, ih]
    congr 1
    obtain ⟨hn, hm⟩ := h
    cases msms with
    | true =>
      simp only [if_true] at hm ⊢
      simp [MassInfo.str, hm.1, hm.2, hn]
    | false =>
      simp only [Bool.false_eq_true, if_false] at hm ⊢
      simp [MassInfo.str, hm.1, hm.2, hn]

example : acqElements true [⟨"Eu".toList, 153, 153⟩, ⟨"P".toList, 47, 31⟩]
    = ["P31->47".toList, "Eu153->153".toList] := by
  rw [acqNames_eq_massNames true
    [⟨1, "P".toList, 1, 31, some 47⟩, ⟨2, "Eu".toList, 1, 153, some 153⟩]
    _ [⟨"P".toList, 47, 31⟩, ⟨"Eu".toList, 153, 153⟩] (List.Perm.swap _ _ _) (by decide)
    (by repeat constructor)]
  decide

/-! ## CSV import -/

/-- `csv_valid_lines` yields exactly the header line and the data lines: preamble lines that do not
start with `Time`, a header that does, data lines with the header's comma count, footer lines with
a different comma count that do not start with `Time`. -/
theorem validLines_spec (pre data foot : List Name) (header : Name)
    (hpre : ∀ l ∈ pre, startsWithTime l = false) (hh : startsWithTime header = true)
    (hdata : ∀ l ∈ data, countCommas l = countCommas header)
    (hfoot : ∀ l ∈ foot, countCommas l ≠ countCommas header ∧ startsWithTime l = false) :
    validLines false 0 (pre ++ header :: (data ++ foot)) = header :: data := by
  rw [validLines_pre pre _ hpre, validLines]
  simp only [Bool.false_and, Bool.false_eq_true, if_false, hh, if_true]
  rw [validLines_past _ data foot hdata hfoot]

example : validLines false 0 ["D:\\x\\1.d".toList, "Intensity Vs Time,CPS".toList, "Time [Sec],P31".toList,
    "0.5,1.25".toList, "1.0,2.50".toList, "".toList, "   Printed: now".toList]
    = ["Time [Sec],P31".toList, "0.5,1.25".toList, "1.0,2.50".toList] := by decide

/-- Reading one per-line CSV export: for every well-formed file (any preamble and footer that the
line filter rejects, header and data fields free of commas, every data row as wide as the header,
plain decimal fields, CR or no CR before the newline) the table delivered to `load_csv` has the
header's names and, at row `scan`, column `col`, exactly the decimal value printed in field `col`
of data row `scan` — no row or column is shifted, dropped or duplicated. -/
theorem readCsv_spec (c : CsvFile) (W : CsvWF c) :
    readCsv c.lines = some { names := c.header.map validName, rows := c.rows.map (fun r => r.filterMap parseDec) } := by
  have hlines : c.lines = c.pre.map (· ++ c.eol) ++ (joinFields c.header ++ c.eol) ::
      ((c.rows.map (fun r => joinFields r ++ c.eol)) ++ c.foot.map (· ++ c.eol)) := by
    simp [CsvFile.lines, List.map_append, List.map_map, Function.comp_def]
  have hv := validLines_spec (c.pre.map (· ++ c.eol)) (c.rows.map (fun r => joinFields r ++ c.eol))
    (c.foot.map (· ++ c.eol)) (joinFields c.header ++ c.eol)
    (by intro l hl; obtain ⟨x, hx, rfl⟩ := List.mem_map.mp hl; exact W.pre x hx)
    W.head
    (by
      intro l hl
      obtain ⟨r, hr, rfl⟩ := List.mem_map.mp hl
      rw [count_line W r (by simp [hr]), count_line W c.header (by simp)])
    (by
      intro l hl
      obtain ⟨x, hx, rfl⟩ := List.mem_map.mp hl
      rw [count_line W c.header (by simp)]
      exact W.foot x hx)
  unfold readCsv
  rw [hlines, hv]
  simp only
  rw [fields_line W c.header (by simp)]
  have hfilter : (c.rows.map (fun r => joinFields r ++ c.eol)).filter
      (fun l => !(stripChars (fun ch => ch = ' ' || ch = '\r' || ch = '\n') l).isEmpty)
      = c.rows.map (fun r => joinFields r ++ c.eol) := by
    apply List.filter_eq_self.mpr
    intro l hl
    obtain ⟨r, hr, rfl⟩ := List.mem_map.mp hl
    rw [strip_line W r (by simp [hr])]
    obtain ⟨hne, _, _⟩ := W.ends r (by simp [hr])
    cases hj : joinFields r with
    | nil => exact absurd hj hne
    | cons a as => rfl
  rw [hfilter, List.map_map]
  have hrows : allSome (c.rows.map ((fun l => allSome ((fields l).map parseDec)) ∘ (fun r => joinFields r ++ c.eol)))
      = some (c.rows.map (fun r => r.filterMap parseDec)) := by
    apply allSome_map_of_forall
    intro r hr
    simp only [Function.comp]
    rw [fields_line W r (by simp [hr])]
    exact (allSome_parse r (W.parse r hr)).1
  rw [hrows]
  simp only
  have hall : ((c.rows.map (fun r => r.filterMap parseDec)).all
      (fun r => decide (r.length = (c.header.map validName).length))) = true := by
    rw [List.all_eq_true]
    intro x hx
    obtain ⟨r, hr, rfl⟩ := List.mem_map.mp hx
    simp [(allSome_parse r (W.parse r hr)).2, W.width r hr]
  rw [hall]
  rfl

def exCsv : CsvFile :=
  { pre := ["D:\\b\\1.d".toList, "Intensity Vs Time,CPS".toList], header := ["Time [Sec]".toList, "P31".toList],
    rows := [["0.5253".toList, "38993.68".toList], ["1.0253".toList, "0.00".toList]],
    foot := ["".toList, "   Printed:now".toList], eol := ['\r'] }

/-- non-vacuity of `readCsv_spec`: one mass (the preamble line `Intensity Vs Time,CPS` has the
header's comma count), CRLF line ends, blank and text footer -/
theorem exCsv_wf : CsvWF exCsv :=
  ⟨by decide, by decide, by decide, by decide, by decide, by decide, by decide, by decide, by
    intro r hr f hf
    simp only [exCsv, List.mem_cons, List.not_mem_nil, or_false] at hr
    rcases hr with rfl | rfl <;> simp only [List.mem_cons, List.not_mem_nil, or_false] at hf <;>
      rcases hf with rfl | rfl <;> exact ⟨_, rfl⟩⟩

/-- The whole CSV import equals its specification: pixel `[line][element][scan]` is the decimal
value printed in field `element + 1` of data row `scan` of that line's export, a line without
export is all zeros, lines are the collected ones in collected order, and the columns are named by
the header (or, when the method file supplies names for every element, by those) — for every batch
whose exports are well-formed and of one shape (`ncol` columns, `nscan ≥ 2` rows, first column
`Time [Sec]`), any number of lines and any subset of them missing. -/
theorem csv_pixel {α : Type} (m : Meta) (files : List (DataFile α)) (names : Option (List Name))
    (methods : List Method) (ncol nscan : Nat) (hscan : 2 ≤ nscan)
    (hfiles : ∀ f ∈ files, ∀ c, f.csv = some c →
      CsvWF c ∧ c.header.length = ncol ∧ c.rows.length = nscan ∧ (c.header.head?).map validName = some timeName)
    (hnames : ∀ ns, names = some ns → ns.length = ncol - 1)
    (hlines : linesOf m false methods = linesOf m true methods) :
    loadCsv m files names methods = loadCsvSpec m files names methods := by
  unfold loadCsv loadCsvSpec
  rw [hlines]
  cases linesOf m true methods with
  | error e => rfl
  | ok lines =>
    simp only
    cases hd : allSome (lines.map (findFile files)) with
    | none => rfl
    | some dfs =>
      have hmem := mem_files_of_lines files lines dfs hd
      simp only
      have htabs : allSome (dfs.map (fun f => readLine f.csv)) = some (dfs.map (fun f => f.csv.map tableOf)) := by
        apply allSome_map_of_forall
        intro f hf
        cases hc : f.csv with
        | none => rfl
        | some c =>
          simp only [readLine, Option.map_some]
          rw [readCsv_spec c (hfiles f (hmem f hf) c hc).1]
          rfl
      rw [htabs]
      simp only
      have hfm := filterMap_id_map_option dfs (·.csv) tableOf
      rw [hfm]
      cases hcs : dfs.filterMap (·.csv) with
      | nil => rfl
      | cons c0 rest =>
        have hc0 : ∃ f ∈ dfs, f.csv = some c0 := by
          have : c0 ∈ dfs.filterMap (·.csv) := by rw [hcs]; simp
          obtain ⟨f, hf, e⟩ := List.mem_filterMap.mp this
          exact ⟨f, hf, e⟩
        obtain ⟨f0, hf0, e0⟩ := hc0
        obtain ⟨W0, hcol0, hrow0, htime0⟩ := hfiles f0 (hmem f0 hf0) c0 e0
        simp only [List.map_cons, tableOf, List.length_map, hrow0, hcol0]
        rw [if_neg (by omega)]
        have hshape : ((dfs.map (fun f => f.csv.map tableOf)).all (shapeOk nscan ncol)) = true := by
          rw [List.all_eq_true]
          intro t ht
          obtain ⟨f, hf, rfl⟩ := List.mem_map.mp ht
          cases hc : f.csv with
          | none => rfl
          | some c =>
            obtain ⟨_, h1, h2, _⟩ := hfiles f (hmem f hf) c hc
            simp [shapeOk, tableOf, h1, h2]
        rw [hshape]
        simp only [Bool.not_true, Bool.false_eq_true, if_false]
        have hcols : allSome (dfs.map (fun f => csvLineSpec ncol nscan f.csv))
            = some (dfs.map (fun f => csvCols ncol nscan (f.csv.map tableOf))) := by
          apply allSome_map_of_forall
          intro f hf
          cases hc : f.csv with
          | none => rfl
          | some c =>
            obtain ⟨W, h1, h2, _⟩ := hfiles f (hmem f hf) c hc
            exact csvCols_eq_spec ncol nscan c W.parse (fun r hr => by rw [W.width r hr, h1]) h2
        rw [hcols, List.map_map]
        -- names
        cases hh : c0.header with
        | nil => rw [hh] at htime0; simp at htime0
        | cons t0 rest0 =>
          rw [hh] at htime0 hcol0
          simp only [List.head?_cons, Option.map_some, Option.some.injEq] at htime0
          cases names with
          | none =>
            simp [csvNames?, htime0]
          | some ns =>
            have hl := hnames ns rfl
            have : ns.length = (rest0.map validName).length := by
              rw [List.length_map]; simp only [List.length_cons] at hcol0; omega
            simp [csvNames?, renameFields_full _ _ _ this, htime0]

def exCsvFiles : List (DataFile Nat) :=
  [{ name := "9.d".toList, hasBinary := false, scans := [], profile := [], csv := some exCsv },
   { name := "10.d".toList, hasBinary := false, scans := [], profile := [], csv := none }]

/-- non-vacuity of `csv_pixel`: two lines, the second without export -/
example : ∀ f ∈ exCsvFiles, ∀ c, f.csv = some c →
    CsvWF c ∧ c.header.length = 2 ∧ c.rows.length = 2 ∧ (c.header.head?).map validName = some timeName := by
  intro f hf c hc
  simp only [exCsvFiles, List.mem_cons, List.not_mem_nil, or_false] at hf
  rcases hf with rfl | rfl
  · simp only [Option.some.injEq] at hc
    subst hc
    exact ⟨exCsv_wf, rfl, rfl, by decide⟩
  · simp at hc

theorem allSome_getElem? {β : Type} (l : List (Option β)) (r : List β) (h : allSome l = some r) (i : Nat) :
    l[i]? = (r[i]?).map some := by
  rw [allSome_eq_some l r h, List.getElem?_map]

/-- The CSV import, pixel by pixel, without `loadCsvSpec`: when `load_csv` returns an image, its
lines are the collected lines and, with `f` the data file of line `i`: if `f` has no export the
whole line (time column included) is 0; otherwise pixel `[i][j][r]` is the decimal printed in field
`j+1` of data row `r` of `f`'s export and the time is field 0.  Hypotheses as for `csv_pixel`. -/
theorem csv_import_pointwise {α : Type} (m : Meta) (files : List (DataFile α)) (names : Option (List Name))
    (methods : List Method) (ncol nscan : Nat) (hscan : 2 ≤ nscan)
    (hfiles : ∀ f ∈ files, ∀ c, f.csv = some c →
      CsvWF c ∧ c.header.length = ncol ∧ c.rows.length = nscan ∧ (c.header.head?).map validName = some timeName)
    (hnames : ∀ ns, names = some ns → ns.length = ncol - 1)
    (hlines : linesOf m false methods = linesOf m true methods)
    (im : Image Rat) (h : loadCsv m files names methods = .ok im) :
    ∃ lines, linesOf m true methods = .ok lines ∧ im.img.length = lines.length ∧ im.times.length = lines.length ∧
      ∀ (i : Nat) (hi : i < lines.length), ∃ f, findFile files lines[i] = some f ∧
        (f.csv = none → im.times[i]? = some (List.replicate nscan 0) ∧
          ∀ j r, j + 1 < ncol → r < nscan → px im.img i j r = some 0) ∧
        (∀ c, f.csv = some c → ∀ r, r < nscan →
          (im.times[i]?).bind (·[r]?) = ((c.rows[r]?).bind (·[0]?)).bind parseDec ∧
          ∀ j, j + 1 < ncol → px im.img i j r = ((c.rows[r]?).bind (·[j + 1]?)).bind parseDec) := by
  rw [csv_pixel m files names methods ncol nscan hscan hfiles hnames hlines] at h
  unfold loadCsvSpec at h
  cases hl : linesOf m true methods with
  | error e => rw [hl] at h; simp at h
  | ok lines =>
    rw [hl] at h
    simp only at h
    cases hd : allSome (lines.map (findFile files)) with
    | none => rw [hd] at h; simp at h
    | some dfs =>
      rw [hd] at h
      simp only at h
      have hmem := mem_files_of_lines files lines dfs hd
      cases hcs : dfs.filterMap (·.csv) with
      | nil => rw [hcs] at h; simp at h
      | cons c0 rest =>
        rw [hcs] at h
        simp only at h
        obtain ⟨f0, hf0, e0⟩ : ∃ f ∈ dfs, f.csv = some c0 := by
          have : c0 ∈ dfs.filterMap (·.csv) := by rw [hcs]; simp
          obtain ⟨f, hf, e⟩ := List.mem_filterMap.mp this
          exact ⟨f, hf, e⟩
        obtain ⟨W0, hcol0, hrow0, _⟩ := hfiles f0 (hmem f0 hf0) c0 e0
        have hncol : 0 < ncol := by
          rw [← hcol0]
          exact List.length_pos_iff.mpr W0.header_ne
        rw [hcol0, hrow0] at h
        cases hc : allSome (dfs.map (fun f => csvLineSpec ncol nscan f.csv)) with
        | none => rw [hc] at h; simp at h
        | some cols =>
          rw [hc] at h
          simp only [Except.ok.injEq] at h
          subst h
          have e := allSome_eq_some _ _ hd
          have hlen : dfs.length = lines.length := by
            have := congrArg List.length e
            simpa using this.symm
          have hclen : cols.length = dfs.length := by
            have := congrArg List.length (allSome_eq_some _ _ hc)
            simpa using this.symm
          refine ⟨lines, rfl, by simp [hclen, hlen], by simp [hclen, hlen], ?_⟩
          intro i hi
          have hi' : i < dfs.length := by omega
          have hi'' : i < cols.length := by omega
          have hline : csvLineSpec ncol nscan dfs[i].csv = some cols[i] := by
            have := allSome_getElem? _ _ hc i
            simpa [hi', hi''] using this
          refine ⟨dfs[i], ?_, ?_, ?_⟩
          · have := congrArg (fun l => l[i]?) e
            simpa [hi, hi'] using this
          · intro hnone
            rw [hnone] at hline
            simp only [csvLineSpec, Option.some.injEq] at hline
            constructor
            · simp only [List.getElem?_map, List.getElem?_eq_getElem hi'', Option.map_some, ← hline]
              cases ncol with
              | zero => exact absurd hncol (by omega)
              | succ n => simp [List.replicate_succ]
            · intro j r hj hr
              unfold px
              simp only [List.getElem?_map, List.getElem?_eq_getElem hi'', Option.map_some, Option.bind_some,
                ← hline, List.getElem?_drop]
              rw [List.getElem?_replicate, if_pos (by omega)]
              simp [hr]
          · intro c hsome r hr
            obtain ⟨_, hcol, hrow, _⟩ := hfiles dfs[i] (hmem _ (List.getElem_mem hi')) c hsome
            rw [hsome] at hline
            simp only [csvLineSpec] at hline
            have hr' : r < c.rows.length := by omega
            -- column `jj` of the line
            have hcolumn : ∀ jj, jj < ncol → ∃ col, cols[i][jj]? = some col ∧
                col[r]? = some (((c.rows[r]?).bind (·[jj]?)).bind parseDec).get! ∧
                (((c.rows[r]?).bind (·[jj]?)).bind parseDec).isSome = true := by
              intro jj hjj
              have h1 := allSome_getElem? _ _ hline jj
              simp only [List.getElem?_map, List.getElem?_range hjj, Option.map_some] at h1
              cases hcj : cols[i][jj]? with
              | none => rw [hcj] at h1; simp at h1
              | some col =>
                rw [hcj] at h1
                simp only [Option.map_some, Option.some.injEq] at h1
                have h2 := allSome_getElem? _ _ h1 r
                simp only [List.getElem?_map, List.getElem?_eq_getElem hr', Option.map_some] at h2
                cases hcr : col[r]? with
                | none => rw [hcr] at h2; simp at h2
                | some v =>
                  rw [hcr] at h2
                  simp only [Option.map_some, Option.some.injEq] at h2
                  refine ⟨col, rfl, ?_, ?_⟩
                  · simp [List.getElem?_eq_getElem hr', h2, hcr]
                  · simp [List.getElem?_eq_getElem hr', h2]
            constructor
            · obtain ⟨col, g1, g2, g3⟩ := hcolumn 0 hncol
              have hhead : cols[i].headD [] = col := by
                cases hci : cols[i] with
                | nil => rw [hci] at g1; simp at g1
                | cons a as => rw [hci] at g1; simpa using g1
              simp only [List.getElem?_map, List.getElem?_eq_getElem hi'', Option.map_some, Option.bind_some, hhead, g2]
              exact (Option.some_get! _ g3)
            · intro j hj
              obtain ⟨col, g1, g2, g3⟩ := hcolumn (j + 1) hj
              unfold px
              simp only [List.getElem?_map, List.getElem?_eq_getElem hi'', Option.map_some, Option.bind_some,
                List.getElem?_drop, Nat.add_comm 1 j, g1, g2]
              exact (Option.some_get! _ g3)

/-- non-vacuity of `csv_import_pointwise` (with `exMeta`, `exCsvFiles` above: lines 10.d — no export — and 9.d): the import succeeds -/
example : ∃ im, loadCsv exMeta exCsvFiles none [.batchXml] = .ok im := ⟨_, rfl⟩

/-- A line whose CSV is missing is zero-filled: every column (the time column included) of every
scan is 0; a line whose CSV is present (with the image's number of scans) holds, at `[column][scan]`,
field `column` of data row `scan`. -/
theorem zero_fill (ncol nscan j r : Nat) (hj : j < ncol) :
    (r < nscan → ((csvCols ncol nscan none)[j]?).bind (fun col => col[r]?) = some 0) ∧
    (∀ t : Table, (∀ row ∈ t.rows, row.length = ncol) → t.rows.length = nscan → r < nscan →
      ((csvCols ncol nscan (some t))[j]?).bind (fun col => col[r]?) = (t.rows[r]?).bind (fun row => row[j]?)) := by
  constructor
  · intro hr
    simp [csvCols, hj, hr]
  · intro t hrows hn hr
    subst hn
    have hlen : j < (t.rows[r]).length := by rw [hrows _ (List.getElem_mem hr)]; exact hj
    simp [csvCols, csvRows, transpose, hj, hr, List.getD, hlen]

/-- What NumPy does with exports of unequal length (outside the property's quantifier, compared
mechanism-vs-pewlib only): an export with a single data row is read as a 0-d record and BROADCAST
over all scans of the image. -/
theorem single_row_broadcast (ncol nscan j r : Nat) (hj : j < ncol) (hr : r < nscan) (hn : nscan ≠ 1)
    (t : Table) (row : List Rat) (ht : t.rows = [row]) (hrow : row.length = ncol) :
    ((csvCols ncol nscan (some t))[j]?).bind (fun col => col[r]?) = row[j]? := by
  have hlen : j < row.length := by omega
  have hne : ¬ (1 = nscan) := fun h => hn h.symm
  simp [csvCols, csvRows, ht, transpose, hj, hr, hne, List.getD, hlen]

example : ((csvCols 2 3 (some ⟨[], [[5, 6]]⟩))[1]?).bind (fun col => col[2]?) = some 6 :=
  single_row_broadcast 2 3 1 2 (by decide) (by decide) (by decide) ⟨[], [[5, 6]]⟩ [5, 6] rfl rfl

/-- The reported scan time: the mean of all consecutive differences of a `rows × m` table of times
is the sum over the rows of (last − first), divided by `rows·(m − 1)`. -/
theorem meandiff_telescope (times : List (List Rat)) (m : Nat) (hm : 2 ≤ m)
    (hrows : ∀ row ∈ times, row.length = m) :
    meanDiff times = meanDiffSpec times m := by
  unfold meanDiff meanDiffSpec
  have hlen : ((times.map diffs).flatten).length = times.length * (m - 1) := by
    have := length_flatten_const (times.map diffs) (m - 1) (by
      intro l hl
      obtain ⟨row, hr, e⟩ := List.mem_map.mp hl
      rw [← e, length_diffs, hrows row hr])
    simpa using this
  have hsum : ((times.map diffs).flatten).sum = (times.map (fun row => row.getLastD 0 - row.headD 0)).sum := by
    rw [sum_flatten_rat, List.map_map]
    congr 1
    apply List.map_congr_left
    intro row hr
    have := hrows row hr
    cases row with
    | nil => simp at this; omega
    | cons a l => simp only [Function.comp, sum_diffs, List.headD_cons]
  simp only [hlen, hsum]

example : meanDiff [[1, 3, 4], [0, 1, 5]] = 2 := by
  simp [meanDiff, diffs]; norm_num

/-! ## pointwise statements (no reference to the `…Spec` functions) -/

/-- the Boolean the driver reports implies the layout hypothesis of `binary_pixel`/`stack_pixel` -/
theorem layoutB_sound {α : Type} (k : Nat) (scans : List ScanRec) (profile : List (List α))
    (h : layoutB k scans profile = true) : ∃ bc, Layout scans.length k bc scans profile := by
  unfold layoutB at h
  simp only [Bool.and_eq_true, beq_iff_eq, List.all_eq_true, decide_eq_true_eq] at h
  obtain ⟨⟨⟨h1, h2⟩, h3⟩, h4⟩ := h
  refine ⟨(scans.head?.map (·.bc)).getD 0, ⟨h1, rfl, h2, ?_, h3⟩⟩
  intro r hr
  have := h4 (scans[r], r) (by rw [List.mem_zipIdx_iff_getElem?]; simp [hr])
  simpa using this

example : layoutB 2 [⟨68, 56, 0⟩, ⟨124, 56, 1⟩] [[(1 : Nat), 2], [3, 4]] = true := by decide
example : layoutB 2 [⟨68, 56, 0⟩, ⟨12, 56, 1⟩] [[(1 : Nat), 2], [3, 4]] = false := by decide

/-- The binary import, pixel by pixel, without `loadBinarySpec`: when `load_binary` returns an
image, its lines are the collected lines (`lines`, which `collect_spec`/`collect_eq_spec`
characterise), element names are those of the mass table, and for every line `i`, with `f` the data
file of that name, pixel `[i][j][r]` is the Analog value of element `j` in profile record `r` of
`f` and the times are `f`'s scan times in seconds.  Hypotheses as for `stack_pixel`. -/
theorem binary_import_pointwise {α : Type} (m : Meta) (files : List (DataFile α)) (ms : List MassInfo)
    (methods : List Method) (R k : Nat)
    (hids : ms.map (·.id) = List.range' 1 k)
    (hfiles : ∀ f ∈ files, f.hasBinary = true ∧ ∃ bc, Layout R k bc f.scans f.profile)
    (hlines : linesOf m false methods = linesOf m true methods)
    (im : Image α) (h : loadBinary m files (some ms) methods = .ok im) :
    ∃ lines, linesOf m true methods = .ok lines ∧ im.names = ms.map (·.str) ∧
      im.img.length = lines.length ∧ im.times.length = lines.length ∧
      ∀ (i : Nat) (hi : i < lines.length), ∃ f, findFile files lines[i] = some f ∧
        im.times[i]? = some (f.scans.map (fun s => s.time * 60)) ∧
        ∀ j r, j < k → r < R → px im.img i j r = (f.profile[r]?).bind (fun row => row[j]?) := by
  rw [stack_pixel m files ms methods R k hids hfiles hlines] at h
  unfold loadBinarySpec at h
  cases hl : linesOf m true methods with
  | error e => rw [hl] at h; simp [bind, Except.bind] at h
  | ok lines =>
    rw [hl] at h
    simp only [bind, Except.bind] at h
    cases hd : allSome (lines.map (findFile files)) with
    | none => rw [hd] at h; simp [orErr] at h
    | some dfs =>
      rw [hd] at h
      have hmem := mem_files_of_lines files lines dfs hd
      have hbin : (dfs.all (·.hasBinary)) = true := by
        rw [List.all_eq_true]; exact fun f hf => (hfiles f (hmem f hf)).1
      simp only [orErr, hbin, Bool.not_true, Bool.false_eq_true, if_false, pure, Except.pure, Except.ok.injEq] at h
      subst h
      have e := allSome_eq_some _ _ hd
      have hlen : dfs.length = lines.length := by
        have := congrArg List.length e
        simpa using this.symm
      have hk : ms.length = k := by
        have := congrArg List.length hids
        simpa using this
      refine ⟨lines, rfl, rfl, by simp [hlen], by simp [hlen], ?_⟩
      intro i hi
      have hi' : i < dfs.length := by omega
      refine ⟨dfs[i], ?_, by simp [hi'], ?_⟩
      · have := congrArg (fun l => l[i]?) e
        simpa [hi, hi'] using this
      · intro j r hj hr
        obtain ⟨bc, L⟩ := (hfiles dfs[i] (hmem _ (List.getElem_mem hi'))).2
        have hcol : ∀ row ∈ dfs[i].profile, ∃ v, row[j]? = some v := by
          intro row hrow
          have := L.width row hrow
          exact ⟨row[j], by rw [List.getElem?_eq_getElem]⟩
        unfold px
        simp [hi', hk, hj, column_getElem _ j hcol r]

/-- non-vacuity of `binary_import_pointwise` (with `exMeta`, `exFiles` above): the import succeeds -/
example : ∃ im, loadBinary exMeta exFiles (some [⟨1, "P".toList, 1, 31, none⟩, ⟨2, "Eu".toList, 1, 153, none⟩]) [.batchXml]
    = .ok im := ⟨_, rfl⟩

/-- counts per second, pixel by pixel: every value of element `j` is divided by the accumulation
time of the `j`-th mass; names and times are untouched.  No hypothesis beyond `j` being a mass. -/
theorem cps_pixel (masses : List MassInfo) (im : Image Rat) (i j r : Nat) (ms : MassInfo)
    (hm : masses[j]? = some ms) :
    px (cps masses im).img i j r = (px im.img i j r).map (· / ms.acctime) ∧
    (cps masses im).img.length = im.img.length ∧
    (cps masses im).names = im.names ∧ (cps masses im).times = im.times := by
  refine ⟨?_, by simp [cps], rfl, rfl⟩
  unfold px cps
  simp only [List.getElem?_map]
  cases im.img[i]? with
  | none => rfl
  | some line =>
    simp only [Option.map_some, Option.bind_some, List.getElem?_map]
    have hz : (line.zip masses)[j]? = (line[j]?).map (fun c => (c, ms)) := by
      unfold List.zip
      rw [List.getElem?_zipWith, hm]
      cases line[j]? <;> rfl
    rw [hz]
    cases line[j]? with
    | none => rfl
    | some col => simp

example : px (cps [⟨1, "P".toList, 1/2, 31, none⟩, ⟨2, "Eu".toList, 1/4, 153, none⟩]
    ⟨[], [[[1, 2], [3, 4]]], []⟩).img 0 1 0 = some 12 := by
  rw [(cps_pixel _ _ 0 1 0 ⟨2, "Eu".toList, 1/4, 153, none⟩ rfl).1]
  simp [px]; norm_num

/-! ## binary-vs-CSV agreement to the printed precision -/

/-- what `agree` decides: the present lines have the same shape in both images and every pixel of
a present line satisfies `|x − y| ≤ tol + slack·(|x| + |y|)` -/
theorem agree_iff (tol slack : Rat) (present : List Bool) (bin csv : Image Rat) :
    agree tol slack present bin csv = true ↔
      SameShape present bin.img csv.img ∧
      ∀ (i j r : Nat) x y, present[i]? = some true → px bin.img i j r = some x → px csv.img i j r = some y →
        |x - y| ≤ tol + slack * (|x| + |y|) := by
  rw [agree_iff']
  simp only [agreePx_iff]

/-- "The binary import and the import of the per-line CSV exports agree to the precision of the CSV
text": if every number `y` in a present line's CSV is a value `v` rounded to `d` decimals
(`|y − v| ≤ ½·10⁻ᵈ`: the hypothesis on the printer, met e.g. by `roundDec`), `v` being the binary
import's value `x` up to one correctly rounded float64 operation (`|v − x| ≤ 2⁻⁵³|x|`: the
counts-per-second division of the exporting software), then the two images `agree` to half a unit
of the `d`-th decimal, with the slack `printSlack`.  Any shape, any subset of lines present. -/
theorem agree_of_printed (d : Nat) (present : List Bool) (bin csv : Image Rat)
    (hshape : SameShape present bin.img csv.img)
    (hprint : ∀ (i j r : Nat) x y, present[i]? = some true → px bin.img i j r = some x →
      px csv.img i j r = some y → ∃ v, |v - x| ≤ 1 / 2 ^ 53 * |x| ∧ |y - v| ≤ halfUnit d) :
    agree (halfUnit d) printSlack present bin csv = true := by
  rw [agree_iff]
  refine ⟨hshape, ?_⟩
  intro i j r x y hp hx hy
  obtain ⟨v, h1, h2⟩ := hprint i j r x y hp hx hy
  have e : x - y = -(v - x) + -(y - v) := by ring
  have t : |x - y| ≤ |v - x| + |y - v| := by
    rw [e]
    exact (abs_add_le _ _).trans (by rw [abs_neg, abs_neg])
  have px := abs_nonneg x
  have py := abs_nonneg y
  unfold printSlack
  norm_num at h1 ⊢
  linarith

/-- a printer meeting the hypothesis exists: round-half-up to `d` decimals -/
theorem roundDec_within (d : Nat) (q : Rat) : |roundDec d q - q| ≤ halfUnit d := roundDec_spec d q

/-- non-vacuity of `agree_of_printed`: any value printed with two decimals, a second line whose CSV
is missing (zero-filled) -/
example (x : Rat) : agree (halfUnit 2) printSlack [true, false] ⟨[], [[[x]], [[7]]], []⟩
    ⟨[], [[[roundDec 2 x]], [[0]]], []⟩ = true := by
  apply agree_of_printed
  · refine ⟨rfl, rfl, ?_⟩
    intro i la lb hp ha hb
    match i with
    | 0 =>
      simp only [List.getElem?_cons_zero, Option.some.injEq] at ha hb
      subst ha hb
      refine ⟨rfl, ?_⟩
      intro j ca cb hca hcb
      match j with
      | 0 =>
        simp only [List.getElem?_cons_zero, Option.some.injEq] at hca hcb
        subst hca hcb
        rfl
      | j + 1 => simp at hca
    | 1 => simp at hp
    | i + 2 => simp at hp
  · intro i j r a b hp ha hb
    match i with
    | 0 =>
      obtain ⟨la, ca, h1, h2, h3⟩ := (px_eq_some _ _ _ _ _).mp ha
      obtain ⟨lb, cb, g1, g2, g3⟩ := (px_eq_some _ _ _ _ _).mp hb
      simp only [List.getElem?_cons_zero, Option.some.injEq] at h1 g1
      subst h1 g1
      match j with
      | 0 =>
        simp only [List.getElem?_cons_zero, Option.some.injEq] at h2 g2
        subst h2 g2
        match r with
        | 0 =>
          simp only [List.getElem?_cons_zero, Option.some.injEq] at h3 g3
          subst h3 g3
          exact ⟨x, by simp, roundDec_within 2 x⟩
        | r + 1 => simp at h3
      | j + 1 => simp at h2
    | 1 => simp at hp
    | i + 2 => simp at hp

/-- From the exact values to the two float64 imports: if the exact images (`sb`: recorded counts
per second, `sc`: the decimals in the CSV text) agree with `printSlack`, then any two images whose
pixels are within `2⁻⁵³` (relative) of them — what correctly rounded float64 division and
decimal-to-binary conversion deliver — agree with `agreeSlack`.  This is the verdict the
correspondence check demands of pewlib's two real imports. -/
theorem agree_transfer (tol : Rat) (present : List Bool) (sb sc ib ic : Image Rat)
    (hb : Near (1 / 2 ^ 53) sb.img ib.img) (hc : Near (1 / 2 ^ 53) sc.img ic.img)
    (h : agree tol printSlack present sb sc = true) :
    agree tol agreeSlack present ib ic = true := by
  rw [agree_iff] at h ⊢
  refine ⟨sameShape_near _ present _ _ _ _ hb hc h.1, ?_⟩
  intro i j r x' y' hp hx' hy'
  obtain ⟨x, hx, hxn⟩ := near_px _ _ _ hb i j r x' hx'
  obtain ⟨y, hy, hyn⟩ := near_px _ _ _ hc i j r y' hy'
  exact agreePx_transfer tol x y x' y' hxn hyn (h.2 i j r x y hp hx hy)

/-- non-vacuity of `agree_transfer`: the exact images themselves are within any relative distance -/
example (sb sc : Image Rat) (present : List Bool) (h : agree (halfUnit 2) printSlack present sb sc = true) :
    agree (halfUnit 2) agreeSlack present sb sc = true :=
  agree_transfer _ present sb sc sb sc (near_refl _ (by norm_num) _) (near_refl _ (by norm_num) _) h

/-! ## the entry points with their options (`collection_methods`, `counts_per_second`, `use_acq_for_names`, `full`) -/

/-- `load_binary` called with any option tuple (each option given or omitted) returns the stacked
image, divided when counts per second are asked for, in the return shape `full` asks for: the order
in which the code reads the params and divides does not matter (`hdiv`: the division leaves the
times alone, as `cps` does), and `full` only adds the params.  Any batch. -/
theorem loadBinaryCall_eq {α : Type} (m : Meta) (files : List (DataFile α)) (ms : List MassInfo)
    (divide : List MassInfo → Image α → Image α) (o : CallOpts)
    (hdiv : ∀ t im, (divide t im).times = im.times) :
    loadBinaryCall m files (some ms) divide o
      = (loadBinary m files (some ms) o.methodsV).map
          (fun im => retOf binTimeName o.drop o.fullV (if o.cpsV then divide ms im else im)) := by
  unfold loadBinaryCall retOf
  cases loadBinary m files (some ms) o.methodsV with
  | error e => rfl
  | ok im =>
    cases hf : o.fullV <;> cases hc : o.cpsV <;>
      simp [Except.map, bind, Except.bind, pure, Except.pure, hdiv]

/-- `load_csv` called with any option tuple: the CSV import with the names the options select, in
the return shape `full` asks for. -/
theorem loadCsvCall_eq {α : Type} (m : Meta) (files : List (DataFile α)) (acq : Option (List Name)) (o : CallOpts) :
    loadCsvCall m files acq o
      = (loadCsv m files (if o.useAcqV then acq else none) o.methodsV).map (retOf timeName o.drop o.fullV) := by
  unfold loadCsvCall retOf
  cases loadCsv m files (if o.useAcqV then acq else none) o.methodsV with
  | error e => rfl
  | ok im => cases hf : o.fullV <;> simp [Except.map, bind, Except.bind, pure, Except.pure]

/-- The image does not depend on `full`: whatever `full` is changed to (given `true`/`false` or
omitted), `load_binary` and `load_csv` return the same names and pixels (or raise alike), for every
batch and every setting of the other options (counts per second included). -/
theorem call_image_indep_of_full {α : Type} (m : Meta) (files : List (DataFile α)) (masses : Option (List MassInfo))
    (divide : List MassInfo → Image α → Image α) (acq : Option (List Name)) (o : CallOpts) (f : Option Bool) :
    (loadBinaryCall m files masses divide { o with full := f }).map Returned.image
        = (loadBinaryCall m files masses divide o).map Returned.image ∧
    (loadCsvCall m files acq { o with full := f }).map Returned.image
        = (loadCsvCall m files acq o).map Returned.image := by
  rw [loadBinaryCall_image, loadBinaryCall_image, loadCsvCall_image, loadCsvCall_image]
  exact ⟨rfl, rfl⟩

/-- the same for `load` (binary import, CSV import when that raises) -/
theorem load_image_indep_of_full (m : Meta) (files : List (DataFile Rat)) (masses : Option (List MassInfo))
    (divide : List MassInfo → Image Rat → Image Rat) (acq : Option (List Name)) (o : CallOpts) (f : Option Bool) :
    (load (loadBinaryCall m files masses divide { o with full := f }) (loadCsvCall m files acq { o with full := f })).map
        Returned.image
      = (load (loadBinaryCall m files masses divide o) (loadCsvCall m files acq o)).map Returned.image := by
  rw [load_map, load_map, (call_image_indep_of_full m files masses divide acq o f).1,
    (call_image_indep_of_full m files masses divide acq o f).2]

/-- Counts per second with any `full`: when `load_binary(..., counts_per_second=True, full=...)`
returns, every pixel of element `j` is the stacked value divided by the accumulation time of the
`j`-th mass, the names are those of the mass table, and the params are the times exactly when `full`
(`drop_names` omitted; `call_drop_cps_pixel` below is the statement for a given `drop_names`). -/
theorem call_cps_pixel (m : Meta) (files : List (DataFile Rat)) (ms : List MassInfo) (o : CallOpts) (r : Returned Rat)
    (h : loadBinaryCall m files (some ms) cps o = .ok r) (hc : o.cpsV = true) (hd : o.drop = none) :
    ∃ im, loadBinary m files (some ms) o.methodsV = .ok im ∧ r.names = im.names ∧
      r.params = (if o.fullV then some im.times else none) ∧
      ∀ (i j s : Nat) (x : MassInfo), ms[j]? = some x → px r.img i j s = (px im.img i j s).map (· / x.acctime) := by
  rw [loadBinaryCall_eq m files ms cps o (fun _ _ => rfl)] at h
  cases hl : loadBinary m files (some ms) o.methodsV with
  | error e => rw [hl] at h; simp [Except.map] at h
  | ok im =>
    rw [hl] at h
    simp only [Except.map, hc, if_true, Except.ok.injEq, hd] at h
    subst h
    refine ⟨im, rfl, rfl, rfl, ?_⟩
    intro i j s x hx
    exact (cps_pixel ms im i j s x hx).1

def exFilesQ : List (DataFile Rat) :=
  [{ name := "9.d".toList, hasBinary := true, scans := [⟨68, 56, 0⟩, ⟨124, 56, 1⟩], profile := [[1, 2], [3, 4]], csv := none },
   { name := "10.d".toList, hasBinary := true, scans := [⟨68, 56, 0⟩, ⟨124, 56, 1⟩], profile := [[5, 6], [7, 8]], csv := none }]

/-- non-vacuity: the image-only call (`full` omitted) with counts per second on a two-line batch
returns without params; the omitted options take the defaults of the signatures -/
example : ∃ r, loadBinaryCall exMeta exFilesQ (some [⟨1, "P".toList, 1/2, 31, none⟩, ⟨2, "Eu".toList, 1/4, 153, none⟩]) cps
      { methods := some [.batchXml], cps := some true, useAcq := none, full := none } = .ok r ∧ r.params = none :=
  ⟨_, rfl, rfl⟩

example : (⟨none, none, none, none, none⟩ : CallOpts).methodsV = [.batchXml, .batchCsv] ∧
    (⟨none, none, none, none, none⟩ : CallOpts).cpsV = false ∧ (⟨none, none, none, none, none⟩ : CallOpts).useAcqV = true ∧
    (⟨none, none, none, none, none⟩ : CallOpts).fullV = false := ⟨rfl, rfl, rfl, rfl⟩

/-! ## composed theorems: the entry points against their specifications, `load`, listing order, binary-vs-CSV agreement of the two imports, histories -/

/-- `stack_pixel` for batches in which some data file has no (readable) binary: both the code and the
specification raise `FileNotFoundError` as soon as a collected line lacks its binary (that is what makes
`load` fall back to the CSV import); otherwise as `stack_pixel`. -/
theorem stack_pixel_partial {α : Type} (m : Meta) (files : List (DataFile α)) (ms : List MassInfo)
    (methods : List Method) (R k : Nat)
    (hids : ms.map (·.id) = List.range' 1 k)
    (hfiles : ∀ f ∈ files, f.hasBinary = true → ∃ bc, Layout R k bc f.scans f.profile)
    (hlines : linesOf m false methods = linesOf m true methods) :
    loadBinary m files (some ms) methods = loadBinarySpec m files ms methods := by
  unfold loadBinary loadBinarySpec
  rw [hlines]
  cases linesOf m true methods with
  | error e => rfl
  | ok lines =>
    simp only [bind, Except.bind]
    cases hd : allSome (lines.map (findFile files)) with
    | none => rfl
    | some dfs =>
      have hmem := mem_files_of_lines files lines dfs hd
      cases hb : dfs.all (·.hasBinary) with
      | false => simp only [orErr, hb, Bool.not_false, if_true, throw, throwThe, MonadExceptOf.throw]
      | true =>
        have hbin : ∀ f ∈ dfs, f.hasBinary = true := by
          rw [List.all_eq_true] at hb; exact hb
        have hk : ms.length = k := by
          have := congrArg List.length hids
          simpa using this
        have himg : allSome ((dfs.map (fun f => decode (ms.map (·.id)) f.scans f.profile)).map
              (fun line => allSome (line.map allSome)))
            = some (dfs.map (fun f => (List.range ms.length).map (column f.profile))) := by
          rw [List.map_map, hids, hk]
          apply allSome_map_of_forall
          intro f hf
          obtain ⟨bc, L⟩ := hfiles f (hmem f hf) (hbin f hf)
          exact decode_allSome L
        have hn : (dfs.all (fun f => decide (f.scans.length = (dfs.head?.map (·.scans.length)).getD 0))) = true := by
          rw [List.all_eq_true]
          intro f hf
          obtain ⟨bc, L⟩ := hfiles f (hmem f hf) (hbin f hf)
          cases dfs with
          | nil => simp at hf
          | cons f0 rest =>
            obtain ⟨bc0, L0⟩ := hfiles f0 (hmem f0 (by simp)) (hbin f0 (by simp))
            simp [L.nscans, L0.nscans]
        simp only [orErr, hb, himg, hn, Bool.not_true, Bool.false_eq_true, if_false, pure, Except.pure, throw,
          throwThe, MonadExceptOf.throw]

/-- `load_binary` with any option tuple equals its specification `loadBinaryCallSpec` (the specified image — lines
in the specified collection order, pixel = the Analog value of that element in that scan's record, names of the
specified mass table — divided when counts per second are asked for, in the return shape `full` asks for), for
every batch whose data files WITH binaries have the instrument layout; a collected line without binaries makes
code and specification raise alike. -/
theorem loadBinaryCall_eq_spec {α : Type} (m : Meta) (files : List (DataFile α)) (ms : List MassInfo)
    (divide : List MassInfo → Image α → Image α) (o : CallOpts) (R k : Nat)
    (hdiv : ∀ t im, (divide t im).times = im.times)
    (hids : ms.map (·.id) = List.range' 1 k)
    (hfiles : ∀ f ∈ files, f.hasBinary = true → ∃ bc, Layout R k bc f.scans f.profile)
    (hlines : linesOf m false o.methodsV = linesOf m true o.methodsV) :
    loadBinaryCall m files (some ms) divide o = loadBinaryCallSpec m files ms divide o := by
  rw [loadBinaryCall_eq m files ms divide o hdiv, stack_pixel_partial m files ms o.methodsV R k hids hfiles hlines]
  rfl

/-- `load_csv` with any option tuple equals its specification `loadCsvCallSpec`: the specified CSV image, named by
the batch's own mass table (`tbl`) when `use_acq_for_names` holds and the method file exists (`hacq`: the method
file lists the batch's mass table, which `acqNames_eq_massNames` derives from the files), by the header otherwise. -/
theorem loadCsvCall_eq_spec {α : Type} (m : Meta) (files : List (DataFile α)) (acq : Option (List Name))
    (tbl : List Name) (o : CallOpts) (ncol nscan : Nat) (hscan : 2 ≤ nscan)
    (hfiles : ∀ f ∈ files, ∀ c, f.csv = some c →
      CsvWF c ∧ c.header.length = ncol ∧ c.rows.length = nscan ∧ (c.header.head?).map validName = some timeName)
    (hlen : tbl.length = ncol - 1) (hacq : ∀ ns, acq = some ns → ns = tbl)
    (hlines : linesOf m false o.methodsV = linesOf m true o.methodsV) :
    loadCsvCall m files acq o = loadCsvCallSpec m files acq tbl o := by
  rw [loadCsvCall_eq]
  unfold loadCsvCallSpec
  have key : ∀ names, (∀ ns, names = some ns → ns.length = ncol - 1) →
      loadCsv m files names o.methodsV = loadCsvSpec m files names o.methodsV :=
    fun names hn => csv_pixel m files names o.methodsV ncol nscan hscan hfiles hn hlines
  cases hu : o.useAcqV with
  | false => simp [key none (by simp)]
  | true =>
    cases ha : acq with
    | none => simp [key none (by simp)]
    | some ns =>
      have := hacq ns ha
      subst this
      simp [key (some ns) (by intro ns' h; cases h; exact hlen)]

/-- `load` returns the binary import whenever that returns, and the CSV import exactly when the binary import raises -/
theorem load_binary_first {γ : Type} (b c : Except Err γ) :
    (∀ r, b = .ok r → load b c = .ok r) ∧ (∀ e, b = .error e → load b c = c) := by
  constructor
  · intro r h; subst h; rfl
  · intro e h; subst h; rfl

/-- Every entry point — `load_binary`, `load_csv` and `load` (binary first, CSV when that raises), with any option
tuple — returns on a disk satisfying `Disk.Ok` exactly what its specification says: `load` is no longer
differential-only.  The hypotheses are those of the single theorems, stated about the FILES: `massInfo_spec`
(`hidx`), `collect_eq_spec` (`hcsvlog`, `hnum`), `stack_pixel` (`hbin`, for the files that have binaries),
`csv_pixel` (`hexp`, `hscan`), `acqNames_eq_massNames` (`hacq`). -/
theorem callOn_eq_spec {α γ : Type} (enc : α → γ) (encQ : Rat → γ) (divide : List MassInfo → Image α → Image α)
    (hdiv : ∀ t im, (divide t im).times = im.times)
    (d : Disk α) (fn : EntryPoint) (o : CallOpts) (R k : Nat) (ok : d.Ok o.methodsV R k) :
    callOn enc encQ divide d fn o = callOnSpec enc encQ divide d fn o := by
  obtain ⟨hm, hids⟩ := massInfo_spec d.xs d.xadd ok.hidx
  rw [ok.hk] at hids
  have hlines := (collect_eq_spec d.mt o.methodsV ok.hcsvlog ok.hnum).2
  have hb : loadBinaryCall d.mt d.files (massInfo d.xs d.xadd) divide o
      = loadBinaryCallSpec d.mt d.files (massInfoSpec d.xs d.xadd) divide o := by
    rw [hm]
    exact loadBinaryCall_eq_spec d.mt d.files _ divide o R k hdiv hids ok.hbin hlines
  have hlen : ((massInfoSpec d.xs d.xadd).map (·.str)).length = k + 1 - 1 := by
    have := congrArg List.length hids
    simpa using this
  have hc : loadCsvCall d.mt d.files d.acq o
      = loadCsvCallSpec d.mt d.files d.acq ((massInfoSpec d.xs d.xadd).map (·.str)) o :=
    loadCsvCall_eq_spec d.mt d.files d.acq _ o (k + 1) R ok.hscan ok.hexp hlen ok.hacq hlines
  unfold callOn callOnSpec
  simp only [hb, hc]

/-- HISTORIES: any number of imports made one after another by one process, through any entry points with any
options, the batch directory rewritten in any way between them (other masses, another number of masses, lines,
scans, another acquisition order; the same path or not): call by call the process returns what the specification
says of the disk AS IT IS AT THAT CALL, provided each disk satisfies `Disk.Ok`.  (The model of the module has no
state; `processMemo_by_path_wrong` shows what a state would do.) -/
theorem process_eq_spec {α γ : Type} (enc : α → γ) (encQ : Rat → γ) (divide : List MassInfo → Image α → Image α)
    (hdiv : ∀ t im, (divide t im).times = im.times)
    (calls : List (Disk α × EntryPoint × CallOpts))
    (ok : ∀ c ∈ calls, ∃ R k, c.1.Ok c.2.2.methodsV R k) :
    process enc encQ divide calls = processSpec enc encQ divide calls := by
  unfold process processSpec
  apply List.map_congr_left
  intro c hc
  obtain ⟨R, k, h⟩ := ok c hc
  exact callOn_eq_spec enc encQ divide hdiv c.1 c.2.1 c.2.2 R k h

/-- ... and the value of a call does not depend on the calls before it or after it -/
theorem process_step {α γ : Type} (enc : α → γ) (encQ : Rat → γ) (divide : List MassInfo → Image α → Image α)
    (pre post : List (Disk α × EntryPoint × CallOpts)) (c : Disk α × EntryPoint × CallOpts) :
    (process enc encQ divide (pre ++ c :: post))[pre.length]? = some (callOn enc encQ divide c.1 c.2.1 c.2.2) := by
  unfold process
  simp

/-- Remembering what was read is harmless exactly when the key determines it: if two disks with the same key
hold the same mass table files (a key made of the files' CONTENT, say), the remembering process returns, call by
call, what the stateless `load_binary` returns — for every history. -/
theorem processMemo_eq_of_key_determines {α κ : Type} [DecidableEq κ] (key : Disk α → κ)
    (divide : List MassInfo → Image α → Image α)
    (hkey : ∀ d d' : Disk α, key d = key d' → d.xs = d'.xs ∧ d.xadd = d'.xadd)
    (calls : List (Disk α × CallOpts)) :
    processMemo key divide [] calls
      = calls.map (fun c => loadBinaryCall c.1.mt c.1.files (massInfo c.1.xs c.1.xadd) divide c.2) := by
  suffices H : ∀ (cache : List (κ × Option (List MassInfo))),
      (∀ p ∈ cache, ∀ d : Disk α, key d = p.1 → p.2 = massInfo d.xs d.xadd) →
      processMemo key divide cache calls
        = calls.map (fun c => loadBinaryCall c.1.mt c.1.files (massInfo c.1.xs c.1.xadd) divide c.2) from
    H [] (by simp)
  induction calls with
  | nil => intro cache _; rfl
  | cons c rest ih =>
    intro cache inv
    obtain ⟨d, o⟩ := c
    have htbl : (memoGet (key d) cache).getD (massInfo d.xs d.xadd) = massInfo d.xs d.xadd := by
      cases hg : memoGet (key d) cache with
      | none => rfl
      | some t => exact inv _ (memoGet_mem _ _ _ hg) d rfl
    simp only [processMemo, List.map_cons, htbl]
    congr 1
    apply ih
    intro p hp d' hd'
    rcases List.mem_cons.mp hp with rfl | hp
    · simp only at hd' ⊢
      obtain ⟨h1, h2⟩ := hkey d' d hd'
      rw [h1, h2]
    · exact inv p hp d' hd'

/-- a one-line, one-mass batch at a fixed path: mass `name``mz`, recorded values `v`, `v + 1` -/
def memoDisk (name : Name) (mz : Int) (v : Nat) : Disk Nat :=
  { mt := { listing := [⟨"1.d".toList, true⟩], xml := some [⟨pass, some "1.d".toList⟩], csv := none, acq := none },
    files := [{ name := "1.d".toList, hasBinary := true, scans := [⟨68, 28, 0⟩, ⟨96, 28, 1⟩], profile := [[v], [v + 1]], csv := none }],
    xs := [⟨name, mz, 1⟩], xadd := none, acq := none }

def memoOpts : CallOpts := { methods := some [.batchXml], cps := none, useAcq := none, full := none }

/-- ... and wrong when it does not (C02-c3): a batch measuring P31 is imported, the batch at the SAME path is
replaced by one measuring Eu153 and imported again.  Keyed on the path, the second image is named `P31`; the
stateless import names it `Eu153`. -/
theorem processMemo_by_path_wrong :
    ((processMemo (fun _ => ()) (fun _ im => im) [] [(memoDisk "P".toList 31 5, memoOpts), (memoDisk "Eu".toList 153 7, memoOpts)]).map
        (fun r => r.toOption.map (·.names))) = [some ["P31".toList], some ["P31".toList]] ∧
    (([(memoDisk "P".toList 31 5, memoOpts), (memoDisk "Eu".toList 153 7, memoOpts)].map
        (fun c => loadBinaryCall c.1.mt c.1.files (massInfo c.1.xs c.1.xadd) (fun _ im => im) c.2)).map
        (fun r => r.toOption.map (·.names))) = [some ["P31".toList], some ["Eu153".toList]] := by
  constructor <;> decide

/-- "Lines appear in the order the batch log says, regardless of directory listing order": `collect_datafiles`
(every list of methods, the directory scan included when the data directories carry distinct numbers) returns the
same list whatever the order of the directory listing. -/
theorem collect_listing_independent (m₁ m₂ : Meta) (h : m₁.SameUpToListing m₂)
    (hinj : ∀ a ∈ dataDirs m₁.listing, ∀ b ∈ dataDirs m₁.listing, digitsVal a = digitsVal b → a = b)
    (methods : List Method) :
    collect m₁ false methods = collect m₂ false methods ∧ linesOf m₁ false methods = linesOf m₂ false methods := by
  have hscan : m₁.scan false = m₂.scan false := by
    simp only [Meta.scan, Bool.false_eq_true, if_false]
    exact byNumber_listing_independent _ _ h.perm hinj
  have hsrc : ∀ meth, m₁.source false meth = m₂.source false meth := by
    intro meth
    cases meth <;> simp [Meta.source, h.xml, h.csv, h.acq]
  have hall : ∀ files : List Name, files.all m₁.exists = files.all m₂.exists := by
    intro files
    congr 1
    funext n
    exact exists_perm m₁ m₂ h.perm n
  have hc : collect m₁ false methods = collect m₂ false methods := by
    induction methods with
    | nil => rfl
    | cons meth rest ih =>
      cases meth with
      | alphabetical => simpa [collect] using hscan
      | batchXml => simp only [collect, hsrc, hall, ih]
      | batchCsv => simp only [collect, hsrc, hall, ih]
      | acqMethod => simp only [collect, hsrc, hall, ih]
  refine ⟨hc, ?_⟩
  unfold linesOf
  rw [hc, hscan]

/-- ... and so do the imports: `load_binary`, `load_csv` and `load` with any options return the same value
whatever the listing order -/
theorem callOn_listing_independent {α γ : Type} (enc : α → γ) (encQ : Rat → γ) (divide : List MassInfo → Image α → Image α)
    (d : Disk α) (m₂ : Meta) (h : d.mt.SameUpToListing m₂)
    (hinj : ∀ a ∈ dataDirs d.mt.listing, ∀ b ∈ dataDirs d.mt.listing, digitsVal a = digitsVal b → a = b)
    (fn : EntryPoint) (o : CallOpts) :
    callOn enc encQ divide d fn o = callOn enc encQ divide { d with mt := m₂ } fn o := by
  have hl := (collect_listing_independent d.mt m₂ h hinj o.methodsV).2
  have hb : ∀ masses, loadBinary d.mt d.files masses o.methodsV = loadBinary m₂ d.files masses o.methodsV := by
    intro masses
    unfold loadBinary
    rw [hl]
  have hc : ∀ names, loadCsv d.mt d.files names o.methodsV = loadCsv m₂ d.files names o.methodsV := by
    intro names
    unfold loadCsv
    rw [hl]
  unfold callOn loadBinaryCall loadCsvCall
  simp only [hb, hc]

/-- shape of a binary import: every line has `k` elements of `R` scans -/
theorem binary_import_shape {α : Type} (m : Meta) (files : List (DataFile α)) (ms : List MassInfo)
    (methods : List Method) (R k : Nat)
    (hids : ms.map (·.id) = List.range' 1 k)
    (hfiles : ∀ f ∈ files, f.hasBinary = true ∧ ∃ bc, Layout R k bc f.scans f.profile)
    (hlines : linesOf m false methods = linesOf m true methods)
    (im : Image α) (h : loadBinary m files (some ms) methods = .ok im) :
    ∀ line ∈ im.img, line.length = k ∧ ∀ col ∈ line, col.length = R := by
  rw [stack_pixel m files ms methods R k hids hfiles hlines] at h
  unfold loadBinarySpec at h
  cases hl : linesOf m true methods with
  | error e => rw [hl] at h; simp [bind, Except.bind] at h
  | ok lines =>
    rw [hl] at h
    simp only [bind, Except.bind] at h
    cases hd : allSome (lines.map (findFile files)) with
    | none => rw [hd] at h; simp [orErr] at h
    | some dfs =>
      rw [hd] at h
      have hmem := mem_files_of_lines files lines dfs hd
      have hbin : (dfs.all (·.hasBinary)) = true := by
        rw [List.all_eq_true]; exact fun f hf => (hfiles f (hmem f hf)).1
      simp only [orErr, hbin, Bool.not_true, Bool.false_eq_true, if_false, pure, Except.pure, Except.ok.injEq] at h
      subst h
      have hk : ms.length = k := by
        have := congrArg List.length hids
        simpa using this
      intro line hline
      simp only [List.mem_map] at hline
      obtain ⟨f, hf, rfl⟩ := hline
      obtain ⟨bc, L⟩ := (hfiles f (hmem f hf)).2
      refine ⟨by simp [hk], ?_⟩
      intro col hcol
      simp only [List.mem_map, List.mem_range] at hcol
      obtain ⟨j, hj, rfl⟩ := hcol
      rw [column_length f.profile j]
      · exact L.nprofile
      · intro row hrow
        have := L.width row hrow
        exact ⟨row[j], by rw [List.getElem?_eq_getElem]⟩

/-- shape of a CSV import: every line (with or without export) has `ncol - 1` elements of `nscan` scans -/
theorem csv_import_shape {α : Type} (m : Meta) (files : List (DataFile α)) (names : Option (List Name))
    (methods : List Method) (ncol nscan : Nat) (hscan : 2 ≤ nscan)
    (hfiles : ∀ f ∈ files, ∀ c, f.csv = some c →
      CsvWF c ∧ c.header.length = ncol ∧ c.rows.length = nscan ∧ (c.header.head?).map validName = some timeName)
    (hnames : ∀ ns, names = some ns → ns.length = ncol - 1)
    (hlines : linesOf m false methods = linesOf m true methods)
    (im : Image Rat) (h : loadCsv m files names methods = .ok im) :
    ∀ line ∈ im.img, line.length = ncol - 1 ∧ ∀ col ∈ line, col.length = nscan := by
  rw [csv_pixel m files names methods ncol nscan hscan hfiles hnames hlines] at h
  unfold loadCsvSpec at h
  cases hl : linesOf m true methods with
  | error e => rw [hl] at h; simp at h
  | ok lines =>
    rw [hl] at h
    simp only at h
    cases hd : allSome (lines.map (findFile files)) with
    | none => rw [hd] at h; simp at h
    | some dfs =>
      rw [hd] at h
      simp only at h
      have hmem := mem_files_of_lines files lines dfs hd
      cases hcs : dfs.filterMap (·.csv) with
      | nil => rw [hcs] at h; simp at h
      | cons c0 rest =>
        rw [hcs] at h
        simp only at h
        obtain ⟨f0, hf0, e0⟩ : ∃ f ∈ dfs, f.csv = some c0 := by
          have : c0 ∈ dfs.filterMap (·.csv) := by rw [hcs]; simp
          obtain ⟨f, hf, e⟩ := List.mem_filterMap.mp this
          exact ⟨f, hf, e⟩
        obtain ⟨_, hcol0, hrow0, _⟩ := hfiles f0 (hmem f0 hf0) c0 e0
        rw [hcol0, hrow0] at h
        cases hc : allSome (dfs.map (fun f => csvLineSpec ncol nscan f.csv)) with
        | none => rw [hc] at h; simp at h
        | some cols =>
          rw [hc] at h
          simp only [Except.ok.injEq] at h
          subst h
          intro line hline
          simp only [List.mem_map] at hline
          obtain ⟨full, hfull, rfl⟩ := hline
          have := allSome_mem _ _ hc full hfull
          simp only [List.mem_map] at this
          obtain ⟨f, hf, hspec⟩ := this
          obtain ⟨h1, h2⟩ := csvLineSpec_shape ncol nscan f.csv
            (fun c hcc => (hfiles f (hmem f hf) c hcc).2.2.1) full hspec
          refine ⟨by simp [h1], ?_⟩
          intro col hcol
          exact h2 col (List.mem_of_mem_drop hcol)

/-- "The binary import and the import of the per-line CSV exports of the same batch agree to the precision of the
CSV text", composed with the two import theorems: for every batch with the instrument layout whose exports are
well-formed and of the batch's shape (`k` masses, `R ≥ 2` scans), IF every number in an export is the recorded
count divided by the accumulation time of its mass (one correctly rounded float64 division: `v` within `2⁻⁵³`
relative) rounded to `d` decimals (`y` within `½·10⁻ᵈ` of `v`) — a statement about the FILES of the batch, not
about images — THEN what `load_binary` (divided to counts per second) and `load_csv` return agree on every line
that has an export, to half a unit of the `d`-th decimal. -/
theorem imports_agree_of_printed (d : Nat) (m : Meta) (files : List (DataFile Rat)) (ms : List MassInfo)
    (names : Option (List Name)) (methods : List Method) (R k : Nat) (hscan : 2 ≤ R)
    (hids : ms.map (·.id) = List.range' 1 k)
    (hfiles : ∀ f ∈ files, f.hasBinary = true ∧ ∃ bc, Layout R k bc f.scans f.profile)
    (hexp : ∀ f ∈ files, ∀ c, f.csv = some c →
      CsvWF c ∧ c.header.length = k + 1 ∧ c.rows.length = R ∧ (c.header.head?).map validName = some timeName)
    (hnames : ∀ ns, names = some ns → ns.length = k)
    (hlines : linesOf m false methods = linesOf m true methods)
    (hprint : ∀ f ∈ files, ∀ c, f.csv = some c → ∀ (j r : Nat) (mj : MassInfo) (x y : Rat), ms[j]? = some mj →
      (f.profile[r]?).bind (fun row => row[j]?) = some x → ((c.rows[r]?).bind (·[j + 1]?)).bind parseDec = some y →
      ∃ v, |v - x / mj.acctime| ≤ 1 / 2 ^ 53 * |x / mj.acctime| ∧ |y - v| ≤ halfUnit d)
    (ib ic : Image Rat) (hb : loadBinary m files (some ms) methods = .ok ib)
    (hc : loadCsv m files names methods = .ok ic) :
    ∃ lines, linesOf m true methods = .ok lines ∧
      agree (halfUnit d) printSlack (lines.map (fun n => ((findFile files n).bind (·.csv)).isSome)) (cps ms ib) ic = true := by
  have hk : ms.length = k := by
    have := congrArg List.length hids
    simpa using this
  have hnames' : ∀ ns, names = some ns → ns.length = k + 1 - 1 := by
    intro ns h; simpa using hnames ns h
  obtain ⟨lines, hl, _, hlenb, _, hpb⟩ := binary_import_pointwise m files ms methods R k hids hfiles hlines ib hb
  obtain ⟨lines', hl', hlenc, _, hpc⟩ := csv_import_pointwise m files names methods (k + 1) R hscan hexp hnames' hlines ic hc
  rw [hl] at hl'
  simp only [Except.ok.injEq] at hl'
  subst hl'
  have shb := binary_import_shape m files ms methods R k hids hfiles hlines ib hb
  have shc := csv_import_shape m files names methods (k + 1) R hscan hexp hnames' hlines ic hc
  refine ⟨lines, hl, agree_of_printed d _ (cps ms ib) ic ?_ ?_⟩
  · -- shape
    refine ⟨by simp [cps, hlenb, hlenc], by simp [cps, hlenb], ?_⟩
    intro i la lb _ hla hlb
    obtain ⟨line, hline, hlen, hcols⟩ := cps_line ms ib i la hla
    have hlm : line ∈ ib.img := List.mem_of_getElem? hline
    have hbm : lb ∈ ic.img := List.mem_of_getElem? hlb
    obtain ⟨h1, h2⟩ := shb line hlm
    obtain ⟨h3, h4⟩ := shc lb hbm
    refine ⟨by rw [hlen, h1, hk, h3]; simp, ?_⟩
    intro j ca cb hca hcb
    obtain ⟨col, hcol, e⟩ := hcols ca (List.mem_of_getElem? hca)
    rw [e, h2 col hcol, h4 cb (List.mem_of_getElem? hcb)]
  · -- every printed number
    intro i j r x y hp hx hy
    have hi : i < lines.length := by
      by_contra hge
      rw [List.getElem?_eq_none (by simpa using hge)] at hp
      simp at hp
    obtain ⟨f, hf, _, hpix⟩ := hpb i hi
    obtain ⟨f', hf', _, hcsv⟩ := hpc i hi
    rw [hf] at hf'
    simp only [Option.some.injEq] at hf'
    subst hf'
    have hfm : f ∈ files := List.mem_of_find?_eq_some hf
    -- the line has an export
    have hpres : ((findFile files lines[i]).bind (·.csv)).isSome = true := by
      simpa [List.getElem?_map, List.getElem?_eq_getElem hi] using hp
    rw [hf] at hpres
    simp only [Option.bind_some] at hpres
    obtain ⟨c, hcf⟩ := Option.isSome_iff_exists.mp hpres
    -- indices are inside the image
    obtain ⟨la, ca, hla, hca, hxr⟩ := px_some _ i j r x hx
    obtain ⟨line, hline, hlen, hcols⟩ := cps_line ms ib i la hla
    obtain ⟨h1, h2⟩ := shb line (List.mem_of_getElem? hline)
    have hj : j < k := by
      have : j < la.length := (List.getElem?_eq_some_iff.mp hca).1
      rw [hlen, h1, hk] at this
      simpa using this
    have hr : r < R := by
      obtain ⟨col, hcol, e⟩ := hcols ca (List.mem_of_getElem? hca)
      have : r < ca.length := (List.getElem?_eq_some_iff.mp hxr).1
      rw [e, h2 col hcol] at this
      exact this
    have hmj : ms[j]? = some ms[j] := List.getElem?_eq_getElem (by omega)
    have hx' := (cps_pixel ms ib i j r ms[j] hmj).1
    rw [hx, hpix j r hj hr] at hx'
    cases hx0 : (f.profile[r]?).bind (fun row => row[j]?) with
    | none => rw [hx0] at hx'; simp at hx'
    | some x0 =>
      rw [hx0] at hx'
      simp only [Option.map_some, Option.some.injEq] at hx'
      subst hx'
      have hy' := (hcsv c hcf r hr).2 j (by omega)
      rw [hy] at hy'
      exact hprint f hfm c hcf j r ms[j] x0 y hmj hx0 hy'.symm

/-- non-vacuity of `hprint`: a printer that rounds the exact quotient half up to `d` decimals meets it -/
example (d : Nat) (x acc y : Rat) (h : y = roundDec d (x / acc)) :
    ∃ v, |v - x / acc| ≤ 1 / 2 ^ 53 * |x / acc| ∧ |y - v| ≤ halfUnit d :=
  ⟨x / acc, by simp, by rw [h]; exact roundDec_within d _⟩

/-- non-vacuity of `Disk.Ok` / `callOn_eq_spec` / `process_eq_spec`: the two disks of `processMemo_by_path_wrong`
(one line, one mass, two scans, no export, a BatchLog.xml) satisfy `Disk.Ok`, and `load` returns on them -/
theorem memoDisk_ok (name : Name) (mz : Int) (v : Nat) : (memoDisk name mz v).Ok [.batchXml] 2 1 :=
  { hk := rfl
    hidx := by intro msms rows h; simp [memoDisk] at h
    hbin := by
      intro f hf _
      simp only [memoDisk, List.mem_cons, List.not_mem_nil, or_false] at hf
      subst hf
      refine ⟨28, ⟨rfl, rfl, ?_, ?_, by decide⟩⟩
      · intro row hrow
        simp only [List.mem_cons, List.not_mem_nil, or_false] at hrow
        rcases hrow with rfl | rfl <;> rfl
      · intro r hr
        match r, hr with
        | 0, _ => exact ⟨rfl, rfl⟩
        | 1, _ => exact ⟨rfl, rfl⟩
        | n + 2, h => simp at h
    hcsvlog := by intro rows h; simp [memoDisk] at h
    hnum := by
      intro a ha b hb _
      have e : dataDirs [(⟨"1.d".toList, true⟩ : Entry)] = ["1.d".toList] := by decide
      rw [show dataDirs (memoDisk name mz v).mt.listing = ["1.d".toList] from e] at ha hb
      simp only [List.mem_cons, List.not_mem_nil, or_false] at ha hb
      rw [ha, hb]
    hscan := by decide
    hexp := by
      intro f hf c hc
      simp only [memoDisk, List.mem_cons, List.not_mem_nil, or_false] at hf
      subst hf
      simp at hc
    hacq := by intro ns h; simp [memoDisk] at h }

example : (callOn (γ := Nat) id (fun _ => 0) (fun _ im => im) (memoDisk "Eu".toList 153 7) .load memoOpts).toOption.map
    (fun r => (r.names, r.img)) = some (["Eu153".toList], [[[7, 8]]]) := by decide

/-- non-vacuity of `collect_listing_independent`: a listing and its reverse -/
example : (⟨[⟨"10.d".toList, true⟩, ⟨"9.d".toList, true⟩], none, none, none⟩ : Meta).SameUpToListing
    ⟨[⟨"9.d".toList, true⟩, ⟨"10.d".toList, true⟩], none, none, none⟩ :=
  ⟨List.Perm.swap _ _ _, rfl, rfl, rfl⟩

/-! ## `drop_names` -/

/-- `drop_fields` on the fields of a line: the `j'`-th kept name is a name `n` not listed in `d`, standing at some
position `j` of the original names, and in EVERY line the `j'`-th kept column is the column that stood at `j` -/
theorem dropLine_getElem (d : List Name) (names : List Name)
    (j' : Nat) (n : Name) (h : (names.filter (fun n => !d.contains n))[j']? = some n) :
    ∃ j : Nat, names[j]? = some n ∧ d.contains n = false ∧
      ∀ {β : Type} (line : List β), line.length = names.length →
        (((names.zip line).filter (fun p => !d.contains p.1)).map (·.2))[j']? = line[j]? := by
  induction names generalizing j' with
  | nil => simp at h
  | cons a rest ih =>
    by_cases hm : a ∈ d
    · have h' : (rest.filter (fun n => !d.contains n))[j']? = some n := by simpa [List.filter_cons, hm] using h
      obtain ⟨j, h1, h2, h3⟩ := ih j' h'
      refine ⟨j + 1, by simpa using h1, h2, ?_⟩
      intro β line hlen
      cases line with
      | nil => simp at hlen
      | cons x xs =>
        have hl : xs.length = rest.length := by simpa using hlen
        simpa [List.zip_cons_cons, List.filter_cons, hm] using h3 xs hl
    · cases j' with
      | zero =>
        have : a = n := by simpa [List.filter_cons, hm] using h
        subst this
        refine ⟨0, rfl, by simpa using hm, ?_⟩
        intro β line hlen
        cases line with
        | nil => simp at hlen
        | cons x xs => simp [List.zip_cons_cons, List.filter_cons, hm]
      | succ j'' =>
        have h' : (rest.filter (fun n => !d.contains n))[j'']? = some n := by simpa [List.filter_cons, hm] using h
        obtain ⟨j, h1, h2, h3⟩ := ih j'' h'
        refine ⟨j + 1, by simpa using h1, h2, ?_⟩
        intro β line hlen
        cases line with
        | nil => simp at hlen
        | cons x xs =>
          have hl : xs.length = rest.length := by simpa using hlen
          simpa [List.zip_cons_cons, List.filter_cons, hm] using h3 xs hl

/-- What `drop_names = d` leaves of an image whose lines all have one column per name: the names not listed in `d`,
in their order, and under each kept name the column that stood under THAT name, pixel by pixel; the times untouched -/
theorem dropElems_pixel {β : Type} (d : List Name) (im : Image β) (hw : ∀ line ∈ im.img, line.length = im.names.length) :
    (dropElems (some d) im).names = im.names.filter (fun n => !d.contains n) ∧
    (dropElems (some d) im).times = im.times ∧
    ∀ (j' : Nat) (n : Name), (dropElems (some d) im).names[j']? = some n →
      ∃ j, im.names[j]? = some n ∧ d.contains n = false ∧
        ∀ i s, px (dropElems (some d) im).img i j' s = px im.img i j s := by
  refine ⟨rfl, rfl, ?_⟩
  intro j' n h
  obtain ⟨j, h1, h2, h3⟩ := dropLine_getElem d im.names j' n h
  refine ⟨j, h1, h2, ?_⟩
  intro i s
  simp only [px, dropElems, List.getElem?_map]
  cases hi : im.img[i]? with
  | none => simp
  | some line =>
    simp only [Option.map_some, Option.bind_some, h3 line (hw line (List.mem_of_getElem? hi))]

/-- `load_binary(..., counts_per_second=True, drop_names=d, full=...)`: the array returned holds the elements of the
mass table whose names are not listed in `d`, in table order, and EVERY kept element — whatever was dropped in front of
it — holds its stacked values divided by the accumulation time of ITS OWN mass (`ms[j]`, the mass of that name); the
time field stays in the array iff `d` does not list it.  (The seeded change C02-d2 divided the `j'`-th kept field by
the accumulation time of the `j'`-th mass.) -/
theorem call_drop_cps_pixel (m : Meta) (files : List (DataFile Rat)) (ms : List MassInfo) (o : CallOpts) (r : Returned Rat)
    (d : List Name) (R k : Nat)
    (hids : ms.map (·.id) = List.range' 1 k)
    (hfiles : ∀ f ∈ files, f.hasBinary = true ∧ ∃ bc, Layout R k bc f.scans f.profile)
    (hlines : linesOf m false o.methodsV = linesOf m true o.methodsV)
    (h : loadBinaryCall m files (some ms) cps o = .ok r) (hc : o.cpsV = true) (hd : o.drop = some d) :
    ∃ im, loadBinary m files (some ms) o.methodsV = .ok im ∧
      r.names = (ms.map (·.str)).filter (fun n => !d.contains n) ∧
      r.timeField = (if d.contains binTimeName then none else some im.times) ∧
      ∀ (j' : Nat) (n : Name), r.names[j']? = some n →
        ∃ j x, ms[j]? = some x ∧ x.str = n ∧ d.contains n = false ∧
          ∀ i s, px r.img i j' s = (px im.img i j s).map (· / x.acctime) := by
  rw [loadBinaryCall_eq m files ms cps o (fun _ _ => rfl)] at h
  cases hl : loadBinary m files (some ms) o.methodsV with
  | error e => rw [hl] at h; simp [Except.map] at h
  | ok im =>
    rw [hl] at h
    simp only [Except.map, hc, if_true, Except.ok.injEq, hd] at h
    subst h
    obtain ⟨lines, _, hnames, _, _, _⟩ := binary_import_pointwise m files ms o.methodsV R k hids hfiles hlines im hl
    have hk : ms.length = k := by
      have := congrArg List.length hids
      simpa using this
    have hshape := binary_import_shape m files ms o.methodsV R k hids hfiles hlines im hl
    have hw : ∀ line ∈ (cps ms im).img, line.length = (cps ms im).names.length := by
      intro line hline
      simp only [cps, List.mem_map] at hline
      obtain ⟨l0, hl0, rfl⟩ := hline
      simp [cps, hnames, (hshape l0 hl0).1, hk]
    obtain ⟨e1, _, e3⟩ := dropElems_pixel d (cps ms im) hw
    refine ⟨im, rfl, ?_, rfl, ?_⟩
    · simp only [retOf, e1]
      simp [cps, hnames]
    · intro j' n hn
      obtain ⟨j, g1, g2, g3⟩ := e3 j' n hn
      have g1' : (ms.map (·.str))[j]? = some n := by simpa [cps, hnames] using g1
      rw [List.getElem?_map] at g1'
      cases hx : ms[j]? with
      | none => rw [hx] at g1'; simp at g1'
      | some x =>
        rw [hx] at g1'
        simp only [Option.map_some, Option.some.injEq] at g1'
        refine ⟨j, x, hx, g1', g2, ?_⟩
        intro i s
        show px (dropElems (some d) (cps ms im)).img i j' s = _
        rw [g3 i s]
        exact (cps_pixel ms im i j s x hx).1

/-- non-vacuity: `exFilesQ`, counts per second, the FIRST element dropped, the time field kept: the second element
is divided by its own accumulation time (1/4), not by the first one's (1/2) -/
example : (loadBinaryCall exMeta exFilesQ (some [⟨1, "P".toList, 1/2, 31, none⟩, ⟨2, "Eu".toList, 1/4, 153, none⟩]) cps
      { methods := some [.batchXml], cps := some true, useAcq := none, full := none, drop := some ["P31".toList] }).toOption.map
      (fun r => (r.names, r.timeField.isSome)) = some (["Eu153".toList], true) := by decide

end Pew.Agilent
