import PewProofs.Agilent

/-! # C02 — property theorems (statements only depend on `PewModel.Agilent`) -/
namespace Pew.Agilent

/-! ## line order from the batch log -/

/-- The XML reader's remove-then-append loop returns the names of the acquisitions logged as
passed, each once, ordered by its LAST passed entry; failed entries and entries without a file
name contribute nothing.  Any log: any mixture of results, repeats, path styles. -/
theorem batchXml_spec (log : List LogEntry) :
    batchXml log = logSpec log ∧ (batchXml log).Nodup := by
  rw [batchXml_eq, xmlNames_eq_passNames]
  exact ⟨rfl, keepLast_nodup _⟩

/-- what "ordered by last occurrence" means, without recursion: same members as the input, and
in a concatenation the earlier part keeps only what does not come again in the later part, in
front of the later part's own result. -/
theorem keepLast_spec {α : Type} [DecidableEq α] (l₁ l₂ : List α) :
    (∀ x, x ∈ keepLast l₁ ↔ x ∈ l₁) ∧
    keepLast (l₁ ++ l₂) = (keepLast l₁).filter (fun a => decide (a ∉ l₂)) ++ keepLast l₂ := by
  refine ⟨mem_keepLast l₁, ?_⟩
  induction l₁ with
  | nil => simp [keepLast]
  | cons x xs ih =>
    rw [List.cons_append, keepLast_cons, keepLast_cons, ih]
    by_cases h1 : x ∈ xs
    · simp [h1]
    · by_cases h2 : x ∈ l₂
      · simp [h1, h2]
      · simp [h1, h2]

example : batchXml [⟨pass, some "D:\\b\\1.d".toList⟩, ⟨"Fail".toList, some "2.d".toList⟩,
    ⟨pass, some "/x/3.d".toList⟩, ⟨pass, some "1.d".toList⟩] = ["3.d".toList, "1.d".toList] := by decide

end Pew.Agilent
