import PewProofs.Npz

/-! # C01 — property theorems (statements only depend on `PewModel.Npz`) -/
namespace Pew.Npz

/-- Info survives `pack_info` → NumPy storage → `unpack_info` as its tab-normalised form without
`File Path`, as a dict (a key repeated after tab replacement keeps its first place and takes the
last value).  Every info list; hypothesis: the packed string does not end in NUL (NumPy `U`
storage would strip it — known finding C01-trailing-nul). -/
theorem unpack_pack_info (info : Info) (h : noNulEnd (packInfoRaw info) = true) :
    unpackInfo (packInfo info) = infoSpec info := by
  unfold packInfo
  rw [stripNul_of_noNulEnd _ h, unpack_packRaw]

example : noNulEnd (packInfoRaw [(['a','\t','b'], ['1','\t']), (['a',' ','b'], ['2']), (kFilePath, ['x'])]) = true ∧
    infoSpec [(['a','\t','b'], ['1','\t']), (['a',' ','b'], ['2']), (kFilePath, ['x'])] = [(['a',' ','b'], ['2'])] := by
  decide

/-- `Calibration.from_array (to_array cal size) = cal` for every calibration inside the quantifier
(`Cal.ok`: unit and weighting name ≤ 32 code points without trailing NUL; rsq / error not NaN; no
row that is NaN in x, y *and* weight; built-in weighting ⇒ no stored weights, custom ⇒ one weight
per point) and every padding size ≥ the number of points.  Covers 0 points, partially-NaN rows,
custom weights (NaN weights included) and all seven built-in weightings. -/
theorem cal_roundtrip (c : Cal) (size : Nat) (hok : c.ok = true) (_hsize : c.points.length ≤ size) :
    Cal.fromArray (c.toArray size) = c := by
  simp only [Cal.ok, Bool.and_eq_true, decide_eq_true_eq, Bool.not_eq_true'] at hok
  obtain ⟨⟨⟨⟨⟨⟨⟨hul, hun⟩, hwl⟩, hwn⟩, hrsq⟩, herr⟩, hrows⟩, hw⟩ := hok
  have hlen : c.effWeights.length = c.points.length := by
    unfold Cal.effWeights
    split
    · split <;> simp [derivedWeights_length]
    · rename_i hk
      simpa [hk] using hw
  have hrows' := filter_padded c.effWeights c.points (size - c.effWeights.length) (size - c.points.length) hlen hrows
  unfold Cal.fromArray Cal.toArray
  simp only [hrows', npStr_id 32 c.unit hul hun, npStr_id 32 c.weighting hwl hwn,
    optOfNaN_getD _ hrsq, optOfNaN_getD _ herr]
  rw [List.map_snd_zip (by omega), List.map_fst_zip (by omega)]
  cases c with
  | mk i g u r e p wn ws =>
    simp only [Cal.mk.injEq, true_and]
    split
    · rename_i hk
      simp only [hk, if_true, beq_iff_eq] at hw
      exact hw.symm
    · rename_i hk
      simp [Cal.effWeights, hk]

/-- a 3-point `1/x` calibration with a half-NaN row -/
def exCalX : Cal :=
  { intercept := fzero, gradient := fone, unit := ['p','p','m'], rsq := some (Flt.num 5), error := none,
    points := [(Flt.num 1, Flt.num 2), (qnan, Flt.num 4), (Flt.num 3, Flt.num 6)],
    weighting := ['1','/','x'], weights := [] }

/-- a custom-weight calibration of another length, with a NaN weight on a half-NaN row -/
def exCalCustom : Cal :=
  { intercept := fzero, gradient := fone, unit := [], rsq := none, error := some (Flt.num 9),
    points := [(Flt.num 1, Flt.num 1), (Flt.num 2, qnan)],
    weighting := ['c','u','s','t','o','m'], weights := [Flt.num 7, qnan] }

/-- non-vacuity of `cal_roundtrip` -/
example : exCalX.ok = true ∧ exCalCustom.ok = true ∧ Cal.default.ok = true := by decide

end Pew.Npz
