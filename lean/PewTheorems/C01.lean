import PewProofs.Npz
import PewProofs.NpzHist

/-! # C01 — property theorems (statements only depend on `PewModel.Npz`) -/
namespace Pew.Npz

/-- Info survives `pack_info` → NumPy storage → `unpack_info` as its tab-normalised form without
`File Path`, as a dict (a key repeated after tab replacement keeps its first place and takes the
last value).  Every info list; hypothesis: the packed string does not end in NUL (NumPy `U`
storage would strip it — known finding C01-trailing-nul). -/
theorem unpack_pack_info (info : Info) (h : noNulEnd (packInfoRaw info) = true) :
    unpackInfo (packInfo info) = infoSpec info := by
  unfold packInfo
  rw [stripNul_of_noNulEnd _ h, unpack_packRaw]

example : noNulEnd (packInfoRaw [(['a','\t','b'], ['1','\t']), (['a',' ','b'], ['2']), (kFilePath, ['x'])]) = true ∧
    infoSpec [(['a','\t','b'], ['1','\t']), (['a',' ','b'], ['2']), (kFilePath, ['x'])] = [(['a',' ','b'], ['2'])] := by
  decide

/-- `Calibration.from_array (to_array cal size) = cal` for every calibration inside the quantifier
(`Cal.ok`: unit and weighting name ≤ 32 code points without trailing NUL; rsq / error not NaN; no
row that is NaN in x, y *and* weight; built-in weighting ⇒ no stored weights, custom ⇒ one weight
per point) and every padding size ≥ the number of points.  Covers 0 points, partially-NaN rows,
custom weights (NaN weights included) and all seven built-in weightings. -/
theorem cal_roundtrip (c : Cal) (size : Nat) (hok : c.ok = true) (hsize : c.points.length ≤ size) :
    Cal.fromArray (c.toArray size) = c :=
  cal_roundtrip_aux c size hok hsize

/-- a 3-point `1/x` calibration with a half-NaN row -/
def exCalX : Cal :=
  { intercept := fzero, gradient := fone, unit := ['p','p','m'], rsq := some (Flt.num 5), error := none,
    points := [(Flt.num 1, Flt.num 2), (qnan, Flt.num 4), (Flt.num 3, Flt.num 6)],
    weighting := ['1','/','x'], weights := [] }

/-- a custom-weight calibration of another length, with a NaN weight on a half-NaN row -/
def exCalCustom : Cal :=
  { intercept := fzero, gradient := fone, unit := [], rsq := none, error := some (Flt.num 9),
    points := [(Flt.num 1, Flt.num 1), (Flt.num 2, qnan)],
    weighting := ['c','u','s','t','o','m'], weights := [Flt.num 7, qnan] }

/-- non-vacuity of `cal_roundtrip` -/
example : exCalX.ok = true ∧ exCalCustom.ok = true ∧ Cal.default.ok = true := by decide

/-- The packed calibration table unpacks to the dict it was made of: same elements in the same
order, every calibration intact although all were padded to the common (largest) length.
Hypotheses: distinct element names without trailing NUL, every calibration inside the quantifier. -/
theorem calibrations_roundtrip (d : List (Str × Cal)) (hn : (keys d).Nodup)
    (hk : ∀ kc ∈ d, noNulEnd kc.1 = true) (hc : ∀ kc ∈ d, kc.2.ok = true) :
    unpackCalibration (packCalibration d) = d := by
  unfold unpackCalibration packCalibration
  rw [List.map_map]
  have : d.map ((fun ea : Str × CalArr => (ea.1, Cal.fromArray ea.2)) ∘
      fun kc : Str × Cal => (stripNul kc.1, kc.2.toArray (maxLen d))) = d := by
    conv => rhs; rw [← List.map_id d]
    apply List.map_congr_left
    intro kc hkc
    simp only [Function.comp, id]
    rw [stripNul_of_noNulEnd _ (hk kc hkc), cal_roundtrip _ _ (hc kc hkc) (le_maxLen d kc hkc)]
  rw [this]
  exact dictOfList_of_nodup d hn

/-- non-vacuity: two elements whose calibrations have 3 and 2 points -/
example : (keys [(['A'], exCalX), (['B','\t','b'], exCalCustom)]).Nodup ∧ maxLen [(['A'], exCalX), (['B','\t','b'], exCalCustom)] = 3 := by
  decide

/-- the three configuration classes survive `to_array` → `from_array` with the class dispatch of
`load`; for `SRRConfig` the constructor's recomputation reproduces the internal state (warm-up in
samples, common sub-pixel size, offsets) for every positive scan time, every non-empty offset list
and |warm-up| ≤ 2⁵⁰ samples, with every float operation within relative error 2⁻⁵³ (`hfl`) -/
theorem config_roundtrip (fl : Rat → Rat) (hfl : ∀ x, |fl x - x| ≤ |x| / 2 ^ 53) (c : Config) (hok : c.ok = true) :
    loadConfig fl (classOf c) (c.toArray fl) = .ok (if c.isSRR then Kind.srr else Kind.laser, c) :=
  loadConfig_toArray fl hfl c hok

/-- SRRConfig((0,2),(1,3)) with 125 warm-up samples at scan time 1/10 (state: size 6, offsets 0 and 2) -/
def exSRR : SRR :=
  { spotsize := Flt.num 1, speed := Flt.num 2, scantime := 1 / 10, warmupN := 125, subSize := 6, subOffsets := [0, 2] }

example : exSRR.ok = true ∧ SRR.mk' id (Flt.num 1) (Flt.num 2) (1 / 10) (25 / 2) [(0, 2), (1, 3)] = exSRR := by decide +kernel

/-- exact evaluation (`fl = id`, what the driver runs) satisfies the rounding hypothesis -/
example : ∀ x : Rat, |id x - x| ≤ |x| / 2 ^ 53 := by
  intro x; simp only [id, sub_self, abs_zero]; positivity

/-- **Saving then loading gives the laser back**: for every laser inside the quantifier
(`Laser.ok`: at least one element, distinct element names without trailing NUL, exactly one calibration
per element **in any order of the calibration dict**, every calibration `Cal.ok`, class and configuration
matching, one layer or ≥ 2 layers of equal shape, packed info not ending in NUL) `load (save L)` succeeds
and returns `normalise L`: data, dtypes, names and configuration identical, every element with the
calibration the saved laser held under that element's name (`calByName`); info with tabs as spaces,
without the old `File Path`, plus `Name` / `File Path` / `File Version`. -/
theorem load_save (fl : Rat → Rat) (hfl : ∀ x, |fl x - x| ≤ |x| / 2 ^ 53) (p : PathInfo) (ver time : Str)
    (L : Laser) (hL : L.ok = true) (hv : versionOk ver = true) (ht : noNulEnd time = true) :
    (save fl ver time L >>= load fl p) = .ok (normalise p ver L) := by
  have F := okFacts L hL
  obtain ⟨htab, ⟨r7, hr7, hr7'⟩, ⟨r8, hr8, hr8'⟩⟩ := versionOk_cases ver hv
  obtain ⟨d, hd, hdf, hcons⟩ := data_roundtrip L F.layers F.native
  have hhdr := header_unpack ver (classOf L.config) time ht
  rw [tabToSpace_of_tabFree ver htab, tabToSpace_classOf] at hhdr
  have hcalrt : unpackCalibration (packCalibration L.cal) = L.cal :=
    unpack_pack_of_facts L F calibrations_roundtrip
  have hkindeq : (if L.config.isSRR then Kind.srr else Kind.laser) = L.kind := by
    have := F.kind
    cases hk : L.kind <;> cases hc : L.config.isSRR <;> simp_all
  have h1 : kVersion ≠ kClass := by decide
  have hce : L.cal.isEmpty = false := cal_nonempty L F
  simp only [save, hce, Bool.false_eq_true, if_false, hd, bind, Except.bind, pure, Except.pure]
  simp only [load, loadHeader, loadInfo, loadCal, hhdr, dictGet, getOr, bind, Except.bind, pure, Except.pure,
    if_true, if_neg h1.symm, if_neg h1, hr7, hr8, if_neg hr7', if_neg hr8', hcalrt,
    config_roundtrip fl hfl L.config F.cfg, hkindeq, hcons, mkLaser_calByName L F, unpack_pack_info L.info F.info]
  rfl

/-- non-vacuity of `load_save`: a 2-element raster laser (a 3-point `1/x` calibration with a
half-NaN row, a custom-weight calibration of another length, info with colliding keys and a
`File Path`), and a 2-layer SRR laser with SRRConfig((0,2),(1,3)) -/
def exLaser : Laser :=
  { kind := .laser, fields := [(['A'], ['<','f','8']), (['B','\t','b'], ['<','f','4'])],
    layers := [⟨[1, 2], [[1, 2], [3, 4]]⟩],
    cal := [(['A'], exCalX), (['B','\t','b'], exCalCustom)],
    config := .raster (Flt.num 1) (Flt.num 2) (Flt.num 3),
    info := [(['a','\t','b'], ['1']), (['a',' ','b'], ['2','\t']), (kFilePath, ['x'])] }

def exSRRLaser : Laser :=
  { kind := .srr, fields := [(['A'], ['<','f','8'])],
    layers := [⟨[1, 2], [[1], [2]]⟩, ⟨[1, 2], [[3], [4]]⟩],
    cal := [(['A'], Cal.default)], config := .srr exSRR, info := [] }

example : exLaser.ok = true ∧ exSRRLaser.ok = true := by decide +kernel

/-- the same laser after `c = laser.calibration.pop("A"); laser.calibration["A"] = c`: the calibration
dict lists `A` last, the data fields are unchanged; inside the quantifier, and its by-name form is the
dict of `exLaser` -/
def exLaserPerm : Laser := { exLaser with cal := [(['B','\t','b'], exCalCustom), (['A'], exCalX)] }

example : exLaserPerm.ok = true ∧ keys exLaserPerm.cal ≠ keys exLaserPerm.fields
    ∧ calByName exLaserPerm.fields exLaserPerm.cal = exLaser.cal := by decide +kernel

/-! ## historical layouts -/

/-- a 0.7-generation file of `L` (`_version`, `_class`, packed info, one `calibration_<element>`
member per element, each with its own length) loads to `normalise L` with that file version -/
theorem load_saveV07 (fl : Rat → Rat) (hfl : ∀ x, |fl x - x| ≤ |x| / 2 ^ 53) (p : PathInfo) (ver : Str)
    (L : Laser) (hL : L.ok = true) (hv : version07Ok ver = true) :
    (saveV07 fl ver L >>= load fl p) = .ok (normalise p ver L) := by
  have F := okFacts L hL
  simp only [version07Ok, Bool.and_eq_true] at hv
  obtain ⟨⟨⟨hvn, h6⟩, h7⟩, h8⟩ := hv
  obtain ⟨r6, hr6, hr6'⟩ := cmpGe_cases _ _ h6
  obtain ⟨r7, hr7, hr7'⟩ := cmpGe_cases _ _ h7
  have hr8 := cmpLt_cases _ _ h8
  obtain ⟨d, hd, hdf, hcons⟩ := data_roundtrip L F.layers F.native
  have hkindeq : (if L.config.isSRR then Kind.srr else Kind.laser) = L.kind := by
    have := F.kind
    cases hk : L.kind <;> cases hc : L.config.isSRR <;> simp_all
  have hfold := foldlM_calibrationOf L.cal F.cal [] L.fields F.nodup (by intro k _; simp [keys]) F.fsub
  simp only [saveV07, hd, bind, Except.bind, pure, Except.pure]
  simp only [load, loadHeader, loadInfo, loadCal, stripNul_of_noNulEnd ver hvn, getOr, bind, Except.bind, pure,
    Except.pure, hr6, hr7, hr8, if_neg hr6', if_neg hr7', if_true, hdf]
  simp only [getOr, bind, Except.bind, pure, Except.pure, List.nil_append] at hfold
  have hmk : ∀ info, mkLaser L.kind L.fields L.layers (calByName L.fields L.cal) L.config info
      = { L with cal := calByName L.fields L.cal, info := info } := by
    intro info
    have := mkLaser_calByName { L with cal := calByName L.fields L.cal }
      (okFacts _ (ok_calByName L hL)) info
    simp only [calByName_idem L.fields L.cal F.nodup] at this
    exact this
  simp only [hfold, config_roundtrip fl hfl L.config F.cfg, hkindeq, hcons, hmk, unpack_pack_info L.info F.info]
  rfl

/-- a 0.6-generation file of `L` (only a `name` member instead of the info) loads to `L` with the
info reduced to its name -/
theorem load_saveV06 (fl : Rat → Rat) (hfl : ∀ x, |fl x - x| ≤ |x| / 2 ^ 53) (p : PathInfo) (ver : Str)
    (L : Laser) (hL : L.ok = true) (hv : version06Ok ver = true)
    (hname : noNulEnd ((dictGet L.info kName).getD []) = true) :
    (saveV06 fl ver L >>= load fl p) = .ok (normaliseV06 p ver L) := by
  have F := okFacts L hL
  simp only [version06Ok, Bool.and_eq_true] at hv
  obtain ⟨⟨⟨hvn, h6⟩, h7⟩, h8⟩ := hv
  obtain ⟨r6, hr6, hr6'⟩ := cmpGe_cases _ _ h6
  have hr7 := cmpLt_cases _ _ h7
  have hr8 := cmpLt_cases _ _ h8
  obtain ⟨d, hd, hdf, hcons⟩ := data_roundtrip L F.layers F.native
  have hkindeq : (if L.config.isSRR then Kind.srr else Kind.laser) = L.kind := by
    have := F.kind
    cases hk : L.kind <;> cases hc : L.config.isSRR <;> simp_all
  have hfold := foldlM_calibrationOf L.cal F.cal [] L.fields F.nodup (by intro k _; simp [keys]) F.fsub
  simp only [saveV06, hd, bind, Except.bind, pure, Except.pure]
  simp only [load, loadHeader, loadInfo, loadCal, stripNul_of_noNulEnd ver hvn, stripNul_of_noNulEnd _ hname,
    getOr, bind, Except.bind, pure, Except.pure, hr6, hr7, hr8, if_neg hr6', if_true, hdf]
  simp only [getOr, bind, Except.bind, pure, Except.pure, List.nil_append] at hfold
  have hmk : ∀ info, mkLaser L.kind L.fields L.layers (calByName L.fields L.cal) L.config info
      = { L with cal := calByName L.fields L.cal, info := info } := by
    intro info
    have := mkLaser_calByName { L with cal := calByName L.fields L.cal }
      (okFacts _ (ok_calByName L hL)) info
    simp only [calByName_idem L.fields L.cal F.nodup] at this
    exact this
  simp only [hfold, config_roundtrip fl hfl L.config F.cfg, hkindeq, hcons, hmk]
  rfl

/-- **The three layouts agree.**  Files describing `L` in the 0.6, 0.7 and 0.8+ layouts all load,
and to the same laser: identical kind, fields, data layers and configuration, every element with the
calibration `L` holds under its name (whatever the order of `L`'s calibration dict); the
0.7 and 0.8+ infos are both `infoSpec L.info` finished with their own file version, the 0.6 info
is the name finished the same way. -/
theorem layouts_agree (fl : Rat → Rat) (hfl : ∀ x, |fl x - x| ≤ |x| / 2 ^ 53) (p : PathInfo)
    (ver time v07 v06 : Str) (L : Laser) (hL : L.ok = true) (hv : versionOk ver = true) (ht : noNulEnd time = true)
    (h7 : version07Ok v07 = true) (h6 : version06Ok v06 = true)
    (hname : noNulEnd ((dictGet L.info kName).getD []) = true) :
    ∃ A B C, (saveV06 fl v06 L >>= load fl p) = .ok A ∧ (saveV07 fl v07 L >>= load fl p) = .ok B ∧
      (save fl ver time L >>= load fl p) = .ok C ∧
      (A.kind = L.kind ∧ A.fields = L.fields ∧ A.layers = L.layers ∧ A.cal = calByName L.fields L.cal ∧ A.config = L.config) ∧
      (B.kind = L.kind ∧ B.fields = L.fields ∧ B.layers = L.layers ∧ B.cal = calByName L.fields L.cal ∧ B.config = L.config) ∧
      (C.kind = L.kind ∧ C.fields = L.fields ∧ C.layers = L.layers ∧ C.cal = calByName L.fields L.cal ∧ C.config = L.config) ∧
      A.info = finishInfo p v06 [(kName, (dictGet L.info kName).getD [])] ∧
      B.info = finishInfo p v07 (infoSpec L.info) ∧ C.info = finishInfo p ver (infoSpec L.info) :=
  ⟨_, _, _, load_saveV06 fl hfl p v06 L hL h6 hname, load_saveV07 fl hfl p v07 L hL h7,
    load_save fl hfl p ver time L hL hv ht,
    ⟨rfl, rfl, rfl, rfl, rfl⟩, ⟨rfl, rfl, rfl, rfl, rfl⟩, ⟨rfl, rfl, rfl, rfl, rfl⟩, rfl, rfl, rfl⟩

/-- files older than 0.6.0 are rejected with `ValueError` whatever else they contain -/
theorem load_rejects_old (fl : Rat → Rat) (p : PathInfo) (f : NpzFile) (v : Str) (hh : f.header = none)
    (hv : f.version = some v) (hlt : cmpLt v v060 = true) : load fl p f = .error .valueError := by
  have := cmpLt_cases _ _ hlt
  simp [load, loadHeader, hh, hv, this, bind, Except.bind, throw, throwThe, MonadExceptOf.throw]

example : version06Ok ['0','.','6','.','1','2'] = true ∧ version06Ok ['0','.','6'] = true
    ∧ version07Ok ['0','.','7','.','0'] = true ∧ version07Ok ['0','.','7','.','1','0'] = true
    ∧ version07Ok ['0','.','1','0','.','2'] = false ∧ version06Ok ['0','.','5','.','9'] = false := by decide

/-! ## versions -/

/-- `compare_version` compares the numeric components pairwise, first difference decides, and a
common prefix compares equal: for all version strings whose components are decimal numbers -/
theorem compareVersion_spec (va vb : Str) (as bs : List Nat)
    (ha : (splitOn '.' va).mapM parseNat = .ok as) (hb : (splitOn '.' vb).mapM parseNat = .ok bs) :
    compareVersion va vb = .ok (lexZip as bs) := by
  unfold compareVersion
  generalize splitOn '.' va = xs at ha
  generalize splitOn '.' vb = ys at hb
  induction xs generalizing ys as bs with
  | nil =>
    simp only [List.mapM_nil, pure, Except.pure, Except.ok.injEq] at ha
    subst ha
    simp [cmpComponents, lexZip]; rfl
  | cons x xs ih =>
    cases ys with
    | nil =>
      simp only [List.mapM_nil, pure, Except.pure, Except.ok.injEq] at hb
      subst hb
      cases as <;> simp [cmpComponents, lexZip] <;> rfl
    | cons y ys =>
      rw [List.mapM_cons] at ha hb
      cases hx : parseNat x with
      | error e => simp [hx, bind, Except.bind] at ha
      | ok a =>
        cases hy : parseNat y with
        | error e => simp [hy, bind, Except.bind] at hb
        | ok b =>
          cases hxs : xs.mapM parseNat with
          | error e => simp [hx, hxs, bind, Except.bind] at ha
          | ok as' =>
            cases hys : ys.mapM parseNat with
            | error e => simp [hy, hys, bind, Except.bind] at hb
            | ok bs' =>
              simp only [hx, hxs, bind, Except.bind, pure, Except.pure, Except.ok.injEq] at ha
              simp only [hy, hys, bind, Except.bind, pure, Except.pure, Except.ok.injEq] at hb
              subst ha; subst hb
              simp only [cmpComponents, hx, hy, bind, Except.bind, lexZip]
              split
              · rfl
              · split
                · rfl
                · exact ih (ys := ys) (as := as') (bs := bs') hxs hys

/-- the comparison is antisymmetric -/
theorem lexZip_antisymm (as bs : List Nat) : lexZip bs as = - lexZip as bs := by
  induction as generalizing bs with
  | nil => cases bs <;> simp [lexZip]
  | cons a as ih =>
    cases bs with
    | nil => simp [lexZip]
    | cons b bs =>
      simp only [lexZip]
      by_cases h1 : a > b
      · have : ¬ b > a := by omega
        simp [h1, this]
      · by_cases h2 : a < b
        · simp [h1, h2]
        · have h3 : ¬ b > a := by omega
          have h4 : ¬ b < a := by omega
          simp [h1, h2, ih]

/-- "0.10.2" is newer than "0.8.0" (numeric, not lexicographic on characters); "0.6" and "0.6.0"
compare equal; "0.5.12" is older than "0.6.0" -/
example : compareVersion ['0','.','1','0','.','2'] v080 = .ok 1 ∧ compareVersion ['0','.','6'] v060 = .ok 0
    ∧ compareVersion ['0','.','5','.','1','2'] v060 = .ok (-1) := by decide

/-! ## fixpoint -/

/-- **Loading is a fixpoint.**  Let `L₁ = normalise L` be what the first load returns.  Then saving
and loading `L₁` again succeeds, the result is the same Python object as `L₁` (all fields equal,
the info dicts equal as mappings — only `File Path` has moved to the end of the insertion order),
and from then on nothing changes at all.  Hypotheses beyond `load_save`: no info value ends in NUL
(any of them can become the last one), the file stem has no tab (it becomes the `Name`) and no
trailing NUL. -/
theorem load_fixpoint (fl : Rat → Rat) (hfl : ∀ x, |fl x - x| ≤ |x| / 2 ^ 53) (p : PathInfo) (ver time : Str)
    (L : Laser) (hL : L.ok = true) (hv : versionOk ver = true) (ht : noNulEnd time = true)
    (hi : infoNoNul L.info = true) (hst : tabFree p.stem = true) (hsn : noNulEnd p.stem = true) :
    (save fl ver time (normalise p ver L) >>= load fl p) = .ok (normalise p ver (normalise p ver L))
    ∧ (normalise p ver (normalise p ver L)).same (normalise p ver L)
    ∧ normalise p ver (normalise p ver (normalise p ver L)) = normalise p ver (normalise p ver L) := by
  have F := okFacts L hL
  have hvc : ver.all (fun c => c.isDigit || c == '.') = true := by
    simp only [versionOk, Bool.and_eq_true] at hv; exact hv.1.1
  have hst' : '\t' ∉ p.stem := by simpa [tabFree] using hst
  have g : Good p ver (finishInfo p ver (infoSpec L.info)) :=
    good_finish p ver L.info hi hst' hsn (tabFree_of_version ver hvc) (noNulEnd_of_version ver hvc)
  have g2 := good_next p ver _ g
  have hidem := calByName_idem L.fields L.cal F.nodup
  have e1 : normalise p ver (normalise p ver L)
      = { L with cal := calByName L.fields L.cal, info := nextInfo p (finishInfo p ver (infoSpec L.info)) } := by
    simp only [normalise, finish_spec_good p ver _ g, hidem]
  refine ⟨?_, ?_, ?_⟩
  · have hN : (normalise p ver L).ok = true := by
      have := ok_with_info { L with cal := calByName L.fields L.cal } (finishInfo p ver (infoSpec L.info))
        (ok_calByName L hL) (noNulEnd_packInfoRaw _ g.nonul)
      simpa only [normalise] using this
    exact load_save fl hfl p ver time (normalise p ver L) hN hv ht
  · rw [e1]
    exact ⟨rfl, rfl, rfl, fun _ => rfl, rfl, fun k => dictGet_nextInfo p ver _ g k⟩
  · rw [e1]
    simp only [normalise, finish_spec_good p ver _ g2, nextInfo_idem, hidem]

/-- **Chains of any length.**  One generation gives `normalise L`; every chain of two or more
generations gives exactly `normalise (normalise L)`, which is the same object as `normalise L`
(`load_fixpoint`). -/
theorem generations_fixpoint (fl : Rat → Rat) (hfl : ∀ x, |fl x - x| ≤ |x| / 2 ^ 53) (p : PathInfo) (ver time : Str)
    (L : Laser) (hL : L.ok = true) (hv : versionOk ver = true) (ht : noNulEnd time = true)
    (hi : infoNoNul L.info = true) (hst : tabFree p.stem = true) (hsn : noNulEnd p.stem = true) (n : Nat) :
    generations fl ver time p 1 L = .ok (normalise p ver L)
    ∧ generations fl ver time p (n + 2) L = .ok (normalise p ver (normalise p ver L)) := by
  have F := okFacts L hL
  have hvc : ver.all (fun c => c.isDigit || c == '.') = true := by
    simp only [versionOk, Bool.and_eq_true] at hv; exact hv.1.1
  have hst' : '\t' ∉ p.stem := by simpa [tabFree] using hst
  have g : Good p ver (finishInfo p ver (infoSpec L.info)) :=
    good_finish p ver L.info hi hst' hsn (tabFree_of_version ver hvc) (noNulEnd_of_version ver hvc)
  have hidem := calByName_idem L.fields L.cal F.nodup
  have h1 : generations fl ver time p 1 L = .ok (normalise p ver L) := by
    rw [generations_succ, load_save fl hfl p ver time L hL hv ht]; rfl
  refine ⟨h1, ?_⟩
  rw [generations_succ, load_save fl hfl p ver time L hL hv ht]
  have := generations_good fl p ver time (fun L' h => load_save fl hfl p ver time L' h hv ht)
    { L with cal := calByName L.fields L.cal } (ok_calByName L hL) hidem n _ g
  simp only [normalise, finish_spec_good p ver _ g, hidem] at this ⊢
  exact this

/-- non-vacuity of the fixpoint hypotheses: info with colliding keys and a `File Path` entry -/
example : infoNoNul [(['a','\t','b'], ['1']), (['a',' ','b'], ['2','\t']), (kFilePath, ['x', NUL])] = true
    ∧ tabFree ['l','a','s','e','r'] = true ∧ noNulEnd ['l','a','s','e','r'] = true
    ∧ versionOk ['0','.','1','0','.','2'] = true := by decide

/-! ## no elements, arbitrary version strings, legacy class names, old layouts against `specOld` -/

/-- **A laser without elements cannot be saved**: `pack_calibration` takes `max()` of an empty
sequence.  (`Laser.ok` therefore asks for an element.) -/
theorem save_no_elements (fl : Rat → Rat) (ver time : Str) (L : Laser) (h : L.cal = []) :
    save fl ver time L = .error .valueError := by
  simp [save, h]; rfl

/-- the constructors give one calibration per element: no element, no calibration -/
example : (mkLaser .laser [] [⟨[1, 1], [[]]⟩] [] (.raster fzero fzero fzero) []).cal = [] := rfl

theorem ok_has_element (L : Laser) (h : L.ok = true) : L.fields ≠ [] := by
  simp only [Laser.ok, Bool.and_eq_true] at h
  intro e
  simp [e] at h

/-- **`compare_version` meets its specification on every pair of strings** (no hypothesis): the
recursion over the zipped components equals "first decisive pair decides".  In particular components
beyond the shorter version and components after the first difference are never parsed. -/
theorem compareVersion_eq_spec (va vb : Str) : compareVersion va vb = compareSpec va vb :=
  cmpComponents_eq_spec _ _

/-- "0.6.0.x" (non-numeric tail beyond the three components of "0.6.0") compares equal; "1.x" is newer
(decided before `x` is read); "0.x" and "0.6.0rc1" raise; the lengths may differ either way -/
example : compareSpec ['0','.','6','.','0','.','x'] v060 = .ok 0 ∧ compareSpec ['1','.','x'] v060 = .ok 1
    ∧ compareSpec ['0','.','x'] v060 = .error .valueError
    ∧ compareSpec ['0','.','6','.','0','r','c','1'] v060 = .error .valueError
    ∧ compareSpec ['0','.','7'] v060 = .ok 1 ∧ compareSpec ['0'] v060 = .ok 0
    ∧ compareSpec ['0','.','5','.','x'] v060 = .ok (-1) := by decide

/-- the only exception `compare_version` raises is `ValueError` -/
theorem compareVersion_error (va vb : Str) (e : Err) (h : compareVersion va vb = .error e) : e = .valueError := by
  rw [compareVersion_eq_spec] at h
  unfold compareSpec at h
  split at h
  · cases h
  · split at h
    · cases h
    · cases h; rfl

/-- the legacy class names select the same loader branch as the current ones -/
theorem loadConfig_legacy_class (fl : Rat → Rat) (c : Str) (a : CfgArr) :
    loadConfig fl (legacyOf c) a = loadConfig fl c a := loadConfig_legacy fl c a

/-- **Legacy class names.**  Any file loads to the same result (laser or exception) when its
`_class` member carries the legacy name (`Laser` for `Raster`, `SRRLaser` for `SRR`). -/
theorem load_legacy_class (fl : Rat → Rat) (p : PathInfo) (f : NpzFile) :
    load fl p (f.mapCls legacyOf) = load fl p f := load_legacy_class_aux fl p f

example : legacyOf (classOf (.raster fzero fzero fzero)) = ['L','a','s','e','r']
    ∧ legacyOf (classOf (.srr exSRR)) = ['S','R','R','L','a','s','e','r']
    ∧ legacyOf (classOf (.spot fzero fzero)) = ['S','p','o','t'] := by decide

/-- a 0.7-layout (and a 0.6-layout) file written with the legacy class names loads to the same laser -/
theorem load_saveV07_legacy (fl : Rat → Rat) (hfl : ∀ x, |fl x - x| ≤ |x| / 2 ^ 53) (p : PathInfo) (ver : Str)
    (L : Laser) (hL : L.ok = true) (hv : version07Ok ver = true) :
    ((saveV07 fl ver L).map (·.mapCls legacyOf) >>= load fl p) = .ok (normalise p ver L) := by
  have := load_saveV07 fl hfl p ver L hL hv
  cases h : saveV07 fl ver L with
  | error e => rw [h] at this; cases this
  | ok f =>
    rw [h] at this
    simp only [Except.map, bind, Except.bind] at this ⊢
    rw [load_legacy_class]; exact this

theorem load_saveV06_legacy (fl : Rat → Rat) (hfl : ∀ x, |fl x - x| ≤ |x| / 2 ^ 53) (p : PathInfo) (ver : Str)
    (L : Laser) (hL : L.ok = true) (hv : version06Ok ver = true)
    (hname : noNulEnd ((dictGet L.info kName).getD []) = true) :
    ((saveV06 fl ver L).map (·.mapCls legacyOf) >>= load fl p) = .ok (normaliseV06 p ver L) := by
  have := load_saveV06 fl hfl p ver L hL hv hname
  cases h : saveV06 fl ver L with
  | error e => rw [h] at this; cases this
  | ok f =>
    rw [h] at this
    simp only [Except.map, bind, Except.bind] at this ⊢
    rw [load_legacy_class]; exact this

/-- files whose declared version is older than 0.6.0, or cannot be compared with it (a non-numeric
component among the first three), are rejected with `ValueError` whatever else they contain -/
theorem load_rejects (fl : Rat → Rat) (p : PathInfo) (f : NpzFile) (v : Str) (hh : f.header = none)
    (hv : f.version = some v) (hlt : cmpGe v v060 = false) : load fl p f = .error .valueError := by
  unfold cmpGe at hlt
  cases hc : compareVersion v v060 with
  | error e =>
    have := compareVersion_error _ _ _ hc
    subst this
    simp [load, loadHeader, hh, hv, hc, bind, Except.bind]
  | ok r =>
    have : r = -1 := by simpa [hc] using hlt
    subst this
    simp [load, loadHeader, hh, hv, hc, bind, Except.bind, throw, throwThe, MonadExceptOf.throw]

/-- **Old layouts against their specification.**  A 0.6-layout file describing `L` and declaring
version `ver` loads to `specOld`: to the laser with its name when `ver` is of the 0.6 generation, and
is rejected with `ValueError` when `ver` is older than 0.6.0 or not comparable with it.  (A 0.6-layout
file declaring 0.7.0 or newer lacks the members that version is expected to have; the property does
not speak about such files, `hv` excludes them.) -/
theorem loadV06_eq_spec (fl : Rat → Rat) (hfl : ∀ x, |fl x - x| ≤ |x| / 2 ^ 53) (p : PathInfo) (ver : Str)
    (L : Laser) (hL : L.ok = true) (hvn : noNulEnd ver = true)
    (hname : noNulEnd ((dictGet L.info kName).getD []) = true)
    (hv : version06Ok ver = true ∨ cmpGe ver v060 = false) :
    (saveV06 fl ver L >>= load fl p) = specOld true p ver L := by
  rcases hv with hv | hv
  · rw [load_saveV06 fl hfl p ver L hL hv hname]
    simp only [version06Ok, Bool.and_eq_true] at hv
    rw [specOld_of_cmpGe _ _ _ _ hv.1.1.2]; rfl
  · obtain ⟨f, hf, hh, hfv⟩ := saveV06_ok fl ver L (layersOk_of_ok L hL) (native_of_ok L hL)
    rw [stripNul_of_noNulEnd ver hvn] at hfv
    rw [hf, specOld_of_not_cmpGe _ _ _ _ hv]
    exact load_rejects fl p f ver hh hfv hv

/-- the same for the 0.7 layout -/
theorem loadV07_eq_spec (fl : Rat → Rat) (hfl : ∀ x, |fl x - x| ≤ |x| / 2 ^ 53) (p : PathInfo) (ver : Str)
    (L : Laser) (hL : L.ok = true) (hvn : noNulEnd ver = true)
    (hv : version07Ok ver = true ∨ cmpGe ver v060 = false) :
    (saveV07 fl ver L >>= load fl p) = specOld false p ver L := by
  rcases hv with hv | hv
  · rw [load_saveV07 fl hfl p ver L hL hv]
    simp only [version07Ok, Bool.and_eq_true] at hv
    rw [specOld_of_cmpGe _ _ _ _ hv.1.1.2]; rfl
  · obtain ⟨f, hf, hh, hfv⟩ := saveV07_ok fl ver L (layersOk_of_ok L hL) (native_of_ok L hL)
    rw [stripNul_of_noNulEnd ver hvn] at hfv
    rw [hf, specOld_of_not_cmpGe _ _ _ _ hv]
    exact load_rejects fl p f ver hh hfv hv

/-- both branches of the hypothesis are inhabited: generation versions with a non-numeric tail or
fewer components, rejected and uncomparable versions -/
example : version06Ok ['0','.','6','.','0','.','x'] = true ∧ version06Ok ['0','.','6'] = true
    ∧ version07Ok ['0','.','7','.','3','.','d','e','v','1'] = true
    ∧ cmpGe ['0','.','5','.','9'] v060 = false ∧ cmpGe ['0','.','6','.','0','r','c','1'] v060 = false
    ∧ cmpGe ['0','.','x'] v060 = false := by decide

/-! ## calibrations are associated by name, for every order of the calibration dict -/

/-- **Every element comes back with its own calibration.**  For a laser inside the quantifier —
whatever the order of its calibration dict — the loaded laser's calibration dict has the elements as
keys, in element order, and holds under every key exactly what the saved laser held under it: the two
dicts are equal as Python dicts. -/
theorem load_save_calibration_by_name (fl : Rat → Rat) (hfl : ∀ x, |fl x - x| ≤ |x| / 2 ^ 53) (p : PathInfo)
    (ver time : Str) (L : Laser) (hL : L.ok = true) (hv : versionOk ver = true) (ht : noNulEnd time = true) :
    ∃ R, (save fl ver time L >>= load fl p) = .ok R ∧ keys R.cal = keys L.fields
      ∧ ∀ k, dictGet R.cal k = dictGet L.cal k :=
  ⟨_, load_save fl hfl p ver time L hL hv ht, keys_calByName _ _, dictGet_calByName_ok L (okFacts L hL)⟩

/-- **The order of the calibration dict is irrelevant**: saving the laser with its calibration dict in
any other order (any permutation `d` of it: an entry popped and re-inserted, the dict reassigned,
rebuilt by `rename`) and loading gives the same object as saving and loading the laser itself. -/
theorem load_save_cal_order_irrelevant (fl : Rat → Rat) (hfl : ∀ x, |fl x - x| ≤ |x| / 2 ^ 53) (p : PathInfo)
    (ver time : Str) (L : Laser) (hL : L.ok = true) (hv : versionOk ver = true) (ht : noNulEnd time = true)
    (d : List (Str × Cal)) (hd : d.Perm L.cal) :
    (save fl ver time { L with cal := d } >>= load fl p) = (save fl ver time L >>= load fl p) := by
  have F := okFacts L hL
  have hkeys : (keys d).Perm (keys L.cal) := by unfold keys; exact hd.map _
  have hdn : (keys d).Nodup := hkeys.nodup_iff.mpr F.cnodup
  have hL' : ({ L with cal := d } : Laser).ok = true :=
    ok_with_cal L hL d hdn (fun k hk => hkeys.mem_iff.mp hk) (fun k hk => hkeys.mem_iff.mpr hk)
      (fun kc hkc => F.cal kc (hd.mem_iff.mp hkc))
  rw [load_save fl hfl p ver time _ hL' hv ht, load_save fl hfl p ver time L hL hv ht]
  simp only [normalise]
  rw [calByName_congr L.fields d L.cal (fun k _ => dictGet_perm d L.cal hd hdn k)]

/-- non-vacuity: `exLaserPerm` is `exLaser` with a permuted calibration dict -/
example : exLaserPerm.cal.Perm exLaser.cal := List.Perm.swap _ _ _

/-- the same for the two historical layouts: the per-element members are looked up by name -/
theorem load_saveV07_cal_order_irrelevant (fl : Rat → Rat) (hfl : ∀ x, |fl x - x| ≤ |x| / 2 ^ 53) (p : PathInfo)
    (ver : Str) (L : Laser) (hL : L.ok = true) (hv : version07Ok ver = true)
    (d : List (Str × Cal)) (hd : d.Perm L.cal) :
    (saveV07 fl ver { L with cal := d } >>= load fl p) = (saveV07 fl ver L >>= load fl p) := by
  have F := okFacts L hL
  have hkeys : (keys d).Perm (keys L.cal) := by unfold keys; exact hd.map _
  have hdn : (keys d).Nodup := hkeys.nodup_iff.mpr F.cnodup
  have hL' : ({ L with cal := d } : Laser).ok = true :=
    ok_with_cal L hL d hdn (fun k hk => hkeys.mem_iff.mp hk) (fun k hk => hkeys.mem_iff.mpr hk)
      (fun kc hkc => F.cal kc (hd.mem_iff.mp hkc))
  rw [load_saveV07 fl hfl p ver _ hL' hv, load_saveV07 fl hfl p ver L hL hv]
  simp only [normalise]
  rw [calByName_congr L.fields d L.cal (fun k _ => dictGet_perm d L.cal hd hdn k)]

/-! ## only the name / path / version keys are added -/

/-- **What `load` adds to the info.**  `File Version` is the file's version, `File Path` the path
loaded from, `Name` the stored name or else the file stem; every other key reads as in the stored
info; and the keys are those of the stored info plus exactly these three. -/
theorem finishInfo_spec (p : PathInfo) (ver : Str) (i : Info) (k : Str) :
    dictGet (finishInfo p ver i) k =
        (if k = kFileVersion then some ver
         else if k = kFilePath then some p.resolved
         else if k = kName then some ((dictGet i kName).getD p.stem)
         else dictGet i k)
    ∧ (k ∈ keys (finishInfo p ver i) ↔ k ∈ keys i ∨ k = kName ∨ k = kFilePath ∨ k = kFileVersion) :=
  ⟨dictGet_finishInfo p ver i k, mem_keys_finishInfo p ver i k⟩

example : dictGet (finishInfo ⟨['s'], ['/','s']⟩ ['1'] [(['k'], ['v'])]) kName = some ['s']
    ∧ dictGet (finishInfo ⟨['s'], ['/','s']⟩ ['1'] [(kName, ['n']), (kFilePath, ['o'])]) kName = some ['n']
    ∧ dictGet (finishInfo ⟨['s'], ['/','s']⟩ ['1'] [(kName, ['n']), (kFilePath, ['o'])]) kFilePath = some ['/','s'] := by
  decide

/-! ## histories: save, change the object through its public mutators, save again -/

/-- **Every file of a history describes the object as it is at that moment.**  Run any sequence of
steps — calls of the public mutators (`Op`: calibration dict and calibration edits, info edits,
configuration attributes, `warmup` and `subpixel_offsets` setters, `set_equal_subpixel_offsets`,
configuration replaced, `add` / `remove` / `rename`), `save` + `load`, going on with the loaded object —
through the mechanism (`save` writes a file, `load` reads it).  If every state that gets saved is inside
the quantifier (`historyOk`), the object returned by each load is `normalise` of the state the laser had
when it was saved (`specHistory` never looks at a file, let alone an earlier one). -/
theorem history_roundtrip (fl : Rat → Rat) (hfl : ∀ x, |fl x - x| ≤ |x| / 2 ^ 53) (ver time : Str)
    (hv : versionOk ver = true) (ht : noNulEnd time = true)
    (steps : List Step) (cur : Laser) (last : Option Laser) (h : historyOk fl ver steps cur last = true) :
    runHistory fl ver time steps cur last = specHistory fl ver steps cur last :=
  runHistory_eq_spec fl ver time (fun p L hL => load_save fl hfl p ver time L hL hv ht) steps cur last h

/-- SRRConfig((0,3),(2,3)) with 6 warm-up samples at scan time 1/4 -/
def exSRR2 : SRR :=
  { spotsize := Flt.num 1, speed := Flt.num 2, scantime := 1 / 4, warmupN := 6, subSize := 3, subOffsets := [0, 2] }

def exSRRLaser2 : Laser := { exSRRLaser with config := .srr exSRR2 }

def exPath : PathInfo := ⟨['s'], ['/','s']⟩

/-- save, `set_equal_subpixel_offsets(2)`, move a calibration to the end of the dict, save, go on with
the loaded object, set the warm-up to 2 s, save -/
def exSteps : List Step :=
  [.save exPath, .op (.cfg (.equalOffsets 2)), .op (.calMoveEnd ['A']), .save exPath, .adopt,
   .op (.cfg (.warmup 2)), .op (.infoSet ['k'] ['v','\t']), .save exPath]

/-- non-vacuity of `history_roundtrip`: the hypothesis holds, three files are written, the second load
has the equal offsets (size 2, offsets 0 and 1), not those of the first file, the third 8 warm-up samples -/
example : historyOk id ['0','.','1','0','.','2'] exSteps exSRRLaser2 none = true
    ∧ (specHistory id ['0','.','1','0','.','2'] exSteps exSRRLaser2 none).map (fun r => r.toOption.map (·.config))
      = [some (.srr exSRR2), some (.srr { exSRR2 with subSize := 2, subOffsets := [0, 1] }),
         some (.srr { exSRR2 with subSize := 2, subOffsets := [0, 1], warmupN := 8 })] := by
  decide +kernel

/-- `c = laser.calibration.pop(k); laser.calibration[k] = c` keeps a laser inside the quantifier, moves
the entry to the end of the dict and changes nothing of the mapping -/
theorem calMoveEnd_ok (fl : Rat → Rat) (L : Laser) (hL : L.ok = true) (k : Str) (hk : k ∈ keys L.cal) :
    ∃ L', applyOp fl L (.calMoveEnd k) = .ok L' ∧ L'.ok = true
      ∧ keys L'.cal = (keys L.cal).filter (· ≠ k) ++ [k] ∧ ∀ k', dictGet L'.cal k' = dictGet L.cal k' :=
  ok_calMoveEnd fl L hL k hk

example : applyOp id exLaser (.calMoveEnd ['A']) = .ok exLaserPerm := by decide +kernel

/-- the two writers of the sub-pixel offsets keep an SRR configuration inside the quantifier:
`set_equal_subpixel_offsets(w)` for `w ≥ 1`, the `subpixel_offsets` setter for a non-empty list of
offsets with non-zero sizes -/
theorem offsets_writers_ok (c : SRR) (hc : c.ok = true) :
    (∀ w, 0 < w → (c.setEqualOffsets w).ok = true)
    ∧ ∀ o : List (Int × Int), o ≠ [] → (∀ od ∈ o, od.2 ≠ 0) → (c.setOffsets o).ok = true :=
  ⟨ok_setEqualOffsets c hc, ok_setOffsets c hc⟩

example : (exSRR2.setEqualOffsets 4).subOffsets = [0, 1, 2, 3] ∧ (exSRR2.setOffsets [(0, 2), (1, 3), (2, 4)]).subSize = 12
    ∧ (exSRR2.setOffsets [(0, 2), (1, 3), (2, 4)]).subOffsets = [0, 4, 6] := by decide +kernel

/-- the `warmup` setter under float rounding: when the exact quotient `seconds / scantime` is at most
2⁴⁰ in size and at least 2⁻¹⁰ away from every half-integer (`warmupDetermined`, evaluated by the driver
for every generated history), every rounding function within relative error 2⁻⁵³ gives the number of
samples the exact evaluation gives -/
theorem warmup_setter_robust (fl : Rat → Rat) (hfl : ∀ x, |fl x - x| ≤ |x| / 2 ^ 53) (c : SRR) (seconds : Rat)
    (h : warmupDetermined seconds c.scantime = true) : c.setWarmup fl seconds = c.setWarmup id seconds := by
  simp only [SRR.setWarmup, id, setWarmup_robust fl hfl seconds c.scantime h]

example : warmupDetermined (43 / 10) (1 / 10) = true ∧ warmupDetermined (5 / 4) (1 / 2) = false := by decide +kernel

/-! ## an old file brought up to date -/

/-- **Old files upgrade cleanly.**  Load a 0.6- or 0.7-layout file of `L`, save the loaded object with
the current `save` and load that file: the result is `normalise` (current version) of what the old file
loaded to — data, calibrations (by name) and configuration of `L`, the info the old layout carried, and
`File Version` now the current one.  Hypotheses beyond those of `load_saveV06` / `load_saveV07`: the
current version string is one `save` writes, no info value and neither the name nor the file stem ends
in NUL. -/
theorem old_layout_upgrade (fl : Rat → Rat) (hfl : ∀ x, |fl x - x| ≤ |x| / 2 ^ 53) (p : PathInfo)
    (ver time v07 v06 : Str) (L : Laser) (hL : L.ok = true) (hv : versionOk ver = true) (ht : noNulEnd time = true)
    (h7 : version07Ok v07 = true) (h6 : version06Ok v06 = true)
    (hname : noNulEnd ((dictGet L.info kName).getD []) = true)
    (hi : infoNoNul L.info = true) (hsn : noNulEnd p.stem = true) :
    (saveV06 fl v06 L >>= load fl p >>= fun L1 => save fl ver time L1 >>= load fl p)
        = .ok (normalise p ver (normaliseV06 p v06 L))
    ∧ (saveV07 fl v07 L >>= load fl p >>= fun L1 => save fl ver time L1 >>= load fl p)
        = .ok (normalise p ver (normalise p v07 L)) := by
  have hv6n : noNulEnd v06 = true := by
    simp only [version06Ok, Bool.and_eq_true] at h6; exact h6.1.1.1
  have hv7n : noNulEnd v07 = true := by
    simp only [version07Ok, Bool.and_eq_true] at h7; exact h7.1.1.1
  constructor
  · rw [load_saveV06 fl hfl p v06 L hL h6 hname]
    have hok : (normaliseV06 p v06 L).ok = true := by
      have := ok_loaded L hL (finishInfo p v06 [(kName, (dictGet L.info kName).getD [])])
        (infoNoNul_finishInfo p v06 _ (by intro kv hkv; simp only [List.mem_singleton] at hkv; rw [hkv]; exact hname) hsn hv6n)
      simpa only [normaliseV06] using this
    exact load_save fl hfl p ver time _ hok hv ht
  · rw [load_saveV07 fl hfl p v07 L hL h7]
    have hok : (normalise p v07 L).ok = true := by
      have := ok_loaded L hL (finishInfo p v07 (infoSpec L.info))
        (infoNoNul_finishInfo p v07 _ (noNulEnd_infoSpec_values L.info hi) hsn hv7n)
      simpa only [normalise] using this
    exact load_save fl hfl p ver time _ hok hv ht

/-- after the upgrade `File Version` is the current version, whatever the old file declared -/
example : dictGet (normalise exPath ['0','.','1','0','.','2'] (normaliseV06 exPath ['0','.','6','.','7'] exLaser)).info kFileVersion
    = some ['0','.','1','0','.','2'] := by decide +kernel

/-- the SRR constructor under float rounding: when the exact quotient `warmup / scantime` is decided
(`warmupDetermined`), every rounding function within relative error 2⁻⁵³ builds the state the exact
evaluation builds (the driver constructs the initial state of a history exactly) -/
theorem srr_constructor_robust (fl : Rat → Rat) (hfl : ∀ x, |fl x - x| ≤ |x| / 2 ^ 53) (a b : Flt) (s w : Rat)
    (o : List (Int × Int)) (h : warmupDetermined w s = true) : SRR.mk' fl a b s w o = SRR.mk' id a b s w o := by
  simp only [SRR.mk', id, setWarmup_robust fl hfl w s h]

/-! ## SRR layers are stacked into a native-order array (known finding `C01-srr-byteorder`) -/

/-- `exSRRLaser` with its field stored big-endian -/
def exSRRSwapped : Laser := { exSRRLaser with fields := [(['A'], ['>','f','8'])] }

/-- **The byte order of SRR fields is not kept** — the model follows the code here, and `Laser.ok`
excludes such lasers: the stacked array `save` writes is native, so the laser loads with `'<f8'`
(and would not equal `normalise`, which keeps `'>f8'`).  A `Laser` (one array) keeps its byte order:
`load_save` covers it. -/
theorem srr_byteorder_not_kept :
    exSRRSwapped.ok = false
    ∧ (save id ['0','.','1','0','.','2'] ['0'] exSRRSwapped >>= load id exPath).map (·.fields) = .ok [(['A'], ['<','f','8'])]
    ∧ (normalise exPath ['0','.','1','0','.','2'] exSRRSwapped).fields = [(['A'], ['>','f','8'])]
    ∧ ({ exLaser with fields := [(['A'], ['>','f','8']), (['B','\t','b'], ['>','i','2'])] } : Laser).ok = true := by
  decide +kernel

/-- **Configuration calls keep the configuration inside the quantifier and never change its class**:
every attribute assignment, the `subpixel_offsets` setter (non-zero sizes), `set_equal_subpixel_offsets`
and the `warmup` setter (at most 2⁵⁰ samples) applied to a configuration that is `Config.ok` give one that
is — so `config_roundtrip`, hence `history_roundtrip`, applies to the file written after the call. -/
theorem config_calls_ok (fl : Rat → Rat) (c c' : Config) (hc : c.ok = true) (o : CfgOp) (h : c.apply fl o = .ok c')
    (ho : match o with
      | .offsets ofs => ∀ od ∈ ofs, od.2 ≠ 0
      | .warmup s => ∀ r, c = .srr r → (roundHalfEven (fl (s / r.scantime))).natAbs ≤ 2 ^ 50
      | _ => True) : c'.ok = true ∧ c'.isSRR = c.isSRR :=
  ⟨apply_ok fl c c' hc o h ho, apply_isSRR fl c c' o h⟩

example : (Config.srr exSRR2).apply id (.equalOffsets 3) = .ok (.srr { exSRR2 with subSize := 3, subOffsets := [0, 1, 2] })
    ∧ (Config.srr exSRR2).apply id (.scantime (fltOfRat (1 / 2))) = .ok (.srr { exSRR2 with scantime := 1 / 2 })
    ∧ (Config.raster fzero fzero fzero).apply id (.equalOffsets 3) = .error .unmodelled := by decide +kernel

end Pew.Npz
