import PewProofs.Npz

/-! # C01 — property theorems (statements only depend on `PewModel.Npz`) -/
namespace Pew.Npz

/-- Info survives `pack_info` → NumPy storage → `unpack_info` as its tab-normalised form without
`File Path`, as a dict (a key repeated after tab replacement keeps its first place and takes the
last value).  Every info list; hypothesis: the packed string does not end in NUL (NumPy `U`
storage would strip it — known finding C01-trailing-nul). -/
theorem unpack_pack_info (info : Info) (h : noNulEnd (packInfoRaw info) = true) :
    unpackInfo (packInfo info) = infoSpec info := by
  unfold packInfo
  rw [stripNul_of_noNulEnd _ h, unpack_packRaw]

example : noNulEnd (packInfoRaw [(['a','\t','b'], ['1','\t']), (['a',' ','b'], ['2']), (kFilePath, ['x'])]) = true ∧
    infoSpec [(['a','\t','b'], ['1','\t']), (['a',' ','b'], ['2']), (kFilePath, ['x'])] = [(['a',' ','b'], ['2'])] := by
  decide

/-- `Calibration.from_array (to_array cal size) = cal` for every calibration inside the quantifier
(`Cal.ok`: unit and weighting name ≤ 32 code points without trailing NUL; rsq / error not NaN; no
row that is NaN in x, y *and* weight; built-in weighting ⇒ no stored weights, custom ⇒ one weight
per point) and every padding size ≥ the number of points.  Covers 0 points, partially-NaN rows,
custom weights (NaN weights included) and all seven built-in weightings. -/
theorem cal_roundtrip (c : Cal) (size : Nat) (hok : c.ok = true) (_hsize : c.points.length ≤ size) :
    Cal.fromArray (c.toArray size) = c := by
  simp only [Cal.ok, Bool.and_eq_true, decide_eq_true_eq, Bool.not_eq_true'] at hok
  obtain ⟨⟨⟨⟨⟨⟨⟨hul, hun⟩, hwl⟩, hwn⟩, hrsq⟩, herr⟩, hrows⟩, hw⟩ := hok
  have hlen : c.effWeights.length = c.points.length := by
    unfold Cal.effWeights
    split
    · split <;> simp [derivedWeights_length]
    · rename_i hk
      simpa [hk] using hw
  have hrows' := filter_padded c.effWeights c.points (size - c.effWeights.length) (size - c.points.length) hlen hrows
  unfold Cal.fromArray Cal.toArray
  simp only [hrows', npStr_id 32 c.unit hul hun, npStr_id 32 c.weighting hwl hwn,
    optOfNaN_getD _ hrsq, optOfNaN_getD _ herr]
  rw [List.map_snd_zip (by omega), List.map_fst_zip (by omega)]
  cases c with
  | mk i g u r e p wn ws =>
    simp only [Cal.mk.injEq, true_and]
    split
    · rename_i hk
      simp only [hk, if_true, beq_iff_eq] at hw
      exact hw.symm
    · rename_i hk
      simp [Cal.effWeights, hk]

/-- a 3-point `1/x` calibration with a half-NaN row -/
def exCalX : Cal :=
  { intercept := fzero, gradient := fone, unit := ['p','p','m'], rsq := some (Flt.num 5), error := none,
    points := [(Flt.num 1, Flt.num 2), (qnan, Flt.num 4), (Flt.num 3, Flt.num 6)],
    weighting := ['1','/','x'], weights := [] }

/-- a custom-weight calibration of another length, with a NaN weight on a half-NaN row -/
def exCalCustom : Cal :=
  { intercept := fzero, gradient := fone, unit := [], rsq := none, error := some (Flt.num 9),
    points := [(Flt.num 1, Flt.num 1), (Flt.num 2, qnan)],
    weighting := ['c','u','s','t','o','m'], weights := [Flt.num 7, qnan] }

/-- non-vacuity of `cal_roundtrip` -/
example : exCalX.ok = true ∧ exCalCustom.ok = true ∧ Cal.default.ok = true := by decide

/-- The packed calibration table unpacks to the dict it was made of: same elements in the same
order, every calibration intact although all were padded to the common (largest) length.
Hypotheses: distinct element names without trailing NUL, every calibration inside the quantifier. -/
theorem calibrations_roundtrip (d : List (Str × Cal)) (hn : (keys d).Nodup)
    (hk : ∀ kc ∈ d, noNulEnd kc.1 = true) (hc : ∀ kc ∈ d, kc.2.ok = true) :
    unpackCalibration (packCalibration d) = d := by
  unfold unpackCalibration packCalibration
  rw [List.map_map]
  have : d.map ((fun ea : Str × CalArr => (ea.1, Cal.fromArray ea.2)) ∘
      fun kc : Str × Cal => (stripNul kc.1, kc.2.toArray (maxLen d))) = d := by
    conv => rhs; rw [← List.map_id d]
    apply List.map_congr_left
    intro kc hkc
    simp only [Function.comp, id]
    rw [stripNul_of_noNulEnd _ (hk kc hkc), cal_roundtrip _ _ (hc kc hkc) (le_maxLen d kc hkc)]
  rw [this]
  exact dictOfList_of_nodup d hn

/-- non-vacuity: two elements whose calibrations have 3 and 2 points -/
example : (keys [(['A'], exCalX), (['B','\t','b'], exCalCustom)]).Nodup ∧ maxLen [(['A'], exCalX), (['B','\t','b'], exCalCustom)] = 3 := by
  decide

/-- the three configuration classes survive `to_array` → `from_array` with the class dispatch of
`load`; for `SRRConfig` the constructor's recomputation reproduces the internal state (warm-up in
samples, common sub-pixel size, offsets) for every positive scan time, every non-empty offset list
and |warm-up| ≤ 2⁵⁰ samples, with every float operation within relative error 2⁻⁵³ (`hfl`) -/
theorem config_roundtrip (fl : Rat → Rat) (hfl : ∀ x, |fl x - x| ≤ |x| / 2 ^ 53) (c : Config) (hok : c.ok = true) :
    loadConfig fl (classOf c) (c.toArray fl) = .ok (if c.isSRR then Kind.srr else Kind.laser, c) :=
  loadConfig_toArray fl hfl c hok

/-- SRRConfig((0,2),(1,3)) with 125 warm-up samples at scan time 1/10 (state: size 6, offsets 0 and 2) -/
def exSRR : SRR :=
  { spotsize := Flt.num 1, speed := Flt.num 2, scantime := 1 / 10, warmupN := 125, subSize := 6, subOffsets := [0, 2] }

example : exSRR.ok = true ∧ SRR.mk' id (Flt.num 1) (Flt.num 2) (1 / 10) (25 / 2) [(0, 2), (1, 3)] = exSRR := by decide +kernel

/-- exact evaluation (`fl = id`, what the driver runs) satisfies the rounding hypothesis -/
example : ∀ x : Rat, |id x - x| ≤ |x| / 2 ^ 53 := by
  intro x; simp only [id, sub_self, abs_zero]; positivity

/-- **Saving then loading gives the laser back**: for every laser inside the quantifier
(`Laser.ok`: distinct element names without trailing NUL, one calibration per element in element
order, every calibration `Cal.ok`, class and configuration matching, one layer or ≥ 2 layers of
equal shape, packed info not ending in NUL) `load (save L)` succeeds and returns `normalise L`:
data, dtypes, names, calibrations and configuration identical; info with tabs as spaces, without the
old `File Path`, plus `Name` / `File Path` / `File Version`. -/
theorem load_save (fl : Rat → Rat) (hfl : ∀ x, |fl x - x| ≤ |x| / 2 ^ 53) (p : PathInfo) (ver time : Str)
    (L : Laser) (hL : L.ok = true) (hv : versionOk ver = true) (ht : noNulEnd time = true) :
    (save fl ver time L >>= load fl p) = .ok (normalise p ver L) := by
  simp only [Laser.ok, Bool.and_eq_true, decide_eq_true_eq, beq_iff_eq, List.all_eq_true] at hL
  obtain ⟨⟨⟨⟨⟨⟨⟨hnul, hnodup⟩, hkeys⟩, hcal⟩, hkind⟩, hcfg⟩, hlayers⟩, hinfo⟩ := hL
  obtain ⟨htab, ⟨r7, hr7, hr7'⟩, ⟨r8, hr8, hr8'⟩⟩ := versionOk_cases ver hv
  obtain ⟨d, hd, hdf, hcons⟩ := data_roundtrip L hlayers
  have hhdr := header_unpack ver (classOf L.config) time ht
  rw [tabToSpace_of_tabFree ver htab, tabToSpace_classOf] at hhdr
  have hcalrt : unpackCalibration (packCalibration L.cal) = L.cal := by
    apply calibrations_roundtrip
    · rw [hkeys]; exact hnodup
    · intro kc hkc
      apply hnul
      rw [← hkeys]
      exact List.mem_map_of_mem hkc
    · intro kc hkc; exact hcal kc hkc
  have hkindeq : (if L.config.isSRR then Kind.srr else Kind.laser) = L.kind := by
    cases hk : L.kind <;> cases hc : L.config.isSRR <;> simp_all
  have hmk : ∀ info, mkLaser L.kind L.fields L.layers L.cal L.config info = { L with info := info } := by
    intro info
    unfold mkLaser
    have : dictUpdate (L.fields.map fun f => (f.1, Cal.default)) L.cal = L.cal := by
      apply dictUpdate_same_keys
      · rw [hkeys]; simp [keys, List.map_map, Function.comp_def]
      · rw [hkeys]; exact hnodup
    rw [this]
  have h1 : kVersion ≠ kClass := by decide
  simp only [save, hd, bind, Except.bind, pure, Except.pure]
  simp only [load, loadHeader, loadInfo, loadCal, hhdr, dictGet, getOr, bind, Except.bind, pure, Except.pure,
    if_true, if_neg h1.symm, if_neg h1, hr7, hr8, if_neg hr7', if_neg hr8', hcalrt,
    config_roundtrip fl hfl L.config hcfg, hkindeq, hcons, hmk, unpack_pack_info L.info hinfo]
  rfl

/-! ## fixpoint -/

theorem ok_with_info (L : Laser) (X : Info) (hL : L.ok = true) (hX : noNulEnd (packInfoRaw X) = true) :
    ({ L with info := X } : Laser).ok = true := by
  simp only [Laser.ok, Bool.and_eq_true] at hL ⊢
  exact ⟨hL.1, hX⟩

theorem noNulEnd_of_version (ver : Str) (h : ver.all (fun c => c.isDigit || c == '.') = true) :
    noNulEnd ver = true := by
  unfold noNulEnd
  cases hl : ver.getLast? with
  | none => rfl
  | some c =>
    have := (List.all_eq_true.mp h) c (List.mem_of_getLast? hl)
    have hc : c ≠ NUL := by
      intro e; subst e; revert this; decide
    simp [hc]

theorem generations_succ (fl : Rat → Rat) (ver time : Str) (p : PathInfo) (n : Nat) (L : Laser) :
    generations fl ver time p (n + 1) L
      = ((save fl ver time L >>= load fl p) >>= generations fl ver time p n) := by
  simp only [generations]
  cases save fl ver time L <;> rfl

/-- save → load of a laser whose info is that of a loaded laser only moves `File Path` to the end -/
theorem generations_good (fl : Rat → Rat) (hfl : ∀ x, |fl x - x| ≤ |x| / 2 ^ 53) (p : PathInfo) (ver time : Str)
    (L : Laser) (hL : L.ok = true) (hv : versionOk ver = true) (ht : noNulEnd time = true)
    (n : Nat) (X : Info) (g : Good p ver X) :
    generations fl ver time p (n + 1) { L with info := X } = .ok { L with info := nextInfo p X } := by
  induction n generalizing X with
  | zero =>
    rw [generations_succ, load_save fl hfl p ver time _ (ok_with_info L X hL (noNulEnd_packInfoRaw X g.nonul)) hv ht]
    simp only [normalise, finish_spec_good p ver X g]
    rfl
  | succ n ih =>
    rw [generations_succ, load_save fl hfl p ver time _ (ok_with_info L X hL (noNulEnd_packInfoRaw X g.nonul)) hv ht]
    simp only [normalise, finish_spec_good p ver X g]
    have := ih (nextInfo p X) (good_next p ver X g)
    rw [nextInfo_idem] at this
    exact this

/-- **Loading is a fixpoint.**  Let `L₁ = normalise L` be what the first load returns.  Then saving
and loading `L₁` again succeeds, the result is the same Python object as `L₁` (all fields equal,
the info dicts equal as mappings — only `File Path` has moved to the end of the insertion order),
and from then on nothing changes at all.  Hypotheses beyond `load_save`: no info value ends in NUL
(any of them can become the last one), the file stem has no tab (it becomes the `Name`) and no
trailing NUL. -/
theorem load_fixpoint (fl : Rat → Rat) (hfl : ∀ x, |fl x - x| ≤ |x| / 2 ^ 53) (p : PathInfo) (ver time : Str)
    (L : Laser) (hL : L.ok = true) (hv : versionOk ver = true) (ht : noNulEnd time = true)
    (hi : infoNoNul L.info = true) (hst : tabFree p.stem = true) (hsn : noNulEnd p.stem = true) :
    (save fl ver time (normalise p ver L) >>= load fl p) = .ok (normalise p ver (normalise p ver L))
    ∧ (normalise p ver (normalise p ver L)).same (normalise p ver L)
    ∧ normalise p ver (normalise p ver (normalise p ver L)) = normalise p ver (normalise p ver L) := by
  have hvc : ver.all (fun c => c.isDigit || c == '.') = true := by
    simp only [versionOk, Bool.and_eq_true] at hv; exact hv.1.1
  have hst' : '\t' ∉ p.stem := by simpa [tabFree] using hst
  have g : Good p ver (finishInfo p ver (infoSpec L.info)) :=
    good_finish p ver L.info hi hst' hsn (tabFree_of_version ver hvc) (noNulEnd_of_version ver hvc)
  have g2 := good_next p ver _ g
  have e1 : normalise p ver (normalise p ver L) = { L with info := nextInfo p (finishInfo p ver (infoSpec L.info)) } := by
    simp only [normalise, finish_spec_good p ver _ g]
  refine ⟨?_, ?_, ?_⟩
  · exact load_save fl hfl p ver time _ (ok_with_info L _ hL (noNulEnd_packInfoRaw _ g.nonul)) hv ht
  · rw [e1]
    exact ⟨rfl, rfl, rfl, rfl, rfl, fun k => dictGet_nextInfo p ver _ g k⟩
  · rw [e1]
    simp only [normalise, finish_spec_good p ver _ g2, nextInfo_idem]

/-- **Chains of any length.**  One generation gives `normalise L`; every chain of two or more
generations gives exactly `normalise (normalise L)`, which is the same object as `normalise L`
(`load_fixpoint`). -/
theorem generations_fixpoint (fl : Rat → Rat) (hfl : ∀ x, |fl x - x| ≤ |x| / 2 ^ 53) (p : PathInfo) (ver time : Str)
    (L : Laser) (hL : L.ok = true) (hv : versionOk ver = true) (ht : noNulEnd time = true)
    (hi : infoNoNul L.info = true) (hst : tabFree p.stem = true) (hsn : noNulEnd p.stem = true) (n : Nat) :
    generations fl ver time p 1 L = .ok (normalise p ver L)
    ∧ generations fl ver time p (n + 2) L = .ok (normalise p ver (normalise p ver L)) := by
  have hvc : ver.all (fun c => c.isDigit || c == '.') = true := by
    simp only [versionOk, Bool.and_eq_true] at hv; exact hv.1.1
  have hst' : '\t' ∉ p.stem := by simpa [tabFree] using hst
  have g : Good p ver (finishInfo p ver (infoSpec L.info)) :=
    good_finish p ver L.info hi hst' hsn (tabFree_of_version ver hvc) (noNulEnd_of_version ver hvc)
  have h1 : generations fl ver time p 1 L = .ok (normalise p ver L) := by
    rw [generations_succ, load_save fl hfl p ver time L hL hv ht]; rfl
  refine ⟨h1, ?_⟩
  rw [generations_succ, load_save fl hfl p ver time L hL hv ht]
  have := generations_good fl hfl p ver time L hL hv ht n _ g
  simp only [normalise, finish_spec_good p ver _ g] at this ⊢
  exact this

/-- non-vacuity of the fixpoint hypotheses: info with colliding keys and a `File Path` entry -/
example : infoNoNul [(['a','\t','b'], ['1']), (['a',' ','b'], ['2','\t']), (kFilePath, ['x', NUL])] = true
    ∧ tabFree ['l','a','s','e','r'] = true ∧ noNulEnd ['l','a','s','e','r'] = true
    ∧ versionOk ['0','.','1','0','.','2'] = true := by decide

end Pew.Npz
