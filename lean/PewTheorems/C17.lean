import PewProofs.FastParse
import PewProofs.FastParsePos
import PewProofs.FastParseText
import PewProofs.FastParseHist

/-! # C17 — property theorems (statements only depend on `PewModel.FastParse`) -/
namespace Pew.FastParse

/-- a small document of the layout: two array groups (32-bit m/z, 64-bit intensities) after an extra
group, one scan settings element with a size, two spectra — one with a TIC written with exponent and
sign, extra params everywhere, a noise section that repeats a read accession -/
def exampleDoc : Doc :=
  { decl := true, settingsFirst := false,
    pre := [{ items := [.cv "MS:1000285" (some "7"), .misc] }], mid1 := [], mid2 := [{ items := [] }], post := [],
    groups := [{ id := "spectrum", items := [.cv "MS:1000294" none] },
               { id := "mzArray", items := [.cv "MS:1000514" none, .cv "MS:1000521" none, .cv "IMS:1000101" (some "true")] },
               { id := "intensities", items := [.misc, .cv "MS:1000523" none, .cv "MS:1000515" (some "")] }],
    settings := [{ items := [.cv "IMS:1000042" (some "2"), .cv "IMS:1000043" (some "1"),
                             .cv "IMS:1000046" (some "30"), .cv "IMS:1000047" (some "2.5E+1")] }],
    spectra := [{ items := [.ref "spectrum", .cv "MS:1000285" (some "1.500000e+06")], scanlist := [.cv "MS:1000795" none],
                  scans := [[.cv "IMS:1000050" (some "2"), .cv "IMS:1000051" (some "1"), .misc], [.misc]],
                  arrays := [{ items := [.ref "mzArray", .cv "IMS:1000104" (some "8"), .cv "IMS:1000102" (some "16"), .misc] },
                             { items := [.cv "IMS:1000102" (some "24"), .ref "intensities", .cv "IMS:1000104" (some "16")] }],
                  tail := [] },
                { items := [], scanlist := [],
                  scans := [[.cv "IMS:1000051" (some "1"), .cv "IMS:1000050" (some "1")]],
                  arrays := [{ items := [.ref "intensities", .cv "IMS:1000104" (some "8"), .cv "IMS:1000102" (some "48")] }],
                  tail := [.cv "MS:1000285" (some "-3")] }] }

/-- the fast parser and the XML parser build the same model.  For EVERY document of the layout
(`Layout`: any number ≥ 1 of spectra in any order, extra cv/user/ref lines everywhere, noise sections,
TIC present or absent, image size present or absent, any declared binary types, either order of the
settings and group lists, attribute texts without entity references), every assignment of line
lengths, and every callback that returned True whenever it was invoked: the nested line loops over
the raw text return a model, the tree queries over the decoded document (`xmlDoc d`: what ElementTree
hands over after resolving entity and character references) return a model, and the two are equal —
image size, pixel size, both array groups (id, type, external flag) and for every spectrum position,
TIC, offsets and lengths.  `cls` is the value class of the regular expression; `Layout cls` demands
that the values the parsers read are in it (`valuesAccepted`). -/
theorem fast_eq_xml (cls : String → Bool) (d : Doc) (h : Layout cls d) (cb : Nat → Bool)
    (ls : List (Line × Nat)) (hls : ls.map Prod.fst = render cls d)
    (hcb : ∀ p ∈ (run cb ls).calls, cb p = true) :
    ∃ m, fastParse cb ls = .ok m ∧ xmlView (xmlDoc d) = some m := by
  obtain ⟨m, hm1, hm2⟩ := core_eq_xml cls d h.1
  rw [xmlDoc_id d h.2]
  refine ⟨m, ?_, hm2⟩
  have hinv := runS_cbInv cb ls St.init (init_cbInv cb)
  have hab : (run cb ls).aborted = false := by
    rcases hinv with ⟨ha, _⟩ | ⟨_, pre, p, hc, hp, _⟩
    · exact ha
    · have := hcb p (by rw [show (run cb ls).calls = pre ++ [p] from hc]; simp)
      rw [hp] at this; exact absurd this (by simp)
  have hcore := (runS_core cb ls St.init hab).2
  unfold fastParse
  simp only [hab, Bool.false_eq_true, if_false]
  rw [show (run cb ls).core = _ from hcore, hls]
  exact hm1

example : Layout clsAny exampleDoc := by decide +kernel

/-- without a callback (`callback=None`) -/
theorem fast_eq_xml_no_callback (cls : String → Bool) (d : Doc) (h : Layout cls d)
    (ls : List (Line × Nat)) (hls : ls.map Prod.fst = render cls d) :
    ∃ m, fastParse (fun _ => true) ls = .ok m ∧ xmlView (xmlDoc d) = some m :=
  fast_eq_xml cls d h _ ls hls (fun _ _ => rfl)

/-- a document whose attribute texts are plain (`TextOk`, the last conjunct of `Layout`) is the
document the XML parser sees: decoding entity and character references changes nothing -/
theorem plain_text_is_decoded_text (d : Doc) (h : TextOk d) : xmlDoc d = d := xmlDoc_id d h

example : TextOk exampleDoc := by decide +kernel

/-- the example document with the x position of the second spectrum written `&#49;` and the first
array reference written `mz&#65;rray` -/
def entityDoc : Doc :=
  { exampleDoc with
    spectra := [{ items := [.ref "spectrum", .cv "MS:1000285" (some "1.500000e+06")], scanlist := [.cv "MS:1000795" none],
                  scans := [[.cv "IMS:1000050" (some "2"), .cv "IMS:1000051" (some "1"), .misc], [.misc]],
                  arrays := [{ items := [.ref "mz&#65;rray", .cv "IMS:1000104" (some "8"), .cv "IMS:1000102" (some "16"), .misc] },
                             { items := [.cv "IMS:1000102" (some "24"), .ref "intensities", .cv "IMS:1000104" (some "16")] }],
                  tail := [] },
                { items := [], scanlist := [],
                  scans := [[.cv "IMS:1000051" (some "1"), .cv "IMS:1000050" (some "&#x31;")]],
                  arrays := [{ items := [.ref "intensities", .cv "IMS:1000104" (some "8"), .cv "IMS:1000102" (some "48")] }],
                  tail := [.cv "MS:1000285" (some "-3")] }] }

/-- `TextOk` is the reason the layout excludes entity references: the document above satisfies the
structural part of the layout and decodes (`xmlDoc`) to the example document; both parsers build a
model, but the regular expression hands over the raw texts (`&#x31;` — on which `int()` then raises —
and offsets keyed `mz&#65;rray`) while ElementTree hands over `1` and `mzArray` -/
theorem entity_reference_diverges :
    LayoutCore clsAny entityDoc ∧ ¬ TextOk entityDoc ∧ xmlDoc entityDoc = exampleDoc ∧
    (fastParse (fun _ => true) ((render clsAny entityDoc).map (fun l => (l, 1)))).toOption.map
        (fun m => m.spectra.map (fun s => (s.x, s.arrays.map (·.1))))
      = some [("2", ["mz&#65;rray", "intensities"]), ("&#x31;", ["intensities"])] ∧
    (xmlView (xmlDoc entityDoc)).map (fun m => m.spectra.map (fun s => (s.x, s.arrays.map (·.1))))
      = some [("2", ["mzArray", "intensities"]), ("1", ["intensities"])] := by
  refine ⟨by decide +kernel, by decide +kernel, by decide +kernel, by decide +kernel, by decide +kernel⟩

theorem finishCore_ok (c : Core) (m : Model) (h : finishCore c = .ok m) : c.mode = .top ∧ c.spectra = m.spectra := by
  unfold finishCore at h
  cases he : c.err with
  | some e => simp [he] at h
  | none =>
    simp only [he] at h
    cases hm : c.mode <;> simp only [hm] at h <;> try (exact absurd h (by simp))
    refine ⟨rfl, ?_⟩
    split at h <;> simp at h
    rw [← h]

theorem xmlView_spectra (d : Doc) (m : Model) (h : xmlView d = some m) : d.spectra.mapM xmlSpec = some m.spectra := by
  unfold xmlView at h
  split at h
  · rename_i hs _
    split at h
    · simp at h; rw [hs, ← h]
    · simp at h
  · simp at h

/-- the progress callback is invoked exactly once per spectrum (documents of the layout, callback
returning True) -/
theorem callback_once_per_spectrum (cls : String → Bool) (d : Doc) (h : Layout cls d) (cb : Nat → Bool)
    (ls : List (Line × Nat)) (hls : ls.map Prod.fst = render cls d)
    (hcb : ∀ p ∈ (run cb ls).calls, cb p = true) :
    (run cb ls).calls.length = d.spectra.length := by
  obtain ⟨m, hm1, hm2⟩ := core_eq_xml cls d h.1
  have hinv := runS_cbInv cb ls St.init (init_cbInv cb)
  have hab : (run cb ls).aborted = false := by
    rcases hinv with ⟨ha, _⟩ | ⟨_, pre, p, hc, hp, _⟩
    · exact ha
    · have := hcb p (by rw [show (run cb ls).calls = pre ++ [p] from hc]; simp)
      rw [hp] at this; exact absurd this (by simp)
  have hcore := (runS_core cb ls St.init hab).2
  have hrun : run cb ls = runS cb St.init ls := rfl
  rw [hrun] at hab ⊢
  rcases runS_calls cb ls St.init (Or.inr rfl) with hx | hx
  · rw [hab] at hx; exact absurd hx (by simp)
  · rw [hx, hcore, hls]
    obtain ⟨hmode, hsp⟩ := finishCore_ok _ m hm1
    unfold coreRun at hmode hsp
    have e : List.foldl stepCore St.init.core (render cls d) = List.foldl stepCore Core.init (render cls d) := rfl
    rw [e]
    unfold started
    rw [hmode, hsp, mapM_length _ _ _ (xmlView_spectra d m hm2)]
    rfl

/-- callback positions never decrease and never exceed the file position — for ANY list of lines
(well-formed or not) and any callback -/
theorem callback_positions_sorted (cb : Nat → Bool) (ls : List (Line × Nat)) :
    (run cb ls).calls.Pairwise (· ≤ ·) ∧ ∀ p ∈ (run cb ls).calls, p ≤ (run cb ls).pos :=
  runS_posInv cb ls St.init ⟨by simp [St.init], by intro p hp; simp [St.init] at hp⟩

/-- a callback returning False aborts the import: for ANY list of lines, either every invocation
returned True, or the parser raises the warning-type exception (never a model), the False
invocation is the last one and all earlier ones returned True -/
theorem callback_false_aborts (cb : Nat → Bool) (ls : List (Line × Nat)) :
    ((run cb ls).aborted = false ∧ ∀ p ∈ (run cb ls).calls, cb p = true) ∨
    (fastParse cb ls = .error .aborted ∧
      ∃ pre p, (run cb ls).calls = pre ++ [p] ∧ cb p = false ∧ ∀ q ∈ pre, cb q = true) := by
  rcases runS_cbInv cb ls St.init (init_cbInv cb) with h | ⟨ha, hex⟩
  · left; exact h
  · right
    refine ⟨?_, hex⟩
    unfold fastParse
    simp [show (run cb ls).aborted = true from ha]

/-- non-vacuity: on the example document a callback that refuses the second spectrum aborts -/
example : fastParse (fun p => p != 62) ((render clsAny exampleDoc).map (fun l => (l, 1))) = .error .aborted := by
  decide +kernel

/-- the unit-length lines of the example document -/
def exampleLines : List (Line × Nat) := (render clsAny exampleDoc).map (fun l => (l, 1))

theorem exampleLines_fst : exampleLines.map Prod.fst = render clsAny exampleDoc := by
  simp [exampleLines, List.map_map, Function.comp_def]

/-- EXACT callback positions.  For every document of the layout, every assignment of (byte) lengths
to its lines and every callback that returned True whenever it was invoked: the callback is invoked
exactly once per spectrum, and invocation `k` receives the file offset just after line
`callLine cls d k` — the `<spectrumList …>` line for the first spectrum (the main loop's
`startswith("<spectrum")` matches it; the first `<spectrum …>` line is swallowed by `parse_spectrum`),
the `<spectrum …>` line of spectrum `k` for every later one (`callback_call_lines`). -/
theorem callback_positions_exact (cls : String → Bool) (d : Doc) (h : Layout cls d) (cb : Nat → Bool)
    (ls : List (Line × Nat)) (hls : ls.map Prod.fst = render cls d)
    (hcb : ∀ p ∈ (run cb ls).calls, cb p = true) :
    (run cb ls).calls = callPositions cls d (ls.map Prod.snd) := by
  have hinv := runS_cbInv cb ls St.init (init_cbInv cb)
  have hab : (run cb ls).aborted = false := by
    rcases hinv with ⟨ha, _⟩ | ⟨_, pre, p, hc, hp, _⟩
    · exact ha
    · have := hcb p (by rw [show (run cb ls).calls = pre ++ [p] from hc]; simp)
      rw [hp] at this; exact absurd this (by simp)
  have e : run cb ls = run (fun _ => true) ls := runS_eq_tt cb ls St.init hab
  rw [e]
  exact calls_tt cls d h.1 ls hls

/-- on the example document with unit line lengths the two invocations happen after lines 32 and 61 -/
example : callPositions clsAny exampleDoc (exampleLines.map Prod.snd) = [33, 62] := by decide +kernel
example : (run (fun _ => true) exampleLines).calls = [33, 62] := by
  rw [callback_positions_exact clsAny exampleDoc (by decide +kernel) _ exampleLines exampleLines_fst (fun _ _ => rfl)]
  decide +kernel

/-- the one-pass computation the driver evaluates for `callPositions` (running totals of the line lengths,
indices accumulated spectrum by spectrum) is `callPositions`, for every document and every list of lengths -/
theorem callPositionsFast_eq (cls : String → Bool) (d : Doc) (lens : List Nat) :
    callPositionsFast cls d lens = callPositions cls d lens := callPositionsFast_eq' cls d lens

example : callPositionsFast clsAny exampleDoc (exampleLines.map Prod.snd) = [33, 62] := by decide +kernel

/-- ANY callback, also one that returns False: the positions it was invoked with are an initial
segment of the exact positions.  With `callback_false_aborts` (the False invocation is the last one)
an import aborted at invocation `j` made exactly the invocations `0 … j`, each at its exact position. -/
theorem callback_positions_prefix (cls : String → Bool) (d : Doc) (h : Layout cls d) (cb : Nat → Bool)
    (ls : List (Line × Nat)) (hls : ls.map Prod.fst = render cls d) :
    (run cb ls).calls <+: callPositions cls d (ls.map Prod.snd) := by
  rw [← calls_tt cls d h.1 ls hls]
  exact runS_prefix_tt cb ls St.init rfl

example : (run (fun p => p != 33) exampleLines).calls = [33] := by decide +kernel
example : (run (fun p => p != 62) exampleLines).calls <+: [33, 62] := by
  have := callback_positions_prefix clsAny exampleDoc (by decide +kernel) (fun p => p != 62) exampleLines exampleLines_fst
  rwa [show callPositions clsAny exampleDoc (exampleLines.map Prod.snd) = [33, 62] by decide +kernel] at this

/-- the lines the formula names: `callLine 0` is the `<spectrumList …>` line, `callLine k` for
`0 < k < number of spectra` is the `<spectrum …>` line of spectrum `k` (for any document) -/
theorem callback_call_lines (cls : String → Bool) (d : Doc) :
    (render cls d)[callLine cls d 0]? = some (.opn .spectrumList "") ∧
    ∀ k, 0 < k → k < d.spectra.length → (render cls d)[callLine cls d k]? = some (.opn .spectrum "") := by
  constructor
  · unfold render callLine
    rw [List.getElem?_append_right (by omega)]
    simp [renderSpectra]
  · intro k hk0 hk
    unfold render callLine
    rw [List.getElem?_append_right (by omega)]
    simp only [Nat.ne_of_gt hk0, if_false]
    have e : (renderHead cls d).length + 1 + (1 + ((d.spectra.take k).map (fun s => (renderSpec cls s).length)).sum)
        - (renderHead cls d).length = 2 + ((d.spectra.take k).map (fun s => (renderSpec cls s).length)).sum := by omega
    rw [e]
    unfold renderSpectra
    rw [List.append_assoc, List.append_assoc, List.getElem?_append_right (by simp)]
    simp only [List.length_cons, List.length_nil, Nat.add_sub_cancel_left]
    exact flatMap_getElem_start (renderSpec cls) (.opn .spectrum "") d.spectra _ k hk
      (fun s _ => by simp [renderSpec])

example : 0 < 1 ∧ 1 < exampleDoc.spectra.length := by decide

/-- "and therefore extract identical images": the images are a function of the parsed model
(`imageSizeOf` = `ImzML.image_size`, `ticImageOf` = `extract_tic`, `massImageOf` = `extract_masses`,
on top of C05's `Pew.Imzml` extraction, with the text→number conversions and the reads of the binary
file as opaque functions `B`).  For every document of the layout, every such `B`, every list of target
masses and every width: both parsers succeed, and the image size, the TIC image and the mass-window
image computed from the fast parser's model are those computed from the XML parser's model.
(A corollary of `fast_eq_xml`: the models are equal; the content is that "the images" is now a defined
function of the model.) -/
theorem fast_xml_same_images (cls : String → Bool) (d : Doc) (h : Layout cls d) (cb : Nat → Bool)
    (ls : List (Line × Nat)) (hls : ls.map Prod.fst = render cls d)
    (hcb : ∀ p ∈ (run cb ls).calls, cb p = true)
    (B : Bin) (masses : List Rat) (w : Pew.Imzml.Width) :
    ∃ mf mx, fastParse cb ls = .ok mf ∧ xmlView (xmlDoc d) = some mx ∧
      imageSizeOf B mf = imageSizeOf B mx ∧ ticImageOf B mf = ticImageOf B mx ∧
      massImageOf B mf masses w = massImageOf B mx masses w := by
  obtain ⟨m, h1, h2⟩ := fast_eq_xml cls d h cb ls hls hcb
  exact ⟨m, m, h1, h2, rfl, rfl, rfl⟩

/-- a concrete `B` on the example document: positions and sizes are read as written, the stored TICs are
1500000 and -3, every array is `[100]` / `[5]` — the image is 2 × 1 with the two TICs -/
def exampleBin : Bin :=
  { int := fun s => if s = "2" then 2 else 1, float := fun s => if s = "-3" then -3 else 1500000,
    read := fun g _ => if g.id = "mzArray" then [100] else [5] }

example : (xmlView (xmlDoc exampleDoc)).map (fun m => (imageSizeOf exampleBin m, ticImageOf exampleBin m))
    = some ((2, 1), [[some (-3), some 1500000]]) := by decide +kernel

/-- the value class before `fix: accept signed and exponent values in the fast imzML parser`
(`[\w.]+`) is the reason for the hypothesis on values: with it the example document, whose first TIC
is `1.500000e+06`, makes the fast parser fail with `float(None)` while the XML parser succeeds -/
theorem fast_rejects_exponent :
    fastParse (fun _ => true) ((render clsWord exampleDoc).map (fun l => (l, 1))) = .error .typeError ∧
    (xmlView exampleDoc).isSome = true ∧
    (∃ m, fastParse (fun _ => true) ((render clsAny exampleDoc).map (fun l => (l, 1))) = .ok m ∧ xmlView exampleDoc = some m) := by
  refine ⟨by decide +kernel, by decide +kernel, ?_⟩
  have := fast_eq_xml_no_callback clsAny exampleDoc (by decide +kernel) _
    (show ((render clsAny exampleDoc).map (fun l => (l, 1))).map Prod.fst = _ by simp [List.map_map, Function.comp_def])
  rwa [plain_text_is_decoded_text exampleDoc (by decide +kernel)] at this

/-! ## the object a callback hands back -/

/-- the mechanism's test (`if not callback(…)`, the truth value of the object) against the property's
words: an object that IS False — `False`, `numpy.False_`, the integer `0` — is falsy, so the import is
aborted; an object that IS True — `True`, `numpy.True_`, `1` — is truthy, so it is not; no object is both -/
theorem callback_value_scope (v : PyVal) :
    (v.isFalse = true → v.truthy = false) ∧ (v.isTrue = true → v.truthy = true) ∧
    ¬(v.isFalse = true ∧ v.isTrue = true) :=
  ⟨isFalse_falsy v, isTrue_truthy v, not_isFalse_and_isTrue v⟩

example : (PyVal.npBool false).isFalse = true ∧ (PyVal.int 0).isFalse = true ∧ (PyVal.bool false).isFalse = true ∧
    PyVal.none.isFalse = false ∧ PyVal.none.isTrue = false ∧ PyVal.none.truthy = false ∧
    (PyVal.other true).isTrue = false ∧ (PyVal.int 2).isTrue = false ∧ (PyVal.int 2).truthy = true := by decide

/-- ANY Python callback `f` (position ↦ returned object), ANY list of lines: what the parser does is an
outcome the property allows for the objects the callback returned at its invocations (`outcomeOk`: every
invocation before the last did not return False, and an aborting invocation did not return True).
Either the import ran to the end and no invocation returned a falsy object, or it raised the
warning-type exception (never a model) at the first falsy object, which was the last invocation -/
theorem callback_values_outcome (f : Nat → PyVal) (ls : List (Line × Nat)) :
    ((run (cbOf f) ls).aborted = false ∧ firstFalsy ((run (cbOf f) ls).calls.map f) = none ∧
      outcomeOk ((run (cbOf f) ls).calls.map f) none = true) ∨
    (fastParse (cbOf f) ls = .error .aborted ∧
      ∃ pre p, (run (cbOf f) ls).calls = pre ++ [p] ∧
        firstFalsy ((run (cbOf f) ls).calls.map f) = some pre.length ∧
        outcomeOk ((run (cbOf f) ls).calls.map f) (some pre.length) = true) := by
  rcases callback_false_aborts (cbOf f) ls with ⟨ha, hall⟩ | ⟨hf, pre, p, hc, hp, hpre⟩
  · left
    have hnone : firstFalsy ((run (cbOf f) ls).calls.map f) = none := by
      unfold firstFalsy
      rw [List.findIdx?_eq_none_iff]
      intro v hv
      rw [List.mem_map] at hv
      obtain ⟨q, hq, rfl⟩ := hv
      have := hall q hq
      simp only [cbOf] at this
      simp [this]
    refine ⟨ha, hnone, ?_⟩
    rw [← hnone]; exact outcomeOk_firstFalsy _
  · right
    refine ⟨hf, pre, p, hc, ?_⟩
    have hsome : firstFalsy ((run (cbOf f) ls).calls.map f) = some pre.length := by
      unfold firstFalsy
      rw [hc, List.map_append, List.findIdx?_append]
      have h1 : (pre.map f).findIdx? (fun v => !v.truthy) = none := by
        rw [List.findIdx?_eq_none_iff]
        intro v hv
        rw [List.mem_map] at hv
        obtain ⟨q, hq, rfl⟩ := hv
        have := hpre q hq
        simp only [cbOf] at this
        simp [this]
      simp only [cbOf] at hp
      simp [h1, hp]
    refine ⟨hsome, ?_⟩
    rw [← hsome]; exact outcomeOk_firstFalsy _

/-- when every object the callback returns is False or True (`bool`, `numpy.bool_`, `0`/`1`) the property
leaves exactly one outcome, the mechanism's: abort at the first False -/
theorem callback_outcome_determined (vals : List PyVal) (hd : ∀ v ∈ vals, v.isFalse = true ∨ v.isTrue = true)
    (a : Option Nat) (h : outcomeOk vals a = true) : a = firstFalsy vals :=
  outcomeOk_determined vals hd a h

/-- a callback comparing the position with a NumPy integer: `numpy.True_` twice, then `numpy.False_` —
the only allowed outcome is an abort at the third invocation; with `None` there both are allowed -/
example : okOutcomes [.npBool true, .npBool true, .npBool false, .npBool false] = [some 2] := by decide
example : okOutcomes [.int 1, .none, .bool true] = [none, some 1] := by decide
example : fastParse (cbOf (fun p => .npBool (p < 62))) exampleLines = .error .aborted := by decide +kernel

/-! ## histories -/

/-- ANY document, ANY history of imports and caller edits: what the k-th import returns is what that
import returns on its own — neither the earlier imports (through either parser, aborted or not, with
whatever binary) nor the edits the caller made to the objects it holds have any influence -/
theorem history_imports_independent (d : Doc) (ls : List (Line × Nat)) (ops : List Op) :
    (runOps d ls ops).results = (importsOf ops).map (importOnce d ls) := by
  unfold runOps
  rw [results_foldl]; rfl

/-- documents of the layout: in every history every import — fast parser with or without a callback
that never returned False, or XML parser — returns the model the XML parser builds from the document,
attached to the binary given to THAT import -/
theorem history_every_import_is_the_document (cls : String → Bool) (d : Doc) (h : Layout cls d)
    (ls : List (Line × Nat)) (hls : ls.map Prod.fst = render cls d) (ops : List Op)
    (hcb : ∀ i ∈ importsOf ops, ∀ cb, i.parser = .fast (some cb) → ∀ p ∈ (run cb ls).calls, cb p = true) :
    ∃ m, xmlView (xmlDoc d) = some m ∧
      (runOps d ls ops).results = (importsOf ops).map (fun i => .ok { model := m, bin := i.bin }) := by
  obtain ⟨m, _, hx⟩ := fast_eq_xml_no_callback cls d h ls hls
  refine ⟨m, hx, ?_⟩
  rw [history_imports_independent]
  apply List.map_congr_left
  intro i hi
  unfold importOnce
  cases hp : i.parser with
  | xml => simp [hx]
  | fast cb =>
    cases cb with
    | none =>
      obtain ⟨m', h1, h2⟩ := fast_eq_xml_no_callback cls d h ls hls
      rw [hx] at h2; cases h2
      simp [h1]
    | some cb =>
      obtain ⟨m', h1, h2⟩ := fast_eq_xml cls d h cb ls hls (hcb i hi cb hp)
      rw [hx] at h2; cases h2
      simp [h1]

/-- … and therefore the images of every returned object are those of the document's model with the
binary of its own import: two imports given different binaries extract from different binaries, two
imports given the same binary (one per parser, say) extract identical images -/
theorem history_images (cls : String → Bool) (d : Doc) (h : Layout cls d)
    (ls : List (Line × Nat)) (hls : ls.map Prod.fst = render cls d) (ops : List Op)
    (hcb : ∀ i ∈ importsOf ops, ∀ cb, i.parser = .fast (some cb) → ∀ p ∈ (run cb ls).calls, cb p = true)
    (Bs : Nat → Bin) (masses : List Rat) (w : Pew.Imzml.Width) :
    ∃ m, xmlView (xmlDoc d) = some m ∧
      (runOps d ls ops).results.map (fun r => match r with | .ok o => some (objImages Bs masses w o) | _ => none)
        = (importsOf ops).map (fun i => some (objImages Bs masses w { model := m, bin := i.bin })) := by
  obtain ⟨m, hx, hr⟩ := history_every_import_is_the_document cls d h ls hls ops hcb
  refine ⟨m, hx, ?_⟩
  rw [hr, List.map_map]
  rfl

/-- a history on the example document: fast import with the first binary, the caller removes the image
size and a spectrum, then a fast import with the second binary, then the XML parser, then an import
aborted by its callback — three objects of the unedited model, with binaries 0, 1, 1 -/
def exampleOps : List Op :=
  [.imp { parser := .fast none, bin := 0 }, .edit 0 (.setSize none), .edit 0 (.dropSpectrum 1),
   .imp { parser := .fast none, bin := 1 }, .edit 1 .clearSpectra, .imp { parser := .xml, bin := 1 },
   .imp { parser := .fast (some (fun p => p != 62)), bin := 0 }]

example : (runOps exampleDoc exampleLines exampleOps).results.map
      (fun r => match r with | .ok o => some (o.bin, o.model.scan.size, o.model.spectra.length) | _ => none)
    = [some (0, some ("2", "1"), 2), some (1, some ("2", "1"), 2), some (1, some ("2", "1"), 2), none] := by
  decide +kernel

example : (runOps exampleDoc exampleLines exampleOps).heap.map (fun o => (o.bin, o.model.scan.size, o.model.spectra.length))
    = [(0, none, 1), (1, some ("2", "1"), 0), (1, some ("2", "1"), 2)] := by
  decide +kernel

/-- every line of a file is at least one byte long (its line end), and then the positions handed to the
callback are STRICTLY increasing — for any list of lines and any callback.  So no two invocations see the
same position, and a callback that answers by counting its invocations (what a progress dialog or the
harness does) is a function of the position, which is how the state machine takes it (`cb : Nat → Bool`) -/
theorem callback_positions_strict (cb : Nat → Bool) (ls : List (Line × Nat)) (hlen : ∀ ln ∈ ls, 0 < ln.2) :
    (run cb ls).calls.Pairwise (· < ·) :=
  (runS_posInvS cb ls St.init hlen ⟨by simp [St.init], by intro p hp; simp [St.init] at hp⟩).1

example : ∀ ln ∈ exampleLines, 0 < ln.2 := by decide +kernel

/-! ## number conversions -/

/-- `int()` and `float()` read a text of ASCII digits as the same number: where the model converts a
position or size with `pyNat`, the exact decimal value `float()` rounds (`pyFloat = nearestF64 ∘
decimalValue`) is that natural number — `052676` is 52676 for both -/
theorem decimalValue_of_digits (s : String) (n : Nat) (h : pyNat s = some n) : decimalValue s = some (n : Rat) :=
  decimalValue_of_digits' s n h

example : pyNat "052676" = some 52676 ∧ pyFloat "052676" = some 52676 ∧ pyFloat "1.500000e+06" = some 1500000 ∧
    pyFloat " -2.5E-3 " = some (-5764607523034235 / 2305843009213693952) ∧ pyFloat "inf" = none ∧ pyNat "+5" = none := by
  decide +kernel

/-! ## text lines -/

/-- the state machine does not tell the inert lines apart: any two lists of lines that agree up to
`Line.norm` (an unknown opening or closing tag is as good as any other line without an accession) and in
their byte lengths drive it through the same states, callback invocations included.  The driver
tokenises the TEXT of every generated file with `tokenise` (the code's `startswith` / `find` / regular
expression tests on characters), checks that the result agrees with `render cls d` up to `Line.norm`, and
by this theorem `fastParse` on the tokenised text is `fastParse` on the rendered document, the object of
`fast_eq_xml` -/
theorem tokens_agree_modulo_inert_lines (cb : Nat → Bool) (ls ls' : List (Line × Nat))
    (h : ls.map (fun ln => (ln.1.norm, ln.2)) = ls'.map (fun ln => (ln.1.norm, ln.2))) :
    run cb ls = run cb ls' ∧ fastParse cb ls = fastParse cb ls' := by
  have e : run cb ls = run cb ls' := runS_norm cb ls ls' St.init h
  refine ⟨e, ?_⟩
  unfold fastParse
  rw [e]

/-- the nine cvParam line styles the generator writes, a reference, a group, the two lists whose opening
tag the `<spectrum` / `<referenceableParamGroup` prefix tests also accept, as the code's string tests
classify them -/
example : tokenise clsAnyC "   <cvParam cvRef=\"IMS\" accession=\"IMS:1000050\" name=\"position x\" value=\"3\"/>  \r"
    = some (.cv "IMS:1000050" (some "3")) := by decide +kernel
example : tokenise clsAnyC "<cvParam accession=\"MS:1000285\" cvRef=\"MS\" name=\"p\" unitAccession=\"MS:1000040\" unitCvRef=\"MS\" unitName=\"m/z\" value=\"1.500000e+06\"/>"
    = some (.cv "MS:1000285" (some "1.500000e+06")) := by decide +kernel
example : tokenise clsAnyC "<cvParam cvRef=\"IMS\" accession=\"IMS:1000046\" name=\"n\" value=\"30\" unitCvRef=\"UO\" unitAccession=\"UO:0000017\" unitName=\"micrometer\"/>"
    = some (.cv "IMS:1000046" (some "30")) := by decide +kernel
example : tokenise clsAnyC "<cvParam unitCvRef=\"UO\" unitAccession=\"UO:0000017\" unitName=\"micrometer\" cvRef=\"IMS\" accession=\"IMS:1000046\" name=\"n\" value=\"2.5E+1\"/>"
    = some (.cv "IMS:1000046" (some "2.5E+1")) := by decide +kernel
example : tokenise clsAnyC "<cvParam\tcvRef=\"MS\"\taccession=\"MS:1000285\"\t\tname=\"tic\"\tvalue=\"-1.5e+06\"\t/>"
    = some (.cv "MS:1000285" (some "-1.5e+06")) := by decide +kernel
example : tokenise clsWordC "<cvParam\tcvRef=\"MS\"\taccession=\"MS:1000285\"\t\tname=\"tic\"\tvalue=\"-1.5e+06\"\t/>"
    = some (.cv "MS:1000285" none) := by decide +kernel
example : tokenise clsAnyC "<cvParam cvRef=\"MS\" accession=\"MS:1000514\" name=\"array\" value=\"\"></cvParam>"
    = some (.cv "MS:1000514" none) := by decide +kernel
example : tokenise clsAnyC "<referenceableParamGroupRef ref=\"intensities\"/>" = some (.ref "intensities") := by decide +kernel
example : tokenise clsAnyC "  <referenceableParamGroup id=\"mzArray\">" = some (.opn .group "mzArray") := by decide +kernel
example : tokenise clsAnyC "<referenceableParamGroupList count=\"3\">" = some (.opn .groupList "") := by decide +kernel
example : tokenise clsAnyC "<spectrumList count=\"2\" defaultDataProcessingRef=\"dp0\">" = some (.opn .spectrumList "") := by decide +kernel
example : tokenise clsAnyC "<userParam name=\"accession\" value=\"2975.78\"/>" = some .misc := by decide +kernel
example : (tokenise clsAnyC "<scanList count=\"1\">").map Line.norm = some (Line.norm (.opn .other "")) := by decide +kernel

end Pew.FastParse
