import PewProofs.FastParse

/-! # C17 — property theorems (statements only depend on `PewModel.FastParse`) -/
namespace Pew.FastParse

/-- a small document of the layout: two array groups (32-bit m/z, 64-bit intensities) after an extra
group, one scan settings element with a size, two spectra — one with a TIC written with exponent and
sign, extra params everywhere, a noise section that repeats a read accession -/
def exampleDoc : Doc :=
  { decl := true, settingsFirst := false,
    pre := [{ items := [.cv "MS:1000285" (some "7"), .misc] }], mid1 := [], mid2 := [{ items := [] }], post := [],
    groups := [{ id := "spectrum", items := [.cv "MS:1000294" none] },
               { id := "mzArray", items := [.cv "MS:1000514" none, .cv "MS:1000521" none, .cv "IMS:1000101" (some "true")] },
               { id := "intensities", items := [.misc, .cv "MS:1000523" none, .cv "MS:1000515" (some "")] }],
    settings := [{ items := [.cv "IMS:1000042" (some "2"), .cv "IMS:1000043" (some "1"),
                             .cv "IMS:1000046" (some "30"), .cv "IMS:1000047" (some "2.5E+1")] }],
    spectra := [{ items := [.ref "spectrum", .cv "MS:1000285" (some "1.500000e+06")], scanlist := [.cv "MS:1000795" none],
                  scans := [[.cv "IMS:1000050" (some "2"), .cv "IMS:1000051" (some "1"), .misc], [.misc]],
                  arrays := [{ items := [.ref "mzArray", .cv "IMS:1000104" (some "8"), .cv "IMS:1000102" (some "16"), .misc] },
                             { items := [.cv "IMS:1000102" (some "24"), .ref "intensities", .cv "IMS:1000104" (some "16")] }],
                  tail := [] },
                { items := [], scanlist := [],
                  scans := [[.cv "IMS:1000051" (some "1"), .cv "IMS:1000050" (some "1")]],
                  arrays := [{ items := [.ref "intensities", .cv "IMS:1000104" (some "8"), .cv "IMS:1000102" (some "48")] }],
                  tail := [.cv "MS:1000285" (some "-3")] }] }

/-- the fast parser and the XML parser build the same model.  For EVERY document of the layout
(`Layout`: any number ≥ 1 of spectra in any order, extra cv/user/ref lines everywhere, noise sections,
TIC present or absent, image size present or absent, any declared binary types, either order of the
settings and group lists), every assignment of line lengths, and every callback that returned True
whenever it was invoked: the nested line loops return a model, the tree queries return a model, and
the two are equal — image size, pixel size, both array groups (id, type, external flag) and for every
spectrum position, TIC, offsets and lengths.  `cls` is the value class of the regular expression;
`Layout cls` demands that the values the parsers read are in it (`valuesAccepted`). -/
theorem fast_eq_xml (cls : String → Bool) (d : Doc) (h : Layout cls d) (cb : Nat → Bool)
    (ls : List (Line × Nat)) (hls : ls.map Prod.fst = render cls d)
    (hcb : ∀ p ∈ (run cb ls).calls, cb p = true) :
    ∃ m, fastParse cb ls = .ok m ∧ xmlView d = some m := by
  obtain ⟨m, hm1, hm2⟩ := core_eq_xml cls d h
  refine ⟨m, ?_, hm2⟩
  have hinv := runS_cbInv cb ls St.init (init_cbInv cb)
  have hab : (run cb ls).aborted = false := by
    rcases hinv with ⟨ha, _⟩ | ⟨_, pre, p, hc, hp, _⟩
    · exact ha
    · have := hcb p (by rw [show (run cb ls).calls = pre ++ [p] from hc]; simp)
      rw [hp] at this; exact absurd this (by simp)
  have hcore := (runS_core cb ls St.init hab).2
  unfold fastParse
  simp only [hab, Bool.false_eq_true, if_false]
  rw [show (run cb ls).core = _ from hcore, hls]
  exact hm1

example : Layout clsAny exampleDoc := by decide +kernel

/-- without a callback (`callback=None`) -/
theorem fast_eq_xml_no_callback (cls : String → Bool) (d : Doc) (h : Layout cls d)
    (ls : List (Line × Nat)) (hls : ls.map Prod.fst = render cls d) :
    ∃ m, fastParse (fun _ => true) ls = .ok m ∧ xmlView d = some m :=
  fast_eq_xml cls d h _ ls hls (fun _ _ => rfl)

theorem finishCore_ok (c : Core) (m : Model) (h : finishCore c = .ok m) : c.mode = .top ∧ c.spectra = m.spectra := by
  unfold finishCore at h
  cases he : c.err with
  | some e => simp [he] at h
  | none =>
    simp only [he] at h
    cases hm : c.mode <;> simp only [hm] at h <;> try (exact absurd h (by simp))
    refine ⟨rfl, ?_⟩
    split at h <;> simp at h
    rw [← h]

theorem xmlView_spectra (d : Doc) (m : Model) (h : xmlView d = some m) : d.spectra.mapM xmlSpec = some m.spectra := by
  unfold xmlView at h
  split at h
  · rename_i hs _
    split at h
    · simp at h; rw [hs, ← h]
    · simp at h
  · simp at h

/-- the progress callback is invoked exactly once per spectrum (documents of the layout, callback
returning True) -/
theorem callback_once_per_spectrum (cls : String → Bool) (d : Doc) (h : Layout cls d) (cb : Nat → Bool)
    (ls : List (Line × Nat)) (hls : ls.map Prod.fst = render cls d)
    (hcb : ∀ p ∈ (run cb ls).calls, cb p = true) :
    (run cb ls).calls.length = d.spectra.length := by
  obtain ⟨m, hm1, hm2⟩ := core_eq_xml cls d h
  have hinv := runS_cbInv cb ls St.init (init_cbInv cb)
  have hab : (run cb ls).aborted = false := by
    rcases hinv with ⟨ha, _⟩ | ⟨_, pre, p, hc, hp, _⟩
    · exact ha
    · have := hcb p (by rw [show (run cb ls).calls = pre ++ [p] from hc]; simp)
      rw [hp] at this; exact absurd this (by simp)
  have hcore := (runS_core cb ls St.init hab).2
  have hrun : run cb ls = runS cb St.init ls := rfl
  rw [hrun] at hab ⊢
  rcases runS_calls cb ls St.init (Or.inr rfl) with hx | hx
  · rw [hab] at hx; exact absurd hx (by simp)
  · rw [hx, hcore, hls]
    obtain ⟨hmode, hsp⟩ := finishCore_ok _ m hm1
    unfold coreRun at hmode hsp
    have e : List.foldl stepCore St.init.core (render cls d) = List.foldl stepCore Core.init (render cls d) := rfl
    rw [e]
    unfold started
    rw [hmode, hsp, mapM_length _ _ _ (xmlView_spectra d m hm2)]
    rfl

/-- callback positions never decrease and never exceed the file position — for ANY list of lines
(well-formed or not) and any callback -/
theorem callback_positions_sorted (cb : Nat → Bool) (ls : List (Line × Nat)) :
    (run cb ls).calls.Pairwise (· ≤ ·) ∧ ∀ p ∈ (run cb ls).calls, p ≤ (run cb ls).pos :=
  runS_posInv cb ls St.init ⟨by simp [St.init], by intro p hp; simp [St.init] at hp⟩

/-- a callback returning False aborts the import: for ANY list of lines, either every invocation
returned True, or the parser raises the warning-type exception (never a model), the False
invocation is the last one and all earlier ones returned True -/
theorem callback_false_aborts (cb : Nat → Bool) (ls : List (Line × Nat)) :
    ((run cb ls).aborted = false ∧ ∀ p ∈ (run cb ls).calls, cb p = true) ∨
    (fastParse cb ls = .error .aborted ∧
      ∃ pre p, (run cb ls).calls = pre ++ [p] ∧ cb p = false ∧ ∀ q ∈ pre, cb q = true) := by
  rcases runS_cbInv cb ls St.init (init_cbInv cb) with h | ⟨ha, hex⟩
  · left; exact h
  · right
    refine ⟨?_, hex⟩
    unfold fastParse
    simp [show (run cb ls).aborted = true from ha]

/-- non-vacuity: on the example document a callback that refuses the second spectrum aborts -/
example : fastParse (fun p => p != 62) ((render clsAny exampleDoc).map (fun l => (l, 1))) = .error .aborted := by
  decide +kernel

/-- the value class before `fix: accept signed and exponent values in the fast imzML parser`
(`[\w.]+`) is the reason for the hypothesis on values: with it the example document, whose first TIC
is `1.500000e+06`, makes the fast parser fail with `float(None)` while the XML parser succeeds -/
theorem fast_rejects_exponent :
    fastParse (fun _ => true) ((render clsWord exampleDoc).map (fun l => (l, 1))) = .error .typeError ∧
    (xmlView exampleDoc).isSome = true ∧
    (∃ m, fastParse (fun _ => true) ((render clsAny exampleDoc).map (fun l => (l, 1))) = .ok m ∧ xmlView exampleDoc = some m) := by
  refine ⟨by decide +kernel, by decide +kernel, ?_⟩
  exact fast_eq_xml_no_callback clsAny exampleDoc (by decide +kernel) _ (by simp [List.map_map, Function.comp_def])

end Pew.FastParse
