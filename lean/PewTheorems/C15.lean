import PewProofs.Otsu

/-! # C15 — property theorems (statements only depend on `PewModel.Otsu`)

`hist`/`edges` are what `np.histogram(x, bins=n)` returned (`n = 256` in the code; the theorems
hold for every `n ≥ 2`), `cs = centres edges`.  Hypotheses: `edges.length = hist.length + 1`
(NumPy's contract) and strictly increasing edges (at least two distinct finite values). -/
namespace Pew.Otsu

/-- `np.argmax` semantics used by the model: the returned index is in range, no entry is larger,
and every earlier entry is strictly smaller (first maximum) -/
theorem argmax_maximal (l : List Rat) (hne : l ≠ []) :
    argmaxFirst l < l.length ∧
    ∀ j, j < l.length → l.getD j 0 ≤ l.getD (argmaxFirst l) 0 ∧
      (j < argmaxFirst l → l.getD j 0 < l.getD (argmaxFirst l) 0) :=
  argmaxFirst_spec l hne

/-- the cumulative-sum alignment: the criterion array of the mechanism
(`cumsum`, reversed `cumsum`, `[:-1]` against `[1:]`) is, entry by entry, the between-class
criterion `W1·W2·(μ1 − μ2)²` of the cut "class 1 = bins ≤ i, class 2 = bins > i", for all cuts -/
theorem crit_is_between_class_variance (hist : List Nat) (cs : List Rat)
    (hc : cs.length = hist.length) :
    critList hist cs = specCritList hist cs ∧
    ∀ i, i + 1 < hist.length → (critList hist cs)[i]? = some (specCrit hist cs i) :=
  ⟨critList_eq_spec hist cs hc, critList_getElem? hist cs hc⟩

/-- the returned value is the centre of a bin `i ≤ n − 2` whose cut maximises the between-class
criterion over all cut points, and it is the first such bin -/
theorem otsu_maximises (hist : List Nat) (edges : List Rat) (hn : 2 ≤ hist.length)
    (he : edges.length = hist.length + 1) :
    ∃ i, i + 1 < hist.length ∧ otsuHist hist edges = (centres edges).getD i 0 ∧
      (∀ j, j + 1 < hist.length → specCrit hist (centres edges) j ≤ specCrit hist (centres edges) i) ∧
      (∀ j, j < i → specCrit hist (centres edges) j < specCrit hist (centres edges) i) := by
  have hcl : (centres edges).length = hist.length := by simp [he]
  have hlen := critList_length hist (centres edges) hcl
  have hne : critList hist (centres edges) ≠ [] := by
    intro h; rw [h] at hlen; simp at hlen; omega
  obtain ⟨hlt, hmax⟩ := argmaxFirst_spec _ hne
  have key : ∀ j, j + 1 < hist.length →
      (critList hist (centres edges)).getD j 0 = specCrit hist (centres edges) j := by
    intro j hj
    rw [List.getD_eq_getElem?_getD, critList_getElem? hist _ hcl j hj]; rfl
  refine ⟨argmaxFirst (critList hist (centres edges)), by omega, rfl, ?_, ?_⟩
  · intro j hj
    have := (hmax j (by omega)).1
    rwa [key j hj, key _ (by omega)] at this
  · intro j hj
    have := (hmax j (by omega)).2 hj
    rwa [key j (by omega), key _ (by omega)] at this

/-- the threshold is a bin centre strictly between the first and the last edge (= min and max of
the data): in particular it lies in [min, max) -/
theorem is_centre_in_range (hist : List Nat) (edges : List Rat) (hn : 2 ≤ hist.length)
    (he : edges.length = hist.length + 1) (hp : edges.Pairwise (· < ·)) :
    edges.getD 0 0 < otsuHist hist edges ∧ otsuHist hist edges < edges.getD hist.length 0 :=
  otsuHist_in_range hist edges hn he hp

/-- data level (exact uniform binning): min < threshold < max whenever there are two distinct values -/
theorem threshold_between_min_max (xs : List Rat) (n : Nat) (hn : 2 ≤ n) (h : minL xs < maxL xs) :
    minL xs < otsuData xs n ∧ otsuData xs n < maxL xs :=
  otsuData_in_range xs n hn h

/-- thresholding a two-valued image separates the two values: `a ≤ t` and `b > t` -/
theorem two_valued_separates (a b : Rat) (hab : a < b) (xs : List Rat) (n : Nat) (hn : 2 ≤ n)
    (ha : a ∈ xs) (hb : b ∈ xs) (hall : ∀ x ∈ xs, x = a ∨ x = b) :
    ¬ (a > otsuData xs n) ∧ b > otsuData xs n := by
  have hne : xs ≠ [] := List.ne_nil_of_mem ha
  obtain ⟨hmin, hminle⟩ := minL_spec xs hne
  obtain ⟨hmax, hmaxle⟩ := maxL_spec xs hne
  have e1 : minL xs = a := by
    rcases hall _ hmin with h | h
    · exact h
    · have := hminle a ha; rw [h] at this; linarith
  have e2 : maxL xs = b := by
    rcases hall _ hmax with h | h
    · have := hmaxle b hb; rw [h] at this; linarith
    · exact h
  have := otsuData_in_range xs n hn (by rw [e1, e2]; exact hab)
  rw [e1, e2] at this
  exact ⟨not_lt.mpr this.1.le, this.2⟩

/-- multiplying the data by any positive factor multiplies the threshold by the same factor
(exact arithmetic; for powers of two the float computation scales exactly as well) -/
theorem scale_invariant (c : Rat) (hc : 0 < c) (xs : List Rat) (n : Nat) (h : minL xs < maxL xs) :
    otsuData (xs.map (c * ·)) n = c * otsuData xs n :=
  otsuData_scale c hc xs n h

/-- from the histogram on: scaling the edges scales the threshold -/
theorem scale_invariant_hist (c : Rat) (hc : 0 < c) (hist : List Nat) (edges : List Rat)
    (he : edges.length = hist.length + 1) :
    otsuHist hist (edges.map (c * ·)) = c * otsuHist hist edges :=
  otsuHist_scale c hc hist edges he

/-- with NaN removal requested the result is that of the data without its NaNs, wherever the
NaNs sit -/
theorem nan_removed (ys : List Rat) (xs : List (Option Rat)) (n : Nat) (h : xs.filterMap id = ys) :
    otsuRemoveNan xs n = otsuData ys n := by
  unfold otsuRemoveNan; rw [h]

theorem nan_interleave (a b : List (Option Rat)) (n : Nat) :
    otsuRemoveNan (a ++ none :: b) n = otsuRemoveNan (a ++ b) n := by
  unfold otsuRemoveNan; simp [List.filterMap_append]

/-- no division by zero anywhere in the mechanism: for data with two distinct values the first and the
last bin are never empty (they hold min and max), hence both class weights are positive at every
cut point — the class means `u1`, `u2` are genuine quotients -/
theorem class_weights_positive (xs : List Rat) (n : Nat) (hn : 2 ≤ n) (h : minL xs < maxL xs)
    (i : Nat) (hi : i + 1 < n) :
    0 < sumR (((histogram xs n).1.map (fun (k : Nat) => (k : Rat))).take (i + 1)) ∧
    0 < sumR (((histogram xs n).1.map (fun (k : Nat) => (k : Rat))).drop (i + 1)) := by
  obtain ⟨hl, h0, h1⟩ := histogram_end_bins xs n hn h
  exact class_weights_pos (histogram xs n).1 h0 (by rw [hl]; exact h1) i (by rw [hl]; exact hi)

/-! ## non-vacuity -/

def exHist : List Nat := [2, 0, 1, 3]
def exEdges : List Rat := [0, 1, 2, 3, 4]

example : 2 ≤ exHist.length ∧ exEdges.length = exHist.length + 1 ∧ exEdges.Pairwise (· < ·) := by
  decide +kernel
example : critList exHist (centres exEdges) = [121/2, 121/2, 49] ∧ otsuHist exHist exEdges = 1/2 := by
  decide +kernel
example : critList exHist (centres exEdges) ≠ [] := by decide +kernel
-- two distinct values, two-valued data, NaNs interleaved
example : minL [1, 3, 1, 3, 3] < maxL [1, 3, 1, 3, 3] := by decide +kernel
example : otsuData [1, 3, 1, 3, 3] 4 = 5/4 := by decide +kernel
example : histogram [1, 2, 1, 4, 5, 5] 4 = ([2, 1, 0, 3], [1, 2, 3, 4, 5]) ∧ otsuData [1, 2, 1, 4, 5, 5] 4 = 5/2 := by
  decide +kernel
example : otsuRemoveNan [some 1, none, some 3, some 1, none, some 3, some 3] 4 = 5/4 := by decide +kernel
example : otsuData ([1, 3, 1, 3, 3].map ((8 : Rat) * ·)) 4 = 8 * (5/4) := by decide +kernel

end Pew.Otsu
