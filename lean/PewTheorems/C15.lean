import PewProofs.Otsu
import PewProofs.OtsuScale
import PewProofs.OtsuFloat

/-! # C15 — property theorems (statements only depend on `PewModel.Otsu`)

`hist`/`edges` are what `np.histogram(x, bins=n)` returned (`n = 256` in the code; the theorems
hold for every `n ≥ 2`), `cs = centres edges`.  Hypotheses: `edges.length = hist.length + 1`
(NumPy's contract), strictly increasing edges (at least two distinct finite values), and - for the statements about
the criterion - occupied end bins (`1 ≤ hist[0]`, `1 ≤ hist[n-1]`): the histogram of data with two distinct values
has them (`end_bins_occupied`), and without them floating point produces `0/0` (`first_bin_empty_returns_first_centre`).

The mechanism the theorems speak about is the code's: the NaN-carrying criterion (`critListN`, `argmaxN`) formed from
the centres rescaled by a power of two (`scaledCentres`), the unscaled centre returned (`otsuHistS`).  `otsuHistN` is
the same without the rescaling step; `rescaling_keeps_argmax` shows that the two return the same value. -/
namespace Pew.Otsu

/-! ## `np.argmax` -/

/-- `np.argmax` semantics used by the model: the returned index is in range, no entry is larger,
and every earlier entry is strictly smaller (first maximum) -/
theorem argmax_maximal (l : List Rat) (hne : l ≠ []) :
    argmaxFirst l < l.length ∧
    ∀ j, j < l.length → l.getD j 0 ≤ l.getD (argmaxFirst l) 0 ∧
      (j < argmaxFirst l → l.getD j 0 < l.getD (argmaxFirst l) 0) :=
  argmaxFirst_spec l hne

/-- `np.argmax` on an array with NaN: the position of the first NaN (every earlier entry is a number); on an array
without NaN it is the first maximum -/
theorem argmax_nan (l : List (Option Rat)) :
    (none ∈ l → argmaxN l < l.length ∧ l[argmaxN l]? = some none ∧
      ∀ j, j < argmaxN l → ∃ v, l[j]? = some (some v)) ∧
    (∀ l' : List Rat, l = l'.map some → argmaxN l = argmaxFirst l') :=
  ⟨argmaxN_spec_nan l, fun l' h => by rw [h]; exact argmaxN_map_some l'⟩

example : argmaxN [some 1, none, some 3, none] = 1 ∧ argmaxN [some 1, some 3, some 3] = 1 := by decide +kernel

/-! ## the criterion -/

/-- the cumulative-sum alignment, floating-point division included: entry `i` of the criterion array of the mechanism
(`cumsum`, reversed `cumsum`, `[:-1]` against `[1:]`) is NaN exactly when one of the two classes of the cut
"class 1 = bins ≤ i, class 2 = bins > i" is empty, and otherwise the between-class criterion `W1·W2·(μ1 − μ2)²` of
that cut; with both end bins occupied no entry is NaN and the whole array is the brute-force specification -/
theorem crit_is_between_class_variance (hist : List Nat) (cs : List Rat)
    (hc : cs.length = hist.length) :
    (∀ i, i + 1 < hist.length → (critListN hist cs)[i]? = some
      (if (cutSums hist cs i).1 = 0 ∨ (cutSums hist cs i).2.1 = 0 then none else some (specCrit hist cs i))) ∧
    (1 ≤ hist.getD 0 0 → 1 ≤ hist.getD (hist.length - 1) 0 →
      critListN hist cs = (specCritList hist cs).map some) := by
  refine ⟨fun i hi => critListN_getElem? hist cs hc i hi, fun h0 hl => ?_⟩
  rw [critListN_eq_some hist cs hc h0 hl, critList_eq_spec hist cs hc]

/-- why `none` is NaN and never ±inf: a class without weight has no moment either, so wherever the mechanism divides by
zero the dividend is zero as well (`0/0`) -/
theorem zero_over_zero (hist : List Nat) (cs : List Rat) (i : Nat) :
    ((cutSums hist cs i).1 = 0 → (cutSums hist cs i).2.2.1 = 0) ∧
    ((cutSums hist cs i).2.1 = 0 → (cutSums hist cs i).2.2.2 = 0) :=
  ⟨prefix_moment_zero hist cs i, suffix_moment_zero hist cs i⟩

example : cutSums [0, 0, 3, 2] [1/2, 3/2, 5/2, 7/2] 1 = (0, 5, 0, 29/2) := by decide +kernel

/-- the returned value is the centre of a bin `i ≤ n − 2` whose cut maximises the between-class
criterion over all cut points, and it is the first such bin -/
theorem otsu_maximises (hist : List Nat) (edges : List Rat) (hn : 2 ≤ hist.length)
    (he : edges.length = hist.length + 1)
    (h0 : 1 ≤ hist.getD 0 0) (hl : 1 ≤ hist.getD (hist.length - 1) 0) :
    ∃ i, i + 1 < hist.length ∧ otsuHistS hist edges = (centres edges).getD i 0 ∧
      (∀ j, j + 1 < hist.length → specCrit hist (centres edges) j ≤ specCrit hist (centres edges) i) ∧
      (∀ j, j < i → specCrit hist (centres edges) j < specCrit hist (centres edges) i) := by
  rw [otsuHistS_eq, otsuHistN_eq hist edges he h0 hl]
  have hcl : (centres edges).length = hist.length := by simp [he]
  have hlen := critList_length hist (centres edges) hcl
  have hne : critList hist (centres edges) ≠ [] := by
    intro h; rw [h] at hlen; simp at hlen; omega
  obtain ⟨hlt, hmax⟩ := argmaxFirst_spec _ hne
  have key : ∀ j, j + 1 < hist.length →
      (critList hist (centres edges)).getD j 0 = specCrit hist (centres edges) j := by
    intro j hj
    rw [List.getD_eq_getElem?_getD, critList_getElem? hist _ hcl j hj]; rfl
  refine ⟨argmaxFirst (critList hist (centres edges)), by omega, rfl, ?_, ?_⟩
  · intro j hj
    have := (hmax j (by omega)).1
    rwa [key j hj, key _ (by omega)] at this
  · intro j hj
    have := (hmax j (by omega)).2 hj
    rwa [key j (by omega), key _ (by omega)] at this

/-- why the hypothesis on the end bins is there: with an empty first bin the first criterion entry is `0/0`,
`np.argmax` returns 0 and the first centre comes back, whatever the rest of the histogram -/
theorem first_bin_empty_returns_first_centre (hist : List Nat) (edges : List Rat) (hn : 2 ≤ hist.length)
    (he : edges.length = hist.length + 1) (h0 : hist.getD 0 0 = 0) :
    (critListN hist (scaledCentres edges))[0]? = some none ∧ otsuHistS hist edges = (centres edges).getD 0 0 := by
  have h := otsuHistN_first_empty hist edges hn he h0
  refine ⟨?_, by rw [otsuHistS_eq]; exact h.2⟩
  unfold scaledCentres
  rw [critListN_scale, List.getElem?_map, h.1]
  rfl

/-- the threshold is a bin centre strictly between the first and the last edge (= min and max of
the data): in particular it lies in [min, max).  (No hypothesis on the bins: also on the NaN path.) -/
theorem is_centre_in_range (hist : List Nat) (edges : List Rat) (hn : 2 ≤ hist.length)
    (he : edges.length = hist.length + 1) (hp : edges.Pairwise (· < ·)) :
    edges.getD 0 0 < otsuHistS hist edges ∧ otsuHistS hist edges < edges.getD hist.length 0 := by
  rw [otsuHistS_eq]
  exact otsuHistN_in_range hist edges hn he hp

/-! ## the rescaling step (`np.frexp` of the larger outer edge, `np.ldexp(bin_centers, -exponent)`) -/

/-- `np.frexp`: for `q ≠ 0` the exponent `e` brackets the magnitude, `2^(e−1) ≤ |q| < 2^e`, and it is the only
integer that does; multiplying `q` by `2^k` adds `k` to it -/
theorem frexp_exponent (q : Rat) (hq : q ≠ 0) :
    (pow2 (frexpExp q - 1) ≤ absQ q ∧ absQ q < pow2 (frexpExp q)) ∧
    (∀ e : Int, pow2 (e - 1) ≤ absQ q → absQ q < pow2 e → frexpExp q = e) ∧
    (∀ k : Int, frexpExp (pow2 k * q) = frexpExp q + k) := by
  simp only [pow2_eq_zpow, absQ_eq_abs]
  exact ⟨frexpExp_spec q hq, fun e h1 h2 => frexpExp_unique q e h1 h2,
    fun k => by have := frexpExp_pow2_mul k q hq; rwa [pow2_eq_zpow] at this⟩

example : frexpExp 1 = 1 ∧ frexpExp (3/4) = 0 ∧ frexpExp (-5) = 3 ∧ frexpExp (1/1024) = -9 ∧ frexpExp 0 = 0 ∧
    pow2 (-3) = 1/8 ∧ pow2 10 = 1024 := by decide +kernel

/-- **The rescaling step does not change the result.**  The criterion formed from the centres divided by `2^e` is
`4^(−e)` times the criterion of the centres themselves, NaN where that is NaN; `np.argmax` is the same index; the value
returned is the centre at that index.  For every histogram and all edges, the NaN path included. -/
theorem rescaling_keeps_argmax (hist : List Nat) (edges : List Rat) :
    critListN hist (scaledCentres edges) =
      (critListN hist (centres edges)).map (Option.map (pow2 (-(scaleExp edges)) ^ 2 * ·)) ∧
    argmaxN (critListN hist (scaledCentres edges)) = argmaxN (critListN hist (centres edges)) ∧
    otsuHistS hist edges = otsuHistN hist edges := by
  refine ⟨by unfold scaledCentres; rw [critListN_scale], ?_, otsuHistS_eq hist edges⟩
  unfold scaledCentres
  rw [critListN_scale, argmaxN_scale _ (by have := pow2_pos (-(scaleExp edges)); positivity)]

/-- **Power-of-two scaling, from the histogram on, with no hypothesis on the bins.**  Multiplying the edges by `2^k`
(what `np.histogram` returns for `2^k · x`, short of over/underflow) leaves the rescaled centres - the operands of the
criterion - exactly as they were: the criterion array is the same array, `np.argmax` the same index, and the returned
centre is `2^k` times the other one.  In floating point the operands are the same bit patterns, which is why the
implementation satisfies the clause bit for bit. -/
theorem pow2_scaling_exact (k : Int) (hist : List Nat) (edges : List Rat) (hM : outerMag edges ≠ 0) :
    scaleExp (edges.map (pow2 k * ·)) = scaleExp edges + k ∧
    scaledCentres (edges.map (pow2 k * ·)) = scaledCentres edges ∧
    critListN hist (scaledCentres (edges.map (pow2 k * ·))) = critListN hist (scaledCentres edges) ∧
    otsuHistS hist (edges.map (pow2 k * ·)) = pow2 k * otsuHistS hist edges :=
  ⟨scaleExp_pow2 k edges hM, scaledCentres_pow2 k edges hM, by rw [scaledCentres_pow2 k edges hM],
    otsuHistS_pow2 k hist edges hM⟩

/-- increasing edges have a positive outer magnitude (the hypothesis of `pow2_scaling_exact`), every rescaled centre
has magnitude below one - its square cannot overflow - and the larger outer edge is at least one half in these units -/
theorem scaled_centres_bounded (edges : List Rat) (hp : edges.Pairwise (· < ·)) (hn : 2 ≤ edges.length) :
    0 < outerMag edges ∧
    (∀ i, i + 1 < edges.length → absQ ((scaledCentres edges).getD i 0) < 1) ∧
    1 / 2 ≤ pow2 (-(scaleExp edges)) * outerMag edges ∧ pow2 (-(scaleExp edges)) * outerMag edges < 1 := by
  simp only [absQ_eq_abs]
  exact ⟨outerMag_pos edges hp hn, scaledCentres_bounded edges hp hn⟩

example : scaleExp [0, 1, 2, 3] = 2 ∧ scaledCentres [0, 1, 2, 3] = [1/8, 3/8, 5/8] ∧
    scaledCentres ([0, 1, 2, 3].map (pow2 511 * ·)) = [1/8, 3/8, 5/8] ∧
    otsuHistS [1, 1, 1] ([0, 1, 2, 3].map (pow2 511 * ·)) = pow2 511 * (1/2) := by decide +kernel

/-! ## the criterion in floating point: "attains the maximum up to rounding", with the rounding budget made explicit

`critListR fl` is `otsu` from `hist * centers` on, every arithmetic result passed through the rounding function `fl`
(`np.cumsum`: sequential sums; class weights: exact integers).  `critListB u η` runs the same program on pairs (exact
value, bound on |computed − exact|).  The only thing assumed of `fl` is the standard model of binary floating point,
`|fl x − x| ≤ u·|x| + η` (binary64, round to nearest: `u = 2^-53`, `η = 2^-1075`; no overflow: the rescaled centres are
below one in magnitude, `scaled_centres_bounded`).  Where a class is empty the float code produces NaN; these statements
then speak of the `x/0 = 0` reading of both sides (data with two distinct values never gets there: `end_bins_occupied`). -/

/-- **Every entry of the float criterion is within its budget of the exact between-class criterion** -/
theorem float_criterion_within_budget (fl : Rat → Rat) (u η : Rat) (hu : 0 ≤ u)
    (hfl : ∀ x, absQ (fl x - x) ≤ u * absQ x + η)
    (hist : List Nat) (edges : List Rat) (he : edges.length = hist.length + 1) (i : Nat) (hi : i + 1 < hist.length) :
    absQ ((critListR fl hist (scaledCentresR fl edges)).getD i 0 - specCrit hist (scaledCentres edges) i)
        ≤ ((critListB u η hist (scaledCentresB u η edges)).getD i (0, 0)).2 ∧
    specCrit hist (scaledCentres edges) i = pow2 (-(scaleExp edges)) ^ 2 * specCrit hist (centres edges) i := by
  simp only [absQ_eq_abs] at hfl ⊢
  exact ⟨float_criterion_within_budget' fl u η hu hfl hist edges he i hi, specCrit_scaled_units hist edges i⟩

/-- **The cut the float code returns attains the maximum up to the budget**: `k = np.argmax` of the float criterion
is a cut, the returned value is the float centre at `k`, and no cut `j` beats it by more than the budgets of the two
cuts: `crit j ≤ crit k + budget k + budget j` (exact criterion, in units of `4^exponent`) -/
theorem float_argmax_within_budget (fl : Rat → Rat) (u η : Rat) (hu : 0 ≤ u)
    (hfl : ∀ x, absQ (fl x - x) ≤ u * absQ x + η)
    (hist : List Nat) (edges : List Rat) (hn : 2 ≤ hist.length) (he : edges.length = hist.length + 1) :
    argmaxFirst (critListR fl hist (scaledCentresR fl edges)) + 1 < hist.length ∧
    otsuHistR fl hist edges = (centresR fl edges).getD (argmaxFirst (critListR fl hist (scaledCentresR fl edges))) 0 ∧
    ∀ j, j + 1 < hist.length →
      specCrit hist (scaledCentres edges) j ≤
        specCrit hist (scaledCentres edges) (argmaxFirst (critListR fl hist (scaledCentresR fl edges)))
        + ((critListB u η hist (scaledCentresB u η edges)).getD
            (argmaxFirst (critListR fl hist (scaledCentresR fl edges))) (0, 0)).2
        + ((critListB u η hist (scaledCentresB u η edges)).getD j (0, 0)).2 := by
  simp only [absQ_eq_abs] at hfl
  exact float_argmax_within_budget' fl u η hu hfl hist edges hn he

/-! ## runs of empty bins: which maximiser comes back -/

/-- **Cuts in a run of empty bins are the same cut.**  `classStart hist i` is the first cut of the run of cuts that
`i` lies in (all bins after it, up to bin `i`, are empty).  The four sums the criterion is computed from - entry `i` of
the forward cumulative sums and entry `i + 1` of the backward ones, of `hist` and of `hist * bin_centers` - are the
same at both cuts, hence so is the criterion: the floating-point computation sees identical operands, and
`np.argmax`, which returns the first maximum, can only return the first cut of a run. -/
theorem empty_run_ties (hist : List Nat) (cs : List Rat) (i : Nat) :
    classStart hist i ≤ i ∧
    (∀ j, classStart hist i < j → j ≤ i → hist.getD j 0 = 0) ∧
    cutSums hist cs (classStart hist i) = cutSums hist cs i ∧
    specCrit hist cs (classStart hist i) = specCrit hist cs i := by
  refine ⟨classStart_le hist i, fun j h1 h2 => classStart_empty_between hist i j h1 h2,
    cutSums_classStart hist cs i, ?_⟩
  rw [specCrit_eq_cutSums, specCrit_eq_cutSums, cutSums_classStart]

/-- the cut the mechanism returns is the first cut of its run -/
theorem returned_is_first_of_run (hist : List Nat) (edges : List Rat) (hn : 2 ≤ hist.length)
    (he : edges.length = hist.length + 1)
    (h0 : 1 ≤ hist.getD 0 0) (hl : 1 ≤ hist.getD (hist.length - 1) 0) :
    classStart hist (argmaxN (critListN hist (scaledCentres edges))) =
      argmaxN (critListN hist (scaledCentres edges)) := by
  have hsc : argmaxN (critListN hist (scaledCentres edges)) = argmaxN (critListN hist (centres edges)) := by
    unfold scaledCentres
    rw [critListN_scale, argmaxN_scale _ (by have := pow2_pos (-(scaleExp edges)); positivity)]
  rw [hsc]
  have hcl : (centres edges).length = hist.length := by simp [he]
  rw [critListN_eq_some hist _ hcl h0 hl, argmaxN_map_some]
  have hlen := critList_length hist (centres edges) hcl
  have hne : critList hist (centres edges) ≠ [] := by
    intro h; rw [h] at hlen; simp at hlen; omega
  obtain ⟨hlt, hmax⟩ := argmaxFirst_spec _ hne
  generalize argmaxFirst (critList hist (centres edges)) = r at *
  have hle := classStart_le hist r
  rcases Nat.lt_or_ge (classStart hist r) r with hlt' | hge
  · exfalso
    have key : ∀ j, j + 1 < hist.length →
        (critList hist (centres edges)).getD j 0 = specCrit hist (centres edges) j := by
      intro j hj
      rw [List.getD_eq_getElem?_getD, critList_getElem? hist _ hcl j hj]; rfl
    have := (hmax (classStart hist r) (by omega)).2 hlt'
    rw [key _ (by omega), key _ (by omega), (empty_run_ties hist (centres edges) r).2.2.2] at this
    exact lt_irrefl _ this
  · omega

example : (List.range 5).map (classStart [2, 0, 0, 3, 0, 1]) = [0, 0, 0, 3, 3] := by decide

/-! ## binning -/

/-- **`binByEdges` is the bin of NumPy's documentation.**  For increasing edges `e_0 < … < e_n` and `x ≥ e_0` the
result `k` is a bin (`k ≤ n − 1`) with `e_k ≤ x`, and `x < e_{k+1}` unless `k` is the last bin (which is closed);
and it is the only such `k`. -/
theorem bin_by_edges_is_the_bin (edges : List Rat) (n : Nat) (hn : 1 ≤ n) (he : edges.length = n + 1)
    (hp : edges.Pairwise (· < ·)) (x : Rat) (h0 : edges.getD 0 0 ≤ x) :
    (binByEdges edges x ≤ n - 1 ∧ edges.getD (binByEdges edges x) 0 ≤ x ∧
      (binByEdges edges x < n - 1 → x < edges.getD (binByEdges edges x + 1) 0)) ∧
    ∀ k, k ≤ n - 1 → edges.getD k 0 ≤ x → (k < n - 1 → x < edges.getD (k + 1) 0) → k = binByEdges edges x := by
  have hs := binByEdges_spec edges n hn he hp x h0
  refine ⟨hs, fun k hk a1 a2 => ?_⟩
  exact bin_unique edges n he hp x k _ hk hs.1 a1 a2 hs.2.1 hs.2.2

/-- **NumPy's correction steps.**  `np.histogram` estimates the bin as `trunc(((x − first) / (last − first)) · n)`
in floating point, moves an estimate `n` to `n − 1`, decrements it when `x < edges[i]` and increments it when
`x ≥ edges[i + 1]` (not in the last bin).  Whenever the estimate is the bin the edges prescribe or one beside it, the
result is that bin - for every value and every increasing list of edges.  (The check evaluates `npBin` on the estimate
the `Float` model computes - also when it is further off - and reports whether this hypothesis held.) -/
theorem np_bin_correct (edges : List Rat) (n : Nat) (hn : 1 ≤ n) (he : edges.length = n + 1)
    (hp : edges.Pairwise (· < ·)) (x : Rat) (h0 : edges.getD 0 0 ≤ x) (est : Nat)
    (hest : est = binByEdges edges x ∨ est = binByEdges edges x + 1 ∨ est + 1 = binByEdges edges x) :
    npBin edges n est x = binByEdges edges x :=
  npBin_eq edges n hn he hp x h0 est hest

/-- for a whole array: NumPy's counts are the counts against the edges -/
theorem np_histogram_by_edges (edges : List Rat) (n : Nat) (hn : 1 ≤ n) (he : edges.length = n + 1)
    (hp : edges.Pairwise (· < ·)) (xs : List Rat) (ests : List Nat) (hl : ests.length = xs.length)
    (h0 : ∀ x ∈ xs, edges.getD 0 0 ≤ x)
    (hest : ∀ i (h : i < xs.length), ests.getD i 0 = binByEdges edges xs[i] ∨
      ests.getD i 0 = binByEdges edges xs[i] + 1 ∨ ests.getD i 0 + 1 = binByEdges edges xs[i]) :
    countBins (List.zipWith (fun e x => npBin edges n e x) ests xs) n = histogramE edges xs := by
  unfold histogramE
  rw [he, Nat.add_sub_cancel]
  congr 1
  apply List.ext_getElem
  · simp [hl]
  · intro i h1 h2
    have hi : i < xs.length := by simpa using h2
    have hi' : i < ests.length := by omega
    simp only [List.getElem_zipWith, List.getElem_map]
    have := hest i hi
    rw [List.getD_eq_getElem?_getD, List.getElem?_eq_getElem hi'] at this
    exact npBin_eq edges n hn he hp _ (h0 _ (List.getElem_mem hi)) _ this

example : npBin [0, 1, 2, 3, 4] 4 4 4 = 3 ∧ npBin [0, 1, 2, 3, 4] 4 2 2 = 2 ∧ npBin [0, 1, 2, 3, 4] 4 1 2 = 2 ∧
    npBin [0, 1, 2, 3, 4] 4 3 (5/2) = 2 ∧ binByEdges [0, 1, 2, 3, 4] (5/2) = 2 ∧ binByEdges [0, 1, 2, 3, 4] 4 = 3 := by
  decide +kernel

/-- the exact uniform histogram (`bin = ⌊(x − min)/(max − min)·n⌋`, the maximum into the last bin) is the histogram
against the exact uniform edges -/
theorem uniform_binning_is_by_edges (xs : List Rat) (n : Nat) (hn : 1 ≤ n) (h : minL xs < maxL xs) :
    histogram xs n = (histogramE (uniformEdges (minL xs) (maxL xs) n) xs, uniformEdges (minL xs) (maxL xs) n) :=
  histogram_eq_histogramE xs n hn h

/-! ## data level: any increasing edges from the minimum to the maximum (NumPy's floating-point edges, or the exact
uniform ones) -/

/-- no division by zero anywhere in the mechanism: for data binned against increasing edges that start at its
minimum and end at its maximum the first and the last bin are never empty, hence both class weights are positive at
every cut point - the class means `u1`, `u2` are genuine quotients and the criterion holds no NaN -/
theorem end_bins_occupied (edges xs : List Rat) (n : Nat) (hn : 2 ≤ n) (he : edges.length = n + 1)
    (hp : edges.Pairwise (· < ·)) (hmin : edges.getD 0 0 ∈ xs) (hmax : edges.getD n 0 ∈ xs) :
    (histogramE edges xs).length = n ∧
    1 ≤ (histogramE edges xs).getD 0 0 ∧ 1 ≤ (histogramE edges xs).getD (n - 1) 0 ∧
    (∀ i, i + 1 < n → 0 < (cutSums (histogramE edges xs) (centres edges) i).1 ∧
      0 < (cutSums (histogramE edges xs) (centres edges) i).2.1) ∧
    critListN (histogramE edges xs) (centres edges) = (specCritList (histogramE edges xs) (centres edges)).map some := by
  have hl : (histogramE edges xs).length = n := by rw [histogramE_length, he]; omega
  obtain ⟨g0, g1⟩ := histogramE_end_bins edges xs n (by omega) he hp hmin hmax
  refine ⟨hl, g0, g1, ?_, ?_⟩
  · intro i hi
    exact class_weights_pos (histogramE edges xs) g0 (by rw [hl]; exact g1) i (by rw [hl]; exact hi)
  · exact (crit_is_between_class_variance _ _ (by simp [he, hl])).2 g0 (by rw [hl]; exact g1)

/-- min < threshold < max -/
theorem threshold_between_edges (edges xs : List Rat) (n : Nat) (hn : 2 ≤ n) (he : edges.length = n + 1)
    (hp : edges.Pairwise (· < ·)) :
    edges.getD 0 0 < otsuEdges edges xs ∧ otsuEdges edges xs < edges.getD n 0 :=
  otsuEdges_in_range edges xs n hn he hp

/-- multiplying data and edges by any positive factor multiplies the threshold by the same factor (for a power of
two the floating-point edges of the scaled data are the scaled edges, bit for bit, short of over/underflow) -/
theorem scale_invariant_edges (c : Rat) (hc : 0 < c) (edges xs : List Rat) (n : Nat) (hn : 1 ≤ n)
    (he : edges.length = n + 1) (hp : edges.Pairwise (· < ·))
    (hmin : edges.getD 0 0 ∈ xs) (hmax : edges.getD n 0 ∈ xs) :
    otsuEdges (edges.map (c * ·)) (xs.map (c * ·)) = c * otsuEdges edges xs :=
  otsuEdges_scale c hc edges xs n hn he hp hmin hmax

/-! ## data level, exact uniform binning -/

/-- min < threshold < max whenever there are two distinct values -/
theorem threshold_between_min_max (xs : List Rat) (n : Nat) (hn : 2 ≤ n) (h : minL xs < maxL xs) :
    minL xs < otsuData xs n ∧ otsuData xs n < maxL xs :=
  otsuData_in_range xs n hn h

/-- thresholding a two-valued image separates the two values: `a ≤ t` and `b > t` -/
theorem two_valued_separates (a b : Rat) (hab : a < b) (xs : List Rat) (n : Nat) (hn : 2 ≤ n)
    (ha : a ∈ xs) (hb : b ∈ xs) (hall : ∀ x ∈ xs, x = a ∨ x = b) :
    ¬ (a > otsuData xs n) ∧ b > otsuData xs n := by
  have hne : xs ≠ [] := List.ne_nil_of_mem ha
  obtain ⟨hmin, hminle⟩ := minL_spec xs hne
  obtain ⟨hmax, hmaxle⟩ := maxL_spec xs hne
  have e1 : minL xs = a := by
    rcases hall _ hmin with h | h
    · exact h
    · have := hminle a ha; rw [h] at this; linarith
  have e2 : maxL xs = b := by
    rcases hall _ hmax with h | h
    · have := hmaxle b hb; rw [h] at this; linarith
    · exact h
  have := otsuData_in_range xs n hn (by rw [e1, e2]; exact hab)
  rw [e1, e2] at this
  exact ⟨not_lt.mpr this.1.le, this.2⟩

/-- the same against any increasing edges from `a` to `b` (NumPy's) -/
theorem two_valued_separates_edges (edges xs : List Rat) (n : Nat) (hn : 2 ≤ n) (he : edges.length = n + 1)
    (hp : edges.Pairwise (· < ·)) :
    ¬ (edges.getD 0 0 > otsuEdges edges xs) ∧ edges.getD n 0 > otsuEdges edges xs := by
  have := otsuEdges_in_range edges xs n hn he hp
  exact ⟨not_lt.mpr this.1.le, this.2⟩

/-- multiplying the data by any positive factor multiplies the threshold by the same factor
(exact arithmetic; for powers of two the float computation scales exactly as well) -/
theorem scale_invariant (c : Rat) (hc : 0 < c) (xs : List Rat) (n : Nat) (h : minL xs < maxL xs) :
    otsuData (xs.map (c * ·)) n = c * otsuData xs n :=
  otsuData_scale c hc xs n h

/-- from the histogram on: scaling the edges scales the threshold -/
theorem scale_invariant_hist (c : Rat) (hc : 0 < c) (hist : List Nat) (edges : List Rat)
    (he : edges.length = hist.length + 1)
    (h0 : 1 ≤ hist.getD 0 0) (hl : 1 ≤ hist.getD (hist.length - 1) 0) :
    otsuHistS hist (edges.map (c * ·)) = c * otsuHistS hist edges := by
  rw [otsuHistS_eq, otsuHistS_eq, otsuHistN_eq hist _ (by simpa using he) h0 hl, otsuHistN_eq hist edges he h0 hl]
  exact otsuHist_scale c hc hist edges he

/-- exact uniform binning: the first and the last bin are never empty (they hold min and max), both class weights are
positive at every cut point -/
theorem class_weights_positive (xs : List Rat) (n : Nat) (hn : 2 ≤ n) (h : minL xs < maxL xs)
    (i : Nat) (hi : i + 1 < n) :
    0 < sumR (((histogram xs n).1.map (fun (k : Nat) => (k : Rat))).take (i + 1)) ∧
    0 < sumR (((histogram xs n).1.map (fun (k : Nat) => (k : Rat))).drop (i + 1)) := by
  obtain ⟨hl, h0, h1⟩ := histogram_end_bins xs n hn h
  exact class_weights_pos (histogram xs n).1 h0 (by rw [hl]; exact h1) i (by rw [hl]; exact hi)

/-! ## NaN -/

/-- **With NaN removal requested the result is that of the data without its NaNs.**  `otsuArr` follows the code on an
array that may hold NaN (`none`): the boolean mask `x[~np.isnan(x)]`, then `np.histogram` with its NaN-propagating
`min`/`max`, its range check and its `keep` comparison.  For every array - NaNs anywhere, any number of them - the
call with removal equals the call without removal on the array of its numbers, in their order. -/
theorem nan_removed (xs : List (Option Rat)) (n : Nat) :
    otsuArr true xs n = otsuArr false ((xs.filterMap id).map some) n := by
  unfold otsuArr
  simp only [if_true, Bool.false_eq_true, if_false]
  rw [maskSelect_notNan]

/-- hence two arrays with the same numbers in the same order give the same threshold wherever their NaNs sit -/
theorem nan_interleave (xs ys : List (Option Rat)) (n : Nat) (h : xs.filterMap id = ys.filterMap id) :
    otsuArr true xs n = otsuArr true ys n := by
  rw [nan_removed, nan_removed, h]

/-- without removal a NaN makes the call raise: `min`/`max` are NaN and `np.histogram` refuses the range -/
theorem nan_kept_raises (xs : List (Option Rat)) (n : Nat) (h : none ∈ xs) : otsuArr false xs n = none := by
  unfold otsuArr histogramN
  simp only [Bool.false_eq_true, if_false]
  rw [outerEdges_nan xs h]
  rfl

/-- and with at least two distinct numbers the result is `otsuData` of the numbers (the NaN-free model the data-level
theorems are about): no call raises, no NaN arises in the criterion -/
theorem nan_removed_is_data (xs : List (Option Rat)) (n : Nat) (hn : 2 ≤ n)
    (h : minL (xs.filterMap id) < maxL (xs.filterMap id)) :
    otsuArr true xs n = some (otsuData (xs.filterMap id) n) := by
  rw [nan_removed, otsuArr_false_map_some _ (ne_nil_of_min_lt_max _ h), otsuHistN_histogram _ n hn h]

/-! ## non-vacuity -/

def exHist : List Nat := [2, 0, 1, 3]
def exEdges : List Rat := [0, 1, 2, 3, 4]

example : 2 ≤ exHist.length ∧ exEdges.length = exHist.length + 1 ∧ exEdges.Pairwise (· < ·) ∧
    1 ≤ exHist.getD 0 0 ∧ 1 ≤ exHist.getD (exHist.length - 1) 0 := by
  decide +kernel
example : critListN exHist (centres exEdges) = [some (121/2), some (121/2), some 49] ∧ otsuHistN exHist exEdges = 1/2 ∧
    otsuHistS exHist exEdges = 1/2 ∧ critListN exHist (scaledCentres exEdges) = [some (121/128), some (121/128), some (49/64)] := by
  decide +kernel
example : critList exHist (centres exEdges) ≠ [] := by decide +kernel
-- an empty first bin: NaN, the first centre
example : critListN [0, 3, 0, 2] (centres exEdges) = [none, some 24, some 24] ∧ otsuHistN [0, 3, 0, 2] exEdges = 1/2 := by
  decide +kernel
-- an empty last bin: the first cut whose upper class is empty
example : critListN [2, 1, 0, 0] (centres exEdges) = [some (2/1), none, none] ∧ otsuHistN [2, 1, 0, 0] exEdges = 3/2 := by
  decide +kernel
-- two distinct values, two-valued data, NaNs interleaved
example : minL [1, 3, 1, 3, 3] < maxL [1, 3, 1, 3, 3] := by decide +kernel
example : otsuData [1, 3, 1, 3, 3] 4 = 5/4 := by decide +kernel
example : histogram [1, 2, 1, 4, 5, 5] 4 = ([2, 1, 0, 3], [1, 2, 3, 4, 5]) ∧ otsuData [1, 2, 1, 4, 5, 5] 4 = 5/2 := by
  decide +kernel
example : otsuArr true [some 1, none, some 3, some 1, none, some 3, some 3] 4 = some (5/4) ∧
    otsuArr false [some 1, none, some 3] 4 = none ∧ otsuArr false [some 1, some 3, some 1, some 3, some 3] 4 = some (5/4) := by
  decide +kernel
example : otsuData ([1, 3, 1, 3, 3].map ((8 : Rat) * ·)) 4 = 8 * (5/4) := by decide +kernel
-- edges from the minimum to the maximum
example : ([1, 2, 3, 4, 5] : List Rat).Pairwise (· < ·) ∧ ([1, 2, 3, 4, 5] : List Rat).getD 0 0 ∈ ([1, 2, 1, 4, 5, 5] : List Rat) ∧
    ([1, 2, 3, 4, 5] : List Rat).getD 4 0 ∈ ([1, 2, 1, 4, 5, 5] : List Rat) ∧
    histogramE [1, 2, 3, 4, 5] [1, 2, 1, 4, 5, 5] = [2, 1, 0, 3] ∧ otsuEdges [1, 2, 3, 4, 5] [1, 2, 1, 4, 5, 5] = 5/2 := by
  decide +kernel

/-! ## the float criterion -/

/-- with exact arithmetic (`fl = id`, `u = η = 0`) the budget is zero and the float program is the mechanism -/
example : critListR id exHist (scaledCentresR id exEdges) = [121/128, 121/128, 49/64] ∧
    (critListB 0 0 exHist (scaledCentresB 0 0 exEdges)).map Prod.snd = [0, 0, 0] := by decide +kernel

/-- a rounding function that meets the hypothesis: rounding down to multiples of 1/1024 (`u = 0`, `η = 1/1024`) -/
def exFl (x : Rat) : Rat := ((x * 1024).floor : Rat) / 1024

example : ∀ x, absQ (exFl x - x) ≤ 0 * absQ x + 1 / 1024 := by
  intro x
  simp only [absQ_eq_abs]
  unfold exFl
  have h1 := Rat.floor_le (x * 1024)
  have h2 := Rat.lt_floor_add_one (x * 1024)
  push_cast at h2
  rw [abs_le]
  constructor
  · rw [← sub_nonneg]
    have : ((x * 1024).floor : Rat) / 1024 - x - -(0 * |x| + 1 / 1024) = (((x * 1024).floor : Rat) + 1 - x * 1024) / 1024 := by ring
    rw [this]
    apply div_nonneg <;> linarith
  · rw [← sub_nonneg]
    have : 0 * |x| + 1 / 1024 - (((x * 1024).floor : Rat) / 1024 - x) = (1 + (x * 1024 - ((x * 1024).floor : Rat))) / 1024 := by ring
    rw [this]
    apply div_nonneg <;> linarith

/-- ... and the float criterion it produces on the example histogram, with its budget: every entry is within it -/
example : critListR exFl exHist (scaledCentresR exFl exEdges) = [121/128, 121/128, 783/1024] ∧
    (critListB 0 (1/1024) exHist (scaledCentresB 0 (1/1024) exEdges)).map Prod.fst = [121/128, 121/128, 49/64] ∧
    (critListB 0 (1/1024) exHist (scaledCentresB 0 (1/1024) exEdges)).all
      (fun p => decide (1/1024 ≤ p.2 ∧ p.2 ≤ 1/16)) = true := by
  decide +kernel

/-! ## `np.histogram` in double precision: Lean's `Float` operations are those of `Float.Model` (IEEE-754 binary64),
which the kernel evaluates - the same definitions the compiled driver runs natively -/

/-- 0.1, 0.7 and three values in between, four bins: the edges `linspace(0.1, 0.7, 5)` as NumPy rounds them, the index
estimates before the correction steps, the counts -/
example : (match npHistogram [0.1, 0.7, 0.25, 0.4, 0.55] 4 with
    | .ok r => (r.hist, r.edges.map Float.toBits, r.ests)
    | .error _ => ([], [], [])) =
    ([1, 1, 1, 2], [(0.1 : Float), 0.25, 0.4, 0.5499999999999999, 0.7].map Float.toBits, [0, 4, 1, 2, 3]) := by
  decide +kernel

/-- NumPy's fourth edge 0.5499999999999999 is not the double nearest to 0.1 + 3·0.15; exact values of doubles -/
example : f64ToRat 0.5499999999999999 < f64ToRat 0.55 ∧ f64ToRat 0.25 = 1/4 ∧ f64ToRat (-1.5) = -3/2 ∧
    f64ToRat 5e-324 = 1 / 2 ^ 1074 := by
  decide +kernel

end Pew.Otsu
