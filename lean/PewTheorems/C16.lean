import PewProofs.Export
import PewProofs.ExportVtk
import PewProofs.ExportForeign
import PewProofs.ExportSession
import PewProofs.ExportBytes

/-! # C16 — property theorems (statements only depend on `PewModel.Export` and the hypothesis
bundles on the opaque tokens: `Clean` for the number printer/converter (`PewProofs.Export`),
`HeadOk` for the byte-order and spacing tokens of the VTK header (`PewProofs.ExportVtk`)) -/
namespace Pew.Export

section text
variable {α : Type}

/-- **text round trip**: every image with `r ≥ 1` rows of `c ≥ 1` columns — single rows, single
columns and 1×1 included — saved (with any header, also a multi-line one or one containing
delimiter and comment characters) and loaded is the same image: same shape `(r, c)`, same values in
the same order.  Assumes only that the number printer is inverted by the converter and prints no
delimiter, comment, newline or space character (`Clean`; for `'%.18g'` and `float` this is the
trusted float64 ↔ decimal round trip), and that the header holds no carriage return (a `\r` is a
line break for the reader but not for the writer: see the `example` below). -/
theorem text_roundtrip (fmt : α → Str) (conv : Str → α) (hc : Clean fmt conv)
    (header : Str) (hh : '\r' ∉ header)
    (img : List (List α)) (c : Nat) (hr : img ≠ []) (hcpos : 0 < c) (hcols : ∀ row ∈ img, row.length = c) :
    loadText conv 2 (saveText fmt header img) = some ([img.length, c], img.flatten) := by
  apply load_of_rows conv fmt hc.roundtrip _ img c hr hcols
  apply fieldRows_saved fmt conv hc header hh img
  intro row hrow e
  have := hcols row hrow
  rw [e] at this
  simp at this
  omega

/-- **the choice of delimiter never matters**, for every text file whatsoever: two files that differ
only in which of `,` `;` tab stands at each delimiter position load to the same result — the same
array, or both raise, and both warn or neither does. -/
theorem delimiter_choice_irrelevant (conv : Str → α) (ndmin : Nat) (f g : Str) (h : normalise f = normalise g) :
    loadText conv ndmin f = loadText conv ndmin g ∧ loadWarns f = loadWarns g := by
  have : loaderLines f = loaderLines g := by
    rw [← loaderLines_normalise f, ← loaderLines_normalise g, h]
  simp [loadText, loadFields, loadWarns, this]

/-- **delimiters agree**: a file whose fields are separated by any mixture of `,`, `;` and tab
loads to the same image as the comma-separated file that `save` writes (namely the image itself) -/
theorem delimiters_agree (fmt : α → Str) (conv : Str → α) (hc : Clean fmt conv)
    (seps : List (List Char)) (img : List (List α)) (c : Nat) (hlen : seps.length = img.length)
    (hs : ∀ ss ∈ seps, ∀ s ∈ ss, IsDelim s)
    (hr : img ≠ []) (hcpos : 0 < c) (hcols : ∀ row ∈ img, row.length = c) :
    loadText conv 2 (saveWith fmt seps img) = loadText conv 2 (saveText fmt [] img)
      ∧ loadText conv 2 (saveWith fmt seps img) = some ([img.length, c], img.flatten) := by
  have h1 : loadText conv 2 (saveWith fmt seps img) = loadText conv 2 (saveText fmt [] img) :=
    (delimiter_choice_irrelevant conv 2 _ _ (by
      rw [normalise_saveWith fmt conv hc seps img hlen hs, ← normalise_saveWith fmt conv hc seps img hlen hs,
        normalise_idem])).1
  exact ⟨h1, by rw [h1]; exact text_roundtrip fmt conv hc [] (by simp) img c hr hcpos hcols⟩

/-- **files written by other tools**: a file of the class `foreignFile` — every line indented by
spaces, its cells padded with spaces and separated by any of `,` `;` tab, an optional comment at the
end, terminated by `\n`, `\r\n`, a lone `\r` or (last line) nothing, blank and comment-only lines
anywhere — loads to the image formed by the values of the lines that have cells.  Beyond `Clean`
the converter must ignore spaces around a number (`float` does; trusted like `Clean.roundtrip`);
`foreignOk` is the decidable well-formedness of the description (see its definition). -/
theorem foreign_file_loads (fmt : α → Str) (conv : Str → α) (hc : Clean fmt conv)
    (hpad : ∀ x a b, conv (spaces a ++ fmt x ++ spaces b) = x)
    (ls : List (FLine α)) (hok : foreignOk fmt ls = true) (c : Nat)
    (hr : foreignImage ls ≠ []) (hcols : ∀ row ∈ foreignImage ls, row.length = c) :
    loadText conv 2 (foreignFile fmt ls) = some ([(foreignImage ls).length, c], (foreignImage ls).flatten) := by
  have htbl := fieldRows_foreign fmt conv hc ls hok
  have himg : ((ls.filter (fun l => !l.cells.isEmpty)).map (rowFields fmt)).map (·.map conv) = foreignImage ls := by
    unfold foreignImage
    rw [List.map_map]
    apply List.map_congr_left
    intro l _
    exact rowFields_values fmt conv hpad l
  have hlen : ((ls.filter (fun l => !l.cells.isEmpty)).map (rowFields fmt)).length = (foreignImage ls).length := by
    simp [foreignImage]
  rw [load_of_fieldRows conv _ _ c ?_ ?_ htbl, himg, hlen]
  · intro e
    apply hr
    rw [← himg, e]
    rfl
  · intro r hrm
    obtain ⟨l, hl, rfl⟩ := List.mem_map.mp hrm
    have h1 : (rowFields fmt l).length = ((rowFields fmt l).map conv).length := by simp
    rw [h1, rowFields_values fmt conv hpad l]
    apply hcols
    unfold foreignImage
    exact List.mem_map.mpr ⟨l, hl, rfl⟩

/-- regression note, not a property theorem: it records what commit 9e652ea repaired.  With
`genfromtxt`'s default `ndmin = 0` a column of three values came back as a row (first conjunct, an
evaluation of the shape rule); the second conjunct only restates that `shapeRule 2` keeps a
two-axis shape, which is what the definition says (near-definitional, kept for the contrast). -/
theorem text_column_wrong : shapeRule 0 [3, 1] = [1, 3] ∧ ∀ r c, shapeRule 2 [r, c] = [r, c] :=
  ⟨by decide, shapeRule_two⟩

/-- non-vacuity: a printer/converter pair satisfying `Clean`, and a single-column image -/
def fmtB (b : Bool) : Str := if b then ['1'] else ['0']
def convB : Str → Bool
  | ['1'] => true
  | _ => false

theorem clean_fmtB : Clean fmtB convB := ⟨by decide, by decide, by decide⟩

example : loadText convB 2 (saveText fmtB "x;#\n1,0".toList [[true], [false], [true]])
    = some ([3, 1], [true, false, true]) :=
  text_roundtrip fmtB convB clean_fmtB _ (by decide) _ 1 (by decide) (by decide) (by decide)

example : saveText fmtB "x;#\n1,0".toList [[true, false]] = "#x;#\n#1,0\n1,0\n".toList := by decide

example : loadText convB 2 (saveWith fmtB [[';', '\t'], [',', ';']] [[true, false, true], [false, false, true]])
    = some ([2, 3], [true, false, true, false, false, true]) :=
  (delimiters_agree fmtB convB clean_fmtB _ _ 3 (by decide) (by simp [IsDelim]) (by decide) (by decide) (by decide)).2

example : loadText convB 2 "1;0\r\n0\t1".toList = loadText convB 2 "1,0\r\n0,1".toList :=
  (delimiter_choice_irrelevant convB 2 _ _ (by decide)).1

/-- non-vacuity of `foreign_file_loads`: a comment line, a padded row ended by `\r\n`, a blank
line ended by a lone `\r`, a row with a comment and no terminator -/
def convB' : Str → Bool := fun s => convB (s.filter (· ≠ ' '))

theorem clean_fmtB' : Clean fmtB convB' := ⟨by decide, by decide, by decide⟩

theorem pad_fmtB' (x : Bool) (a b : Nat) : convB' (spaces a ++ fmtB x ++ spaces b) = x := by
  have h : ∀ n, (spaces n).filter (· ≠ ' ') = [] := by
    intro n
    simp [spaces]
  unfold convB'
  rw [List.filter_append, List.filter_append, h, h]
  cases x <;> decide

def linesB : List (FLine Bool) :=
  [ { indent := 0, cells := [], seps := [], comment := some " h;1".toList, eol := .lf },
    { indent := 2, cells := [(0, true, 1), (1, false, 0)], seps := [';'], comment := none, eol := .crlf },
    { indent := 1, cells := [], seps := [], comment := none, eol := .cr },
    { indent := 0, cells := [(0, false, 0), (0, true, 2)], seps := ['\t'], comment := some "x".toList, eol := .eof } ]

example : foreignFile fmtB linesB = "# h;1\n  1 ; 0\r\n \r0\t1  #x".toList := by decide

example : loadText convB' 2 (foreignFile fmtB linesB) = some ([2, 2], [true, false, false, true]) :=
  foreign_file_loads fmtB convB' clean_fmtB' pad_fmtB' linesB (by decide) 2 (by decide) (by decide)

/-! the loader model on files `save` never writes (what `genfromtxt` does with them) -/

/-- empty and unparsable fields are fields (the converter makes them NaN), a trailing delimiter is a column -/
example : loadFields 2 "1,,x\n2;3;\n".toList = some ([2, 3], ["1", "", "x", "2", "3", ""].map String.toList) := by decide
/-- spaces around a line are stripped, those inside stay in the fields; `\r\n` and `\r` end lines;
comments are cut; blank and comment-only lines are skipped; the last line needs no terminator -/
example : loadFields 2 " 1 ; 2 \r\n\n# c\r3\t4 # d\n  \n5,6".toList
    = some ([3, 2], ["1 ", " 2", "3", "4", "5", "6"].map String.toList) := by decide
/-- no line with a field: an empty array of shape (0, 1), with a warning -/
example : loadFields 2 "# only\n\n".toList = some ([0, 1], []) ∧ loadWarns "# only\n\n".toList = true := by decide
/-- a row with another number of fields than the first: `ValueError` -/
example : loadFields 2 "1,2\n3\n".toList = none := by decide
/-- a carriage return in the header starts a line the writer did not prefix: the image grows a row -/
example : loadText convB 2 (saveText fmtB "a\r1".toList [[true], [false]]) = some ([3, 1], [true, true, false]) := by
  decide


/-! ### `load` with its options, and calls one after another -/

/-- **a named delimiter**: on every text whose only delimiter character (of `,` `;` tab) is `d`,
`load(path, delimiter=d)` returns what the default call returns — the same array, or both raise. -/
theorem explicit_delimiter_agrees (conv : Str → α) (ndmin : Nat) (d : Char) (hd : IsDelim d) (f : Str)
    (h : ∀ c ∈ f, IsDelim c → c = d) :
    loadTextD conv (some d) ndmin f = loadText conv ndmin f := by
  rw [← loadTextD_none]
  unfold loadTextD loadFieldsD
  rw [loaderRows_delim d hd f h]

/-- **the file `save` writes, read with `delimiter=","`**: the image again (the model's `save` writes commas;
the property itself only speaks of the default call, see `Src.image?`). -/
theorem saved_file_with_comma (fmt : α → Str) (conv : Str → α) (hc : Clean fmt conv)
    (header : Str) (hh : '\r' ∉ header)
    (img : List (List α)) (c : Nat) (hr : img ≠ []) (hcpos : 0 < c) (hcols : ∀ row ∈ img, row.length = c) :
    loadTextD conv (some ',') 2 (saveText fmt header img) = some ([img.length, c], img.flatten) := by
  have : loadTextD conv (some ',') 2 (saveText fmt header img) = loadTextD conv none 2 (saveText fmt header img) := by
    unfold loadTextD loadFieldsD
    rw [loaderRows_saved_comma fmt conv hc header hh img]
  rw [this, loadTextD_none]
  exact text_roundtrip fmt conv hc header hh img c hr hcpos hcols

/-- **what a file is read as, by its source and the delimiter named**: an image written by `save` (any header
without a carriage return) and read with the default call, and an image another tool wrote with a mixture of
`,` `;` tab read with the default, or with one delimiter throughout read with that delimiter named, load
to that image: shape `(rows, columns)`, every value at its place.
`Src.ok`: the decidable well-formedness of the source (see its definition); `Src.image?`: the cases just listed. -/
theorem source_loads (fmt : α → Str) (conv : Str → α) (hc : Clean fmt conv) (s : Src α) (delim : Option Char)
    (img : List (List α)) (hok : s.ok = true) (hi : s.image? delim = some img) :
    loadTextD conv delim 2 (s.text fmt) = some ([img.length, (img.headD []).length], img.flatten) := by
  cases s with
  | saved h im =>
    simp only [Src.image?] at hi
    split at hi
    · rename_i hd
      injection hi with hi
      subst hi
      simp only [Src.ok, Bool.and_eq_true, Bool.not_eq_true'] at hok
      obtain ⟨h1, h2⟩ := hok
      have hcr : '\r' ∉ h := by
        intro hm
        have : h.contains '\r' = true := by simpa using hm
        rw [this] at h1
        exact absurd h1 (by decide)
      obtain ⟨hne, hpos, hcols⟩ := imgOk_spec im h2
      subst hd
      simp only [Src.text]
      rw [loadTextD_none]
      exact text_roundtrip fmt conv hc h hcr im _ hne hpos hcols
    · exact absurd hi (by simp)
  | delimited seps im =>
    simp only [Src.ok, Bool.and_eq_true, beq_iff_eq, List.all_eq_true] at hok
    obtain ⟨⟨⟨hlen, hsd⟩, h2⟩, hw⟩ := hok
    obtain ⟨hne, hpos, hcols⟩ := imgOk_spec im h2
    have hs : ∀ ss ∈ seps, ∀ x ∈ ss, IsDelim x := fun ss hss x hx => (isDelimB_iff x).mp (hsd ss hss x hx)
    have base := (delimiters_agree fmt conv hc seps im _ hlen hs hne hpos hcols).2
    simp only [Src.text]
    cases delim with
    | none =>
      simp only [Src.image?] at hi
      injection hi with hi
      subst hi
      rw [loadTextD_none]
      exact base
    | some d =>
      simp only [Src.image?] at hi
      split at hi
      · rename_i hcond
        injection hi with hi
        subst hi
        simp only [Bool.and_eq_true, List.all_eq_true, beq_iff_eq] at hcond
        obtain ⟨hd, hall⟩ := hcond
        rw [explicit_delimiter_agrees conv 2 d ((isDelimB_iff d).mp hd)]
        · exact base
        · intro c hcm hdc
          refine mem_saveWith fmt conv hc d seps im hall ?_ c hcm hdc
          intro p hp
          have h1 := hw p.1 (List.of_mem_zip hp).1
          have h3 := hcols p.2 (List.of_mem_zip hp).2
          omega
      · exact absurd hi (by simp)
  | other t => simp [Src.image?] at hi

/-- **a session has no memory but its files**: the calls run one after another, the file system handed
from each to the next, return exactly what the specification says — every `load` answered from the last
`put` at its path among the earlier calls and from its own `delimiter` / `name`, from nothing else. -/
theorem session_stateless (fmt : α → Str) (conv : Str → α) (cs : List (Call α)) :
    runSession fmt conv [] cs = sessionSpec fmt conv cs :=
  runSession_from fmt conv [] cs

theorem lastPut_none (p : Nat) (mid : List (Call α)) (h : ∀ q s, Call.put q s ∈ mid → q ≠ p) : lastPut p mid = none := by
  induction mid with
  | nil => rfl
  | cons c cs ih =>
    simp only [lastPut]
    rw [ih (fun q s hm => h q s (by simp [hm]))]
    cases c with
    | put q s =>
      have := h q s (by simp)
      simp [this]
    | load q d n => rfl

/-- **every load of a session, whatever was called before**: after any calls `pre`, a file put at `p`
(saved, or written by another tool), any calls `mid` that put nothing at `p` — loads of this or of other
files with any delimiter and name, saves of other files — a `load(p, delimiter, name)` for which the
property names the image (`source_loads`) returns that image, as a view with field `name` when one is given;
whatever follows (`post`). -/
theorem session_loads (fmt : α → Str) (conv : Str → α) (hc : Clean fmt conv) (pre mid post : List (Call α))
    (p : Nat) (s : Src α) (delim : Option Char) (name : Option Str) (img : List (List α))
    (hmid : ∀ q s', Call.put q s' ∈ mid → q ≠ p) (hok : s.ok = true) (hi : s.image? delim = some img) :
    (runSession fmt conv [] ((pre ++ Call.put p s :: mid) ++ Call.load p delim name :: post))[(pre ++ Call.put p s :: mid).length]?
      = some (.loaded { shape := [img.length, (img.headD []).length], data := img.flatten, field := name }) := by
  rw [session_stateless, sessionSpec, specFrom_get]
  have hget : ((pre ++ Call.put p s :: mid) ++ Call.load p delim name :: post)[(pre ++ Call.put p s :: mid).length]?
      = some (Call.load p delim name) := by
    rw [List.getElem?_append_right (Nat.le_refl _)]
    simp
  have htake : ((pre ++ Call.put p s :: mid) ++ Call.load p delim name :: post).take (pre ++ Call.put p s :: mid).length
      = pre ++ Call.put p s :: mid := List.take_left' rfl
  rw [hget, htake]
  simp only [Option.map_some, List.nil_append, replyAt]
  have hlast : lastPut p (pre ++ Call.put p s :: mid) = some s := by
    rw [lastPut_append]
    simp [lastPut, lastPut_none p mid hmid]
  rw [hlast]
  simp only [loadReply, source_loads fmt conv hc s delim img hok hi]

/-- non-vacuity: a tab-delimited file read with its delimiter named, then a saved image read by default —
the history of the seeded change C16-c1 — and a view with a field name -/
example : runSession fmtB convB []
      [ .put 0 (.delimited [['\t']] [[true, false]]), .load 0 (some '\t') none,
        .put 1 (.saved [] [[true, false], [false, true]]), .load 1 none (some ['A']), .load 0 none none ]
    = [ .done, .loaded ⟨[1, 2], [true, false], none⟩, .done, .loaded ⟨[2, 2], [true, false, false, true], some ['A']⟩,
        .loaded ⟨[1, 2], [true, false], none⟩ ] := by decide

example : (runSession fmtB convB []
      (([.load 7 none none] ++ Call.put 1 (.saved "h;1".toList [[true, false], [false, true]]) ::
        [.put 0 (.delimited [['\t']] [[true, false]]), .load 0 (some '\t') none]) ++ Call.load 1 none (some ['A']) :: []))[4]?
    = some (.loaded ⟨[2, 2], [true, false, false, true], some ['A']⟩) :=
  session_loads fmtB convB clean_fmtB [.load 7 none none] [.put 0 (.delimited [['\t']] [[true, false]]), .load 0 (some '\t') none] []
    1 (.saved "h;1".toList [[true, false], [false, true]]) none (some ['A']) [[true, false], [false, true]]
    (by simp) (by decide) (by decide)

/-- a file read with a delimiter it does not use is outside what the property names: one column of unparsable fields -/
example : loadFieldsD (some ';') 2 "1,2\n3,4\n".toList = some ([2, 1], ["1,2", "3,4"].map String.toList) := by decide
example : loadFieldsD (some '\t') 2 " 1\t2 # c\r\n\t\n".toList = some ([2, 2], ["1", "2", "", ""].map String.toList) := by decide

example : loadTextD convB (some ',') 2 (saveText fmtB "x;y".toList [[true, false], [false, true]]) = some ([2, 2], [true, false, false, true]) :=
  saved_file_with_comma fmtB convB clean_fmtB _ (by decide) _ 2 (by decide) (by decide) (by decide)

example : loadTextD convB (some ';') 2 "1;0\n0;1\n".toList = loadText convB 2 "1;0\n0;1\n".toList :=
  explicit_delimiter_agrees convB 2 ';' (Or.inr (Or.inl rfl)) _ (by decide)

end text

section vtk
variable {α : Type}

/-- **VTK decode**: in the block written for an image with `ny` rows, `nx` columns and `nz`
layers (`nz = 1` for a 2-D image), position `x + nx·(y + ny·z)` holds `data[ny − 1 − y][x][z]`:
x runs along the columns, y is counted from the bottom row -/
theorem vtk_decode (v : Vol α) (x y z : Nat) (hx : x < v.n1) (hy : y < v.n0) (hz : z < v.n2) :
    (vtkBlock v)[x + v.n1 * (y + v.n0 * z)]? = some (v.get (v.n0 - 1 - y) x z) := by
  have := ravelF_index (swap01 (flip0 v)) x y z hx hy hz
  simpa [vtkBlock, swap01, flip0] using this

/-- the block holds exactly `nx·ny·nz` values: the declared extents times 8 is the byte count -/
theorem vtk_block_length (v : Vol α) : (vtkBlock v).length = v.n1 * v.n0 * v.n2 := by
  rw [vtkBlock, ravelF_length]
  simp only [swap01, flip0]
  rw [Nat.mul_comm, Nat.mul_comm v.n0 v.n1]

/-- the whole block, as a list, is the specification list -/
theorem vtkBlock_eq_spec (v : Vol α) : vtkBlock v = vtkBlockSpec v := by
  apply List.ext_getElem?
  intro p
  by_cases hp : p < v.n1 * v.n0 * v.n2
  · have hn1 : 0 < v.n1 := by
      rcases Nat.eq_zero_or_pos v.n1 with h | h
      · rw [h] at hp; simp at hp
      · exact h
    have hn0 : 0 < v.n0 := by
      rcases Nat.eq_zero_or_pos v.n0 with h | h
      · rw [h] at hp; simp at hp
      · exact h
    have hx : p % v.n1 < v.n1 := Nat.mod_lt _ hn1
    have hy : (p / v.n1) % v.n0 < v.n0 := Nat.mod_lt _ hn0
    have hz : p / (v.n1 * v.n0) < v.n2 := by
      rw [Nat.div_lt_iff_lt_mul (Nat.mul_pos hn1 hn0)]
      rw [Nat.mul_comm]; exact hp
    have e : p = p % v.n1 + v.n1 * ((p / v.n1) % v.n0 + v.n0 * (p / (v.n1 * v.n0))) := by
      rw [← Nat.div_div_eq_div_mul, Nat.mod_add_div, Nat.mod_add_div]
    have h1 := vtk_decode v _ _ _ hx hy hz
    rw [← e] at h1
    rw [h1]
    simp [vtkBlockSpec, hp]
  · have h1 : (vtkBlock v).length ≤ p := by rw [vtk_block_length]; omega
    have h2 : (vtkBlockSpec v).length ≤ p := by simp [vtkBlockSpec]; omega
    rw [List.getElem?_eq_none h1, List.getElem?_eq_none h2]

/-- **offsets, sizes and the appended section agree**: the offset declared for element `k` is
`Σ_{j<k} (size_j·8 + 8)`, it is a multiple of 8, the 8-byte word at that offset is the byte count
`size_k·8`, and the `size_k` words after it are the element's values in order -/
theorem vtk_offsets_consistent (blocks : List (List α)) (k : Nat) (hk : k < blocks.length) :
    let o := ((blocks.take k).map (fun b => b.length * 8 + 8)).sum
    (offsetsFrom 0 (blocks.map List.length))[k]? = some o ∧ o % 8 = 0 ∧
    (appended blocks)[o / 8]? = some (Word.len (blocks[k].length * 8)) ∧
    ∀ p (hp : p < blocks[k].length), (appended blocks)[o / 8 + 1 + p]? = some (Word.val (blocks[k][p])) := by
  intro o
  have ho : (offsetsFrom 0 (blocks.map List.length))[k]? = some o := by
    rw [offsetsFrom_get 0 _ k (by simpa using hk)]
    simp only [Nat.zero_add, ← List.map_take, List.map_map]
    rfl
  have hdiv : o / 8 = ((blocks.take k).map (fun b => b.length + 1)).sum := sum_blocks_div _
  have hsplit : blocks = blocks.take k ++ (blocks[k] :: blocks.drop (k + 1)) := by
    rw [List.getElem_cons_drop hk, List.take_append_drop]
  have hskip : ∀ i, (appended blocks)[o / 8 + i]? = (appended (blocks[k] :: blocks.drop (k + 1)))[i]? := by
    intro i
    have := appended_skip (blocks.take k) (blocks[k] :: blocks.drop (k + 1)) i
    rw [← hsplit] at this
    rw [hdiv]
    exact this
  have hhead := appended_head blocks[k] (blocks.drop (k + 1))
  refine ⟨ho, sum_blocks_mod _, ?_, ?_⟩
  · have := hskip 0
    rw [Nat.add_zero] at this
    rw [this]
    exact hhead.1
  · intro p hp
    rw [Nat.add_assoc, hskip (1 + p)]
    exact hhead.2 p hp

/-- **the appended section byte by byte**: in the bytes written for the blocks (every word 8 bytes in the
machine's byte order, the order the header declares), a reader finds at byte offset
`o_k = Σ_{j<k} (size_j·8 + 8)` — the offset the header declares for element `k` — the UInt64 `size_k·8`,
the 8 bytes of value `p` of the element at `o_k + 8 + 8·p`, and the section is `Σ_j (size_j·8 + 8)` bytes long.
`enc`: the 8 bytes of a float64 (opaque); block sizes below 2^64 bytes. -/
theorem vtk_bytes_layout (little : Bool) (enc : α → List Nat) (henc : ∀ a, (enc a).length = 8)
    (blocks : List (List α)) (k : Nat) (hk : k < blocks.length) (hsize : blocks[k].length * 8 < 2 ^ 64) :
    let o := ((blocks.take k).map (fun b => b.length * 8 + 8)).sum
    let bytes := bodyBytes little enc (appended blocks)
    readU64 little bytes o = some (blocks[k].length * 8) ∧
    (∀ p (hp : p < blocks[k].length),
      (bytes.drop (o + 8 + 8 * p)).take 8 = wordBytes little enc (Word.val (blocks[k][p]))) ∧
    bytes.length = (blocks.map (fun b => b.length * 8 + 8)).sum := by
  intro o bytes
  obtain ⟨_, hmod, hlen, hvals⟩ := vtk_offsets_consistent blocks k hk
  have hw : ∀ w ∈ appended blocks, (wordBytes little enc w).length = 8 := fun w _ => wordBytes_length little enc henc w
  have ho : o = 8 * (o / 8) := by
    have : o % 8 = 0 := hmod
    omega
  refine ⟨?_, ?_, ?_⟩
  · have h1 : (bytes.drop o).take 8 = wordBytes little enc (Word.len (blocks[k].length * 8)) := by
      rw [ho]
      exact flatMap_drop_take _ 8 _ hw _ _ hlen
    unfold readU64
    simp only [h1, wordBytes_length little enc henc, if_true]
    cases little with
    | true => simp [wordBytes, ofLe64_le64 _ hsize]
    | false => simp [wordBytes, ofLe64_le64 _ hsize]
  · intro p hp
    have e : o + 8 + 8 * p = 8 * (o / 8 + 1 + p) := by omega
    rw [e]
    exact flatMap_drop_take _ 8 _ hw _ _ (hvals p hp)
  · show (bodyBytes little enc (appended blocks)).length = _
    unfold bodyBytes
    rw [flatMap_length_const _ 8 _ hw, appended_length, sum_blocks_eq]

/-- **the appended bytes read back**: the reader that takes the declared offset of element `k`, reads the
UInt64 byte count there and then that many bytes in groups of 8 (in the declared byte order) gets the byte
count `size_k·8` and, value for value, the bytes of the element's values -/
theorem vtk_bytes_read_back (little : Bool) (enc : α → List Nat) (henc : ∀ a, (enc a).length = 8)
    (blocks : List (List α)) (k : Nat) (hk : k < blocks.length) (hsize : blocks[k].length * 8 < 2 ^ 64) :
    readBlockBytes little (bodyBytes little enc (appended blocks)) (((blocks.take k).map (fun b => b.length * 8 + 8)).sum)
      = some (blocks[k].length * 8, blocks[k].map enc) := by
  obtain ⟨hread, _, _⟩ := vtk_bytes_layout little enc henc blocks k hk hsize
  obtain ⟨_, hmod, _, _⟩ := vtk_offsets_consistent blocks k hk
  have hdiv := sum_blocks_div (blocks.take k)
  have hw : ∀ w ∈ appended blocks, (wordBytes little enc w).length = 8 := fun w _ => wordBytes_length little enc henc w
  generalize ho : ((blocks.take k).map (fun b => b.length * 8 + 8)).sum = o at hread hmod hdiv
  have e : o + 8 = 8 * (o / 8 + 1) := by omega
  have hbody : ((bodyBytes little enc (appended blocks)).drop (o + 8)).take (blocks[k].length * 8)
      = blocks[k].flatMap (fun a => wordBytes little enc (Word.val a)) := by
    unfold bodyBytes
    rw [e, flatMap_drop_const _ 8 _ hw, Nat.mul_comm blocks[k].length 8,
      flatMap_take_const _ 8 _ (fun w hwm => hw w (List.mem_of_mem_drop hwm)), hdiv,
      appended_block_words blocks k hk, List.flatMap_map]
  have hv : ∀ a ∈ blocks[k], (wordBytes little enc (Word.val a)).length = 8 := fun a _ => wordBytes_length little enc henc _
  unfold readBlockBytes
  rw [hread]
  simp only [hbody, flatMap_length_const _ 8 _ hv]
  have h8 : blocks[k].length * 8 % 8 = 0 ∧ 8 * blocks[k].length = blocks[k].length * 8 := by omega
  rw [if_pos h8, Nat.mul_div_cancel _ (by decide : 0 < 8), groups8_flatMap _ _ hv, List.map_map]
  congr 2
  apply List.map_congr_left
  intro a _
  cases little <;> simp [wordBytes]

/-- non-vacuity: two blocks, values encoded as their own 8 bytes, on a big-endian and a little-endian machine -/
example : readBlockBytes false (bodyBytes false le64 (appended [[1, 2, 3], [258, 5]])) 32 = some (16, [le64 258, le64 5]) :=
  vtk_bytes_read_back false le64 le64_length [[1, 2, 3], [258, 5]] 1 (by decide) (by decide)

example : bodyBytes true le64 (appended [[258]]) = [8, 0, 0, 0, 0, 0, 0, 0, 2, 1, 0, 0, 0, 0, 0, 0] := by decide
example : bodyBytes false le64 (appended [[258]]) = [0, 0, 0, 0, 0, 0, 0, 8, 0, 0, 0, 0, 0, 0, 1, 2] := by decide

/-- what `vtkRender` returns when it returns something -/
theorem vtkRender_some (endian : Str) (sp : Str × Str × Str) (img : Image α) (file : VtkFile α)
    (hf : vtkRender endian sp img = some file) :
    img.fields ≠ [] ∧ file =
      { head := (vtkHeadLines endian sp img.n1 img.n0 img.n2 (img.fields.map (·.name))
            (offsetsFrom 0 ((img.fields.map fun f => vtkBlock (img.vol f)).map List.length))).flatMap (· ++ ['\n']) ++ ['_'],
        body := appended (img.fields.map fun f => vtkBlock (img.vol f)),
        tail := "</AppendedData>\n</VTKFile>".toList } := by
  unfold vtkRender at hf
  split at hf
  · exact absurd hf (by simp)
  · rename_i f0 tl heq
    refine ⟨by rw [heq]; simp, ?_⟩
    simp only [Option.some.injEq] at hf
    rw [← hf]
    rfl

theorem blocks_lengths (img : Image α) :
    (img.fields.map fun f => vtkBlock (img.vol f)).map List.length = img.fields.map fun _ => img.n1 * img.n0 * img.n2 := by
  rw [List.map_map]
  apply List.map_congr_left
  intro f _
  simp only [Function.comp, vtk_block_length]
  rfl

/-- **the header reads back**: the reader finds, in the header text written for an image of
`ny = n0` rows, `nx = n1` columns and `nz = n2` layers, the file type, version, byte order and
header type, `WholeExtent = Piece Extent = 0 nx 0 ny 0 nz`, the origin `0.0 0.0 0.0`, the three
spacing values, the `Scalars` name, and per element its name (whatever characters it holds: the
escaping is undone), `Float64`, `appended` and the offset `Σ_{j<k} (8·nx·ny·nz + 8)`.
Hypothesis `HeadOk`: the opaque byte-order and spacing tokens hold no quote, ampersand, line break
(nor a space inside one spacing value), and no element name holds a line break. -/
theorem vtk_header_reads_back (endian : Str) (sp : Str × Str × Str) (img : Image α)
    (h : HeadOk endian sp (img.fields.map (·.name))) (file : VtkFile α) (hf : vtkRender endian sp img = some file) :
    vtkParse file.head = some (vtkMetaSpec endian sp img) := by
  obtain ⟨_, rfl⟩ := vtkRender_some endian sp img file hf
  simp only []
  rw [vtkParse_headLines endian sp _ _ _ _ _ h, blocks_lengths]
  rfl

/-- **the file decodes to the image**: for the file `vtk.save` writes (header text, appended
words), the reader's view of the header is the image's geometry (`vtk_header_reads_back`), and for
every element `k` the declared offset is a multiple of 8, the word at that offset is the byte
count `8·nx·ny·nz` — the declared extents times 8 — and the word `x + nx·(y + ny·z)` after it is the
element's value at row `ny − 1 − y`, column `x`, layer `z`: x along the columns, y from the bottom row. -/
theorem vtk_file_decodes (endian : Str) (sp : Str × Str × Str) (img : Image α)
    (h : HeadOk endian sp (img.fields.map (·.name))) (file : VtkFile α) (hf : vtkRender endian sp img = some file) :
    ∃ m, vtkParse file.head = some m ∧ m.whole = [0, img.n1, 0, img.n0, 0, img.n2] ∧ m.piece = m.whole ∧
      m.arrays.map (·.name) = img.fields.map (·.name) ∧
      ∀ k (hk : k < img.fields.length), ∃ a, m.arrays[k]? = some a ∧ a.offset % 8 = 0 ∧
        file.body[a.offset / 8]? = some (Word.len (img.n1 * img.n0 * img.n2 * 8)) ∧
        ∀ x y z, x < img.n1 → y < img.n0 → z < img.n2 →
          file.body[a.offset / 8 + 1 + (x + img.n1 * (y + img.n0 * z))]?
            = some (Word.val ((img.fields[k]).get (img.n0 - 1 - y) x z)) := by
  have hparse := vtk_header_reads_back endian sp img h file hf
  obtain ⟨_, rfl⟩ := vtkRender_some endian sp img file hf
  have hw : (vtkMetaSpec endian sp img).whole = [0, img.n1, 0, img.n0, 0, img.n2] := by unfold vtkMetaSpec; rfl
  have hpc : (vtkMetaSpec endian sp img).piece = (vtkMetaSpec endian sp img).whole := by unfold vtkMetaSpec; rfl
  have harr : (vtkMetaSpec endian sp img).arrays = (List.zip (img.fields.map (·.name))
      (offsetsFrom 0 (img.fields.map fun _ => img.n1 * img.n0 * img.n2))).map
      fun p => ({ name := p.1, type := "Float64".toList, format := "appended".toList, offset := p.2 } : ArrayMeta) := by
    unfold vtkMetaSpec; rfl
  refine ⟨vtkMetaSpec endian sp img, hparse, hw, hpc, ?_, ?_⟩
  · rw [harr, List.map_map]
    rw [show ((fun a : ArrayMeta => a.name) ∘ fun p : Str × Nat =>
        ({ name := p.1, type := "Float64".toList, format := "appended".toList, offset := p.2 } : ArrayMeta)) = Prod.fst from rfl]
    apply List.map_fst_zip
    simp [offsetsFrom_length]
  · intro k hk
    have hkb : k < (img.fields.map fun f => vtkBlock (img.vol f)).length := by simpa using hk
    obtain ⟨ho, hmod, hlenw, hvals⟩ := vtk_offsets_consistent (img.fields.map fun f => vtkBlock (img.vol f)) k hkb
    have hbk : (img.fields.map fun f => vtkBlock (img.vol f))[k] = vtkBlock (img.vol img.fields[k]) := by simp
    have hbl : ((img.fields.map fun f => vtkBlock (img.vol f))[k]).length = img.n1 * img.n0 * img.n2 := by
      rw [hbk, vtk_block_length]; rfl
    rw [blocks_lengths] at ho
    refine ⟨{ name := (img.fields[k]).name, type := "Float64".toList, format := "appended".toList,
              offset := (((img.fields.map fun f => vtkBlock (img.vol f)).take k).map (fun b => b.length * 8 + 8)).sum },
            ?_, hmod, ?_, ?_⟩
    · have hzip : ((img.fields.map (·.name)).zip (offsetsFrom 0 (img.fields.map fun _ => img.n1 * img.n0 * img.n2)))[k]?
          = some ((img.fields[k]).name,
              (((img.fields.map fun f => vtkBlock (img.vol f)).take k).map (fun b => b.length * 8 + 8)).sum) :=
        List.getElem?_zip_eq_some.mpr ⟨by simp [hk], ho⟩
      rw [harr, List.getElem?_map, hzip]
      rfl
    · show (appended (img.fields.map fun f => vtkBlock (img.vol f)))[_]? = _
      rw [hlenw, hbl]
    · intro x y z hx hy hz
      have hp : x + img.n1 * (y + img.n0 * z) < ((img.fields.map fun f => vtkBlock (img.vol f))[k]).length := by
        rw [hbl]
        have h1 : y + img.n0 * z < img.n0 * img.n2 := by
          have : img.n0 * z + img.n0 ≤ img.n0 * img.n2 := by
            rw [← Nat.mul_succ]; exact Nat.mul_le_mul_left _ hz
          omega
        have h2 : img.n1 * (y + img.n0 * z) + img.n1 ≤ img.n1 * (img.n0 * img.n2) := by
          rw [← Nat.mul_succ]; exact Nat.mul_le_mul_left _ h1
        rw [Nat.mul_assoc]; omega
      show (appended (img.fields.map fun f => vtkBlock (img.vol f)))[_]? = _
      rw [hvals _ hp]
      have hd : (vtkBlock (img.vol img.fields[k]))[x + img.n1 * (y + img.n0 * z)]?
          = some ((img.fields[k]).get (img.n0 - 1 - y) x z) := vtk_decode (img.vol img.fields[k]) x y z hx hy hz
      rw [← hbk, List.getElem?_eq_getElem hp] at hd
      simp only [Option.some.injEq] at hd
      rw [hd]

/-- non-vacuity: a 2×3 image with two elements, one of them with a name that needs escaping -/
def imgB : Image Nat :=
  { n0 := 2, n1 := 3, n2 := 1,
    fields := [{ name := "a&\"b\"<".toList, get := fun i j _ => 10 * i + j }, { name := "c".toList, get := fun i j _ => 100 + 10 * i + j }] }

theorem headOk_imgB : HeadOk "LittleEndian".toList ("1".toList, "2.5".toList, "1e-05".toList) (imgB.fields.map (·.name)) :=
  ⟨by decide, by decide, by decide⟩

example : ∃ file, vtkRender "LittleEndian".toList ("1".toList, "2.5".toList, "1e-05".toList) imgB = some file ∧
    vtkParse file.head = some (vtkMetaSpec "LittleEndian".toList ("1".toList, "2.5".toList, "1e-05".toList) imgB) := by
  cases hf : vtkRender "LittleEndian".toList ("1".toList, "2.5".toList, "1e-05".toList) imgB with
  | none => simp [vtkRender, imgB] at hf
  | some file => exact ⟨file, rfl, vtk_header_reads_back _ _ _ headOk_imgB file hf⟩

example : ∃ file m a, vtkRender "LittleEndian".toList ("1".toList, "2.5".toList, "1e-05".toList) imgB = some file ∧
    vtkParse file.head = some m ∧ m.arrays[1]? = some a ∧ a.offset = 56 ∧
    file.body[a.offset / 8]? = some (Word.len 48) ∧ file.body[a.offset / 8 + 1 + (2 + 3 * (0 + 2 * 0))]? = some (Word.val 112) := by
  cases hf : vtkRender "LittleEndian".toList ("1".toList, "2.5".toList, "1e-05".toList) imgB with
  | none => simp [vtkRender, imgB] at hf
  | some file =>
    obtain ⟨m, hm, _, _, _, hk⟩ := vtk_file_decodes _ _ _ headOk_imgB file hf
    obtain ⟨a, ha, _, hlen, hval⟩ := hk 1 (by decide)
    have hoff : a.offset = 56 := by
      rw [vtk_header_reads_back _ _ _ headOk_imgB file hf] at hm
      injection hm with hm
      subst hm
      have : (vtkMetaSpec "LittleEndian".toList ("1".toList, "2.5".toList, "1e-05".toList) imgB).arrays[1]?
          = some { name := "c".toList, type := "Float64".toList, format := "appended".toList, offset := 56 } := by
        unfold vtkMetaSpec; rfl
      rw [this] at ha
      injection ha with ha
      rw [← ha]
    exact ⟨file, m, a, rfl, hm, ha, hoff, hlen, hval 2 0 0 (by decide) (by decide) (by decide)⟩

example : natStr 1207 = "1207".toList := by
  rw [natStr, natStr, natStr, natStr]; decide

example : arrayLine "a&\"b\"<".toList 56
    = "<DataArray Name=\"a&amp;&quot;b&quot;&lt;\" type=\"Float64\" format=\"appended\" offset=\"56\"/>".toList := by
  have : natStr 56 = "56".toList := by rw [natStr, natStr]; decide
  rw [arrayLine, this]; decide

end vtk

/-- the five sequential replacements of the code (ampersand first) escape every character
independently: no replacement re-escapes the output of an earlier one -/
theorem escape_mech_eq_spec (s : Str) : escapeMech s = escapeSpec s := escapeMech_eq_spec s

/-- **escaping is inverted by entity decoding**, for every string (also one that already contains
entity text such as `&amp;`) -/
theorem escape_inverse (s : Str) : unescape (escapeMech s) = s := unescape_escapeMech s

example : escapeMech "a<b&amp;'".toList = "a&lt;b&amp;amp;&apos;".toList := by decide


end Pew.Export
