import PewProofs.Srr
import PewProofs.SrrStack
import PewProofs.SrrObject

/-! # C09 — property theorems (statements only depend on `PewModel.Srr`) -/
namespace Pew.Srr
open Pew

/-- **The reconstruction is the geometric model.**  For every crossed stack (≥ 2 layers, even
layers `l0 × s0`, odd layers `l1 × s1`), every integer magnification `M ≥ 1`, every configuration
(any warm-up, any non-empty offset list, any sub-pixel size) that `validForData` accepts:
`krisskross` succeeds, its shape is `(l0·M·p + max offset, l1·M·p + max offset, layers)`, every
voxel equals the one prescribed by the closed formula `voxel` (the trimmed, stretched, transposed,
enlarged and shifted layer; zero outside its footprint), and every source index the formula uses
exists in its layer. -/
theorem krisskross_voxel {α : Type} (z : α) (c : SrrConfig) (M : Nat) (hM : 1 ≤ M)
    (hscan : 0 < c.scantime) (hoffs : c.offs ≠ [])
    (layers : List (Arr2 α)) (l0 s0 l1 s1 : Nat) (hc : Crossed layers l0 s0 l1 s1)
    (hv : validForData c (M : Rat) layers = some true) :
    ∃ out, krisskross z c (M : Rat) layers = some out ∧
      out.rows = reconRows l0 M (subpixelsPerPixel c.size (M : Rat)) c.offs ∧
      out.cols = reconCols l1 M (subpixelsPerPixel c.size (M : Rat)) c.offs ∧
      out.depth = layers.length ∧
      (∀ r cc i, out.get r cc i
        = voxel z l0 l1 M (subpixelsPerPixel c.size (M : Rat)) c.warmup.toNat c.offs layers r cc i) ∧
      (∀ r cc i, i < layers.length →
        voxelInRange l0 l1 M (subpixelsPerPixel c.size (M : Rat)) c.warmup.toNat c.offs layers r cc i = true) := by
  obtain ⟨d0, d1, h0, h1, r0, c0, r1, c1⟩ := crossed_heads layers l0 s0 l1 s1 hc
  obtain ⟨hw0, hva, hvb⟩ := valid_unpack c M hM layers d0 d1 h0 h1 hscan hv
  obtain ⟨wn, hw⟩ := Int.eq_ofNat_of_zero_le hw0
  have hwn : c.warmup.toNat = wn := by rw [hw]; simp
  rw [r1, c0] at hva
  rw [r0, c1] at hvb
  have hv0 : wn + l1 * M ≤ s0 := by rw [hw] at hva; exact_mod_cast hva
  have hv1 : wn + l0 * M ≤ s1 := by rw [hw] at hvb; exact_mod_cast hvb
  have hal := aligned_crossed z c M hM layers l0 s0 l1 s1 hc wn hw hv0 hv1
  refine ⟨?w, ?e, ?a, ?b, ?d, ?f, ?g⟩
  case e =>
    unfold krisskross
    rw [hal]
    simp only
    rw [subpixelOffset_dup z _ c.offs hoffs]
  case a => rfl
  case b => rfl
  case d => rfl
  case f =>
    intro r cc i
    rw [hwn]
    generalize subpixelsPerPixel c.size (M : Rat) = p
    simp only [voxel, inFootprint, sourceIndex, Bool.and_eq_true, decide_eq_true_eq]
    cases hl : layers[i]? with
    | none => simp
    | some l =>
      simp only [and_assoc]
      split_ifs <;> rfl
  case g =>
    intro r cc i hi
    rw [hwn]
    generalize subpixelsPerPixel c.size (M : Rat) = p
    have hl : layers[i]? = some layers[i] := List.getElem?_eq_getElem hi
    have hsh := hc.2 i _ hl
    simp only [voxelInRange, hl, inFootprint, sourceIndex, Bool.and_eq_true, decide_eq_true_eq]
    split
    · rename_i hf
      obtain ⟨⟨⟨_, f2⟩, _⟩, f4⟩ := hf
      have a1 : (r - layerOffset c.offs i) / p < l0 * M :=
        Nat.div_lt_of_lt_mul (by rw [Nat.mul_comm]; omega)
      have a2 : (cc - layerOffset c.offs i) / p < l1 * M :=
        Nat.div_lt_of_lt_mul (by rw [Nat.mul_comm]; omega)
      by_cases hpar : i % 2 = 0
      · simp only [hpar, if_true] at hsh ⊢
        rw [hsh.1, hsh.2]
        simp only [Bool.and_eq_true, decide_eq_true_eq]
        exact ⟨Nat.div_lt_of_lt_mul (by rw [Nat.mul_comm]; exact a1), by omega⟩
      · simp only [hpar, if_false] at hsh ⊢
        rw [hsh.1, hsh.2]
        simp only [Bool.and_eq_true, decide_eq_true_eq]
        exact ⟨Nat.div_lt_of_lt_mul (by rw [Nat.mul_comm]; exact a2), by omega⟩
    · rfl

/-- non-vacuity: the stack that exposed the repaired defect (magnification exactly 1, two 3 × 5
layers, default offsets) is accepted, so `krisskross_voxel` applies to it -/
example :
    let c := SrrConfig.make 35 140 (1 / 4) 0 [(0, 2), (1, 2)]
    let l : Arr2 Int := { rows := 3, cols := 5, get := fun r k => r * 5 + k + 1 }
    c.magnification = ((1 : Nat) : Rat) ∧ Crossed [l, l] 3 5 3 5 ∧ c.offs ≠ [] ∧ 0 < c.scantime ∧
      validForData c ((1 : Nat) : Rat) [l, l] = some true := by
  refine ⟨by decide +kernel, ⟨by decide, ?_⟩, by decide +kernel, by decide +kernel, by decide +kernel⟩
  intro i l hl
  match i with
  | 0 => simp at hl; subst hl; simp
  | 1 => simp at hl; subst hl; simp
  | (k + 2) => simp at hl

/-- The same for a configuration as the code holds it: when the float64 value of `spotsize / (speed * scantime)`
(`SrrConfig.magnification`, two rounded operations) is the integer `M ≥ 1` - "integer magnification" - the functions that
read `self.config.magnification` (`valid_for_data`, `krisskross`, `subpixels_per_pixel`) behave as `krisskross_voxel` says. -/
theorem krisskross_voxel_of_config {α : Type} (z : α) (c : SrrConfig) (M : Nat) (hM : 1 ≤ M)
    (hm : c.magnification = (M : Rat)) (hscan : 0 < c.scantime) (hoffs : c.offs ≠ [])
    (layers : List (Arr2 α)) (l0 s0 l1 s1 : Nat) (hc : Crossed layers l0 s0 l1 s1)
    (hv : validForData c c.magnification layers = some true) :
    ∃ out, krisskross z c c.magnification layers = some out ∧
      out.rows = reconRows l0 M (subpixelsPerPixel c.size c.magnification) c.offs ∧
      out.cols = reconCols l1 M (subpixelsPerPixel c.size c.magnification) c.offs ∧
      out.depth = layers.length ∧
      (∀ r cc i, out.get r cc i
        = voxel z l0 l1 M (subpixelsPerPixel c.size c.magnification) c.warmup.toNat c.offs layers r cc i) := by
  rw [hm] at hv ⊢
  obtain ⟨out, h1, h2, h3, h4, h5, _⟩ := krisskross_voxel z c M hM hscan hoffs layers l0 s0 l1 s1 hc hv
  exact ⟨out, h1, h2, h3, h4, h5⟩

/-- non-vacuity: speed 1.7, scan time 0.1 and spot size 2·(1.7·0.1) as float64 values: the exact quotient of the three
floats is not 2, the float64 magnification is exactly 2 -/
example :
    let c := SrrConfig.make (6124895493223875 / 18014398509481984) (7656119366529843 / 4503599627370496)
      (3602879701896397 / 36028797018963968) 0 [(0, 1)]
    c.magnification = ((2 : Nat) : Rat) ∧ c.magnificationExact ≠ 2 := by decide +kernel

/-- **Acceptance implies that every intermediate shape matches**, so no NumPy assignment can fail:
each prepared layer has exactly the shape `(l0·M, l1·M)` of its slot in `aligned`, each target
region of `subpixel_offset` has exactly the shape of the enlarged block, and both steps succeed. -/
theorem valid_implies_shapes_agree {α : Type} (z : α) (c : SrrConfig) (M : Nat) (hM : 1 ≤ M)
    (hscan : 0 < c.scantime) (hoffs : c.offs ≠ [])
    (layers : List (Arr2 α)) (l0 s0 l1 s1 : Nat) (hc : Crossed layers l0 s0 l1 s1)
    (hv : validForData c (M : Rat) layers = some true) :
    (∀ (i : Nat) (l : Arr2 α), layers[i]? = some l →
      (prepLayer c.warmup (magInt (M : Rat)) (magAxis (M : Rat)) (l1 * M) (l0 * M) i l).rows = l0 * M ∧
      (prepLayer c.warmup (magInt (M : Rat)) (magAxis (M : Rat)) (l1 * M) (l0 * M) i l).cols = l1 * M) ∧
    (∃ a, aligned z c (M : Rat) layers = some a ∧ a.rows = l0 * M ∧ a.cols = l1 * M ∧ a.depth = layers.length ∧
      ∀ i p, let ov := maxList c.offs
        let rg := region (effOffsets (c.offs.map (fun o => (o, o)))) ov ov (a.rows * p + ov) (a.cols * p + ov) i
        rg.1.2 - rg.1.1 = a.rows * p ∧ rg.2.2 - rg.2.1 = a.cols * p) ∧
    (krisskross z c (M : Rat) layers).isSome = true := by
  obtain ⟨d0, d1, h0, h1, r0, c0, r1, c1⟩ := crossed_heads layers l0 s0 l1 s1 hc
  obtain ⟨hw0, hva, hvb⟩ := valid_unpack c M hM layers d0 d1 h0 h1 hscan hv
  obtain ⟨wn, hw⟩ := Int.eq_ofNat_of_zero_le hw0
  rw [r1, c0] at hva
  rw [r0, c1] at hvb
  have hv0 : wn + l1 * M ≤ s0 := by rw [hw] at hva; exact_mod_cast hva
  have hv1 : wn + l0 * M ≤ s1 := by rw [hw] at hvb; exact_mod_cast hvb
  refine ⟨?_, ?_, ?_⟩
  · intro i l hl
    have hsh := hc.2 i l hl
    rw [magInt_natCast M hM, magAxis_natCast M hM, hw]
    by_cases hi : i % 2 = 0
    · simp only [hi, if_true] at hsh
      rw [prepLayer_even l wn M _ _ i hi (by rw [hsh.2]; exact hv0), hsh.1]
      exact ⟨rfl, rfl⟩
    · have hi' : i % 2 = 1 := by omega
      simp only [hi, if_false] at hsh
      rw [prepLayer_odd l wn M _ _ i hi' (by rw [hsh.2]; exact hv1), hsh.1]
      exact ⟨rfl, rfl⟩
  · refine ⟨_, aligned_crossed z c M hM layers l0 s0 l1 s1 hc wn hw hv0 hv1, rfl, rfl, rfl, ?_⟩
    intro i p
    simp only [effOffsets_dup, region_dup c.offs hoffs]
    constructor <;> omega
  · obtain ⟨out, ho, _⟩ := krisskross_voxel z c M hM hscan hoffs layers l0 s0 l1 s1 hc hv
    rw [ho]; rfl

/-- `subpixel_offset` in general (independent x / y offsets and enlargements, any non-empty offset
list): it never fails, the canvas is the enlarged image plus the largest offset per axis, layer `i`
is the enlarged layer placed at the `i mod len`-th effective offset (a zero pair is prepended when
the first offset is not zero) and the canvas is zero elsewhere. -/
theorem subpixel_offset_spec {α : Type} (z : α) (x : Arr3 α) (offs : List (Nat × Nat)) (hne : offs ≠ [])
    (ps : Nat × Nat) :
    ∃ out, subpixelOffset z x offs ps = some out ∧
      out.rows = x.rows * ps.1 + maxList ((effOffsets offs).map (·.1)) ∧
      out.cols = x.cols * ps.2 + maxList ((effOffsets offs).map (·.2)) ∧
      out.depth = x.depth ∧
      ∀ r cc i, out.get r cc i =
        (if ((effOffsets offs).getD (i % (effOffsets offs).length) (0, 0)).1 ≤ r ∧
            r < ((effOffsets offs).getD (i % (effOffsets offs).length) (0, 0)).1 + x.rows * ps.1 ∧
            ((effOffsets offs).getD (i % (effOffsets offs).length) (0, 0)).2 ≤ cc ∧
            cc < ((effOffsets offs).getD (i % (effOffsets offs).length) (0, 0)).2 + x.cols * ps.2 then
          x.get ((r - ((effOffsets offs).getD (i % (effOffsets offs).length) (0, 0)).1) / ps.1)
                ((cc - ((effOffsets offs).getD (i % (effOffsets offs).length) (0, 0)).2) / ps.2) i
        else z) := by
  have hne' := effOffsets_ne_nil offs hne
  have hemp : (effOffsets offs).isEmpty = false := by
    cases h : effOffsets offs with
    | nil => exact absurd h hne'
    | cons a as => rfl
  refine ⟨?w, ?e, ?a, ?b, ?d, ?f⟩
  case e =>
    unfold subpixelOffset
    simp only [hemp, Bool.false_eq_true, if_false, region_general (effOffsets offs) hne']
    split
    · rfl
    · rename_i hneg
      exfalso; apply hneg
      rw [List.all_eq_true]
      intro i _
      simp
  case a => rfl
  case b => rfl
  case d => rfl
  case f => intro r cc i; rfl

example : effOffsets [(1, 2), (0, 3)] = [(0, 0), (1, 2), (0, 3)] ∧ effOffsets [(0, 0), (1, 1)] = [(0, 0), (1, 1)] := by
  decide

/-- **The flattened image is the per-pixel mean over the layers** of the voxels of the geometric
model (same hypotheses as `krisskross_voxel`).
What this rests on: `np.mean(data, axis=2)` is modelled as `meanDepth`, the EXACT sum of the layer values divided by
the number of layers.  NumPy adds float64 values in some order and divides once, so the real result can differ from
the exact mean by rounding; the statement is about the exact mean and the harness compares at 1e-12 relative (the
generated payloads are integers below 2⁵³, for which the float sum is exact and only the division rounds).  The content
of the theorem is that `get(flat=True)` averages exactly the voxels of `krisskross_voxel` over all layers, zeros of
layers outside their footprint included, and divides by the number of layers (not by the number of covering layers). -/
theorem flat_is_mean (c : SrrConfig) (M : Nat) (hM : 1 ≤ M) (hscan : 0 < c.scantime) (hoffs : c.offs ≠ [])
    (layers : List (Arr2 Rat)) (l0 s0 l1 s1 : Nat) (hc : Crossed layers l0 s0 l1 s1)
    (hv : validForData c (M : Rat) layers = some true) :
    ∃ f, getFlat c (M : Rat) layers = some f ∧
      f.rows = reconRows l0 M (subpixelsPerPixel c.size (M : Rat)) c.offs ∧
      f.cols = reconCols l1 M (subpixelsPerPixel c.size (M : Rat)) c.offs ∧
      ∀ r cc, f.get r cc
        = flatSpec l0 l1 M (subpixelsPerPixel c.size (M : Rat)) c.warmup.toNat c.offs layers r cc := by
  obtain ⟨out, ho, hr, hcc, hd, hget, _⟩ := krisskross_voxel (0 : Rat) c M hM hscan hoffs layers l0 s0 l1 s1 hc hv
  refine ⟨meanDepth out, by simp [getFlat, ho], hr, hcc, ?_⟩
  intro r cc
  simp only [meanDepth, flatSpec, hd]
  congr 2
  exact List.map_congr_left (fun i _ => hget r cc i)

/-- **Reading a single layer returns that layer unmodified, transposed for odd layers** - on `getLayer`, whose
definition (a copy, `.T` when odd) this statement all but restates; `layer_read_pointwise` below is the statement on
`srrGet`, the model of `SRRLaser.get` with its `layer` / reconstruction branches and the final `flat` step, against the
pointwise formula `layerSpec`. -/
theorem layer_read {α : Type} (layers : List (Arr2 α)) (i : Nat) (l : Arr2 α) (h : layers[i]? = some l) :
    ∃ a, getLayer layers i = some a ∧
      (i % 2 = 0 → a = l) ∧
      (i % 2 = 1 → a.rows = l.cols ∧ a.cols = l.rows ∧ ∀ r cc, a.get r cc = l.get cc r) := by
  unfold getLayer
  rw [h]
  by_cases hi : i % 2 = 1
  · refine ⟨_, rfl, fun h0 => by omega, fun _ => ?_⟩
    simp [hi, Arr2.T]
  · refine ⟨_, rfl, fun _ => by simp [hi], fun h1 => absurd h1 hi⟩

/-- the `subpixel_offsets` setter stores every offset exactly on the common sub-pixel grid:
each denominator divides the sub-pixel size and `stored / size = offset / denominator` -/
theorem offsets_setter_exact (spotsize speed scantime warmup : Rat) (pairs : List (Nat × Nat))
    (hd : ∀ p ∈ pairs, 1 ≤ p.2) :
    let c := SrrConfig.make spotsize speed scantime warmup pairs
    1 ≤ c.size ∧ c.offs.length = pairs.length ∧
    ∀ (k : Nat) (hk : k < pairs.length), pairs[k].2 ∣ c.size ∧
      c.offs.getD k 0 * pairs[k].2 = pairs[k].1 * c.size := by
  intro c
  have hsize : c.size = lcmList (pairs.map (·.2)) := rfl
  refine ⟨?_, by simp [c, SrrConfig.make], ?_⟩
  · rw [hsize]
    exact foldl_lcm_pos _ 1 (by decide) (by
      intro x hx
      obtain ⟨p, hp, rfl⟩ := List.mem_map.mp hx
      exact hd p hp)
  · intro k hk
    have hdvd : pairs[k].2 ∣ c.size := by
      rw [hsize]
      exact foldl_lcm_dvd_mem _ 1 _ (List.mem_map.mpr ⟨pairs[k], List.getElem_mem hk, rfl⟩)
    refine ⟨hdvd, ?_⟩
    have : c.offs.getD k 0 = pairs[k].1 * c.size / pairs[k].2 := by
      simp [c, SrrConfig.make, List.getD_eq_getElem?_getD, hk]
    rw [this]
    exact Nat.div_mul_cancel (Nat.dvd_trans hdvd (Nat.dvd_mul_left _ _))

/-- **An SRR configuration survives conversion to and from its array form unchanged**: every
configuration the constructor produces from a non-zero scan time and a non-empty list of offsets
with positive denominators (any spot size, speed, warm-up of at most 2⁵⁰ samples).  The float roundings of the
getter's product `_warmup * scantime` and of the setter's quotient are part of the statement (`fl`). -/
theorem srrconfig_roundtrip (spotsize speed scantime warmup : Rat) (pairs : List (Nat × Nat))
    (hs : scantime ≠ 0) (hp : pairs ≠ []) (hd : ∀ p ∈ pairs, 1 ≤ p.2)
    (hw : (SrrConfig.make spotsize speed scantime warmup pairs).warmup.natAbs ≤ 2 ^ 50) :
    SrrConfig.fromArray (SrrConfig.make spotsize speed scantime warmup pairs).toArray
      = SrrConfig.make spotsize speed scantime warmup pairs := by
  apply roundtrip_state
  · exact hs
  · simpa [SrrConfig.make] using hp
  · exact (offsets_setter_exact spotsize speed scantime warmup pairs hd).1
  · exact hw

example : SrrConfig.fromArray (SrrConfig.make 35 140 (1 / 4) (25 / 2) [(0, 2), (1, 3)]).toArray
    = SrrConfig.make 35 140 (1 / 4) (25 / 2) [(0, 2), (1, 3)] :=
  srrconfig_roundtrip _ _ _ _ _ (by norm_num) (by simp) (by decide) (by decide +kernel)

/-- **Acceptance is exactly the specification `validSpec`**: for every crossed stack, integer magnification `M ≥ 1`
and positive scan time, `valid_for_data` answers `validSpec`: warm-up not negative (the check reads the float product
`_warmup * scantime`, whose sign is the sign of `_warmup`) and every line long enough.  Both directions: nothing that
meets the specification is rejected. -/
theorem valid_iff_spec {α : Type} (c : SrrConfig) (M : Nat) (hM : 1 ≤ M) (hscan : 0 < c.scantime)
    (layers : List (Arr2 α)) (l0 s0 l1 s1 : Nat) (hc : Crossed layers l0 s0 l1 s1) :
    validForData c (M : Rat) layers = some (validSpec c.warmup M l0 s0 l1 s1) := by
  obtain ⟨d0, d1, h0, h1, r0, c0, r1, c1⟩ := crossed_heads layers l0 s0 l1 s1 hc
  unfold validForData validSpec
  rw [h0, h1]
  simp only [magInt_natCast M hM, magAxis_natCast M hM, Arr2.dim, if_true, r0, c0, r1, c1]
  have hsign : c.warmupSeconds < 0 ↔ c.warmup < 0 := by
    unfold SrrConfig.warmupSeconds
    rw [fl_neg_iff]
    constructor
    · intro h
      by_contra hn
      have : (0 : Rat) ≤ (c.warmup : Rat) := by exact_mod_cast (not_lt.mp hn)
      have := mul_nonneg this hscan.le
      linarith
    · intro h
      have : (c.warmup : Rat) < 0 := by exact_mod_cast h
      exact mul_neg_of_neg_of_pos this hscan
  by_cases hw : c.warmup < 0
  · rw [if_pos (hsign.mpr hw)]
    simp [not_le.mpr hw]
  · rw [if_neg (fun h => hw (hsign.mp h))]
    have hw' : 0 ≤ c.warmup := not_lt.mp hw
    split_ifs with a b
    · simp only [Option.some.injEq]; symm; simp only [Bool.and_eq_false_iff, decide_eq_false_iff_not]
      left; right; push_cast at a ⊢; omega
    · simp only [Option.some.injEq]; symm; simp only [Bool.and_eq_false_iff, decide_eq_false_iff_not]
      right; push_cast at b ⊢; omega
    · simp only [Option.some.injEq]; symm
      simp only [Bool.and_eq_true, decide_eq_true_eq]
      push_cast at a b ⊢
      refine ⟨⟨hw', by omega⟩, by omega⟩

theorem div_pred_mul (a p : Nat) (ha : 1 ≤ a) (hp : 1 ≤ p) : (a * p - 1) / p = a - 1 := by
  apply Nat.div_eq_of_lt_le
  · have : (a - 1) * p + p = a * p := by
      have : a - 1 + 1 = a := by omega
      calc (a - 1) * p + p = (a - 1 + 1) * p := by rw [Nat.add_mul, Nat.one_mul]
        _ = a * p := by rw [this]
    have hp' : 1 ≤ a * p := Nat.mul_le_mul ha hp
    omega
  · have : a - 1 + 1 = a := by omega
    rw [this]
    have hp' : 1 ≤ a * p := Nat.mul_le_mul ha hp
    omega

/-- **The specification of acceptance is exactly "the geometric model can be evaluated"**: for a crossed stack with at
least one line per layer kind, `M ≥ 1`, `p ≥ 1` sub-pixels per pixel and any offset list, `validSpec` holds
iff the warm-up is not negative and every source index the formula `voxel` uses exists in its layer.  So a stack is
accepted (`valid_iff_spec`) exactly when each output voxel has a sample to take. -/
theorem valid_iff_evaluable {α : Type} (w : Int) (M p : Nat) (hM : 1 ≤ M) (hp : 1 ≤ p) (offs : List Nat)
    (layers : List (Arr2 α)) (l0 s0 l1 s1 : Nat) (hl0 : 1 ≤ l0) (hl1 : 1 ≤ l1) (hc : Crossed layers l0 s0 l1 s1) :
    validSpec w M l0 s0 l1 s1 = true ↔
      (0 ≤ w ∧ ∀ r cc i, i < layers.length → voxelInRange l0 l1 M p w.toNat offs layers r cc i = true) := by
  constructor
  · intro hv
    simp only [validSpec, Bool.and_eq_true, decide_eq_true_eq] at hv
    obtain ⟨⟨hw0, hva⟩, hvb⟩ := hv
    refine ⟨hw0, ?_⟩
    obtain ⟨wn, hw⟩ := Int.eq_ofNat_of_zero_le hw0
    have hwn : w.toNat = wn := by rw [hw]; simp
    have hv0 : wn + l1 * M ≤ s0 := by rw [hw] at hva; exact_mod_cast hva
    have hv1 : wn + l0 * M ≤ s1 := by rw [hw] at hvb; exact_mod_cast hvb
    intro r cc i hi
    rw [hwn]
    have hl : layers[i]? = some layers[i] := List.getElem?_eq_getElem hi
    have hsh := hc.2 i _ hl
    simp only [voxelInRange, hl, inFootprint, sourceIndex, Bool.and_eq_true, decide_eq_true_eq]
    split
    · rename_i hf
      obtain ⟨⟨⟨_, f2⟩, _⟩, f4⟩ := hf
      have a1 : (r - layerOffset offs i) / p < l0 * M :=
        Nat.div_lt_of_lt_mul (by rw [Nat.mul_comm]; omega)
      have a2 : (cc - layerOffset offs i) / p < l1 * M :=
        Nat.div_lt_of_lt_mul (by rw [Nat.mul_comm]; omega)
      by_cases hpar : i % 2 = 0
      · simp only [hpar, if_true] at hsh ⊢
        rw [hsh.1, hsh.2]
        simp only [Bool.and_eq_true, decide_eq_true_eq]
        exact ⟨Nat.div_lt_of_lt_mul (by rw [Nat.mul_comm]; exact a1), by omega⟩
      · simp only [hpar, if_false] at hsh ⊢
        rw [hsh.1, hsh.2]
        simp only [Bool.and_eq_true, decide_eq_true_eq]
        exact ⟨Nat.div_lt_of_lt_mul (by rw [Nat.mul_comm]; exact a2), by omega⟩
    · rfl
  · rintro ⟨hw0, hall⟩
    obtain ⟨wn, hw⟩ := Int.eq_ofNat_of_zero_le hw0
    have hwn : w.toNat = wn := by rw [hw]; simp
    obtain ⟨d0, d1, h0, h1, r0, c0, r1, c1⟩ := crossed_heads layers l0 s0 l1 s1 hc
    have hlen := hc.1
    have ha : 1 ≤ l0 * M := Nat.mul_le_mul hl0 hM
    have hb : 1 ≤ l1 * M := Nat.mul_le_mul hl1 hM
    have hap : 1 ≤ l0 * M * p := Nat.mul_le_mul ha hp
    have hbp : 1 ≤ l1 * M * p := Nat.mul_le_mul hb hp
    -- the last voxel of the footprint of layer 0 and of layer 1
    have key : ∀ i, i < 2 → ∀ l, layers[i]? = some l →
        ((if i % 2 = 0 then ((l0 * M - 1) / M, wn + (l1 * M - 1)) else ((l1 * M - 1) / M, wn + (l0 * M - 1))) : Nat × Nat).2 < l.cols := by
      intro i hi l hl
      have h := hall (layerOffset offs i + (l0 * M * p - 1)) (layerOffset offs i + (l1 * M * p - 1)) i (by omega)
      rw [hwn] at h
      simp only [voxelInRange, hl, inFootprint, sourceIndex, Nat.add_sub_cancel_left,
        div_pred_mul (l0 * M) p ha hp, div_pred_mul (l1 * M) p hb hp] at h
      rw [if_pos (by simp only [Bool.and_eq_true, decide_eq_true_eq]; refine ⟨⟨⟨by omega, by omega⟩, by omega⟩, by omega⟩)] at h
      simp only [Bool.and_eq_true, decide_eq_true_eq] at h
      exact h.2
    have k0 := key 0 (by omega) d0 h0
    have k1 := key 1 (by omega) d1 h1
    simp at k0 k1
    simp only [validSpec, Bool.and_eq_true, decide_eq_true_eq]
    rw [hw]
    refine ⟨⟨by omega, ?_⟩, ?_⟩
    · have : wn + l1 * M ≤ s0 := by omega
      exact_mod_cast this
    · have : wn + l0 * M ≤ s1 := by omega
      exact_mod_cast this

example : validSpec 2 3 2 8 1 8 = true ∧ validSpec 2 3 2 4 1 8 = false ∧ validSpec (-1) 1 2 9 2 9 = false := by decide

/-- **Reading a single layer, stated on `SRRLaser.get` itself** (`srrGet`: layer selection, the reconstruction
branch, the final `flat` step): for every stack, every existing layer `i`, with or without `flat`, whatever the
configuration and the mean function, the result is a 2-d image and it is `layerSpec`: as many rows and columns as the
stored layer (exchanged for odd `i`) and pixel `(r, cc)` is the stored pixel `(r, cc)` (`(cc, r)` for odd `i`).
No warm-up is trimmed, nothing is stretched or shifted, `flat` does not average a single layer. -/
theorem layer_read_pointwise {α : Type} (z : α) (mean : Arr3 α → Arr2 α) (c : SrrConfig) (m : Rat)
    (layers : List (Arr2 α)) (i : Nat) (l : Arr2 α) (h : layers[i]? = some l) (flat : Bool) :
    ∃ a, srrGet z mean c m layers (some i) flat = some (.img a) ∧
      a.rows = (if i % 2 = 0 then l.rows else l.cols) ∧ a.cols = (if i % 2 = 0 then l.cols else l.rows) ∧
      (∀ r cc, a.get r cc = if i % 2 = 0 then l.get r cc else l.get cc r) ∧
      a = layerSpec l i ∧ getLayer layers i = some a := by
  by_cases hi : i % 2 = 1
  · have hi0 : ¬ i % 2 = 0 := by omega
    refine ⟨l.T, by simp [srrGet, h, hi], by simp [hi0, Arr2.T], by simp [hi0, Arr2.T], ?_, ?_, ?_⟩
    · intro r cc; simp [hi0, Arr2.T]
    · simp [layerSpec, hi0, Arr2.T]
    · simp [getLayer, h, hi]
  · have hi0 : i % 2 = 0 := by omega
    refine ⟨l, by simp [srrGet, h, hi], by simp [hi0], by simp [hi0], ?_, ?_, ?_⟩
    · intro r cc; simp [hi0]
    · simp [layerSpec, hi0]
    · simp [getLayer, h, hi]

example : ∃ a, srrGet (0 : Int) (fun x => { rows := x.rows, cols := x.cols, get := fun _ _ => 0 })
      (SrrConfig.make 35 140 (1 / 4) 0 [(0, 1)]) 1
      [{ rows := 1, cols := 2, get := fun _ k => k }, { rows := 2, cols := 3, get := fun r k => 10 * r + k }] (some 1) true
    = some (.img a) ∧ a.rows = 3 ∧ a.cols = 2 ∧ a.get 2 1 = 12 := by
  obtain ⟨a, h, hr, hcc, hg, _⟩ := layer_read_pointwise (0 : Int) (fun x => { rows := x.rows, cols := x.cols, get := fun _ _ => 0 })
    (SrrConfig.make 35 140 (1 / 4) 0 [(0, 1)]) 1
    [{ rows := 1, cols := 2, get := fun _ k => k }, { rows := 2, cols := 3, get := fun r k => 10 * r + k }] 1 _ rfl true
  exact ⟨a, h, by simpa using hr, by simpa using hcc, by rw [hg]; simp⟩

/-- `get()` and `get(flat=True)` through `srrGet`: the reconstruction, respectively its mean over the layers
(`getFlat`), so `krisskross_voxel` / `flat_is_mean` speak about what `get` returns -/
theorem srrGet_reconstruction {α : Type} (z : α) (mean : Arr3 α → Arr2 α) (c : SrrConfig) (m : Rat)
    (layers : List (Arr2 α)) :
    srrGet z mean c m layers none false = (krisskross z c m layers).map .stack ∧
    srrGet z mean c m layers none true = (krisskross z c m layers).map (fun a => .img (mean a)) := by
  constructor <;> (simp only [srrGet]; cases krisskross z c m layers <;> simp)

/-- the constructor is the two setters applied to the raster parameters, and `set_equal_subpixel_offsets(n)` stores what
the `subpixel_offsets` setter stores for the offsets `0/n, 1/n, …, (n-1)/n` (`n ≥ 1`) -/
theorem setters_compose (spotsize speed scantime warmup : Rat) (pairs : List (Nat × Nat)) (c : SrrConfig) (n : Nat) (hn : 1 ≤ n) :
    SrrConfig.make spotsize speed scantime warmup pairs
      = (({ spotsize := spotsize, speed := speed, scantime := scantime, warmup := 0, size := 0, offs := [] } : SrrConfig).setWarmup
          warmup).setOffsets pairs ∧
    c.setEqualOffsets n = c.setOffsets ((List.range n).map (fun k => (k, n))) := by
  refine ⟨rfl, ?_⟩
  have hl : lcmList (((List.range n).map (fun k => (k, n))).map (·.2)) = n := by
    apply lcmList_const
    · cases n with
      | zero => omega
      | succ k => simp [List.range_succ]
    · intro x hx; simp at hx; exact hx.2.symm
  simp only [SrrConfig.setEqualOffsets, SrrConfig.setOffsets, hl]
  congr 1
  rw [List.map_map]
  symm
  refine (List.map_congr_left (fun a _ => ?_)).trans (List.map_id _)
  simp only [Function.comp]
  exact Nat.mul_div_cancel a (by omega)

example : (SrrConfig.make 35 140 (1 / 4) 0 [(0, 1)]).setEqualOffsets 3
    = SrrConfig.make 35 140 (1 / 4) 0 [(0, 3), (1, 3), (2, 3)] := by decide +kernel

/-- **The warm-up in samples is the exact quotient rounded half-even** (`warmupSpec`) whenever float rounding cannot
matter: the quotient is a float64 itself (e.g. an exact tie `k + 1/2`), or it is farther from the nearest rounding tie
than the float rounding error `|x| / 2⁵³`. -/
theorem warmup_setter_determined (c : SrrConfig) (seconds : Rat) (n : Int)
    (h : fl (seconds / c.scantime) = seconds / c.scantime ∨
      ((n : Rat) - 1 / 2 < seconds / c.scantime - |seconds / c.scantime| / 2 ^ 53 ∧
        seconds / c.scantime + |seconds / c.scantime| / 2 ^ 53 < (n : Rat) + 1 / 2)) :
    (c.setWarmup seconds).warmup = warmupSpec seconds c.scantime := by
  unfold SrrConfig.setWarmup warmupSpec
  simp only
  rcases h with h | ⟨h1, h2⟩
  · rw [h]
  · have he := fl_relerr (seconds / c.scantime)
    rw [abs_le] at he
    have hpos : 0 ≤ |seconds / c.scantime| / 2 ^ 53 := by positivity
    rw [roundHalfEven_near _ n (by linarith [he.1]) (by linarith [he.2]),
      roundHalfEven_near _ n (by linarith) (by linarith)]

example : ((SrrConfig.make 35 140 (1 / 4) 0 [(0, 1)]).setWarmup (3 / 8)).warmup = 2 ∧ warmupSpec (3 / 8) (1 / 4) = 2 := by
  decide +kernel

/-- **The array form as NumPy holds it** (`toRec`: the 0-d record `spotsize, speed, scantime, warmup,
subpixel_offsets` with the `(k, 2)` integer table) read back by name through the keyword constructor (`fromRec`) is the
constructor applied to the five values, so under the hypotheses of `srrconfig_roundtrip` it is the configuration
itself; and the 3-field record of a plain `Config` is accepted too, the missing fields taking the defaults of `__init__`. -/
theorem srrconfig_record_roundtrip (c : SrrConfig) (hs : c.scantime ≠ 0) (ho : c.offs ≠ []) :
    SrrConfig.fromRec c.toRec = .ok (SrrConfig.fromArray c.toArray) ∧
    (1 ≤ c.size → c.warmup.natAbs ≤ 2 ^ 50 → SrrConfig.fromRec c.toRec = .ok c) ∧
    (∀ spotsize speed scantime : Rat, scantime ≠ 0 →
      SrrConfig.fromRec { names := ["spotsize", "speed", "scantime"], dim := none,
                          recs := [[.num spotsize, .num speed, .num scantime]] }
        = .ok (SrrConfig.make spotsize speed scantime (25 / 2) [(0, 2), (1, 2)])) := by
  have key : SrrConfig.fromRec c.toRec = .ok (SrrConfig.fromArray c.toArray) := by
    have hne : (c.toArray.offsets.map (fun p => ((p.1 : Int), (p.2 : Int)))).isEmpty = false := by
      cases hc : c.offs with
      | nil => exact absurd hc ho
      | cons a as => simp [SrrConfig.toArray, SrrConfig.subpixelOffsets, hc]
    have hall : (c.toArray.offsets.map (fun p => ((p.1 : Int), (p.2 : Int)))).all
        (fun p => decide (0 ≤ p.1) && decide (0 ≤ p.2)) = true := by
      simp [List.all_eq_true]
    have hback : (c.toArray.offsets.map (fun p => ((p.1 : Int), (p.2 : Int)))).map (fun p => (p.1.toNat, p.2.toNat))
        = c.toArray.offsets := by
      rw [List.map_map]
      refine (List.map_congr_left (fun a _ => ?_)).trans (List.map_id _)
      simp
    have hsc : c.toArray.scantime ≠ 0 := hs
    simp only [SrrConfig.fromRec, SrrConfig.toRec, srrNames, kwNum, RecArr.fieldIdx]
    simp [List.findIdx_cons, hne, hall, hback, hsc, SrrConfig.fromArray, pure, Except.pure, bind, Except.bind]
  refine ⟨key, ?_, ?_⟩
  · intro hz hw
    rw [key, roundtrip_state c hs ho hz hw]
  · intro spotsize speed scantime hsc
    simp only [SrrConfig.fromRec, srrNames, kwNum, RecArr.fieldIdx]
    simp [List.findIdx_cons, hsc, pure, Except.pure, bind, Except.bind]

example : SrrConfig.fromRec (SrrConfig.make 35 140 (1 / 4) (1 / 2) [(0, 2), (1, 3)]).toRec
    = .ok (SrrConfig.make 35 140 (1 / 4) (1 / 2) [(0, 2), (1, 3)]) := by decide +kernel

/-! ## structured stacks: elements, and changes of the element set between two reconstructions -/

/-- **The reconstruction acts cell by cell**: for every change `f` of the cell type (another structured dtype: fields
dropped, reordered, renamed, one field picked, values converted), any configuration and any stack - accepted or not -
reconstructing the changed stack is the change applied to every voxel of the reconstruction, the zero outside the
footprints being `f` of the zero record.  Nothing of the result depends on the cell type, so an object that
reconstructs a stack after its dtype changed owes exactly the voxels of the NEW cells. -/
theorem krisskross_pixelwise {α β : Type} (f : α → β) (z : α) (c : SrrConfig) (m : Rat) (layers : List (Arr2 α)) :
    krisskross (f z) c m (layers.map (Arr2.map f)) = (krisskross z c m layers).map (Arr3.map f) :=
  krisskross_map_aux f z c m layers

/-- **Every element is reconstructed by itself**: element `e` of the structured reconstruction (`get()[name]`,
`get(name)`) of a stack with `n` fields is the reconstruction of the layers' element `e`. -/
theorem reconstruction_per_element (n e : Nat) (c : SrrConfig) (m : Rat) (layers : List (Arr2 (List Int))) :
    (krisskross (zeroPx n) c m layers).map (Arr3.map (fieldOf e))
      = krisskross (0 : Int) c m (layers.map (Arr2.map (fieldOf e))) := by
  have hz : fieldOf e (zeroPx n) = 0 := by
    simp only [fieldOf, zeroPx, List.getD_eq_getElem?_getD, List.getElem?_replicate]
    split <;> rfl
  rw [← hz]
  exact (krisskross_pixelwise (fieldOf e) (zeroPx n) c m layers).symm

example : fieldOf 1 (zeroPx 3) = 0 ∧ Arr2.map (fieldOf 1) { rows := 1, cols := 1, get := fun _ _ => [4, 5, 6] }
    = ({ rows := 1, cols := 1, get := fun _ _ => fieldOf 1 [4, 5, 6] } : Arr2 Int) ∧ fieldOf 1 [4, 5, 6] = 5 :=
  ⟨by decide, rfl, by decide⟩

/-- **Changing the element set and reconstructing again.**  For a stack `s`, any configuration `c`, `m`:
* `rename`: the layers are the same, the fields carry the new names (same dtypes, same order);
* `remove`: the remaining fields in their old order, and the reconstruction of the new stack is the old reconstruction
  with the removed fields dropped from every voxel;
* `add`: one more field at the end; the old elements of the new reconstruction are the old reconstruction's, the new
  element is the reconstruction of the added data.
(`Stack.apply = some s'` is the hypothesis that pewlib performs the change: names exist / do not exist yet, no duplicate,
a field remains, the added data has the layers' shapes.) -/
theorem element_edits_then_reconstruct (s s' : Stack) (c : SrrConfig) (m : Rat) :
    (∀ mp, s.apply (.rename mp) = some s' →
      s'.layers = s.layers ∧ s'.fields = s.fields.map (fun f => (renameName mp f.1, f.2))) ∧
    (∀ names, s.apply (.remove names) = some s' →
      s'.fields = (keepIdx s.fields names).filterMap (fun i => s.fields[i]?) ∧
      s'.fields.length = (keepIdx s.fields names).length ∧
      krisskross (zeroPx s'.fields.length) c m s'.layers
        = (krisskross (zeroPx s.fields.length) c m s.layers).map (Arr3.map (pickIdx (keepIdx s.fields names)))) ∧
    (∀ name dt data, s.apply (.add name dt data) = some s' →
      s'.fields = s.fields ++ [(name, dt)] ∧
      (∀ e, e < s.fields.length →
        (krisskross (zeroPx (s.fields.length + 1)) c m s'.layers).map (Arr3.map (fieldOf e))
          = (krisskross (zeroPx s.fields.length) c m s.layers).map (Arr3.map (fieldOf e))) ∧
      (krisskross (zeroPx (s.fields.length + 1)) c m s'.layers).map (Arr3.map (fieldOf s.fields.length))
        = krisskross (0 : Int) c m data) := by
  refine ⟨?_, ?_, ?_⟩
  · intro mp h
    simp only [Stack.apply] at h
    split at h
    · cases h; exact ⟨rfl, rfl⟩
    · cases h
  · intro names h
    simp only [Stack.apply] at h
    split at h
    · cases h
      have hl := filterMap_getElem?_length s.fields _ (keepIdx_lt s.fields names)
      refine ⟨rfl, hl, ?_⟩
      simp only [hl]
      rw [← pickIdx_zero]
      exact krisskross_pixelwise _ _ c m s.layers
    · cases h
  · intro name dt data h
    simp only [Stack.apply] at h
    split at h
    · cases h
    · rename_i hcond
      cases h
      simp only [Bool.or_eq_true, not_or, bne_iff_ne, ne_eq, Decidable.not_not, Bool.not_eq_true',
        Bool.not_eq_false] at hcond
      obtain ⟨⟨hname, hlen⟩, hshape⟩ := hcond
      have hold : ∀ e, e < s.fields.length →
          (List.zipWith (fun (l : Arr2 (List Int)) (d : Arr2 Int) =>
              ({ rows := l.rows, cols := l.cols,
                 get := fun r c => appendField s.fields.length (l.get r c) (d.get r c) } : Arr2 (List Int)))
            s.layers data).map (Arr2.map (fieldOf e)) = s.layers.map (Arr2.map (fieldOf e)) := by
        intro e he
        apply List.ext_getElem
        · simp [hlen]
        · intro i h1 h2
          simp only [List.getElem_map, List.getElem_zipWith, Arr2.map, fieldOf_appendField_lt _ _ _ _ he]
      have hnew : (List.zipWith (fun (l : Arr2 (List Int)) (d : Arr2 Int) =>
              ({ rows := l.rows, cols := l.cols,
                 get := fun r c => appendField s.fields.length (l.get r c) (d.get r c) } : Arr2 (List Int)))
            s.layers data).map (Arr2.map (fieldOf s.fields.length)) = data := by
        apply List.ext_getElem
        · simp [hlen]
        · intro i h1 h2
          have hi : i < s.layers.length := by simpa [hlen] using h1
          have hmem : (s.layers[i], data[i]) ∈ s.layers.zip data := by
            rw [List.mem_iff_getElem]
            exact ⟨i, by simp [hlen, hi], by simp⟩
          have hsh := List.all_eq_true.mp hshape _ hmem
          simp only [Bool.and_eq_true, beq_iff_eq] at hsh
          simp only [List.getElem_map, List.getElem_zipWith, Arr2.map, fieldOf_appendField_eq, hsh.1, hsh.2]
      refine ⟨rfl, fun e he => ?_, ?_⟩
      · rw [reconstruction_per_element, reconstruction_per_element]
        exact congrArg _ (hold e he)
      · rw [reconstruction_per_element]
        exact congrArg _ hnew

example :
    let l : Arr2 (List Int) := { rows := 1, cols := 1, get := fun _ _ => [1, 2] }
    let d : Arr2 Int := { rows := 1, cols := 1, get := fun _ _ => 3 }
    let s : Stack := { fields := [("A", "<f8"), ("B", "<f8")], layers := [l, l] }
    (s.apply (.remove ["A"])).map (·.fields) = some [("B", "<f8")] ∧
    (s.apply (.rename [("A", "B"), ("B", "A")])).map (·.fields) = some [("B", "<f8"), ("A", "<f8")] ∧
    (s.apply (.add "C" "<f4" [d, d])).map (·.fields) = some [("A", "<f8"), ("B", "<f8"), ("C", "<f4")] ∧
    ((s.apply (.add "C" "<f4" [d, d])).map (fun t => t.layers.map (fun a => a.get 0 0))) = some [[1, 2, 3], [1, 2, 3]] ∧
    (s.apply (.rename [("A", "B")])).isNone = true ∧ (s.apply (.remove ["A", "B"])).isNone = true ∧
    (s.apply (.add "A" "<f8" [d, d])).isNone = true := by
  decide +kernel

/-! ## the object between calls: `get` with calibration, histories of reads and changes -/

/-- **`SRRLaser.get` as the code runs is the specification, and leaves the object as it was.**  For an object whose
layers are distinct existing buffers (`WF`; a dtype with at least one field) and every argument combination
(`element` or all, `calibrate`, `flat`, `layer` or the reconstruction): the array returned by the mechanism - copy of the
layer into a NEW buffer, `.T` view, field view, the in-place loop `data[name] = calibration[name].calibrate(data[name])`
through the view, mean - is `getSpec` of the stored layers (pixel by pixel the stored layer / the reconstruction, each
field through its own calibration), it fails exactly when `getSpec` fails, and afterwards `self.data`, names,
calibrations and configuration are the same and EVERY buffer that existed before has the contents it had. -/
theorem get_eq_spec {ρ : Type} (z : ρ) (mean : List ρ → ρ) (o : Laser ρ) (hwf : o.WF) (a : GetArgs) :
    (o.get z mean a).map Prod.snd = getSpec z mean o.store.layers o.names o.cal o.cfg a ∧
    ∀ o' out, o.get z mean a = some (o', out) →
      o'.WF ∧ o'.store = o.store ∧ o'.data = o.data ∧ o.heap.length ≤ o'.heap.length ∧
        ∀ bid, bid < o.heap.length → o'.heap[bid]? = o.heap[bid]? := by
  refine ⟨get_value z mean o hwf a, ?_⟩
  intro o' out h
  obtain ⟨f1, f2, f3, f4, f5, f6⟩ := get_frame z mean o o' a out h
  obtain ⟨hw, hs⟩ := frame_store o o' hwf f1 f2 f3 f4 f5 f6
  exact ⟨hw, hs, f1, f5, f6⟩

/-- non-vacuity, and why the copy matters: two 1 × 2 layers of one element `A` with calibration `x ↦ 2·x`.
`get(calibrate=True, layer=1)` returns the calibrated transposed layer and the store still holds `[[3, 4]]`;
the same loop run on a view of the STORED buffer (what `get` would do without `.copy()`) leaves `[[6, 8]]` in the store. -/
example :
    let l0 : Arr2 (List Int) := { rows := 1, cols := 2, get := fun _ c => [1 + (c : Int)] }
    let l1 : Arr2 (List Int) := { rows := 1, cols := 2, get := fun _ c => [3 + (c : Int)] }
    let o : Laser Int := Laser.load [l0, l1] ["A"] [("A", fun x => 2 * x)] (SrrConfig.make 35 140 (1 / 4) 0 [(0, 1)])
    let a : GetArgs := { element := none, calibrate := true, flat := false, layer := some 1 }
    ((o.get 0 (fun _ => 0) a).map (fun p => match p.2 with
        | .img v => (v.rows, v.cols, v.get 0 0, v.get 1 0)
        | .stack _ => (0, 0, [], []))) = some (2, 1, [6], [8]) ∧
    ((o.get 0 (fun _ => 0) a).map (fun p => p.1.store.layers.map (fun b => (b.get 0 0, b.get 0 1))))
      = some [([1], [2]), ([3], [4])] ∧
    ((calLoopView (0 : Int) 1 o.cal 1 true o.names 0 o.heap).map (fun h => h.map (fun b => (b.get 0 0, b.get 0 1))))
      = some [([1], [2]), ([6], [8])] := by
  decide +kernel

/-- **Reads do not change the store.**  After any sequence of calls of `get` (calibrated or not, a layer or the
reconstruction, one element or all) on a well-formed object: the object is well-formed, the store (layers as values,
names, calibrations, configuration) is the one before the calls, `self.data` names the same buffers, every buffer that
existed before is unchanged, and the `k`-th call returned `getSpec` of the ORIGINAL store. -/
theorem reads_do_not_change_store {ρ : Type} (z : ρ) (mean : List ρ → ρ) (o o' : Laser ρ) (hwf : o.WF)
    (args : List GetArgs) (outs : List (GetOut (List ρ)))
    (h : Laser.run z mean o (args.map Step.get) = some (o', outs)) :
    o'.WF ∧ o'.store = o.store ∧ o'.data = o.data ∧
      (∀ bid, bid < o.heap.length → o'.heap[bid]? = o.heap[bid]?) ∧
      outs.map some = args.map (getSpec z mean o.store.layers o.names o.cal o.cfg) := by
  obtain ⟨g1, g2, g3, _, g5, g6⟩ := run_gets z mean args o o' outs hwf h
  exact ⟨g1, g2, g3, g5, g6⟩

/-- **Every history of one object refines the history of its store.**  For any sequence of calls of `get`, assignments
of new layers (`laser.data = …`, `laser.data[i] = …`), writes into a stored layer, changes of the configuration and of
the calibrations: the object after the history stands for the store after the same history in the specification
(`Store.run`, where a call of `get` does not change anything), the calls returned what the specification returns, and
the object's history fails exactly when the specification's does. -/
theorem history_refines {ρ : Type} (z : ρ) (mean : List ρ → ρ) (o : Laser ρ) (hwf : o.WF) (steps : List (Step ρ)) :
    (∀ o' outs, Laser.run z mean o steps = some (o', outs) →
      o'.WF ∧ Store.run z mean o.store steps = some (o'.store, outs)) ∧
    (Laser.run z mean o steps = none → Store.run z mean o.store steps = none) :=
  run_refines z mean steps o hwf

example : (Laser.load [({ rows := 1, cols := 1, get := fun _ _ => [(1 : Int)] } : Arr2 (List Int)),
      { rows := 1, cols := 1, get := fun _ _ => [2] }] ["A"] [] (SrrConfig.make 35 140 (1 / 4) 0 [(0, 1)])).WF :=
  (load_wf _ _ _ _ (by decide)).1

/-- **The reconstruction after reads is the geometric model of the original layers.**  On a well-formed object whose
stored layers are a crossed stack accepted by the validity check (integer float magnification `M ≥ 1`): after ANY calls
of `get` (calibrated reads of single layers included), a plain `get()` returns the 3-d array whose every voxel is the
closed formula `voxel` evaluated on the layers the object held BEFORE those calls, and a plain `get(layer=i)` the
stored layer `i` (`layerSpec`). -/
theorem reconstruction_after_reads {ρ : Type} (z : ρ) (mean : List ρ → ρ) (o o' : Laser ρ) (hwf : o.WF)
    (M : Nat) (hM : 1 ≤ M) (hm : o.cfg.magnification = (M : Rat)) (hscan : 0 < o.cfg.scantime) (hoffs : o.cfg.offs ≠ [])
    (l0 s0 l1 s1 : Nat) (hc : Crossed o.store.layers l0 s0 l1 s1)
    (hv : validForData o.cfg o.cfg.magnification o.store.layers = some true)
    (reads : List GetArgs) (outs : List (GetOut (List ρ)))
    (h : Laser.run z mean o (reads.map Step.get) = some (o', outs)) :
    (∃ o'' out, o'.get z mean { element := none, calibrate := false, flat := false, layer := none } = some (o'', .stack out) ∧
      out.rows = reconRows l0 M (subpixelsPerPixel o.cfg.size o.cfg.magnification) o.cfg.offs ∧
      out.cols = reconCols l1 M (subpixelsPerPixel o.cfg.size o.cfg.magnification) o.cfg.offs ∧
      out.depth = o.store.layers.length ∧
      ∀ r cc i, out.get r cc i = voxel (List.replicate o.names.length z) l0 l1 M
        (subpixelsPerPixel o.cfg.size o.cfg.magnification) o.cfg.warmup.toNat o.cfg.offs o.store.layers r cc i) ∧
    (∀ i l, o.store.layers[i]? = some l →
      ∃ o'' img, o'.get z mean { element := none, calibrate := false, flat := false, layer := some i } = some (o'', .img img) ∧
        img = layerSpec l i) := by
  obtain ⟨hwf', hs, _, _, _⟩ := run_gets z mean reads o o' outs hwf h
  have hnm : o'.names = o.names := congrArg Store.names hs
  have hcal : o'.cal = o.cal := congrArg Store.cal hs
  have hcfg : o'.cfg = o.cfg := congrArg Store.cfg hs
  have hlay : o'.store.layers = o.store.layers := congrArg Store.layers hs
  constructor
  · have hval := get_value z mean o' hwf' { element := none, calibrate := false, flat := false, layer := none }
    obtain ⟨out, ho, h2, h3, h4, h5⟩ := krisskross_voxel_of_config (List.replicate o.names.length z) o.cfg M hM hm hscan hoffs
      o.store.layers l0 s0 l1 s1 hc hv
    rw [hlay, hnm, hcal, hcfg] at hval
    simp only [getSpec, readPx, Bool.false_eq_true, if_false, ho, Option.map_some] at hval
    cases hg : o'.get z mean { element := none, calibrate := false, flat := false, layer := none } with
    | none => simp [hg] at hval
    | some p =>
      obtain ⟨o'', res⟩ := p
      simp only [hg, Option.map_some, Option.some.injEq] at hval
      subst hval
      exact ⟨o'', out.map id, rfl, h2, h3, h4, h5⟩
  · intro i l hl
    have hval := get_value z mean o' hwf' { element := none, calibrate := false, flat := false, layer := some i }
    rw [hlay, hnm, hcal, hcfg] at hval
    simp only [getSpec, readPx, Bool.false_eq_true, if_false, hl, Option.map_some] at hval
    cases hg : o'.get z mean { element := none, calibrate := false, flat := false, layer := some i } with
    | none => simp [hg] at hval
    | some p =>
      obtain ⟨o'', res⟩ := p
      simp only [hg, Option.map_some, Option.some.injEq] at hval
      subst hval
      exact ⟨o'', (layerSpec l i).map id, rfl, rfl⟩

/-- **`get` for every argument combination against the geometric model, pointwise** (an independent statement of what
`srrGet_reconstruction` and `layer_read` only unfold).  `f = readPx …` is what the arguments do to one record: all fields
or the selected one, each through its own calibration when `calibrate`.  For a crossed stack accepted by the validity
check (integer float magnification `M ≥ 1`):
* `layer = i`: the image has the stored layer's shape (exchanged for odd `i`) and pixel `(r, cc)` is `f` of the stored
  pixel `(r, cc)` (`(cc, r)` for odd `i`); `flat` changes nothing;
* no layer, not flat: the 3-d array of shape `reconRows × reconCols × layers` whose voxel is `f` of the closed formula
  `voxel` (the zero record outside the footprint goes through `f` as well);
* no layer, flat: pixel `(r, cc)` holds, per value of the read, `mean` of that value of `f (voxel …)` over ALL layers. -/
theorem get_follows_geometric_model {ρ : Type} (z : ρ) (mean : List ρ → ρ) (layers : List (Arr2 (List ρ)))
    (names : List String) (cal : List (String × (ρ → ρ))) (c : SrrConfig) (M : Nat) (hM : 1 ≤ M)
    (hm : c.magnification = (M : Rat)) (hscan : 0 < c.scantime) (hoffs : c.offs ≠ [])
    (l0 s0 l1 s1 : Nat) (hc : Crossed layers l0 s0 l1 s1) (hv : validForData c c.magnification layers = some true)
    (a : GetArgs) (f : List ρ → List ρ) (hf : readPx z names cal a = some f) :
    (∀ i l, a.layer = some i → layers[i]? = some l →
      ∃ img, getSpec z mean layers names cal c a = some (.img img) ∧
        img.rows = (if i % 2 = 0 then l.rows else l.cols) ∧ img.cols = (if i % 2 = 0 then l.cols else l.rows) ∧
        ∀ r cc, img.get r cc = f (if i % 2 = 0 then l.get r cc else l.get cc r)) ∧
    (a.layer = none → a.flat = false →
      ∃ out, getSpec z mean layers names cal c a = some (.stack out) ∧
        out.rows = reconRows l0 M (subpixelsPerPixel c.size c.magnification) c.offs ∧
        out.cols = reconCols l1 M (subpixelsPerPixel c.size c.magnification) c.offs ∧
        out.depth = layers.length ∧
        ∀ r cc i, out.get r cc i = f (voxel (List.replicate names.length z) l0 l1 M
          (subpixelsPerPixel c.size c.magnification) c.warmup.toNat c.offs layers r cc i)) ∧
    (a.layer = none → a.flat = true →
      ∃ img, getSpec z mean layers names cal c a = some (.img img) ∧
        img.rows = reconRows l0 M (subpixelsPerPixel c.size c.magnification) c.offs ∧
        img.cols = reconCols l1 M (subpixelsPerPixel c.size c.magnification) c.offs ∧
        ∀ r cc, img.get r cc = (List.range (readWidth names a)).map (fun j =>
          mean ((List.range layers.length).map (fun i =>
            (f (voxel (List.replicate names.length z) l0 l1 M
              (subpixelsPerPixel c.size c.magnification) c.warmup.toNat c.offs layers r cc i)).getD j z)))) := by
  obtain ⟨out, ho, h2, h3, h4, h5⟩ := krisskross_voxel_of_config (List.replicate names.length z) c M hM hm hscan hoffs
    layers l0 s0 l1 s1 hc hv
  refine ⟨?_, ?_, ?_⟩
  · intro i l hi hl
    refine ⟨(layerSpec l i).map f, by simp [getSpec, hf, hi, hl], ?_, ?_, ?_⟩
    · by_cases hp : i % 2 = 0 <;> simp [layerSpec, hp, Arr2.map]
    · by_cases hp : i % 2 = 0 <;> simp [layerSpec, hp, Arr2.map]
    · intro r cc
      by_cases hp : i % 2 = 0 <;> simp [layerSpec, hp, Arr2.map]
  · intro hl hflat
    refine ⟨out.map f, by simp [getSpec, hf, hl, ho, hflat], h2, h3, h4, ?_⟩
    intro r cc i
    simp only [Arr3.map, h5]
  · intro hl hflat
    refine ⟨meanPx z mean (readWidth names a) (out.map f), by simp [getSpec, hf, hl, ho, hflat], h2, h3, ?_⟩
    intro r cc
    simp only [meanPx, Arr3.map, h4, h5]

/-- non-vacuity: all fields calibrated (`A` through `x ↦ (x - 1) / 2`, `B` through the default) and one field selected -/
example :
    let cal : List (String × (Rat → Rat)) := [("A", Calib.apply { intercept := 1, gradient := 2 }),
      ("B", Calib.apply { intercept := 0, gradient := 1 })]
    (readPx (0 : Rat) ["A", "B"] cal { element := none, calibrate := true, flat := false, layer := none }).map (· [5, 7])
      = some [2, 7] ∧
    (readPx (0 : Rat) ["A", "B"] cal { element := some "A", calibrate := true, flat := true, layer := some 3 }).map (· [5, 7])
      = some [2] ∧
    (readPx (0 : Rat) ["A", "B"] cal { element := some "C", calibrate := false, flat := false, layer := none }).isNone = true := by
  decide +kernel

/-! ## same-parity layers of different lengths -/

/-- **The reconstruction of a stack whose layers differ in length.**  `Crossed` fixes one length per layer kind; the
code does not need that: for every stack with `l0` lines in the even and `l1` lines in the odd layers in which EVERY
layer holds the warm-up and the samples read from it (`Ragged`; excess samples differ from layer to layer), every integer
magnification `M ≥ 1`, any non-empty offsets: the validity check accepts (it reads layers 0 and 1), `krisskross`
succeeds with the shape of the crossed case, every voxel is the closed formula `voxel` (which never mentions a line
length) and every source index exists.  (The converse direction is where `Crossed` matters: acceptance looks at the
first two layers only, so for a ragged stack it does not imply that a later layer is long enough.) -/
theorem krisskross_voxel_ragged {α : Type} (z : α) (c : SrrConfig) (M : Nat) (hM : 1 ≤ M)
    (hscan : 0 < c.scantime) (hoffs : c.offs ≠ []) (layers : List (Arr2 α)) (l0 l1 wn : Nat)
    (hw : c.warmup = (wn : Int)) (hr : Ragged layers l0 l1 M wn) :
    validForData c (M : Rat) layers = some true ∧
    ∃ out, krisskross z c (M : Rat) layers = some out ∧
      out.rows = reconRows l0 M (subpixelsPerPixel c.size (M : Rat)) c.offs ∧
      out.cols = reconCols l1 M (subpixelsPerPixel c.size (M : Rat)) c.offs ∧
      out.depth = layers.length ∧
      (∀ r cc i, out.get r cc i
        = voxel z l0 l1 M (subpixelsPerPixel c.size (M : Rat)) wn c.offs layers r cc i) ∧
      (∀ r cc i, i < layers.length →
        voxelInRange l0 l1 M (subpixelsPerPixel c.size (M : Rat)) wn c.offs layers r cc i = true) := by
  have hal := aligned_ragged z c M hM layers l0 l1 wn hw hr
  obtain ⟨h2, hs⟩ := hr
  have e0 : layers[0]? = some layers[0] := List.getElem?_eq_getElem (by omega)
  have e1 : layers[1]? = some layers[1] := List.getElem?_eq_getElem (by omega)
  have a0 := hs 0 _ e0
  have a1 := hs 1 _ e1
  simp only [Nat.zero_mod, if_true] at a0
  simp only [show (1 : Nat) % 2 = 1 from rfl, Nat.one_ne_zero, if_false] at a1
  refine ⟨?v, ?w, ?e, ?a, ?b, ?d, ?f, ?g⟩
  case v =>
    unfold validForData
    rw [e0, e1]
    simp only [magInt_natCast M hM, magAxis_natCast M hM, Arr2.dim, if_true, a0.1, a1.1, hw]
    have hsign : ¬ c.warmupSeconds < 0 := by
      unfold SrrConfig.warmupSeconds
      rw [fl_neg_iff, hw]
      have : (0 : Rat) ≤ ((wn : Int) : Rat) := by exact_mod_cast Int.natCast_nonneg wn
      have := mul_nonneg this hscan.le
      linarith
    rw [if_neg hsign]
    have b0 : ¬ ((layers[0].cols : Int) < (wn : Int) + ((l1 * M : Nat) : Int)) := by
      have := a0.2; push_cast; omega
    have b1 : ¬ ((layers[1].cols : Int) < (wn : Int) + ((l0 * M : Nat) : Int)) := by
      have := a1.2; push_cast; omega
    rw [if_neg b0, if_neg b1]
  case e =>
    unfold krisskross
    rw [hal]
    simp only
    rw [subpixelOffset_dup z _ c.offs hoffs]
  case a => rfl
  case b => rfl
  case d => rfl
  case f =>
    intro r cc i
    generalize subpixelsPerPixel c.size (M : Rat) = p
    simp only [voxel, inFootprint, sourceIndex, Bool.and_eq_true, decide_eq_true_eq]
    cases hl : layers[i]? with
    | none => simp
    | some l =>
      simp only [and_assoc]
      split_ifs <;> rfl
  case g =>
    intro r cc i hi
    generalize subpixelsPerPixel c.size (M : Rat) = p
    have hl : layers[i]? = some layers[i] := List.getElem?_eq_getElem hi
    have hsh := hs i _ hl
    simp only [voxelInRange, hl, inFootprint, sourceIndex, Bool.and_eq_true, decide_eq_true_eq]
    split
    · rename_i hf
      obtain ⟨⟨⟨_, f2⟩, _⟩, f4⟩ := hf
      have a1' : (r - layerOffset c.offs i) / p < l0 * M :=
        Nat.div_lt_of_lt_mul (by rw [Nat.mul_comm]; omega)
      have a2' : (cc - layerOffset c.offs i) / p < l1 * M :=
        Nat.div_lt_of_lt_mul (by rw [Nat.mul_comm]; omega)
      by_cases hpar : i % 2 = 0
      · simp only [hpar, if_true] at hsh ⊢
        rw [hsh.1]
        simp only [Bool.and_eq_true, decide_eq_true_eq]
        exact ⟨Nat.div_lt_of_lt_mul (by rw [Nat.mul_comm]; exact a1'), by omega⟩
      · simp only [hpar, if_false] at hsh ⊢
        rw [hsh.1]
        simp only [Bool.and_eq_true, decide_eq_true_eq]
        exact ⟨Nat.div_lt_of_lt_mul (by rw [Nat.mul_comm]; exact a2'), by omega⟩
    · rfl

/-- non-vacuity: three layers, the third (even) one two samples longer than the first -/
example :
    let mk : Nat → Nat → Arr2 Int := fun r c => { rows := r, cols := c, get := fun a b => a * 100 + b }
    Ragged [mk 2 4, mk 3 3, mk 2 6] 2 3 1 1 := by
  refine ⟨by decide, ?_⟩
  intro i l hl
  match i with
  | 0 => simp at hl; subst hl; simp
  | 1 => simp at hl; subst hl; simp
  | 2 => simp at hl; subst hl; simp
  | (k + 3) => simp at hl

end Pew.Srr
