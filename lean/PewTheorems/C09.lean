import PewProofs.Srr

/-! # C09 — property theorems (statements only depend on `PewModel.Srr`) -/
namespace Pew.Srr
open Pew

/-- **The reconstruction is the geometric model.**  For every crossed stack (≥ 2 layers, even
layers `l0 × s0`, odd layers `l1 × s1`), every integer magnification `M ≥ 1`, every configuration
(any warm-up, any non-empty offset list, any sub-pixel size) that `validForData` accepts:
`krisskross` succeeds, its shape is `(l0·M·p + max offset, l1·M·p + max offset, layers)`, every
voxel equals the one prescribed by the closed formula `voxel` (the trimmed, stretched, transposed,
enlarged and shifted layer; zero outside its footprint), and every source index the formula uses
exists in its layer. -/
theorem krisskross_voxel {α : Type} (z : α) (c : SrrConfig) (M : Nat) (hM : 1 ≤ M)
    (hscan : 0 < c.scantime) (hoffs : c.offs ≠ [])
    (layers : List (Arr2 α)) (l0 s0 l1 s1 : Nat) (hc : Crossed layers l0 s0 l1 s1)
    (hv : validForData c (M : Rat) layers = some true) :
    ∃ out, krisskross z c (M : Rat) layers = some out ∧
      out.rows = reconRows l0 M (subpixelsPerPixel c.size (M : Rat)) c.offs ∧
      out.cols = reconCols l1 M (subpixelsPerPixel c.size (M : Rat)) c.offs ∧
      out.depth = layers.length ∧
      (∀ r cc i, out.get r cc i
        = voxel z l0 l1 M (subpixelsPerPixel c.size (M : Rat)) c.warmup.toNat c.offs layers r cc i) ∧
      (∀ r cc i, i < layers.length →
        voxelInRange l0 l1 M (subpixelsPerPixel c.size (M : Rat)) c.warmup.toNat c.offs layers r cc i = true) := by
  obtain ⟨d0, d1, h0, h1, r0, c0, r1, c1⟩ := crossed_heads layers l0 s0 l1 s1 hc
  obtain ⟨hw0, hva, hvb⟩ := valid_unpack c M hM layers d0 d1 h0 h1 hscan hv
  obtain ⟨wn, hw⟩ := Int.eq_ofNat_of_zero_le hw0
  have hwn : c.warmup.toNat = wn := by rw [hw]; simp
  rw [r1, c0] at hva
  rw [r0, c1] at hvb
  have hv0 : wn + l1 * M ≤ s0 := by rw [hw] at hva; exact_mod_cast hva
  have hv1 : wn + l0 * M ≤ s1 := by rw [hw] at hvb; exact_mod_cast hvb
  have hal := aligned_crossed z c M hM layers l0 s0 l1 s1 hc wn hw hv0 hv1
  refine ⟨?w, ?e, ?a, ?b, ?d, ?f, ?g⟩
  case e =>
    unfold krisskross
    rw [hal]
    simp only
    rw [subpixelOffset_dup z _ c.offs hoffs]
  case a => rfl
  case b => rfl
  case d => rfl
  case f =>
    intro r cc i
    rw [hwn]
    generalize subpixelsPerPixel c.size (M : Rat) = p
    simp only [voxel, inFootprint, sourceIndex, Bool.and_eq_true, decide_eq_true_eq]
    cases hl : layers[i]? with
    | none => simp
    | some l =>
      simp only [and_assoc]
      split_ifs <;> rfl
  case g =>
    intro r cc i hi
    rw [hwn]
    generalize subpixelsPerPixel c.size (M : Rat) = p
    have hl : layers[i]? = some layers[i] := List.getElem?_eq_getElem hi
    have hsh := hc.2 i _ hl
    simp only [voxelInRange, hl, inFootprint, sourceIndex, Bool.and_eq_true, decide_eq_true_eq]
    split
    · rename_i hf
      obtain ⟨⟨⟨_, f2⟩, _⟩, f4⟩ := hf
      have a1 : (r - layerOffset c.offs i) / p < l0 * M :=
        Nat.div_lt_of_lt_mul (by rw [Nat.mul_comm]; omega)
      have a2 : (cc - layerOffset c.offs i) / p < l1 * M :=
        Nat.div_lt_of_lt_mul (by rw [Nat.mul_comm]; omega)
      by_cases hpar : i % 2 = 0
      · simp only [hpar, if_true] at hsh ⊢
        rw [hsh.1, hsh.2]
        simp only [Bool.and_eq_true, decide_eq_true_eq]
        exact ⟨Nat.div_lt_of_lt_mul (by rw [Nat.mul_comm]; exact a1), by omega⟩
      · simp only [hpar, if_false] at hsh ⊢
        rw [hsh.1, hsh.2]
        simp only [Bool.and_eq_true, decide_eq_true_eq]
        exact ⟨Nat.div_lt_of_lt_mul (by rw [Nat.mul_comm]; exact a2), by omega⟩
    · rfl

/-- non-vacuity: the stack that exposed the repaired defect (magnification exactly 1, two 3 × 5
layers, default offsets) is accepted, so `krisskross_voxel` applies to it -/
example :
    let c := SrrConfig.make 35 140 (1 / 4) 0 [(0, 2), (1, 2)]
    let l : Arr2 Int := { rows := 3, cols := 5, get := fun r k => r * 5 + k + 1 }
    c.magnification = ((1 : Nat) : Rat) ∧ Crossed [l, l] 3 5 3 5 ∧ c.offs ≠ [] ∧ 0 < c.scantime ∧
      validForData c ((1 : Nat) : Rat) [l, l] = some true := by
  refine ⟨by decide +kernel, ⟨by decide, ?_⟩, by decide +kernel, by decide +kernel, by decide +kernel⟩
  intro i l hl
  match i with
  | 0 => simp at hl; subst hl; simp
  | 1 => simp at hl; subst hl; simp
  | (k + 2) => simp at hl

/-- **Acceptance implies that every intermediate shape matches**, so no NumPy assignment can fail:
each prepared layer has exactly the shape `(l0·M, l1·M)` of its slot in `aligned`, each target
region of `subpixel_offset` has exactly the shape of the enlarged block, and both steps succeed. -/
theorem valid_implies_shapes_agree {α : Type} (z : α) (c : SrrConfig) (M : Nat) (hM : 1 ≤ M)
    (hscan : 0 < c.scantime) (hoffs : c.offs ≠ [])
    (layers : List (Arr2 α)) (l0 s0 l1 s1 : Nat) (hc : Crossed layers l0 s0 l1 s1)
    (hv : validForData c (M : Rat) layers = some true) :
    (∀ (i : Nat) (l : Arr2 α), layers[i]? = some l →
      (prepLayer c.warmup (magInt (M : Rat)) (magAxis (M : Rat)) (l1 * M) (l0 * M) i l).rows = l0 * M ∧
      (prepLayer c.warmup (magInt (M : Rat)) (magAxis (M : Rat)) (l1 * M) (l0 * M) i l).cols = l1 * M) ∧
    (∃ a, aligned z c (M : Rat) layers = some a ∧ a.rows = l0 * M ∧ a.cols = l1 * M ∧ a.depth = layers.length ∧
      ∀ i p, let ov := maxList c.offs
        let rg := region (effOffsets (c.offs.map (fun o => (o, o)))) ov ov (a.rows * p + ov) (a.cols * p + ov) i
        rg.1.2 - rg.1.1 = a.rows * p ∧ rg.2.2 - rg.2.1 = a.cols * p) ∧
    (krisskross z c (M : Rat) layers).isSome = true := by
  obtain ⟨d0, d1, h0, h1, r0, c0, r1, c1⟩ := crossed_heads layers l0 s0 l1 s1 hc
  obtain ⟨hw0, hva, hvb⟩ := valid_unpack c M hM layers d0 d1 h0 h1 hscan hv
  obtain ⟨wn, hw⟩ := Int.eq_ofNat_of_zero_le hw0
  rw [r1, c0] at hva
  rw [r0, c1] at hvb
  have hv0 : wn + l1 * M ≤ s0 := by rw [hw] at hva; exact_mod_cast hva
  have hv1 : wn + l0 * M ≤ s1 := by rw [hw] at hvb; exact_mod_cast hvb
  refine ⟨?_, ?_, ?_⟩
  · intro i l hl
    have hsh := hc.2 i l hl
    rw [magInt_natCast M hM, magAxis_natCast M hM, hw]
    by_cases hi : i % 2 = 0
    · simp only [hi, if_true] at hsh
      rw [prepLayer_even l wn M _ _ i hi (by rw [hsh.2]; exact hv0), hsh.1]
      exact ⟨rfl, rfl⟩
    · have hi' : i % 2 = 1 := by omega
      simp only [hi, if_false] at hsh
      rw [prepLayer_odd l wn M _ _ i hi' (by rw [hsh.2]; exact hv1), hsh.1]
      exact ⟨rfl, rfl⟩
  · refine ⟨_, aligned_crossed z c M hM layers l0 s0 l1 s1 hc wn hw hv0 hv1, rfl, rfl, rfl, ?_⟩
    intro i p
    simp only [effOffsets_dup, region_dup c.offs hoffs]
    constructor <;> omega
  · obtain ⟨out, ho, _⟩ := krisskross_voxel z c M hM hscan hoffs layers l0 s0 l1 s1 hc hv
    rw [ho]; rfl

/-- `subpixel_offset` in general (independent x / y offsets and enlargements, any non-empty offset
list): it never fails, the canvas is the enlarged image plus the largest offset per axis, layer `i`
is the enlarged layer placed at the `i mod len`-th effective offset (a zero pair is prepended when
the first offset is not zero) and the canvas is zero elsewhere. -/
theorem subpixel_offset_spec {α : Type} (z : α) (x : Arr3 α) (offs : List (Nat × Nat)) (hne : offs ≠ [])
    (ps : Nat × Nat) :
    ∃ out, subpixelOffset z x offs ps = some out ∧
      out.rows = x.rows * ps.1 + maxList ((effOffsets offs).map (·.1)) ∧
      out.cols = x.cols * ps.2 + maxList ((effOffsets offs).map (·.2)) ∧
      out.depth = x.depth ∧
      ∀ r cc i, out.get r cc i =
        (if ((effOffsets offs).getD (i % (effOffsets offs).length) (0, 0)).1 ≤ r ∧
            r < ((effOffsets offs).getD (i % (effOffsets offs).length) (0, 0)).1 + x.rows * ps.1 ∧
            ((effOffsets offs).getD (i % (effOffsets offs).length) (0, 0)).2 ≤ cc ∧
            cc < ((effOffsets offs).getD (i % (effOffsets offs).length) (0, 0)).2 + x.cols * ps.2 then
          x.get ((r - ((effOffsets offs).getD (i % (effOffsets offs).length) (0, 0)).1) / ps.1)
                ((cc - ((effOffsets offs).getD (i % (effOffsets offs).length) (0, 0)).2) / ps.2) i
        else z) := by
  have hne' := effOffsets_ne_nil offs hne
  have hemp : (effOffsets offs).isEmpty = false := by
    cases h : effOffsets offs with
    | nil => exact absurd h hne'
    | cons a as => rfl
  refine ⟨?w, ?e, ?a, ?b, ?d, ?f⟩
  case e =>
    unfold subpixelOffset
    simp only [hemp, Bool.false_eq_true, if_false, region_general (effOffsets offs) hne']
    split
    · rfl
    · rename_i hneg
      exfalso; apply hneg
      rw [List.all_eq_true]
      intro i _
      simp
  case a => rfl
  case b => rfl
  case d => rfl
  case f => intro r cc i; rfl

example : effOffsets [(1, 2), (0, 3)] = [(0, 0), (1, 2), (0, 3)] ∧ effOffsets [(0, 0), (1, 1)] = [(0, 0), (1, 1)] := by
  decide

/-- **The flattened image is the per-pixel mean over the layers** of the voxels of the geometric
model (same hypotheses as `krisskross_voxel`). -/
theorem flat_is_mean (c : SrrConfig) (M : Nat) (hM : 1 ≤ M) (hscan : 0 < c.scantime) (hoffs : c.offs ≠ [])
    (layers : List (Arr2 Rat)) (l0 s0 l1 s1 : Nat) (hc : Crossed layers l0 s0 l1 s1)
    (hv : validForData c (M : Rat) layers = some true) :
    ∃ f, getFlat c (M : Rat) layers = some f ∧
      f.rows = reconRows l0 M (subpixelsPerPixel c.size (M : Rat)) c.offs ∧
      f.cols = reconCols l1 M (subpixelsPerPixel c.size (M : Rat)) c.offs ∧
      ∀ r cc, f.get r cc
        = flatSpec l0 l1 M (subpixelsPerPixel c.size (M : Rat)) c.warmup.toNat c.offs layers r cc := by
  obtain ⟨out, ho, hr, hcc, hd, hget, _⟩ := krisskross_voxel (0 : Rat) c M hM hscan hoffs layers l0 s0 l1 s1 hc hv
  refine ⟨meanDepth out, by simp [getFlat, ho], hr, hcc, ?_⟩
  intro r cc
  simp only [meanDepth, flatSpec, hd]
  congr 2
  exact List.map_congr_left (fun i _ => hget r cc i)

/-- **Reading a single layer returns that layer unmodified, transposed for odd layers.** -/
theorem layer_read {α : Type} (layers : List (Arr2 α)) (i : Nat) (l : Arr2 α) (h : layers[i]? = some l) :
    ∃ a, getLayer layers i = some a ∧
      (i % 2 = 0 → a = l) ∧
      (i % 2 = 1 → a.rows = l.cols ∧ a.cols = l.rows ∧ ∀ r cc, a.get r cc = l.get cc r) := by
  unfold getLayer
  rw [h]
  by_cases hi : i % 2 = 1
  · refine ⟨_, rfl, fun h0 => by omega, fun _ => ?_⟩
    simp [hi, Arr2.T]
  · refine ⟨_, rfl, fun _ => by simp [hi], fun h1 => absurd h1 hi⟩

/-- the `subpixel_offsets` setter stores every offset exactly on the common sub-pixel grid:
each denominator divides the sub-pixel size and `stored / size = offset / denominator` -/
theorem offsets_setter_exact (spotsize speed scantime warmup : Rat) (pairs : List (Nat × Nat))
    (hd : ∀ p ∈ pairs, 1 ≤ p.2) :
    let c := SrrConfig.make spotsize speed scantime warmup pairs
    1 ≤ c.size ∧ c.offs.length = pairs.length ∧
    ∀ (k : Nat) (hk : k < pairs.length), pairs[k].2 ∣ c.size ∧
      c.offs.getD k 0 * pairs[k].2 = pairs[k].1 * c.size := by
  intro c
  have hsize : c.size = lcmList (pairs.map (·.2)) := rfl
  refine ⟨?_, by simp [c, SrrConfig.make], ?_⟩
  · rw [hsize]
    exact foldl_lcm_pos _ 1 (by decide) (by
      intro x hx
      obtain ⟨p, hp, rfl⟩ := List.mem_map.mp hx
      exact hd p hp)
  · intro k hk
    have hdvd : pairs[k].2 ∣ c.size := by
      rw [hsize]
      exact foldl_lcm_dvd_mem _ 1 _ (List.mem_map.mpr ⟨pairs[k], List.getElem_mem hk, rfl⟩)
    refine ⟨hdvd, ?_⟩
    have : c.offs.getD k 0 = pairs[k].1 * c.size / pairs[k].2 := by
      simp [c, SrrConfig.make, List.getD_eq_getElem?_getD, hk]
    rw [this]
    exact Nat.div_mul_cancel (Nat.dvd_trans hdvd (Nat.dvd_mul_left _ _))

/-- **An SRR configuration survives conversion to and from its array form unchanged**: every
configuration the constructor produces from a non-zero scan time and a non-empty list of offsets
with positive denominators (any spot size, speed, warm-up). -/
theorem srrconfig_roundtrip (spotsize speed scantime warmup : Rat) (pairs : List (Nat × Nat))
    (hs : scantime ≠ 0) (hp : pairs ≠ []) (hd : ∀ p ∈ pairs, 1 ≤ p.2) :
    SrrConfig.fromArray (SrrConfig.make spotsize speed scantime warmup pairs).toArray
      = SrrConfig.make spotsize speed scantime warmup pairs := by
  apply roundtrip_state
  · exact hs
  · simpa [SrrConfig.make] using hp
  · exact (offsets_setter_exact spotsize speed scantime warmup pairs hd).1

example : SrrConfig.fromArray (SrrConfig.make 35 140 (1 / 4) (25 / 2) [(0, 2), (1, 3)]).toArray
    = SrrConfig.make 35 140 (1 / 4) (25 / 2) [(0, 2), (1, 3)] :=
  srrconfig_roundtrip _ _ _ _ _ (by norm_num) (by simp) (by decide)

end Pew.Srr
