import PewProofs.CliLoad
import PewProofs.CliExt

/-! # C20 — property theorems (statements only depend on `PewModel.Cli`) -/
namespace Pew.Cli

/-! ## stacking -/

/-- Stacking any non-empty list of images — of any, differing, sizes — succeeds and gives the sum of
the sizes along the stacking axis and the largest size along the other axis. -/
theorem stack_shape {α} (o : Orient) (pad : α) (ds : List (Grid α)) (hne : ds ≠ []) :
    ∃ g, stack o pad ds = some g ∧
      g.h = (match o with
        | .vertical => (ds.map (·.h)).sum
        | .horizontal => maxOf (ds.map (·.h))) ∧
      g.w = (match o with
        | .vertical => maxOf (ds.map (·.w))
        | .horizontal => (ds.map (·.w)).sum) := by
  cases o with
  | vertical =>
    obtain ⟨g, hg, hh, hw, -⟩ := stack_vertical_full pad ds hne
    exact ⟨g, hg, hh, hw⟩
  | horizontal =>
    obtain ⟨g, hg, hh, hw, -⟩ := stack_horizontal_full pad ds hne
    exact ⟨g, hg, hh, hw⟩

/-- Vertical stacking: input `k` appears unchanged from row `h₀ + … + h_{k-1}` on, columns beyond
its own width hold the pad value. -/
theorem stack_pixel_vertical {α} (pad : α) (ds : List (Grid α)) (g : Grid α)
    (hs : stack .vertical pad ds = some g) (k : Nat) (hk : k < ds.length) (i j : Nat)
    (hi : i < ds[k].h) :
    g.get (prefixSum (ds.map (·.h)) k + i) j = if j < ds[k].w then ds[k].get i j else pad := by
  obtain ⟨g', hg', -, -, hpix⟩ := stack_vertical_full pad ds (stack_ne_nil _ _ _ _ hs)
  rw [hs] at hg'
  cases Option.some.inj hg'
  exact hpix k hk i j hi

/-- Horizontal stacking: input `k` appears unchanged from column `w₀ + … + w_{k-1}` on, rows beyond
its own height hold the pad value. -/
theorem stack_pixel_horizontal {α} (pad : α) (ds : List (Grid α)) (g : Grid α)
    (hs : stack .horizontal pad ds = some g) (k : Nat) (hk : k < ds.length) (i j : Nat)
    (hj : j < ds[k].w) :
    g.get i (prefixSum (ds.map (·.w)) k + j) = if i < ds[k].h then ds[k].get i j else pad := by
  obtain ⟨g', hg', -, -, hpix⟩ := stack_horizontal_full pad ds (stack_ne_nil _ _ _ _ hs)
  rw [hs] at hg'
  cases Option.some.inj hg'
  exact hpix k hk i j hj

/-- The stacked positions tile the stacking axis: every position below the total size lies in
exactly one input (`r = prefixSum sizes k + i` with `i < sizes[k]` has one solution), so the two
pixel theorems describe every pixel of the result. -/
theorem stack_position_unique (sizes : List Nat) (r : Nat) (hr : r < sizes.sum) :
    ∃ k i, (∃ hk : k < sizes.length, i < sizes[k] ∧ r = prefixSum sizes k + i) ∧
      ∀ k' i', (∃ hk' : k' < sizes.length, i' < sizes[k'] ∧ r = prefixSum sizes k' + i') →
        k' = k ∧ i' = i := by
  obtain ⟨k, i, hl, hk, hi, hr'⟩ := locate_some sizes r hr
  refine ⟨k, i, ⟨hk, hi, hr'⟩, ?_⟩
  rintro k' i' ⟨hk', hi', hr''⟩
  have := locate_unique sizes k' i' hk' hi'
  rw [← hr'', hl] at this
  simp only [Option.some.injEq, Prod.mk.injEq] at this
  exact ⟨this.1.symm, this.2.symm⟩

/-- The mechanism equals the specification `stackSpec` (every input unchanged at its stacked
position, the pad value everywhere else) in shape and at every pixel, both orientations, any number
of inputs of any sizes. -/
theorem stack_eq_spec {α} (o : Orient) (pad : α) (ds : List (Grid α)) (g : Grid α)
    (hs : stack o pad ds = some g) :
    g.h = (stackSpec o pad ds).h ∧ g.w = (stackSpec o pad ds).w ∧
      ∀ r c, r < g.h → c < g.w → g.get r c = (stackSpec o pad ds).get r c := by
  have hne := stack_ne_nil _ _ _ _ hs
  cases o with
  | vertical =>
    obtain ⟨g', hg', hh, hw, hpix⟩ := stack_vertical_full pad ds hne
    rw [hs] at hg'
    cases Option.some.inj hg'
    refine ⟨hh, hw, ?_⟩
    intro r c hr _
    obtain ⟨k, i, hl, hk, hi, hr'⟩ := locate_some (ds.map (·.h)) r (by omega)
    have hk' : k < ds.length := by simpa using hk
    have hi' : i < ds[k].h := by simpa using hi
    simp only [stackSpec, hl, List.getElem?_eq_getElem hk']
    rw [hr']
    exact hpix k hk' i c hi'
  | horizontal =>
    obtain ⟨g', hg', hh, hw, hpix⟩ := stack_horizontal_full pad ds hne
    rw [hs] at hg'
    cases Option.some.inj hg'
    refine ⟨hh, hw, ?_⟩
    intro r c _ hc
    obtain ⟨k, j, hl, hk, hj, hc'⟩ := locate_some (ds.map (·.w)) c (by omega)
    have hk' : k < ds.length := by simpa using hk
    have hj' : j < ds[k].w := by simpa using hj
    simp only [stackSpec, hl, List.getElem?_eq_getElem hk']
    rw [hc']
    exact hpix k hk' r j hj'

/-- Regression witness for 802513a: the earlier padding (common size and pad amount taken from the
stacking axis) cannot stack a 3x4 image over a 5x2 image — the padded widths are 6 and 2 — while
the current code does. -/
theorem stack_pad_axis_regression {α} (pad : α) (a b : Grid α)
    (ha : a.h = 3 ∧ a.w = 4) (hb : b.h = 5 ∧ b.w = 2) :
    stackOld .vertical pad [a, b] = none ∧ (stack .vertical pad [a, b]).isSome = true := by
  constructor
  · simp [stackOld, concat, vcat, Grid.pad, maxOf, ha.1, ha.2, hb.1, hb.2]
  · simp [stack, concat, vcat, Grid.pad, maxOf, ha.2, hb.2]

/-- non-vacuity: a 3x4 image over a 5x2 image; the pixel (1,1) of the second input sits at row
3 + 1, and column 3 of that row is padding -/
example :
    let a : Grid Int := { h := 3, w := 4, get := fun i j => 10 * i + j }
    let b : Grid Int := { h := 5, w := 2, get := fun i j => 100 + 10 * i + j }
    ∃ g, stack .vertical (-1) [a, b] = some g ∧ g.h = 8 ∧ g.w = 4 ∧
      g.get (prefixSum [3, 5] 1 + 1) 1 = 111 ∧ g.get 4 3 = -1 := by
  refine ⟨_, rfl, rfl, rfl, ?_, ?_⟩ <;> decide


/-! ## output paths -/

/-- The output-path derivation of the code (two `parser.error` checks, then omitted / directory /
file) equals the specification: beside every input, inside the requested directory under the input's
stem, or exactly the requested file; every other combination is a usage error (no path at all). -/
theorem outputs_spec (isStack : Bool) (inputs : List Path) (format : String) (output : Option Path)
    (isDir : Path → Bool) :
    deriveOutputs isStack inputs format output isDir =
      match specOutputs isStack inputs format output isDir with
      | some outs => .ok outs
      | none => .error .usage := by
  cases isStack <;> cases output with
  | none => simp [deriveOutputs, specOutputs, Path.withSuffix]
  | some o =>
    by_cases hd : isDir o = true
    · simp [deriveOutputs, specOutputs, hd, Path.withSuffix, Path.join]
    · simp only [Bool.not_eq_true] at hd
      by_cases hs : lower o.suffix = format <;> by_cases hl : inputs.length ≤ 1 <;>
        simp [deriveOutputs, specOutputs, hd, hs, hl]

/-- convert / filter: one output per input, in input order; beside the input when `--output` is
omitted, inside the requested existing directory, or equal to the requested file (then there is one
input and the suffix matches the format up to case). -/
theorem outputs_placed (inputs : List Path) (format : String) (output : Option Path)
    (isDir : Path → Bool) (outs : List Path) (hne : inputs ≠ [])
    (h : deriveOutputs false inputs format output isDir = .ok outs) :
    outs.length = inputs.length ∧
    ∀ k (h1 : k < outs.length) (h2 : k < inputs.length),
      match output with
      | none => outs[k].dir = inputs[k].dir ∧ outs[k].name = inputs[k].stem ++ format
      | some o =>
        if isDir o then outs[k].dir = o.full ∧ outs[k].name = inputs[k].stem ++ format
        else outs[k] = o ∧ lower o.suffix = format := by
  rw [outputs_spec] at h
  cases output with
  | none =>
    simp only [specOutputs, Bool.false_eq_true, if_false] at h
    cases h
    refine ⟨by simp, ?_⟩
    intro k h1 h2
    simp [Path.name]
  | some o =>
    by_cases hd : isDir o = true
    · simp only [specOutputs, hd, if_true, Bool.false_eq_true, if_false] at h
      cases h
      refine ⟨by simp, ?_⟩
      intro k h1 h2
      simp [hd, Path.name]
    · have hd' : isDir o = false := by simpa using hd
      by_cases hc : inputs.length ≤ 1 ∧ lower o.suffix = format
      · simp only [specOutputs, hd', Bool.false_eq_true, if_false, false_or, hc, and_self, if_true] at h
        cases h
        have hl : inputs.length = 1 := by
          have : inputs.length ≠ 0 := by simpa using hne
          omega
        refine ⟨by simp [hl], ?_⟩
        intro k h1 h2
        have : k = 0 := by simpa using h1
        subst this
        simp [hd', hc.2]
      · simp [specOutputs, hd', hc] at h

/-- stack: the single output is the requested file, which is not a directory and whose suffix
matches the format up to case. -/
theorem outputs_stack (inputs : List Path) (format : String) (output : Option Path)
    (isDir : Path → Bool) (outs : List Path)
    (h : deriveOutputs true inputs format output isDir = .ok outs) :
    ∃ o, output = some o ∧ isDir o = false ∧ lower o.suffix = format ∧ outs = [o] := by
  rw [outputs_spec] at h
  cases output with
  | none => simp [specOutputs] at h
  | some o =>
    by_cases hd : isDir o = true
    · simp [specOutputs, hd] at h
    · have hd' : isDir o = false := by simpa using hd
      by_cases hc : lower o.suffix = format
      · simp only [specOutputs, hd', Bool.false_eq_true, if_false, true_or, true_and, hc, if_true] at h
        cases h
        exact ⟨o, rfl, hd', hc, rfl⟩
      · simp [specOutputs, hd', hc] at h

/-- The rejected combinations, exactly: stack without an output file; a file for several inputs;
a file whose suffix does not match the format.  Each is an error, never a misplaced file. -/
theorem outputs_rejected_iff (isStack : Bool) (inputs : List Path) (format : String)
    (output : Option Path) (isDir : Path → Bool) :
    deriveOutputs isStack inputs format output isDir = .error .usage ↔
      match output with
      | none => isStack = true
      | some o =>
        if isDir o then isStack = true
        else (isStack = false ∧ inputs.length > 1) ∨ lower o.suffix ≠ format := by
  rw [outputs_spec]
  cases output with
  | none => cases isStack <;> simp [specOutputs]
  | some o =>
    by_cases hd : isDir o = true
    · cases isStack <;> simp [specOutputs, hd]
    · by_cases hs : lower o.suffix = format <;> by_cases hl : inputs.length ≤ 1 <;>
        cases isStack <;> simp [specOutputs, hd, hs, hl] <;> omega

/-- non-vacuity: two inputs into an existing directory; a file for two inputs is rejected -/
example :
    let a : Path := ⟨"R/in", "a", ".txt"⟩
    let b : Path := ⟨"R", "x.v2", ".NPZ"⟩
    let d : Path := ⟨"R", "out", ".d"⟩
    deriveOutputs false [a, b] ".npz" (some d) (fun p => p == d)
        = .ok [⟨"R/out.d", "a", ".npz"⟩, ⟨"R/out.d", "x.v2", ".npz"⟩] ∧
      deriveOutputs false [a, b] ".npz" (some ⟨"R", "res", ".npz"⟩) (fun p => p == d) = .error .usage ∧
      deriveOutputs true [a, b] ".npz" (some ⟨"R", "res", ".NPZ"⟩) (fun p => p == d) = .ok [⟨"R", "res", ".NPZ"⟩] := by
  refine ⟨?_, ?_, ?_⟩ <;> decide

/-! ## convert and filter -/

/-- `--config` and `--elements`: the image keeps exactly its requested elements in its own order
(data untouched), gets the explicit parameters when given, and is skipped iff nothing is left. -/
theorem restrict_spec (config : Option Cfg) (elements : Option (List String)) (l : Laser) :
    convertStep config elements l = restrictSpec config elements l := by
  cases elements with
  | none =>
    cases config <;> simp [convertStep, restrictSpec]
  | some req =>
    simp only [convertStep, restrictSpec, Laser.remove]
    cases config <;> simp only [remove_filter, Option.getD, List.length_eq_zero_iff]


/-- the property's reading of `restrict_spec`: the kept elements, their data, the skip condition -/
theorem restrict_keeps (config : Option Cfg) (req : List String) (l l' : Laser)
    (h : convertStep config (some req) l = some l') :
    l'.elements = l.elements.filter (fun e => req.contains e) ∧ (∀ e, l'.field e = l.field e) ∧
      l'.config = config.getD l.config := by
  rw [restrict_spec] at h
  simp only [restrictSpec] at h
  split at h
  · cases h
  · cases h
    exact ⟨rfl, fun _ => rfl, rfl⟩

theorem restrict_skips_iff (config : Option Cfg) (req : List String) (l : Laser) :
    convertStep config (some req) l = none ↔ ∀ e ∈ l.elements, e ∉ req := by
  rw [restrict_spec]
  simp only [restrictSpec]
  split
  · rename_i h
    simp only [List.filter_eq_nil_iff] at h
    simpa using h
  · rename_i h
    simp only [List.filter_eq_nil_iff] at h
    simpa using h

/-- non-vacuity: elements A, B, C restricted to (C, A) keeps A, C in the image's order -/
example :
    let l : Laser := { elements := ["A", "B", "C"], data := ⟨1, 1, fun _ _ _ => 0⟩, config := .raster 1 2 3 }
    (convertStep none (some ["C", "A"]) l).map (·.elements) = some ["A", "C"] ∧
      (convertStep none (some ["D"]) l).isNone = true := by
  constructor <;> decide

/-- non-vacuity for the configuration classes: `--config` on a spot-wise image (a `SpotConfig`, two
spacings) stores the explicit raster parameters and nothing of the loaded configuration; without
`--config` the spot configuration is the one stored -/
example :
    let l : Laser := { elements := ["A", "B"], data := ⟨1, 1, fun _ _ _ => 0⟩, config := .spot 25 40 }
    (convertStep (some (.raster 10 20 5)) none l).map (·.config) = some (.raster 10 20 5) ∧
      (convertStep (some (.raster 10 20 5)) (some ["B"]) l).map (·.config) = some (.raster 10 20 5) ∧
      (convertStep none (some ["A"]) l).map (·.config) = some (.spot 25 40) := by
  refine ⟨?_, ?_, ?_⟩ <;> decide

/-- Filtering changes only the selected elements that the image has — each becomes the filter of
the original field, whatever the order of the names — and nothing else (names, config, shape, other
fields).  Hypotheses: field names are distinct (NumPy guarantees it) and `--elements` has no
repeated name (a repeated name would be filtered twice by the loop). -/
theorem filter_only_selected (f : String → Grid Tok → Grid Tok) (sel : Option (List String)) (l : Laser)
    (hnd : l.elements.Nodup) (hsel : ∀ s, sel = some s → s.Nodup) :
    (filterStep f sel l).elements = l.elements ∧ (filterStep f sel l).config = l.config ∧
    (filterStep f sel l).data.h = l.data.h ∧ (filterStep f sel l).data.w = l.data.w ∧
    ∀ i j n, (filterStep f sel l).data.get i j n =
      if selected sel l n = true then (f n (l.field n)).get i j else l.data.get i j n := by
  have key : ∀ es : List String, es.Nodup →
      (∀ n, (n ∈ es ∧ n ∈ l.elements) ↔ selected sel l n = true) →
      (es.foldl (fstep f) l).elements = l.elements ∧ (es.foldl (fstep f) l).config = l.config ∧
      (es.foldl (fstep f) l).data.h = l.data.h ∧ (es.foldl (fstep f) l).data.w = l.data.w ∧
      ∀ i j n, (es.foldl (fstep f) l).data.get i j n =
        if selected sel l n = true then (f n (l.field n)).get i j else l.data.get i j n := by
    intro es hes hiff
    obtain ⟨h1, h2, h3, h4, h5⟩ := fold_filter f l es hes l rfl rfl rfl rfl (fun _ _ _ _ => rfl)
    refine ⟨h1, h2, h3, h4, ?_⟩
    intro i j n
    rw [h5]
    by_cases hs : selected sel l n = true
    · simp [hs, (hiff n).mpr hs]
    · have : ¬ (n ∈ es ∧ n ∈ l.elements) := fun h => hs ((hiff n).mp h)
      simp [hs, this]
  cases sel with
  | none =>
    exact key l.elements hnd (by intro n; simp [selected])
  | some s =>
    by_cases hem : s.isEmpty = true
    · have : filterStep f (some s) l = l.elements.foldl (fstep f) l := by
        simp [filterStep, hem]
      rw [this]
      exact key l.elements hnd (by intro n; simp [selected, hem])
    · have : filterStep f (some s) l = s.foldl (fstep f) l := by
        simp [filterStep, hem]
      rw [this]
      exact key s (hsel s rfl) (by intro n; simp [selected, hem]; tauto)


/-- non-vacuity: the hypotheses hold for a two-element image with `--elements B Z` (Z is requested
for another input); B is filtered, A is not -/
example :
    let l : Laser := { elements := ["A", "B"], data := ⟨1, 1, fun _ _ n => if n = "A" then 1 else 2⟩, config := .raster 1 2 3 }
    let f : String → Grid Tok → Grid Tok := fun _ g => { g with get := fun i j => g.get i j + 10 }
    l.elements.Nodup ∧ (["B", "Z"] : List String).Nodup ∧
      (filterStep f (some ["B", "Z"]) l).data.get 0 0 "B" = 12 ∧
      (filterStep f (some ["B", "Z"]) l).data.get 0 0 "A" = 1 := by
  refine ⟨by decide, by decide, by decide, by decide⟩

/-! ## saving -/

/-- `save` never fails for the three formats and writes exactly the requested path (.npz, .vtk) or
one text image per element named `<stem>_<element><suffix>` beside it (.csv). -/
theorem save_spec (l : Laser) (p : Path) (h : lower p.suffix ∈ validFormats) :
    save l p = .ok (specFiles (lower p.suffix) l p) := by
  simp only [validFormats, List.mem_cons, List.not_mem_nil, or_false] at h
  rcases h with h | h | h <;> simp [save, specFiles, h, Path.withStem] <;> rfl

example : lower (⟨"R", "res", ".NPZ"⟩ : Path).suffix ∈ validFormats := by decide

/-! ## the whole run -/

/-- Never a misplaced file: when the arguments are rejected nothing is written and the run fails;
otherwise every file the run writes — whatever the command, also when it stops part way — is one of
the derived outputs (see `outputs_placed` / `outputs_stack` for where those are) or one of its
per-element text images `<stem>_<element><suffix>` beside it. -/
theorem run_placed (a : Args) :
    match parse a with
    | .error _ => (run a).status = .error ∧ (run a).files = []
    | .ok outs => ∀ f ∈ (run a).files, ∃ o ∈ outs, placedAt f o := by
  cases hp : parse a with
  | error e => simp [run, hp]
  | ok outs =>
    simp only
    have hloop : ∀ cmd, ∀ f ∈ (loop cmd (enum ((a.inputs.map (·.laser)).zip outs)) []).files,
        ∃ o ∈ outs, placedAt f o := by
      intro cmd
      apply loop_placed cmd outs
      · intro x hx
        have h1 := (List.of_mem_zip hx).2
        exact (List.of_mem_zip h1).2
      · simp
    unfold run
    rw [hp]
    cases hc : a.cmd with
    | convert cfg els => simpa [hc] using hloop (.convert cfg els)
    | filter f sel => simpa [hc] using hloop (.filter f sel)
    | stack o pad =>
      simp only
      cases hs : stackLasers o pad (a.inputs.map (·.laser)) with
      | none => simp
      | some l =>
        cases outs with
        | nil => simp
        | cons out rest =>
          simp only
          cases hsv : save l out with
          | error e => simp
          | ok fs =>
            intro f hf
            exact ⟨out, by simp, save_placed l out fs hsv f hf⟩

/-! ## the whole run refines the specification -/

/-- `filter_only_selected` said with `LaserEq`: the filter loop of the code leaves the image the
specification describes. -/
theorem filter_eq_spec (f : String → Grid Tok → Grid Tok) (sel : Option (List String)) (l : Laser)
    (hnd : l.elements.Nodup) (hsel : ∀ s, sel = some s → s.Nodup) :
    LaserEq (filterStep f sel l) (filterSpec f sel l) := by
  obtain ⟨h1, h2, h3, h4, h5⟩ := filter_only_selected f sel l hnd hsel
  exact ⟨h1, h2, filterStep_calib f sel l, h3, h4,
    fun i j _ _ => funext fun n => (h5 i j n).trans (filterSpec_get f sel l i j n).symm⟩

/-- `stack_eq_spec` lifted to images: stacking fails exactly when the specification has no result
(no inputs, or inputs with different element lists); otherwise the result has the elements and the
configuration of the first input and the data `stackSpec` describes. -/
theorem stack_lasers_eq_spec (o : Orient) (pad : Tok) (ls : List Laser) :
    match stackLasers o pad ls, stackLasersSpec o pad ls with
    | some l, some l' => LaserEq l l'
    | none, none => True
    | _, _ => False := by
  cases ls with
  | nil => simp [stackLasers, stackLasersSpec]
  | cons l0 t =>
    obtain ⟨g, hg, -, -⟩ := stack_shape o (fun _ => pad) ((l0 :: t).map (·.data)) (by simp)
    obtain ⟨hh, hw, hpix⟩ := stack_eq_spec o (fun _ => pad) _ g hg
    by_cases hall : ((l0 :: t).all fun l => l.elements == l0.elements) = true
    · simp only [stackLasers, stackLasersSpec, hall, if_true, hg, Option.map_some]
      exact ⟨rfl, rfl, rfl, hh, hw, hpix⟩
    · simp only [stackLasers, stackLasersSpec, hall]
      trivial

/-- The loop of `main` over a stretch `pre` of the work list whose outputs have supported suffixes
(wherever an image is saved at all) appends the files the specification names for `pre` and goes
on with the rest. -/
theorem loop_prefix (cmd : Cmd) (hcmd : cmd.isStack = false)
    (hsel : ∀ f s, cmd = .filter f (some s) → s.Nodup)
    (pre rest : List (Nat × Laser × Path)) (acc : List File)
    (hnd : ∀ f sel, cmd = .filter f sel → ∀ x ∈ pre, x.2.1.elements.Nodup)
    (hsuf : ∀ x ∈ pre, specStep cmd x.1 x.2.1 ≠ none → lower x.2.2.suffix ∈ validFormats) :
    ∃ fs, FilesEq fs (pre.flatMap (specItem cmd)) ∧
      loop cmd (pre ++ rest) acc = loop cmd rest (acc ++ fs) := by
  induction pre generalizing acc with
  | nil => exact ⟨[], trivial, by simp⟩
  | cons x t ih =>
    obtain ⟨k, l, out⟩ := x
    have hnd' : ∀ f sel, cmd = .filter f sel → ∀ x ∈ t, x.2.1.elements.Nodup :=
      fun f sel hc x hx => hnd f sel hc x (List.mem_cons_of_mem _ hx)
    have hsuf' : ∀ x ∈ t, specStep cmd x.1 x.2.1 ≠ none → lower x.2.2.suffix ∈ validFormats :=
      fun x hx => hsuf x (List.mem_cons_of_mem _ hx)
    have hout := hsuf (k, l, out) (by simp)
    cases cmd with
    | stack o pad => simp [Cmd.isStack] at hcmd
    | convert cfg els =>
      simp only [List.cons_append, loop, List.flatMap_cons, specItem, specStep, restrict_spec] at hout ⊢
      cases hr : restrictSpec cfg els l with
      | none =>
        obtain ⟨fs, hfs, hl⟩ := ih acc hnd' hsuf'
        exact ⟨fs, by simpa using hfs, hl⟩
      | some l' =>
        rw [hr] at hout
        simp only [save_spec l' out (hout (by simp))]
        obtain ⟨fs, hfs, hl⟩ := ih (acc ++ specFiles (lower out.suffix) l' out) hnd' hsuf'
        exact ⟨specFiles (lower out.suffix) l' out ++ fs, FilesEq.append (FilesEq.refl _) hfs,
          by rw [hl, List.append_assoc]⟩
    | filter f sel =>
      simp only [List.cons_append, loop, List.flatMap_cons, specItem, specStep] at hout ⊢
      simp only [save_spec _ out (hout (by simp))]
      obtain ⟨fs, hfs, hl⟩ := ih (acc ++ specFiles (lower out.suffix) (filterStep (f k) sel l) out) hnd' hsuf'
      have hle : LaserEq (filterStep (f k) sel l) (filterSpec (f k) sel l) :=
        filter_eq_spec (f k) sel l (hnd f sel rfl (k, l, out) (by simp))
          (fun s hs => hsel f s (by rw [hs]))
      exact ⟨specFiles (lower out.suffix) (filterStep (f k) sel l) out ++ fs,
        FilesEq.append (specFiles_congr _ out hle) hfs, by rw [hl, List.append_assoc]⟩

/-- **The loop, run to the end.**  When every output that is written to has a supported suffix, the
loop of `convert` / `filter` ends with status ok having written, for every input in order, the files
the specification names: the image the library calls give (restricted / reconfigured / filtered;
skipped inputs give nothing) in the format of the output's suffix. -/
theorem loop_refines_spec (cmd : Cmd) (hcmd : cmd.isStack = false)
    (work : List (Nat × Laser × Path))
    (hnd : ∀ f sel, cmd = .filter f sel → ∀ x ∈ work, x.2.1.elements.Nodup)
    (hsel : ∀ f s, cmd = .filter f (some s) → s.Nodup)
    (hsuf : ∀ x ∈ work, specStep cmd x.1 x.2.1 ≠ none → lower x.2.2.suffix ∈ validFormats) :
    RunEq (loop cmd work []) ⟨.ok, work.flatMap (specItem cmd)⟩ := by
  obtain ⟨fs, hfs, hl⟩ := loop_prefix cmd hcmd hsel work [] [] hnd hsuf
  rw [List.append_nil] at hl
  rw [hl]
  exact ⟨rfl, by simpa [loop] using hfs⟩

/-- **Partial failure.**  When the first output with an unsupported suffix (of an input that is not
skipped) is that of `x`, the run fails there, and what it leaves behind are exactly the files of the
inputs before `x`; nothing of `x` or of later inputs is written. -/
theorem loop_partial_failure (cmd : Cmd) (hcmd : cmd.isStack = false)
    (pre : List (Nat × Laser × Path)) (x : Nat × Laser × Path) (post : List (Nat × Laser × Path))
    (hnd : ∀ f sel, cmd = .filter f sel → ∀ y ∈ pre, y.2.1.elements.Nodup)
    (hsel : ∀ f s, cmd = .filter f (some s) → s.Nodup)
    (hsuf : ∀ y ∈ pre, specStep cmd y.1 y.2.1 ≠ none → lower y.2.2.suffix ∈ validFormats)
    (hx : specStep cmd x.1 x.2.1 ≠ none) (hbad : lower x.2.2.suffix ∉ validFormats) :
    RunEq (loop cmd (pre ++ x :: post) []) ⟨.error, pre.flatMap (specItem cmd)⟩ := by
  obtain ⟨fs, hfs, hl⟩ := loop_prefix cmd hcmd hsel pre (x :: post) [] hnd hsuf
  rw [hl]
  obtain ⟨k, l, out⟩ := x
  cases cmd with
  | stack o pad => simp [Cmd.isStack] at hcmd
  | convert cfg els =>
    simp only [specStep, ← restrict_spec] at hx
    cases hc : convertStep cfg els l with
    | none => exact absurd hc hx
    | some l' =>
      simp only [loop, hc, save_bad l' out hbad]
      exact ⟨rfl, by simpa using hfs⟩
  | filter f sel =>
    simp only [loop, save_bad _ out hbad]
    exact ⟨rfl, by simpa using hfs⟩

/-- **The whole run refines the specification.**  For every command line of `convert`, `filter` and
`stack` — any number of inputs of any shapes, any `--format`, `--output` omitted / directory / file,
`--config`, `--elements`, any (opaque) filter function per input, both orientations, any pad value —
what `main` (the mechanism `run`: argument checks, output derivation, the loop with its skipping and
sequential field assignment, pad-and-concatenate, `save` dispatch on the suffix) leaves behind is what
the specification `specRun` says: the same exit status (usage errors and failed stacks are errors
with no file; everything else is ok), and the same files in the same order — same paths, same kind
(.npz image / per-element .csv text image / .vtk), same element names, configuration and shape, and
the same value of every field at every pixel (`FilesEq`; images are functions, so sameness is
pointwise).

Hypotheses, needed only for `filter` (they are those of `filter_only_selected`; without them the
loop applies the filter twice to a repeated name): the field names of each input are distinct and
`--elements` repeats no name.  None for `convert` and `stack`. -/
theorem run_refines_spec (a : Args)
    (hnd : ∀ f sel, a.cmd = .filter f sel → ∀ i ∈ a.inputs, i.laser.elements.Nodup)
    (hsel : ∀ f s, a.cmd = .filter f (some s) → s.Nodup) :
    RunEq (run a) (specRun a) := by
  have hpu := parse_unfold a
  have hrun_err : (∃ e, parse a = .error e) → run a = ⟨.error, []⟩ := by
    rintro ⟨e, he⟩; simp only [run, he]
  by_cases h1 : a.inputs.isEmpty = true
  · have hs : specRun a = ⟨.error, []⟩ := by simp [specRun, h1]
    rw [hrun_err ⟨.usage, by rw [hpu]; simp [h1]⟩, hs]; exact RunEq.refl _
  by_cases h2 : a.inputs.any (fun i => !i.present) = true
  · have hs : specRun a = ⟨.error, []⟩ := by simp only [specRun, h2]; simp
    rw [hrun_err ⟨.usage, by rw [hpu]; simp only [h1, h2]; simp⟩, hs]; exact RunEq.refl _
  by_cases h3 : validFormats.contains a.format = false
  · have hs : specRun a = ⟨.error, []⟩ := by simp only [specRun, h3]; simp
    rw [hrun_err ⟨.usage, by rw [hpu]; simp only [h1, h2, h3]; simp⟩, hs]; exact RunEq.refl _
  have h3' : validFormats.contains a.format = true := by simpa using h3
  have hf : a.format ∈ validFormats := by simpa using h3'
  have h1' : a.inputs.isEmpty = false := by simpa using h1
  have h2' : a.inputs.any (fun i => !i.present) = false := by simpa using h2
  simp only [h1', h2', h3', outputs_spec, Bool.false_eq_true, Bool.true_eq_false, if_false] at hpu
  simp only [specRun, h1', h2', h3', Bool.not_true, Bool.or_self, Bool.false_or]
  cases hso : specOutputs a.cmd.isStack (a.inputs.map (·.path)) a.format a.output a.isDir with
  | none =>
    simp only [hso] at hpu
    rw [hrun_err ⟨.usage, hpu⟩]
    split_ifs <;> exact RunEq.refl _
  | some outs =>
    simp only [hso] at hpu
    have hsuf := specOutputs_suffix _ _ _ _ _ outs hf hso
    split_ifs with hK
    · have hp : parse a = .error .usage := by
        rw [hpu]
        cases hreq : a.cmd.requested with
        | none => simp [hreq] at hK
        | some els =>
          simp only [hreq, Bool.not_eq_true', ← known_iff] at hK
          simp only [hK, if_true]
      rw [hrun_err ⟨.usage, hp⟩]
      exact RunEq.refl _
    · have hp : parse a = .ok outs := by
        rw [hpu]
        cases hreq : a.cmd.requested with
        | none => rfl
        | some els =>
          simp only [hreq, Bool.not_eq_true', ← known_iff, Bool.not_eq_false] at hK
          simp only [hK, Bool.true_eq_false, if_false]
      have hwork : ∀ x ∈ enum ((a.inputs.map (·.laser)).zip outs),
          lower x.2.2.suffix = a.format ∧ ∃ i ∈ a.inputs, x.2.1 = i.laser := by
        intro x hx
        have hz := List.of_mem_zip (mem_enum _ x hx)
        obtain ⟨i, hi, hil⟩ := List.mem_map.mp hz.1
        exact ⟨hsuf _ hz.2, i, hi, hil.symm⟩
      simp only [run, hp]
      cases hc : a.cmd with
      | stack o pad =>
        simp only
        have hst := stack_lasers_eq_spec o pad (a.inputs.map (·.laser))
        cases hm : stackLasers o pad (a.inputs.map (·.laser)) with
        | none =>
          cases hs : stackLasersSpec o pad (a.inputs.map (·.laser)) with
          | none => exact RunEq.refl _
          | some l' => simp [hm, hs] at hst
        | some l =>
          cases hs : stackLasersSpec o pad (a.inputs.map (·.laser)) with
          | none => simp [hm, hs] at hst
          | some l' =>
            simp only [hm, hs] at hst
            cases outs with
            | nil => exact RunEq.refl _
            | cons out rest =>
              have hout := hsuf out (by simp)
              have hsv := save_spec l out (by rw [hout]; exact hf)
              rw [hout] at hsv
              simp only [hsv]
              exact ⟨rfl, specFiles_congr _ out hst⟩
      | convert cfg els =>
        simp only
        refine RunEq.trans (loop_refines_spec (.convert cfg els) rfl _ (by intro f sel h; cases h)
          (by intro f s h; cases h) (fun x hx _ => by rw [(hwork x hx).1]; exact hf)) ⟨rfl, ?_⟩
        refine FilesEq.of_eq (Eq.trans (flatMap_congr' ?_) (flatMap_enum _ _))
        intro x hx
        simp only [specItem, specStep, (hwork x hx).1]
      | filter f sel =>
        simp only
        refine RunEq.trans (loop_refines_spec (.filter f sel) rfl _
          (fun f' sel' h x hx => by
            obtain ⟨i, hi, hil⟩ := (hwork x hx).2
            rw [hil]; exact hnd f sel hc i hi)
          (fun f' s h => by cases h; exact hsel f s hc)
          (fun x hx _ => by rw [(hwork x hx).1]; exact hf)) ⟨rfl, ?_⟩
        refine FilesEq.of_eq (flatMap_congr' ?_)
        intro x hx
        simp only [specItem, specStep, (hwork x hx).1]

/-- **All or nothing.**  Because the format is validated before anything is written and every
derived output carries it as suffix, a run of the three sub-commands never fails part way: when it
fails it has written nothing (the part-way failure of `loop_partial_failure` needs an output suffix
that `parse` never lets through). -/
theorem run_all_or_nothing (a : Args)
    (hnd : ∀ f sel, a.cmd = .filter f sel → ∀ i ∈ a.inputs, i.laser.elements.Nodup)
    (hsel : ∀ f s, a.cmd = .filter f (some s) → s.Nodup)
    (h : (run a).status = .error) : (run a).files = [] := by
  obtain ⟨hst, hfs⟩ := run_refines_spec a hnd hsel
  rcases specRun_error_or_ok a with he | hok
  · rw [he] at hfs
    exact FilesEq.nil_right hfs
  · rw [h, hok] at hst
    cases hst

/-! ## loading: which library call delivers an input, and with which configuration -/

/-- **The configuration overlay** (`load`, lines 62-70).  The statements of the code — a fresh
`Config()`, then `SpotConfig(*spotsize)` for an (x, y) spot spacing or an assignment of `spotsize`,
then assignments of `speed` and `scantime` (which a `SpotConfig` does not store) — leave the stored
configuration the rule `configSpec` names: a spot configuration of exactly the two reported spacings,
or a raster configuration whose every field is the loader's parameter when it reported one and the
`Config()` default when it did not. -/
theorem configOf_spec (dSpot dSpeed dScan : Tok) (p : Params) :
    configOf dSpot dSpeed dScan p = configSpec dSpot dSpeed dScan p :=
  configOf_eq dSpot dSpeed dScan p

/-- non-vacuity: a Nu directory (x, y spacing and a scan time that is then dropped), a Thermo CSV
(scan time only), an Agilent batch (nothing but the scan time), a PerkinElmer directory (all three) -/
example :
    configOf 35 140 25 ⟨some (.two 5 10), none, some 7⟩ = .spot 5 10 ∧
    configOf 35 140 25 ⟨none, none, some 7⟩ = .raster 35 140 7 ∧
    configOf 35 140 25 ⟨some (.one 30), some 100, some 7⟩ = .raster 30 100 7 ∧
    configOf 35 140 25 ⟨none, none, none⟩ = .raster 35 140 25 := by
  refine ⟨?_, ?_, ?_, ?_⟩ <;> decide

/-- **The rows of the table exclude one another**: for every path at most one row applies, whatever
the library predicates answer — so `table` is a table, not a cascade. -/
theorem table_exclusive (s : Source) : (table.filter (·.guard s)).length ≤ 1 := by
  have h := guards_exclusive s
  have e : [isAgilentBatch s, isPerkinDir s, isCsvDir s, isNpzFile s, isThermoCsv s, isTextImage s]
      = table.map (·.guard s) := rfl
  rw [e, List.filter_map, List.length_map] at h
  exact h

/-- **The dispatch of `load` is the table.**  For every path and every behaviour of the library
calls, `load` as the code branches (directory before suffix, `.b` before the directory sniffers,
lower-cased suffixes, the Thermo sniffer on `.csv` files, the loop over the two lists of Agilent
collection methods with its `except ValueError: pass`, the early `return` of an .npz with its stored
configuration, the sequential configuration overlay) equals `loadSpec`: the row of `table` that
applies names the candidate calls, `choose` says which of them delivers (the first that does not end
in a `ValueError`; the last successful one when `load_info` itself raises `ValueError`; a traceback
when `load_info` fails otherwise after a successful call), the image has
the loader's elements and data and the configuration `configSpec` makes of its parameters; no row —
or no successful candidate — is a usage error (`parser.error`, exit status 2), any exception other
than `ValueError` ends the run with a traceback (`.crash`). -/
theorem load_eq_spec (d : Tok × Tok × Tok) (s : Source) : loadMech d s = loadSpec d s := by
  unfold loadMech loadSpec
  rw [filter_table]
  cases hd : s.isDir
  · simp only [Bool.false_eq_true, if_false]
    by_cases h2 : s.sfx = ".npz"
    · simp [isAgilentBatch, isPerkinDir, isCsvDir, isNpzFile, isThermoCsv, isTextImage, hd, h2, rowNpz, Source.infoFor, choose_single, Source.image]
      cases s.npz <;> rfl
    · by_cases h3 : s.sfx = ".csv"
      · simp only [isAgilentBatch, isPerkinDir, isCsvDir, isNpzFile, isThermoCsv, isTextImage, hd, h3, sniffIs]
        cases hs : s.sniff with
        | ok fmt =>
          by_cases ht : isThermo fmt = true
          · have ht' : (fmt == "columns" || fmt == "rows") = true := ht
            simp [ht, ht', rowThermo, Source.infoFor, callOnce_spec]
          · have ht' : (fmt == "columns" || fmt == "rows") = false := by simpa [isThermo] using ht
            simp [ht, ht', rowText, Source.infoFor, callOnce_spec]
        | valueError => simp [Outcome.isOther]
        | otherError => simp [Outcome.isOther]
      · by_cases h4 : s.sfx = ".txt"
        · simp [isAgilentBatch, isPerkinDir, isCsvDir, isNpzFile, isThermoCsv, isTextImage, hd, h4, rowText, Source.infoFor, callOnce_spec]
        · by_cases h5 : s.sfx = ".text"
          · simp [isAgilentBatch, isPerkinDir, isCsvDir, isNpzFile, isThermoCsv, isTextImage, hd, h5, rowText, Source.infoFor, callOnce_spec]
          · simp [isAgilentBatch, isPerkinDir, isCsvDir, isNpzFile, isThermoCsv, isTextImage, hd, h2, h3, h4, h5]
  · simp only [if_true]
    by_cases h1 : s.sfx = ".b"
    · simp only [isAgilentBatch, isPerkinDir, isCsvDir, isNpzFile, isThermoCsv, isTextImage, hd, h1]
      simp only [Bool.true_and, beq_self_eq_true, if_true, bne_self_eq_false, Bool.false_and, Bool.and_false,
        Bool.false_eq_true, if_false, Bool.not_true, List.append_nil]
      have hi : s.infoFor rowAgilent = s.info := by simp [Source.infoFor, rowAgilent, agilentMethods]
      rw [hi]
      exact choose_agilent d s
    · cases hp : s.perkinValid
      · cases hc : s.csvValid
        · simp [isAgilentBatch, isPerkinDir, isCsvDir, isNpzFile, isThermoCsv, isTextImage, hd, h1, hp, hc]
        · simp [isAgilentBatch, isPerkinDir, isCsvDir, isNpzFile, isThermoCsv, isTextImage, hd, h1, hp, hc, rowCsvDir, Source.infoFor, callOnce_spec]
      · simp [isAgilentBatch, isPerkinDir, isCsvDir, isNpzFile, isThermoCsv, isTextImage, hd, h1, hp, rowPerkin, Source.infoFor, callOnce_spec]

/-- reading `load_eq_spec` for a successful load: exactly one row of the table applies to the path,
the delivering call is one of its candidates, and the image is what that call gives under the
configuration rule (for an .npz: the stored image itself) -/
theorem load_ok_table (d : Tok × Tok × Tok) (s : Source) (ld : Loader) (l : Laser)
    (h : loadMech d s = .ok (ld, l)) :
    ∃ row ∈ table, row.guard s = true ∧ ld ∈ row.candidates ∧ s.image d ld = .ok l ∧
      ∀ row' ∈ table, row'.guard s = true → row' = row := by
  rw [load_eq_spec] at h
  unfold loadSpec at h
  split at h
  · rename_i row hrow
    have hmem : row ∈ table.filter (·.guard s) := by rw [hrow]; simp
    obtain ⟨hin, hg⟩ := List.mem_filter.mp hmem
    have hm := choose_ok_mem _ _ ld l h
    obtain ⟨ld', hld', heq⟩ := List.mem_map.mp hm
    simp only [Prod.mk.injEq] at heq
    obtain ⟨rfl, himg⟩ := heq
    refine ⟨row, hin, hg, hld', himg, ?_⟩
    intro row' hin' hg'
    have : row' ∈ table.filter (·.guard s) := List.mem_filter.mpr ⟨hin', hg'⟩
    rw [hrow] at this
    simpa using this
  · split at h <;> cases h

/-- an input no row of the table applies to is rejected before anything is read: a usage error
(`raise ValueError("unknown extention …")` reaches `parser.error`) — except that a `.csv` file whose
first lines cannot even be sniffed ends as the sniffer's exception dictates -/
theorem load_unsupported (d : Tok × Tok × Tok) (s : Source) (h : ∀ row ∈ table, row.guard s = false) :
    loadMech d s = .error (if !s.isDir && s.sfx == ".csv" && s.sniff.isOther then .crash else .usage) := by
  rw [load_eq_spec]
  unfold loadSpec
  have : table.filter (·.guard s) = [] := by
    rw [List.filter_eq_nil_iff]
    intro row hrow
    simp [h row hrow]
  rw [this]
  simp only
  split <;> rfl

/-- non-vacuity, evaluated: `x.B` is an Agilent batch whose batch log cannot be read (the second
method list delivers); a directory `x.d` with csv files; `a.CSV` with a Thermo header; `a.csv`
without; `a.dat` and an empty directory are not supported -/
example :
    let ld : Loaded := { elements := ["A"], data := ⟨1, 1, fun _ _ _ => 0⟩, params := ⟨none, none, some 7⟩ }
    let src (dir : Bool) (sfx : String) (csv : Bool) (sn : String) (call : Loader → Outcome Loaded) : Source :=
      { path := ⟨"R", "x", sfx⟩, present := true, isDir := dir, perkinValid := false, csvValid := csv,
        sniff := .ok sn, info := .ok (), call := call, npz := .valueError }
    let second : Loader → Outcome Loaded := fun l => if l = .agilent ["acq_method_xml"] then .ok ld else .valueError
    let all : Loader → Outcome Loaded := fun _ => .ok ld
    let who (s : Source) : Option Loader := (loadMech (35, 140, 25) s).toOption.map (·.1)
    who (src true ".B" false "" second) = some (.agilent ["acq_method_xml"]) ∧
    who (src true ".d" true "" all) = some .csvdir ∧
    who (src false ".CSV" false "rows" all) = some .thermo ∧
    who (src false ".csv" false "unknown" all) = some .textimage ∧
    who (src false ".dat" false "" all) = none ∧
    who (src true "" false "" all) = none := by
  refine ⟨?_, ?_, ?_, ?_, ?_, ?_⟩ <;> decide


/-! ## what a user finds after a run: input by input -/

/-- a convert / filter run whose arguments are accepted ends with status ok and leaves, for every
input in order, the files of `specItem` -/
theorem run_nonstack (a : Args)
    (hnd : ∀ f sel, a.cmd = .filter f sel → ∀ i ∈ a.inputs, i.laser.elements.Nodup)
    (hsel : ∀ f s, a.cmd = .filter f (some s) → s.Nodup)
    (outs : List Path) (hp : parse a = .ok outs) (hns : a.cmd.isStack = false) :
    outs.length = a.inputs.length ∧ (∀ o ∈ outs, lower o.suffix = a.format) ∧
    RunEq (run a) ⟨.ok, (enum ((a.inputs.map (·.laser)).zip outs)).flatMap (specItem a.cmd)⟩ := by
  obtain ⟨hne, hf, hd⟩ := parse_ok_facts a outs hp
  have hso : specOutputs a.cmd.isStack (a.inputs.map (·.path)) a.format a.output a.isDir = some outs := by
    rw [outputs_spec] at hd
    split at hd
    · rename_i o ho; cases hd; exact ho
    · cases hd
  have hsuf := specOutputs_suffix _ _ _ _ _ outs hf hso
  rw [hns] at hd
  have hlen := (outputs_placed (a.inputs.map (·.path)) a.format a.output a.isDir outs (by simpa using hne) hd).1
  refine ⟨by simpa using hlen, hsuf, ?_⟩
  have hwork : ∀ x ∈ enum ((a.inputs.map (·.laser)).zip outs),
      lower x.2.2.suffix = a.format ∧ ∃ i ∈ a.inputs, x.2.1 = i.laser := by
    intro x hx
    have hz := List.of_mem_zip (mem_enum _ x hx)
    obtain ⟨i, hi, hil⟩ := List.mem_map.mp hz.1
    exact ⟨hsuf _ hz.2, i, hi, hil.symm⟩
  simp only [run, hp]
  cases hc : a.cmd with
  | stack o pad => simp [hc, Cmd.isStack] at hns
  | convert cfg els =>
    exact loop_refines_spec (.convert cfg els) rfl _ (by intro f sel h; cases h)
      (by intro f s h; cases h) (fun x hx _ => by rw [(hwork x hx).1]; exact hf)
  | filter f sel =>
    exact loop_refines_spec (.filter f sel) rfl _
      (fun f' sel' h x hx => by
        obtain ⟨i, hi, hil⟩ := (hwork x hx).2
        rw [hil]; exact hnd f sel hc i hi)
      (fun f' s h => by cases h; exact hsel f s hc)
      (fun x hx _ => by rw [(hwork x hx).1]; exact hf)

/-- what input number `k` of an accepted convert / filter run leaves behind: every file the
specification names for it is among the files of the run -/
theorem run_item (a : Args)
    (hnd : ∀ f sel, a.cmd = .filter f sel → ∀ i ∈ a.inputs, i.laser.elements.Nodup)
    (hsel : ∀ f s, a.cmd = .filter f (some s) → s.Nodup)
    (outs : List Path) (hp : parse a = .ok outs) (hns : a.cmd.isStack = false)
    (k : Nat) (hk : k < a.inputs.length) :
    ∃ hko : k < outs.length, lower outs[k].suffix = a.format ∧ (run a).status = .ok ∧
      ∀ g ∈ specItem a.cmd (k, a.inputs[k].laser, outs[k]), ∃ f ∈ (run a).files, FileEq f g := by
  obtain ⟨hlen, hsuf, hst, hfs⟩ := run_nonstack a hnd hsel outs hp hns
  have hko : k < outs.length := by omega
  refine ⟨hko, hsuf _ (List.getElem_mem hko), hst, ?_⟩
  intro g hg
  apply FilesEq.exists_left hfs
  rw [List.mem_flatMap]
  have hk' : k < (a.inputs.map (·.laser)).length := by simpa using hk
  have := mem_enum_zip (a.inputs.map (·.laser)) outs k hk' hko
  simp only [List.getElem_map] at this
  exact ⟨_, this, hg⟩

/-- **convert, input by input.**  When the arguments of a `convert` run are accepted (`parse`), the
run ends with status ok and, for EVERY input `k`, the derived output `outs[k]` (see `outputs_placed`
for where that is) holds the image of input `k` with exactly the requested elements that this input
has, in the image's own order, the data untouched, and the explicit `--config` when one was given —
in the requested format (`Written`: the .npz / .vtk file at `outs[k]`, or one text image per kept
element beside it).  An input that has none of the requested elements is the only one that leaves
nothing (`restrict_skips_iff`). -/
theorem convert_output (a : Args) (cfg : Option Cfg) (els : Option (List String))
    (hc : a.cmd = .convert cfg els) (outs : List Path) (hp : parse a = .ok outs)
    (k : Nat) (hk : k < a.inputs.length) :
    ∃ hko : k < outs.length, (run a).status = .ok ∧
      match els with
      | none =>
        Written (run a).files a.format
          { a.inputs[k].laser with config := cfg.getD a.inputs[k].laser.config } outs[k]
      | some req =>
        a.inputs[k].laser.elements.filter (fun e => req.contains e) ≠ [] →
        Written (run a).files a.format
          { a.inputs[k].laser with
            elements := a.inputs[k].laser.elements.filter (fun e => req.contains e),
            config := cfg.getD a.inputs[k].laser.config } outs[k] := by
  obtain ⟨hko, hsuf, hst, hfiles⟩ := run_item a (by intro f sel h; rw [hc] at h; cases h)
    (by intro f s h; rw [hc] at h; cases h) outs hp (by rw [hc]; rfl) k hk
  refine ⟨hko, hst, ?_⟩
  rw [hc] at hfiles
  simp only [specItem, specStep, hsuf] at hfiles
  cases els with
  | none =>
    simp only [restrictSpec] at hfiles
    exact written_of_specFiles _ _ _ _ hfiles
  | some req =>
    intro hne
    simp only [restrictSpec, hne, if_false] at hfiles
    exact written_of_specFiles _ _ _ _ hfiles

/-- what `filterSpec` (the image `filter_output` and `run_refines_spec` speak of) is, read off its
definition: names, configuration and shape of the input; a selected element holds the filter of the
original element, every other element the original values -/
theorem filterSpec_reads (f : String → Grid Tok → Grid Tok) (sel : Option (List String)) (l : Laser) :
    (filterSpec f sel l).elements = l.elements ∧ (filterSpec f sel l).config = l.config ∧
    (filterSpec f sel l).data.h = l.data.h ∧ (filterSpec f sel l).data.w = l.data.w ∧
    ∀ i j n, (filterSpec f sel l).data.get i j n =
      if selected sel l n = true then (f n (l.field n)).get i j else l.data.get i j n :=
  ⟨rfl, rfl, rfl, rfl, filterSpec_get f sel l⟩

example : (filterSpec (fun _ g => { g with get := fun i j => g.get i j + 10 }) (some ["B", "Z"])
    { elements := ["A", "B"], data := ⟨1, 1, fun _ _ n => if n = "A" then 1 else 2⟩, config := .raster 1 2 3 }).data.get 0 0 "B" = 12 := by
  decide

/-- **filter, input by input.**  When the arguments of a `filter` run are accepted, the run ends
with status ok and, for EVERY input `k`, the derived output `outs[k]` holds the image `filterSpec`
describes: the element names, configuration and shape of input `k`; every selected element that
the input has (all of them without `--elements`; a requested name another input has is skipped)
holds the library filter applied to the ORIGINAL element; every other element is unchanged. -/
theorem filter_output (a : Args) (flt : Nat → String → Grid Tok → Grid Tok) (sel : Option (List String))
    (hc : a.cmd = .filter flt sel)
    (hnd : ∀ i ∈ a.inputs, i.laser.elements.Nodup) (hsel : ∀ s, sel = some s → s.Nodup)
    (outs : List Path) (hp : parse a = .ok outs) (k : Nat) (hk : k < a.inputs.length) :
    ∃ hko : k < outs.length, (run a).status = .ok ∧
      Written (run a).files a.format (filterSpec (flt k) sel a.inputs[k].laser) outs[k] := by
  obtain ⟨hko, hsuf, hst, hfiles⟩ := run_item a (fun _ _ _ => hnd)
    (by intro f s h; rw [hc] at h; cases h; exact hsel s rfl) outs hp (by rw [hc]; rfl) k hk
  refine ⟨hko, hst, ?_⟩
  rw [hc] at hfiles
  simp only [specItem, specStep, hsuf] at hfiles
  exact written_of_specFiles _ _ _ _ hfiles

/-- **stack.**  When the arguments of a `stack` run are accepted and the inputs share their element
names, the run ends with status ok and the single requested output file holds the stacked image
`m`: the element names and the configuration of the FIRST input, and data `stack o pad datas = some
m.data` — so `stack_shape` gives its shape and `stack_pixel_vertical` / `stack_pixel_horizontal` say
where every pixel comes from: input `k`'s pixel `(i, j)` sits at row `h₀ + … + h_{k-1} + i`, column
`j` (vertically; columns and rows swapped horizontally), the pad value everywhere else. -/
theorem stack_output (a : Args) (o : Orient) (pad : Tok) (hc : a.cmd = .stack o pad)
    (outs : List Path) (hp : parse a = .ok outs)
    (l0 : Laser) (rest : List Laser) (hin : a.inputs.map (·.laser) = l0 :: rest)
    (hall : ∀ l ∈ rest, l.elements = l0.elements) :
    ∃ out, a.output = some out ∧ a.isDir out = false ∧ outs = [out] ∧ (run a).status = .ok ∧
      ∃ m : Laser, m.elements = l0.elements ∧ m.config = l0.config ∧ m.calib = l0.calib ∧
        stack o (fun _ => pad) ((l0 :: rest).map (·.data)) = some m.data ∧
        Written (run a).files a.format m out := by
  obtain ⟨hne, hf, hd⟩ := parse_ok_facts a outs hp
  rw [hc] at hd
  obtain ⟨out, hout, hdir, hsfx, houts⟩ := outputs_stack _ _ _ _ _ hd
  obtain ⟨g, hg, -, -⟩ := stack_shape o (fun _ => pad) ((l0 :: rest).map (·.data)) (by simp)
  have hallb : ((l0 :: rest).all fun l => l.elements == l0.elements) = true := by
    simp only [List.all_cons, beq_self_eq_true, Bool.true_and, List.all_eq_true, beq_iff_eq]
    exact hall
  have hst : stackLasers o pad (l0 :: rest) =
      some { elements := l0.elements, data := g, config := l0.config, calib := l0.calib } := by
    simp only [stackLasers, hallb, if_true, hg, Option.map_some]
  have hsv := save_spec { elements := l0.elements, data := g, config := l0.config, calib := l0.calib } out
    (by rw [hsfx]; exact hf)
  have hrun : run a = ⟨.ok, specFiles a.format
      { elements := l0.elements, data := g, config := l0.config, calib := l0.calib } out⟩ := by
    simp only [run, hp, hc, hin, hst, houts, hsv, hsfx]
  refine ⟨out, hout, hdir, houts, by rw [hrun],
    { elements := l0.elements, data := g, config := l0.config, calib := l0.calib }, rfl, rfl, rfl, hg, ?_⟩
  rw [hrun]
  exact written_of_specFiles _ _ _ _ (fun f hf' => ⟨f, hf', FileEq.refl f⟩)

/-- **Nothing else is written**: the paths of the files a run leaves behind are exactly the paths
the specification names, in the same order (so the three theorems above describe every file). -/
theorem run_paths (a : Args)
    (hnd : ∀ f sel, a.cmd = .filter f sel → ∀ i ∈ a.inputs, i.laser.elements.Nodup)
    (hsel : ∀ f s, a.cmd = .filter f (some s) → s.Nodup) :
    (run a).files.map (·.path) = (specRun a).files.map (·.path) :=
  FilesEq.paths (run_refines_spec a hnd hsel).2

/-! ## the whole command line, from the paths on -/

/-- **`main` from the paths on refines the specification.**  For every command line — every kind of
input path and every behaviour of the library predicates and loaders (`Source`), `--calibrate`, and
everything `run_refines_spec` covers — `main` as the code runs (`check_exists`; `load` of every input
in order with its dispatch, fallbacks and configuration overlay; `ValueError` caught into
`parser.error`, other exceptions fatal; `--calibrate` not implemented; then the run proper) leaves
what the specification says: the images the TABLE's loaders deliver under the configuration RULE,
processed and written as `specRun` says; a missing or unsupported or unreadable input, or
`--calibrate`, is an error that writes nothing.  Hypotheses as in `run_refines_spec`, on the
loaded images (only for `filter`). -/
theorem main_refines_spec (c : CmdLine)
    (hnd : ∀ f sel, c.cmd = .filter f sel → ∀ ls, c.sources.mapM (loadSpec c.defaults) = .ok ls →
      ∀ x ∈ ls, x.2.elements.Nodup)
    (hsel : ∀ f s, c.cmd = .filter f (some s) → s.Nodup) :
    RunEq (mainRun c) (specMain c) := by
  have e : loadMech c.defaults = loadSpec c.defaults := funext (load_eq_spec c.defaults)
  unfold mainRun specMain mainWith
  rw [e]
  split
  · exact RunEq.refl _
  · cases hl : c.sources.mapM (loadSpec c.defaults) with
    | error e => exact RunEq.refl _
    | ok ls =>
      simp only
      split
      · exact RunEq.refl _
      · apply run_refines_spec
        · intro f sel hcmd i hi
          simp only [CmdLine.args, List.mem_map] at hi
          obtain ⟨x, hx, rfl⟩ := hi
          exact hnd f sel hcmd ls hl x.2 (List.of_mem_zip hx).2
        · exact hsel


/-! ### non-vacuity of the whole-run theorems: concrete runs, evaluated -/
namespace Ex

/-! `filter R/a.npz R/in/b.csv --format .npz --elements B C` over a 1x2 image with elements A, B and
a 2x1 image with elements B, C; the filter of input `k` adds `10 (k + 1)`; no `--output`.  B is
filtered in both, C only where it exists, A is untouched. -/
def exA : Laser := { elements := ["A", "B"], data := ⟨1, 2, fun _ j n => if n = "A" then 1 + j else 3 + j⟩, config := .raster 1 2 3 }
def exB : Laser := { elements := ["B", "C"], data := ⟨2, 1, fun i _ n => if n = "B" then 5 + i else 7 + i⟩, config := .spot 4 5 }
def exF : Nat → String → Grid Tok → Grid Tok := fun k _ g => { g with get := fun i j => g.get i j + 10 * (k + 1) }
def exFilter : Args :=
  { cmd := .filter exF (some ["B", "C"]),
    inputs := [⟨⟨"R", "a", ".npz"⟩, true, exA⟩, ⟨⟨"R/in", "b", ".csv"⟩, true, exB⟩],
    format := ".npz", output := none, isDir := fun _ => false }

example : (run exFilter).status = .ok := by decide
example : (run exFilter).files.map (·.path) = [⟨"R", "a", ".npz"⟩, ⟨"R/in", "b", ".npz"⟩] := by decide
example : (run exFilter).files.map (fun f => match f.content with
      | .npz l => [l.data.get 0 0 "A", l.data.get 0 0 "B", l.data.get 0 0 "C"]
      | _ => []) = [[1, 13, 3], [7, 25, 27]] := by decide

example : RunEq (run exFilter) (specRun exFilter) :=
  run_refines_spec exFilter
    (by intro f sel _ i hi
        simp only [exFilter, List.mem_cons, List.not_mem_nil, or_false] at hi
        rcases hi with rfl | rfl <;> decide)
    (by intro f s h
        simp only [exFilter, Cmd.filter.injEq, Option.some.injEq] at h
        rw [← h.2]; decide)

/-! `stack R/a.npz R/b.npz R/c.npz --output R/out.NPZ --pad -1` over images of shapes 1x2, 2x1, 1x3,
vertically (4x3) and horizontally (2x6): elements and configuration of the first input -/
def exS1 : Laser := { elements := ["A"], data := ⟨1, 2, fun _ j _ => 10 + j⟩, config := .raster 1 2 3 }
def exS2 : Laser := { elements := ["A"], data := ⟨2, 1, fun i _ _ => 20 + i⟩, config := .spot 4 5 }
def exS3 : Laser := { elements := ["A"], data := ⟨1, 3, fun _ j _ => 30 + j⟩, config := .raster 7 8 9 }
def exStack (o : Orient) : Args :=
  { cmd := .stack o (-1),
    inputs := [⟨⟨"R", "a", ".npz"⟩, true, exS1⟩, ⟨⟨"R", "b", ".npz"⟩, true, exS2⟩, ⟨⟨"R", "c", ".npz"⟩, true, exS3⟩],
    format := ".npz", output := some ⟨"R", "out", ".NPZ"⟩, isDir := fun _ => false }

example : (run (exStack .vertical)).status = .ok := by decide
example : (run (exStack .vertical)).files.map (·.path) = [⟨"R", "out", ".NPZ"⟩] := by decide
example : (run (exStack .vertical)).files.map (fun f => match f.content with
      | .npz l => (l.data.h, l.data.w,
          (List.range l.data.h).map fun i => (List.range l.data.w).map fun j => l.data.get i j "A")
      | _ => (0, 0, [])) =
    [(4, 3, [[10, 11, -1], [20, -1, -1], [21, -1, -1], [30, 31, 32]])] := by decide
example : (run (exStack .vertical)).files.map (fun f => match f.content with
      | .npz l => some (l.elements, l.config)
      | _ => none) = [some (["A"], .raster 1 2 3)] := by decide
example : (run (exStack .horizontal)).files.map (fun f => match f.content with
      | .npz l => (l.data.h, l.data.w,
          (List.range l.data.h).map fun i => (List.range l.data.w).map fun j => l.data.get i j "A")
      | _ => (0, 0, [])) =
    [(2, 6, [[10, 11, 20, 30, 31, 32], [-1, -1, 21, -1, -1, -1]])] := by decide
example (o : Orient) : RunEq (run (exStack o)) (specRun (exStack o)) :=
  run_refines_spec (exStack o) (by intro f sel h; cases o <;> cases h) (by intro f s h; cases o <;> cases h)

/-! `convert R/a.npz R/d.npz S/c.b --format .csv --elements C A --config 7 8 9 --output R/out` (an
existing directory); `d.npz` has none of the requested elements and is skipped; one text image per
kept element, in the image's order -/
def exC : Laser := { elements := ["A", "B", "C"], data := ⟨1, 2, fun _ j n => if n = "A" then 1 + j else if n = "B" then 3 + j else 5 + j⟩, config := .raster 1 2 3 }
def exD : Laser := { elements := ["D"], data := ⟨1, 1, fun _ _ _ => 9⟩, config := .raster 1 2 3 }
def exOut : Path := ⟨"R", "out", ""⟩
def exConvert : Args :=
  { cmd := .convert (some (.raster 7 8 9)) (some ["C", "A"]),
    inputs := [⟨⟨"R", "a", ".npz"⟩, true, exC⟩, ⟨⟨"R", "d", ".npz"⟩, true, exD⟩, ⟨⟨"S", "c", ".b"⟩, true, exC⟩],
    format := ".csv", output := some exOut, isDir := fun p => p == exOut }

example : (run exConvert).status = .ok := by decide
example : (run exConvert).files.map (·.path) =
    [⟨"R/out", "a_A", ".csv"⟩, ⟨"R/out", "a_C", ".csv"⟩, ⟨"R/out", "c_A", ".csv"⟩, ⟨"R/out", "c_C", ".csv"⟩] := by decide
example : (run exConvert).files.map (fun f => match f.content with
      | .csv g => (g.h, g.w, (List.range g.h).map fun i => (List.range g.w).map fun j => g.get i j)
      | _ => (0, 0, [])) =
    [(1, 2, [[1, 2]]), (1, 2, [[5, 6]]), (1, 2, [[1, 2]]), (1, 2, [[5, 6]])] := by decide
example : RunEq (run exConvert) (specRun exConvert) :=
  run_refines_spec exConvert (by intro f sel h; cases h) (by intro f s h; cases h)
/-- an element no input has is a usage error, nothing is written -/
example : (run { exConvert with cmd := .convert none (some ["A", "Z"]) }).status = .error ∧
    (run { exConvert with cmd := .convert none (some ["A", "Z"]) }).files.length = 0 := by decide

/-- partial failure: the second of three outputs has a suffix `save` does not know -/
example :
    let work : List (Nat × Laser × Path) :=
      [(0, exC, ⟨"R", "a", ".NPZ"⟩), (1, exC, ⟨"R", "b", ".txt"⟩), (2, exC, ⟨"R", "c", ".npz"⟩)]
    (loop (.convert none none) work []).status = .error ∧
      (loop (.convert none none) work []).files.map (·.path) = [⟨"R", "a", ".NPZ"⟩] := by decide

/-! the input-by-input theorems on the three runs above -/
example : (parse exConvert).toOption = some [⟨"R/out", "a", ".csv"⟩, ⟨"R/out", "d", ".csv"⟩, ⟨"R/out", "c", ".csv"⟩] := by decide
example : ∃ outs, parse exConvert = .ok outs ∧ 2 < exConvert.inputs.length := ⟨_, rfl, by decide⟩
/-- input 2 (`S/c.b`) of the convert run: the text images of A and C in `R/out` -/
example : ∀ n ∈ ["A", "C"], ∃ f ∈ (run exConvert).files, f.path = ⟨"R/out", "c_" ++ n, ".csv"⟩ ∧
    ∃ g, f.content = .csv g ∧ GridEq g (exC.field n) := by
  obtain ⟨_, _, h⟩ := convert_output exConvert _ _ rfl _ (rfl : parse exConvert = .ok _) 2 (by decide)
  exact (h (by decide)).2.2 rfl
/-- input 1 (`R/in/b.csv`) of the filter run -/
example : ∃ f ∈ (run exFilter).files, f.path = ⟨"R/in", "b", ".npz"⟩ ∧
    ∃ m, f.content = .npz m ∧ LaserEq m (filterSpec (exF 1) (some ["B", "C"]) exB) := by
  obtain ⟨_, _, h⟩ := filter_output exFilter _ _ rfl
    (by intro i hi
        simp only [exFilter, List.mem_cons, List.not_mem_nil, or_false] at hi
        rcases hi with rfl | rfl <;> decide)
    (by intro s h; cases h; decide) _ (rfl : parse exFilter = .ok _) 1 (by decide)
  exact h.1 rfl
/-- the stack run -/
example (o : Orient) : ∃ m : Laser, m.config = .raster 1 2 3 ∧
    stack o (fun _ => -1) [exS1.data, exS2.data, exS3.data] = some m.data ∧
    ∃ f ∈ (run (exStack o)).files, f.path = ⟨"R", "out", ".NPZ"⟩ ∧ ∃ m', f.content = .npz m' ∧ LaserEq m' m := by
  obtain ⟨out, ho, _, _, _, m, _, hcfg, _, hst, hw⟩ := stack_output (exStack o) o (-1) rfl _
    (by cases o <;> rfl : parse (exStack o) = .ok [⟨"R", "out", ".NPZ"⟩]) exS1 [exS2, exS3] rfl (by decide)
  cases ho
  exact ⟨m, hcfg, hst, hw.1 rfl⟩

/-! `main` from the paths on: `stack x.B a.npz --output R/out.npz` where the batch log of `x.B` cannot be
read (the second method list delivers, scan time 7 from the loader) -/
def exLoaded : Loaded := { elements := ["A"], data := ⟨1, 2, fun _ j _ => 10 + j⟩, params := ⟨none, none, some 7⟩ }
def exSrcB : Source :=
  { path := ⟨"R", "x", ".B"⟩, present := true, isDir := true, perkinValid := false, csvValid := false,
    sniff := .valueError, info := .ok (), npz := .valueError,
    call := fun l => if l = .agilent ["acq_method_xml"] then .ok exLoaded else .valueError }
def exSrcNpz : Source :=
  { path := ⟨"R", "a", ".npz"⟩, present := true, isDir := false, perkinValid := false, csvValid := false,
    sniff := .valueError, info := .ok (), npz := .ok exS2, call := fun _ => .otherError }
def exMain (calibrate : Bool) : CmdLine :=
  { cmd := .stack .vertical (-1), calibrate := calibrate, sources := [exSrcB, exSrcNpz], format := ".npz",
    output := some ⟨"R", "out", ".npz"⟩, isDir := fun _ => false, defaults := (35, 140, 25) }
example : (mainRun (exMain false)).status = .ok := by decide
example : (mainRun (exMain false)).files.map (fun f => match f.content with
      | .npz l => some (l.elements, l.config, l.data.h, l.data.w)
      | _ => none) = [some (["A"], .raster 35 140 7, 3, 2)] := by decide
example : (mainRun (exMain true)).status = .error ∧ (mainRun (exMain true)).files.length = 0 := by decide
example (b : Bool) : RunEq (mainRun (exMain b)) (specMain (exMain b)) :=
  main_refines_spec (exMain b) (by intro f sel h; cases b <;> cases h) (by intro f s h; cases b <;> cases h)

end Ex

/-! ## storage types: stacking inputs whose fields are stored in different types -/

/-- **Stacking with storage types.**  `np.pad` holds the pad value in each input's own field types,
`np.concatenate` converts every padded input to the promoted types.  When every input's types and
the promoted types hold the pad value (`hpad`, `hout`) and the conversion to the promoted types
changes no value of any input (`hval`: promotion loses nothing — float32 or int32 beside float64,
whichever comes first), the stacked image is the specification's: every input unchanged at its
stacked position, the pad value everywhere else. -/
theorem stackT_eq_spec (C : Casting) (o : Orient) (pad : Tok) (ds : List (Grid Px × (String → DType)))
    (g : Grid Px)
    (hpad : ∀ d ∈ ds, ∀ n, C.cast (d.2 n) pad = pad)
    (hout : ∀ n, C.cast (C.promote (ds.map (·.2 n))) pad = pad)
    (hval : ∀ d ∈ ds, ∀ i j, i < d.1.h → j < d.1.w → ∀ n,
      C.cast (C.promote (ds.map (·.2 n))) (d.1.get i j n) = d.1.get i j n)
    (hs : stackT C o pad ds = some g) :
    GridEq g (stackSpec o (fun _ => pad) (ds.map (·.1))) := by
  rw [stackT_eq_map C o pad ds hpad] at hs
  cases hst : stack o (fun _ => pad) (ds.map (·.1)) with
  | none => simp [hst] at hs
  | some g0 =>
    simp only [hst, Option.map_some, Option.some.injEq] at hs
    subst hs
    obtain ⟨hh, hw, hpix⟩ := stack_eq_spec o (fun _ => pad) (ds.map (·.1)) g0 hst
    refine ⟨hh, hw, ?_⟩
    intro r c hr hc
    have hr' : r < g0.h := hr
    have hc' : c < g0.w := hc
    simp only [Grid.map]
    rw [hpix r c hr' hc']
    rcases stackSpec_pixel o (fun _ => pad) (ds.map (·.1)) r c with h | ⟨d, hd, i, j, hi, hj, h⟩
    · rw [h]
      funext n
      exact hout n
    · rw [h]
      obtain ⟨d', hd', rfl⟩ := List.mem_map.mp hd
      funext n
      exact hval d' hd' i j hi hj n

/-- the typed stack of a non-empty list succeeds (same shapes as the plain stack) -/
theorem stackT_some (C : Casting) (o : Orient) (pad : Tok) (ds : List (Grid Px × (String → DType)))
    (hne : ds ≠ []) (hpad : ∀ d ∈ ds, ∀ n, C.cast (d.2 n) pad = pad) :
    ∃ g, stackT C o pad ds = some g := by
  obtain ⟨g0, hg0, -, -⟩ := stack_shape o (fun _ : String => pad) (ds.map (·.1)) (by simpa using hne)
  exact ⟨_, by rw [stackT_eq_map C o pad ds hpad, hg0]; rfl⟩

namespace Ex
/-- two storage types: "i" holds multiples of ten only (a stand-in for an integer or float32 field), "f" everything;
joined fields are "f" as soon as one of them is -/
def exCast : Casting :=
  { cast := fun t v => if t = "i" then v / 10 * 10 else v,
    promote := fun ts => if ts.contains "f" then "f" else "i" }
def exNarrow : Grid Px × (String → DType) := (⟨1, 2, fun _ j _ => 20 + 10 * j⟩, fun _ => "i")
def exWide : Grid Px × (String → DType) := (⟨1, 1, fun _ _ _ => 25⟩, fun _ => "f")

/-- non-vacuity of `stackT_eq_spec`: a narrow input first, a wide one after it, pad value 0: all hypotheses
hold and the wide input's 25 is in the result -/
example :
    (∀ d ∈ [exNarrow, exWide], ∀ n, exCast.cast (d.2 n) 0 = 0) ∧
    (∀ n, exCast.cast (exCast.promote ([exNarrow, exWide].map (·.2 n))) 0 = 0) ∧
    (∀ d ∈ [exNarrow, exWide], ∀ i j, i < d.1.h → j < d.1.w → ∀ n,
      exCast.cast (exCast.promote ([exNarrow, exWide].map (·.2 n))) (d.1.get i j n) = d.1.get i j n) ∧
    ((stackT exCast .vertical 0 [exNarrow, exWide]).map fun g =>
      (g.h, g.w, g.get 0 0 "A", g.get 0 1 "A", g.get 1 0 "A", g.get 1 1 "A")) = some (2, 2, 20, 30, 25, 0) := by
  refine ⟨?_, ?_, ?_, by decide⟩
  · intro d hd n
    simp only [List.mem_cons, List.not_mem_nil, or_false] at hd
    rcases hd with rfl | rfl <;> simp [exCast, exNarrow, exWide]
  · intro n; simp [exCast, exNarrow, exWide]
  · intro d hd i j hi hj n
    simp only [List.mem_cons, List.not_mem_nil, or_false] at hd
    rcases hd with rfl | rfl <;> simp [exCast, exNarrow, exWide]
end Ex

/-- **Regression witness for the seeded change C20-c2** (output preallocated in the FIRST input's
types): with a narrow first input the later, wider input is not unchanged — the 25 of `exWide` comes
out as 20 — while the code as it is (`stackT`: promoted types) keeps it. -/
theorem stack_first_type_regression :
    ((stackFirstT Ex.exCast .vertical 0 [Ex.exNarrow, Ex.exWide]).map fun g => g.get 1 0 "A") = some 20 ∧
    ((stackT Ex.exCast .vertical 0 [Ex.exNarrow, Ex.exWide]).map fun g => g.get 1 0 "A") = some 25 ∧
    (stackSpec .vertical (fun _ => 0) [Ex.exNarrow.1, Ex.exWide.1]).get 1 0 "A" = 25 := by
  refine ⟨?_, ?_, ?_⟩ <;> decide

/-- `stackT_eq_spec` lifted to images (compare `stack_lasers_eq_spec`): under the three conditions on
the storage types — every input's own types hold the pad value, the promoted types hold it, and the
promotion changes no value of any input — stacking the loaded images with their types gives the
specification's image (elements, configuration and calibrations of the first input), and fails
exactly when the specification has no result. -/
theorem stack_lasers_typed_eq_spec (C : Casting) (o : Orient) (pad : Tok) (ls : List Laser)
    (ty : Nat → String → DType)
    (hpad : ∀ k, k < ls.length → ∀ n, C.cast (ty k n) pad = pad)
    (hout : ∀ n, C.cast (promotedType C ty ls.length n) pad = pad)
    (hval : ∀ k (hk : k < ls.length) i j, i < ls[k].data.h → j < ls[k].data.w → ∀ n,
      C.cast (promotedType C ty ls.length n) (ls[k].data.get i j n) = ls[k].data.get i j n) :
    match stackLasersT C o pad ((enum ls).map fun x => (x.2, ty x.1)), stackLasersSpec o pad ls with
    | some l, some l' => LaserEq l l'
    | none, none => True
    | _, _ => False := by
  change match stackLasersT C o pad (typedInputs ls ty), stackLasersSpec o pad ls with
    | some l, some l' => LaserEq l l'
    | none, none => True
    | _, _ => False
  cases ls with
  | nil => simp [typedInputs, enum, stackLasersT, stackLasersSpec]
  | cons l0 t =>
    have hall : ((typedInputs (l0 :: t) ty).all fun l => l.1.elements == l0.elements) =
        ((l0 :: t).all fun l => l.elements == l0.elements) := by
      conv_rhs => rw [← typedInputs_fst (l0 :: t) ty]
      rw [List.all_map]
      rfl
    -- the conditions, said of the list the mechanism works on
    have hpad' : ∀ d : Grid Px × (String → DType), d ∈ (typedInputs (l0 :: t) ty).map (fun l => (l.1.data, l.2)) →
        ∀ n, C.cast (d.2 n) pad = pad := by
      intro d hd n
      obtain ⟨k, hk, rfl⟩ := typedInputs_mem _ _ d hd
      exact hpad k hk n
    have hout' : ∀ n, C.cast (C.promote (((typedInputs (l0 :: t) ty).map fun l => (l.1.data, l.2)).map (·.2 n))) pad = pad := by
      intro n
      rw [typedInputs_types]
      exact hout n
    have hval' : ∀ d : Grid Px × (String → DType), d ∈ (typedInputs (l0 :: t) ty).map (fun l => (l.1.data, l.2)) →
        ∀ i j, i < d.1.h → j < d.1.w → ∀ n,
        C.cast (C.promote (((typedInputs (l0 :: t) ty).map fun l => (l.1.data, l.2)).map (·.2 n))) (d.1.get i j n)
          = d.1.get i j n := by
      intro d hd i j hi hj n
      obtain ⟨k, hk, rfl⟩ := typedInputs_mem _ _ d hd
      rw [typedInputs_types]
      exact hval k hk i j hi hj n
    obtain ⟨g, hg⟩ := stackT_some C o pad _ (by simp [typedInputs_cons]) hpad'
    have hge := stackT_eq_spec C o pad _ g hpad' hout' hval' hg
    rw [typedInputs_data] at hge
    by_cases hb : ((l0 :: t).all fun l => l.elements == l0.elements) = true
    · have hb' := hall.trans hb
      rw [typedInputs_cons] at hb' hg ⊢
      simp only [stackLasersT, stackLasersSpec, hb, hb', if_true, hg, Option.map_some]
      exact ⟨rfl, rfl, rfl, hge⟩
    · have hb' : ((typedInputs (l0 :: t) ty).all fun l => l.1.elements == l0.elements) ≠ true := by
        rw [hall]; exact hb
      rw [typedInputs_cons] at hb' ⊢
      simp only [stackLasersT, stackLasersSpec, hb, hb']
      trivial

/-- **The whole run with storage types refines the specification.**  `runT` is `main` with the
storage types of the loaded images: `filter` stores every result in its field (converted to the
field's type), `stack` holds the pad value in each input's types and converts everything to the
promoted types, `convert` moves no value.  It leaves what the specification `specRun` says — which
knows no storage types: the library filter of the loaded element, every input unchanged at its
stacked position, the pad value elsewhere — under exactly these conditions on the types
(beside `hnd` / `hsel` of `run_refines_spec`):
* `filter` (`hflt`): the element's type holds every value of the library filter's result (true of
  float fields, where the filters compute in the field's own type; false of the mean filter of an
  integer image);
* `stack` (`hstk`): every input's types and the promoted types hold the pad value (false of NaN or 2.5
  and an integer input), and the promotion changes no value of any input. -/
theorem runT_refines_spec (C : Casting) (ty : Nat → String → DType) (a : Args)
    (hnd : ∀ f sel, a.cmd = .filter f sel → ∀ i ∈ a.inputs, i.laser.elements.Nodup)
    (hsel : ∀ f s, a.cmd = .filter f (some s) → s.Nodup)
    (hflt : ∀ f sel, a.cmd = .filter f sel → ∀ k (hk : k < a.inputs.length),
      ∀ n ∈ a.inputs[k].laser.elements, ∀ i j,
        C.cast (ty k n) ((f k n (a.inputs[k].laser.field n)).get i j) = (f k n (a.inputs[k].laser.field n)).get i j)
    (hstk : ∀ o pad, a.cmd = .stack o pad →
      (∀ k, k < a.inputs.length → ∀ n, C.cast (ty k n) pad = pad) ∧
      (∀ n, C.cast (promotedType C ty a.inputs.length n) pad = pad) ∧
      (∀ k (hk : k < a.inputs.length) i j, i < a.inputs[k].laser.data.h → j < a.inputs[k].laser.data.w → ∀ n,
        C.cast (promotedType C ty a.inputs.length n) (a.inputs[k].laser.data.get i j n)
          = a.inputs[k].laser.data.get i j n)) :
    RunEq (runT C ty a) (specRun a) := by
  cases hc : a.cmd with
  | convert cfg els =>
    have : runT C ty a = run a := by simp only [runT, hc]
    rw [this]
    exact run_refines_spec a hnd hsel
  | filter f sel =>
    have : runT C ty a = run { a with cmd := .filter (storedFilter C ty f) sel } := by simp only [runT, hc]
    rw [this]
    refine RunEq.trans (run_refines_spec _ ?_ ?_) (specRun_filter_congr a f (storedFilter C ty f) sel hc ?_)
    · intro f' sel' _ i hi
      exact hnd f sel hc i hi
    · intro f' s h
      simp only [Cmd.filter.injEq] at h
      exact hsel f s (by rw [hc, h.2])
    · intro k hk
      apply filterSpec_congr
      intro n hn i j
      simp only [storedFilter, Grid.map]
      exact hflt f sel hc k hk n hn i j
  | stack o pad =>
    obtain ⟨hpad, hout, hval⟩ := hstk o pad hc
    refine RunEq.trans ?_ (run_refines_spec a hnd hsel)
    simp only [runT, run, hc]
    cases hp : parse a with
    | error e => exact RunEq.refl _
    | ok outs =>
      simp only
      have hlen : (a.inputs.map (·.laser)).length = a.inputs.length := by simp
      have h1 := stack_lasers_typed_eq_spec C o pad (a.inputs.map (·.laser)) ty
        (by intro k hk n; exact hpad k (by simpa using hk) n)
        (by intro n; rw [hlen]; exact hout n)
        (by intro k hk i j hi hj n
            have hk' : k < a.inputs.length := by simpa using hk
            simp only [List.getElem_map] at hi hj ⊢
            have e : promotedType C ty (a.inputs.map (·.laser)).length n = promotedType C ty a.inputs.length n :=
              congrArg (fun m => promotedType C ty m n) hlen
            rw [e]
            exact hval k hk' i j hi hj n)
      have h2 := stack_lasers_eq_spec o pad (a.inputs.map (·.laser))
      cases hT : stackLasersT C o pad ((enum (a.inputs.map (·.laser))).map fun x => (x.2, ty x.1)) with
      | none =>
        cases hS : stackLasersSpec o pad (a.inputs.map (·.laser)) with
        | some l' => simp [hT, hS] at h1
        | none =>
          cases hM : stackLasers o pad (a.inputs.map (·.laser)) with
          | some l => simp [hM, hS] at h2
          | none => exact RunEq.refl _
      | some lT =>
        cases hS : stackLasersSpec o pad (a.inputs.map (·.laser)) with
        | none => simp [hT, hS] at h1
        | some l' =>
          cases hM : stackLasers o pad (a.inputs.map (·.laser)) with
          | none => simp [hM, hS] at h2
          | some l =>
            simp only [hT, hS] at h1
            simp only [hM, hS] at h2
            have hle : LaserEq lT l := LaserEq.trans h1 (LaserEq.symm h2)
            cases outs with
            | nil => exact RunEq.refl _
            | cons out rest =>
              simp only
              have hsv := save_congr hle out
              cases h3 : save lT out with
              | error e =>
                cases h4 : save l out with
                | error e' => exact RunEq.refl _
                | ok fs' => simp [h3, h4] at hsv
              | ok fs =>
                cases h4 : save l out with
                | error e' => simp [h3, h4] at hsv
                | ok fs' =>
                  simp only [h3, h4] at hsv
                  exact ⟨rfl, hsv⟩

/-- **`main` from the paths on, with storage types, refines the specification**: `main_refines_spec`
for `mainRunT` — the images are the ones the table's loaders deliver, `ty k` the field types of the
image loaded for argument `k`; the conditions on the types are those of `runT_refines_spec`, said of
the loaded images. -/
theorem mainT_refines_spec (C : Casting) (ty : Nat → String → DType) (c : CmdLine)
    (hnd : ∀ f sel, c.cmd = .filter f sel → ∀ ls, c.sources.mapM (loadSpec c.defaults) = .ok ls →
      ∀ x ∈ ls, x.2.elements.Nodup)
    (hsel : ∀ f s, c.cmd = .filter f (some s) → s.Nodup)
    (hty : ∀ ls, c.sources.mapM (loadSpec c.defaults) = .ok ls → TypesHold C ty (c.args ls)) :
    RunEq (mainRunT C ty c) (specMain c) := by
  have e : loadMech c.defaults = loadSpec c.defaults := funext (load_eq_spec c.defaults)
  unfold mainRunT specMain mainWith
  rw [e]
  split
  · exact RunEq.refl _
  · cases hl : c.sources.mapM (loadSpec c.defaults) with
    | error e => exact RunEq.refl _
    | ok ls =>
      simp only
      split
      · exact RunEq.refl _
      · obtain ⟨h1, h2⟩ := hty ls hl
        apply runT_refines_spec C ty (c.args ls) _ hsel h1 h2
        intro f sel hcmd i hi
        simp only [CmdLine.args, List.mem_map] at hi
        obtain ⟨x, hx, rfl⟩ := hi
        exact hnd f sel hcmd ls hl x.2 (List.of_mem_zip hx).2

namespace Ex
/-- non-vacuity of `runT_refines_spec` / `TypesHold`: `stack` of a narrow ("i": multiples of ten) 1x2 image
over a wide 1x1 image holding 25, pad value 0 -/
def exTyped : Args :=
  { cmd := .stack .vertical 0,
    inputs := [⟨⟨"R", "a", ".npz"⟩, true, { elements := ["A"], data := exNarrow.1, config := .raster 1 2 3 }⟩,
               ⟨⟨"R", "b", ".npz"⟩, true, { elements := ["A"], data := exWide.1, config := .raster 1 2 3 }⟩],
    format := ".npz", output := some ⟨"R", "st", ".npz"⟩, isDir := fun _ => false }
def exTy : Nat → String → DType := fun k _ => if k = 0 then "i" else "f"

example : TypesHold exCast exTy exTyped := by
  refine ⟨(by intro f sel h; cases h), ?_⟩
  intro o pad h
  simp only [exTyped, Cmd.stack.injEq] at h
  obtain ⟨-, rfl⟩ := h
  refine ⟨?_, ?_, ?_⟩
  · intro k hk n
    have : k = 0 ∨ k = 1 := by simp [exTyped] at hk; omega
    rcases this with rfl | rfl <;> simp [exCast, exTy]
  · intro n; simp [exCast, exTy, exTyped, promotedType, List.range_succ]
  · intro k hk i j hi hj n
    have : k = 0 ∨ k = 1 := by simp [exTyped] at hk; omega
    rcases this with rfl | rfl <;>
      simp [exCast, exTy, exTyped, promotedType, List.range_succ, exNarrow, exWide]

example : (runT exCast exTy exTyped).files.map (fun f => match f.content with
      | .npz l => [l.data.get 0 0 "A", l.data.get 0 1 "A", l.data.get 1 0 "A", l.data.get 1 1 "A"]
      | _ => []) = [[20, 30, 25, 0]] := by decide
end Ex

/-! ## objects: every command-line argument is processed on its own -/

/-- **One object per argument.**  `main` changes the loaded images in place (`laser.config = …`,
`laser.remove(…)`, `laser.data[element] = …`).  Because `args.lasers = [load(input) for input in
args.input]` holds one fresh object per command-line argument — also when one path is named twice —
the run on objects (`runRef` with `freshRefs`) is the run on values (`run`), of which
`run_refines_spec` speaks: no argument sees what the run did to another. -/
theorem runRef_fresh (a : Args) : runRef (freshRefs a.inputs.length) a = run a := by
  unfold runRef run
  cases parse a with
  | error e => rfl
  | ok outs =>
    simp only
    cases hc : a.cmd with
    | stack o pad => rfl
    | convert cfg els =>
      simp only
      have := fresh_work (a.inputs.map (·.laser)) outs (.convert cfg els) []
      simpa using this
    | filter f sel =>
      simp only
      have := fresh_work (a.inputs.map (·.laser)) outs (.filter f sel) []
      simpa using this

namespace Ex
/-- `filter R/a.npz R/a.npz --output R/out/` (one path named twice), the filter adds 10 -/
def exTwice : Args :=
  { cmd := .filter (fun _ _ g => { g with get := fun i j => g.get i j + 10 }) none,
    inputs := [⟨⟨"R", "a", ".npz"⟩, true, exS1⟩, ⟨⟨"R", "a", ".npz"⟩, true, exS1⟩],
    format := ".npz", output := some exOut, isDir := fun p => p == exOut }
end Ex

/-- **Regression witness for the seeded change C20-c1** (a path is loaded the first time it is seen,
repeated arguments share the object): `filter a.npz a.npz` then filters the one object twice — the
file written last holds 10 + 20 where the specification (and the code as it is: a fresh object per
argument) has 10 + 10. -/
theorem shared_object_regression :
    sharedRefs (Ex.exTwice.inputs.map (·.path)) = [0, 0] ∧
    ((runRef [0, 0] Ex.exTwice).files.map fun f => match f.content with
      | .npz l => l.data.get 0 0 "A"
      | _ => 0) = [20, 30] ∧
    ((runRef (freshRefs 2) Ex.exTwice).files.map fun f => match f.content with
      | .npz l => l.data.get 0 0 "A"
      | _ => 0) = [20, 20] ∧
    ((specRun Ex.exTwice).files.map fun f => match f.content with
      | .npz l => l.data.get 0 0 "A"
      | _ => 0) = [20, 20] := by
  refine ⟨?_, ?_, ?_, ?_⟩ <;> decide

/-! ## what is on disk afterwards -/

/-- **The same files leave the same disk.**  Files are written in order and a later file replaces an
earlier one at the same path (two inputs with one derived output name; one path named twice).  Two
results with the same files (`RunEq`, as `run_refines_spec` gives for the run and the specification)
leave the same files on disk, path by path: `finalFiles` keeps, in order, exactly the files that no
later file replaces. -/
theorem final_files_eq (r r' : Result) (h : RunEq r r') :
    FilesEq (finalFiles r.files) (finalFiles r'.files) :=
  finalFiles_congr h.2

/-- `finalFiles` names every path once, … -/
theorem final_files_nodup (fs : List File) : ((finalFiles fs).map (·.path)).Nodup :=
  finalFiles_nodup fs

/-- … holds exactly the paths that were written, … -/
theorem final_files_paths (fs : List File) (p : Path) :
    p ∈ (finalFiles fs).map (·.path) ↔ p ∈ fs.map (·.path) :=
  finalFiles_paths fs p

/-- … and at each of them the content that was written LAST. -/
theorem final_files_last (fs : List File) (f : File) (hf : f ∈ finalFiles fs) :
    lastAt fs f.path = some f.content :=
  finalFiles_last fs f hf

example :
    (finalFiles (runRef (freshRefs 2) Ex.exTwice).files).map (·.path) = [⟨"R/out", "a", ".npz"⟩] := by decide

/-- **When do two derived outputs coincide?**  convert / filter with `--output` omitted: exactly
when the two inputs have the same directory and stem (`a.txt` and `a.npz` in one directory; one path
named twice); into an existing directory: exactly when they have the same stem (`s1/a.npz` and
`s2/a.npz`).  In every other case each input has its own output. -/
theorem outputs_coincide_iff (inputs : List Path) (format : String) (output : Option Path)
    (isDir : Path → Bool) (outs : List Path) (hd : ∀ o, output = some o → isDir o = true)
    (h : deriveOutputs false inputs format output isDir = .ok outs)
    (j k : Nat) (hj : j < inputs.length) (hk : k < inputs.length) :
    ∃ (hj' : j < outs.length) (hk' : k < outs.length),
      (outs[j] = outs[k] ↔
        match output with
        | none => inputs[j].dir = inputs[k].dir ∧ inputs[j].stem = inputs[k].stem
        | some _ => inputs[j].stem = inputs[k].stem) := by
  rw [outputs_spec] at h
  cases output with
  | none =>
    simp only [specOutputs, Bool.false_eq_true, if_false] at h
    cases h
    refine ⟨by simpa using hj, by simpa using hk, ?_⟩
    simp only [List.getElem_map]
    constructor
    · intro e
      have := congrArg Path.dir e
      have := congrArg Path.stem e
      simp_all
    · rintro ⟨h1, h2⟩
      cases hx : inputs[j]; cases hy : inputs[k]
      simp_all
  | some o =>
    have hdo := hd o rfl
    simp only [specOutputs, hdo, if_true, Bool.false_eq_true, if_false] at h
    cases h
    refine ⟨by simpa using hj, by simpa using hk, ?_⟩
    simp only [List.getElem_map]
    constructor
    · intro e
      have := congrArg Path.stem e
      simpa using this
    · intro h2
      simp [h2]

example :
    deriveOutputs false [⟨"R/s1", "a", ".npz"⟩, ⟨"R/s2", "a", ".txt"⟩] ".npz" (some Ex.exOut) (fun p => p == Ex.exOut)
      = .ok [⟨"R/out", "a", ".npz"⟩, ⟨"R/out", "a", ".npz"⟩] := by decide

end Pew.Cli
