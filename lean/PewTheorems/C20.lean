import PewProofs.Cli

/-! # C20 — property theorems (statements only depend on `PewModel.Cli`) -/
namespace Pew.Cli

/-! ## stacking -/

/-- Stacking any non-empty list of images — of any, differing, sizes — succeeds and gives the sum of
the sizes along the stacking axis and the largest size along the other axis. -/
theorem stack_shape {α} (o : Orient) (pad : α) (ds : List (Grid α)) (hne : ds ≠ []) :
    ∃ g, stack o pad ds = some g ∧
      g.h = (match o with
        | .vertical => (ds.map (·.h)).sum
        | .horizontal => maxOf (ds.map (·.h))) ∧
      g.w = (match o with
        | .vertical => maxOf (ds.map (·.w))
        | .horizontal => (ds.map (·.w)).sum) := by
  cases o with
  | vertical =>
    obtain ⟨g, hg, hh, hw, -⟩ := stack_vertical_full pad ds hne
    exact ⟨g, hg, hh, hw⟩
  | horizontal =>
    obtain ⟨g, hg, hh, hw, -⟩ := stack_horizontal_full pad ds hne
    exact ⟨g, hg, hh, hw⟩

/-- Vertical stacking: input `k` appears unchanged from row `h₀ + … + h_{k-1}` on, columns beyond
its own width hold the pad value. -/
theorem stack_pixel_vertical {α} (pad : α) (ds : List (Grid α)) (g : Grid α)
    (hs : stack .vertical pad ds = some g) (k : Nat) (hk : k < ds.length) (i j : Nat)
    (hi : i < ds[k].h) :
    g.get (prefixSum (ds.map (·.h)) k + i) j = if j < ds[k].w then ds[k].get i j else pad := by
  obtain ⟨g', hg', -, -, hpix⟩ := stack_vertical_full pad ds (stack_ne_nil _ _ _ _ hs)
  rw [hs] at hg'
  cases Option.some.inj hg'
  exact hpix k hk i j hi

/-- Horizontal stacking: input `k` appears unchanged from column `w₀ + … + w_{k-1}` on, rows beyond
its own height hold the pad value. -/
theorem stack_pixel_horizontal {α} (pad : α) (ds : List (Grid α)) (g : Grid α)
    (hs : stack .horizontal pad ds = some g) (k : Nat) (hk : k < ds.length) (i j : Nat)
    (hj : j < ds[k].w) :
    g.get i (prefixSum (ds.map (·.w)) k + j) = if i < ds[k].h then ds[k].get i j else pad := by
  obtain ⟨g', hg', -, -, hpix⟩ := stack_horizontal_full pad ds (stack_ne_nil _ _ _ _ hs)
  rw [hs] at hg'
  cases Option.some.inj hg'
  exact hpix k hk i j hj

/-- The stacked positions tile the stacking axis: every position below the total size lies in
exactly one input (`r = prefixSum sizes k + i` with `i < sizes[k]` has one solution), so the two
pixel theorems describe every pixel of the result. -/
theorem stack_position_unique (sizes : List Nat) (r : Nat) (hr : r < sizes.sum) :
    ∃ k i, (∃ hk : k < sizes.length, i < sizes[k] ∧ r = prefixSum sizes k + i) ∧
      ∀ k' i', (∃ hk' : k' < sizes.length, i' < sizes[k'] ∧ r = prefixSum sizes k' + i') →
        k' = k ∧ i' = i := by
  obtain ⟨k, i, hl, hk, hi, hr'⟩ := locate_some sizes r hr
  refine ⟨k, i, ⟨hk, hi, hr'⟩, ?_⟩
  rintro k' i' ⟨hk', hi', hr''⟩
  have := locate_unique sizes k' i' hk' hi'
  rw [← hr'', hl] at this
  simp only [Option.some.injEq, Prod.mk.injEq] at this
  exact ⟨this.1.symm, this.2.symm⟩

/-- The mechanism equals the specification `stackSpec` (every input unchanged at its stacked
position, the pad value everywhere else) in shape and at every pixel, both orientations, any number
of inputs of any sizes. -/
theorem stack_eq_spec {α} (o : Orient) (pad : α) (ds : List (Grid α)) (g : Grid α)
    (hs : stack o pad ds = some g) :
    g.h = (stackSpec o pad ds).h ∧ g.w = (stackSpec o pad ds).w ∧
      ∀ r c, r < g.h → c < g.w → g.get r c = (stackSpec o pad ds).get r c := by
  have hne := stack_ne_nil _ _ _ _ hs
  cases o with
  | vertical =>
    obtain ⟨g', hg', hh, hw, hpix⟩ := stack_vertical_full pad ds hne
    rw [hs] at hg'
    cases Option.some.inj hg'
    refine ⟨hh, hw, ?_⟩
    intro r c hr _
    obtain ⟨k, i, hl, hk, hi, hr'⟩ := locate_some (ds.map (·.h)) r (by omega)
    have hk' : k < ds.length := by simpa using hk
    have hi' : i < ds[k].h := by simpa using hi
    simp only [stackSpec, hl, List.getElem?_eq_getElem hk']
    rw [hr']
    exact hpix k hk' i c hi'
  | horizontal =>
    obtain ⟨g', hg', hh, hw, hpix⟩ := stack_horizontal_full pad ds hne
    rw [hs] at hg'
    cases Option.some.inj hg'
    refine ⟨hh, hw, ?_⟩
    intro r c _ hc
    obtain ⟨k, j, hl, hk, hj, hc'⟩ := locate_some (ds.map (·.w)) c (by omega)
    have hk' : k < ds.length := by simpa using hk
    have hj' : j < ds[k].w := by simpa using hj
    simp only [stackSpec, hl, List.getElem?_eq_getElem hk']
    rw [hc']
    exact hpix k hk' r j hj'

/-- Regression witness for 802513a: the earlier padding (common size and pad amount taken from the
stacking axis) cannot stack a 3x4 image over a 5x2 image — the padded widths are 6 and 2 — while
the current code does. -/
theorem stack_pad_axis_regression {α} (pad : α) (a b : Grid α)
    (ha : a.h = 3 ∧ a.w = 4) (hb : b.h = 5 ∧ b.w = 2) :
    stackOld .vertical pad [a, b] = none ∧ (stack .vertical pad [a, b]).isSome = true := by
  constructor
  · simp [stackOld, concat, vcat, Grid.pad, maxOf, ha.1, ha.2, hb.1, hb.2]
  · simp [stack, concat, vcat, Grid.pad, maxOf, ha.2, hb.2]

/-- non-vacuity: a 3x4 image over a 5x2 image; the pixel (1,1) of the second input sits at row
3 + 1, and column 3 of that row is padding -/
example :
    let a : Grid Int := { h := 3, w := 4, get := fun i j => 10 * i + j }
    let b : Grid Int := { h := 5, w := 2, get := fun i j => 100 + 10 * i + j }
    ∃ g, stack .vertical (-1) [a, b] = some g ∧ g.h = 8 ∧ g.w = 4 ∧
      g.get (prefixSum [3, 5] 1 + 1) 1 = 111 ∧ g.get 4 3 = -1 := by
  refine ⟨_, rfl, rfl, rfl, ?_, ?_⟩ <;> decide

end Pew.Cli
