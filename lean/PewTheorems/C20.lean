import PewProofs.Cli

/-! # C20 — property theorems (statements only depend on `PewModel.Cli`) -/
namespace Pew.Cli

/-! ## stacking -/

/-- Stacking any non-empty list of images — of any, differing, sizes — succeeds and gives the sum of
the sizes along the stacking axis and the largest size along the other axis. -/
theorem stack_shape {α} (o : Orient) (pad : α) (ds : List (Grid α)) (hne : ds ≠ []) :
    ∃ g, stack o pad ds = some g ∧
      g.h = (match o with
        | .vertical => (ds.map (·.h)).sum
        | .horizontal => maxOf (ds.map (·.h))) ∧
      g.w = (match o with
        | .vertical => maxOf (ds.map (·.w))
        | .horizontal => (ds.map (·.w)).sum) := by
  cases o with
  | vertical =>
    obtain ⟨g, hg, hh, hw, -⟩ := stack_vertical_full pad ds hne
    exact ⟨g, hg, hh, hw⟩
  | horizontal =>
    obtain ⟨g, hg, hh, hw, -⟩ := stack_horizontal_full pad ds hne
    exact ⟨g, hg, hh, hw⟩

/-- Vertical stacking: input `k` appears unchanged from row `h₀ + … + h_{k-1}` on, columns beyond
its own width hold the pad value. -/
theorem stack_pixel_vertical {α} (pad : α) (ds : List (Grid α)) (g : Grid α)
    (hs : stack .vertical pad ds = some g) (k : Nat) (hk : k < ds.length) (i j : Nat)
    (hi : i < ds[k].h) :
    g.get (prefixSum (ds.map (·.h)) k + i) j = if j < ds[k].w then ds[k].get i j else pad := by
  obtain ⟨g', hg', -, -, hpix⟩ := stack_vertical_full pad ds (stack_ne_nil _ _ _ _ hs)
  rw [hs] at hg'
  cases Option.some.inj hg'
  exact hpix k hk i j hi

/-- Horizontal stacking: input `k` appears unchanged from column `w₀ + … + w_{k-1}` on, rows beyond
its own height hold the pad value. -/
theorem stack_pixel_horizontal {α} (pad : α) (ds : List (Grid α)) (g : Grid α)
    (hs : stack .horizontal pad ds = some g) (k : Nat) (hk : k < ds.length) (i j : Nat)
    (hj : j < ds[k].w) :
    g.get i (prefixSum (ds.map (·.w)) k + j) = if i < ds[k].h then ds[k].get i j else pad := by
  obtain ⟨g', hg', -, -, hpix⟩ := stack_horizontal_full pad ds (stack_ne_nil _ _ _ _ hs)
  rw [hs] at hg'
  cases Option.some.inj hg'
  exact hpix k hk i j hj

/-- The stacked positions tile the stacking axis: every position below the total size lies in
exactly one input (`r = prefixSum sizes k + i` with `i < sizes[k]` has one solution), so the two
pixel theorems describe every pixel of the result. -/
theorem stack_position_unique (sizes : List Nat) (r : Nat) (hr : r < sizes.sum) :
    ∃ k i, (∃ hk : k < sizes.length, i < sizes[k] ∧ r = prefixSum sizes k + i) ∧
      ∀ k' i', (∃ hk' : k' < sizes.length, i' < sizes[k'] ∧ r = prefixSum sizes k' + i') →
        k' = k ∧ i' = i := by
  obtain ⟨k, i, hl, hk, hi, hr'⟩ := locate_some sizes r hr
  refine ⟨k, i, ⟨hk, hi, hr'⟩, ?_⟩
  rintro k' i' ⟨hk', hi', hr''⟩
  have := locate_unique sizes k' i' hk' hi'
  rw [← hr'', hl] at this
  simp only [Option.some.injEq, Prod.mk.injEq] at this
  exact ⟨this.1.symm, this.2.symm⟩

/-- The mechanism equals the specification `stackSpec` (every input unchanged at its stacked
position, the pad value everywhere else) in shape and at every pixel, both orientations, any number
of inputs of any sizes. -/
theorem stack_eq_spec {α} (o : Orient) (pad : α) (ds : List (Grid α)) (g : Grid α)
    (hs : stack o pad ds = some g) :
    g.h = (stackSpec o pad ds).h ∧ g.w = (stackSpec o pad ds).w ∧
      ∀ r c, r < g.h → c < g.w → g.get r c = (stackSpec o pad ds).get r c := by
  have hne := stack_ne_nil _ _ _ _ hs
  cases o with
  | vertical =>
    obtain ⟨g', hg', hh, hw, hpix⟩ := stack_vertical_full pad ds hne
    rw [hs] at hg'
    cases Option.some.inj hg'
    refine ⟨hh, hw, ?_⟩
    intro r c hr _
    obtain ⟨k, i, hl, hk, hi, hr'⟩ := locate_some (ds.map (·.h)) r (by omega)
    have hk' : k < ds.length := by simpa using hk
    have hi' : i < ds[k].h := by simpa using hi
    simp only [stackSpec, hl, List.getElem?_eq_getElem hk']
    rw [hr']
    exact hpix k hk' i c hi'
  | horizontal =>
    obtain ⟨g', hg', hh, hw, hpix⟩ := stack_horizontal_full pad ds hne
    rw [hs] at hg'
    cases Option.some.inj hg'
    refine ⟨hh, hw, ?_⟩
    intro r c _ hc
    obtain ⟨k, j, hl, hk, hj, hc'⟩ := locate_some (ds.map (·.w)) c (by omega)
    have hk' : k < ds.length := by simpa using hk
    have hj' : j < ds[k].w := by simpa using hj
    simp only [stackSpec, hl, List.getElem?_eq_getElem hk']
    rw [hc']
    exact hpix k hk' r j hj'

/-- Regression witness for 802513a: the earlier padding (common size and pad amount taken from the
stacking axis) cannot stack a 3x4 image over a 5x2 image — the padded widths are 6 and 2 — while
the current code does. -/
theorem stack_pad_axis_regression {α} (pad : α) (a b : Grid α)
    (ha : a.h = 3 ∧ a.w = 4) (hb : b.h = 5 ∧ b.w = 2) :
    stackOld .vertical pad [a, b] = none ∧ (stack .vertical pad [a, b]).isSome = true := by
  constructor
  · simp [stackOld, concat, vcat, Grid.pad, maxOf, ha.1, ha.2, hb.1, hb.2]
  · simp [stack, concat, vcat, Grid.pad, maxOf, ha.2, hb.2]

/-- non-vacuity: a 3x4 image over a 5x2 image; the pixel (1,1) of the second input sits at row
3 + 1, and column 3 of that row is padding -/
example :
    let a : Grid Int := { h := 3, w := 4, get := fun i j => 10 * i + j }
    let b : Grid Int := { h := 5, w := 2, get := fun i j => 100 + 10 * i + j }
    ∃ g, stack .vertical (-1) [a, b] = some g ∧ g.h = 8 ∧ g.w = 4 ∧
      g.get (prefixSum [3, 5] 1 + 1) 1 = 111 ∧ g.get 4 3 = -1 := by
  refine ⟨_, rfl, rfl, rfl, ?_, ?_⟩ <;> decide


/-! ## output paths -/

/-- The output-path derivation of the code (two `parser.error` checks, then omitted / directory /
file) equals the specification: beside every input, inside the requested directory under the input's
stem, or exactly the requested file; every other combination is a usage error (no path at all). -/
theorem outputs_spec (isStack : Bool) (inputs : List Path) (format : String) (output : Option Path)
    (isDir : Path → Bool) :
    deriveOutputs isStack inputs format output isDir =
      match specOutputs isStack inputs format output isDir with
      | some outs => .ok outs
      | none => .error .usage := by
  cases isStack <;> cases output with
  | none => simp [deriveOutputs, specOutputs, Path.withSuffix]
  | some o =>
    by_cases hd : isDir o = true
    · simp [deriveOutputs, specOutputs, hd, Path.withSuffix, Path.join]
    · simp only [Bool.not_eq_true] at hd
      by_cases hs : lower o.suffix = format <;> by_cases hl : inputs.length ≤ 1 <;>
        simp [deriveOutputs, specOutputs, hd, hs, hl]

/-- convert / filter: one output per input, in input order; beside the input when `--output` is
omitted, inside the requested existing directory, or equal to the requested file (then there is one
input and the suffix matches the format up to case). -/
theorem outputs_placed (inputs : List Path) (format : String) (output : Option Path)
    (isDir : Path → Bool) (outs : List Path) (hne : inputs ≠ [])
    (h : deriveOutputs false inputs format output isDir = .ok outs) :
    outs.length = inputs.length ∧
    ∀ k (h1 : k < outs.length) (h2 : k < inputs.length),
      match output with
      | none => outs[k].dir = inputs[k].dir ∧ outs[k].name = inputs[k].stem ++ format
      | some o =>
        if isDir o then outs[k].dir = o.full ∧ outs[k].name = inputs[k].stem ++ format
        else outs[k] = o ∧ lower o.suffix = format := by
  rw [outputs_spec] at h
  cases output with
  | none =>
    simp only [specOutputs, Bool.false_eq_true, if_false] at h
    cases h
    refine ⟨by simp, ?_⟩
    intro k h1 h2
    simp [Path.name]
  | some o =>
    by_cases hd : isDir o = true
    · simp only [specOutputs, hd, if_true, Bool.false_eq_true, if_false] at h
      cases h
      refine ⟨by simp, ?_⟩
      intro k h1 h2
      simp [hd, Path.name]
    · have hd' : isDir o = false := by simpa using hd
      by_cases hc : inputs.length ≤ 1 ∧ lower o.suffix = format
      · simp only [specOutputs, hd', Bool.false_eq_true, if_false, false_or, hc, and_self, if_true] at h
        cases h
        have hl : inputs.length = 1 := by
          have : inputs.length ≠ 0 := by simpa using hne
          omega
        refine ⟨by simp [hl], ?_⟩
        intro k h1 h2
        have : k = 0 := by simpa using h1
        subst this
        simp [hd', hc.2]
      · simp [specOutputs, hd', hc] at h

/-- stack: the single output is the requested file, which is not a directory and whose suffix
matches the format up to case. -/
theorem outputs_stack (inputs : List Path) (format : String) (output : Option Path)
    (isDir : Path → Bool) (outs : List Path)
    (h : deriveOutputs true inputs format output isDir = .ok outs) :
    ∃ o, output = some o ∧ isDir o = false ∧ lower o.suffix = format ∧ outs = [o] := by
  rw [outputs_spec] at h
  cases output with
  | none => simp [specOutputs] at h
  | some o =>
    by_cases hd : isDir o = true
    · simp [specOutputs, hd] at h
    · have hd' : isDir o = false := by simpa using hd
      by_cases hc : lower o.suffix = format
      · simp only [specOutputs, hd', Bool.false_eq_true, if_false, true_or, true_and, hc, if_true] at h
        cases h
        exact ⟨o, rfl, hd', hc, rfl⟩
      · simp [specOutputs, hd', hc] at h

/-- The rejected combinations, exactly: stack without an output file; a file for several inputs;
a file whose suffix does not match the format.  Each is an error, never a misplaced file. -/
theorem outputs_rejected_iff (isStack : Bool) (inputs : List Path) (format : String)
    (output : Option Path) (isDir : Path → Bool) :
    deriveOutputs isStack inputs format output isDir = .error .usage ↔
      match output with
      | none => isStack = true
      | some o =>
        if isDir o then isStack = true
        else (isStack = false ∧ inputs.length > 1) ∨ lower o.suffix ≠ format := by
  rw [outputs_spec]
  cases output with
  | none => cases isStack <;> simp [specOutputs]
  | some o =>
    by_cases hd : isDir o = true
    · cases isStack <;> simp [specOutputs, hd]
    · by_cases hs : lower o.suffix = format <;> by_cases hl : inputs.length ≤ 1 <;>
        cases isStack <;> simp [specOutputs, hd, hs, hl] <;> omega

/-- non-vacuity: two inputs into an existing directory; a file for two inputs is rejected -/
example :
    let a : Path := ⟨"R/in", "a", ".txt"⟩
    let b : Path := ⟨"R", "x.v2", ".NPZ"⟩
    let d : Path := ⟨"R", "out", ".d"⟩
    deriveOutputs false [a, b] ".npz" (some d) (fun p => p == d)
        = .ok [⟨"R/out.d", "a", ".npz"⟩, ⟨"R/out.d", "x.v2", ".npz"⟩] ∧
      deriveOutputs false [a, b] ".npz" (some ⟨"R", "res", ".npz"⟩) (fun p => p == d) = .error .usage ∧
      deriveOutputs true [a, b] ".npz" (some ⟨"R", "res", ".NPZ"⟩) (fun p => p == d) = .ok [⟨"R", "res", ".NPZ"⟩] := by
  refine ⟨?_, ?_, ?_⟩ <;> decide

/-! ## convert and filter -/

/-- `--config` and `--elements`: the image keeps exactly its requested elements in its own order
(data untouched), gets the explicit parameters when given, and is skipped iff nothing is left. -/
theorem restrict_spec (config : Option Cfg) (elements : Option (List String)) (l : Laser) :
    convertStep config elements l = restrictSpec config elements l := by
  cases elements with
  | none =>
    cases config <;> simp [convertStep, restrictSpec]
  | some req =>
    simp only [convertStep, restrictSpec, Laser.remove]
    cases config <;> simp only [remove_filter, Option.getD, List.length_eq_zero_iff]


/-- the property's reading of `restrict_spec`: the kept elements, their data, the skip condition -/
theorem restrict_keeps (config : Option Cfg) (req : List String) (l l' : Laser)
    (h : convertStep config (some req) l = some l') :
    l'.elements = l.elements.filter (fun e => req.contains e) ∧ (∀ e, l'.field e = l.field e) ∧
      l'.config = config.getD l.config := by
  rw [restrict_spec] at h
  simp only [restrictSpec] at h
  split at h
  · cases h
  · cases h
    exact ⟨rfl, fun _ => rfl, rfl⟩

theorem restrict_skips_iff (config : Option Cfg) (req : List String) (l : Laser) :
    convertStep config (some req) l = none ↔ ∀ e ∈ l.elements, e ∉ req := by
  rw [restrict_spec]
  simp only [restrictSpec]
  split
  · rename_i h
    simp only [List.filter_eq_nil_iff] at h
    simpa using h
  · rename_i h
    simp only [List.filter_eq_nil_iff] at h
    simpa using h

/-- non-vacuity: elements A, B, C restricted to (C, A) keeps A, C in the image's order -/
example :
    let l : Laser := { elements := ["A", "B", "C"], data := ⟨1, 1, fun _ _ _ => 0⟩, config := .raster 1 2 3 }
    (convertStep none (some ["C", "A"]) l).map (·.elements) = some ["A", "C"] ∧
      (convertStep none (some ["D"]) l).isNone = true := by
  constructor <;> decide

/-- Filtering changes only the selected elements that the image has — each becomes the filter of
the original field, whatever the order of the names — and nothing else (names, config, shape, other
fields).  Hypotheses: field names are distinct (NumPy guarantees it) and `--elements` has no
repeated name (a repeated name would be filtered twice by the loop). -/
theorem filter_only_selected (f : String → Grid Tok → Grid Tok) (sel : Option (List String)) (l : Laser)
    (hnd : l.elements.Nodup) (hsel : ∀ s, sel = some s → s.Nodup) :
    (filterStep f sel l).elements = l.elements ∧ (filterStep f sel l).config = l.config ∧
    (filterStep f sel l).data.h = l.data.h ∧ (filterStep f sel l).data.w = l.data.w ∧
    ∀ i j n, (filterStep f sel l).data.get i j n =
      if selected sel l n = true then (f n (l.field n)).get i j else l.data.get i j n := by
  have key : ∀ es : List String, es.Nodup →
      (∀ n, (n ∈ es ∧ n ∈ l.elements) ↔ selected sel l n = true) →
      (es.foldl (fstep f) l).elements = l.elements ∧ (es.foldl (fstep f) l).config = l.config ∧
      (es.foldl (fstep f) l).data.h = l.data.h ∧ (es.foldl (fstep f) l).data.w = l.data.w ∧
      ∀ i j n, (es.foldl (fstep f) l).data.get i j n =
        if selected sel l n = true then (f n (l.field n)).get i j else l.data.get i j n := by
    intro es hes hiff
    obtain ⟨h1, h2, h3, h4, h5⟩ := fold_filter f l es hes l rfl rfl rfl rfl (fun _ _ _ _ => rfl)
    refine ⟨h1, h2, h3, h4, ?_⟩
    intro i j n
    rw [h5]
    by_cases hs : selected sel l n = true
    · simp [hs, (hiff n).mpr hs]
    · have : ¬ (n ∈ es ∧ n ∈ l.elements) := fun h => hs ((hiff n).mp h)
      simp [hs, this]
  cases sel with
  | none =>
    exact key l.elements hnd (by intro n; simp [selected])
  | some s =>
    by_cases hem : s.isEmpty = true
    · have : filterStep f (some s) l = l.elements.foldl (fstep f) l := by
        simp [filterStep, hem]
      rw [this]
      exact key l.elements hnd (by intro n; simp [selected, hem])
    · have : filterStep f (some s) l = s.foldl (fstep f) l := by
        simp [filterStep, hem]
      rw [this]
      exact key s (hsel s rfl) (by intro n; simp [selected, hem]; tauto)


/-- non-vacuity: the hypotheses hold for a two-element image with `--elements B Z` (Z is requested
for another input); B is filtered, A is not -/
example :
    let l : Laser := { elements := ["A", "B"], data := ⟨1, 1, fun _ _ n => if n = "A" then 1 else 2⟩, config := .raster 1 2 3 }
    let f : String → Grid Tok → Grid Tok := fun _ g => { g with get := fun i j => g.get i j + 10 }
    l.elements.Nodup ∧ (["B", "Z"] : List String).Nodup ∧
      (filterStep f (some ["B", "Z"]) l).data.get 0 0 "B" = 12 ∧
      (filterStep f (some ["B", "Z"]) l).data.get 0 0 "A" = 1 := by
  refine ⟨by decide, by decide, by decide, by decide⟩

/-! ## saving -/

/-- `save` never fails for the three formats and writes exactly the requested path (.npz, .vtk) or
one text image per element named `<stem>_<element><suffix>` beside it (.csv). -/
theorem save_spec (l : Laser) (p : Path) (h : lower p.suffix ∈ validFormats) :
    save l p = .ok (specFiles (lower p.suffix) l p) := by
  simp only [validFormats, List.mem_cons, List.not_mem_nil, or_false] at h
  rcases h with h | h | h <;> simp [save, specFiles, h, Path.withStem] <;> rfl

example : lower (⟨"R", "res", ".NPZ"⟩ : Path).suffix ∈ validFormats := by decide

/-! ## the whole run -/

/-- Never a misplaced file: when the arguments are rejected nothing is written and the run fails;
otherwise every file the run writes — whatever the command, also when it stops part way — is one of
the derived outputs (see `outputs_placed` / `outputs_stack` for where those are) or one of its
per-element text images `<stem>_<element><suffix>` beside it. -/
theorem run_placed (a : Args) :
    match parse a with
    | .error _ => (run a).status = .error ∧ (run a).files = []
    | .ok outs => ∀ f ∈ (run a).files, ∃ o ∈ outs, placedAt f o := by
  cases hp : parse a with
  | error e => simp [run, hp]
  | ok outs =>
    simp only
    have hloop : ∀ cmd, ∀ f ∈ (loop cmd (enum ((a.inputs.map (·.laser)).zip outs)) []).files,
        ∃ o ∈ outs, placedAt f o := by
      intro cmd
      apply loop_placed cmd outs
      · intro x hx
        have h1 := (List.of_mem_zip hx).2
        exact (List.of_mem_zip h1).2
      · simp
    unfold run
    rw [hp]
    cases hc : a.cmd with
    | convert cfg els => simpa [hc] using hloop (.convert cfg els)
    | filter f sel => simpa [hc] using hloop (.filter f sel)
    | stack o pad =>
      simp only
      cases hs : stackLasers o pad (a.inputs.map (·.laser)) with
      | none => simp
      | some l =>
        cases outs with
        | nil => simp
        | cons out rest =>
          simp only
          cases hsv : save l out with
          | error e => simp
          | ok fs =>
            intro f hf
            exact ⟨out, by simp, save_placed l out fs hsv f hf⟩

end Pew.Cli
