import PewProofs.Filters

/-! # C13 — property theorems (statements only depend on `PewModel.Filters`) -/
namespace Pew.Filters

/-! ## the window of an interior pixel is its true neighbourhood -/

/-- 1-D, any pad statistic: the window of a pixel at least `h` from both ends contains no padded
value — it is `x[i-h .. i+h]`. -/
theorem interior_window1 (stat : List Rat → Rat) (h i : Nat) (x : List Rat)
    (hi : h ≤ i) (hn : i + h < x.length) :
    slice i (2 * h + 1) (pad1 stat h x) = slice (i - h) (2 * h + 1) x :=
  slice_padEnds_interior h (2 * h + 1) i _ _ x hi (by omega)

example : slice 2 5 (pad1 mean 2 [1, 2, 3, 4, 5, 6]) = [1, 2, 3, 4, 5] := by decide

/-- 2-D, independent odd window sizes, the axis order of the code (rows are axis 0): the window of
a pixel at least `(h0, h1)` from the borders is rows `i-h0..i+h0`, columns `j-h1..j+h1` of `x`. -/
theorem interior_window2 (stat : List Rat → Rat) (h0 h1 i j n1 : Nat) (x : List (List Rat))
    (hrect : ∀ r ∈ x, r.length = n1)
    (hi : h0 ≤ i) (hn : i + h0 < x.length) (hj : h1 ≤ j) (hm : j + h1 < n1) :
    window2 i j (2 * h0 + 1) (2 * h1 + 1) (pad2 stat h0 h1 x)
      = (slice (i - h0) (2 * h0 + 1) x).map (slice (j - h1) (2 * h1 + 1)) := by
  unfold window2 pad2
  rw [slice_map, slice_padEnds_interior h0 (2 * h0 + 1) i _ _ x hi (by omega), List.map_map]
  apply List.map_congr_left
  intro r hr
  have hr' : r ∈ x := by
    unfold slice at hr
    exact List.mem_of_mem_drop (List.mem_of_mem_take hr)
  have := hrect r hr'
  simp only [Function.comp]
  exact slice_padEnds_interior h1 (2 * h1 + 1) j _ _ r hj (by omega)

example : window2 1 2 3 5 (pad2 median 1 2 [[1, 2, 3, 4, 5], [6, 7, 8, 9, 10], [11, 12, 13, 14, 15]])
    = [[1, 2, 3, 4, 5], [6, 7, 8, 9, 10], [11, 12, 13, 14, 15]] := by decide

/-! ## the masked element of window i is pixel i (every pixel, border included) -/

theorem centre_is_self1 (stat : List Rat → Rat) (h i : Nat) (x : List Rat) (hi : i < x.length) :
    (slice i (2 * h + 1) (pad1 stat h x))[h]? = some x[i] := by
  rw [getElem?_slice, if_pos (by omega)]
  unfold pad1
  rw [getElem?_padEnds, if_neg (by omega), if_pos (by omega)]
  simp [hi]

theorem centre_is_self2 (stat : List Rat → Rat) (h0 h1 i j : Nat) (x : List (List Rat))
    (hi : i < x.length) (hj : j < x[i].length) :
    ((window2 i j (2 * h0 + 1) (2 * h1 + 1) (pad2 stat h0 h1 x))[h0]?).bind (fun r => r[h1]?)
      = some (x[i][j]) := by
  unfold window2 pad2
  rw [List.getElem?_map, getElem?_slice, if_pos (by omega), List.getElem?_map, getElem?_padEnds,
    if_neg (by omega), if_pos (by omega)]
  have e : i + h0 - h0 = i := by omega
  simp only [e, List.getElem?_eq_getElem hi, Option.map_some, Option.bind_some]
  exact centre_is_self1 stat h1 j x[i] hj

/-! ## every interior pixel is the input or — exactly for outliers — the local replacement -/

/-- Mean filter, 1-D.  For a pixel at least `h` from both ends the mechanism (pad, windows, centre
mask) computes exactly the cell of the definition: deviation from the mean of the `2h+1`
neighbours, variance and mean of the `2h` neighbours without the pixel; the output is the
replacement if `(x-m)² > t²·var` and the input otherwise. -/
theorem out_cases_mean1 (h : Nat) (t : Option Rat) (x : List Rat) (i : Nat)
    (hi : h ≤ i) (hn : i + h < x.length) :
    (meanCells1 (2 * h + 1) x)[i]? = some (specMeanCell1 h x i) ∧
    (rollingMean1 (2 * h + 1) t x)[i]? =
      some (if (specMeanCell1 h x i).outlierSq t then (specMeanCell1 h x i).repl else at1 x i) := by
  have := meanCells1_interior h i x hi hn
  refine ⟨this, ?_⟩
  rw [rollingMean1, List.getElem?_map, this]
  rfl

/-- hypotheses hold for the spike at index 3 of a 7-vector, window 3 -/
example : (1 : Nat) ≤ 3 ∧ 3 + 1 < ([0, 0, 0, 9, 0, 1, 0] : List Rat).length := by decide

/-- Mean filter, 2-D, independent odd window sizes. -/
theorem out_cases_mean2 (h0 h1 n1 : Nat) (t : Option Rat) (x : List (List Rat)) (i j : Nat)
    (hrect : ∀ r ∈ x, r.length = n1)
    (hi : h0 ≤ i) (hn : i + h0 < x.length) (hj : h1 ≤ j) (hm : j + h1 < n1) :
    ((meanCells2 (2 * h0 + 1) (2 * h1 + 1) x)[i]?).bind (fun r => r[j]?)
      = some (specMeanCell2 h0 h1 x i j) ∧
    ((rollingMean2 (2 * h0 + 1) (2 * h1 + 1) t x)[i]?).bind (fun r => r[j]?) =
      some (if (specMeanCell2 h0 h1 x i j).outlierSq t then (specMeanCell2 h0 h1 x i j).repl
            else at2 x i j) := by
  have := meanCells2_interior h0 h1 i j n1 x hrect hi hn hj hm
    (interior_window2 mean h0 h1 i j n1 x hrect hi hn hj hm)
  refine ⟨this, ?_⟩
  unfold rollingMean2
  rw [List.getElem?_map]
  cases hc : (meanCells2 (2 * h0 + 1) (2 * h1 + 1) x)[i]? with
  | none => rw [hc] at this; simp at this
  | some row =>
    rw [hc] at this
    simp only [Option.bind_some] at this
    rw [Option.map_some, Option.bind_some, List.getElem?_map, this]
    rfl

example : rollingMean2 3 3 (some 1) [[0, 0, 0], [0, 9, 0], [0, 0, 0]] = [[0, 0, 0], [0, 0, 0], [0, 0, 0]] := by
  decide +kernel

/-- Median filter, 1-D.  For a pixel at least `2h` from both ends (its neighbours' windows are
unpadded too): deviation from the neighbourhood median against `t · 1.4826 ·` the median of the
neighbours' own deviations; the replacement is the neighbourhood median. -/
theorem out_cases_median1 (h : Nat) (t : Option Rat) (x : List Rat) (i : Nat)
    (hi : 2 * h ≤ i) (hn : i + 2 * h < x.length) :
    (medianCells1 (2 * h + 1) x)[i]? = some (specMedianCell1 h x i) ∧
    (rollingMedian1 (2 * h + 1) t x)[i]? =
      some (if (specMedianCell1 h x i).outlierLin t then medAt1 h x i else at1 x i) := by
  have := medianCells1_interior h i x hi hn
  refine ⟨this, ?_⟩
  rw [rollingMedian1, List.getElem?_map, this]
  rfl

example : 2 * 1 ≤ 3 ∧ 3 + 2 * 1 < ([0, 1, 0, 9, 0, 1, 0] : List Rat).length := by decide

/-! ## shape -/

theorem shape_preserved1 (h : Nat) (t : Option Rat) (x : List Rat) :
    (rollingMean1 (2 * h + 1) t x).length = x.length ∧
    (rollingMedian1 (2 * h + 1) t x).length = x.length := by
  simp [rollingMean1, rollingMedian1, meanCells1_length, medianCells1_length]

theorem shape_preserved2_mean (h0 h1 n1 : Nat) (t : Option Rat) (x : List (List Rat))
    (hrect : ∀ r ∈ x, r.length = n1) :
    (rollingMean2 (2 * h0 + 1) (2 * h1 + 1) t x).length = x.length ∧
    ∀ r ∈ rollingMean2 (2 * h0 + 1) (2 * h1 + 1) t x, r.length = n1 := by
  obtain ⟨hl, hr⟩ := meanCells2_length h0 h1 n1 x hrect
  constructor
  · simp [rollingMean2, hl]
  · intro r hr'
    simp only [rollingMean2, List.mem_map] at hr'
    obtain ⟨q, hq, rfl⟩ := hr'
    simp [hr q hq]

/-! ## an infinite threshold changes nothing -/

theorem inf_threshold_unchanged1 (h : Nat) (x : List Rat) :
    rollingMean1 (2 * h + 1) none x = x ∧ rollingMedian1 (2 * h + 1) none x = x := by
  constructor
  · have := meanCells1_x h x
    simpa [rollingMean1, Cell.outSq, Cell.outlierSq] using this
  · have := medianCells1_x h x
    simpa [rollingMedian1, Cell.outLin, Cell.outlierLin] using this

theorem inf_threshold_unchanged2_mean (h0 h1 n1 : Nat) (x : List (List Rat))
    (hrect : ∀ r ∈ x, r.length = n1) :
    rollingMean2 (2 * h0 + 1) (2 * h1 + 1) none x = x := by
  have := meanCells2_x h0 h1 n1 x hrect
  simpa [rollingMean2, Cell.outSq, Cell.outlierSq] using this

end Pew.Filters
