import PewProofs.Filters
import PewProofs.FiltersFloat
import PewProofs.FiltersArith
import PewProofs.FiltersPads
import PewProofs.FiltersHdr

/-! # C13 — property theorems (statements only depend on `PewModel.Filters`) -/
namespace Pew.Filters

/-! ## the window of an interior pixel is its true neighbourhood -/

/-- 1-D, any pad statistic: the window of a pixel at least `h` from both ends contains no padded
value — it is `x[i-h .. i+h]`. -/
theorem interior_window1 (stat : List Rat → Rat) (h i : Nat) (x : List Rat)
    (hi : h ≤ i) (hn : i + h < x.length) :
    slice i (2 * h + 1) (pad1 stat h x) = slice (i - h) (2 * h + 1) x :=
  slice_padEnds_interior h (2 * h + 1) i _ _ x hi (by omega)

example : slice 2 5 (pad1 mean 2 [1, 2, 3, 4, 5, 6]) = [1, 2, 3, 4, 5] := by decide

/-- 2-D, independent odd window sizes, the axis order of the code (rows are axis 0): the window of
a pixel at least `(h0, h1)` from the borders is rows `i-h0..i+h0`, columns `j-h1..j+h1` of `x`. -/
theorem interior_window2 (stat : List Rat → Rat) (h0 h1 i j n1 : Nat) (x : List (List Rat))
    (hrect : ∀ r ∈ x, r.length = n1)
    (hi : h0 ≤ i) (hn : i + h0 < x.length) (hj : h1 ≤ j) (hm : j + h1 < n1) :
    window2 i j (2 * h0 + 1) (2 * h1 + 1) (pad2 stat h0 h1 x)
      = (slice (i - h0) (2 * h0 + 1) x).map (slice (j - h1) (2 * h1 + 1)) :=
  window2_interior stat h0 h1 i j n1 x hrect hi hn hj hm

example : window2 1 2 3 5 (pad2 median 1 2 [[1, 2, 3, 4, 5], [6, 7, 8, 9, 10], [11, 12, 13, 14, 15]])
    = [[1, 2, 3, 4, 5], [6, 7, 8, 9, 10], [11, 12, 13, 14, 15]] := by decide

/-! ## the masked element of window i is pixel i (every pixel, border included) -/

theorem centre_is_self1 (stat : List Rat → Rat) (h i : Nat) (x : List Rat) (hi : i < x.length) :
    (slice i (2 * h + 1) (pad1 stat h x))[h]? = some x[i] := by
  rw [getElem?_slice, if_pos (by omega)]
  unfold pad1
  rw [getElem?_padEnds, if_neg (by omega), if_pos (by omega)]
  simp [hi]

theorem centre_is_self2 (stat : List Rat → Rat) (h0 h1 i j : Nat) (x : List (List Rat))
    (hi : i < x.length) (hj : j < x[i].length) :
    ((window2 i j (2 * h0 + 1) (2 * h1 + 1) (pad2 stat h0 h1 x))[h0]?).bind (fun r => r[h1]?)
      = some (x[i][j]) := by
  unfold window2 pad2
  rw [List.getElem?_map, getElem?_slice, if_pos (by omega), List.getElem?_map, getElem?_padEnds,
    if_neg (by omega), if_pos (by omega)]
  have e : i + h0 - h0 = i := by omega
  simp only [e, List.getElem?_eq_getElem hi, Option.map_some, Option.bind_some]
  exact centre_is_self1 stat h1 j x[i] hj

/-! ## the squared outlier test is the code's test -/

/-- For a threshold `t ≥ 0` and a variance `v ≥ 0`, the model's squared test `d² > t²·v` is the
code's `|d| > t·σ` with `σ = √v` (over the reals, where the standard deviation lives). -/
theorem sq_form_iff (d t v : Rat) (ht : 0 ≤ t) (hv : 0 ≤ v) :
    (|(d : ℝ)| > (t : ℝ) * Real.sqrt (v : ℝ)) ↔ d * d > t * t * v := by
  have ha : (0 : ℝ) ≤ (t : ℝ) * Real.sqrt (v : ℝ) := mul_nonneg (by exact_mod_cast ht) (Real.sqrt_nonneg _)
  have hv' : (0 : ℝ) ≤ (v : ℝ) := by exact_mod_cast hv
  have e1 : ((t : ℝ) * Real.sqrt (v : ℝ)) ^ 2 = (t : ℝ) * t * v := by
    rw [mul_pow, Real.sq_sqrt hv']; ring
  have e2 : |(d : ℝ)| ^ 2 = (d : ℝ) * d := by rw [sq_abs]; ring
  rw [gt_iff_lt, ← pow_lt_pow_iff_left₀ ha (abs_nonneg _) (two_ne_zero), e1, e2]
  constructor
  · intro h; exact_mod_cast h
  · intro h; exact_mod_cast h

/-- the variance the test is applied to is never negative -/
theorem popvar_nonneg (l : List Rat) : 0 ≤ popvar l := by
  show 0 ≤ mean (l.map (fun v => (v - mean l) * (v - mean l)))
  unfold mean
  apply div_nonneg
  · apply List.sum_nonneg
    intro v hv
    rw [List.mem_map] at hv
    obtain ⟨w, _, rfl⟩ := hv
    exact mul_self_nonneg _
  · exact Nat.cast_nonneg _

/-! ## every interior pixel is the input or — exactly for outliers — the local replacement -/

/-- Mean filter, 1-D.  For a pixel at least `h` from both ends the mechanism (pad, windows, centre
mask) computes exactly the cell of the definition: deviation from the mean of the `2h+1`
neighbours, variance and mean of the `2h` neighbours without the pixel; the output is the
replacement if `(x-m)² > t²·var` and the input otherwise. -/
theorem out_cases_mean1 (h : Nat) (t : Option Rat) (x : List Rat) (i : Nat)
    (hi : h ≤ i) (hn : i + h < x.length) :
    (meanCells1 (2 * h + 1) x)[i]? = some (specMeanCell1 h x i) ∧
    (rollingMean1 (2 * h + 1) t x)[i]? =
      some (if (specMeanCell1 h x i).outlierSq t then (specMeanCell1 h x i).repl else at1 x i) := by
  have := meanCells1_interior h i x hi hn
  refine ⟨this, ?_⟩
  rw [rollingMean1, List.getElem?_map, this]
  rfl

/-- hypotheses hold for the spike at index 3 of a 7-vector, window 3 -/
example : (1 : Nat) ≤ 3 ∧ 3 + 1 < ([0, 0, 0, 9, 0, 1, 0] : List Rat).length := by decide

/-- Mean filter, 2-D, independent odd window sizes. -/
theorem out_cases_mean2 (h0 h1 n1 : Nat) (t : Option Rat) (x : List (List Rat)) (i j : Nat)
    (hrect : ∀ r ∈ x, r.length = n1)
    (hi : h0 ≤ i) (hn : i + h0 < x.length) (hj : h1 ≤ j) (hm : j + h1 < n1) :
    ((meanCells2 (2 * h0 + 1) (2 * h1 + 1) x)[i]?).bind (fun r => r[j]?)
      = some (specMeanCell2 h0 h1 x i j) ∧
    ((rollingMean2 (2 * h0 + 1) (2 * h1 + 1) t x)[i]?).bind (fun r => r[j]?) =
      some (if (specMeanCell2 h0 h1 x i j).outlierSq t then (specMeanCell2 h0 h1 x i j).repl
            else at2 x i j) := by
  have := meanCells2_interior h0 h1 i j n1 x hrect hi hn hj hm
    (interior_window2 mean h0 h1 i j n1 x hrect hi hn hj hm)
  refine ⟨this, ?_⟩
  unfold rollingMean2
  rw [List.getElem?_map]
  cases hc : (meanCells2 (2 * h0 + 1) (2 * h1 + 1) x)[i]? with
  | none => rw [hc] at this; simp at this
  | some row =>
    rw [hc] at this
    simp only [Option.bind_some] at this
    rw [Option.map_some, Option.bind_some, List.getElem?_map, this]
    rfl

example : rollingMean2 3 3 (some 1) [[0, 0, 0], [0, 9, 0], [0, 0, 0]] = [[0, 0, 0], [0, 0, 0], [0, 0, 0]] := by
  decide +kernel

/-- Median filter, 1-D.  For a pixel at least `2h` from both ends (its neighbours' windows are
unpadded too): deviation from the neighbourhood median against `t · 1.4826 ·` the median of the
neighbours' own deviations; the replacement is the neighbourhood median. -/
theorem out_cases_median1 (h : Nat) (t : Option Rat) (x : List Rat) (i : Nat)
    (hi : 2 * h ≤ i) (hn : i + 2 * h < x.length) :
    (medianCells1 (2 * h + 1) x)[i]? = some (specMedianCell1 h x i) ∧
    (rollingMedian1 (2 * h + 1) t x)[i]? =
      some (if (specMedianCell1 h x i).outlierLin t then medAt1 h x i else at1 x i) := by
  have := medianCells1_interior h i x hi hn
  refine ⟨this, ?_⟩
  rw [rollingMedian1, List.getElem?_map, this]
  rfl

example : 2 * 1 ≤ 3 ∧ 3 + 2 * 1 < ([0, 1, 0, 9, 0, 1, 0] : List Rat).length := by decide

/-- Median filter, 2-D: pixels at least `(2·h0, 2·h1)` from the borders. -/
theorem out_cases_median2 (h0 h1 n1 : Nat) (t : Option Rat) (x : List (List Rat)) (i j : Nat)
    (hrect : ∀ r ∈ x, r.length = n1)
    (hi : 2 * h0 ≤ i) (hn : i + 2 * h0 < x.length) (hj : 2 * h1 ≤ j) (hm : j + 2 * h1 < n1) :
    ((medianCells2 (2 * h0 + 1) (2 * h1 + 1) x)[i]?).bind (fun r => r[j]?)
      = some (specMedianCell2 h0 h1 x i j) ∧
    ((rollingMedian2 (2 * h0 + 1) (2 * h1 + 1) t x)[i]?).bind (fun r => r[j]?) =
      some (if (specMedianCell2 h0 h1 x i j).outlierLin t then medAt2 h0 h1 x i j else at2 x i j) := by
  have := medianCells2_interior h0 h1 i j n1 x hrect hi hn hj hm
  refine ⟨this, ?_⟩
  unfold rollingMedian2
  rw [List.getElem?_map]
  cases hc : (medianCells2 (2 * h0 + 1) (2 * h1 + 1) x)[i]? with
  | none => rw [hc] at this; simp at this
  | some row =>
    rw [hc] at this
    simp only [Option.bind_some] at this
    rw [Option.map_some, Option.bind_some, List.getElem?_map, this]
    rfl

example : 2 * 1 ≤ 2 ∧ 2 + 2 * 1 < 5 ∧ 2 * 2 ≤ 4 ∧ 4 + 2 * 2 < 9 := by decide

/-! ## shape -/

theorem shape_preserved1 (h : Nat) (t : Option Rat) (x : List Rat) :
    (rollingMean1 (2 * h + 1) t x).length = x.length ∧
    (rollingMedian1 (2 * h + 1) t x).length = x.length := by
  simp [rollingMean1, rollingMedian1, meanCells1_length, medianCells1_length]

theorem shape_preserved2_mean (h0 h1 n1 : Nat) (t : Option Rat) (x : List (List Rat))
    (hrect : ∀ r ∈ x, r.length = n1) :
    (rollingMean2 (2 * h0 + 1) (2 * h1 + 1) t x).length = x.length ∧
    ∀ r ∈ rollingMean2 (2 * h0 + 1) (2 * h1 + 1) t x, r.length = n1 := by
  obtain ⟨hl, hr⟩ := meanCells2_length h0 h1 n1 x hrect
  constructor
  · simp [rollingMean2, hl]
  · intro r hr'
    simp only [rollingMean2, List.mem_map] at hr'
    obtain ⟨q, hq, rfl⟩ := hr'
    simp [hr q hq]

theorem shape_preserved2_median (h0 h1 n1 : Nat) (t : Option Rat) (x : List (List Rat))
    (hrect : ∀ r ∈ x, r.length = n1) :
    (rollingMedian2 (2 * h0 + 1) (2 * h1 + 1) t x).length = x.length ∧
    ∀ r ∈ rollingMedian2 (2 * h0 + 1) (2 * h1 + 1) t x, r.length = n1 := by
  obtain ⟨hl, hr⟩ := medianCells2_shape h0 h1 n1 x hrect
  constructor
  · simp [rollingMedian2, hl]
  · intro r hr'
    simp only [rollingMedian2, List.mem_map] at hr'
    obtain ⟨q, hq, rfl⟩ := hr'
    simp [hr q hq]

/-! ## an infinite threshold changes nothing -/

theorem inf_threshold_unchanged1 (h : Nat) (x : List Rat) :
    rollingMean1 (2 * h + 1) none x = x ∧ rollingMedian1 (2 * h + 1) none x = x := by
  constructor
  · have := meanCells1_x h x
    simpa [rollingMean1, Cell.outSq, Cell.outlierSq] using this
  · have := medianCells1_x h x
    simpa [rollingMedian1, Cell.outLin, Cell.outlierLin] using this

theorem inf_threshold_unchanged2_mean (h0 h1 n1 : Nat) (x : List (List Rat))
    (hrect : ∀ r ∈ x, r.length = n1) :
    rollingMean2 (2 * h0 + 1) (2 * h1 + 1) none x = x := by
  have := meanCells2_x h0 h1 n1 x hrect
  simpa [rollingMean2, Cell.outSq, Cell.outlierSq] using this

theorem inf_threshold_unchanged2_median (h0 h1 n1 : Nat) (x : List (List Rat))
    (hrect : ∀ r ∈ x, r.length = n1) :
    rollingMedian2 (2 * h0 + 1) (2 * h1 + 1) none x = x := by
  have := medianCells2_x h0 h1 n1 x hrect
  simpa [rollingMedian2, Cell.outLin, Cell.outlierLin] using this

/-! ## border pixels (in fact every pixel): the output stays within the real pixels of the window -/

/-- 1-D, both filters, every pixel `i` and every pair of bounds `L ≤ · ≤ U` that holds for the real
pixels `x[max 0 (i-h) .. i+h]` of its window: the output pixel is the input pixel or the
replacement, and in either case lies within the bounds — every padded value is a mean (median) of
real pixels of that same window, so the replacement is a mean (median) of values within the bounds. -/
theorem border_in_range1 (h : Nat) (t : Option Rat) (x : List Rat) (i : Nat) (L U : Rat)
    (h1 : 1 ≤ h) (hi : i < x.length) (hreal : ∀ v ∈ realWin1 h x i, L ≤ v ∧ v ≤ U) :
    (∃ o, (rollingMean1 (2 * h + 1) t x)[i]? = some o ∧ L ≤ o ∧ o ≤ U) ∧
    (∃ o, (rollingMedian1 (2 * h + 1) t x)[i]? = some o ∧ L ≤ o ∧ o ≤ U) := by
  have hxi : L ≤ x[i] ∧ x[i] ≤ U := by
    apply hreal
    unfold realWin1
    rw [mem_slice_iff]
    exact ⟨i, by omega, by omega, List.getElem?_eq_getElem hi⟩
  constructor
  · refine ⟨_, by rw [rollingMean1, List.getElem?_map, getElem?_meanCells1 h x i hi]; rfl, ?_⟩
    have hw := window1_in_range mean rangeStat_mean h i x L U hi hreal
    have hlen : (slice i (2 * h + 1) (pad1 mean h x)).length = 2 * h + 1 :=
      slice_length_of_le _ _ _ (by rw [pad1_length]; omega)
    simp only [Cell.outSq]
    split
    · apply mean_in_range
      · intro e
        have : ((slice i (2 * h + 1) (pad1 mean h x)).eraseIdx h).length = 0 := by rw [e]; rfl
        rw [List.length_eraseIdx_of_lt (by omega), hlen] at this
        omega
      · intro v hv
        exact hw v (List.mem_of_mem_eraseIdx hv)
    · exact hxi
  · refine ⟨_, by rw [rollingMedian1, List.getElem?_map, getElem?_medianCells1 h x i hi]; rfl, ?_⟩
    have hw := window1_in_range median rangeStat_median h i x L U hi hreal
    have hlen : (slice i (2 * h + 1) (pad1 median h x)).length = 2 * h + 1 :=
      slice_length_of_le _ _ _ (by rw [pad1_length]; omega)
    simp only [Cell.outLin]
    split
    · apply median_in_range _ _ _ _ hw
      intro e
      rw [e] at hlen; simp at hlen
    · exact hxi

/-- the same with the bounds the check evaluates: minimum and maximum of the real pixels -/
theorem border_in_range1_minmax (h : Nat) (t : Option Rat) (x : List Rat) (i : Nat)
    (h1 : 1 ≤ h) (hi : i < x.length) :
    (∃ o, (rollingMean1 (2 * h + 1) t x)[i]? = some o ∧
      minL (realWin1 h x i) ≤ o ∧ o ≤ maxL (realWin1 h x i)) ∧
    (∃ o, (rollingMedian1 (2 * h + 1) t x)[i]? = some o ∧
      minL (realWin1 h x i) ≤ o ∧ o ≤ maxL (realWin1 h x i)) :=
  border_in_range1 h t x i _ _ h1 hi (fun v hv => ⟨minL_le _ v hv, le_maxL _ v hv⟩)

example : realWin1 2 [5, 1, 7, 3, 9, 4] 1 = [5, 1, 7, 3] := by decide

/-- 2-D, both filters, every pixel: the same statement for the `(2·h0+1)×(2·h1+1)` window; the corner
pads are statistics of statistics of real pixels of the window. -/
theorem border_in_range2 (h0 h1 n1 : Nat) (t : Option Rat) (x : List (List Rat)) (i j : Nat) (L U : Rat)
    (hrect : ∀ r ∈ x, r.length = n1) (hh0 : 1 ≤ h0) (hi : i < x.length) (hj : j < n1)
    (hreal : ∀ v ∈ realWin2 h0 h1 x i j, L ≤ v ∧ v ≤ U) :
    (∃ o, ((rollingMean2 (2 * h0 + 1) (2 * h1 + 1) t x)[i]?).bind (fun r => r[j]?) = some o ∧ L ≤ o ∧ o ≤ U) ∧
    (∃ o, ((rollingMedian2 (2 * h0 + 1) (2 * h1 + 1) t x)[i]?).bind (fun r => r[j]?) = some o ∧ L ≤ o ∧ o ≤ U) := by
  have hlen : x[i].length = n1 := hrect _ (List.getElem_mem hi)
  have hxi : L ≤ at2 x i j ∧ at2 x i j ≤ U := by
    apply hreal
    rw [at2_eq x i j hi (by omega)]
    exact mem_realWin2 h0 h1 i j x i j x[i] _ (List.getElem?_eq_getElem hi)
      (List.getElem?_eq_getElem (by omega)) (by omega) (by omega) (by omega) (by omega)
  constructor
  · refine ⟨_, by rw [rollingMean2, getElem?_map2, getElem?_meanCells2 h0 h1 n1 x hrect i j hi hj]; rfl, ?_⟩
    have hw := window2_in_range mean rangeStat_mean h0 h1 n1 i j x hrect L U hi hj hreal
    obtain ⟨r0, e, hr0, he⟩ := window2_first_row mean h0 h1 n1 i j x hrect hi hj
    simp only [Cell.outSq]
    split
    · apply mean_in_range _ _ _ (maskCentre2_ne_nil h0 h1 _ r0 e hh0 hr0 he)
      intro v hv
      exact hw v (mem_flatten_modify_eraseIdx _ _ _ _ hv)
    · exact hxi
  · refine ⟨_, by rw [rollingMedian2, getElem?_map2, getElem?_medianCells2 h0 h1 n1 x hrect i j hi hj]; rfl, ?_⟩
    have hw := window2_in_range median rangeStat_median h0 h1 n1 i j x hrect L U hi hj hreal
    obtain ⟨r0, e, hr0, he⟩ := window2_first_row median h0 h1 n1 i j x hrect hi hj
    simp only [Cell.outLin]
    split
    · exact median_in_range _ _ _ (flatten_ne_nil_of _ r0 e hr0 he) hw
    · exact hxi

theorem border_in_range2_minmax (h0 h1 n1 : Nat) (t : Option Rat) (x : List (List Rat)) (i j : Nat)
    (hrect : ∀ r ∈ x, r.length = n1) (hh0 : 1 ≤ h0) (hi : i < x.length) (hj : j < n1) :
    (∃ o, ((rollingMean2 (2 * h0 + 1) (2 * h1 + 1) t x)[i]?).bind (fun r => r[j]?) = some o ∧
      minL (realWin2 h0 h1 x i j) ≤ o ∧ o ≤ maxL (realWin2 h0 h1 x i j)) ∧
    (∃ o, ((rollingMedian2 (2 * h0 + 1) (2 * h1 + 1) t x)[i]?).bind (fun r => r[j]?) = some o ∧
      minL (realWin2 h0 h1 x i j) ≤ o ∧ o ≤ maxL (realWin2 h0 h1 x i j)) :=
  border_in_range2 h0 h1 n1 t x i j _ _ hrect hh0 hi hj (fun v hv => ⟨minL_le _ v hv, le_maxL _ v hv⟩)

example : realWin2 1 1 [[1, 2, 3], [4, 5, 6], [7, 8, 9]] 0 2 = [2, 3, 5, 6] := by decide

/-! ## constant images come back unchanged -/

theorem constant_unchanged1 (h : Nat) (t : Option Rat) (x : List Rat) (c : Rat)
    (h1 : 1 ≤ h) (hc : ∀ v ∈ x, v = c) :
    rollingMean1 (2 * h + 1) t x = x ∧ rollingMedian1 (2 * h + 1) t x = x := by
  have key : ∀ i (hi : i < x.length),
      (rollingMean1 (2 * h + 1) t x)[i]? = some x[i] ∧ (rollingMedian1 (2 * h + 1) t x)[i]? = some x[i] := by
    intro i hi
    have hreal : ∀ v ∈ realWin1 h x i, c ≤ v ∧ v ≤ c := by
      intro v hv
      have := hc v (mem_of_mem_slice _ _ _ _ hv)
      rw [this]; exact ⟨le_refl _, le_refl _⟩
    obtain ⟨⟨o1, e1, a1, b1⟩, ⟨o2, e2, a2, b2⟩⟩ := border_in_range1 h t x i c c h1 hi hreal
    have hx : x[i] = c := hc _ (List.getElem_mem hi)
    rw [e1, e2, hx, le_antisymm b1 a1, le_antisymm b2 a2]
    exact ⟨rfl, rfl⟩
  obtain ⟨l1, l2⟩ := shape_preserved1 h t x
  constructor
  · apply List.ext_getElem l1
    intro i h1' h2'
    have := (key i h2').1
    rw [List.getElem?_eq_getElem h1'] at this
    exact Option.some.inj this
  · apply List.ext_getElem l2
    intro i h1' h2'
    have := (key i h2').2
    rw [List.getElem?_eq_getElem h1'] at this
    exact Option.some.inj this

example : ∀ v ∈ ([4, 4, 4, 4, 4] : List Rat), v = 4 := by decide

theorem constant_unchanged2 (h0 h1 n1 : Nat) (t : Option Rat) (x : List (List Rat)) (c : Rat)
    (hrect : ∀ r ∈ x, r.length = n1) (hh0 : 1 ≤ h0) (hc : ∀ r ∈ x, ∀ v ∈ r, v = c) :
    rollingMean2 (2 * h0 + 1) (2 * h1 + 1) t x = x ∧ rollingMedian2 (2 * h0 + 1) (2 * h1 + 1) t x = x := by
  have key : ∀ i j (hi : i < x.length) (hj : j < n1),
      ((rollingMean2 (2 * h0 + 1) (2 * h1 + 1) t x)[i]?).bind (fun r => r[j]?) = (x[i]?).bind (fun r => r[j]?) ∧
      ((rollingMedian2 (2 * h0 + 1) (2 * h1 + 1) t x)[i]?).bind (fun r => r[j]?) = (x[i]?).bind (fun r => r[j]?) := by
    intro i j hi hj
    have hreal : ∀ v ∈ realWin2 h0 h1 x i j, c ≤ v ∧ v ≤ c := by
      intro v hv
      unfold realWin2 at hv
      rw [List.mem_flatten] at hv
      obtain ⟨R, hR, hvR⟩ := hv
      rw [List.mem_map] at hR
      obtain ⟨r, hr, rfl⟩ := hR
      have := hc r (mem_of_mem_slice _ _ _ _ hr) v (mem_of_mem_slice _ _ _ _ hvR)
      rw [this]; exact ⟨le_refl _, le_refl _⟩
    obtain ⟨⟨o1, e1, a1, b1⟩, ⟨o2, e2, a2, b2⟩⟩ := border_in_range2 h0 h1 n1 t x i j c c hrect hh0 hi hj hreal
    have hlen : x[i].length = n1 := hrect _ (List.getElem_mem hi)
    have hx : (x[i]?).bind (fun r => r[j]?) = some c := by
      rw [List.getElem?_eq_getElem hi, Option.bind_some, List.getElem?_eq_getElem (by omega)]
      exact congrArg some (hc _ (List.getElem_mem hi) _ (List.getElem_mem _))
    rw [e1, e2, hx, le_antisymm b1 a1, le_antisymm b2 a2]
    exact ⟨rfl, rfl⟩
  obtain ⟨l1, r1⟩ := shape_preserved2_mean h0 h1 n1 t x hrect
  obtain ⟨l2, r2⟩ := shape_preserved2_median h0 h1 n1 t x hrect
  have fin : ∀ (y : List (List Rat)), y.length = x.length → (∀ r ∈ y, r.length = n1) →
      (∀ i j (hi : i < x.length) (hj : j < n1),
        (y[i]?).bind (fun r => r[j]?) = (x[i]?).bind (fun r => r[j]?)) → y = x := by
    intro y hl hr hk
    apply ext_getElem?2 _ _ _ hl
    · intro i h1' h2'
      rw [hr _ (List.getElem_mem h1'), hrect _ (List.getElem_mem h2')]
    · intro i j
      by_cases hi : i < x.length
      · by_cases hj : j < n1
        · exact hk i j hi hj
        · have hi' : i < y.length := by omega
          rw [List.getElem?_eq_getElem hi, List.getElem?_eq_getElem hi', Option.bind_some, Option.bind_some,
            List.getElem?_eq_none (by rw [hr _ (List.getElem_mem hi')]; omega),
            List.getElem?_eq_none (by rw [hrect _ (List.getElem_mem hi)]; omega)]
      · rw [List.getElem?_eq_none (by omega), List.getElem?_eq_none (by omega)]
  exact ⟨fin _ l1 r1 (fun i j hi hj => (key i j hi hj).1), fin _ l2 r2 (fun i j hi hj => (key i j hi hj).2)⟩

example : ∀ r ∈ ([[4, 4, 4], [4, 4, 4], [4, 4, 4]] : List (List Rat)), ∀ v ∈ r, v = 4 := by decide

/-! ## the two "comes back unchanged" clauses as the one condition the check evaluates -/

/-- 1-D: a constant signal, or an infinite threshold: both filters return the input, every pixel of it. -/
theorem unchanged_clause1 (h : Nat) (t : Option Rat) (x : List Rat) (h1 : 1 ≤ h)
    (hu : mustBeUnchanged t x = true) :
    rollingMean1 (2 * h + 1) t x = x ∧ rollingMedian1 (2 * h + 1) t x = x := by
  cases t with
  | none => exact inf_threshold_unchanged1 h x
  | some t =>
    simp only [mustBeUnchanged, Option.isNone_some, Bool.false_or] at hu
    exact constant_unchanged1 h (some t) x (x.headD 0) h1 (allEq_spec x hu)

example : mustBeUnchanged (some 0) [1 / 3, 1 / 3, 1 / 3, 1 / 3] = true ∧ mustBeUnchanged none [1, 2, 7] = true := by
  decide +kernel

/-- 2-D (the image given by its rows, the condition evaluated on the row-major pixel list). -/
theorem unchanged_clause2 (h0 h1 n1 : Nat) (t : Option Rat) (x : List (List Rat))
    (hrect : ∀ r ∈ x, r.length = n1) (hh0 : 1 ≤ h0) (hu : mustBeUnchanged t x.flatten = true) :
    rollingMean2 (2 * h0 + 1) (2 * h1 + 1) t x = x ∧ rollingMedian2 (2 * h0 + 1) (2 * h1 + 1) t x = x := by
  cases t with
  | none =>
    exact ⟨inf_threshold_unchanged2_mean h0 h1 n1 x hrect, inf_threshold_unchanged2_median h0 h1 n1 x hrect⟩
  | some t =>
    simp only [mustBeUnchanged, Option.isNone_some, Bool.false_or] at hu
    refine constant_unchanged2 h0 h1 n1 (some t) x (x.flatten.headD 0) hrect hh0 ?_
    intro r hr v hv
    exact allEq_spec _ hu v (List.mem_flatten.mpr ⟨r, hr, hv⟩)

example : mustBeUnchanged (some 3) ([[1 / 10, 1 / 10, 1 / 10], [1 / 10, 1 / 10, 1 / 10]] : List (List Rat)).flatten = true := by
  decide +kernel

/-! ## interior pixels do not depend on how the border is padded

`np.pad` rounds the pad values of an integer image to integers (half to even) before the windows are
cut; the model's `meanCellsP*` / `medianCellsP*` take the pad statistic as a parameter (`π = rint ∘ mean`
for integer images; `meanCells*` / `medianCells*` are the instances with the exact statistic).  Whatever
the pad statistic, the cell of an interior pixel is the cell of the definition. -/

theorem cells_are_P (b b0 b1 : Nat) (x : List Rat) (y : List (List Rat)) :
    meanCells1 b x = meanCellsP1 mean b x ∧ meanCells2 b0 b1 y = meanCellsP2 mean b0 b1 y ∧
    medianCells1 b x = medianCellsP1 median median b x ∧
    medianCells2 b0 b1 y = medianCellsP2 median median b0 b1 y := ⟨rfl, rfl, rfl, rfl⟩

theorem interior_any_pad_mean1 (π : List Rat → Rat) (h : Nat) (x : List Rat) (i : Nat)
    (hi : h ≤ i) (hn : i + h < x.length) :
    (meanCellsP1 π (2 * h + 1) x)[i]? = some (specMeanCell1 h x i) := by
  have hlt : i < x.length := by omega
  have hw : slice i (2 * h + 1) (pad1 π h x) = slice (i - h) (2 * h + 1) x :=
    slice_padEnds_interior h (2 * h + 1) i _ _ x hi (by omega)
  unfold meanCellsP1
  rw [getElem?_cellsG1 π _ h x i hlt, hw, half_odd, slice_centre h i x hi hlt,
    eraseIdx_centre _ _ _ h (slice_length_of_le _ _ _ (by omega))]
  simp [specMeanCell1, meanCell, at1_eq x i hlt]

/-- pixel 2 of a six-sample integer signal, window 5 -/
example : (2 : Nat) ≤ 2 ∧ 2 + 2 < ([1, 2, 4, 7, 5, 3] : List Rat).length := by decide

theorem interior_any_pad_mean2 (π : List Rat → Rat) (h0 h1 n1 : Nat) (x : List (List Rat)) (i j : Nat)
    (hrect : ∀ r ∈ x, r.length = n1)
    (hi : h0 ≤ i) (hn : i + h0 < x.length) (hj : h1 ≤ j) (hm : j + h1 < n1) :
    ((meanCellsP2 π (2 * h0 + 1) (2 * h1 + 1) x)[i]?).bind (fun r => r[j]?)
      = some (specMeanCell2 h0 h1 x i j) := by
  unfold meanCellsP2
  rw [getElem?_cellsG2 π _ h0 h1 n1 x hrect i j (by omega) (by omega), half_odd, half_odd,
    window2_interior π h0 h1 i j n1 x hrect hi hn hj hm,
    maskCentre2_interior h0 h1 i j n1 x hrect hi hn hj hm]
  rfl

/-- pixel (1, 2) of a 3×5 image, window 3×5 -/
example : (∀ r ∈ ([[1, 2, 3, 4, 5], [6, 7, 8, 9, 10], [11, 12, 13, 14, 15]] : List (List Rat)), r.length = 5) ∧
    (1 : Nat) ≤ 1 ∧ 1 + 1 < 3 ∧ (2 : Nat) ≤ 2 ∧ 2 + 2 < 5 := by decide

/-- the rounded pad of an integer image: the window of pixel 1 of `[1, 2, 4, 7, 5, 3]` (window 5) starts
with the pad value `rint (3/2) = 2`, the exact model has `3/2` there; pixel 2 sees neither -/
example : (slice 1 5 (pad1 (fun l => rint (mean l)) 2 [1, 2, 4, 7, 5, 3])).head? = some 2 ∧
    (slice 1 5 (pad1 mean 2 [1, 2, 4, 7, 5, 3])).head? = some (3 / 2) ∧
    rint (5 / 2) = 2 ∧ rint (7 / 2) = 4 ∧ rint (-5 / 2) = -2 := by decide +kernel

theorem interior_any_pad_median1 (π1 π2 : List Rat → Rat) (h : Nat) (x : List Rat) (i : Nat)
    (hi : 2 * h ≤ i) (hn : i + 2 * h < x.length) :
    (medianCellsP1 π1 π2 (2 * h + 1) x)[i]? = some (specMedianCell1 h x i) :=
  medianCellsP1_interior π1 π2 h i x hi hn

theorem interior_any_pad_median2 (π1 π2 : List Rat → Rat) (h0 h1 n1 : Nat) (x : List (List Rat)) (i j : Nat)
    (hrect : ∀ r ∈ x, r.length = n1)
    (hi : 2 * h0 ≤ i) (hn : i + 2 * h0 < x.length) (hj : 2 * h1 ≤ j) (hm : j + 2 * h1 < n1) :
    ((medianCellsP2 π1 π2 (2 * h0 + 1) (2 * h1 + 1) x)[i]?).bind (fun r => r[j]?)
      = some (specMedianCell2 h0 h1 x i j) :=
  medianCellsP2_interior π1 π2 h0 h1 i j n1 x hrect hi hn hj hm

example : 2 * 1 ≤ 2 ∧ 2 + 2 * 1 < ([3, 1, 4, 1, 5] : List Rat).length := by decide
example : 2 * 1 ≤ 2 ∧ 2 + 2 * 1 < 5 ∧ 2 * 2 ≤ 4 ∧ 4 + 2 * 2 < 9 := by decide

/-! ## the constant clause for every arithmetic

`constant_unchanged*` is about exact arithmetic.  What survives in any arithmetic: the mean filter is
an instance of `rollingG*` (pad statistic, masked mean and outlier decision left open), and `rollingG*`
returns a constant image unchanged as soon as pad statistic and masked mean return `c` for up to
`b0·b1` copies of `c` — whatever the outlier decision, hence for every threshold and every way of
computing window mean and spread. -/

theorem rollingMean1_is_G (b : Nat) (t : Option Rat) (x : List Rat) :
    rollingMean1 b t x
      = rollingG1 mean mean (fun xi w => (meanCell xi w (w.eraseIdx (b / 2))).outlierSq t) b x := by
  unfold rollingMean1 meanCells1 rollingG1 cellsG1
  rw [List.map_zipWith]
  rfl

theorem rollingMean2_is_G (b0 b1 : Nat) (t : Option Rat) (x : List (List Rat)) :
    rollingMean2 b0 b1 t x
      = rollingG2 mean mean
          (fun xi w => (meanCell xi w.flatten (maskCentre2 (b0 / 2) (b1 / 2) w)).outlierSq t) b0 b1 x := by
  unfold rollingMean2 meanCells2 rollingG2 cellsG2
  rw [List.map_zipWith]
  congr 1
  funext row wrow
  rw [List.map_zipWith]
  rfl

/-- 1-D.  `N` bounds the number of copies the two statistics must get right; a window has `2h+1`. -/
theorem constant_unchanged_any_arithmetic1 (π μm : List Rat → Rat) (dec : Rat → List Rat → Bool)
    (N h : Nat) (x : List Rat) (c : Rat) (h1 : 1 ≤ h) (hN : 2 * h + 1 ≤ N)
    (hπ : ∀ l : List Rat, l ≠ [] → l.length ≤ N → (∀ v ∈ l, v = c) → π l = c)
    (hμ : ∀ l : List Rat, l ≠ [] → l.length ≤ N → (∀ v ∈ l, v = c) → μm l = c)
    (hc : ∀ v ∈ x, v = c) : rollingG1 π μm dec (2 * h + 1) x = x :=
  rollingG1_const π μm dec N h x c h1 hN hπ hμ hc

/-- the exact mean is such a statistic (so `constant_unchanged1` for the mean filter is the instance
`π = μm = mean`), for every `N` -/
example (N : Nat) (c : Rat) : ∀ l : List Rat, l ≠ [] → l.length ≤ N → (∀ v ∈ l, v = c) → mean l = c :=
  fun l hne _ h => mean_const l c hne h

/-- 2-D; `1 ≤ n1`: the image has at least one column (the quantifier grants a whole window). -/
theorem constant_unchanged_any_arithmetic2 (π μm : List Rat → Rat) (dec : Rat → List (List Rat) → Bool)
    (N h0 h1 n1 : Nat) (x : List (List Rat)) (c : Rat) (hrect : ∀ r ∈ x, r.length = n1) (hh0 : 1 ≤ h0)
    (hn1 : 1 ≤ n1) (hN : (2 * h0 + 1) * (2 * h1 + 1) ≤ N)
    (hπ : ∀ l : List Rat, l ≠ [] → l.length ≤ N → (∀ v ∈ l, v = c) → π l = c)
    (hμ : ∀ l : List Rat, l ≠ [] → l.length ≤ N → (∀ v ∈ l, v = c) → μm l = c)
    (hc : ∀ r ∈ x, ∀ v ∈ r, v = c) : rollingG2 π μm dec (2 * h0 + 1) (2 * h1 + 1) x = x :=
  rollingG2_const π μm dec N h0 h1 n1 x c hrect hh0 hn1 hN hπ hμ hc

/-- a 3×5 window on a 4×6 image of 1/3, statistics required to be right for up to 15 copies -/
example : (∀ r ∈ (List.replicate 4 (List.replicate 6 (1 / 3)) : List (List Rat)), r.length = 6) ∧
    (2 * 1 + 1) * (2 * 2 + 1) ≤ 15 ∧ (∀ r ∈ (List.replicate 4 (List.replicate 6 (1 / 3)) : List (List Rat)), ∀ v ∈ r, v = 1 / 3) := by
  refine ⟨?_, by decide, ?_⟩
  · intro r hr; rw [List.eq_of_mem_replicate hr]; simp
  · intro r hr v hv; rw [List.eq_of_mem_replicate hr] at hv; exact List.eq_of_mem_replicate hv

/-- Rounded arithmetic, 1-D.  `fl` any rounding function that returns the numbers of the binary format
(`p` significand bits, least exponent `emin`) unchanged; means are computed left to right with every
addition and the division rounded (`flMean fl`); `dec` any outlier decision.  If all partial sums `j·c`,
`j ≤ 2h+1`, are numbers of the format, the constant signal `c` comes back unchanged. -/
theorem constant_unchanged_rounded1 (fl : Rat → Rat) (p : Nat) (emin : Int) (dec : Rat → List Rat → Bool)
    (h : Nat) (x : List Rat) (c : Rat) (h1 : 1 ≤ h) (hfl : ∀ q, isBin p emin q = true → fl q = q)
    (hs : sumsExact p emin (2 * h + 1) c = true) (hc : ∀ v ∈ x, v = c) :
    rollingG1 (flMean fl) (flMean fl) dec (2 * h + 1) x = x :=
  rollingG1_const _ _ dec (2 * h + 1) h x c h1 (le_refl _)
    (flMean_fixesConst fl p emin _ c hfl hs) (flMean_fixesConst fl p emin _ c hfl hs) hc

/-- binary64, window 7: `5/4` qualifies, `1/10` (as the double nearest to it) does not -/
example : sumsExact 53 (-1074) (2 * 3 + 1) (5 / 4) = true ∧
    sumsExact 53 (-1074) (2 * 3 + 1) (3602879701896397 / 36028797018963968) = false := by decide +kernel

/-- Rounded arithmetic, 2-D, partial sums up to `(2h0+1)(2h1+1)` copies. -/
theorem constant_unchanged_rounded2 (fl : Rat → Rat) (p : Nat) (emin : Int)
    (dec : Rat → List (List Rat) → Bool) (h0 h1 n1 : Nat) (x : List (List Rat)) (c : Rat)
    (hrect : ∀ r ∈ x, r.length = n1) (hh0 : 1 ≤ h0) (hn1 : 1 ≤ n1)
    (hfl : ∀ q, isBin p emin q = true → fl q = q)
    (hs : sumsExact p emin ((2 * h0 + 1) * (2 * h1 + 1)) c = true) (hc : ∀ r ∈ x, ∀ v ∈ r, v = c) :
    rollingG2 (flMean fl) (flMean fl) dec (2 * h0 + 1) (2 * h1 + 1) x = x :=
  rollingG2_const _ _ dec _ h0 h1 n1 x c hrect hh0 hn1 (le_refl _)
    (flMean_fixesConst fl p emin _ c hfl hs) (flMean_fixesConst fl p emin _ c hfl hs) hc

/-- hypotheses met: binary64, a 7×7 window, `c = 5/4`; a crude rounding that is exact on the format -/
example : sumsExact 53 (-1074) ((2 * 3 + 1) * (2 * 3 + 1)) (5 / 4) = true ∧
    (∀ q, isBin 53 (-1074) q = true → (fun q => if isBin 53 (-1074) q then q else 0) q = q) := by
  refine ⟨by decide +kernel, fun q hq => by simp [hq]⟩

/-! ## float level: why a constant image of a non-dyadic value does not come back bit for bit

The theorems above are about exact arithmetic.  pewlib computes in binary floating point, where the
mean of `n` copies of `c` need not be `c`.  Two statements about every rounded evaluation (any order
of summation; `fl` is the rounding function) and kernel-evaluated witnesses for binary64. -/

/-- Bound.  Under the standard model of floating-point arithmetic with unit roundoff `u`, whatever a
rounded evaluation makes of a window mean of a constant image (weight 1: pads, window mean, masked
window mean; depth at most `E` roundings) is within `((1+u)^E − 1)·|c|` of `c`.  The correspondence
check accepts a changed constant image as the known finding only inside this bound
(`E = h0 + h1 + b0·b1`, `u = 2⁻⁵³`). -/
theorem rounded_mean_of_constant_within_bound (fl : Rat → Rat) (u c : Rat) (hu : 0 ≤ u)
    (hfl : ∀ x, |fl x - x| ≤ u * |x|) (e : FExpr) (E : Nat) (hw : e.weight = 1) (hd : e.depth ≤ E) :
    |e.eval fl c - c| ≤ constBound u E c := by
  have h := FExpr.eval_bound fl u c hu hfl e
  rw [hw, one_mul, one_mul] at h
  unfold constBound
  rw [absR_eq_abs]
  exact h.trans (mul_le_mul_of_nonneg_right (FExpr.pow_sub_one_mono u hu hd) (abs_nonneg c))

/-- the hypotheses are met by a rounding that really errs (it inflates every value by `u`), the mean of
seven copies added left to right and the bound the check uses for a 1-D window of 7 -/
example : (∀ x : Rat, |(x + (1 / 2 ^ 53) * x) - x| ≤ (1 / 2 ^ 53) * |x|) ∧
    (FExpr.divn (FExpr.seqSum 7) 7).weight = 1 ∧ (FExpr.divn (FExpr.seqSum 7) 7).depth ≤ 3 + 7 := by
  refine ⟨fun x => ?_, by decide +kernel, by decide⟩
  have : x + (1 / 2 ^ 53) * x - x = (1 / 2 ^ 53) * x := by ring
  rw [this, abs_mul, abs_of_pos (by positivity)]

/-- Exactness.  A rounding function that leaves the numbers of the format alone returns `c` for every
window mean of a constant image whose partial sums `j·c`, `j ≤ N`, are all numbers of the format
(dyadic constants of few bits): such an image must come back bit for bit also from a float
implementation, at every threshold.  The check demands exactly that (`sums_exact` of `c13.constinfo`). -/
theorem rounded_mean_of_constant_exact (fl : Rat → Rat) (p : Nat) (emin : Int) (N : Nat) (c : Rat)
    (hfl : ∀ q, isBin p emin q = true → fl q = q) (hs : sumsExact p emin N c = true)
    (e : FExpr) (he : e.wf N = true) (hw : e.weight = 1) : e.eval fl c = c := by
  rw [FExpr.eval_exact fl p emin N c hfl hs e he, hw, one_mul]

/-- met by `c = 5/4`, windows of up to 49 values, binary64; `1/10` is not such a constant -/
example : sumsExact 53 (-1074) 49 (5 / 4) = true ∧ (FExpr.divn (FExpr.seqSum 7) 7).wf 49 = true ∧
    sumsExact 53 (-1074) 49 (1 / 10) = false ∧ isBin 53 (-1074) (3602879701896397 / 36028797018963968) = true := by
  decide +kernel

/-- Witness (binary64, NumPy's order of evaluation, evaluated by the kernel): the mean filter with
window 7 and threshold 0 returns fifteen copies of `0.1` (`0x3FB999999999999A`) as fifteen copies of
`0.10000000000000002` — every pixel one unit in the last place up.  Known finding
`C13-constant-image-rounding`; pewlib returns these very bits (targeted case `witness`). -/
theorem f64_mean_changes_constant :
    F64.bits (List.replicate 15 0.1) = List.replicate 15 0x3FB999999999999A ∧
    F64.bits (F64.rollingMean1 7 0.0 (List.replicate 15 0.1)) = List.replicate 15 0x3FB999999999999B := by
  decide +kernel

/-- the same signal: threshold 1 changes the three pixels at either end (their windows hold pad values,
themselves rounded means), an infinite threshold changes nothing, the median filter changes nothing,
and windows 3 and 5 change nothing (their masked sums `2c`, `4c` are exact) -/
theorem f64_same_signal_otherwise :
    F64.bits (F64.rollingMean1 7 1.0 (List.replicate 15 0.1))
      = List.replicate 3 0x3FB999999999999B ++ List.replicate 9 0x3FB999999999999A ++ List.replicate 3 0x3FB999999999999B ∧
    F64.bits (F64.rollingMean1 7 (1.0 / 0.0) (List.replicate 15 0.1)) = F64.bits (List.replicate 15 0.1) ∧
    F64.bits (F64.rollingMedian1 7 0.0 (List.replicate 15 0.1)) = F64.bits (List.replicate 15 0.1) ∧
    F64.bits (F64.rollingMean1 3 0.0 (List.replicate 15 0.1)) = F64.bits (List.replicate 15 0.1) ∧
    F64.bits (F64.rollingMean1 5 0.0 (List.replicate 15 0.1)) = F64.bits (List.replicate 15 0.1) := by
  decide +kernel

/-- an interior pixel of `rolling_mean(np.full((15, 15), 1/3), (7, 7), threshold=0)`: the window mean of
49 copies is not `1/3`, so the pixel counts as an outlier at threshold 0, and the mean of the other 48
copies is one unit in the last place below `1/3` -/
theorem f64_mean_changes_constant_2d :
    let c : Float := 1.0 / 3.0
    let cell := F64.meanCell c 3 3 (List.replicate 7 (List.replicate 7 c))
    c.toBits = 0x3FD5555555555555 ∧ cell.m.toBits ≠ c.toBits ∧ (cell.out 0.0).toBits = 0x3FD5555555555554 := by
  decide +kernel

/-! ## float level: a replaced value is measured against the values it averages

"The local replacement (mean without the centre)" of a flagged pixel is a mean of its *neighbours*; the
flagged pixel is not among the values averaged.  Under the standard model of floating-point arithmetic
every way of computing that mean — any order of the additions — stays within `2·E·u` times the mean
*magnitude of the neighbours*, however large the flagged pixel or any other pixel of the image is.  The
correspondence check demands replaced values within exactly this bound (`replBound`, with the magnitude
`rabs` the driver computes on the image of absolute values), so an implementation whose error grows with
the flagged pixel itself (e.g. `(Σ window − x)/(n − 1)`) is outside it as soon as the pixel is large. -/

/-- Any computation (`SExpr`: rounded additions and rounded divisions by counts over the values `v`, in
any shape, values may enter more than once — so pad values, themselves means of real pixels, are covered)
of depth at most `E` is within `replBound u E` of its exact value, measured against the same computation
on the absolute values. -/
theorem rounded_window_within_bound (fl : Rat → Rat) (u : Rat) (hu : 0 ≤ u)
    (hfl : ∀ x, |fl x - x| ≤ u * |x|) (v : List Rat) (e : SExpr) (E : Nat) (hd : e.depth ≤ E)
    (hEu : 2 * (E : Rat) * u ≤ 1) :
    |e.eval fl v - e.exact v| ≤ replBound u E (e.exact (v.map absR)) := by
  have h := SExpr.eval_bound fl u hu hfl v e
  have h1 : (1 + u) ^ e.depth - 1 ≤ 2 * (E : Rat) * u :=
    (FExpr.pow_sub_one_mono u hu hd).trans (pow_sub_one_le_linear u hu E hEu)
  unfold replBound
  exact h.trans (mul_le_mul_of_nonneg_right h1 (SExpr.exact_abs_nonneg v e))

/-- Any order of summation.  `s` adds the values `v[0], …, v[len−1]`, each once, in any order and any
bracketing (`sumOnly`, leaves a permutation of the indices); the sum is divided by the count; every
operation is rounded.  The result is within `2·E·u·mean|v|` of `mean v` for every `E ≥ len`. -/
theorem rounded_mean_any_order (fl : Rat → Rat) (u : Rat) (hu : 0 ≤ u)
    (hfl : ∀ x, |fl x - x| ≤ u * |x|) (v : List Rat) (s : SExpr) (hs : s.sumOnly = true)
    (hp : s.leaves.Perm (List.range v.length)) (E : Nat) (hE : v.length ≤ E)
    (hEu : 2 * (E : Rat) * u ≤ 1) :
    |(SExpr.divn s v.length).eval fl v - mean v| ≤ replBound u E (mean (v.map absR)) := by
  have hlen : s.leaves.length = v.length := by rw [hp.length_eq, List.length_range]
  have hd : (SExpr.divn s v.length).depth ≤ E := by
    have := SExpr.depth_le_leaves s hs
    simp only [SExpr.depth]
    omega
  have h := rounded_window_within_bound fl u hu hfl v (SExpr.divn s v.length) E hd hEu
  have hp' : s.leaves.Perm (List.range (v.map absR).length) := by rw [List.length_map]; exact hp
  have e1 : (SExpr.divn s v.length).exact v = mean v := by
    simp only [SExpr.exact, mean, SExpr.exact_sum_perm v s hs hp]
  have e2 : (SExpr.divn s v.length).exact (v.map absR) = mean (v.map absR) := by
    simp only [SExpr.exact, mean, SExpr.exact_sum_perm (v.map absR) s hs hp', List.length_map]
  rw [e1, e2] at h
  exact h

/-- met by: four neighbours `1, 3/2, 5/4, 1` added left to right by a rounding that really errs, binary64
unit roundoff, the bound the check uses for a window of five (`E = N + 2`) -/
example : (∀ x : Rat, |(x + (1 / 2 ^ 53) * x) - x| ≤ (1 / 2 ^ 53) * |x|) ∧
    (SExpr.seqSum 3).sumOnly = true ∧ (SExpr.seqSum 3).leaves.Perm (List.range ([1, 3 / 2, 5 / 4, 1] : List Rat).length) ∧
    ([1, 3 / 2, 5 / 4, 1] : List Rat).length ≤ 7 ∧ 2 * ((7 : Nat) : Rat) * (1 / 2 ^ 53) ≤ 1 ∧
    (SExpr.divn (SExpr.seqSum 3) 4).exact [1, 3 / 2, 5 / 4, 1] = 19 / 16 := by
  refine ⟨fun x => ?_, by decide, by decide, by decide, by norm_num, by decide +kernel⟩
  have : x + (1 / 2 ^ 53) * x - x = (1 / 2 ^ 53) * x := by ring
  rw [this, abs_mul, abs_of_pos (by positivity)]

/-- the bound does not see the flagged pixel: the mean of the neighbours' magnitudes, and never less than
the magnitude of the replacement itself -/
theorem repl_le_rabs (l : List Rat) : |mean l| ≤ mean (l.map absR) := by
  unfold mean
  rw [abs_div, List.length_map, abs_of_nonneg (Nat.cast_nonneg (α := Rat) l.length)]
  apply div_le_div_of_nonneg_right _ (Nat.cast_nonneg _)
  induction l with
  | nil => simp
  | cons a l ih =>
    simp only [List.sum_cons, List.map_cons]
    rw [absR_eq_abs]
    exact (abs_add_le _ _).trans (add_le_add (le_refl _) ih)

/-- What the driver returns as `rabs` (the mean filter's replacement on the image of absolute values) is,
for an interior pixel and whatever the pad statistic, the mean magnitude of the pixel's neighbours — the
pixel itself left out.  1-D. -/
theorem interior_rabs1 (π : List Rat → Rat) (h : Nat) (x : List Rat) (i : Nat)
    (hi : h ≤ i) (hn : i + h < x.length) :
    ((meanCellsP1 π (2 * h + 1) (abs1 x))[i]?).map (·.repl)
      = some (mean ((slice (i - h) h x ++ slice (i + 1) h x).map absR)) ∧
    (specMeanCell1 h x i).repl = mean (slice (i - h) h x ++ slice (i + 1) h x) := by
  refine ⟨?_, rfl⟩
  rw [interior_any_pad_mean1 π h (abs1 x) i hi (by unfold abs1; rw [List.length_map]; exact hn)]
  simp only [Option.map_some, specMeanCell1, abs1, slice_map, List.map_append]

/-- a spike of `3·10^17` among neighbours near 1: `rabs` is `19/16`, the spike does not enter -/
example : ((meanCellsP1 mean 5 (abs1 [1, -5 / 4, 1, -3 / 2, 300000000000000000, 5 / 4, 1, 3 / 2, 1]))[4]?).map (·.repl)
    = some (19 / 16) := by decide +kernel

/-- 2-D: `rabs` of an interior pixel is the mean magnitude of the other pixels of its window. -/
theorem interior_rabs2 (π : List Rat → Rat) (h0 h1 n1 : Nat) (x : List (List Rat)) (i j : Nat)
    (hrect : ∀ r ∈ x, r.length = n1)
    (hi : h0 ≤ i) (hn : i + h0 < x.length) (hj : h1 ≤ j) (hm : j + h1 < n1) :
    (((meanCellsP2 π (2 * h0 + 1) (2 * h1 + 1) (abs2 x))[i]?).bind (fun r => r[j]?)).map (·.repl)
      = some (mean ((others2 h0 h1 x i j).map absR)) ∧
    (specMeanCell2 h0 h1 x i j).repl = mean (others2 h0 h1 x i j) := by
  refine ⟨?_, rfl⟩
  have hrect' : ∀ r ∈ abs2 x, r.length = n1 := by
    intro r hr
    unfold abs2 at hr
    rw [List.mem_map] at hr
    obtain ⟨q, hq, rfl⟩ := hr
    rw [List.length_map]; exact hrect q hq
  rw [interior_any_pad_mean2 π h0 h1 n1 (abs2 x) i j hrect' hi
    (by unfold abs2; rw [List.length_map]; exact hn) hj hm]
  simp only [Option.map_some, specMeanCell2, others2_abs2]

example : (∀ r ∈ ([[1, -2, 3], [4, -500000000000, 6], [-7, 8, 9]] : List (List Rat)), r.length = 3) ∧
    (((meanCellsP2 mean 3 3 (abs2 [[1, -2, 3], [4, -500000000000, 6], [-7, 8, 9]]))[1]?).bind (fun r => r[1]?)).map (·.repl)
      = some 5 := by
  decide +kernel

/-- Witness (binary64, evaluated by the kernel) of why the bound must be — and can be — this tight: the
window `1, 1.5, 3·10^17, 1.25, 1` of a flagged pixel `3·10^17`.  What pewlib computes, the mean of the four
neighbours with the centre masked out, is `1.1875` exactly; the algebraically equal `(Σ window − x)/(n − 1)`
is `0.0`, because the neighbours are absorbed when they are added to the centre.  `replBound` for this
pixel is `2·7·2⁻⁵³·1.1875 ≈ 1.8·10⁻¹⁵`. -/
theorem f64_subtracted_mean_cancels :
    let w : List (List Float) := [[1.0, 1.5, 3.0e17, 1.25, 1.0]]
    (F64.meanCell 3.0e17 0 2 w).mm.toBits = 0x3FF3000000000000 ∧
    (F64.subtractedMean 3.0e17 w).toBits = 0 ∧
    F64.bits (F64.rollingMean1 5 3.0 [1.0, 1.25, 1.0, 1.5, 3.0e17, 1.25, 1.0, 1.5, 1.0])
      = F64.bits [1.0, 1.25, 1.0, 1.5, 1.1875, 1.25, 1.0, 1.5, 1.0] := by
  decide +kernel

/-! ## locality, and the pixel exactly on the boundary -/

/-- Mean filter, 1-D: the output at a pixel at least `h` from both ends is a function of its window
`x[i-h .. i+h]` alone — two signals (of any lengths) that agree there agree at `i` after filtering.  The
rest of the signal, however large its values, does not enter: this is what allows the correspondence
check to bound the rounding of a pixel by the magnitudes inside that pixel's own window. -/
theorem interior_local_mean1 (h : Nat) (t : Option Rat) (x y : List Rat) (i : Nat)
    (hi : h ≤ i) (hx : i + h < x.length) (hy : i + h < y.length)
    (hw : slice (i - h) (2 * h + 1) x = slice (i - h) (2 * h + 1) y) :
    (rollingMean1 (2 * h + 1) t x)[i]? = (rollingMean1 (2 * h + 1) t y)[i]? := by
  have e := specMeanCell1_local h i x y hi hx hy hw
  have ex : at1 x i = at1 y i := congrArg Cell.x e
  rw [(out_cases_mean1 h t x i hi hx).2, (out_cases_mean1 h t y i hi hy).2, e, ex]

/-- the same window `1, 3/2, [3·10^17], 5/4, 1` inside two different signals -/
example : slice (4 - 2) (2 * 2 + 1) ([7, 7, 1, 3 / 2, 300000000000000000, 5 / 4, 1, 9, 9] : List Rat)
    = slice (4 - 2) (2 * 2 + 1) ([0, -100000000000000000000, 1, 3 / 2, 300000000000000000, 5 / 4, 1, 0] : List Rat) := by
  decide +kernel

/-- Mean filter, 2-D, independent odd windows: the output at `(i, j)` is a function of the
`(2h0+1)×(2h1+1)` window around it. -/
theorem interior_local_mean2 (h0 h1 n1 m1 : Nat) (t : Option Rat) (x y : List (List Rat)) (i j : Nat)
    (hrx : ∀ r ∈ x, r.length = n1) (hry : ∀ r ∈ y, r.length = m1)
    (hi : h0 ≤ i) (hx : i + h0 < x.length) (hy : i + h0 < y.length)
    (hj : h1 ≤ j) (hxm : j + h1 < n1) (hym : j + h1 < m1)
    (hw : (slice (i - h0) (2 * h0 + 1) x).map (slice (j - h1) (2 * h1 + 1))
        = (slice (i - h0) (2 * h0 + 1) y).map (slice (j - h1) (2 * h1 + 1))) :
    ((rollingMean2 (2 * h0 + 1) (2 * h1 + 1) t x)[i]?).bind (fun r => r[j]?)
      = ((rollingMean2 (2 * h0 + 1) (2 * h1 + 1) t y)[i]?).bind (fun r => r[j]?) := by
  have e := specMeanCell2_local h0 h1 n1 m1 i j x y hrx hry hi hx hy hj hxm hym hw
  have ex : at2 x i j = at2 y i j := congrArg Cell.x e
  rw [(out_cases_mean2 h0 h1 n1 t x i j hrx hi hx hj hxm).2,
    (out_cases_mean2 h0 h1 m1 t y i j hry hi hy hj hym).2, e, ex]

example : (slice (1 - 1) (2 * 1 + 1) ([[1, 2, 3, 50], [4, 9, 6, 50], [7, 8, 9, 50]] : List (List Rat))).map (slice (1 - 1) (2 * 1 + 1))
    = (slice (1 - 1) (2 * 1 + 1) ([[1, 2, 3], [4, 9, 6], [7, 8, 9], [0, 0, 0]] : List (List Rat))).map (slice (1 - 1) (2 * 1 + 1)) := by
  decide +kernel

/-- "By MORE than the threshold times the spread": a pixel whose deviation equals the threshold times
the spread exactly is kept — mean filter in the squared form, median filter in the linear form; one that
exceeds it is replaced.  (With `out_cases_*`: an interior pixel exactly on the boundary comes back
unchanged.  The check demands this wherever `meanDecisionExact` certifies an exact float evaluation.) -/
theorem boundary_is_kept (c : Cell) (t : Rat) :
    (c.d * c.d = t * t * c.s → c.outSq (some t) = c.x) ∧ (c.d = t * c.s → c.outLin (some t) = c.x) ∧
    (c.d * c.d > t * t * c.s → c.outSq (some t) = c.repl) ∧ (c.d > t * c.s → c.outLin (some t) = c.repl) := by
  refine ⟨fun h => ?_, fun h => ?_, fun h => ?_, fun h => ?_⟩
  · simp [Cell.outSq, Cell.outlierSq, h]
  · simp [Cell.outLin, Cell.outlierLin, h]
  · simp [Cell.outSq, Cell.outlierSq, h]
  · simp [Cell.outLin, Cell.outlierLin, h]

/-- the planted window of the tie class: neighbours `2, 18, 2, 18` (mean 10, variance 64), pixel `25`
(window mean 13, deviation 12), threshold `3/2`: `12² = (3/2)²·64`, kept; pixel `30` is replaced; and a
float evaluation of the first is exact (`meanDecisionExact`, binary64) -/
example : (specMeanCell1 2 [2, 18, 25, 2, 18] 2).d = 12 ∧ (specMeanCell1 2 [2, 18, 25, 2, 18] 2).s = 64 ∧
    (specMeanCell1 2 [2, 18, 25, 2, 18] 2).outSq (some (3 / 2)) = 25 ∧
    (specMeanCell1 2 [2, 18, 30, 2, 18] 2).outSq (some (3 / 2)) = 10 ∧
    meanDecisionExact 53 (-1074) (some (3 / 2)) 25 [2, 18, 25, 2, 18] [2, 18, 2, 18] = true ∧
    meanDecisionExact 53 (-1074) (some (3 / 2)) (1 / 10) [1 / 10, 1 / 5, 1 / 10] [1 / 10, 1 / 10] = false := by
  decide +kernel

end Pew.Filters
